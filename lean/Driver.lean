import XixiKV.Model.Batch
import XixiKV.Drv.ShardIter
import XixiKV.Drv.Datatype
import XixiKV.Drv.Adopt
import XixiKV.Model.Conc
import XixiKV.Model.Lockset
import XixiKV.Drv.Fio
import XixiKV.Model.ConcMerge
/-!
Line-protocol driver of the Lean model: one operation per input line, one canonical result per
output line — the same lines `harness/cmd/xkv run` consumes and produces for the real engine.
A result `?` means "this observation is not modelled" (the orchestrator skips the comparison and
counts it).
-/
open XixiKV XixiKV.Frame XixiKV.Record XixiKV.Index XixiKV.Engine

def hexVal (c : Char) : Nat :=
  if '0' ≤ c ∧ c ≤ '9' then c.toNat - '0'.toNat
  else if 'a' ≤ c ∧ c ≤ 'f' then c.toNat - 'a'.toNat + 10
  else if 'A' ≤ c ∧ c ≤ 'F' then c.toNat - 'A'.toNat + 10 else 0

def parseHex (s : String) : ByteArray := Id.run do
  let cs := s.toList.toArray
  let mut out := ByteArray.emptyWithCapacity (cs.size / 2)
  let mut i := 0
  while i + 1 < cs.size do
    out := out.push (hexVal cs[i]! * 16 + hexVal cs[i+1]!).toUInt8
    i := i + 2
  return out

def hexDigit (n : Nat) : Char := if n < 10 then Char.ofNat (48 + n) else Char.ofNat (87 + n)

def toHex (b : ByteArray) : String := Id.run do
  let mut s := ""
  for x in b.data do
    s := s.push (hexDigit (x.toNat / 16))
    s := s.push (hexDigit (x.toNat % 16))
  return s

def patBytes (seed n : Nat) : ByteArray := Id.run do
  let mut out := ByteArray.emptyWithCapacity n
  let s := seed * 131
  for i in [0:n] do
    out := out.push ((s + i * i * 7 + i * 13 + i / 256) % 256).toUInt8
  return out

def parseKey (t : String) : ByteArray := if t = "-" ∨ t = "nil" then ByteArray.empty else parseHex t

def parseVal (t : String) : ByteArray :=
  if t = "-" ∨ t = "nil" then ByteArray.empty
  else if t.startsWith "x" then parseHex (t.drop 1).toString
  else if t.startsWith "p" then
    match (t.drop 1).toString.splitOn ":" with
    | [s, n] => patBytes s.toNat! n.toNat!
    | _ => ByteArray.empty
  else ByteArray.empty

def hex8 (n : Nat) : String := Id.run do
  let mut s := ""
  for i in [0:8] do
    s := s.push (hexDigit (n / 16 ^ (7 - i) % 16))
  return s

def fmtVal (v : ByteArray) : String := s!"v{v.size}:{hex8 (Chunk.checksum v).toNat}"
def fmtKey (k : ByteArray) : String := if k.size = 0 then "-" else toHex k

def fmtRes : Res → String
  | .ok => "ok"
  | .val v => fmtVal v
  | .notFound => "notfound"
  | .err e =>
    if e = "not-open" ∨ e = "no-batch" ∨ e = "already-open" then "bad:" ++ e
    else if e.startsWith "panic:" then e
    else "err:" ++ e

def pad9 (n : Nat) : String :=
  let s := toString n
  String.ofList (List.replicate (9 - s.length) '0') ++ s

def insertSorted (x : String) : List String → List String
  | [] => [x]
  | y :: ys => if x < y then x :: y :: ys else y :: insertSorted x ys

def fmtFiles (w : World) (d : String) : String :=
  match w.get d with
  | none => "files absent"
  | some ds =>
    let names := ds.data.map (fun (i, f) => s!"{pad9 i}.data:{f.bytes.size}")
    let names := match ds.hint with
      | some h => s!"000000000.hint:{h.size}" :: names
      | none => names
    let names := match ds.marker with
      | some m => s!"000000000.merge-finished:{m.size}" :: names
      | none => names
    "files " ++ ",".intercalate (names.foldl (fun acc x => insertSorted x acc) [])

structure DfSess where
  dir : String
  id : Nat
  hint : Bool
  io : Nat
  staged : List ByteArray

structure DState where
  st : St
  iters : List (String × Iter)
  df : Option DfSess := none
  ix : XixiKV.ShardIter.Drv.DrvState := XixiKV.ShardIter.Drv.DrvState.init
  dt : XixiKV.Datatype.Drv.DrvState := XixiKV.Datatype.Drv.DrvState.init
  fio : XixiKV.Fio.Drv.DrvState := XixiKV.Fio.Drv.DrvState.init

def itGet (l : List (String × Iter)) (id : String) : Option Iter := (l.find? (·.1 = id)).map (·.2)
def itSet (l : List (String × Iter)) (id : String) (it : Iter) : List (String × Iter) :=
  (id, it) :: l.filter (·.1 ≠ id)

def fmtIter (s : St) (it : Iter) : String :=
  match s.db, it.items[it.cur]? with
  | some db, some (k, p) =>
    s!"it {fmtKey k} {fmtRes (valueAt s db p)}"
  | _, _ => "it invalid"

def parseCfg (a : List String) : Cfg :=
  match a with
  | [fs, sy, bps, idx, io, sh] =>
    { fileSize := fs.toNat!, sync := sy.toNat!, bps := bps.toNat!, idx := idx.toNat!, io := io.toNat!, shards := sh.toNat! }
  | _ => default

def fmtDump (s : St) (db : DB) : String :=
  let parts := (fold s db).map (fun (k, r) => s!"{fmtKey k}={fmtRes r}")
  s!"dump n={db.index.length} " ++ ",".intercalate parts

def fmtPos (p : Pos) : String := s!"{p.fid}.{p.block}.{p.off}.{p.size}"

def parseRec (a : List String) : Option Record.Record :=
  match a with
  | [t, k, v, b] => some { typ := t.toNat!, key := parseKey k, value := parseVal v, batch := b.toNat! }
  | _ => none

def fmtRec (r : Record.Record) : String := s!"{r.typ}/{fmtKey r.key}/{fmtVal r.value}/{r.batch}"

def dfBytes (s : St) (d : DfSess) : ByteArray :=
  match s.world.get d.dir with
  | none => ByteArray.empty
  | some dir => if d.hint then dir.hint.getD ByteArray.empty else ((getFile dir.data d.id).map (·.bytes)).getD ByteArray.empty

def dfSet (s : St) (d : DfSess) (b : ByteArray) : St :=
  let dir := (s.world.get d.dir).getD DirSt.empty
  let dir := if d.hint then { dir with hint := some b } else { dir with data := setFile dir.data d.id ⟨b, 0⟩ }
  { s with world := s.world.set d.dir dir }

def dfStep (ds : DState) (op : String) (a : List String) : DState × String :=
  let s := ds.st
  match op, a with
  | "df.open", dir :: id :: io :: rest =>
    match ds.df with
    | some _ => (ds, "bad:df-open")
    | none =>
      let d : DfSess := { dir := dir, id := id.toNat!, hint := rest = ["hint"], io := io.toNat!, staged := [] }
      let b := dfBytes s d
      ({ ds with st := dfSet s d b, df := some d }, s!"ok size={b.size}")
  | _, _ =>
    match ds.df with
    | none => (ds, "bad:no-df")
    | some d =>
      let f := dfBytes s d
      match op, a with
      | "df.write", r =>
        match parseRec r with
        | none => (ds, "?")
        | some r =>
          let p := encodeRecord r
          ({ ds with st := dfSet s d (appendRec C f p) }, "pos " ++ fmtPos (posOf C d.id f.size p))
      | "df.stage", r =>
        match parseRec r with
        | none => (ds, "?")
        | some r => ({ ds with df := some { d with staged := d.staged ++ [encodeRecord r] } }, "ok")
      | "df.flush", [] =>
        let ps := posAll C d.id f d.staged
        ({ ds with st := dfSet s d (appendAll C f d.staged), df := some { d with staged := [] } },
          "flushed " ++ ",".intercalate (ps.map fmtPos))
      | "df.hint", [k, fid, blk, off, sz] =>
        let p : Pos := { fid := fid.toNat!, block := blk.toNat!, off := off.toNat!, size := sz.toNat! }
        ({ ds with st := dfSet s d (appendRec C f (encodeHint (parseKey k) p)) }, "ok")
      | "df.readval", [b, o] =>
        match readAt C f b.toNat! o.toNat! with
        | .ok payload =>
          match decodeValue payload with
          | some v => (ds, fmtVal v)
          | none => (ds, "err:crc")
        | .eof => (ds, "err:eof")
        | .err => (ds, "err:crc")
      | "df.scan", [] =>
        let sc := scan C false d.id f
        -- `NextLogRecord` reports a payload that contradicts its own header (`validLogRecord`) as corruption: the scan stops there
        let good := sc.recs.takeWhile (fun (x : ByteArray × Pos) => (decodeRecord x.1).isSome)
        let parts := good.map (fun (x : ByteArray × Pos) =>
          match decodeRecord x.1 with
          | some r => fmtRec r ++ "@" ++ fmtPos x.2
          | none => "?")
        (ds, "scan " ++ " ".intercalate (parts ++ [if sc.ok && good.length == sc.recs.length then "eof" else "err:crc"]))
      | "df.scan", ["tol"] =>
        let sc := scan C true d.id f
        -- `NextLogRecord` reports a payload that contradicts its own header (`validLogRecord`) as corruption: the scan stops there
        let good := sc.recs.takeWhile (fun (x : ByteArray × Pos) => (decodeRecord x.1).isSome)
        let parts := good.map (fun (x : ByteArray × Pos) =>
          match decodeRecord x.1 with
          | some r => fmtRec r ++ "@" ++ fmtPos x.2
          | none => "?")
        (ds, "scan " ++ " ".intercalate (parts ++ [if sc.ok && good.length == sc.recs.length then "eof" else "err:crc"]))
      | "df.scanhint", [] =>
        let sc := scan C false d.id f
        let good := sc.recs.takeWhile (fun (x : ByteArray × Pos) => (decodeHint x.1).isSome)
        let parts := good.map (fun (x : ByteArray × Pos) =>
          match decodeHint x.1 with
          | some (k, p) => fmtKey k ++ "@" ++ fmtPos p
          | none => "?")
        (ds, "scanhint " ++ " ".intercalate (parts ++ [if sc.ok && good.length == sc.recs.length then "eof" else "err:crc"]))
      | "df.size", [] => (ds, s!"size logical={f.size} last={f.size / BS}.{f.size % BS}")
      | "df.phys", [] => if d.io = 1 then (ds, "?") else (ds, s!"phys {f.size}")
      | "df.sync", [] => (ds, "ok")
      | "df.close", [] => ({ ds with df := none }, "ok")
      | "df.sum", [] => (ds, "sum " ++ fmtVal f)
      | _, _ => (ds, "?")

def parseOrder (a : List String) : List Nat :=
  match a with
  | [o] => if o.startsWith "order=" then ((o.drop 6).toString.splitOn ",").filterMap (·.toNat?) else []
  | _ => []

def stepMain (ds : DState) (toks : List String) : DState × String :=
  let s := ds.st
  let lift (r : St × Res) : DState × String := ({ ds with st := r.1 }, fmtRes r.2)
  match toks with
  | "open" :: d :: cfg => lift (openDB s d (parseCfg cfg))
  | ["close"] => let r := close s; ({ ds with st := r.1, iters := [] }, fmtRes r.2)
  | ["scribble", _] => (ds, "ok")
  | ["checkret"] => (ds, "?")
  | ["put", k, v] => lift (put s (parseKey k) (parseVal v))
  | ["get", k] => lift (get s (parseKey k))
  | ["del", k] => lift (delete s (parseKey k))
  | ["sync"] => lift (syncDB s)
  | ["stat"] =>
    match s.db with
    | none => (ds, "bad:not-open")
    | some db => let t := stat s db; (ds, s!"stat keys={t.keys} files={t.files} reclaim={t.reclaim} disk={t.disk}")
  | ["keys"] =>
    match s.db with
    | none => (ds, "bad:not-open")
    | some db => (ds, "keys " ++ ",".intercalate ((listKeys db).map fmtKey))
  | ["fold"] =>
    match s.db with
    | none => (ds, "bad:not-open")
    | some db =>
      let items := fold s db
      match items.find? (fun x => match x.2 with | .val _ => false | _ => true) with
      | some (_, r) => (ds, fmtRes r)
      | none => (ds, "fold " ++ ",".intercalate (items.map (fun (k, r) => s!"{fmtKey k}={fmtRes r}")))
  | "fold" :: _ => (ds, "?")
  | ["dump"] =>
    match s.db with
    | none => (ds, "bad:not-open")
    | some db => (ds, fmtDump s db)
  | ["scanstat"] => (ds, "?")
  | "merge" :: rest => lift (merge s (parseOrder rest))
  | ["backup", d] => lift (backup s d)
  | ["active"] =>
    match s.db with
    | none => (ds, "bad:not-open")
    | some db => (ds, s!"active {db.activeId} {(activeFile s db).bytes.size}")
  | ["pos", k] =>
    match s.db with
    | none => (ds, "bad:not-open")
    | some db =>
      match Index.get db.index (parseKey k) with
      | none => (ds, "pos nil")
      | some p => (ds, s!"pos {p.fid} {p.block} {p.off} {p.size}")
  | ["files", d] =>
    match s.db with
    | some db => if db.cfg.io = 1 ∧ db.dir = d then (ds, "?") else (ds, fmtFiles s.world d)
    | none => (ds, fmtFiles s.world d)
  | "bnew" :: sy :: rest =>
    match rest with
    | [id] => lift (bnew s (sy = "1") id.toNat!)
    | _ => (ds, "?")
  | ["bput", k, v] => lift (bput s (parseKey k) (parseVal v))
  | ["bget", k] => lift (bget s (parseKey k))
  | ["bdel", k] => lift (bdel s (parseKey k))
  | ["bcommit"] => lift (bcommit s)
  | ["bdrop"] => lift (bdrop s)
  | ["it.new", id, pre, rev] =>
    match s.db with
    | none => (ds, "bad:not-open")
    | some db =>
      let it := iterNew db (parseKey pre) (rev = "1")
      ({ ds with iters := itSet ds.iters id it }, fmtIter s it)
  | ["it.rewind", id] =>
    match itGet ds.iters id with
    | none => (ds, "bad:no-iter")
    | some it => let it := it.rewind; ({ ds with iters := itSet ds.iters id it }, fmtIter s it)
  | ["it.next", id] =>
    match itGet ds.iters id with
    | none => (ds, "bad:no-iter")
    | some it => let it := it.next; ({ ds with iters := itSet ds.iters id it }, fmtIter s it)
  | ["it.seek", id, k] =>
    match itGet ds.iters id with
    | none => (ds, "bad:no-iter")
    | some it => let it := it.seek (parseKey k); ({ ds with iters := itSet ds.iters id it }, fmtIter s it)
  | ["it.state", id] =>
    match itGet ds.iters id with
    | none => (ds, "bad:no-iter")
    | some it => (ds, fmtIter s it)
  | ["it.close", id] => ({ ds with iters := ds.iters.filter (·.1 ≠ id) }, "ok")
  | ["cpdir", a, b] =>
    match s.world.get a with
    | none => (ds, "?")
    | some d => ({ ds with st := { s with world := (s.world.remove b).set b { d with locked := false } } }, "ok")
  | ["setfile", d, file, hex, zext] =>
    -- load a file of a crash image: logical bytes plus a zero extension (capped: only its
    -- presence matters to the reader rule)
    let bytes := (if hex = "-" then ByteArray.empty else parseHex hex) ++ zeros (min zext.toNat! 70000)
    let dir := (s.world.get d).getD DirSt.empty
    if file.endsWith ".data" then
      let id := (file.take 9).toString.toNat!
      ({ ds with st := { s with world := s.world.set d { dir with data := setFile dir.data id ⟨bytes, 0⟩ } } }, "ok")
    else if file.endsWith ".hint" then
      ({ ds with st := { s with world := s.world.set d { dir with hint := some bytes } } }, "ok")
    else if file.endsWith ".merge-finished" then
      ({ ds with st := { s with world := s.world.set d { dir with marker := some bytes } } }, "ok")
    else (ds, "?")
  | ["sumdir", d] =>
    match s.world.get d with
    | none => (ds, "sumdir absent")
    | some dir => (ds, "sumdir " ++ ",".intercalate (dir.data.map (fun (i, f) => s!"{pad9 i}.data:{fmtVal f.bytes}")))
  | ["haslock", _] => (ds, "?")
  | ["ix.npot", n] => (ds, toString (XixiKV.Index.nextPowerOfTwo n.toNat!))
  | ["mkdir", d] =>
    if (s.world.get d).isSome then (ds, "ok") else ({ ds with st := { s with world := s.world.set d DirSt.empty } }, "ok")
  | ["rmdir", d] => ({ ds with st := { s with world := s.world.remove d } }, "ok")
  | ["rmfile", d, file] =>
    -- one file of a CLOSED directory disappears (e.g. the completion marker of a merge directory: the state right before it was written)
    match s.world.get d with
    | none => (ds, "err:remove")
    | some dir =>
      if file.endsWith ".merge-finished" then
        if dir.marker.isSome then ({ ds with st := { s with world := s.world.set d { dir with marker := none } } }, "ok") else (ds, "err:remove")
      else if file.endsWith ".hint" then
        if dir.hint.isSome then ({ ds with st := { s with world := s.world.set d { dir with hint := none } } }, "ok") else (ds, "err:remove")
      else if file.endsWith ".data" then
        let id := (file.take 9).toString.toNat!
        if (getFile dir.data id).isSome then ({ ds with st := { s with world := s.world.set d { dir with data := removeFile dir.data id } } }, "ok")
        else (ds, "err:remove")
      else (ds, "err:remove")
  | ["trunc", d, file, n] =>
    match s.world.get d with
    | none => (ds, "err:trunc")
    | some dir =>
      if file.endsWith ".data" then
        let id := (file.take 9).toString.toNat!
        match getFile dir.data id with
        | none => (ds, "err:trunc")
        | some f =>
          let n := n.toNat!
          let bytes := if n ≤ f.bytes.size then f.bytes.extract 0 n else f.bytes ++ zeros (n - f.bytes.size)
          ({ ds with st := { s with world := s.world.set d { dir with data := setFile dir.data id { bytes := bytes, synced := min f.synced n } } } }, "ok")
      else (ds, "?")
  | ["cutout", d, file, off, n] =>
    match s.world.get d with
    | none => (ds, "err:open")
    | some dir =>
      if file.endsWith ".data" then
        let id := (file.take 9).toString.toNat!
        match getFile dir.data id with
        | none => (ds, "err:open")
        | some f =>
          let off := off.toNat!
          let n := n.toNat!
          if off + n > f.bytes.size then (ds, "err:range") else
          let bytes := f.bytes.extract 0 off ++ f.bytes.extract (off + n) f.bytes.size
          ({ ds with st := { s with world := s.world.set d { dir with data := setFile dir.data id { bytes := bytes, synced := min f.synced bytes.size } } } }, "ok")
      else (ds, "?")
  | ["cpblk", d, file, o1, o2, n] =>
    match s.world.get d with
    | none => (ds, "err:open")
    | some dir =>
      if file.endsWith ".data" then
        let id := (file.take 9).toString.toNat!
        match getFile dir.data id with
        | none => (ds, "err:open")
        | some f =>
          let o1 := o1.toNat!
          let o2 := o2.toNat!
          let n := n.toNat!
          if o1 + n > f.bytes.size ∨ o2 + n > f.bytes.size then (ds, "err:range") else
          let b := f.bytes
          let bytes := b.extract 0 o2 ++ b.extract o1 (o1 + n) ++ b.extract (o2 + n) b.size
          ({ ds with st := { s with world := s.world.set d { dir with data := setFile dir.data id { f with bytes := bytes } } } }, "ok")
      else (ds, "?")
  | ["swapblk", d, file, o1, o2, n] =>
    match s.world.get d with
    | none => (ds, "err:open")
    | some dir =>
      if file.endsWith ".data" then
        let id := (file.take 9).toString.toNat!
        match getFile dir.data id with
        | none => (ds, "err:open")
        | some f =>
          let o1 := o1.toNat!
          let o2 := o2.toNat!
          let n := n.toNat!
          if o1 + n > o2 ∨ o2 + n > f.bytes.size then (ds, "err:range") else
          let b := f.bytes
          let bytes := b.extract 0 o1 ++ b.extract o2 (o2 + n) ++ b.extract (o1 + n) o2 ++ b.extract o1 (o1 + n) ++ b.extract (o2 + n) b.size
          ({ ds with st := { s with world := s.world.set d { dir with data := setFile dir.data id { f with bytes := bytes } } } }, "ok")
      else (ds, "?")
  | ["corrupt", d, file, off, x] =>
    match s.world.get d with
    | none => (ds, "err:open")
    | some dir =>
      if file.endsWith ".data" then
        let id := (file.take 9).toString.toNat!
        match getFile dir.data id with
        | none => (ds, "err:open")
        | some f =>
          let off := off.toNat!
          if off ≥ f.bytes.size then (ds, "err:range") else
          let bytes := f.bytes.set! off ((f.bytes.get! off) ^^^ x.toNat!.toUInt8)
          ({ ds with st := { s with world := s.world.set d { dir with data := setFile dir.data id { f with bytes := bytes } } } }, "ok")
      else if file.endsWith ".merge-finished" then
        match dir.marker with
        | none => (ds, "err:open")
        | some h =>
          let off := off.toNat!
          if off ≥ h.size then (ds, "err:range") else
          ({ ds with st := { s with world := s.world.set d { dir with marker := some (h.set! off ((h.get! off) ^^^ x.toNat!.toUInt8)) } } }, "ok")
      else if file.endsWith ".hint" then
        match dir.hint with
        | none => (ds, "err:open")
        | some h =>
          let off := off.toNat!
          if off ≥ h.size then (ds, "err:range") else
          ({ ds with st := { s with world := s.world.set d { dir with hint := some (h.set! off ((h.get! off) ^^^ x.toNat!.toUInt8)) } } }, "ok")
      else (ds, "?")
  | _ => (ds, "?")

def step (ds : DState) (line : String) : DState × String :=
  match line.splitOn " " |>.filter (· ≠ "") with
  | "conc" :: flags :: rest =>
    -- model prediction for a forced schedule: flags = three chars 0/1 (putIndexInLock, delCheckInLock,
    -- delIndexInLock) or "gen" = the shape computed from the generated lockset table
    let sh : XixiKV.Conc.Shape :=
      if flags = "gen" then XixiKV.Lockset.shapeOf XixiKV.Generated.locksetTable
      else match flags.toList with
        | [a, b, c] => ⟨a = '1', b = '1', c = '1'⟩
        | _ => XixiKV.Conc.Shape.allTrue
    match XixiKV.Conc.parseSchedule (" ".intercalate rest) with
    | some sc => (ds, (XixiKV.Conc.run sh sc).render)
    | none => (ds, "bad:schedule")
  | "concm" :: flags :: rest =>
    -- the same with a concurrent Merge (Model/ConcMerge.lean); flags = "gen" or four chars, the
    -- fourth = "the merge fixes its boundary while holding db.mu"
    let tbl := XixiKV.Generated.locksetTable
    let (sh, b) : XixiKV.Conc.Shape × Bool :=
      if flags = "gen" then (XixiKV.Lockset.shapeOf tbl, XixiKV.Lockset.mergeStartInLock tbl)
      else match flags.toList with
        | [a, b, c, d] => (⟨a = '1', b = '1', c = '1'⟩, d = '1')
        | _ => (XixiKV.Conc.Shape.allTrue, true)
    match XixiKV.ConcMerge.parseScheduleM (" ".intercalate rest) with
    | some sc => (ds, XixiKV.ConcMerge.renderM sh b sc)
    | none => (ds, "bad:schedule")
  | ["geom", o, n] =>
    -- writeToBuf geometry for a file whose writer state is (0, o) and a payload of n bytes
    let g := geom o.toNat! n.toNat!
    (ds, s!"{g.1} {g.2.1} {g.2.2.1} {g.2.2.2 / BS} {g.2.2.2 % BS}")
  | op :: a =>
    if op.startsWith "df." then dfStep ds op a
    else if op = "ix.npot" then stepMain ds (op :: a)
    else if op.startsWith "ix." ∨ op.startsWith "ixit." then
      match XixiKV.ShardIter.Drv.step ds.ix (op :: a) with
      | some (ix', out) => ({ ds with ix := ix' }, out)
      | none => (ds, "?")
    else if op = "adoptprefix" then
      match XixiKV.Adopt.Drv.step ds.st (op :: a) with
      | some (st', out) => ({ ds with st := st' }, out)
      | none => (ds, "?")
    else if op.startsWith "fio." then
      match XixiKV.Fio.Drv.step ds.fio (op :: a) with
      | some (f', out) => ({ ds with fio := f' }, out)
      | none => (ds, "?")
    else if op.startsWith "dt." then
      match XixiKV.Datatype.Drv.step ds.dt (op :: a) with
      | some (dt', out) => ({ ds with dt := dt' }, out)
      | none => (ds, "?")
    else stepMain ds (op :: a)
  | [] => (ds, "?")

partial def loop (h : IO.FS.Stream) (out : IO.FS.Stream) (ds : DState) : IO Unit := do
  let line ← h.getLine
  if line.isEmpty then return ()
  let line := line.trimAscii.toString
  if line.isEmpty ∨ line.startsWith "#" then
    loop h out ds
  else
    let (ds', o) := step ds line
    out.putStrLn o
    out.flush
    loop h out ds'

def main : IO Unit := do
  loop (← IO.getStdin) (← IO.getStdout) { st := St.init, iters := [] }
