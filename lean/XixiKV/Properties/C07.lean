import XixiKV.Proofs.EngineMerge.Crash
import XixiKV.Properties.C02
import XixiKV.Properties.C06
/-!
# C07 — a crash during Merge or during the adoption of a finished merge never loses or resurrects data

"If the process dies at any instant while Merge is running, or while a finished merge is being
adopted during Open, every later Open recovers exactly the mapping that was acknowledged before
the crash: an unfinished merge is ignored, a finished one is adopted once, and re-running an
interrupted adoption is harmless."

Model: `Model/Adopt.lean` lists the file-system calls of `loadMergeFiles` as atomic steps computed
from the directory state (`steps`), `applyPrefix w dir k` is the crash image after `k` of them.
`Proofs/EngineMerge*.lean` proves `adopt_eq_steps` (all steps = the atomic `Engine.adopt` used by
`openDB`).  A retry runs `adopt` again *from the top* on the crash image.
-/
namespace XixiKV.C07
open XixiKV XixiKV.Frame XixiKV.Record XixiKV.Index XixiKV.Engine XixiKV.Adopt XixiKV.Engine.MergeP XixiKV.Engine.Restart

/-- a sequence of interrupted adoption attempts: the i-th attempt (an `Open`) dies after `ks[i]` of
    the steps it computed from the directory state it found -/
def crashes (w : World) (dir : String) (ks : List Nat) : World := ks.foldl (fun w k => applyPrefix w dir k) w

/-- **C07, idempotence of adoption (directory level).**  For every world whose data directory
    exists and whose two directories list their files with ascending ids (the representation
    invariant of `DirSt.data`), and every `k`: let the process die after the first `k` file-system
    steps of adoption; the retry (`adopt` from the top on the crash image)

    * leaves the data directory *exactly* as an uninterrupted adoption does (same files, same
      bytes, same hint file, same lock bit) and touches no other directory,
    * leaves nothing to adopt (`plan = none`: a third `Open` takes the plain path),
    * is, as long as the marker had not yet been removed (`k + 2 ≤` number of steps), equal to the
      uninterrupted adoption in *every* respect: same world (merge directory gone), same returned
      `nonMergeFileId`,
    * otherwise returns `nonMergeFileId = 0` — the ONE observable difference: the marker is
      already gone, the leftover merge directory (if `removeDir` had not run) is ignored, and `Open`
      rebuilds the index by scanning all files instead of reading the hint file.  That both paths
      build the same index is C18 (`C18_hint_eq_scan`).  -/
theorem C07_adopt_idempotent (w : World) (dir : String) (h : DirsAsc w dir) (k : Nat) :
    (adopt (applyPrefix w dir k) dir).1.get dir = (adopt w dir).1.get dir ∧
    (∀ n, n ≠ dir → n ≠ mergeDirName dir → (adopt (applyPrefix w dir k) dir).1.get n = (adopt w dir).1.get n) ∧
    plan (adopt (applyPrefix w dir k) dir).1 dir = none ∧
    (k + 2 ≤ (steps w dir).length → adopt (applyPrefix w dir k) dir = adopt w dir) ∧
    ((adopt (applyPrefix w dir k) dir).2 = (adopt w dir).2 ∨ (adopt (applyPrefix w dir k) dir).2 = 0) ∧
    DirsAsc (applyPrefix w dir k) dir := by
  obtain ⟨hasc, hdata, hfull, hid⟩ := adoptP_prefix (viewP w dir) h.asc k
  have hpre := applyPrefix_eq w dir h.ex k
  have hadoptw := adopt_eq_adoptP w dir h.ex
  refine ⟨?_, ?_, ?_, ?_, ?_, DirsAsc_applyPrefix w dir h k⟩
  · rw [hpre, adopt_put, get_put_dir, hadoptw, get_put_dir, hdata]
  · intro n h1 h2
    rw [adopt_get_other _ _ _ h1 h2, adopt_get_other _ _ _ h1 h2]
    unfold applyPrefix
    exact applySteps_get_other _ _ _ _ h1 h2
  · rw [hpre, adopt_put, plan_eq, view_put]; exact planP_adoptP _
  · intro hk
    rw [hpre, adopt_put, hadoptw, hfull (by rw [← steps_eq]; exact hk)]
  · rw [hpre, adopt_put, hadoptw]; exact hid

/-- … and by induction for ANY number of crashed retries with ANY choice of crash points
    `k₁, k₂, …` (each retry recomputes its steps from the state it finds): the adoption that
    finally completes produces the same data directory as an adoption that was never interrupted -/
theorem C07_adopt_idempotent_iter (dir : String) (ks : List Nat) : ∀ (w : World), DirsAsc w dir →
    (adopt (crashes w dir ks) dir).1.get dir = (adopt w dir).1.get dir ∧
    (∀ n, n ≠ dir → n ≠ mergeDirName dir → (adopt (crashes w dir ks) dir).1.get n = (adopt w dir).1.get n) ∧
    plan (adopt (crashes w dir ks) dir).1 dir = none ∧
    ((adopt (crashes w dir ks) dir).2 = (adopt w dir).2 ∨ (adopt (crashes w dir ks) dir).2 = 0) ∧
    DirsAsc (crashes w dir ks) dir := by
  induction ks with
  | nil =>
    intro w h
    refine ⟨rfl, fun _ _ _ => rfl, ?_, Or.inl rfl, h⟩
    show plan (adopt w dir).1 dir = none
    rw [adopt_eq_adoptP w dir h.ex, plan_eq, view_put]; exact planP_adoptP _
  | cons k ks ih =>
    intro w h
    obtain ⟨a1, a2, _, _, a5, a6⟩ := C07_adopt_idempotent w dir h k
    obtain ⟨b1, b2, b3, b4, b5⟩ := ih (applyPrefix w dir k) a6
    have e : crashes w dir (k :: ks) = crashes (applyPrefix w dir k) dir ks := rfl
    rw [e]
    refine ⟨by rw [b1, a1], fun n h1 h2 => by rw [b2 n h1 h2, a2 n h1 h2], b3, ?_, b5⟩
    rcases b4 with b4 | b4
    · rcases a5 with a5 | a5
      · exact Or.inl (by rw [b4, a5])
      · exact Or.inr (by rw [b4, a5])
    · exact Or.inr b4

/-- **C07, an unfinished merge is ignored (directory level).**  A merge directory without a marker
    — what a `Merge` that died, or reported an error, leaves behind — or with a marker that does
    not decode to a valid `(mergeID ≠ 0, count ≤ mergeID)` is not touched and nothing is adopted:
    `adopt` is the identity and reports `nonMergeFileId = 0`; there are no adoption steps. -/
theorem C07_no_marker_ignored (w : World) (dir : String) (h : plan w dir = none) :
    adopt w dir = (w, 0) ∧ steps w dir = [] ∧ ∀ k, applyPrefix w dir k = w := by
  refine ⟨adopt_of_plan_none h, ?_, ?_⟩
  · unfold steps; rw [h]
  · intro k; unfold applyPrefix steps; rw [h]; simp only [List.take_nil]; rfl

theorem C07_no_marker_plan (w : World) (dir : String) (md : DirSt) (h : w.get (mergeDirName dir) = some md)
    (hm : md.marker = none) : plan w dir = none := plan_none_of_no_marker h hm

/-- **C07, an unfinished merge is ignored (`Open` level)** = C02 with the hypothesis "no merge
    directory" weakened to "no readable marker": `Close` then `Open` (any valid configuration)
    succeeds, restores the same index and mapping, leaves every directory as it was (the files are
    flushed, the lock is taken) — in particular the data files are untouched and the stale merge
    directory is still there (the next `Merge` deletes it first thing). -/
theorem C07_no_marker_open (s : St) (db : DB) (g : GDir) (cfg' : Cfg)
    (hdb : s.db = some db) (hinv : Inv s db g) (hplan : plan s.world db.dir = none) (hcfg : cfg'.Valid) :
    ∃ d s' db', s.world.get db.dir = some d ∧ openDB (close s).1 db.dir cfg' = (s', .ok) ∧ s'.db = some db' ∧
      s'.world = s.world.set db.dir { d with data := syncAll d.data, locked := true } ∧
      db'.index = db.index ∧ db'.activeId = db.activeId ∧
      (∀ k, absGet s' db' k = absGet s db k) ∧ Inv s' db' g ∧
      (∀ n, n ≠ db.dir → s'.world.get n = s.world.get n) := by
  obtain ⟨d, hd, hlock, hm⟩ := hinv.dir
  have hclose := close_eq s db d hdb hd
  have hms : Matches (syncAll d.data) g := Matches_syncAll hm
  have hplan' : plan (s.world.set db.dir { d with data := syncAll d.data, locked := false }) db.dir = none := by
    unfold plan at hplan ⊢
    rw [MergeP.get_set_ne _ _ _ _ (mname_ne _)]
    exact hplan
  have hopen := openDB_ghost
    { world := s.world.set db.dir { d with data := syncAll d.data, locked := false }, db := none }
    db.dir cfg' { d with data := syncAll d.data, locked := false } g db.activeId
    rfl hcfg (MergeP.get_set_self _ _ _) rfl hplan' hms hinv.recs hinv.active
  rw [hclose]
  simp only [] at hopen ⊢
  rw [set_set] at hopen
  refine ⟨d, _, _, hd, hopen, rfl, rfl, hinv.index.symm, rfl, ?_, ?_, ?_⟩
  · intro k
    apply absGet_congr
    · exact hinv.index.symm
    · intro id
      simp only [dirOf, scanDB, MergeP.get_set_self, hd, Option.getD_some]
      exact getFile_syncAll d.data id
  · exact Inv_scanDB _ db.dir cfg' _ g db.activeId (MergeP.get_set_self _ _ _) rfl hms hinv.asc hinv.recs
      hinv.active _ rfl
  · intro n hn
    exact MergeP.get_set_ne _ _ _ _ hn

/-- **C07, `Merge` gets rid of what an earlier `Merge` left behind.**  A second `Merge` without a
    restart in between finds the FINISHED, not yet adopted output of the first one and removes that
    directory before it starts over.  Removing a directory is not atomic (`os.RemoveAll` unlinks file
    by file), so the process can die with ANY part of its content still there.  The repaired `Merge`
    unlinks the marker first; from then on the directory has no marker, whatever else is left of it
    (`md'` is arbitrary but for `marker = none`: any subset of the rewritten files, with or without the
    hint file, any bytes).  Every such image is ignored by `Open`: `Close`/process death and `Open`
    under any valid configuration restore exactly the mapping of `s`, and the invariant.
    (Before the marker is unlinked the directory is the complete output of a finished merge, which
    `C07_crash_safe` covers; the unlink itself is atomic.) -/
theorem C07_leftover_removal_crash (s : St) (db : DB) (g : GDir) (cfg' : Cfg) (md' : DirSt)
    (hdb : s.db = some db) (hinv : Inv s db g) (hmk : md'.marker = none) (hcfg : cfg'.Valid) :
    plan (s.world.set (mergeDirName db.dir) md') db.dir = none ∧
    ∃ s' db', openDB (close ⟨s.world.set (mergeDirName db.dir) md', s.db⟩).1 db.dir cfg' = (s', .ok) ∧
      s'.db = some db' ∧ db'.index = db.index ∧ (∀ k, absGet s' db' k = absGet s db k) ∧ Inv s' db' g := by
  have hne := mname_ne db.dir
  have hplan : plan (s.world.set (mergeDirName db.dir) md') db.dir = none :=
    plan_none_of_no_marker (MergeP.get_set_self _ _ _) hmk
  have hget : (s.world.set (mergeDirName db.dir) md').get db.dir = s.world.get db.dir :=
    MergeP.get_set_ne _ _ _ _ hne.symm
  have hdir : ∃ d, (s.world.set (mergeDirName db.dir) md').get db.dir = some d ∧ d.locked = true ∧ Matches d.data g := by
    obtain ⟨d, h1, h2, h3⟩ := hinv.dir
    exact ⟨d, by rw [hget]; exact h1, h2, h3⟩
  have hinv1 : Inv ⟨s.world.set (mergeDirName db.dir) md', s.db⟩ db g :=
    ⟨hdir, hinv.asc, hinv.active, hinv.recs, hinv.index, hinv.sorted, hinv.counters, hinv.nobatch⟩
  obtain ⟨_, s', db', _, hopen, hs', _, hix, _, habs, hinv', _⟩ :=
    C07_no_marker_open ⟨s.world.set (mergeDirName db.dir) md', s.db⟩ db g cfg' hdb hinv1 hplan hcfg
  refine ⟨hplan, s', db', hopen, hs', hix, ?_, hinv'⟩
  intro k
  rw [habs k]
  apply absGet_congr
  · rfl
  · intro id
    simp only [dirOf]
    rw [hget]

/-! ## crash safety at the level of `Open` and the mapping -/

theorem crashes_dir (dir : String) (ks : List Nat) : ∀ (w : World) (d : DirSt), w.get dir = some d →
    ∃ dk, (crashes w dir ks).get dir = some dk ∧ dk.locked = d.locked ∧ dk.marker = d.marker := by
  induction ks with
  | nil => intro w d hd; exact ⟨d, hd, rfl, rfl⟩
  | cons k ks ih =>
    intro w d hd
    obtain ⟨d1, h1, h2, h3⟩ := applyPrefix_dir w dir d hd k
    obtain ⟨dk, h4, h5, h6⟩ := ih (applyPrefix w dir k) d1 h1
    exact ⟨dk, h4, h5.trans h2, h6.trans h3⟩

/-- **C07, crash safety of adoption.**  Let `db` be open on `s` with the invariant for `g`, let the
    merge directory be the output of a finished merge (`MergeOutW`, possibly followed by
    `Put/Delete/Sync`), positions inside `uint32`.  The database is closed (or its process dies:
    the process-death image differs from the closed one only in sync marks).  Now ANY number of
    `Open`s die inside adoption, the i-th after `ks[i]` file-system steps of the step list it
    computed from what it found (`crashes`).  Then the next `Open`, under any valid configuration,

    * succeeds,
    * maps every key to exactly what the source mapped it to before the crashes (`absGet` equal),
    * satisfies the engine invariant for the merged ghost directory `gm ++ hi g n`,
    * leaves the data directory exactly as the uninterrupted adoption does (merged files, then
      files ≥ n, hint file), with nothing left to adopt.

    Whether this `Open` goes through the hint file (marker still present) or scans (marker already
    removed: the retry returns `nonMergeFileId = 0`) is the case split of the proof; both build
    the same index (C18). -/
theorem C07_crash_safe (s : St) (db : DB) (g : GDir) (n : Nat) (gm vis : GDir) (cfg' : Cfg) (ks : List Nat)
    (hdb : s.db = some db) (hinv : Inv s db g) (hmo : MergeOutW s.world db.dir g n gm vis)
    (hF : HintFits gm) (hcfg : cfg'.Valid) :
    ∃ s' db' d md, s.world.get db.dir = some d ∧ s.world.get (mergeDirName db.dir) = some md ∧
      openDB ⟨crashes (close s).1.world db.dir ks, none⟩ db.dir cfg' = (s', .ok) ∧
      s'.db = some db' ∧ db'.dir = db.dir ∧ db'.cfg = cfg' ∧ db'.activeId = db.activeId ∧
      (∀ k, absGet s' db' k = absGet s db k) ∧
      Inv s' db' (gm ++ hi g n) ∧
      s'.world.get db.dir
        = some ⟨md.data ++ (syncAll d.data).filter (fun x => n ≤ x.1), some (hintBytes gm), d.marker, true⟩ ∧
      plan s'.world db.dir = none := by
  obtain ⟨d, hd, hlock, hm⟩ := hinv.dir
  obtain ⟨md, hmd, hmm, hhint, hmk⟩ := hmo.mdir
  obtain ⟨hM, _, _⟩ := hmo.merged hinv.asc hinv.recs
  have hne := mname_ne db.dir
  rw [close_eq s db d hdb hd]
  simp only []
  -- the closed world
  have hw0d : (s.world.set db.dir { d with data := syncAll d.data, locked := false }).get db.dir
      = some { d with data := syncAll d.data, locked := false } := MergeP.get_set_self _ _ _
  have hw0m : (s.world.set db.dir { d with data := syncAll d.data, locked := false }).get (mergeDirName db.dir)
      = some md := by rw [MergeP.get_set_ne _ _ _ _ hne]; exact hmd
  generalize hw0 : s.world.set db.dir { d with data := syncAll d.data, locked := false } = w0 at hw0d hw0m
  have hgmasc : AscIds gm := by
    have : (gm.map (·.1)).Pairwise (· < ·) := by rw [hmo.ids]; exact List.pairwise_lt_range
    exact List.pairwise_map.mp this
  have hDasc : AscF (syncAll d.data) := Matches_AscF (Matches_syncAll hm) hinv.asc
  have hMasc : AscF md.data := Matches_AscF hmm hgmasc
  have hmids : md.data.map (·.1) = List.range gm.length := by rw [Matches_ids hmm]; exact hmo.ids
  have hDA : DirsAsc w0 db.dir := by
    refine ⟨by rw [hw0d]; rfl, ?_⟩
    have hv : viewP w0 db.dir = ({ d with data := syncAll d.data, locked := false }, some md) := by
      unfold viewP; rw [hw0d, hw0m]; rfl
    rw [hv]
    exact ⟨hDasc, fun M hM' => by cases hM'; exact hMasc⟩
  have hadopt0 := adopt_merged w0 db.dir { d with data := syncAll d.data, locked := false } md n gm.length hw0d hw0m
    hDasc hMasc hmids hmk hmo.count.1 hmo.count.2 hmo.small
  have hth : tgtHint { d with data := syncAll d.data, locked := false } md = some (hintBytes gm) := by
    unfold tgtHint; rw [hhint]
  rw [hth] at hadopt0
  obtain ⟨i1, _, i3, i4, i5⟩ := C07_adopt_idempotent_iter db.dir ks w0 hDA
  have hD0 : (adopt (crashes w0 db.dir ks) db.dir).1.get db.dir
      = some ⟨md.data ++ (syncAll d.data).filter (fun x => n ≤ x.1), some (hintBytes gm), d.marker, false⟩ := by
    rw [i1, hadopt0]
    simp only []
    rw [MergeP.get_remove_ne _ _ _ hne.symm, MergeP.get_set_self]
  obtain ⟨dk, hdk, hdkl, _⟩ := crashes_dir db.dir ks w0 _ hw0d
  have hhiM : Matches ((syncAll d.data).filter (fun x => n ≤ x.1)) (hi g n) :=
    Matches_filter (fun i => decide (n ≤ i)) (Matches_syncAll hm)
  have hmtAll : Matches (md.data ++ (syncAll d.data).filter (fun x => n ≤ x.1)) (gm ++ hi g n) :=
    Matches_append hmm hhiM
  have hhirecs : ∀ x ∈ hi g n, ∀ r ∈ x.2, RecOK r := fun x hx => hinv.recs x ((hi_sublist g n).subset hx)
  obtain ⟨hhine, hhilast⟩ := hi_getLast hinv.asc hinv.active hmo.hiNe
  have hactAll : ((gm ++ hi g n).getLast?).map (·.1) = some db.activeId := by
    rw [getLast_append_ne _ _ hhine]; exact hhilast
  have hrecsAll : ∀ x ∈ gm ++ hi g n, ∀ r ∈ x.2, RecOK r := by
    intro x hx
    rcases List.mem_append.mp hx with hx | hx
    · exact hM.recs x hx
    · exact hhirecs x hx
  have hrel := ValRel_merged hmo hinv.asc hinv.recs
  cases hpl : plan (crashes w0 db.dir ks) db.dir with
  | none =>
    -- the marker is gone: plain scan of the already adopted directory
    have had := adopt_of_plan_none hpl
    rw [had] at hD0
    simp only at hD0
    have hopen := openDB_ghost ⟨crashes w0 db.dir ks, none⟩ db.dir cfg' _ (gm ++ hi g n) db.activeId rfl hcfg hD0 rfl hpl
      hmtAll hrecsAll hactAll
    have hinv' := Inv_scanDB ((crashes w0 db.dir ks).set db.dir
        { (⟨md.data ++ (syncAll d.data).filter (fun x => n ≤ x.1), some (hintBytes gm), d.marker, false⟩ : DirSt) with locked := true })
      db.dir cfg' _ (gm ++ hi g n) db.activeId (MergeP.get_set_self _ _ _) rfl hmtAll
      (AscIds_merged_hi hinv.asc hmo.ids hmo.count.2) hrecsAll hactAll
      ⟨_, some (scanDB cfg' db.dir db.activeId (gm ++ hi g n))⟩ rfl
    refine ⟨_, _, d, md, hd, hmd, hopen, rfl, rfl, rfl, rfl, fun k => absGet_of_ValRel hinv hinv' hrel k, hinv',
      MergeP.get_set_self _ _ _, ?_⟩
    rw [plan_set _ _ _ _ (Or.inl hne.symm)]; exact hpl
  | some mc =>
    obtain ⟨mid, cnt⟩ := mc
    -- the marker is still there: the retry adopts what is left and reads the hint
    have hrun := adopt_eq_steps (crashes w0 db.dir ks) db.dir i5
    have hid : (adopt (crashes w0 db.dir ks) db.dir).2 = mid := by
      rw [← hrun]; unfold Adopt.run; simp only [hpl]
    have hmid0 : mid ≠ 0 := by
      rw [plan_eq] at hpl
      obtain ⟨_, _, _, _, _, h0, _⟩ := planP_some_inv hpl
      exact h0
    have hidn : mid = n := by
      rcases i4 with h | h
      · rw [hid, hadopt0] at h; exact h
      · rw [hid] at h; exact absurd h hmid0
    have hadk : adopt (crashes w0 db.dir ks) db.dir = ((adopt (crashes w0 db.dir ks) db.dir).1, n) := by
      rw [← hidn, ← hid]
    obtain ⟨maxFid, hopen, hinv'⟩ := open_hint_adopted ⟨crashes w0 db.dir ks, none⟩ db.dir cfg' dk
      ⟨md.data ++ (syncAll d.data).filter (fun x => n ≤ x.1), some (hintBytes gm), d.marker, false⟩
      (adopt (crashes w0 db.dir ks) db.dir).1 n db.activeId gm (hi g n) md.data
      ((syncAll d.data).filter (fun x => n ≤ x.1)) rfl hcfg hdk (by rw [hdkl]) hadk hD0 rfl rfl hM hF hmo.ids
      hmo.count.1 hmo.count.2 hmm hhiM hhirecs
      (fun x hx => by have := (List.mem_filter.mp hx).2; simpa using this)
      (List.Pairwise.sublist (hi_sublist g n) hinv.asc) hhine hhilast
    refine ⟨_, _, d, md, hd, hmd, hopen, rfl, rfl, rfl, rfl, fun k => absGet_of_ValRel hinv hinv' hrel k, hinv',
      MergeP.get_set_self _ _ _, ?_⟩
    rw [plan_set _ _ _ _ (Or.inl hne.symm)]; exact i3


/-- **C07, the process dies while `Merge` is running.**  `mergeMid s db g order j i` is the state of
    `Merge` after the rotation, `j` complete files of its visiting order and `i` records of the
    next one (every `j`, `i`; `mergeMid_end`: past the last file it is the loop's final state, i.e.
    the state just before the marker is written — the marker is the LAST thing `Merge` writes).
    In every such state the live handle still maps every key as before, the data directory is
    untouched since the rotation, and the merge directory has no marker.  Consequently `Open` on
    the process-death image (`dead`: the lock dies with the process) succeeds under any valid
    configuration, ignores the unfinished merge directory, and recovers exactly the mapping of `s`;
    the data directory is byte for byte what it was (only the lock is taken again). -/
theorem C07_merge_crash (s : St) (db : DB) (g : GDir) (order : List Nat) (cfg' : Cfg) (j i : Nat)
    (hinv : Inv s db g) (ho : order.Nodup) (hcfg : cfg'.Valid) :
    (mergeMid s db g order j i).1.db = some (rotDB db) ∧
    (∀ k, absGet (mergeMid s db g order j i).1 (rotDB db) k = absGet s db k) ∧
    plan (mergeMid s db g order j i).1.world db.dir = none ∧
    ∃ d1 s' db', (mergeMid s db g order j i).1.world.get db.dir = some d1 ∧
      Matches d1.data (g ++ [(db.activeId + 1, [])]) ∧
      openDB ⟨dead (mergeMid s db g order j i).1.world db.dir, none⟩ db.dir cfg' = (s', .ok) ∧
      s'.db = some db' ∧ db'.index = db.index ∧ Inv s' db' (g ++ [(db.activeId + 1, [])]) ∧
      (∀ k, absGet s' db' k = absGet s db k) ∧
      s'.world.get db.dir = some { d1 with locked := true } := by
  obtain ⟨d1, hW, hl1, hm1, hB⟩ := mergeMid_spec hinv order ho j i
  have hne := mname_ne db.dir
  have hsd : (mergeMid s db g order j i).1.world.get db.dir = some d1 := by
    rw [hB.frame db.dir hne.symm]; exact hW
  have hinvm := Inv_rotDB (s' := (mergeMid s db g order j i).1) hinv hsd hl1 hm1
  obtain ⟨md, hmd⟩ := hB.mex
  have hmk : md.marker = none := by
    have := hB.mmeta
    unfold metaOf at this
    rw [hmd] at this
    simp only [Option.getD_some, Prod.mk.injEq] at this
    exact this.2.1
  obtain ⟨s', db', h1, h2, _, h4, h5, h6, h7⟩ := open_dead_MBase hinv hW hm1 hB cfg' hcfg
  exact ⟨hB.db, fun k => absGet_rotDB hinv hinvm k, plan_none_of_no_marker hmd hmk,
    d1, s', db', hsd, hm1, h1, h2, h4, h5, h6, h7⟩


/-! ## non-vacuity (directory level) -/

def fb (n : Nat) : FileSt := ⟨⟨#[n.toUInt8]⟩, 1⟩

/-- data directory with the originals 0,1,2 and the active file 3; a finished merge (marker
    `(3, 2)`) whose output is the two files 0,1 and a hint file -/
def exW : World :=
  [("d", { data := [(0, fb 10), (1, fb 11), (2, fb 12), (3, fb 13)], hint := none, marker := none, locked := false }),
   ("d-merge", { data := [(0, fb 20), (1, fb 21)], hint := some ⟨#[7]⟩, marker := some (markerBytes 3 2),
                 locked := false })]

/-- what is observable of a directory: file ids with their bytes, the hint file, marker present -/
def listing (w : World) (dir : String) : Option (List (Nat × List UInt8) × Option (List UInt8) × Bool) :=
  (w.get dir).map (fun d => (d.data.map (fun x => (x.1, x.2.bytes.data.toList)), d.hint.map (·.data.toList), d.marker.isSome))

#guard steps exW "d" == [.rename 0, .rename 1, .remove 2, .moveHint, .removeMarker, .removeDir]
#guard listing (adopt exW "d").1 "d" == some ([(0, [20]), (1, [21]), (3, [13])], some [7], false)
#guard listing (adopt exW "d").1 "d-merge" == none
#guard (adopt exW "d").2 == 3
-- all steps = the atomic adoption
#guard listing (Adopt.run exW "d").1 "d" == listing (adopt exW "d").1 "d" && (Adopt.run exW "d").2 == 3
-- the crash images differ from each other …
#guard listing (applyPrefix exW "d" 1) "d" == some ([(0, [20]), (1, [11]), (2, [12]), (3, [13])], none, false)
#guard listing (applyPrefix exW "d" 3) "d" == some ([(0, [20]), (1, [21]), (3, [13])], none, false)
#guard listing (applyPrefix exW "d" 5) "d-merge" == some ([], none, false)
-- … and every one of them (and every pair of successive crashes) is completed to the same directory
#guard (List.range 8).all fun k =>
  listing (adopt (applyPrefix exW "d" k) "d").1 "d" == listing (adopt exW "d").1 "d"
#guard (List.range 8).all fun k => (List.range 8).all fun k' =>
  listing (adopt (crashes exW "d" [k, k']) "d").1 "d" == listing (adopt exW "d").1 "d"
-- the returned id differs exactly when the marker is already gone
#guard (List.range 8).map (fun k => (adopt (applyPrefix exW "d" k) "d").2) == [3, 3, 3, 3, 3, 0, 0, 0]
-- a merge directory without a marker is ignored
#guard steps [("d", DirSt.empty), ("d-merge", { DirSt.empty with data := [(0, fb 1)], hint := some ⟨#[7]⟩ })] "d" == []

/-- the finished merge directory of `exW` after `os.RemoveAll` has unlinked the rewritten file 1 only -/
def exHalfRemoved : DirSt := ⟨[(0, fb 20)], some ⟨#[7]⟩, some (markerBytes 3 2), false⟩

-- the marker must go FIRST (evaluated): with the marker still in place and one rewritten file already unlinked
-- (`os.RemoveAll` got that far), the next `Open` takes the missing file for "already moved", keeps the stale original
-- in its place and deletes the originals above `count` - `exW` loses the rewritten content of file 1 and the original
-- file 2.  With the marker gone the same leftover is ignored (`C07_leftover_removal_crash`).
#guard listing (adopt (exW.set "d-merge" exHalfRemoved) "d").1 "d" == some ([(0, [20]), (1, [11]), (3, [13])], some [7], false)
#guard listing (adopt (exW.set "d-merge" { exHalfRemoved with marker := none }) "d").1 "d"
  == some ([(0, [10]), (1, [11]), (2, [12]), (3, [13])], none, false)

/-- the hypothesis of `C07_adopt_idempotent` holds for the example -/
example : DirsAsc exW "d" := by
  refine ⟨by simp [exW, World.get], ⟨?_, ?_⟩⟩
  · simp [viewP, exW, World.get, AscF]
  · intro M hM
    simp [viewP, exW, World.get, mergeDirName] at hM
    subst hM
    simp [AscF]

example : (adopt (applyPrefix exW "d" 4) "d").1.get "d" = (adopt exW "d").1.get "d" :=
  (C07_adopt_idempotent exW "d" (by
    refine ⟨by simp [exW, World.get], ⟨?_, ?_⟩⟩
    · simp [viewP, exW, World.get, AscF]
    · intro M hM
      simp [viewP, exW, World.get, mergeDirName] at hM
      subst hM
      simp [AscF]) 4).1

/-! ## non-vacuity (mapping level): the executed history of C06

`C06.histAfter` = writes, overwrites, a delete, a successful `Merge` (visiting order `[1, 0]`), one
more `Put`.  Every crash image of the adoption, and every pair of successive crashes, opens to the
same dump; so does every process-death image of the merge itself. -/

def closedW : World := (close C06.histAfter).1.world
def openDump (w : World) : List (String × Option (List UInt8)) :=
  C06.dump (openDB ⟨w, none⟩ "d" { C06.exCfg with fileSize := 64, idx := 2 }).1

#guard (steps closedW "d").length == 6      -- rename 0, remove 1, remove 2, hint, marker, dir
#guard (List.range 8).all fun k => openDump (applyPrefix closedW "d" k) == C06.dump C06.histAfter
#guard (List.range 8).all fun k => (List.range 8).all fun k' =>
  openDump (crashes closedW "d" [k, k']) == C06.dump C06.histAfter
#guard (List.range 8).all fun k =>
  C06.nFiles (openDB ⟨applyPrefix closedW "d" k, none⟩ "d" C06.exCfg).1 "d" == some [0, 3]
-- the process dies during Merge, at every file boundary of the visiting order (with the empty ghost
-- directory passed here `mergeMid` does not subdivide files; the theorem covers every record)
#guard (List.range 4).all fun j => (List.range 4).all fun i =>
  openDump (dead (mergeMid C06.hist0 ((C06.hist0.db).getD default) [] [1, 0] j i).1.world "d") == C06.dump C06.hist0

end XixiKV.C07

