import XixiKV.Proofs.Conc
import XixiKV.Model.Lockset
import XixiKV.Proofs.ConcMerge
/-!
# C08 — concurrent `Put` / `Delete` / `Get` are linearizable and the live mapping is the one a
restart recovers

Model: `XixiKV.Conc` (`Model/Conc.lean`): unbounded threads, arbitrary scheduler, one automaton
per method parametrised by the lock `Shape`.  The shape of the CURRENT Go tree is computed from the
generated lockset table (`Lockset.shapeOf`), and `C08_generated` checks it is the all-true shape
for which the theorems below are proved; `C08_needs_lock` shows that the premise is necessary.

History convention: `g.hist` is newest-first, so in `h2 ++ e :: h1` the events of `h1` happened
BEFORE `e` and those of `h2` AFTER it.
-/
namespace XixiKV.C08
open XixiKV.Conc XixiKV.Lockset

/-! ## restart agrees with the live index -/

/-- In every reachable quiescent state of the well-locked shape — any number of threads and
operations, any schedule — the live index is exactly what a restart rebuilds from the log: the
order in which racing writes reach the log is the order in which they win. -/
theorem C08_restart_agrees {g : G} (hr : Reachable Shape.allTrue g) (hq : Quiescent g) :
    g.idx = replay g.log :=
  (reachable_inv hr).consistent (fun t => by rw [hq t]; rfl)

/-- Stronger form: the live index is the replay of the log in every reachable state in which
`db.mu` is free (threads may be anywhere else in their operations); the only states in which the
two differ are those in which the holder of the lock is between its append and its index update. -/
theorem C08_restart_agrees_unlocked {g : G} (hr : Reachable Shape.allTrue g)
    (hw : g.writer = none) : g.idx = replay g.log :=
  (reachable_inv hr).consistent (fun t => by
    cases h : midUpdate (g.pc t) with
    | false => rfl
    | true =>
      have := ((reachable_inv hr).lock t).1 (midUpdate_inCS h)
      rw [hw] at this; cases this)

/-- two racing Puts, a Get that overlaps both, then a Delete racing a Put -/
def sampleSchedule : Schedule :=
  [(0, .call (.put 1 10)), (1, .call (.put 1 20)), (2, .call (.get 1)),
   (0, .acq), (0, .append), (0, .index), (2, .idxRead), (0, .rel),
   (1, .acq), (1, .append), (1, .index), (2, .resolve), (1, .rel), (0, .ret), (1, .ret), (2, .ret),
   (0, .call (.del 1)), (1, .call (.put 2 5)), (1, .acq), (1, .append), (1, .index), (1, .rel),
   (0, .acq), (0, .check), (0, .append), (0, .index), (1, .ret), (0, .rel), (0, .ret)]

def sampleState : G := (exec Shape.allTrue sampleSchedule init).getD init

theorem sample_exec : exec Shape.allTrue sampleSchedule init = some sampleState := by
  have h : (exec Shape.allTrue sampleSchedule init).isSome = true := by decide
  unfold sampleState
  cases h' : exec Shape.allTrue sampleSchedule init with
  | none => rw [h'] at h; cases h
  | some g => rfl

/-- the hypotheses of `C08_restart_agrees` are met by a non-trivial state: four records in the
log, written by racing threads -/
example : Reachable Shape.allTrue sampleState ∧ Quiescent sampleState ∧
    sampleState.log = [.put 1 10, .put 1 20, .put 2 5, .del 1] :=
  ⟨exec_reachable .init sample_exec, exec_quiescent sample_exec (by decide), by decide⟩

/-! ## linearizability -/

/-- The invariant behind both theorems is inductive: it holds initially and is preserved by every
step of every thread. -/
theorem C08_invariant_inductive :
    Conc.Inv init ∧ ∀ g g', Conc.Inv g → Step Shape.allTrue g g' → Conc.Inv g' :=
  ⟨init_inv, fun _ _ hI hs => step_inv hI hs⟩

/-- Every reachable state's ghost history is linearizable with the linearization points
index-update (Put, Delete-hit), existence check (Delete-miss) and index read (Get):
* per thread, the events are `inv op · lin op r · ret r` triples — the linearization point lies
  between the call and the return and the returned result is the one at the linearization point;
* the results at the linearization points are those of the sequential per-key register
  specification run in linearization order, and the specification state reached IS the live
  mapping `absMap g`;
* each thread's history phase is the one its control state says (so the history is not vacuous);
* a Get that has read position `p` from the index will read, whenever it gets to resolve `p` in the
  log, the value it was promised at its linearization point (the log is append-only). -/
theorem C08_linearizable {g : G} (hr : Reachable Shape.allTrue g) :
    Linearizable g.hist ∧
    specRun g.hist = some (absMap g) ∧
    (∀ t, phase g.hist t = some (phaseOf (g.pc t))) ∧
    (∀ t k p pred, g.pc t = .getFound k p pred → readPos g.log p = pred) := by
  have hI := reachable_inv hr
  refine ⟨⟨fun t => by rw [hI.phases t]; simp, by rw [hI.spec]; rfl⟩, hI.spec, hI.phases, ?_⟩
  intro t k p pred hpc
  have := hI.logF t
  rw [hpc] at this
  exact this.1.symm

/-- Completed operations.  Whenever a return event `ret t r` is in the history of a reachable
state, the same thread has — before it, with no event of that thread in between — a linearization
event `lin t op r` with the SAME result, preceded by the invocation `inv t op`; and `r` is the
result the sequential specification gives for `op` in the state `m` obtained by running all
earlier linearization events in their order.  (For a Get, `r` was produced by reading the log at
the position obtained at the linearization point.) -/
theorem C08_completed_ops {g : G} (hr : Reachable Shape.allTrue g) {t : Tid} {r : Res}
    {h2 h1 : List Ev} (hh : g.hist = h2 ++ .ret t r :: h1) :
    ∃ op hl hm h0 m,
      h1 = hl ++ .lin t op r :: (hm ++ .inv t op :: h0) ∧
      (∀ e ∈ hl, e.tid ≠ t) ∧ (∀ e ∈ hm, e.tid ≠ t) ∧
      specRun (hm ++ .inv t op :: h0) = some m ∧ (specStep m op).2 = r :=
  completed_ops (linearizable_of_inv (reachable_inv hr)) hh

/-- the hypothesis of `C08_completed_ops` is met: the history of `sampleState` contains the return of
thread 2's Get with the first Put's value -/
example : ∃ h2 h1, sampleState.hist = h2 ++ .ret 2 (.val (some 10)) :: h1 :=
  List.append_of_mem (by decide)

/-- the hypotheses are met by a state whose history has overlapping operations: thread 2's Get is
invoked before either Put has taken effect, linearizes between the two index updates, and returns
the FIRST Put's value after the second Put has returned -/
example : Reachable Shape.allTrue sampleState ∧
    sampleState.hist.reverse.take 9 =
      [.inv 0 (.put 1 10), .inv 1 (.put 1 20), .inv 2 (.get 1), .lin 0 (.put 1 10) .ok,
       .lin 2 (.get 1) (.val (some 10)), .lin 1 (.put 1 20) .ok, .ret 0 .ok, .ret 1 .ok,
       .ret 2 (.val (some 10))] :=
  ⟨exec_reachable .init sample_exec, by decide⟩

/-! ## the premise is necessary -/

/-- The original code: both Puts append under the lock but update the index after releasing it;
the index updates happen in the opposite order of the appends. -/
def racingPuts : Schedule :=
  [(0, .call (.put 1 10)), (1, .call (.put 1 20)),
   (0, .acq), (0, .append), (0, .rel),
   (1, .acq), (1, .append), (1, .rel),
   (1, .index), (0, .index), (0, .ret), (1, .ret)]

/-- With the index update of `Put` outside the W section of the append (whatever the other two
flags) there is a reachable quiescent state in which the live index differs from the replay of the
log: the live index keeps the OLDER record (value 10) while a restart recovers the newer one (20).
The witness is the explicit schedule `racingPuts`. -/
theorem C08_needs_lock (sh : Shape) (h : sh.putIndexInLock = false) :
    ∃ g, Reachable sh g ∧ Quiescent g ∧ g.idx ≠ replay g.log ∧
      absMap g 1 = some 10 ∧ valAt g.log (replay g.log 1) = some 20 := by
  obtain ⟨a, b, c⟩ := sh
  simp only at h
  subst h
  have key : ∀ sh : Shape, (exec sh racingPuts init).isSome = true →
      (((racingPuts.map (·.1)).all fun t => ((exec sh racingPuts init).getD init).pc t == .idle) = true) →
      ((exec sh racingPuts init).getD init).idx 1 ≠ replay ((exec sh racingPuts init).getD init).log 1 →
      absMap ((exec sh racingPuts init).getD init) 1 = some 10 →
      valAt ((exec sh racingPuts init).getD init).log
        (replay ((exec sh racingPuts init).getD init).log 1) = some 20 →
      ∃ g, Reachable sh g ∧ Quiescent g ∧ g.idx ≠ replay g.log ∧
        absMap g 1 = some 10 ∧ valAt g.log (replay g.log 1) = some 20 := by
    intro sh h1 h2 h3 h4 h5
    have he : exec sh racingPuts init = some ((exec sh racingPuts init).getD init) := by
      cases h' : exec sh racingPuts init with
      | none => rw [h'] at h1; cases h1
      | some g => rfl
    exact ⟨_, exec_reachable .init he, exec_quiescent he h2, fun hc => h3 (congrFun hc 1), h4, h5⟩
  cases b <;> cases c <;> exact key _ (by decide) (by decide) (by decide) (by decide) (by decide)

/-- the same schedule is refused by the well-locked shape (thread 0 cannot release before its
index update), and what the model predicts for it on the broken shape -/
example : (run Shape.allTrue racingPuts).completed = false ∧
    (run ⟨false, true, true⟩ racingPuts).completed = true ∧
    (run ⟨false, true, true⟩ racingPuts).quiescent = true ∧
    (run ⟨false, true, true⟩ racingPuts).agree = false ∧
    (run ⟨false, true, true⟩ racingPuts).live = [(1, some 10)] ∧
    (run ⟨false, true, true⟩ racingPuts).restart = [(1, some 20)] := by decide

/-! ## the current tree has the well-locked shape -/

set_option maxRecDepth 100000 in
/-- In the generated lockset table of the current tree, `DB.Put` performs `idxPut` in W mode in the
lock section of its `append`, and `DB.Delete` performs `idxGet` and `idxDel` in W mode in the lock
section of its `append`; and every other mutation of the log or of the index on a shared handle
(batch commits) happens in W mode too, i.e. atomically with respect to the modelled operations. -/
theorem C08_generated :
    WellLocked Generated.locksetTable ∧ MutatorsLocked Generated.locksetTable := by decide

/-- the predicate is not vacuous: the original shape of `DB.Put` (index update after the release)
is rejected -/
example : ¬ WellLocked
    [⟨"DB.Put", 0, "acqW", .W, 1⟩, ⟨"DB.Put", 1, "append", .W, 1⟩, ⟨"DB.Put", 2, "relW", .W, 1⟩,
     ⟨"DB.Put", 3, "idxPut", .none, 0⟩, ⟨"DB.Put", 4, "ret", .none, 0⟩,
     ⟨"DB.Delete", 0, "acqW", .W, 1⟩, ⟨"DB.Delete", 1, "idxGet", .W, 1⟩,
     ⟨"DB.Delete", 2, "append", .W, 1⟩, ⟨"DB.Delete", 3, "idxDel", .W, 1⟩,
     ⟨"DB.Delete", 4, "relW", .W, 1⟩, ⟨"DB.Delete", 5, "ret", .none, 0⟩] := by decide


/-! ## "(and a concurrent Merge)" -/

open XixiKV.ConcMerge in
/-- A Merge running concurrently (`Model/ConcMerge.lean`: boundary under the lock, one atomic index
    read per old record, marker at the end) does not disturb the clients: with it, every reachable
    history is still linearizable, and whenever `db.mu` is free the live index is the replay of the
    log.  (What a restart recovers after ADOPTING the finished merge is `C06_concurrent_merge`.) -/
theorem C08_with_merge {b : Bool} {a : GM} (h : ReachableM Shape.allTrue b a) :
    Linearizable a.g.hist ∧ (a.g.writer = none → a.g.idx = replay a.g.log) :=
  ⟨(C08_linearizable (reachableM_base h)).1, C08_restart_agrees_unlocked (reachableM_base h)⟩

end XixiKV.C08
