import XixiKV.Proofs.Conc
import XixiKV.Proofs.RWMutex
/-!
# C09 — concurrent use is free of unsynchronised conflicting accesses, lock deadlocks and spurious
internal-inconsistency errors      (PARTIAL BY DESIGN)

What is proved here, and against what:

* `C09_lockset` / `C09_lockset_shards`: in the generic `RWMutex` interleaving semantics
  (`Model/RWMutex.lean`), whose threads run programs made of rows of a lockset table, no reachable
  state has two threads poised at conflicting accesses to a location — provided the table is
  `Disciplined`.  `C09_generated` checks `Disciplined` on the table regenerated from the Go AST.
* `C09_no_deadlock`: in the same semantics no reachable state is a lock deadlock, provided no
  program acquires the mutex while holding it and every program ends with the mutex released
  ("no batch left open").
* `C09_delete_no_spurious`: in the `Conc` model with the well-locked shape `Delete` never takes the
  "index entry vanished between check and delete" branch (`ErrIndexUpdateFailed`);
  `C09_delete_needs_lock` exhibits a schedule reaching it when the existence check is outside the
  W section.

NOT covered (the property is partial by design): accesses outside the extractor's whitelist of
shared fields and actions (e.g. `db.hintPos`, the `Batch` object's own fields, the record pool),
goroutines started with `go` (the walker skips `go` statements: the background-merge ticker in
`Open` reads `db.bytesWrite` without `db.mu`), panics, and channel operations.  The step from the
flattened table to the straight-line paths that the semantic theorems quantify over is the
trusted part of the extractor (see `Model/RWMutex.lean`).
-/
namespace XixiKV.C09
open XixiKV.Generated XixiKV.Lockset XixiKV.RWMutex

/-- the system whose threads run arbitrary programs made of (non-exempt) rows of table `t` that
are consistent with the lock annotations -/
def tableSys (cls : Row → Act) (t : List Row) (fin : Mode → Bool) (pol : St → Tid → Prop) : Sys :=
  { cls := cls
    fin := fin
    prog := fun m p => runsFrom cls fin m p = true ∧ ∀ r ∈ p, r ∈ t ∧ exempt r.method = false
    good := fun r => r ∈ t ∧ exempt r.method = false
    pol := pol }

theorem tableSys_admissible (cls : Row → Act) (t : List Row) (fin : Mode → Bool)
    (pol : St → Tid → Prop) : Admissible (tableSys cls t fin pol) :=
  ⟨fun _ _ h => h.1, fun _ _ h => h.2⟩

/-! ## lockset -/

/-- If the table is `Disciplined` (every plain write of a shared field in W mode, every plain read
in R or W mode), then in no reachable state of any interleaving — any number of threads, any
programs made of rows of the table (paths of `DB`/`Batch`/`Iterator` methods, batch sessions
spanning several calls), any admission policy of `RLock` — are two different threads
simultaneously poised at conflicting accesses (same field, at least one a write). -/
theorem C09_lockset (t : List Row) (hD : Disciplined t) (pol : St → Tid → Prop) {s : St}
    (hr : Reachable (tableSys dbAct t (fun _ => true) pol) s)
    {t1 t2 : Tid} {r1 r2 : Row} {rest1 rest2 : List Row} (hne : t1 ≠ t2)
    (h1 : s.pc t1 = r1 :: rest1) (h2 : s.pc t2 = r2 :: rest2) : ¬ Conflict dbAct r1 r2 :=
  no_conflict (reachable_inv (tableSys_admissible _ _ _ _) rfl hr)
    (fun _ _ hg hc => dbAct_write_mode (rowOK_of_disciplined hD hg.1 hg.2) hc)
    (fun _ _ hg hc => dbAct_read_mode (rowOK_of_disciplined hD hg.1 hg.2) hc)
    hne h1 h2

/-- The same for one shard of the sharded index and its own `RWMutex`: the container of a shard is
never mutated (`put / delete / iterator / close`) concurrently with any other access to it.  This
is what makes the index a single atomic map in the `Conc` model. -/
theorem C09_lockset_shards (t : List Row) (hD : DisciplinedShards t) (pol : St → Tid → Prop) {s : St}
    (hr : Reachable (tableSys shardAct t (fun _ => true) pol) s)
    {t1 t2 : Tid} {r1 r2 : Row} {rest1 rest2 : List Row} (hne : t1 ≠ t2)
    (h1 : s.pc t1 = r1 :: rest1) (h2 : s.pc t2 = r2 :: rest2) : ¬ Conflict shardAct r1 r2 :=
  no_conflict (reachable_inv (tableSys_admissible _ _ _ _) rfl hr)
    (fun r _ hg hc => shardAct_write_mode (List.all_eq_true.1 hD r hg.1) hc)
    (fun r _ hg hc => shardAct_read_mode (List.all_eq_true.1 hD r hg.1) hc)
    hne h1 h2

/-! Non-vacuity of the hypotheses of `C09_lockset` / `C09_lockset_shards` (real paths of the generated table that are
admissible programs, a reachable state with a blocked reader, conflicting rows): `XixiKV/Examples/C09Paths.lean`.
They name rows of the regenerated table by ordinal and are therefore kept OUT of this module: a behaviour-preserving
rewrite of a method (a helper extracted, a statement moved) renumbers rows without changing anything the theorems and the
decided premises (`C09_generated*`) say. -/

/-! ## no lock deadlock -/

/-- If no program acquires the mutex while holding it and every program ends with the mutex
released (`runsFrom cls (· == .none)`: both are part of the consistency of a program with its lock
annotations — `NoSelfDeadlock` / `ReleasedAtReturn` are the corresponding checks on the flattened
table; a batch session counts as ONE program, so "no batch is left open"), and if `RLock` is
refused to a reader only while some thread is waiting in `Lock` (Go's writer preference; `pol` may
also be constantly true), then no reachable state is a lock deadlock: whenever some thread is
inside a program, some thread inside a program can take a step. -/
theorem C09_no_deadlock (cls : Row → Act) (t : List Row) (pol : St → Tid → Prop)
    (hpol : ∀ s t', ¬ WriterWaiting (tableSys cls t (· == .none) pol) s → pol s t') {s : St}
    (hr : Reachable (tableSys cls t (· == .none) pol) s) (hbusy : ∃ t', s.pc t' ≠ []) :
    ∃ t' s', s.pc t' ≠ [] ∧ Step (tableSys cls t (· == .none) pol) s t' s' :=
  progress (reachable_inv (tableSys_admissible _ _ _ _) rfl hr)
    (fun m hm => by cases m <;> first | rfl | cases hm) hpol hbusy

/-- the policy hypothesis is met by Go's writer preference (readers are let in iff no thread is
waiting in `Lock`) as well as by the constantly-true policy -/
example (cls : Row → Act) (t : List Row) :
    ∀ s t', ¬ WriterWaiting (tableSys cls t (· == .none)
        (fun s _ => ¬ ∃ t r rest, s.pc t = r :: rest ∧ cls r = .acqW)) s →
      (fun (s : St) (_ : Tid) => ¬ ∃ t r rest, s.pc t = r :: rest ∧ cls r = .acqW) s t' :=
  fun _ _ h => h

/-! ## Delete never reports a vanished index entry -/

open XixiKV.Conc in
/-- In the `Conc` model with the well-locked shape (any number of threads, any schedule, e.g. two
threads deleting the same key) no `Delete` ever takes the branch in which the index entry found by
its existence check has vanished when it calls `db.index.Delete` — the branch on which the Go code
returns `ErrIndexUpdateFailed`: no thread is ever in the control state after that branch, and no
linearization or return event carries that error. -/
theorem C09_delete_no_spurious {g : G} (hr : Conc.Reachable Shape.allTrue g) :
    (∀ t k h, g.pc t ≠ .delIndexed k .errIndexUpdateFailed h) ∧
    (∀ t op, Ev.lin t op .errIndexUpdateFailed ∉ g.hist) ∧
    (∀ t, Ev.ret t .errIndexUpdateFailed ∉ g.hist) := by
  have hI := Conc.reachable_inv hr
  have hlin := linearizable_of_inv hI
  refine ⟨?_, specRun_lin_ne_err hlin.2, ret_ne_err hlin⟩
  intro t k h hpc
  have := hI.logF t
  rw [hpc] at this
  cases this

open XixiKV.Conc in
/-- the hypothesis is met by a state reached with two threads deleting the same key concurrently:
both Deletes return `ok` (the second one finds the key gone at its check, under the lock) -/
example :
    (exec Shape.allTrue
      [(0, .call (.put 1 10)), (0, .acq), (0, .append), (0, .index), (0, .rel), (0, .ret),
       (0, .call (.del 1)), (1, .call (.del 1)), (0, .acq), (0, .check), (0, .append),
       (0, .index), (0, .rel), (1, .acq), (1, .check), (0, .ret), (1, .rel), (1, .ret)] init).isSome = true ∧
    (run Shape.allTrue
      [(0, .call (.put 1 10)), (0, .acq), (0, .append), (0, .index), (0, .rel), (0, .ret),
       (0, .call (.del 1)), (1, .call (.del 1)), (0, .acq), (0, .check), (0, .append),
       (0, .index), (0, .rel), (1, .acq), (1, .check), (0, .ret), (1, .rel), (1, .ret)]).results =
      [(0, .ok), (0, .ok), (1, .ok)] := by decide

open XixiKV.Conc in
/-- one Put of key 1, then two racing Deletes of key 1 whose existence checks both run before
either takes the lock (the steps of the Put and of the Deletes are ordered as the shape demands) -/
def racingDeletes (sh : Shape) : Schedule :=
  [(0, .call (.put 1 10)), (0, .acq), (0, .append)] ++
  (if sh.putIndexInLock then [(0, .index), (0, .rel)] else [(0, .rel), (0, .index)]) ++
  [(0, .ret), (0, .call (.del 1)), (1, .call (.del 1)), (0, .check), (1, .check),
   (0, .acq), (0, .append)] ++
  (if sh.delIndexInLock then [(0, .index), (0, .rel)] else [(0, .rel), (0, .index)]) ++
  [(0, .ret), (1, .acq), (1, .append)] ++
  (if sh.delIndexInLock then [(1, .index), (1, .rel)] else [(1, .rel), (1, .index)]) ++
  [(1, .ret)]

open XixiKV.Conc in
/-- With the existence check of `Delete` outside the W section (whatever the other flags) the
branch IS reachable: the second of two racing Deletes of the same key returns
`ErrIndexUpdateFailed` although both calls were individually valid. -/
theorem C09_delete_needs_lock (sh : Shape) (h : sh.delCheckInLock = false) :
    ∃ g, Conc.Reachable sh g ∧ Quiescent g ∧ Ev.ret 1 .errIndexUpdateFailed ∈ g.hist := by
  obtain ⟨a, b, c⟩ := sh
  simp only at h
  subst h
  have key : ∀ sh : Shape, (exec sh (racingDeletes sh) init).isSome = true →
      ((((racingDeletes sh).map (·.1)).all fun t =>
        ((exec sh (racingDeletes sh) init).getD init).pc t == .idle) = true) →
      (((exec sh (racingDeletes sh) init).getD init).hist.contains
        (Ev.ret 1 .errIndexUpdateFailed) = true) →
      ∃ g, Conc.Reachable sh g ∧ Quiescent g ∧ Ev.ret 1 .errIndexUpdateFailed ∈ g.hist := by
    intro sh h1 h2 h3
    have he : exec sh (racingDeletes sh) init = some ((exec sh (racingDeletes sh) init).getD init) := by
      cases h' : exec sh (racingDeletes sh) init with
      | none => rw [h'] at h1; cases h1
      | some g => rfl
    exact ⟨_, exec_reachable .init he, exec_quiescent he h2, by simpa using h3⟩
  cases a <;> cases c <;> exact key _ (by decide) (by decide) (by decide)

open XixiKV.Conc in
/-- what the model predicts for the forced schedule on the original shape, and that the
well-locked shape refuses it (thread 0 cannot run its check before taking the lock) -/
example : (run ⟨true, false, true⟩ (racingDeletes ⟨true, false, true⟩)).spurious = true ∧
    (run ⟨true, false, true⟩ (racingDeletes ⟨true, false, true⟩)).results =
      [(0, .ok), (0, .ok), (1, .errIndexUpdateFailed)] ∧
    (run Shape.allTrue (racingDeletes Shape.allTrue)).completed = false := by decide

/-! ## the current tree -/

set_option maxRecDepth 100000 in
/-- On the lockset table regenerated from the current Go tree: every plain write of
`reclaimSize / totalSize / bytesWrite / isMerging / activeFile / olderFiles` outside `Open` and
`DB.Close` happens with `db.mu` in W mode, every plain read in R or W mode, no field is accessed
both atomically and plainly; every mutation of a shard happens under its lock in W mode and every
read in R or W mode; and no method acquires `db.mu` while it holds it. -/
theorem C09_generated :
    Disciplined locksetTable ∧ DisciplinedShards shardTable ∧ NoSelfDeadlock locksetTable := by
  decide

set_option maxRecDepth 100000 in
/-- Companion checks for `C09_no_deadlock`: every method returns with `db.mu` released (batch
sessions excepted, see `ReleasedAtReturn`), and the shard locks are leaves of the lock order. -/
theorem C09_generated_order : ReleasedAtReturn locksetTable ∧ ShardLocksLeaf shardTable := by
  decide

set_option maxRecDepth 100000 in
/-- The mapping state of `fio.MMap` (`activeMap`, `endOff`, `virtualSize`) is guarded by the RWMutex
inside `MMap` (fix c217d74: `Read` re-creates the mapping after `ResetFileSize`, and reads of older
files do not hold `db.mu`).  On the table regenerated from the current `fio/mmap.go` (methods
`Read/Write/Sync/Close/Size/ResetFileSize/Truncate`, `remap` and `resetFileSize` inlined): every
write of the three fields happens with `m.mu` in W mode, every read in R or W mode, no method
re-acquires the mutex while holding it, and every return releases it.  `C09_lockset` applied to
this table: no two co-enabled steps of different threads access one of these fields in conflict. -/
theorem C09_generated_mmap :
    Disciplined mmapTable ∧ NoSelfDeadlock mmapTable ∧ ReleasedAtReturn mmapTable ∧
    (mmapTable.any fun r => r.action == "write:activeMap") = true ∧
    (mmapTable.all fun r => r.action != "missing") = true := by
  decide

set_option maxRecDepth 100000 in
/-- **the staging state of a `Batch`** (`batchTable`: the methods `Put / Get / Delete / Commit` of `batch.go` walked with the
batch's own mutex `b.mu` as the tracked lock and `staged / stageIndex / cachedDataSize / committed` as the shared
fields; `findPendingRecord`, `addPendingRecord`, `flushStaged…` inlined).  A `Batch` has its own `RWMutex` because it may
be handed to several goroutines: every write of its staging state happens with `b.mu` in W mode, every read in R or W
mode, no method re-acquires the mutex while holding it, every return releases it.  `C09_lockset` applied to this table:
no two co-enabled steps of different goroutines sharing one batch access its staging state in conflict. -/
theorem C09_generated_batch :
    Disciplined batchTable ∧ NoSelfDeadlock batchTable ∧ ReleasedAtReturn batchTable ∧
    (batchTable.any fun r => r.action == "write:staged") = true ∧
    (batchTable.any fun r => r.method == "b.mu:Batch.Delete" && r.action == "write:staged") = true ∧
    (batchTable.all fun r => r.action != "missing") = true := by
  decide

/-- not vacuous: a `Delete` that stages under the READ lock (copied from `Get`'s prologue) is rejected -/
example : ¬ Disciplined [⟨"b.mu:Batch.Delete", 0, "acqR", .R, 1⟩, ⟨"b.mu:Batch.Delete", 1, "read:staged", .R, 1⟩,
                         ⟨"b.mu:Batch.Delete", 2, "write:staged", .R, 1⟩, ⟨"b.mu:Batch.Delete", 3, "relR", .R, 1⟩] := by decide

/-- not vacuous: the shape before the repair (`Read` remaps without any lock) is rejected -/
example : ¬ Disciplined [⟨"MMap.Read", 0, "read:virtualSize", .none, 0⟩, ⟨"MMap.Read", 1, "write:endOff", .none, 0⟩,
                         ⟨"MMap.Read", 2, "write:activeMap", .none, 0⟩, ⟨"MMap.Read", 3, "ret", .none, 0⟩] := by decide

/-- the predicates are not vacuous: the original `DB.Sync` (reads `activeFile` without the lock),
a `Stat` that would write under the read lock, and a method that locks twice are rejected -/
example :
    ¬ Disciplined [⟨"DB.Sync", 0, "read:activeFile", .none, 0⟩, ⟨"DB.Sync", 1, "fsync", .none, 0⟩] ∧
    ¬ Disciplined [⟨"DB.Stat", 0, "acqR", .R, 1⟩, ⟨"DB.Stat", 1, "write:totalSize", .R, 1⟩] ∧
    ¬ Disciplined [⟨"DB.X", 0, "atomic:totalSize", .none, 0⟩,
                   ⟨"DB.Y", 0, "acqW", .W, 1⟩, ⟨"DB.Y", 1, "write:totalSize", .W, 1⟩] ∧
    ¬ DisciplinedShards [⟨"ShardedIndex.Iterator", 0, "acqR", .R, 1⟩,
                         ⟨"ShardedIndex.Iterator", 1, "shard.iterator", .R, 1⟩] ∧
    ¬ NoSelfDeadlock [⟨"DB.X", 0, "acqW", .W, 1⟩, ⟨"DB.X", 1, "read:activeFile", .W, 1⟩,
                      ⟨"DB.X", 2, "acqR", .R, 2⟩] ∧
    ¬ NoSelfDeadlock [⟨"Batch.Get", 0, "acqR", .R, 2⟩] := by decide


end XixiKV.C09
