import XixiKV.Proofs.Crc
import XixiKV.Proofs.Truncate
import XixiKV.Proofs.TruncateBoundary
import XixiKV.Proofs.TransEq5
/-!
# C12 — damaged bytes are detected or harmless (partial by design)

Proved here, for the concrete CRC-32 chunk codec of the model:
* `C12_only_checked`  — a reader only ever returns bytes whose checksum matched;
* `C12_single_bit`    — every single-bit flip of a message changes its CRC-32;
* `C12_chunk_flip`    — every single-bit flip in the checksum, type or payload bytes of a chunk makes
                         `DecodeChunk` report `badCrc` (the two length bytes are excluded: a flip
                         there changes the checksummed range; detection is then 1 − 2⁻³², not a theorem);
* `C12_beyond_harmless` — bytes after a chunk do not influence its decoding;
* `C12_truncation`    — for the reader of the ACTIVE file (`tolerateTornTail`), any truncation
                         reads as a clean prefix (shared with C03);
* `C12_torn_tail_only_active` — every other reader (older files, merge, hint file) is strict: a
                         file that ends inside the chunk bytes of a record — inside a chunk or at
                         the block boundary between two chunks of one record — is reported as
                         corruption, not as a shorter log;
* `C12_torn_tail_active`      — the tolerant reader on exactly the same cut: the same records and
                         the same `validEnd`, and a clean end of file.
* `C12_translated_validLogRecord`, `C12_translated_validHintRecord` — the checks the readers run on a reassembled
                         payload before they decode it (`validLogRecord`, `validHintRecord`, repair 20d0fcc), as they
                         stand in /repo (translated on every run by harness/cmd/trans), accept EXACTLY the byte
                         strings the model's `decodeRecord` / `decodeValue` / `decodeHint` decode.
NOT provable and not claimed: detection of arbitrary multi-byte garbage and of flips in the length
field (probabilistic); the "never panics" half of the property is a statement about Go slice bounds,
which the model cannot violate by construction — it is checked by the exhaustive corruption runs
of the C12 check against the model's predicted outcome.
-/
namespace XixiKV.C12
open XixiKV XixiKV.Frame XixiKV.Chunk

/-- a chunk is only ever returned when the stored checksum equals the CRC-32 of
    `len ‖ type ‖ payload` as found in the block -/
theorem C12_only_checked (block p : ByteArray) (t : CT) (h : dec block = .ok p t) :
    ∃ e, e ≤ block.size ∧ H ≤ e ∧ p = block.extract H e ∧ checksum (block.extract 4 e) = rd32 block 0 := by
  unfold dec at h
  split at h
  · cases h
  · simp only [] at h
    split at h
    · cases h
    · split at h
      · cases h
      · rename_i h1 h2 h3
        injection h with hp ht
        refine ⟨H + rd16 block 4, by omega, by omega, hp.symm, ?_⟩
        simpa using h3

/-- every single-bit flip of every byte of a message changes its CRC-32 -/
theorem C12_single_bit (m : ByteArray) (i b : Nat) (hi : i < m.size) (hb : b < 8) :
    checksum (flipBit m i b) ≠ checksum m :=
  checksum_flip m i b hi hb

/-- a single-bit flip anywhere in a chunk except its two length bytes is always detected -/
theorem C12_chunk_flip (t : CT) (p rest : ByteArray) (j b : Nat) (hp : p.size ≤ 65535)
    (hj : j < (enc t p).size) (hnl : j < 4 ∨ 6 ≤ j) (hb : b < 8) :
    dec (flipBit (enc t p) j b ++ rest) = .badCrc :=
  dec_flip t p rest j b hp hj hnl hb

/-- damage behind a chunk (padding, later records, garbage) does not affect its decoding -/
theorem C12_beyond_harmless (t : CT) (p rest rest' : ByteArray) (hp : p.size ≤ 65535) (ht : t < 256) :
    dec (enc t p ++ rest) = dec (enc t p ++ rest') :=
  dec_ignores_rest_beyond t p rest rest' hp ht

/-- truncation at any length is read as a clean prefix of the written records, never an error —
    by the reader that tolerates a torn tail (`tol = true`: the reader `loadIndexFromDataFiles`
    creates for the active file) -/
theorem C12_truncation (fid : Nat) (ds : List ByteArray) (hpos : ∀ d ∈ ds, 0 < d.size) (n : Nat)
    (hn : n ≤ (appendAll crcCodec ByteArray.empty ds).size) :
    ∃ j, j ≤ ds.length ∧
      scan crcCodec true fid ((appendAll crcCodec ByteArray.empty ds).extract 0 n)
        = { recs := (ds.take j).zip (posAll crcCodec fid ByteArray.empty (ds.take j)),
            validEnd := (appendAll crcCodec ByteArray.empty (ds.take j)).size, ok := true } := by
  obtain ⟨j, hj, _, _, h⟩ := scan_truncate crcCodec fid ds hpos n hn
  exact ⟨j, hj, h⟩

/-- A torn tail is accepted only by the reader of the active file; in every other file a log that
    ends inside a record is reported as corruption.

    Cut a file built by appends at a length `n` strictly inside the chunk bytes of record `j`:
    behind the padding in front of the record (`hlo`) and before its end (`hhi`).
    * If the cut is NOT at a block boundary, an incomplete chunk is left (it starts at the record's
      first chunk or at the start of the file's last block, whichever is later), and the bytes
      present of it must not all be zero (`hnz`; an all-zero remainder is indistinguishable from
      never-written space and is end of file for every reader).
    * If the cut IS at a block boundary (`n % BS = 0`: at least one whole chunk of the record lies
      in front of the cut, the next block does not exist, no incomplete chunk is left) nothing
      further is required: `DataReader.next` has consumed `cnt > 0` chunks of the record when the
      log ends and reports `ErrInvalidCRC` (`endOfLog`).
    Then the strict reader (`tol = false`) returns the `j` records in front of the cut, with the
    positions the writer reported, and ends with an ERROR — it does not silently drop the tail. -/
theorem C12_torn_tail_only_active (fid : Nat) (ds : List ByteArray) (hpos : ∀ d ∈ ds, 0 < d.size)
    (j n : Nat) (hj : j < ds.length)
    (hlo : (appendAll crcCodec ByteArray.empty (ds.take j)).size
      + padOf ((appendAll crcCodec ByteArray.empty (ds.take j)).size % BS) < n)
    (hhi : n < (appendAll crcCodec ByteArray.empty (ds.take (j+1))).size)
    (hnz : n % BS ≠ 0 → allZeroFrom ((appendAll crcCodec ByteArray.empty ds).extract 0 n)
      (max ((appendAll crcCodec ByteArray.empty (ds.take j)).size
          + padOf ((appendAll crcCodec ByteArray.empty (ds.take j)).size % BS)) (n / BS * BS)) = false) :
    scan crcCodec false fid ((appendAll crcCodec ByteArray.empty ds).extract 0 n)
      = { recs := (ds.take j).zip (posAll crcCodec fid ByteArray.empty (ds.take j)),
          validEnd := (appendAll crcCodec ByteArray.empty (ds.take j)).size, ok := false } :=
  scan_truncate_strict' crcCodec fid ds hpos j n hj hlo hhi hnz

/-- The tolerant reader (`tol = true`: the active file's) on the same cut — in fact on every cut at
    or behind the end of record `j-1` (`hfit`) and before the end of record `j` (`hhi`), block
    boundary or not, zero remainder or not: the same `j` records with the writer's positions, the
    same `validEnd`, and a clean END OF FILE.  (`C12_truncation` with its `j` made explicit.) -/
theorem C12_torn_tail_active (fid : Nat) (ds : List ByteArray) (hpos : ∀ d ∈ ds, 0 < d.size)
    (j n : Nat) (hj : j < ds.length)
    (hfit : (appendAll crcCodec ByteArray.empty (ds.take j)).size ≤ n)
    (hhi : n < (appendAll crcCodec ByteArray.empty (ds.take (j+1))).size) :
    scan crcCodec true fid ((appendAll crcCodec ByteArray.empty ds).extract 0 n)
      = { recs := (ds.take j).zip (posAll crcCodec fid ByteArray.empty (ds.take j)),
          validEnd := (appendAll crcCodec ByteArray.empty (ds.take j)).size, ok := true } :=
  scan_truncate_at crcCodec fid ds hpos j n hj hfit hhi

/-- non-vacuity: a concrete flip that the theorem covers -/
example : dec (flipBit (enc 0 ⟨#[1, 2, 3]⟩) 8 7 ++ ⟨#[9]⟩) = .badCrc :=
  C12_chunk_flip 0 _ _ 8 7 (by decide) (by decide) (by decide) (by decide)

/-! ## evaluated sanity checks for `C12_torn_tail_only_active` (`#guard`; not used by any proof) -/

private def fill (n : Nat) (b : UInt8) : ByteArray := ⟨Array.replicate n b⟩
private def build (ds : List ByteArray) : ByteArray := appendAll crcCodec ByteArray.empty ds
private def exDs : List ByteArray := [fill 100 1, fill 40 2]

-- non-vacuity: two records (107 + 47 bytes), cut at 130 = inside record `j = 1`; the hypotheses hold …
#guard (build (exDs.take 1)).size + padOf ((build (exDs.take 1)).size % BS) < 130
#guard 130 < (build (exDs.take 2)).size
#guard 130 % BS ≠ 0    -- so `hnz` is required:
#guard allZeroFrom ((build exDs).extract 0 130)
    (max ((build (exDs.take 1)).size + padOf ((build (exDs.take 1)).size % BS)) (130 / BS * BS)) == false
-- … the strict reader returns the first record and fails, the tolerant reader returns it and ends cleanly
#guard (scan crcCodec false 1 ((build exDs).extract 0 130)).ok == false
#guard (scan crcCodec false 1 ((build exDs).extract 0 130)).recs.length == 1
#guard (scan crcCodec true 1 ((build exDs).extract 0 130)).ok == true
#guard (scan crcCodec true 1 ((build exDs).extract 0 130)).recs.length == 1
-- the excluded cuts read as end of file for the strict reader too (no incomplete chunk is left):
-- at a record boundary and inside the padding in front of a record
#guard (scan crcCodec false 1 ((build exDs).extract 0 107)).ok == true
#guard (build [fill 32755 1]).size == 32762
#guard (scan crcCodec false 1 ((build [fill 32755 1, fill 10 2]).extract 0 32765)).ok == true
#guard (build [fill 40000 3]).size > BS
-- a cut at the block boundary between two chunks of ONE record leaves no incomplete chunk either, but the record is
-- unfinished: the strict reader reports it (`DataReader.endOfLog`; before that repair it read as a clean end of file),
-- the tolerant reader ends the log in front of the record
#guard (scan crcCodec false 1 ((build [fill 40000 3]).extract 0 BS)).ok == false
#guard (scan crcCodec true 1 ((build [fill 40000 3]).extract 0 BS)).ok == true
#guard (scan crcCodec true 1 ((build [fill 40000 3]).extract 0 BS)).recs.length == 0
#guard (scan crcCodec false 1 ((build [fill 40000 3]).extract 0 (BS + 1))).ok == false
#guard (scan crcCodec false 1 ((build [fill 40000 3]).extract 0 (BS - 1))).ok == false

/-- non-vacuity of the block-boundary case of `C12_torn_tail_only_active` (and of
    `C12_torn_tail_active`): ONE record of 40000 bytes (a First chunk filling block 0 and a Last
    chunk), cut at `BS` — exactly between its two chunks.  The strict reader reports no record and
    an ERROR, the tolerant reader no record and a clean end of file. -/
example :
    scan crcCodec false 1 ((build [fill 40000 3]).extract 0 BS) = { recs := [], validEnd := 0, ok := false } ∧
    scan crcCodec true 1 ((build [fill 40000 3]).extract 0 BS) = { recs := [], validEnd := 0, ok := true } := by
  have hsz : (fill 40000 3).size = 40000 := by simp [fill, ByteArray.size]
  have hpos : ∀ d ∈ [fill 40000 3], 0 < d.size := by
    intro d hd; simp only [List.mem_cons, List.not_mem_nil, or_false] at hd; subst hd; omega
  have h0 : appendAll crcCodec ByteArray.empty ([fill 40000 3].take 0) = ByteArray.empty := by
    simp [appendAll]
  have h1 : appendAll crcCodec ByteArray.empty ([fill 40000 3].take (0+1))
      = appendRec crcCodec ByteArray.empty (fill 40000 3) := by simp [appendAll]
  have hgt := size_appendRec_gt crcCodec ByteArray.empty (fill 40000 3) (by omega)
  have he : ByteArray.empty.size = 0 := rfl
  have hBS : BS = 32768 := rfl
  have hp : padOf (0 % BS) = 0 := by decide
  have hhi : BS < (appendAll crcCodec ByteArray.empty ([fill 40000 3].take (0+1))).size := by
    rw [h1]; omega
  have hs := C12_torn_tail_only_active 1 [fill 40000 3] hpos 0 BS (by simp)
    (by rw [h0, he, hp, hBS]; omega) hhi (fun h => absurd (Nat.mod_self BS) h)
  have ht := C12_torn_tail_active 1 [fill 40000 3] hpos 0 BS (by simp)
    (by rw [h0, he]; omega) hhi
  rw [h0] at hs ht
  exact ⟨hs, ht⟩

/-! ## the validity checks of the readers as they stand in /repo (translator tie, round 4) -/

/-- `validLogRecord(data)` — what `NextLogRecord` and `ReadRecordValue` test before `DecodeLogRecord` /
    `DecodeLogRecordValue` — as it stands in /repo = "the model decodes `data`", for EVERY byte string: the Go
    check accepts iff `decodeRecord` (iff `decodeValue`) returns a record.  Both directions: nothing the model
    refuses (empty payload, a varint that overflows or ends inside, a negative or oversized length, a payload
    shorter or longer than its header states) is accepted by Go, and nothing the model decodes is refused.
    `hsz`: `len(data)` is a Go `int`. -/
theorem C12_translated_validLogRecord (data : ByteArray) (hsz : data.size < 2^63) :
    Generated.Trans.datafile.validLogRecord data = (Record.decodeRecord data).isSome ∧
    Generated.Trans.datafile.validLogRecord data = (Record.decodeValue data).isSome :=
  ⟨TransEq.trans_validLogRecord_eq data hsz, TransEq.trans_validLogRecord_value data hsz⟩

/-- `validHintRecord(buf)` — what `NextHintRecord` tests before `DecodeHintRecord` — as it stands in /repo
    (a counted loop over the four position varints; the computed fuel suffices: `some`) = "the model decodes
    `buf`", for every byte string.  No hypothesis. -/
theorem C12_translated_validHintRecord (buf : ByteArray) :
    Generated.Trans.datafile.validHintRecord buf = some (Record.decodeHint buf).isSome :=
  TransEq.trans_validHintRecord_eq buf

/-- both sides of `C12_translated_validLogRecord` on concrete payloads: an encoded record (type 1, key "k1",
    value "v", batch 300) is accepted and decoded; the same bytes with the last byte missing, and with one byte
    appended, are refused by both (these are the payloads a lost block produces) -/
example :
    Generated.Trans.datafile.validLogRecord ⟨#[1, 4, 2, 0xac, 0x02, 0x6b, 0x31, 0x76]⟩ = true ∧
    (Record.decodeRecord ⟨#[1, 4, 2, 0xac, 0x02, 0x6b, 0x31, 0x76]⟩).isSome = true ∧
    Generated.Trans.datafile.validLogRecord ⟨#[1, 4, 2, 0xac, 0x02, 0x6b, 0x31]⟩ = false ∧
    (Record.decodeRecord ⟨#[1, 4, 2, 0xac, 0x02, 0x6b, 0x31]⟩).isSome = false ∧
    Generated.Trans.datafile.validLogRecord ⟨#[1, 4, 2, 0xac, 0x02, 0x6b, 0x31, 0x76, 0]⟩ = false ∧
    (Record.decodeValue ⟨#[1, 4, 2, 0xac, 0x02, 0x6b, 0x31, 0x76, 0]⟩).isSome = false := by decide +kernel

/-- … and of `C12_translated_validHintRecord`: fid 3, block 70000, offset 5, size 300, key "k" is accepted; cut
    inside the fourth varint it is refused -/
example :
    Generated.Trans.datafile.validHintRecord ⟨#[3, 0xf0, 0xa2, 0x04, 5, 0xac, 0x02, 0x6b]⟩ = some true ∧
    (Record.decodeHint ⟨#[3, 0xf0, 0xa2, 0x04, 5, 0xac, 0x02, 0x6b]⟩).isSome = true ∧
    Generated.Trans.datafile.validHintRecord ⟨#[3, 0xf0, 0xa2, 0x04, 5, 0xac]⟩ = some false ∧
    (Record.decodeHint ⟨#[3, 0xf0, 0xa2, 0x04, 5, 0xac]⟩).isSome = false := by decide +kernel

end XixiKV.C12
