import XixiKV.Proofs.Crc
import XixiKV.Proofs.Truncate
/-!
# C12 — damaged bytes are detected or harmless (partial by design)

Proved here, for the concrete CRC-32 chunk codec of the model:
* `C12_only_checked`  — a reader only ever returns bytes whose checksum matched;
* `C12_single_bit`    — every single-bit flip of a message changes its CRC-32;
* `C12_chunk_flip`    — every single-bit flip in the checksum, type or payload bytes of a chunk makes
                         `DecodeChunk` report `badCrc` (the two length bytes are excluded: a flip
                         there changes the checksummed range; detection is then 1 − 2⁻³², not a theorem);
* `C12_beyond_harmless` — bytes after a chunk do not influence its decoding;
* `C12_truncation`    — any truncation reads as a clean prefix (shared with C03).
NOT provable and not claimed: detection of arbitrary multi-byte garbage and of flips in the length
field (probabilistic); the "never panics" half of the property is a statement about Go slice bounds,
which the model cannot violate by construction — it is checked by the exhaustive corruption runs
of the C12 check against the model's predicted outcome.
-/
namespace XixiKV.C12
open XixiKV XixiKV.Frame XixiKV.Chunk

/-- a chunk is only ever returned when the stored checksum equals the CRC-32 of
    `len ‖ type ‖ payload` as found in the block -/
theorem C12_only_checked (block p : ByteArray) (t : CT) (h : dec block = .ok p t) :
    ∃ e, e ≤ block.size ∧ H ≤ e ∧ p = block.extract H e ∧ checksum (block.extract 4 e) = rd32 block 0 := by
  unfold dec at h
  split at h
  · cases h
  · simp only [] at h
    split at h
    · cases h
    · split at h
      · cases h
      · rename_i h1 h2 h3
        injection h with hp ht
        refine ⟨H + rd16 block 4, by omega, by omega, hp.symm, ?_⟩
        simpa using h3

/-- every single-bit flip of every byte of a message changes its CRC-32 -/
theorem C12_single_bit (m : ByteArray) (i b : Nat) (hi : i < m.size) (hb : b < 8) :
    checksum (flipBit m i b) ≠ checksum m :=
  checksum_flip m i b hi hb

/-- a single-bit flip anywhere in a chunk except its two length bytes is always detected -/
theorem C12_chunk_flip (t : CT) (p rest : ByteArray) (j b : Nat) (hp : p.size ≤ 65535)
    (hj : j < (enc t p).size) (hnl : j < 4 ∨ 6 ≤ j) (hb : b < 8) :
    dec (flipBit (enc t p) j b ++ rest) = .badCrc :=
  dec_flip t p rest j b hp hj hnl hb

/-- damage behind a chunk (padding, later records, garbage) does not affect its decoding -/
theorem C12_beyond_harmless (t : CT) (p rest rest' : ByteArray) (hp : p.size ≤ 65535) (ht : t < 256) :
    dec (enc t p ++ rest) = dec (enc t p ++ rest') :=
  dec_ignores_rest_beyond t p rest rest' hp ht

/-- truncation at any length is read as a clean prefix of the written records, never an error -/
theorem C12_truncation (fid : Nat) (ds : List ByteArray) (hpos : ∀ d ∈ ds, 0 < d.size) (n : Nat)
    (hn : n ≤ (appendAll crcCodec ByteArray.empty ds).size) :
    ∃ j, j ≤ ds.length ∧
      scan crcCodec fid ((appendAll crcCodec ByteArray.empty ds).extract 0 n)
        = { recs := (ds.take j).zip (posAll crcCodec fid ByteArray.empty (ds.take j)),
            validEnd := (appendAll crcCodec ByteArray.empty (ds.take j)).size, ok := true } := by
  obtain ⟨j, hj, _, _, h⟩ := scan_truncate crcCodec fid ds hpos n hn
  exact ⟨j, hj, h⟩

/-- non-vacuity: a concrete flip that the theorem covers -/
example : dec (flipBit (enc 0 ⟨#[1, 2, 3]⟩) 8 7 ++ ⟨#[9]⟩) = .badCrc :=
  C12_chunk_flip 0 _ _ 8 7 (by decide) (by decide) (by decide) (by decide)

end XixiKV.C12
