import XixiKV.Properties.C11
import XixiKV.Proofs.TransEq
import XixiKV.Proofs.TransEq2
import XixiKV.Proofs.TransEq3

/-! obligations of C11 that speak about Go functions as TRANSLATED from the current source (kept apart from `Properties/C11.lean`,
which other modules import: a rewrite of a translated function that leaves the translator's proofs behind must not take the
obligations of other properties with it) -/

namespace XixiKV.C11
open XixiKV XixiKV.Frame XixiKV.Record

/-! ## the writer and the chunk decoder as TRANSLATED from the Go source

`harness/cmd/trans` translates `(*DataFile).writeToBuf` and `DecodeChunk` from /repo's current
source into `Generated/Trans.lean` on every run (Go subset → Lean, machine integers with explicit
wrap-around, buffer effects as emitted segments); these theorems say that what the code computes is
what the hand-written model computes, so every theorem of this file is about the code as it reads
now (for the stated ranges), not only about executions that were compared. -/

/-- `writeToBuf` as it stands in /repo, started in the writer state of ANY file `f`: returns the
    position the model reports and the model's next writer state, and emits exactly the bytes the
    model appends (padding + chunks with correct 16-bit lengths and in-bounds slices). -/
theorem C11_translated_writeToBuf (C : Codec) (fid : Nat) (f data : ByteArray)
    (hdata : data.size < 2^31) (hblk : f.size / BS + data.size / 32761 + 2 < 2^32) :
    ∃ segs bytes,
      Generated.Trans.datafile.writeToBuf fid data (f.size / BS) (f.size % BS)
        = some (({ Fid := fid, BlockID := (posOf C fid f.size data).block,
                   Offset := (posOf C fid f.size data).off, Size := (posOf C fid f.size data).size },
                 (appendRec C f data).size / BS, (appendRec C f data).size % BS), segs) ∧
      TransEq.render C data segs = some bytes ∧ f ++ bytes = appendRec C f data :=
  TransEq.trans_writeToBuf_appendRec C fid f data hdata hblk

/-- `DecodeChunk` as it stands in /repo = the model's `Chunk.dec`, for every input slice -/
theorem C11_translated_DecodeChunk (block : ByteArray) :
    Generated.Trans.datafile.DecodeChunk TransEq.crcNat block = TransEq.ofDecOut (Chunk.dec block) :=
  TransEq.trans_DecodeChunk_eq block

/-- the mapping arithmetic of `(*MMap).remap` as it stands in /repo = the fio model's `roundUp` -/
theorem C11_translated_remap (newBase dataSize : Nat) (h : newBase + dataSize < 2^62) :
    Generated.Trans.fio.remap_endOff ↑newBase ↑dataSize
      = ↑(Fio.roundUp Generated.Trans.fio.blockSize (newBase + dataSize)) :=
  TransEq.trans_remap_endOff_eq newBase dataSize h

/-- the position-based reader `(*DataFile).readToBuf` as it stands in /repo (loop with early returns
    and `break`, the block window read from the file, the call to the translated `DecodeChunk`) =
    the model's `readAt`, for every file, block id and offset in machine range: same outcome
    (`nil` / `io.EOF` / `ErrInvalidCRC`) and, on success, the same payload; the fuel suffices. -/
theorem C11_translated_readToBuf (file block0 : ByteArray) (blockID offset : Nat)
    (hb0 : block0.size = 32768) (hfile : file.size / BS + 1 < 2^32) (hblk : blockID < 2^32) (hoff : offset < 2^32) :
    ∃ out, Generated.Trans.datafile.readToBuf block0 file TransEq.crcNat (file.size / BS) (file.size % BS) blockID offset
        = some (TransEq.ofOutErr (readAt Chunk.crcCodec file blockID offset), out) ∧
      ∀ p, readAt Chunk.crcCodec file blockID offset = .ok p → out = p :=
  TransEq.trans_readToBuf_eq file block0 blockID offset hb0 hfile hblk hoff

/-- the record codec as it stands in /repo: `EncodeLogRecord` = the model's `encodeRecord`
    (sizes < 2³¹, scratch header of the size the engine allocates), and `DecodeLogRecord` /
    `DecodeLogRecordValue` return what the model decodes whenever the model decodes at all
    (the inputs on which the model returns `none` are those on which the Go code panics or
    mis-slices: empty input, truncated / overflowing varint, negative or oversized lengths). -/
theorem C11_translated_record_codec :
    (∀ (r : Record) (header : ByteArray), r.key.size < 2^31 → r.value.size < 2^31 → r.batch < 2^64 →
        Generated.Trans.datafile.MaxLogRecordHeaderSize ≤ header.size →
        Generated.Trans.datafile.EncodeLogRecord (TransEq.goRecord r) header = encodeRecord r) ∧
    (∀ (data : ByteArray) (r : Record), data.size < 2^63 → decodeRecord data = some r →
        Generated.Trans.datafile.DecodeLogRecord data = TransEq.goRecord r) ∧
    (∀ (data v : ByteArray), data.size < 2^63 → decodeValue data = some v →
        Generated.Trans.datafile.DecodeLogRecordValue data = v) :=
  ⟨fun r header hk hv hb hf => TransEq.trans_EncodeLogRecord_eq21 r header hk hv hb hf,
   fun data r hs h => TransEq.trans_DecodeLogRecord_eq data r hs h,
   fun data v hs h => TransEq.trans_DecodeLogRecordValue_eq data v hs h⟩

/-- non-vacuity: a 40 000-byte payload appended to a file that ends 3 bytes before a block boundary -/
example : ∃ f d : ByteArray, 0 < d.size ∧ f.size % BS = 32765 ∧ d.size = 40000 :=
  ⟨zeros 32765, zeros 40000, by simp, by simp [BS], by simp⟩


/-! ## the sequential reader as TRANSLATED from the Go source (translator round 3) -/

/-- `(*DataFile).zeroUntilEnd` as it stands in /repo (a `for` loop that reads the file block by block through
    a pooled buffer, with a nested `range` loop over the bytes read) = the model's `allZeroFrom`: called with
    `fileSize` = the size of the file it returns whether every byte from `from` on is zero, for every file,
    every stale content of the pooled buffer and every start position; the fuel suffices. -/
theorem C11_translated_zeroUntilEnd (file pool0 : ByteArray) (from_ : Nat) (hpool : pool0.size = 32768)
    (hfile : file.size < 2^62) :
    Generated.Trans.datafile.zeroUntilEnd pool0 file (from_ : Int) (file.size : Int) = some (allZeroFrom file from_) :=
  TransEq.trans_zeroUntilEnd_eq file pool0 from_ hpool hfile

/-- the sequential reader `(*DataReader).next` as it stands in /repo (loop over the chunks of one record with
    early returns and `break`, the reader's block buffer, the calls of the translated `DecodeChunk`,
    `zeroUntilEnd`, `endOfLog` and `Size`, the assigned receiver fields `blockID`, `offset`, `validEnd`) =
    the model's sequential step `nextAt` followed by the reader's skip rule `rnormB/rnormO`, for BOTH values of
    `tolerateTornTail`, every file whose block count fits `uint32` with room for one increment, every stale
    content of the reader's buffer and of the pooled buffer, every reader state.  On success: the payload, the
    position `(Fid, blockID, offset, Size)` (`Size` is a `uint32`: the model's size modulo 2³²), the new reader
    state and `validEnd` = the end of the record; `io.EOF` / `ErrInvalidCRC` exactly when the model says end of
    log (torn-tail, zero-tail and `tornZero` rules included) / error, with `validEnd` unchanged.  The fuel suffices. -/
theorem C11_translated_next (file buf0 pool0 : ByteArray) (tol : Bool) (fid blockID offset : Nat) (validEnd : Int)
    (hbuf : buf0.size = 32768) (hpool : pool0.size = 32768) (hfile : file.size / BS + 1 < 2^32)
    (hblk : blockID < 2^32) :
    match nextAt Chunk.crcCodec tol file blockID offset (file.size + 1) with
    | .ok (d, sz, b', o') =>
      Generated.Trans.datafile.next (file := file) (crc32_ChecksumIEEE := TransEq.crcNat) (getBuf_block := pool0)
          (reader_dataFile_ID := fid) (reader_dataFile_lastBlockID := file.size / BS)
          (reader_dataFile_lastBlockSize := file.size % BS) (reader_blockID := blockID) (reader_offset := offset)
          (reader_blockBuf := buf0) (reader_validEnd := validEnd) (reader_tolerateTornTail := tol)
        = some ((d, some { Fid := fid, BlockID := blockID, Offset := offset, Size := sz % 2^32 }, none),
                rnormB b' o', rnormO o', ((b' * BS + o' : Nat) : Int))
    | .eof => ∃ b o,
      Generated.Trans.datafile.next (file := file) (crc32_ChecksumIEEE := TransEq.crcNat) (getBuf_block := pool0)
          (reader_dataFile_ID := fid) (reader_dataFile_lastBlockID := file.size / BS)
          (reader_dataFile_lastBlockSize := file.size % BS) (reader_blockID := blockID) (reader_offset := offset)
          (reader_blockBuf := buf0) (reader_validEnd := validEnd) (reader_tolerateTornTail := tol)
        = some ((ByteArray.empty, none, some "io.EOF"), b, o, validEnd)
    | .err => ∃ b o,
      Generated.Trans.datafile.next (file := file) (crc32_ChecksumIEEE := TransEq.crcNat) (getBuf_block := pool0)
          (reader_dataFile_ID := fid) (reader_dataFile_lastBlockID := file.size / BS)
          (reader_dataFile_lastBlockSize := file.size % BS) (reader_blockID := blockID) (reader_offset := offset)
          (reader_blockBuf := buf0) (reader_validEnd := validEnd) (reader_tolerateTornTail := tol)
        = some ((ByteArray.empty, none, some "ErrInvalidCRC"), b, o, validEnd) :=
  TransEq.trans_next_eq file buf0 pool0 tol fid blockID offset validEnd hbuf hpool hfile hblk

/-- non-vacuity of `C11_translated_next` (the `.ok` case on a multi-block record): a reader of either kind that
    stands at the end of ANY file `f` returns, after a non-empty record `d` was appended (and whatever came
    later), exactly `d`, the writer's position, and `validEnd` = the end of that record -/
theorem C11_translated_next_write (d f post buf0 pool0 : ByteArray) (tol : Bool) (fid : Nat) (validEnd : Int)
    (hd : 0 < d.size) (hbuf : buf0.size = 32768) (hpool : pool0.size = 32768)
    (hF : (appendRec C f d ++ post).size / BS + 1 < 2^32) :
    ∃ b o,
      Generated.Trans.datafile.next (file := appendRec C f d ++ post) (crc32_ChecksumIEEE := TransEq.crcNat)
          (getBuf_block := pool0) (reader_dataFile_ID := fid)
          (reader_dataFile_lastBlockID := (appendRec C f d ++ post).size / BS)
          (reader_dataFile_lastBlockSize := (appendRec C f d ++ post).size % BS)
          (reader_blockID := endB f) (reader_offset := endO f)
          (reader_blockBuf := buf0) (reader_validEnd := validEnd) (reader_tolerateTornTail := tol)
        = some ((d, some { Fid := fid, BlockID := endB f, Offset := endO f,
                           Size := (posOf C 0 f.size d).size % 2^32 }, none),
                b, o, ((appendRec C f d).size : Int)) :=
  TransEq.trans_next_write d f post buf0 pool0 tol fid validEnd hd hbuf hpool hF

end XixiKV.C11
