import XixiKV.Proofs.EngineLive
/-!
# C01 — an open database behaves as a map from keys to byte strings (plain operations)
# C17 (live part) — `Stat` reports the true key count and consistent size counters

Scope of this file: the *plain* live operations `Put / Get / Delete / Sync` of `db.go`, including
the file rotation that `appendLogRecord` performs when the size estimate does not fit
(`Engine.appendLog`), for values of any length (the framing lemmas behind `valueAt_log` cover
empty, sub-block and multi-block payloads) and every configuration (`Cfg` is arbitrary: any
`fileSize`, any sync policy).  **Batches, Merge, Close/re-Open are not operations of the `Op` type
here**; they are covered by their own property files against the same invariant
`Engine.Inv` (`Proofs/EngineDefs.lean`), which is why the list-level theorem is called
`C01_refines_plain`.

The abstract specification is a function `Spec = ByteArray → Option ByteArray`; `specRun` executes
an operation list on it and yields the expected results.  `run` executes the same list on the
executable model (`Engine.put / get / delete / syncDB`).  `C01_refines_plain` says both agree on
every result and on the final map, from every state that satisfies the invariant — in particular
from the freshly opened empty database (`C01_init`).  `spec_lastWrite` spells the specification out
as "the value of the most recent successful put of that key, or nothing if the key was never
written or its most recent write was a delete".

Size side conditions (`OpOK`): keys and values are shorter than 2^31 bytes (the lengths are Go
`int`s encoded as 32-bit zig-zag varints by the codec).  Empty keys are allowed in the operation
list: they are rejected with `keyempty` and change nothing.
-/
namespace XixiKV.C01
open XixiKV.Engine XixiKV.Index XixiKV.Frame XixiKV.Record

/-! ## the abstract specification -/

abbrev Spec := ByteArray → Option ByteArray

def specEmpty : Spec := fun _ => none

def specPut (m : Spec) (k v : ByteArray) : Spec := fun k' => if k' = k then some v else m k'

def specDel (m : Spec) (k : ByteArray) : Spec := fun k' => if k' = k then none else m k'

/-- the plain operations (no batches, no merge) -/
inductive Op where
  | put : ByteArray → ByteArray → Op
  | del : ByteArray → Op
  | get : ByteArray → Op
  | sync : Op

/-- one operation on the executable model -/
def step (s : St) : Op → St × Res
  | .put k v => Engine.put s k v
  | .del k => Engine.delete s k
  | .get k => Engine.get s k
  | .sync => Engine.syncDB s

/-- a list of operations on the executable model: final state and all results -/
def run (s : St) : List Op → St × List Res
  | [] => (s, [])
  | op :: ops => ((run (step s op).1 ops).1, (step s op).2 :: (run (step s op).1 ops).2)

/-- what `Get` must answer when the map holds `o` -/
def getRes (o : Option ByteArray) : Res :=
  match o with
  | some v => .val v
  | none => .notFound

/-- one operation on the specification: new map and expected result -/
def specStep (m : Spec) : Op → Spec × Res
  | .put k v => if k.size = 0 then (m, .err "keyempty") else (specPut m k v, .ok)
  | .del k => if k.size = 0 then (m, .err "keyempty") else (specDel m k, .ok)
  | .get k => if k.size = 0 then (m, .err "keyempty") else (m, getRes (m k))
  | .sync => (m, .ok)

def specRun (m : Spec) : List Op → Spec × List Res
  | [] => (m, [])
  | op :: ops => ((specRun (specStep m op).1 ops).1, (specStep m op).2 :: (specRun (specStep m op).1 ops).2)

/-- size side conditions on the inputs -/
def OpOK : Op → Prop
  | .put k v => k.size < 2 ^ 31 ∧ v.size < 2 ^ 31
  | .del k => k.size < 2 ^ 31
  | .get _ => True
  | .sync => True

/-- an open database that satisfies the engine invariant for some ghost directory -/
def Open (s : St) : Prop := ∃ db g, s.db = some db ∧ Inv s db g

/-- the map an open database denotes (`Engine.absGet` through its handle) -/
def absOf (s : St) : Spec := fun k =>
  match s.db with
  | some db => absGet s db k
  | none => none

theorem absOf_eq {s : St} {db : DB} (h : s.db = some db) : absOf s = absGet s db := by
  funext k; simp only [absOf, h]

/-! ## the specification, spelled out on the operation trace -/

/-- the most recent successful write of `k` in the trace: `some (some v)` a put of `v`,
    `some none` a delete, `none` no write at all (writes with an empty key fail) -/
def lastWrite (k : ByteArray) : List Op → Option (Option ByteArray)
  | [] => none
  | op :: ops =>
    match lastWrite k ops with
    | some w => some w
    | none =>
      match op with
      | .put k' v => if k' = k ∧ k'.size ≠ 0 then some (some v) else none
      | .del k' => if k' = k ∧ k'.size ≠ 0 then some none else none
      | _ => none

/-- the final specification map holds, for every key, the value of its most recent successful put,
    nothing if its most recent write was a delete, and the initial content if it was never written -/
theorem spec_lastWrite (ops : List Op) : ∀ (m : Spec) (k : ByteArray),
    (specRun m ops).1 k = (lastWrite k ops).getD (m k) := by
  induction ops with
  | nil => intro m k; rfl
  | cons op ops ih =>
    intro m k
    simp only [specRun, lastWrite]
    rw [ih]
    cases hl : lastWrite k ops with
    | some w => rfl
    | none =>
      simp only [Option.getD_none]
      cases op with
      | put k' v =>
        simp only [specStep]
        by_cases h0 : k'.size = 0
        · rw [if_pos h0, if_neg (by simp [h0])]; rfl
        · rw [if_neg h0]
          by_cases e : k' = k
          · rw [if_pos ⟨e, h0⟩]; simp [specPut, e]
          · rw [if_neg (fun h => e h.1)]
            simp only [specPut, Option.getD_none]
            rw [if_neg (fun h => e h.symm)]
      | del k' =>
        simp only [specStep]
        by_cases h0 : k'.size = 0
        · rw [if_pos h0, if_neg (by simp [h0])]; rfl
        · rw [if_neg h0]
          by_cases e : k' = k
          · rw [if_pos ⟨e, h0⟩]; simp [specDel, e]
          · rw [if_neg (fun h => e h.1)]
            simp only [specDel, Option.getD_none]
            rw [if_neg (fun h => e h.symm)]
      | get k' =>
        simp only [specStep]
        split <;> rfl
      | sync => rfl

/-! ## C01: initial state -/

/-- **C01 (initial state)**: `Open` of a fresh directory with a valid configuration succeeds and
    yields an open database that satisfies the invariant and denotes the empty map -/
theorem C01_init (dir : String) (cfg : Cfg) (h : cfg.Valid) :
    (openDB St.init dir cfg).2 = .ok ∧ Open (openDB St.init dir cfg).1 ∧
      absOf (openDB St.init dir cfg).1 = specEmpty := by
  rw [openDB_fresh dir cfg h]
  refine ⟨rfl, ⟨_, _, rfl, Inv_fresh dir cfg⟩, ?_⟩
  funext k
  simp only [absOf, absGet, Index.get, specEmpty]

/-! ## C01: one step -/

/-- **C01 (one operation)**: every plain operation preserves the invariant, returns the result the
    specification prescribes, and moves the denoted map as the specification does -/
theorem C01_step {s : St} (ho : Open s) (op : Op) (hop : OpOK op) :
    Open (step s op).1 ∧ (step s op).2 = (specStep (absOf s) op).2 ∧
      absOf (step s op).1 = (specStep (absOf s) op).1 := by
  obtain ⟨db, g, hs, hi⟩ := ho
  rw [absOf_eq hs]
  cases op with
  | put k v =>
    simp only [step, specStep]
    by_cases h0 : k.size = 0
    · rw [if_pos h0, put_keyempty s k v h0 hs]
      exact ⟨⟨db, g, hs, hi⟩, rfl, absOf_eq hs⟩
    · rw [if_neg h0]
      obtain ⟨db', g', hs', hi', hres, habs, _, _⟩ := put_spec hi hs k v (by omega) hop.1 hop.2
      refine ⟨⟨db', g', hs', hi'⟩, hres, ?_⟩
      rw [absOf_eq hs']
      funext k'
      rw [habs k']; rfl
  | del k =>
    simp only [step, specStep]
    by_cases h0 : k.size = 0
    · rw [if_pos h0, delete_keyempty s k h0 hs]
      exact ⟨⟨db, g, hs, hi⟩, rfl, absOf_eq hs⟩
    · rw [if_neg h0]
      obtain ⟨db', g', hs', hi', hres, habs, _, _⟩ := delete_spec hi hs k (by omega) hop
      refine ⟨⟨db', g', hs', hi'⟩, hres, ?_⟩
      rw [absOf_eq hs']
      funext k'
      rw [habs k']; rfl
  | get k =>
    simp only [step, specStep]
    by_cases h0 : k.size = 0
    · rw [if_pos h0, get_keyempty s k h0 hs]
      exact ⟨⟨db, g, hs, hi⟩, rfl, absOf_eq hs⟩
    · rw [if_neg h0]
      obtain ⟨hst, hres⟩ := get_spec hi hs k (by omega)
      rw [hst]
      refine ⟨⟨db, g, hs, hi⟩, ?_, absOf_eq hs⟩
      rw [hres]; rfl
  | sync =>
    simp only [step, specStep]
    obtain ⟨hs', hi', hres, habs⟩ := sync_spec hi hs
    refine ⟨⟨db, g, hs', hi'⟩, hres, ?_⟩
    rw [absOf_eq hs']
    funext k'
    exact habs k'

/-! ## C01: arbitrary operation lists -/

/-- **C01 (refinement, plain operations)**: from any state that satisfies the invariant, for every
    list of puts / deletes / gets / syncs whose keys and values satisfy the size side conditions,
    the model returns exactly the results of the specification — every `get` answers `.val v` for
    the latest put `v` of its key at that point and `.notFound` if the key was never written or was
    last deleted, every put / delete / sync answers `.ok` — the final state satisfies the invariant
    and denotes the final specification map -/
theorem C01_refines_plain (ops : List Op) : ∀ {s : St}, Open s → (∀ op ∈ ops, OpOK op) →
    Open (run s ops).1 ∧ (run s ops).2 = (specRun (absOf s) ops).2 ∧
      absOf (run s ops).1 = (specRun (absOf s) ops).1 := by
  induction ops with
  | nil => intro s ho _; exact ⟨ho, rfl, rfl⟩
  | cons op ops ih =>
    intro s ho hok
    obtain ⟨h1, h2, h3⟩ := C01_step ho op (hok op (by simp))
    obtain ⟨i1, i2, i3⟩ := ih h1 (fun o h => hok o (by simp [h]))
    simp only [run, specRun]
    rw [← h3]
    exact ⟨i1, by rw [h2, i2], i3⟩

/-- the invariant holds **throughout** the run: after every prefix of the operation list -/
theorem C01_inv_throughout {s : St} (ho : Open s) (ops : List Op) (hok : ∀ op ∈ ops, OpOK op) (n : Nat) :
    Open (run s (ops.take n)).1 :=
  (C01_refines_plain (ops.take n) ho (fun o h => hok o (List.mem_of_mem_take h))).1

/-- **C01 from a fresh database**: the runs of a freshly opened empty database agree with the
    specification started from the empty map -/
theorem C01_refines_fresh (dir : String) (cfg : Cfg) (h : cfg.Valid) (ops : List Op)
    (hok : ∀ op ∈ ops, OpOK op) :
    (run (openDB St.init dir cfg).1 ops).2 = (specRun specEmpty ops).2 ∧
      absOf (run (openDB St.init dir cfg).1 ops).1 = (specRun specEmpty ops).1 ∧
      Open (run (openDB St.init dir cfg).1 ops).1 := by
  obtain ⟨_, ho, he⟩ := C01_init dir cfg h
  obtain ⟨h1, h2, h3⟩ := C01_refines_plain ops ho hok
  rw [he] at h2 h3
  exact ⟨h2, h3, h1⟩

/-- after any run from a fresh database, a key maps to the value of its most recent successful put,
    and to nothing when it was never written or last deleted -/
theorem C01_latest_write (dir : String) (cfg : Cfg) (h : cfg.Valid) (ops : List Op)
    (hok : ∀ op ∈ ops, OpOK op) (k : ByteArray) :
    absOf (run (openDB St.init dir cfg).1 ops).1 k = (lastWrite k ops).getD none := by
  rw [(C01_refines_fresh dir cfg h ops hok).2.1, spec_lastWrite]; rfl

/-! ## C01: ListKeys;  C17: key count and counters -/

/-- **C01 (ListKeys)**: the listed keys are exactly the keys that have a value, strictly ascending
    in byte order (hence without duplicates) -/
theorem C01_listkeys {s : St} {db : DB} {g : GDir} (hi : Inv s db g) :
    (∀ k, k ∈ listKeys db ↔ absGet s db k ≠ none) ∧
    List.Pairwise (fun a b => keyLt a b = true) (listKeys db) ∧ (listKeys db).Nodup := by
  refine ⟨?_, Index.sorted_keys hi.sorted, Index.nodup_of_pairwise_keyLt (Index.sorted_keys hi.sorted)⟩
  intro k
  rw [listKeys, ← Index.get_isSome_iff_mem_keys, ← absGet_isSome hi k]
  cases absGet s db k <;> simp

/-- **C17 (KeyNum)**: `Stat().KeyNum` is the number of keys that have a value — it equals the length
    of *every* duplicate-free enumeration of those keys -/
theorem C17_keynum {s : St} {db : DB} {g : GDir} (hi : Inv s db g) (l : List ByteArray) (hnd : l.Nodup)
    (hl : ∀ k, k ∈ l ↔ absGet s db k ≠ none) : (stat s db).keys = l.length := by
  obtain ⟨hm, _, hnd'⟩ := C01_listkeys hi
  have hperm : (listKeys db).Perm l :=
    (List.perm_ext_iff_of_nodup hnd' hnd).mpr (fun a => by rw [hm a, hl a])
  rw [← hperm.length_eq]
  simp only [stat, listKeys, Index.keys, List.length_map]

/-- **C17 (counters, one state)**: `DiskSize − ReclaimableSize` is the number of bytes occupied by the
    live records, and `0 ≤ ReclaimableSize ≤ DiskSize` -/
theorem C17_counters {s : St} {db : DB} {g : GDir} (hi : Inv s db g) :
    (stat s db).disk = (stat s db).reclaim + liveBytes db.index ∧ (stat s db).reclaim ≤ (stat s db).disk := by
  have := hi.counters
  simp only [stat]
  omega

/-- **C17 (live operations)**: in every state reachable by plain operations the key count is the
    number of keys with a value and the size counters are consistent -/
theorem C17_counters_live {s : St} (ho : Open s) (ops : List Op) (hok : ∀ op ∈ ops, OpOK op) :
    ∃ db, (run s ops).1.db = some db ∧
      (stat (run s ops).1 db).disk = (stat (run s ops).1 db).reclaim + liveBytes db.index ∧
      (stat (run s ops).1 db).reclaim ≤ (stat (run s ops).1 db).disk ∧
      (∀ l : List ByteArray, l.Nodup → (∀ k, k ∈ l ↔ absOf (run s ops).1 k ≠ none) →
        (stat (run s ops).1 db).keys = l.length) := by
  obtain ⟨db, g, hs, hi⟩ := (C01_refines_plain ops ho hok).1
  refine ⟨db, hs, (C17_counters hi).1, (C17_counters hi).2, ?_⟩
  intro l hnd hl
  rw [absOf_eq hs] at hl
  exact C17_keynum hi l hnd hl

/-! ## non-vacuity -/

/-- the hypotheses are satisfiable: a fresh database exists, and on it put, overwrite, delete and
    get answer as a map would (any configuration with a positive file size, any value lengths —
    including rotation on every record when `fileSize` is tiny) -/
example (dir : String) (cfg : Cfg) (h : cfg.Valid) (k v w : ByteArray)
    (hk0 : k.size ≠ 0) (hk : k.size < 2 ^ 31) (hv : v.size < 2 ^ 31) (hw : w.size < 2 ^ 31) :
    (run (openDB St.init dir cfg).1 [.get k, .put k v, .get k, .put k w, .get k, .sync, .del k, .get k, .del k]).2
      = [.notFound, .ok, .val v, .ok, .val w, .ok, .ok, .notFound, .ok] := by
  have hok : ∀ op ∈ [Op.get k, .put k v, .get k, .put k w, .get k, .sync, .del k, .get k, .del k], OpOK op := by
    intro op hop
    simp only [List.mem_cons, List.not_mem_nil, or_false] at hop
    rcases hop with h | h | h | h | h | h | h | h | h <;> subst h <;> simp [OpOK, hk, hv, hw]
  rw [(C01_refines_fresh dir cfg h _ hok).1]
  simp [specRun, specStep, hk0, specPut, specDel, specEmpty, getRes]

/-- empty keys are rejected and change nothing -/
example (dir : String) (cfg : Cfg) (h : cfg.Valid) (v : ByteArray) (hv : v.size < 2 ^ 31) :
    (run (openDB St.init dir cfg).1 [.put ByteArray.empty v, .get ByteArray.empty, .del ByteArray.empty]).2
      = [.err "keyempty", .err "keyempty", .err "keyempty"] := by
  have hok : ∀ op ∈ [Op.put ByteArray.empty v, .get ByteArray.empty, .del ByteArray.empty], OpOK op := by
    intro op hop
    simp only [List.mem_cons, List.not_mem_nil, or_false] at hop
    rcases hop with h | h | h <;> subst h <;> simp [OpOK, hv]
  rw [(C01_refines_fresh dir cfg h _ hok).1]
  simp [specRun, specStep]

/-- the rotation branch of `appendLog` is exercised: with a tiny `fileSize` the very first `Put`
    rotates (active id 0 ↦ 1) — and the theorems above still apply -/
example (dir : String) (cfg : Cfg) (h : cfg.Valid) (h2 : cfg.fileSize ≤ 45) (k v : ByteArray)
    (hk0 : k.size ≠ 0) :
    ((Engine.put (openDB St.init dir cfg).1 k v).1.db.map (·.activeId)) = some 1 := by
  rw [openDB_fresh dir cfg h, put_eq rfl k v hk0]
  simp only [Option.map_some, putDB, appendLog_activeId]
  have := diskSizeEstimate_ge k.size v.size
  rw [if_pos (by omega)]

/-! ## evaluated sanity check (compiled evaluation by `#guard`; not used by any proof)

A concrete run on the executable model: a 70 000-byte (multi-block) value, an empty value, an
overwrite, a sync, deletes (present and absent key), with `fileSize = 200` so that some appends
rotate and others do not.  The model's answers coincide with the specification's, three data files
exist at the end, and the counters satisfy the C17 relation. -/

private def showRes : Res → String
  | .ok => "ok"
  | .val v => s!"val:{v.size}:{v.data.toList.take 2}"
  | .notFound => "nf"
  | .err e => "err:" ++ e

private def fill (n : Nat) (b : UInt8) : ByteArray := ⟨Array.replicate n b⟩
private def demoCfg : Cfg := { fileSize := 200, sync := 2, bps := 50, idx := 0, io := 0, shards := 1 }
private def demoOps : List Op :=
  [.put "a".toUTF8 (fill 70000 7), .get "a".toUTF8, .put "bb".toUTF8 ByteArray.empty, .get "bb".toUTF8,
   .put "a".toUTF8 (fill 3 9), .get "a".toUTF8, .sync, .del "bb".toUTF8, .get "bb".toUTF8, .del "bb".toUTF8,
   .get "a".toUTF8, .get ByteArray.empty]

#guard (run (openDB St.init "d" demoCfg).1 demoOps).2.map showRes
  = ["ok", "val:70000:[7, 7]", "ok", "val:0:[]", "ok", "val:3:[9, 9]", "ok", "ok", "nf", "ok", "val:3:[9, 9]",
     "err:keyempty"]
#guard (run (openDB St.init "d" demoCfg).1 demoOps).2.map showRes = (specRun specEmpty demoOps).2.map showRes
#guard (match (run (openDB St.init "d" demoCfg).1 demoOps).1.db with
  | some db =>
    let st := stat (run (openDB St.init "d" demoCfg).1 demoOps).1 db
    st.keys == 1 && st.files == 3 && st.disk == st.reclaim + liveBytes db.index && listKeys db == ["a".toUTF8]
  | none => false)

end XixiKV.C01

