import XixiKV.Proofs.EngineBatch
import XixiKV.Properties.C02
/-!
# C05 — batches: layered reads, commit in issue order, a committed batch is dead
# C04 (live part) — a committed batch is visible at once and after every later clean restart

C05: "Inside a batch, Get returns the batch's own latest staged put for the key, key-not-found for a
key the batch has deleted, and otherwise the value currently stored in the database wherever that
value lives on disk.  Commit leaves the database in the state obtained by applying the batch's
operations one by one in the order they were issued (so put-delete-put of one key ends with the key
present), and a committed batch rejects further use."

C04 (live part): "Once Commit has returned success the whole batch is visible in the live database
and after every later clean restart."

The theorems are about the executable model (`Model/Batch.lean`): `bnew / bput / bget / bdel /
bcommit / bdrop` (`bdrop` = the Go `Batch` object goes out of use; the model keeps the dead batch
in the handle until then).  A batch session is `runBatch s sync id ops` = `bnew; ops…; bcommit;
bdrop` for an ARBITRARY list `ops` of batch puts / deletes / gets, with ANY configuration — in
particular any `fileSize`, so the staging steps may trigger any number of intermediate flushes
(`flushStagedAndUpdateFile`: the staged records are written tagged with the batch id, the live
index is updated EARLY, the file is rotated) and an already staged key may be rewritten in place
or, after a flush, staged afresh.

Hypotheses: the engine invariant `Inv s db g` at `NewBatch` time; keys and values shorter than
2^31 bytes (`BOpOK`; empty keys are allowed in the list — they are rejected with `keyempty`);
the batch id is positive, below 2^63 (a snowflake id), and FRESH:
`pendingGet (replayLog (logOf g)).pending id = []` — it is not the id of an orphaned unfinished
batch in the log (`fresh_of_unused`: an id that does not occur in the log at all is fresh).
-/
namespace XixiKV.C05
open XixiKV XixiKV.Frame XixiKV.Record XixiKV.Index XixiKV.Engine XixiKV.Engine.BatchP

/-! ## batch sessions on the executable model -/

/-- the operations of a batch session -/
inductive BOp where
  | bput : ByteArray → ByteArray → BOp
  | bdel : ByteArray → BOp
  | bget : ByteArray → BOp

/-- one batch operation on the executable model -/
def bstep (s : St) : BOp → St × Res
  | .bput k v => Engine.bput s k v
  | .bdel k => Engine.bdel s k
  | .bget k => Engine.bget s k

/-- a list of batch operations on the executable model: final state and all results -/
def runOps (s : St) : List BOp → St × List Res
  | [] => (s, [])
  | op :: ops => ((runOps (bstep s op).1 ops).1, (bstep s op).2 :: (runOps (bstep s op).1 ops).2)

/-- the state in which `Commit` has just returned: `NewBatch; ops…; Commit` -/
def runCommit (s : St) (sync : Bool) (id : Nat) (ops : List BOp) : St × Res :=
  bcommit (runOps (bnew s sync id).1 ops).1

/-- a whole batch session `NewBatch; ops…; Commit; (the batch object is dropped)`: final state and
    the results of all calls (`NewBatch`, the operations, `Commit`, the drop) -/
def runBatch (s : St) (sync : Bool) (id : Nat) (ops : List BOp) : St × List Res :=
  ((bdrop (runCommit s sync id ops).1).1,
   (bnew s sync id).2 :: (runOps (bnew s sync id).1 ops).2
     ++ [(runCommit s sync id ops).2, (bdrop (runCommit s sync id ops).1).2])

/-! ## the layered reference -/

abbrev Spec := ByteArray → Option ByteArray

/-- the mutations a list of batch operations issues, in issue order: `(k, some v)` a put,
    `(k, none)` a delete (operations with an empty key are rejected and issue nothing) -/
def issuedOf : List BOp → List (ByteArray × Option ByteArray)
  | [] => []
  | .bput k v :: ops => if k.size = 0 then issuedOf ops else (k, some v) :: issuedOf ops
  | .bdel k :: ops => if k.size = 0 then issuedOf ops else (k, none) :: issuedOf ops
  | .bget _ :: ops => issuedOf ops

/-- the batch's own latest mutation of `k`: `some (some v)` a put of `v`, `some none` a delete,
    `none` the batch has not touched `k` -/
def own (k : ByteArray) : List (ByteArray × Option ByteArray) → Option (Option ByteArray)
  | [] => none
  | x :: xs =>
    match own k xs with
    | some o => some o
    | none => if x.1 = k then some x.2 else none

/-- **the layered view**: the batch's own latest put, nothing for a key the batch deleted, and
    otherwise what the database held when the batch was opened -/
def layered (base : Spec) (mine : List (ByteArray × Option ByteArray)) : Spec := fun k =>
  match own k mine with
  | some o => o
  | none => base k

/-- expected results of a list of batch operations, `mine` = the mutations issued before -/
def specOps (base : Spec) (mine : List (ByteArray × Option ByteArray)) : List BOp → List Res
  | [] => []
  | .bput k v :: ops =>
    if k.size = 0 then .err "keyempty" :: specOps base mine ops
    else .ok :: specOps base (mine ++ [(k, some v)]) ops
  | .bdel k :: ops =>
    if k.size = 0 then .err "keyempty" :: specOps base mine ops
    else .ok :: specOps base (mine ++ [(k, none)]) ops
  | .bget k :: ops =>
    (if k.size = 0 then .err "keyempty" else resOf (layered base mine k)) :: specOps base mine ops

/-- **the layered reference**: the mapping after the batch and the expected result of every
    operation of the batch -/
def specBatch (base : Spec) (ops : List BOp) : Spec × List Res :=
  (layered base (issuedOf ops), specOps base [] ops)

/-- the layered view is the mutations applied one by one, in issue order (last write wins) -/
theorem layered_eq_fold (mine : List (ByteArray × Option ByteArray)) : ∀ (base : Spec) (k : ByteArray),
    layered base mine k = mine.foldl applyIssued base k := by
  induction mine with
  | nil => intro base k; rfl
  | cons x xs ih =>
    intro base k
    rw [List.foldl_cons, ← ih]
    simp only [layered, own]
    cases own k xs with
    | some o => rfl
    | none =>
      simp only [applyIssued]
      by_cases e : x.1 = k
      · rw [if_pos e, if_pos e.symm]
      · rw [if_neg e, if_neg (fun h => e h.symm)]

/-- the final reference mapping = the batch's mutations applied one by one in issue order -/
theorem specBatch_fold (base : Spec) (ops : List BOp) :
    (specBatch base ops).1 = (issuedOf ops).foldl applyIssued base := by
  funext k
  exact layered_eq_fold _ _ _

/-- size side conditions on the inputs -/
def BOpOK : BOp → Prop
  | .bput k v => k.size < 2 ^ 31 ∧ v.size < 2 ^ 31
  | .bdel k => k.size < 2 ^ 31
  | .bget _ => True

/-! ## one step, many steps -/

/-- **C05 (one batch operation)**: in a state that satisfies the in-batch invariant, every batch
    operation returns what the layered reference prescribes and re-establishes the invariant with
    its mutation appended to the issued list -/
theorem C05_step {s : St} {db : DB} {g : GDir} {b : BatchSt} {base : Spec}
    {mine : List (ByteArray × Option ByteArray)} (h : BInv s db g b base mine) (op : BOp) (hop : BOpOK op) :
    (bstep s op).2 :: [] = specOps base mine [op] ∧
    ∃ db' g' b', BInv (bstep s op).1 db' g' b' base (mine ++ issuedOf [op]) := by
  have hopen : s.db = some db := by obtain ⟨_, _, hx⟩ := h; exact hx.open_
  have hbat : db.batch = some b := by obtain ⟨_, _, hx⟩ := h; exact hx.batch
  cases op with
  | bput k v =>
    simp only [bstep, specOps, issuedOf]
    by_cases h0 : k.size = 0
    · rw [if_pos h0, if_pos h0, bput_keyempty hopen hbat k v h0, List.append_nil]
      exact ⟨rfl, db, g, b, h⟩
    · rw [if_neg h0, if_neg h0]
      obtain ⟨h1, h2⟩ := bput_spec h k v (by omega) hop.1 hop.2
      exact ⟨by rw [h1], h2⟩
  | bdel k =>
    simp only [bstep, specOps, issuedOf]
    by_cases h0 : k.size = 0
    · rw [if_pos h0, if_pos h0, bdel_keyempty hopen hbat k h0, List.append_nil]
      exact ⟨rfl, db, g, b, h⟩
    · rw [if_neg h0, if_neg h0]
      obtain ⟨h1, h2⟩ := bdel_spec h k (by omega) hop
      exact ⟨by rw [h1], h2⟩
  | bget k =>
    simp only [bstep, specOps, issuedOf, List.append_nil]
    by_cases h0 : k.size = 0
    · rw [if_pos h0, bget_keyempty hopen hbat k h0]
      exact ⟨rfl, db, g, b, h⟩
    · rw [if_neg h0, bget_spec h k (by omega), layered_eq_fold]
      exact ⟨rfl, db, g, b, h⟩

theorem issuedOf_cons (op : BOp) (ops : List BOp) : issuedOf (op :: ops) = issuedOf [op] ++ issuedOf ops := by
  cases op with
  | bput k v => simp only [issuedOf]; split <;> simp
  | bdel k => simp only [issuedOf]; split <;> simp
  | bget k => simp only [issuedOf]; rfl

theorem issuedOf_append (a b : List BOp) : issuedOf (a ++ b) = issuedOf a ++ issuedOf b := by
  induction a with
  | nil => rfl
  | cons op a ih => rw [List.cons_append, issuedOf_cons, ih, issuedOf_cons op a, List.append_assoc]

theorem specOps_cons (base : Spec) (mine : List (ByteArray × Option ByteArray)) (op : BOp) (ops : List BOp) :
    specOps base mine (op :: ops) = specOps base mine [op] ++ specOps base (mine ++ issuedOf [op]) ops := by
  cases op with
  | bput k v => simp only [specOps, issuedOf]; split <;> simp
  | bdel k => simp only [specOps, issuedOf]; split <;> simp
  | bget k => simp only [specOps, issuedOf, List.append_nil]; rfl

/-- **C05 (any list of batch operations)**: all results are those of the layered reference, and the
    in-batch invariant holds afterwards (hence after every prefix: throughout the batch) -/
theorem C05_ops (ops : List BOp) : ∀ {s : St} {db : DB} {g : GDir} {b : BatchSt} {base : Spec}
    {mine : List (ByteArray × Option ByteArray)}, BInv s db g b base mine → (∀ op ∈ ops, BOpOK op) →
    (runOps s ops).2 = specOps base mine ops ∧
    ∃ db' g' b', BInv (runOps s ops).1 db' g' b' base (mine ++ issuedOf ops) := by
  induction ops with
  | nil =>
    intro s db g b base mine h _
    exact ⟨rfl, db, g, b, by simpa [issuedOf, runOps] using h⟩
  | cons op ops ih =>
    intro s db g b base mine h hok
    obtain ⟨h1, db1, g1, b1, h2⟩ := C05_step h op (hok op (by simp))
    obtain ⟨i1, db2, g2, b2, i2⟩ := ih h2 (fun o ho => hok o (by simp [ho]))
    refine ⟨?_, db2, g2, b2, ?_⟩
    · rw [specOps_cons, ← h1, ← i1]
      rfl
    · rw [issuedOf_cons, ← List.append_assoc]
      exact i2

/-! ## frame: a batch session touches the handle's own directory only -/

theorem bstep_frame {s : St} {db : DB} (hs : s.db = some db) (op : BOp) : Framed s (bstep s op).1 db := by
  cases op with
  | bput k v => exact bput_frame hs k v
  | bdel k => exact bdel_frame hs k
  | bget k => exact bget_frame hs k

theorem runOps_frame (ops : List BOp) : ∀ {s : St} {db : DB}, s.db = some db → Framed s (runOps s ops).1 db := by
  induction ops with
  | nil => intro s db hs; exact ⟨Fr.refl _ _, db, hs, rfl⟩
  | cons op ops ih =>
    intro s db hs
    have h1 := bstep_frame hs op
    obtain ⟨db1, hs1, _⟩ := h1.2
    exact h1.trans hs1 (ih hs1)

/-- a whole batch session keeps the handle's directory and leaves every other directory alone -/
theorem runBatch_frame {s : St} {db : DB} (hs : s.db = some db) (sync : Bool) (id : Nat) (ops : List BOp) :
    Framed s (runBatch s sync id ops).1 db := by
  have h1 := bnew_frame hs sync id
  obtain ⟨db1, hs1, _⟩ := h1.2
  have h2 := runOps_frame ops hs1
  obtain ⟨db2, hs2, _⟩ := h2.2
  have h3 := bcommit_frame hs2
  obtain ⟨db3, hs3, _⟩ := h3.2
  have h4 := bdrop_frame hs3
  exact h1.trans hs1 (h2.trans hs2 (h3.trans hs3 h4))

/-! ## C05: the whole batch -/

/-- the hypotheses of the batch theorems: an open database satisfying the engine invariant, a
    positive snowflake-sized fresh batch id, sized inputs -/
structure Pre (s : St) (db : DB) (g : GDir) (id : Nat) (ops : List BOp) : Prop where
  open_ : s.db = some db
  inv : Inv s db g
  idpos : 0 < id
  idlt : id < 2 ^ 63
  fresh : pendingGet (replayLog (logOf g)).pending id = []
  sized : ∀ op ∈ ops, BOpOK op

/-- the state right after `Commit` returned -/
theorem commit_sealed {s : St} {db : DB} {g : GDir} {id : Nat} {ops : List BOp} (sync : Bool)
    (h : Pre s db g id ops) :
    (runOps (bnew s sync id).1 ops).2 = (specBatch (absGet s db) ops).2 ∧
    (runCommit s sync id ops).2 = .ok ∧
    ∃ db' g', Sealed (runCommit s sync id ops).1 db' g' ∧
      (∀ k, absGet (runCommit s sync id ops).1 db' k = (specBatch (absGet s db) ops).1 k) := by
  obtain ⟨_, _, hb⟩ := bnew_spec h.inv h.open_ sync id h.idpos h.idlt h.fresh
  obtain ⟨h1, db1, g1, b1, h2⟩ := C05_ops ops hb h.sized
  obtain ⟨h3, db2, g2, h4, h5, _⟩ := bcommit_spec h2
  refine ⟨h1, h3, db2, g2, h4, ?_⟩
  intro k
  rw [specBatch_fold]
  exact h5 k

/-- **C05 (layered reads, commit in issue order)**: from any state that satisfies the engine
    invariant, with a fresh batch id and sized inputs, for an ARBITRARY list of batch operations:
    * `NewBatch` succeeds, every operation answers what the layered reference prescribes — every
      `Get` returns the batch's own latest put of the key, not-found if the batch deleted it, and
      otherwise the value the database held when the batch was opened (wherever it lives on disk,
      also after intermediate flushes and file rotations) — `Commit` answers `.ok`;
    * the final state satisfies the engine invariant again (so every theorem about plain
      operations, restarts and further batches applies to it), including the C17 counter relation;
    * the final mapping is the batch's puts and deletes applied one by one, in issue order, to the
      mapping at `NewBatch` time (`specBatch_fold`);
    * the handle keeps its directory (and no other directory is touched: `runBatch_frame`). -/
theorem C05_layered (s : St) (db : DB) (g : GDir) (sync : Bool) (id : Nat) (ops : List BOp)
    (h : Pre s db g id ops) :
    (runBatch s sync id ops).2 = .ok :: (specBatch (absGet s db) ops).2 ++ [.ok, .ok] ∧
    ∃ db' g', (runBatch s sync id ops).1.db = some db' ∧ Inv (runBatch s sync id ops).1 db' g' ∧
      (∀ k, absGet (runBatch s sync id ops).1 db' k = (specBatch (absGet s db) ops).1 k) ∧
      (∀ k, absGet (runBatch s sync id ops).1 db' k = (issuedOf ops).foldl applyIssued (absGet s db) k) ∧
      db'.total = db'.reclaim + liveBytes db'.index ∧
      db'.dir = db.dir := by
  obtain ⟨h1, h2, db2, g2, h3, h4⟩ := commit_sealed sync h
  obtain ⟨h5, h6, h7⟩ := bdrop_spec h3
  have hnew : (bnew s sync id).2 = .ok := (bnew_spec h.inv h.open_ sync id h.idpos h.idlt h.fresh).1
  have hdir : db2.dir = db.dir := by
    obtain ⟨_, dbf, hf1, hf2⟩ := runBatch_frame h.open_ sync id ops
    have : (runBatch s sync id ops).1.db = some { db2 with batch := none } := by simp only [runBatch, h5]
    rw [this] at hf1
    cases hf1
    exact hf2
  refine ⟨?_, { db2 with batch := none }, g2, ?_, h6, ?_, ?_, h6.counters, hdir⟩
  · simp only [runBatch, hnew, h1, h2, h5]
  · simp only [runBatch, h5]
  · intro k
    show absGet (runBatch s sync id ops).1 _ k = _
    simp only [runBatch]
    rw [h7 k, h4 k]
  · intro k
    show absGet (runBatch s sync id ops).1 _ k = _
    simp only [runBatch]
    rw [h7 k, h4 k, specBatch_fold]

/-- **C05 (put-delete-put ends present)**: whatever precedes, a batch that ends with put `k v₁`,
    delete `k`, put `k v₂` leaves `k ↦ v₂` -/
theorem C05_put_del_put (s : St) (db : DB) (g : GDir) (sync : Bool) (id : Nat) (ops : List BOp)
    (k v₁ v₂ : ByteArray) (hk0 : k.size ≠ 0)
    (h : Pre s db g id (ops ++ [.bput k v₁, .bdel k, .bput k v₂])) :
    ∃ db', (runBatch s sync id (ops ++ [.bput k v₁, .bdel k, .bput k v₂])).1.db = some db' ∧
      absGet (runBatch s sync id (ops ++ [.bput k v₁, .bdel k, .bput k v₂])).1 db' k = some v₂ := by
  obtain ⟨_, db', g', h1, _, _, h2, _⟩ := C05_layered s db g sync id _ h
  refine ⟨db', h1, ?_⟩
  rw [h2 k]
  have : issuedOf (ops ++ [.bput k v₁, .bdel k, .bput k v₂])
      = issuedOf ops ++ [(k, some v₁), (k, none), (k, some v₂)] := by
    rw [issuedOf_append]
    simp [issuedOf, hk0]
  rw [this, List.foldl_append]
  simp [applyIssued]

/-- **C05 (a committed batch rejects further use)**: in the state in which `Commit` has returned,
    every further `Put / Get / Delete / Commit` through the batch answers `.err "committed"` (an
    empty key is still rejected first, with `keyempty`) and leaves the state unchanged -/
theorem C05_committed_rejects (s : St) (db : DB) (g : GDir) (sync : Bool) (id : Nat) (ops : List BOp)
    (h : Pre s db g id ops) :
    (∀ k v : ByteArray, bput (runCommit s sync id ops).1 k v
      = ((runCommit s sync id ops).1, .err (if k.size = 0 then "keyempty" else "committed"))) ∧
    (∀ k : ByteArray, bget (runCommit s sync id ops).1 k
      = ((runCommit s sync id ops).1, .err (if k.size = 0 then "keyempty" else "committed"))) ∧
    (∀ k : ByteArray, bdel (runCommit s sync id ops).1 k
      = ((runCommit s sync id ops).1, .err (if k.size = 0 then "keyempty" else "committed"))) ∧
    bcommit (runCommit s sync id ops).1 = ((runCommit s sync id ops).1, .err "committed") := by
  obtain ⟨_, _, db2, g2, h3, _⟩ := commit_sealed sync h
  obtain ⟨r1, r2, r3, r4⟩ := h3.rejects
  obtain ⟨e1, e2, e3⟩ := h3.keyempty
  refine ⟨?_, ?_, ?_, r4⟩
  · intro k v
    by_cases h0 : k.size = 0
    · rw [if_pos h0]; exact e1 k v h0
    · rw [if_neg h0]; exact r1 k v h0
  · intro k
    by_cases h0 : k.size = 0
    · rw [if_pos h0]; exact e2 k h0
    · rw [if_neg h0]; exact r2 k h0
  · intro k
    by_cases h0 : k.size = 0
    · rw [if_pos h0]; exact e3 k h0
    · rw [if_neg h0]; exact r3 k h0

/-- … hence any further list of batch operations is rejected as a whole and changes nothing -/
theorem C05_committed_rejects_all (s : St) (db : DB) (g : GDir) (sync : Bool) (id : Nat) (ops more : List BOp)
    (h : Pre s db g id ops) :
    (runOps (runCommit s sync id ops).1 more).1 = (runCommit s sync id ops).1 ∧
    ∀ r ∈ (runOps (runCommit s sync id ops).1 more).2, r = .err "keyempty" ∨ r = .err "committed" := by
  obtain ⟨r1, r2, r3, _⟩ := C05_committed_rejects s db g sync id ops h
  generalize (runCommit s sync id ops).1 = sc at *
  induction more with
  | nil => exact ⟨rfl, by intro r hr; simp [runOps] at hr⟩
  | cons op more ih =>
    have hst : bstep sc op = (sc, (bstep sc op).2) ∧
        ((bstep sc op).2 = .err "keyempty" ∨ (bstep sc op).2 = .err "committed") := by
      cases op with
      | bput k v => exact ⟨by simp only [bstep, r1 k v], by simp only [bstep, r1 k v]; split <;> simp⟩
      | bdel k => exact ⟨by simp only [bstep, r3 k], by simp only [bstep, r3 k]; split <;> simp⟩
      | bget k => exact ⟨by simp only [bstep, r2 k], by simp only [bstep, r2 k]; split <;> simp⟩
    have h1 : (bstep sc op).1 = sc := by rw [hst.1]
    simp only [runOps, h1]
    refine ⟨ih.1, ?_⟩
    intro r hr
    rcases List.mem_cons.mp hr with e | hr
    · rw [e]; exact hst.2
    · exact ih.2 r hr

/-- **C05 (empty commit)**: a batch that issued no mutation (only reads) commits with `.ok` without
    touching anything — the state after the session is exactly the state before it -/
theorem C05_empty_commit (s : St) (db : DB) (g : GDir) (sync : Bool) (id : Nat) (ops : List BOp)
    (hs : s.db = some db) (hinv : Inv s db g) (hro : ∀ op ∈ ops, ∃ k, op = .bget k) :
    (runCommit s sync id ops).2 = .ok ∧ (runCommit s sync id ops).1.world = s.world ∧
    (runBatch s sync id ops).1 = s := by
  have hops : ∀ (ops : List BOp) (s : St), (∀ op ∈ ops, ∃ k, op = .bget k) → (runOps s ops).1 = s := by
    intro ops
    induction ops with
    | nil => intro s _; rfl
    | cons op ops ih =>
      intro s hro
      obtain ⟨k, rfl⟩ := hro op (by simp)
      simp only [runOps, bstep, bget_state]
      exact ih s (fun o ho => hro o (by simp [ho]))
  have hc : runCommit s sync id ops
      = ({ s with db := some { db with batch := some { newBatch sync id with committed := true } } }, .ok) := by
    unfold runCommit
    rw [hops ops _ hro, bnew_eq hs]
    exact bcommit_empty (db := { db with batch := some (newBatch sync id) }) (b := newBatch sync id)
      rfl rfl rfl rfl
  refine ⟨by rw [hc], by rw [hc], ?_⟩
  simp only [runBatch, hc]
  rw [bdrop_eq rfl]
  have hnb := hinv.nobatch
  obtain ⟨w, sdb⟩ := s
  simp only at hs
  subst hs
  obtain ⟨a1, a2, a3, a4, a5, a6, a7, a8⟩ := db
  simp only at hnb
  subst hnb
  rfl

/-! ## C04, live part -/

/-- **C04 (live part)**: once `Commit` has returned success the whole batch is visible in the live
    database (this is `C05_layered`) and after a clean `Close` / `Open` of the same directory under
    ANY configuration: the reopened database satisfies the engine invariant for the same ghost
    directory and denotes the mapping "`NewBatch`-time mapping with the batch's mutations applied
    one by one in issue order".  (No merge directory is pending at `NewBatch` time; the batch does
    not create one.) -/
theorem C04_live_durable (s : St) (db : DB) (g : GDir) (sync : Bool) (id : Nat) (ops : List BOp)
    (h : Pre s db g id ops) (hnomerge : s.world.get (mergeDirName db.dir) = none)
    (cfg' : Cfg) (hcfg : cfg'.Valid) :
    (close (runBatch s sync id ops).1).2 = .ok ∧
    ∃ s' db' g', openDB (close (runBatch s sync id ops).1).1 db.dir cfg' = (s', .ok) ∧ s'.db = some db' ∧
      Inv s' db' g' ∧
      (∀ k, absGet s' db' k = (issuedOf ops).foldl applyIssued (absGet s db) k) ∧
      s'.world.get (mergeDirName db.dir) = none := by
  obtain ⟨_, dbf, gf, hf1, hf2, _, hf3, _, hdir⟩ := C05_layered s db g sync id ops h
  -- the batch touches the handle's own directory only
  have hframe : (runBatch s sync id ops).1.world.get (mergeDirName db.dir) = s.world.get (mergeDirName db.dir) :=
    (runBatch_frame h.open_ sync id ops).1 _ (Restart.mergeDirName_ne _)
  have hnm : (runBatch s sync id ops).1.world.get (mergeDirName dbf.dir) = none := by
    rw [hdir, hframe]; exact hnomerge
  obtain ⟨hcl, s', db', hopen, hdb', _, _, _, _, habs, hinv', hnm', _⟩ :=
    C02.C02_restart (runBatch s sync id ops).1 dbf gf cfg' hf1 hf2 hnm hcfg
  rw [hdir] at hopen hnm'
  exact ⟨hcl, s', db', gf, hopen, hdb', hinv', fun k => by rw [habs k, hf3 k], hnm'⟩

/-- **C04 (live part), every later clean restart**: the same after any number of `Close` / `Open`
    cycles with arbitrary valid configurations -/
theorem C04_live_durable_iter (s : St) (db : DB) (g : GDir) (sync : Bool) (id : Nat) (ops : List BOp)
    (h : Pre s db g id ops) (hnomerge : s.world.get (mergeDirName db.dir) = none)
    (cfgs : List Cfg) (hcfgs : ∀ c ∈ cfgs, c.Valid) :
    ∃ db' g', (cfgs.foldl (fun s c => C02.restart s db.dir c) (runBatch s sync id ops).1).db = some db' ∧
      Inv (cfgs.foldl (fun s c => C02.restart s db.dir c) (runBatch s sync id ops).1) db' g' ∧
      (∀ k, absGet (cfgs.foldl (fun s c => C02.restart s db.dir c) (runBatch s sync id ops).1) db' k
        = (issuedOf ops).foldl applyIssued (absGet s db) k) := by
  obtain ⟨_, dbf, gf, hf1, hf2, _, hf3, _, hdir⟩ := C05_layered s db g sync id ops h
  have hnm : (runBatch s sync id ops).1.world.get (mergeDirName dbf.dir) = none := by
    rw [hdir, (runBatch_frame h.open_ sync id ops).1 _ (Restart.mergeDirName_ne _)]
    exact hnomerge
  obtain ⟨db', h1, _, _, _, h5, h6⟩ := C02.C02_restart_iter cfgs hcfgs (runBatch s sync id ops).1 dbf gf hf1 hf2 hnm
  rw [hdir] at h1 h5 h6
  exact ⟨db', gf, h1, h6, fun k => by rw [h5 k, hf3 k]⟩

/-- **C04 (live part), visible at once**: after the session a plain `Get` of any key answers from
    the mapping "`NewBatch`-time mapping with the batch's mutations applied in issue order" -/
theorem C04_live_visible (s : St) (db : DB) (g : GDir) (sync : Bool) (id : Nat) (ops : List BOp)
    (h : Pre s db g id ops) (k : ByteArray) (hk0 : 0 < k.size) :
    (Engine.get (runBatch s sync id ops).1 k).2
      = resOf ((issuedOf ops).foldl applyIssued (absGet s db) k) := by
  obtain ⟨_, dbf, gf, hf1, hf2, _, hf3, _, _⟩ := C05_layered s db g sync id ops h
  rw [(get_spec hf2 hf1 k hk0).2, hf3 k]
  rfl

/-! ## non-vacuity -/

/-- the hypotheses are satisfiable by a freshly opened database, for every configuration — also
    with a `fileSize` so small that EVERY staging step triggers an intermediate flush — and every
    positive id below 2^63 -/
theorem Pre_fresh (dir : String) (cfg : Cfg) (hc : cfg.Valid) (id : Nat) (h0 : 0 < id) (hlt : id < 2 ^ 63)
    (ops : List BOp) (hok : ∀ op ∈ ops, BOpOK op) :
    ∃ db, Pre (openDB St.init dir cfg).1 db [(0, [])] id ops ∧ absGet (openDB St.init dir cfg).1 db = fun _ => none := by
  rw [openDB_fresh dir cfg hc]
  refine ⟨_, ⟨rfl, Inv_fresh dir cfg, h0, hlt, ?_, hok⟩, ?_⟩
  · apply fresh_of_unused
    intro x hx
    simp [logOf] at hx
  · funext k
    simp only [absGet, Index.get]

/-- a concrete session on a fresh database, symbolic key and values, ANY configuration:
    read-your-writes inside the batch, put-delete-put ends present -/
example (dir : String) (cfg : Cfg) (hc : cfg.Valid) (k v w : ByteArray)
    (hk0 : k.size ≠ 0) (hk : k.size < 2 ^ 31) (hv : v.size < 2 ^ 31) (hw : w.size < 2 ^ 31) :
    (runBatch (openDB St.init dir cfg).1 true 7
        [.bget k, .bput k v, .bget k, .bdel k, .bget k, .bput k w, .bget k, .bget ByteArray.empty]).2
      = [.ok, .notFound, .ok, .val v, .ok, .notFound, .ok, .val w, .err "keyempty", .ok, .ok] ∧
    ∃ db', (runBatch (openDB St.init dir cfg).1 true 7
        [.bget k, .bput k v, .bget k, .bdel k, .bget k, .bput k w, .bget k, .bget ByteArray.empty]).1.db = some db' ∧
      absGet (runBatch (openDB St.init dir cfg).1 true 7
        [.bget k, .bput k v, .bget k, .bdel k, .bget k, .bput k w, .bget k, .bget ByteArray.empty]).1 db' k = some w := by
  have hok : ∀ op ∈ [BOp.bget k, .bput k v, .bget k, .bdel k, .bget k, .bput k w, .bget k, .bget ByteArray.empty],
      BOpOK op := by
    intro op hop
    simp only [List.mem_cons, List.not_mem_nil, or_false] at hop
    rcases hop with h | h | h | h | h | h | h | h <;> subst h <;> simp [BOpOK, hk, hv, hw]
  obtain ⟨db, hpre, hbase⟩ := Pre_fresh dir cfg hc 7 (by decide) (by decide) _ hok
  obtain ⟨h1, db', g', h2, _, _, h3, _⟩ := C05_layered _ db _ true 7 _ hpre
  refine ⟨?_, db', h2, ?_⟩
  · rw [h1, hbase]
    have he : ByteArray.empty.size = 0 := rfl
    simp [specBatch, specOps, layered, own, resOf, hk0, he]
  · rw [h3 k, hbase]
    simp [issuedOf, hk0, applyIssued]

/-- a session that reads and deletes a value stored BEFORE the batch (it lives in the log written by
    a plain `Put`), any configuration — with a tiny `fileSize` the value sits in a rotated file and
    the batch flushes in between -/
example (dir : String) (cfg : Cfg) (hc : cfg.Valid) (a x k v : ByteArray) (hne : k ≠ a)
    (ha0 : a.size ≠ 0) (ha : a.size < 2 ^ 31) (hx : x.size < 2 ^ 31)
    (hk0 : k.size ≠ 0) (hk : k.size < 2 ^ 31) (hv : v.size < 2 ^ 31) :
    (runBatch (Engine.put (openDB St.init dir cfg).1 a x).1 false 9
        [.bget a, .bput k v, .bget a, .bdel a, .bget a, .bget k]).2
      = [.ok, .val x, .ok, .val x, .ok, .notFound, .val v, .ok, .ok] := by
  have hok : ∀ op ∈ [BOp.bget a, .bput k v, .bget a, .bdel a, .bget a, .bget k], BOpOK op := by
    intro op hop
    simp only [List.mem_cons, List.not_mem_nil, or_false] at hop
    rcases hop with h | h | h | h | h | h <;> subst h <;> simp [BOpOK, hk, hv, ha]
  obtain ⟨db0, hpre0, hbase0⟩ := Pre_fresh dir cfg hc 9 (by decide) (by decide) [] (by simp)
  obtain ⟨db1, g1, hs1, hi1, _, habs1, _, pos, hlog1⟩ :=
    put_spec hpre0.inv hpre0.open_ a x (by omega) ha hx
  have hpre : Pre (Engine.put (openDB St.init dir cfg).1 a x).1 db1 g1 9
      [.bget a, .bput k v, .bget a, .bdel a, .bget a, .bget k] := by
    refine ⟨hs1, hi1, by decide, by decide, ?_, hok⟩
    apply fresh_of_unused
    intro y hy
    rw [hlog1] at hy
    simp [logOf] at hy
    rw [hy]
    show (0 : Nat) ≠ 9
    decide
  obtain ⟨h1, _⟩ := C05_layered _ db1 g1 false 9 _ hpre
  rw [h1]
  have hb : absGet (Engine.put (openDB St.init dir cfg).1 a x).1 db1 = fun k' => if k' = a then some x else none := by
    funext k'
    rw [habs1 k', hbase0]
  rw [hb]
  have hne' : a ≠ k := fun e => hne e.symm
  simp [specBatch, specOps, layered, own, resOf, hk0, ha0, hne, hne']

/-! ## evaluated sanity checks (compiled evaluation by `#guard`; not used by any proof)

A base value written by a plain `Put`, then a batch with `fileSize = 200`: the third distinct key
overflows the estimate, so `flushStagedAndUpdateFile` runs in the middle of the batch (the active
file id grows by more than the one rotation a commit could cause), an already flushed key is
rewritten (a NEW staged record), a staged key is rewritten in place, put-delete-put ends present,
the base value is read through the index from a rotated file.  The model's answers coincide with
the layered reference, the final mapping is the fold of the issued operations, the counters satisfy
the C17 relation, a restart under another configuration shows the same mapping, and in the state
after `Commit` the batch rejects everything. -/

private def showRes : Res → String
  | .ok => "ok"
  | .val v => s!"val:{v.data.toList}"
  | .notFound => "nf"
  | .err e => "err:" ++ e

private def demoCfg : Cfg := { fileSize := 200, sync := 0, bps := 0, idx := 0, io := 0, shards := 1 }
private def K (s : String) : ByteArray := s.toUTF8
private def demoBase : St := (Engine.put (openDB St.init "d" demoCfg).1 (K "base") (K "B")).1
private def demoOps : List BOp :=
  [.bget (K "base"), .bput (K "a") (K "1"), .bdel (K "a"), .bput (K "a") (K "2"), .bget (K "a"),
   .bput (K "b") (K "3"), .bput (K "c") (K "4"), .bget (K "a"), .bget (K "base"),
   .bput (K "a") (K "5"), .bdel (K "base"), .bget (K "base"), .bdel (K "nowhere"), .bput (K "d") (K "6"),
   .bget (K "a"), .bget (K "b"), .bget ByteArray.empty]

private def absOf (s : St) (k : ByteArray) : Option ByteArray :=
  match s.db with
  | some db => absGet s db k
  | none => none

#guard (runBatch demoBase true 77 demoOps).2.map showRes
  = ["ok", "val:[66]", "ok", "ok", "ok", "val:[50]", "ok", "ok", "val:[50]", "val:[66]", "ok", "ok", "nf", "ok",
     "ok", "val:[53]", "val:[51]", "err:keyempty", "ok", "ok"]
#guard (runBatch demoBase true 77 demoOps).2.map showRes
  = ("ok" :: (specBatch (absOf demoBase) demoOps).2.map showRes ++ ["ok", "ok"])
-- an intermediate flush happened: the active file id moved before `Commit`
#guard ((runOps (bnew demoBase true 77).1 demoOps).1.db.map (·.activeId)) != (demoBase.db.map (·.activeId))
#guard ["base", "a", "b", "c", "d", "nowhere"].all fun k =>
  absOf (runBatch demoBase true 77 demoOps).1 (K k) == (specBatch (absOf demoBase) demoOps).1 (K k)
#guard (["base", "a", "b", "c", "d", "nowhere"].map fun k => absOf (runBatch demoBase true 77 demoOps).1 (K k))
  == [none, some (K "5"), some (K "3"), some (K "4"), some (K "6"), none]
#guard (match (runBatch demoBase true 77 demoOps).1.db with
  | some db => db.total == db.reclaim + liveBytes db.index && db.batch.isNone
  | none => false)
-- after a clean restart under another configuration
#guard (["base", "a", "b", "c", "d", "nowhere"].map fun k =>
    absOf (C02.restart (runBatch demoBase true 77 demoOps).1 "d"
      { fileSize := 50, sync := 1, bps := 0, idx := 2, io := 1, shards := 16 }) (K k))
  == [none, some (K "5"), some (K "3"), some (K "4"), some (K "6"), none]
-- a committed batch rejects further use and changes nothing
#guard [(bput (runCommit demoBase true 77 demoOps).1 (K "z") (K "9")).2, (bget (runCommit demoBase true 77 demoOps).1 (K "a")).2,
        (bdel (runCommit demoBase true 77 demoOps).1 (K "a")).2, (bcommit (runCommit demoBase true 77 demoOps).1).2].map showRes
  = ["err:committed", "err:committed", "err:committed", "err:committed"]

/-! ## axioms -/


end XixiKV.C05
