import XixiKV.Proofs.EnginePolicy
import XixiKV.Properties.C01
import XixiKV.Properties.C02
import XixiKV.Properties.C05
import XixiKV.Proofs.TransEqNpot
import XixiKV.Properties.C10
/-!
# C14 — results do not depend on index type, shard count, I/O back-end; file-size limit and sync
# strategy change only file layout and flush timing

"The same sequence of operations produces the same results - every return value and error, every
iteration order, the same recovered mapping - whichever index implementation, shard count or I/O
back-end is configured; changing the file-size limit or sync strategy changes only file layout and
flush timing, never results."

Three groups of theorems, all about the executable model (`Model/Engine.lean`, `Model/Batch.lean`):

1. `C14_index_io_irrelevant` (+ `_run`, `_queries`).  `CfgEq c₁ c₂` = the configurations agree on
   `fileSize`, `sync`, `bps` (they may differ in `idx`, `shards`, `io`).  `Sim s₁ s₂` = the same
   world (every directory, every file byte, every sync mark, lock bits) and handles that are equal
   except for those three configuration fields.  EVERY operation of the model — `openDB` (with
   `CfgEq` configurations), `put`, `get`, `delete`, `syncDB`, `close`, `bnew`, `bput`, `bget`,
   `bdel`, `bcommit`, `bdrop`, `merge` (any visiting order), `backup` — maps `Sim`-related states
   to `Sim`-related states and returns EQUAL results; the read-only queries `listKeys`, `fold`,
   `stat`, `iterNew` (hence every `rewind / next / seek`, which are functions of the iterator
   value alone) and `absGet` coincide on `Sim`-related states.  So in the model the results, the
   file bytes, the flush marks and the counters do not depend on index type, shard count or I/O
   type at all.  The model never reads those fields; the theorem makes that checkable — a future
   model change that consults one of them breaks `*_retag` in `Proofs/EnginePolicy.lean`.
   What ties this abstraction to the Go code: for the index / iterator part the executable
   correspondence is C10 (`C10_index_type_irrelevant`: the sharded iterator over ANY container
   type and an ARBITRARY `shardOf` function yields the sorted snapshot the model's single sorted
   list stands for; differential check against all three Go containers); for the I/O back-end it
   is C11 (byte-exact data-file correspondence on both back-ends).

2. `C14_limits_only_layout` (+ `_restarts`, `_batch`).  For plain operation lists (the
   `Op / run / specRun` of `Properties/C01.lean`) and ANY two valid configurations — different
   `fileSize`, `sync`, `bps` as well — and any two directories: the result lists are equal and the
   final mappings are equal; the same across any number of clean restarts under further arbitrary
   configurations in between (`C14_limits_only_layout_restarts`: the results are a function of
   the operation segments alone).  For a batch session on a fresh database:
   `C14_limits_only_layout_batch` (results, final mapping, mapping after a restart).
   Size side conditions: keys and values shorter than 2^31 bytes (`OpOK`, `BOpOK`).

3. `C14_npot`, `C14_shard_in_range`: `nextPowerOfTwo` (Go `index/sharded_index.go`) returns a
   power of two `2^k`, `k ≤ 10`, at least `min n 1024`, below `2 n` (or 1), capped at 1024; and
   `hash & (cap-1) < cap` for a power-of-two `cap`, so the shard index is always in range.
-/
namespace XixiKV.C14
open XixiKV XixiKV.Frame XixiKV.Record XixiKV.Index XixiKV.Engine XixiKV.Engine.BatchP XixiKV.Engine.PolicyP

/-! ## 1. index type, shard count, I/O type are irrelevant -/

/-- every state-changing operation of the model, as a command -/
inductive Cmd where
  | open : String → Cfg → Cmd
  | put : ByteArray → ByteArray → Cmd
  | get : ByteArray → Cmd
  | del : ByteArray → Cmd
  | sync : Cmd
  | close : Cmd
  | bnew : Bool → Nat → Cmd
  | bput : ByteArray → ByteArray → Cmd
  | bget : ByteArray → Cmd
  | bdel : ByteArray → Cmd
  | bcommit : Cmd
  | bdrop : Cmd
  | merge : List Nat → Cmd
  | backup : String → Cmd

/-- one command on the executable model -/
def exec (s : St) : Cmd → St × Res
  | .open dir cfg => openDB s dir cfg
  | .put k v => Engine.put s k v
  | .get k => Engine.get s k
  | .del k => Engine.delete s k
  | .sync => syncDB s
  | .close => Engine.close s
  | .bnew sync id => Engine.bnew s sync id
  | .bput k v => Engine.bput s k v
  | .bget k => Engine.bget s k
  | .bdel k => Engine.bdel s k
  | .bcommit => Engine.bcommit s
  | .bdrop => Engine.bdrop s
  | .merge order => Engine.merge s order
  | .backup dest => Engine.backup s dest

/-- a list of commands: final state and all results -/
def execAll (s : St) : List Cmd → St × List Res
  | [] => (s, [])
  | c :: cs => ((execAll (exec s c).1 cs).1, (exec s c).2 :: (execAll (exec s c).1 cs).2)

/-- the same command, except that an `Open` may name configurations that differ in
    `idx / shards / io` -/
def CmdEq : Cmd → Cmd → Prop
  | .open d₁ c₁, .open d₂ c₂ => d₁ = d₂ ∧ CfgEq c₁ c₂
  | .open _ _, _ => False
  | _, .open _ _ => False
  | a, b => a = b

theorem CmdEq.refl (c : Cmd) : CmdEq c c := by
  cases c <;> simp [CmdEq, CfgEq]

/-- overwrite `idx / io / shards` in the configuration an `Open` command carries -/
def retagCmd (t : Tag) : Cmd → Cmd
  | .open d cfg => .open d (retagCfg t cfg)
  | c => c

/-- every command commutes with overwriting `idx / io / shards` -/
theorem exec_retag (t : Tag) (s : St) (c : Cmd) :
    exec (retag t s) (retagCmd t c) = (retag t (exec s c).1, (exec s c).2) := by
  cases c with
  | «open» d cfg => exact openDB_retag t s d cfg
  | put k v => exact put_retag t s k v
  | get k => exact get_retag t s k
  | del k => exact delete_retag t s k
  | sync => exact syncDB_retag t s
  | close => exact close_retag t s
  | bnew sy id => exact bnew_retag t s sy id
  | bput k v => exact bput_retag t s k v
  | bget k => exact bget_retag t s k
  | bdel k => exact bdel_retag t s k
  | bcommit => exact bcommit_retag t s
  | bdrop => exact bdrop_retag t s
  | merge o => exact merge_retag t s o
  | backup d => exact backup_retag t s d

theorem retagCmd_eq (t : Tag) {c₁ c₂ : Cmd} (hc : CmdEq c₁ c₂) : retagCmd t c₁ = retagCmd t c₂ := by
  cases c₁ <;> cases c₂ <;> first
    | (obtain ⟨hd, hcfg⟩ := hc; simp only [retagCmd, hd, (retagCfg_eq_iff t _ _).mpr hcfg])
    | (cases hc; rfl)
    | (cases hc)

/-- **C14 (index type / shard count / I/O type), one operation.**  `Sim`-related states and
    `CmdEq`-related commands (in particular: the same command; or `Open` with configurations that
    differ only in `idx`, `shards`, `io`) give `Sim`-related states — the same world byte for byte,
    the same index, counters, batch, `fileSize / sync / bps` — and EQUAL results. -/
theorem C14_index_io_irrelevant {s₁ s₂ : St} (h : Sim s₁ s₂) {c₁ c₂ : Cmd} (hc : CmdEq c₁ c₂) :
    Sim (exec s₁ c₁).1 (exec s₂ c₂).1 ∧ (exec s₁ c₁).2 = (exec s₂ c₂).2 := by
  have e := (sim_iff_retag (0, 0, 0) _ _).mp h
  have e1 := exec_retag (0, 0, 0) s₁ c₁
  have e2 := exec_retag (0, 0, 0) s₂ c₂
  rw [e, retagCmd_eq (0, 0, 0) hc, e2] at e1
  injection e1 with e3 e4
  exact ⟨(sim_iff_retag (0, 0, 0) _ _).mpr e3.symm, e4.symm⟩

/-- command lists related element-wise by `CmdEq` -/
def CmdsEq : List Cmd → List Cmd → Prop
  | [], [] => True
  | a :: as, b :: bs => CmdEq a b ∧ CmdsEq as bs
  | _, _ => False

theorem CmdsEq.refl : ∀ cs : List Cmd, CmdsEq cs cs
  | [] => trivial
  | c :: cs => ⟨CmdEq.refl c, CmdsEq.refl cs⟩

/-- **C14 (index type / shard count / I/O type), any operation sequence** — e.g. from the empty
    world `St.init` (which is `Sim` to itself) with an `Open` under two configurations that differ
    in `idx / shards / io`, followed by the same arbitrary commands: all results are equal and the
    final states are `Sim`-related. -/
theorem C14_index_io_irrelevant_run : ∀ {cs₁ cs₂ : List Cmd}, CmdsEq cs₁ cs₂ →
    ∀ {s₁ s₂ : St}, Sim s₁ s₂ →
      Sim (execAll s₁ cs₁).1 (execAll s₂ cs₂).1 ∧ (execAll s₁ cs₁).2 = (execAll s₂ cs₂).2 := by
  intro cs₁
  induction cs₁ with
  | nil =>
    intro cs₂ hcs s₁ s₂ h
    cases cs₂ with
    | nil => exact ⟨h, rfl⟩
    | cons _ _ => exact absurd hcs (by simp [CmdsEq])
  | cons c₁ cs₁ ih =>
    intro cs₂ hcs s₁ s₂ h
    cases cs₂ with
    | nil => exact absurd hcs (by simp [CmdsEq])
    | cons c₂ cs₂ =>
      obtain ⟨hc, hcs'⟩ := hcs
      obtain ⟨h1, h2⟩ := C14_index_io_irrelevant h hc
      obtain ⟨i1, i2⟩ := ih hcs' h1
      simp only [execAll]
      exact ⟨i1, by rw [h2, i2]⟩

/-- … in particular from the empty world: `Open` under two configurations that differ only in
    `idx / shards / io`, then ANY command sequence (further opens, batches, merges, backups, …):
    all results are equal, the final worlds are equal byte for byte -/
theorem C14_index_io_irrelevant_fresh (dir : String) (c₁ c₂ : Cfg) (hc : CfgEq c₁ c₂) (cs : List Cmd) :
    (execAll St.init (.open dir c₁ :: cs)).2 = (execAll St.init (.open dir c₂ :: cs)).2 ∧
    (execAll St.init (.open dir c₁ :: cs)).1.world = (execAll St.init (.open dir c₂ :: cs)).1.world ∧
    Sim (execAll St.init (.open dir c₁ :: cs)).1 (execAll St.init (.open dir c₂ :: cs)).1 := by
  obtain ⟨h1, h2⟩ := C14_index_io_irrelevant_run (cs₁ := .open dir c₁ :: cs) (cs₂ := .open dir c₂ :: cs)
    ⟨⟨rfl, hc⟩, CmdsEq.refl cs⟩ (Sim.refl St.init)
  exact ⟨h2, h1.1, h1⟩

/-- **C14 (index type / shard count / I/O type), read-only queries**: on `Sim`-related open states
    `ListKeys`, `Fold` (keys AND values, in iteration order), `Stat`, every new iterator (any
    prefix, either direction — `rewind / next / seek` are functions of the iterator value, so every
    iteration order coincides) and the denoted mapping are equal. -/
theorem C14_index_io_irrelevant_queries {s₁ s₂ : St} (h : Sim s₁ s₂) {db₁ db₂ : DB}
    (h₁ : s₁.db = some db₁) (h₂ : s₂.db = some db₂) :
    listKeys db₁ = listKeys db₂ ∧ fold s₁ db₁ = fold s₂ db₂ ∧ stat s₁ db₁ = stat s₂ db₂ ∧
    (∀ pre rev, iterNew db₁ pre rev = iterNew db₂ pre rev) ∧
    (∀ pre rev k, ((iterNew db₁ pre rev).seek k).next.rewind = ((iterNew db₂ pre rev).seek k).next.rewind) ∧
    (∀ k, absGet s₁ db₁ k = absGet s₂ db₂ k) := by
  obtain ⟨e1, e2⟩ := h.handles h₁ h₂ (0, 0, 0)
  refine ⟨?_, ?_, ?_, ?_, ?_, ?_⟩
  · rw [← listKeys_retag (0, 0, 0) db₁, e2, listKeys_retag]
  · rw [← fold_retag (0, 0, 0) s₁ db₁, e1, e2, fold_retag]
  · rw [← stat_retag (0, 0, 0) s₁ db₁, e1, e2, stat_retag]
  · intro pre rev
    rw [← iterNew_retag (0, 0, 0) db₁, e2, iterNew_retag]
  · intro pre rev k
    rw [← iterNew_retag (0, 0, 0) db₁, e2, iterNew_retag]
  · intro k
    rw [← absGet_retag (0, 0, 0) s₁ db₁, e1, e2, absGet_retag]

/-- **C14 (shard count / index type), cursor scripts**: the sharded heap-merging iterator itself —
    the one place of the Go code whose behaviour could depend on how the keys are spread over the
    shards — shows the same `Valid / Key / Value` on the fresh iterator and after every call of ANY
    call sequence (backward `Seek`s, `Seek` on an exhausted iterator, several `Seek`s in a row
    included), whichever shard function, shard count and index type the two runs use; at DB level
    (prefix filter) and at index level.  No side condition on the calls: `Seek` never moves an
    iterator backwards (`C10.C10_cursor`). -/
theorem C14_cursor_shards_irrelevant {V : Type} (shardOf₁ shardOf₂ : Key → Nat) (n₁ n₂ : Nat)
    (typ₁ typ₂ : ShardIter.IndexType) (rev : Bool) (pre : Key) (idx : List (Key × V))
    (hsorted : idx.Pairwise (fun a b => keyLt a.1 b.1 = true))
    (h₁ : ∀ x ∈ idx, shardOf₁ x.1 < n₁) (h₂ : ∀ x ∈ idx, shardOf₂ x.1 < n₂)
    (calls : List ShardIter.Call) :
    (ShardIter.DBIter.new typ₁ rev pre (ShardIter.shardsOf shardOf₁ n₁ idx)).trace calls
      = (ShardIter.DBIter.new typ₂ rev pre (ShardIter.shardsOf shardOf₂ n₂ idx)).trace calls ∧
    (ShardIter.IndexIterator.create typ₁ rev (ShardIter.shardsOf shardOf₁ n₁ idx)).trace calls
      = (ShardIter.IndexIterator.create typ₂ rev (ShardIter.shardsOf shardOf₂ n₂ idx)).trace calls := by
  constructor
  · rw [C10.C10_cursor shardOf₁ n₁ typ₁ rev pre idx hsorted h₁ calls,
      C10.C10_cursor shardOf₂ n₂ typ₂ rev pre idx hsorted h₂ calls]
  · rw [C10.C10_cursor_index shardOf₁ n₁ typ₁ rev idx hsorted h₁ calls,
      C10.C10_cursor_index shardOf₂ n₂ typ₂ rev idx hsorted h₂ calls]

/-- the instance that used to differ (`C10.backward_seek_agrees`): keys `a … f`, the real
    `xxhash & 3` placement on 4 shards with B-tree cursors against one shard with map cursors,
    `Next; Next; Seek a; Next; Seek z; Seek b` -/
example := C14_cursor_shards_irrelevant C10.bwShard (fun _ => 0) 4 1 .btree .hashmap false ByteArray.empty
  C10.bwIdx (by decide) (by decide) (by decide)
  [.next, .next, .seek (C10.k [97]), .next, .seek (C10.k [122]), .seek (C10.k [98])]
example :
    ((ShardIter.IndexIterator.create .btree false (ShardIter.shardsOf C10.bwShard 4 C10.bwIdx)).trace
      [.next, .next, .seek (C10.k [97]), .next, .seek (C10.k [122]), .seek (C10.k [98])]).map (·.key)
    = [some (C10.k [97]), some (C10.k [98]), some (C10.k [99]), some (C10.k [99]), some (C10.k [100]),
       none, none] := by decide

/-! ## 2. file-size limit and sync strategy change only layout and flush timing -/

open XixiKV.C01 in
/-- **C14 (limits and sync strategy), plain operations.**  Two fresh databases — ANY two valid
    configurations (different `fileSize`, `sync`, `bps`, `idx`, `io`, `shards`), any two
    directories — answer every list of puts / deletes / gets / syncs identically and end up
    denoting the same mapping. -/
theorem C14_limits_only_layout (dir₁ dir₂ : String) (c₁ c₂ : Cfg) (h₁ : c₁.Valid) (h₂ : c₂.Valid)
    (ops : List Op) (hok : ∀ op ∈ ops, OpOK op) :
    (run (openDB St.init dir₁ c₁).1 ops).2 = (run (openDB St.init dir₂ c₂).1 ops).2 ∧
    absOf (run (openDB St.init dir₁ c₁).1 ops).1 = absOf (run (openDB St.init dir₂ c₂).1 ops).1 := by
  obtain ⟨a1, a2, _⟩ := C01_refines_fresh dir₁ c₁ h₁ ops hok
  obtain ⟨b1, b2, _⟩ := C01_refines_fresh dir₂ c₂ h₂ ops hok
  exact ⟨a1.trans b1.symm, a2.trans b2.symm⟩


/-! ### … also across clean restarts under further configurations -/

section restarts
open XixiKV.C01

/-- a session with restarts: for each segment `(cfg, ops)` the directory is (closed and) opened under
    `cfg`, then `ops` run.  On the empty world `St.init` the first `restart` is just `Open`. -/
def runSegs (dir : String) (s : St) : List (Cfg × List Op) → St × List (List Res)
  | [] => (s, [])
  | (c, ops) :: rest =>
    ((runSegs dir (run (C02.restart s dir c) ops).1 rest).1,
     (run (C02.restart s dir c) ops).2 :: (runSegs dir (run (C02.restart s dir c) ops).1 rest).2)

/-- the specification of a session with restarts: restarts are invisible -/
def specSegs (m : Spec) : List (List Op) → Spec × List (List Res)
  | [] => (m, [])
  | ops :: rest => ((specSegs (specRun m ops).1 rest).1, (specRun m ops).2 :: (specSegs (specRun m ops).1 rest).2)

theorem restart_init (dir : String) (c : Cfg) : C02.restart St.init dir c = (openDB St.init dir c).1 := rfl

/-- the state between segments: nothing opened yet, or an open database on `dir` satisfying the
    engine invariant, without a pending merge directory, denoting `m` -/
def Good (dir : String) (s : St) (m : Spec) : Prop :=
  (s = St.init ∧ m = specEmpty) ∨
  (∃ db g, s.db = some db ∧ Inv s db g ∧ db.dir = dir ∧ s.world.get (mergeDirName dir) = none ∧ absOf s = m)

theorem Good_open {dir : String} {s : St} {m : Spec} (h : Good dir s m) (c : Cfg) (hc : c.Valid) :
    ∃ db g, (C02.restart s dir c).db = some db ∧ Inv (C02.restart s dir c) db g ∧ db.dir = dir ∧
      (C02.restart s dir c).world.get (mergeDirName dir) = none ∧ absOf (C02.restart s dir c) = m := by
  rcases h with ⟨rfl, rfl⟩ | ⟨db, g, hs, hi, hd, hnm, ha⟩
  · rw [restart_init, openDB_fresh dir c hc]
    refine ⟨_, _, rfl, Inv_fresh dir c, rfl, ?_, ?_⟩
    · simp only [World.get]
      rw [if_neg (mergeDirName_ne dir)]
    · funext k
      simp only [absOf, absGet, Index.get, specEmpty]
  · subst hd
    obtain ⟨_, s', db', hopen, hs', hdir, _, _, _, habs, hi', hnm', _⟩ := C02.C02_restart s db g c hs hi hnm hc
    have hr : C02.restart s db.dir c = s' := by unfold C02.restart; rw [hopen]
    rw [hr]
    refine ⟨db', g, hs', hi', hdir, hnm', ?_⟩
    rw [← ha, absOf_eq hs', absOf_eq hs]
    funext k
    exact habs k

theorem Good_run {dir : String} {s : St} {db : DB} {g : GDir} {m : Spec} (hs : s.db = some db) (hi : Inv s db g)
    (hd : db.dir = dir) (hnm : s.world.get (mergeDirName dir) = none) (ha : absOf s = m)
    (ops : List Op) (hok : ∀ op ∈ ops, OpOK op) :
    (run s ops).2 = (specRun m ops).2 ∧ Good dir (run s ops).1 (specRun m ops).1 := by
  obtain ⟨⟨db', g', hs', hi'⟩, h2, h3⟩ := C01_refines_plain ops ⟨db, g, hs, hi⟩ hok
  rw [ha] at h2 h3
  refine ⟨h2, Or.inr ⟨db', g', hs', hi', ?_, ?_, h3⟩⟩
  · obtain ⟨_, db'', e1, e2⟩ := run_frame ops hs
    rw [hs'] at e1
    cases e1
    rw [e2, hd]
  · rw [(run_frame ops hs).1 _ (by rw [hd]; exact (mergeDirName_ne dir).symm)]
    exact hnm

theorem runSegs_spec (dir : String) : ∀ (segs : List (Cfg × List Op)) {s : St} {m : Spec}, Good dir s m →
    (∀ x ∈ segs, x.1.Valid ∧ ∀ op ∈ x.2, OpOK op) →
    (runSegs dir s segs).2 = (specSegs m (segs.map (·.2))).2 ∧
    (segs ≠ [] → ∃ db g, (runSegs dir s segs).1.db = some db ∧ Inv (runSegs dir s segs).1 db g) ∧
    (segs ≠ [] → absOf (runSegs dir s segs).1 = (specSegs m (segs.map (·.2))).1) := by
  intro segs
  induction segs with
  | nil => intro s m _ _; exact ⟨rfl, fun h => absurd rfl h, fun h => absurd rfl h⟩
  | cons x rest ih =>
    intro s m hg hok
    obtain ⟨c, ops⟩ := x
    obtain ⟨hc, hops⟩ := hok (c, ops) (by simp)
    obtain ⟨db, g, hs, hi, hd, hnm, ha⟩ := Good_open hg c hc
    obtain ⟨hres, hg'⟩ := Good_run hs hi hd hnm ha ops hops
    obtain ⟨i1, i2, i3⟩ := ih hg' (fun y hy => hok y (by simp [hy]))
    simp only [runSegs, specSegs, List.map_cons]
    refine ⟨by rw [hres, i1], fun _ => ?_, fun _ => ?_⟩
    · cases rest with
      | nil =>
        rcases hg' with ⟨e, _⟩ | ⟨db', g', hs', hi', _⟩
        · exfalso
          have h1 := congrArg St.db e
          obtain ⟨⟨db', _, hs', _⟩, _, _⟩ := C01_refines_plain ops ⟨db, g, hs, hi⟩ hops
          rw [hs'] at h1
          exact absurd h1 (by simp [St.init])
        · exact ⟨db', g', hs', hi'⟩
      | cons y ys => exact i2 (by simp)
    · cases rest with
      | nil =>
        rcases hg' with ⟨e, _⟩ | ⟨_, _, _, _, _, _, ha'⟩
        · exfalso
          have h1 := congrArg St.db e
          obtain ⟨⟨db', _, hs', _⟩, _, _⟩ := C01_refines_plain ops ⟨db, g, hs, hi⟩ hops
          rw [hs'] at h1
          exact absurd h1 (by simp [St.init])
        · exact ha'
      | cons y ys => exact i3 (by simp)

/-- **C14 (limits and sync strategy), any number of restarts.**  Two sessions that run the same
    operation segments, each segment after a clean (re)open under an ARBITRARY valid configuration
    (the two sessions may use entirely different configurations, segment by segment, and different
    directories): all results are equal — they are a function of the operations alone
    (`specSegs`) — and the finally recovered mappings are equal. -/
theorem C14_limits_only_layout_restarts (dir₁ dir₂ : String) (segs₁ segs₂ : List (Cfg × List Op))
    (hsame : segs₁.map (·.2) = segs₂.map (·.2))
    (h₁ : ∀ x ∈ segs₁, x.1.Valid ∧ ∀ op ∈ x.2, OpOK op)
    (h₂ : ∀ x ∈ segs₂, x.1.Valid ∧ ∀ op ∈ x.2, OpOK op) :
    (runSegs dir₁ St.init segs₁).2 = (runSegs dir₂ St.init segs₂).2 ∧
    (runSegs dir₁ St.init segs₁).2 = (specSegs specEmpty (segs₁.map (·.2))).2 ∧
    (segs₁ ≠ [] → absOf (runSegs dir₁ St.init segs₁).1 = absOf (runSegs dir₂ St.init segs₂).1) := by
  obtain ⟨a1, _, a3⟩ := runSegs_spec dir₁ segs₁ (Or.inl ⟨rfl, rfl⟩) h₁
  obtain ⟨b1, _, b3⟩ := runSegs_spec dir₂ segs₂ (Or.inl ⟨rfl, rfl⟩) h₂
  refine ⟨by rw [a1, b1, hsame], a1, fun hne => ?_⟩
  have hne2 : segs₂ ≠ [] := by
    intro e
    rw [e] at hsame
    exact hne (List.map_eq_nil_iff.mp hsame)
  rw [a3 hne, b3 hne2, hsame]

end restarts

/-! ### … and for a batch session -/

section batch
open XixiKV.C05

/-- **C14 (limits and sync strategy), one batch session on a fresh database.**  ANY two valid
    configurations, any batch `Sync` options, any two (positive, snowflake-sized) batch ids: the
    session `NewBatch; ops…; Commit` returns the same results — also when under one configuration
    the staging area is flushed and the file rotated in the middle of the batch and under the other
    it is not — the final mappings are equal, and so are the mappings recovered by a clean restart
    under any further configurations. -/
theorem C14_limits_only_layout_batch (dir₁ dir₂ : String) (c₁ c₂ : Cfg) (h₁ : c₁.Valid) (h₂ : c₂.Valid)
    (sync₁ sync₂ : Bool) (id₁ id₂ : Nat) (hid₁ : 0 < id₁ ∧ id₁ < 2 ^ 63) (hid₂ : 0 < id₂ ∧ id₂ < 2 ^ 63)
    (ops : List BOp) (hok : ∀ op ∈ ops, BOpOK op) (c₃ c₄ : Cfg) (h₃ : c₃.Valid) (h₄ : c₄.Valid) :
    (runBatch (openDB St.init dir₁ c₁).1 sync₁ id₁ ops).2 = (runBatch (openDB St.init dir₂ c₂).1 sync₂ id₂ ops).2 ∧
    C01.absOf (runBatch (openDB St.init dir₁ c₁).1 sync₁ id₁ ops).1
      = C01.absOf (runBatch (openDB St.init dir₂ c₂).1 sync₂ id₂ ops).1 ∧
    C01.absOf (C02.restart (runBatch (openDB St.init dir₁ c₁).1 sync₁ id₁ ops).1 dir₁ c₃)
      = C01.absOf (C02.restart (runBatch (openDB St.init dir₂ c₂).1 sync₂ id₂ ops).1 dir₂ c₄) := by
  obtain ⟨db₁, p₁, b₁⟩ := Pre_fresh dir₁ c₁ h₁ id₁ hid₁.1 hid₁.2 ops hok
  obtain ⟨db₂, p₂, b₂⟩ := Pre_fresh dir₂ c₂ h₂ id₂ hid₂.1 hid₂.2 ops hok
  obtain ⟨r₁, dbf₁, g₁, s₁, _, _, a₁, _, _⟩ := C05_layered _ db₁ _ sync₁ id₁ ops p₁
  obtain ⟨r₂, dbf₂, g₂, s₂, _, _, a₂, _, _⟩ := C05_layered _ db₂ _ sync₂ id₂ ops p₂
  have hd₁ : db₁.dir = dir₁ := by
    have := p₁.open_; rw [openDB_fresh dir₁ c₁ h₁] at this; cases this; rfl
  have hd₂ : db₂.dir = dir₂ := by
    have := p₂.open_; rw [openDB_fresh dir₂ c₂ h₂] at this; cases this; rfl
  have hn₁ : (openDB St.init dir₁ c₁).1.world.get (mergeDirName db₁.dir) = none := by
    rw [hd₁, openDB_fresh dir₁ c₁ h₁]; simp only [World.get]; rw [if_neg (mergeDirName_ne dir₁)]
  have hn₂ : (openDB St.init dir₂ c₂).1.world.get (mergeDirName db₂.dir) = none := by
    rw [hd₂, openDB_fresh dir₂ c₂ h₂]; simp only [World.get]; rw [if_neg (mergeDirName_ne dir₂)]
  obtain ⟨_, t₁, dbr₁, gr₁, o₁, so₁, _, ar₁, _⟩ := C04_live_durable _ db₁ _ sync₁ id₁ ops p₁ hn₁ c₃ h₃
  obtain ⟨_, t₂, dbr₂, gr₂, o₂, so₂, _, ar₂, _⟩ := C04_live_durable _ db₂ _ sync₂ id₂ ops p₂ hn₂ c₄ h₄
  refine ⟨by rw [r₁, r₂, b₁, b₂], ?_, ?_⟩
  · rw [C01.absOf_eq s₁, C01.absOf_eq s₂]
    funext k
    rw [a₁ k, a₂ k, b₁, b₂]
  · rw [hd₁] at o₁
    rw [hd₂] at o₂
    have e₁ : C02.restart (runBatch (openDB St.init dir₁ c₁).1 sync₁ id₁ ops).1 dir₁ c₃ = t₁ := by
      unfold C02.restart; rw [o₁]
    have e₂ : C02.restart (runBatch (openDB St.init dir₂ c₂).1 sync₂ id₂ ops).1 dir₂ c₄ = t₂ := by
      unfold C02.restart; rw [o₂]
    rw [e₁, e₂, C01.absOf_eq so₁, C01.absOf_eq so₂]
    funext k
    rw [ar₁ k, ar₂ k, b₁, b₂]

end batch


/-! ## 3. the shard count is a power of two and the shard index is in range -/

set_option maxRecDepth 100000 in
/-- the finite part, by evaluation (`decide`, checked by the kernel): every `n` from 1 to 1024 -/
theorem npot_small : ∀ n, n < 1025 → 1 ≤ n →
    (∃ k, k < 11 ∧ nextPowerOfTwo n = 2 ^ k) ∧ n ≤ nextPowerOfTwo n ∧
      (nextPowerOfTwo n < 2 * n ∨ nextPowerOfTwo n = 1) := by
  decide

/-- the smearing steps only set bits: beyond 1024 the cap applies -/
theorem npot_large (n : Nat) (h : 1025 ≤ n) : nextPowerOfTwo n = 1024 := by
  unfold nextPowerOfTwo
  simp only []
  have h0 : 1024 ≤ n - 1 := by omega
  have h1 : n - 1 ≤ (n - 1) ||| ((n - 1) >>> 1) := Nat.left_le_or
  have h2 := @Nat.left_le_or ((n - 1) ||| ((n - 1) >>> 1)) (((n - 1) ||| ((n - 1) >>> 1)) >>> 2)
  have h3 := @Nat.left_le_or (((n - 1) ||| ((n - 1) >>> 1)) ||| (((n - 1) ||| ((n - 1) >>> 1)) >>> 2))
    ((((n - 1) ||| ((n - 1) >>> 1)) ||| (((n - 1) ||| ((n - 1) >>> 1)) >>> 2)) >>> 4)
  generalize ((n - 1) ||| ((n - 1) >>> 1)) ||| (((n - 1) ||| ((n - 1) >>> 1)) >>> 2) = x2 at h2 h3 ⊢
  generalize x2 ||| (x2 >>> 4) = x3 at h3 ⊢
  have h4 := @Nat.left_le_or x3 (x3 >>> 8)
  generalize x3 ||| (x3 >>> 8) = x4 at h4 ⊢
  have h5 := @Nat.left_le_or x4 (x4 >>> 16)
  rw [if_pos (by omega)]

/-- **C14 (shard count)**: for every requested capacity `n ≥ 1`, `nextPowerOfTwo n` is a power of
    two `2^k` with `k ≤ 10`, at least `min n 1024`; for `n ≤ 1024` it is the LEAST such power of two
    (`< 2 n`, or `1`), and for `n ≥ 1024` it is 1024 -/
theorem C14_npot (n : Nat) (h : 1 ≤ n) :
    (∃ k, k ≤ 10 ∧ nextPowerOfTwo n = 2 ^ k) ∧ min n 1024 ≤ nextPowerOfTwo n ∧
    (n ≤ 1024 → nextPowerOfTwo n < 2 * n ∨ nextPowerOfTwo n = 1) ∧
    (1024 ≤ n → nextPowerOfTwo n = 1024) := by
  by_cases hn : n < 1025
  · obtain ⟨⟨k, hk, hp⟩, h2, h3⟩ := npot_small n hn h
    refine ⟨⟨k, by omega, hp⟩, by omega, fun _ => h3, fun h4 => ?_⟩
    have : n = 1024 := by omega
    subst this
    decide
  · have := npot_large n (by omega)
    refine ⟨⟨10, by omega, by rw [this]⟩, by omega, fun h4 => by omega, fun _ => this⟩

/-- **C14 (shard index in range)**: for a power-of-two shard count, `hash & (count − 1)` is a valid
    shard index, for every hash value -/
theorem C14_shard_in_range (h k : Nat) : h &&& (2 ^ k - 1) < 2 ^ k :=
  Nat.and_lt_two_pow h (by have := Nat.two_pow_pos k; omega)

/-- … in particular with the shard count the index layer actually computes -/
theorem C14_shard_index_lt (hash n : Nat) (h : 1 ≤ n) :
    hash &&& (nextPowerOfTwo n - 1) < nextPowerOfTwo n := by
  obtain ⟨⟨k, _, hp⟩, _⟩ := C14_npot n h
  rw [hp]
  exact C14_shard_in_range hash k

/-! ## non-vacuity -/

/-- `Sim` is inhabited non-trivially: after `Open` of the same fresh directory under two
    configurations that differ in all three irrelevant fields the states are `Sim`-related but not
    equal; all further results agree -/
example (dir : String) (cs : List Cmd) :
    let c₁ : Cfg := { fileSize := 100, sync := 2, bps := 7, idx := 0, io := 0, shards := 1 }
    let c₂ : Cfg := { fileSize := 100, sync := 2, bps := 7, idx := 2, io := 1, shards := 64 }
    (execAll St.init (.open dir c₁ :: cs)).2 = (execAll St.init (.open dir c₂ :: cs)).2 ∧
    (exec St.init (.open dir c₁)).1 ≠ (exec St.init (.open dir c₂)).1 := by
  intro c₁ c₂
  refine ⟨(C14_index_io_irrelevant_run (cs₁ := .open dir c₁ :: cs) (cs₂ := .open dir c₂ :: cs)
    ⟨⟨rfl, rfl, rfl, rfl⟩, CmdsEq.refl cs⟩ (Sim.refl St.init)).2, ?_⟩
  intro e
  have h1 : (openDB St.init dir c₁).1 = (openDB St.init dir c₂).1 := e
  rw [openDB_fresh dir c₁ (by decide), openDB_fresh dir c₂ (by decide)] at h1
  have h2 := congrArg (fun s => s.db.map (·.cfg.idx)) h1
  simp at h2

/-- the hypotheses of `C14_limits_only_layout_restarts` are satisfiable: three segments, completely
    different configurations on the two sides (one of them rotating on every record) -/
example (k v w : ByteArray) (hk0 : k.size ≠ 0) (hk : k.size < 2 ^ 31) (hv : v.size < 2 ^ 31) (hw : w.size < 2 ^ 31) :
    (runSegs "a" St.init
      [({ fileSize := 1, sync := 1, bps := 0, idx := 0, io := 0, shards := 1 }, [.put k v, .get k]),
       ({ fileSize := 4096, sync := 0, bps := 0, idx := 1, io := 1, shards := 8 }, [.get k, .put k w]),
       ({ fileSize := 77, sync := 2, bps := 100, idx := 2, io := 0, shards := 1024 }, [.get k, .del k, .get k])]).2
    = [[.ok, .val v], [.val v, .ok], [.val w, .ok, .notFound]] := by
  have hsz : ∀ x ∈ ([({ fileSize := 1, sync := 1, bps := 0, idx := 0, io := 0, shards := 1 }, [.put k v, .get k]),
       ({ fileSize := 4096, sync := 0, bps := 0, idx := 1, io := 1, shards := 8 }, [.get k, .put k w]),
       ({ fileSize := 77, sync := 2, bps := 100, idx := 2, io := 0, shards := 1024 }, [.get k, .del k, .get k])]
       : List (Cfg × List C01.Op)), x.1.Valid ∧ ∀ op ∈ x.2, C01.OpOK op := by
    intro x hx
    simp only [List.mem_cons, List.not_mem_nil, or_false] at hx
    rcases hx with rfl | rfl | rfl <;> refine ⟨by simp [Cfg.Valid], ?_⟩ <;> intro op hop <;>
      simp only [List.mem_cons, List.not_mem_nil, or_false] at hop <;>
      rcases hop with rfl | rfl | rfl <;> simp [C01.OpOK, hk, hv, hw]
  rw [(C14_limits_only_layout_restarts "a" "a" _ _ rfl hsz hsz).2.1]
  simp [specSegs, C01.specRun, C01.specStep, hk0, C01.specPut, C01.specDel, C01.getRes]

/-! ## evaluated sanity checks (compiled evaluation by `#guard`; not used by any proof)

One command script — plain writes (a 70 000-byte value), a batch with an intermediate flush, a
merge, a backup, a close and re-open — under four configurations: two that differ only in
`idx / io / shards` (all results equal AND the data files byte-identical), and two with different
`fileSize / sync / bps` (all results equal, file layout different). -/

private def showRes : Res → String
  | .ok => "ok"
  | .val v => s!"val:{v.size}:{v.data.toList.take 2}"
  | .notFound => "nf"
  | .err e => "err:" ++ e

private def K (s : String) : ByteArray := s.toUTF8
private def fill (n : Nat) (b : UInt8) : ByteArray := ⟨Array.replicate n b⟩

private def script (cfg cfg' : Cfg) : List Cmd :=
  [.open "d" cfg, .put (K "a") (fill 70000 7), .put (K "b") (K "1"), .get (K "a"), .del (K "b"), .get (K "b"),
   .bnew true 77, .bput (K "c") (K "2"), .bput (K "d") (fill 300 3), .bput (K "e") (K "4"), .bget (K "a"),
   .bdel (K "a"), .bget (K "a"), .bcommit, .bput (K "z") (K "9"), .bdrop, .get (K "a"), .get (K "d"),
   .put (K "c") (K "5"), .sync, .merge [0, 1, 2, 3, 4, 5, 6, 7, 8, 9], .backup "bk", .close, .get (K "c"),
   .open "d" cfg', .get (K "c"), .get (K "d"), .get (K "a"), .get ByteArray.empty, .put (K "f") (K "6"), .close]

private def cfgA : Cfg := { fileSize := 200, sync := 2, bps := 50, idx := 0, io := 0, shards := 1 }
private def cfgA' : Cfg := { fileSize := 200, sync := 2, bps := 50, idx := 2, io := 1, shards := 64 }
private def cfgB : Cfg := { fileSize := 1000000, sync := 1, bps := 0, idx := 1, io := 1, shards := 16 }
private def cfgC : Cfg := { fileSize := 90, sync := 0, bps := 0, idx := 0, io := 0, shards := 3 }

private def files (s : St) (d : String) : List (Nat × List UInt8 × Nat) :=
  ((s.world.get d).getD DirSt.empty).data.map (fun x => (x.1, x.2.bytes.data.toList, x.2.synced))

#guard (execAll St.init (script cfgA cfgA)).2.map showRes =
  ["ok", "ok", "ok", "val:70000:[7, 7]", "ok", "nf", "ok", "ok", "ok", "ok", "val:70000:[7, 7]", "ok", "nf", "ok",
   "err:committed", "ok", "nf", "val:300:[3, 3]", "ok", "ok", "ok", "ok", "ok", "err:not-open", "ok", "val:1:[53]",
   "val:300:[3, 3]", "nf", "err:keyempty", "ok", "ok"]
-- index type / shards / I/O type: same results, same bytes, same sync marks, in every directory
#guard (execAll St.init (script cfgA cfgA)).2.map showRes = (execAll St.init (script cfgA' cfgA')).2.map showRes
#guard ["d", "d-merge", "bk"].all fun d =>
  files (execAll St.init (script cfgA cfgA)).1 d == files (execAll St.init (script cfgA' cfgA)).1 d
-- file-size limit / sync strategy: same results, different layout
#guard (execAll St.init (script cfgA cfgB)).2.map showRes = (execAll St.init (script cfgB cfgC)).2.map showRes
#guard (execAll St.init (script cfgA cfgB)).2.map showRes = (execAll St.init (script cfgC cfgA')).2.map showRes
#guard (files (execAll St.init (script cfgA cfgA)).1 "d").length != (files (execAll St.init (script cfgB cfgB)).1 "d").length
-- nextPowerOfTwo on a few values
#guard [1, 2, 3, 4, 5, 16, 17, 1000, 1024, 1025, 100000].map nextPowerOfTwo = [1, 2, 4, 4, 8, 16, 32, 1024, 1024, 1024, 1024]

/-! ## axioms -/


/-- shard-count normalisation: `nextPowerOfTwo` as TRANSLATED from /repo's current source
    (`Generated/Trans.lean`) is the model's function for every requested shard count ≥ 1 -/
theorem C14_translated_nextPowerOfTwo (cap : Nat) (h1 : 1 ≤ cap) (h2 : cap < 2^62) :
    Generated.Trans.index.nextPowerOfTwo (cap : Int) = (Index.nextPowerOfTwo cap : Int) :=
  TransEq.trans_nextPowerOfTwo_eq cap h1 h2

end XixiKV.C14
