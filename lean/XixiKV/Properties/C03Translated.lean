import XixiKV.Properties.C03
import XixiKV.Proofs.TransEq3
import XixiKV.Proofs.TransEq3Trunc

/-! obligations of C03 that speak about Go functions as TRANSLATED from the current source (kept apart from `Properties/C03.lean`,
which many other modules import: a rewrite of `DataReader.next` that leaves the translator's proofs behind must not take the
obligations of other properties with it) -/

namespace XixiKV.C03
open XixiKV XixiKV.Frame XixiKV.Record XixiKV.Index XixiKV.Engine XixiKV.Engine.Restart

/-! ## the torn tail as the TRANSLATED sequential reader sees it (translator round 3)

`harness/cmd/trans` translates `(*DataReader).next` from /repo's current source on every run and
`Proofs/TransEq3.lean` proves it equal to the model's `nextAt` (`C11_translated_next`).  The two statements
below instantiate that with the model's torn-tail theorems: what recovery relies on holds for the code as it
reads now. -/

/-- **torn tail**: the active file holds `f` and then only the first `m` bytes of what the writer appends for
    the record `d` (cut anywhere: in the padding, a header, a payload, at a chunk or block boundary).  The
    TOLERANT reader (`tolerateTornTail`, the reader of the active file) that stands at the end of `f` reports
    `io.EOF`, not an error, and leaves `validEnd` where it was — so recovery truncates the file back to `f`. -/
theorem C03_translated_next (d f buf0 pool0 : ByteArray) (m fid : Nat) (validEnd : Int) (hd : 0 < d.size)
    (hm : m < (writeRec C d (f.size % BS)).size) (hbuf : buf0.size = 32768) (hpool : pool0.size = 32768)
    (hF : (f ++ (writeRec C d (f.size % BS)).extract 0 m).size / BS + 1 < 2^32) :
    ∃ b o,
      Generated.Trans.datafile.next (file := f ++ (writeRec C d (f.size % BS)).extract 0 m)
          (crc32_ChecksumIEEE := TransEq.crcNat) (getBuf_block := pool0) (reader_dataFile_ID := fid)
          (reader_dataFile_lastBlockID := (f ++ (writeRec C d (f.size % BS)).extract 0 m).size / BS)
          (reader_dataFile_lastBlockSize := (f ++ (writeRec C d (f.size % BS)).extract 0 m).size % BS)
          (reader_blockID := endB f) (reader_offset := endO f)
          (reader_blockBuf := buf0) (reader_validEnd := validEnd) (reader_tolerateTornTail := true)
        = some ((ByteArray.empty, none, some "io.EOF"), b, o, validEnd) := by
  have hC : (C : Codec) = Chunk.crcCodec := rfl
  rw [hC] at hm hF ⊢
  have hBS : BS = 32768 := rfl
  have hle : f.size / BS ≤ (f ++ (writeRec Chunk.crcCodec d (f.size % BS)).extract 0 m).size / BS := by
    apply Nat.div_le_div_right
    rw [ByteArray.size_append]; omega
  have hblk : endB f < 2^32 := by
    simp only [endB, normB]; split <;> omega
  have h := TransEq.trans_next_eq (f ++ (writeRec Chunk.crcCodec d (f.size % BS)).extract 0 m) buf0 pool0 true fid
    (endB f) (endO f) validEnd hbuf hpool hF hblk
  rw [nextAt_write_cut Chunk.crcCodec d f m _ hd hm
    (by rw [ByteArray.size_append, size_extract0 _ _ (Nat.le_of_lt hm)]; omega)] at h
  exact h

/-- **zero tail** (a pre-extended, memory-mapped file after a power failure): the file holds `a` followed by
    `k` zero bytes.  A reader of EITHER kind that stands at the end of `a` reports `io.EOF` and leaves
    `validEnd` where it was. -/
theorem C03_translated_next_zero_tail (a buf0 pool0 : ByteArray) (tol : Bool) (k fid : Nat) (validEnd : Int)
    (hbuf : buf0.size = 32768) (hpool : pool0.size = 32768)
    (hF : (a ++ zeros k).size / BS + 1 < 2^32) :
    ∃ b o,
      Generated.Trans.datafile.next (file := a ++ zeros k)
          (crc32_ChecksumIEEE := TransEq.crcNat) (getBuf_block := pool0) (reader_dataFile_ID := fid)
          (reader_dataFile_lastBlockID := (a ++ zeros k).size / BS)
          (reader_dataFile_lastBlockSize := (a ++ zeros k).size % BS)
          (reader_blockID := endB a) (reader_offset := endO a)
          (reader_blockBuf := buf0) (reader_validEnd := validEnd) (reader_tolerateTornTail := tol)
        = some ((ByteArray.empty, none, some "io.EOF"), b, o, validEnd) := by
  have hBS : BS = 32768 := rfl
  have hle : a.size / BS ≤ (a ++ zeros k).size / BS := by
    apply Nat.div_le_div_right
    rw [ByteArray.size_append]; omega
  have hblk : endB a < 2^32 := by
    simp only [endB, normB]; split <;> omega
  have h := TransEq.trans_next_eq (a ++ zeros k) buf0 pool0 tol fid (endB a) (endO a) validEnd hbuf hpool hF hblk
  rw [nextAt_end_zero_ext Chunk.crcCodec Chunk.zeroUndec_crc tol a k] at h
  exact h

/-- the hypotheses of `C03_translated_next` are met by every non-empty record torn after at most `d.size` bytes
    behind every file of less than 2⁴⁶ bytes — e.g. a 40 000-byte record (three chunks) torn after 100 bytes
    behind a file that ends 3 bytes before a block boundary -/
theorem C03_translated_next_sat (d f buf0 pool0 : ByteArray) (m fid : Nat) (validEnd : Int) (hd : 0 < d.size)
    (hmd : m ≤ d.size) (hfs : f.size + d.size < 2^46) (hbuf : buf0.size = 32768) (hpool : pool0.size = 32768) :
    ∃ b o,
      Generated.Trans.datafile.next (file := f ++ (writeRec C d (f.size % BS)).extract 0 m)
          (crc32_ChecksumIEEE := TransEq.crcNat) (getBuf_block := pool0) (reader_dataFile_ID := fid)
          (reader_dataFile_lastBlockID := (f ++ (writeRec C d (f.size % BS)).extract 0 m).size / BS)
          (reader_dataFile_lastBlockSize := (f ++ (writeRec C d (f.size % BS)).extract 0 m).size % BS)
          (reader_blockID := endB f) (reader_offset := endO f)
          (reader_blockBuf := buf0) (reader_validEnd := validEnd) (reader_tolerateTornTail := true)
        = some ((ByteArray.empty, none, some "io.EOF"), b, o, validEnd) := by
  have hBS : BS = 32768 := rfl
  have hgt := size_appendRec_gt C f d hd
  have hm : m < (writeRec C d (f.size % BS)).size := by
    unfold appendRec at hgt
    rw [ByteArray.size_append] at hgt
    omega
  refine C03_translated_next d f buf0 pool0 m fid validEnd hd hm hbuf hpool ?_
  rw [ByteArray.size_append, ByteArray.size_extract, hBS]
  omega

example : ∃ d f : ByteArray, 0 < d.size ∧ (100 : Nat) ≤ d.size ∧ f.size + d.size < 2^46 ∧ f.size % BS = 32765 :=
  ⟨zeros 40000, zeros 32765, by simp, by simp, by simp, by simp [BS]⟩

/-- `(*DataFile).Truncate` as it stands in /repo — what recovery calls with `reader.ValidEnd()` to drop a torn
    tail: on an open file in the writer state of `file` it cuts the file to `size` bytes and sets the writer state
    to `(size / BS, size % BS)` (so the invariant every other translated-function theorem assumes holds again);
    a size at or beyond the end changes nothing. -/
theorem C03_translated_Truncate (file : ByteArray) (size : Nat) (h : file.size / BS < 2^32) :
    Generated.Trans.datafile.Truncate file (file.size / BS) (file.size % BS) false (size : Int)
      = if size ≥ file.size then ((none, file.size / BS, file.size % BS), file)
        else ((none, size / BS, size % BS), file.extract 0 size) :=
  TransEq.trans_Truncate_eq file size h

example : Generated.Trans.datafile.Truncate ⟨#[1, 2, 3, 4, 5]⟩ 0 5 false 2 = ((none, 0, 2), ⟨#[1, 2]⟩) := by decide

end XixiKV.C03
