import XixiKV.Proofs.CrashHistoryDurable
import XixiKV.Properties.C13
/-!
# C03 / C04 at the level of acknowledged MUTATIONS

C03: "If the process dies at any instant - optionally losing any not-yet-synced tail of any file,
as in a power failure - the next Open succeeds without panicking and exposes the mapping produced
by some prefix of the mutations in the order they were acknowledged.  That prefix contains every
mutation acknowledged before the last successful sync of its file, and every acknowledged mutation
when only the process (not the OS) died."

C04: "The operations of one batch take effect as a unit: after any crash or restart either every
put and delete of the batch is visible or none is; once Commit has returned the batch is durable
(with the Sync option also after a power failure)."

`Properties/C03.lean` proves this for the ghost LOG of records.  This file proves the statement the
property actually makes, about HISTORIES OF CALLS (`List AOp`: `Put`, `Delete`, `Get`, `Sync`,
`NewBatch`, `Batch.Put/Delete/Get`, `Commit`, dropping the batch — in ANY interleaving, including
plain writes while a batch is open, batches replaced or dropped half-way, commits of committed
batches, …) and the abstract mapping.

## Mutation units of a history (`unitsOf`, defined in `Proofs/CrashHistorySteps.lean`)

Computed along the run of the executable model (`hstep`):
* a `Put` with non-empty key: one unit `MUnit.put k v`;
* a `Delete` with non-empty key that is present in the index (the only case in which a tombstone
  is written): one unit `MUnit.del k`; a `Delete` of an absent key or with an empty key is no unit;
* a `Commit` of an uncommitted batch with a non-empty staging area: ONE unit
  `MUnit.batch id ops`, `ops` = the staged operations of the batch in staging order (records that
  `flushStagedAndUpdateFile` wrote earlier, then what is staged at `Commit`); a staged operation
  with `typ = 1` is a delete, otherwise a put;
* nothing else is a unit (staging calls, reads, `Sync`, an empty `Commit`, dropped batches).
Units are ordered by acknowledgement (the return of `Put` / `Delete` / `Commit`).
`specOfUnits us` = the units applied in order to the empty map (`C01.specPut` / `C01.specDel`).

## Crash (`Crashed`)

`sc` is a state after the crash of `s`: no handle, the lock released (it is advisory and dies with
the process), the data directory a power-failure image (`Restart.CrashImage`: every file cut
somewhere between its flushed prefix and its size), no merge directory pending.  `OnlyLastCut` is
NOT assumed: it is derived from the durability invariant `DInv`, which every call keeps.

## Side conditions

`AOpOK` (key + value ≤ 2^27 bytes, batch ids < 2^63) for every call, and the batch-id condition
`IdsOK` (decidable, evaluated along the run): the id given to `NewBatch` is non-zero and is not the
id of an ABANDONED batch — one that was dropped, or replaced by another `NewBatch`, after
`flushStagedAndUpdateFile` had written some of its records (orphans that a later sealing record
with the same id would wrongly revive).  Reusing the id of a committed batch is allowed.
`FreshIds` (pairwise distinct, non-zero) implies it (`idsOK_of_freshIds`).

## Results

* `C03_history_prefix`: fresh database, any history with the side conditions, ANY point of the
  history (also with a batch open and partly flushed), any crash image: `Open` (any valid
  configuration) succeeds and exposes `specOfUnits (units.take j)`;
  (a) `j = units.length` when no byte was lost; (b) `j ≥ n` for every `n` with `Durable s n`
  (at least `n` units end inside the flushed prefixes of their files).
* `C03_history_prefix_from`: the same from ANY state with an open handle without batch object
  whose files match a ghost directory `g₀` (`Files`; every `Inv` state) and which satisfies `DInv`:
  the units are `unitsOfLog (logOf g₀) ++ unitsOf s₀ ops`.
* `C03_history_flushed`, `C03_history_always`, `C03_history_always_plain`,
  `C03_history_after_sync`: everything acknowledged survives a power failure when every file is
  flushed — after a `Put` / tombstone-writing `Delete` under `SyncStrategy Always`, at every point
  of a history of plain operations under `Always`, after `Sync()`.
* `C03_history_synced_prefix`, `C03_history_before_sync`: what was flushed stays flushed — every
  mutation acknowledged before a point at which all files were flushed (e.g. before a `Sync()`)
  survives EVERY later crash, whatever calls follow (`Durable_arun`).
* `C04_history_atomic`: a committed batch is ONE unit of the prefix: after any crash either none
  of its operations (and nothing acknowledged later) or all of them, in order, are visible.
* `C04_history_sync_durable`: after `Commit` of a batch created with `Sync` returned, every crash
  image exposes everything acknowledged so far, the batch included.
* Composition (`Good`, `C03_history_epoch`, `C03_history_epochs`, `C03_history_clean_restart`):
  the recovered state is "quiescent" again (engine invariant, durability invariant — for crash
  images with sane flush marks, `SaneMarks` —, batch ids accounted for), so the theorem applies to
  any number of epochs history–crash–`Open`; `Close` + `Open` is the special case of a crash that
  loses nothing, also when a batch is open, partly flushed or abandoned at `Close`.
* Cross-check of the definition of units: `C03_history_live` (whenever the engine invariant holds
  for the state reached, the LIVE mapping is `specOfUnits units`), `C03_units_agree_with_C01` (for
  plain histories the units denote the `C01.specRun` map); `C03_history_restart` (`Close` + `Open`
  after any history shows the mapping of all units).
* Non-vacuity: `C03_history_applicable`, `epoch_applicable` (the hypotheses hold for EVERY history
  and a family of crash images), a concrete history with a batch flushed in three pieces over
  three files, and evaluated recovered mappings (`#guard`).
-/
namespace XixiKV.C03H
open XixiKV XixiKV.Frame XixiKV.Record XixiKV.Index XixiKV.Engine XixiKV.Engine.Restart
open XixiKV.Engine.BatchP XixiKV.Engine.PolicyP XixiKV.Engine.PolicyP.Dur XixiKV.Engine.PolicyP.Size

/-! ## hypotheses -/

/-- the simple form of batch-id freshness: the ids passed to `NewBatch` are pairwise distinct and
    non-zero.  The theorems below need less (`IdsOK`, `Proofs/CrashHistorySteps.lean`): an id must
    be non-zero and must not be the id of an ABANDONED batch (dropped, or replaced by `NewBatch`,
    after some of its records had been written) — an id may be reused once its batch is committed.
    (Go: `NewBatch` builds a new snowflake node per batch, so two batches created within the same
    millisecond DO get the same id; there a batch holds the DB lock until `Commit`, so no batch is
    ever abandoned and `IdsOK` only asks for non-zero ids.) -/
def FreshIds (ops : List AOp) : Prop := (bnewIds ops).Nodup ∧ ∀ i ∈ bnewIds ops, i ≠ 0

instance (ops : List AOp) : Decidable (FreshIds ops) := by unfold FreshIds; infer_instance

/-- the bookkeeping at the start of a history on a fresh database -/
abbrev h0 : Hist := ⟨[], [], []⟩

/-- `sc` is a state after a crash of `s`, whose handle worked on directory `dir`; `d` / `dc` are
    the data directory before / after the crash -/
structure Crashed (s sc : St) (dir : String) (d dc : DirSt) : Prop where
  before : s.world.get dir = some d
  /-- the process is gone … -/
  nodb : sc.db = none
  after : sc.world.get dir = some dc
  /-- … and with it the advisory lock -/
  unlocked : dc.locked = false
  /-- every file kept a prefix at least as long as its flushed prefix -/
  image : CrashImage d.data dc.data
  /-- no merge is waiting to be adopted -/
  nomerge : sc.world.get (mergeDirName dir) = none

/-- only the process died: every file kept its size -/
def NoByteLost (d dc : DirSt) : Prop :=
  dc.data.map (fun x => (x.1, x.2.bytes.size)) = d.data.map (fun x => (x.1, x.2.bytes.size))

/-! ## C03 for histories -/

/-- the state reached by a history satisfies the run invariant for its units.  `dy` ⊇ the ids of
    orphaned batch records of the old log count as abandoned; `used` ⊇ the batch ids of the old log -/
theorem history_state (s₀ : St) (db₀ : DB) (g₀ : GDir) (ops : List AOp) (dy used : List Nat)
    (hs₀ : s₀.db = some db₀) (hf₀ : Files s₀ db₀ g₀) (hnb : db₀.batch = none) (hd₀ : DInv s₀ db₀)
    (hdy : ∀ i ∈ orphanIds g₀, i ∈ dy) (hused : ∀ x ∈ logOf g₀, x.1.batch ≠ 0 → x.1.batch ∈ used)
    (hok : ∀ op ∈ ops, AOpOK op) (hids : IdsOK s₀ ⟨[], [], dy⟩ ops) :
    ∃ L h, RunInv L db₀.cfg db₀.dir (arun s₀ ops) h (bnewIds ops ++ used) ∧
      h.units = unitsOfLog (logOf g₀) ++ unitsOf s₀ ops := by
  obtain ⟨L, hr⟩ := RunInv_start hs₀ hf₀ hnb hd₀ dy used hdy hused
  refine ⟨L, _, RunInv_arun ops hr hok ((IdsOK_units ops s₀ _ _ _).mpr hids), ?_⟩
  rw [hrun_units ops s₀ _ [] dy]
  congr 1
  exact (hrun_indep_dirty ops s₀ [] [] dy []).1

/-- **C03 for call histories, from any start state.**
    `s₀`: an open handle `db₀` without batch object whose data files are the ghost directory `g₀`
    (`Files`) and which satisfies the durability invariant; `ops`: any history with the size side
    conditions and the batch-id side condition `IdsOK`, where the ids `dy` count as abandoned from
    the start — `dy` must contain the ids of orphaned batch records of the old log (`orphanIds g₀`:
    something is parked under them in the replay of `g₀`; `dy := orphanIds g₀` is the weakest choice).
    Let `U = unitsOfLog (logOf g₀) ++ unitsOf s₀ ops` (what the old log denotes, then the units of
    the history).  For EVERY crash image of the state reached, `Open` under any valid configuration
    succeeds and there is `j ≤ U.length` such that the recovered mapping is `specOfUnits (U.take j)`;
    (a) `j = U.length` if no byte was lost; (b) `j ≥ n` whenever `n` units are durable;
    and the recovered handle satisfies the engine invariant for a ghost directory `g'` that denotes
    exactly `U.take j`. -/
theorem C03_history_prefix_from (s₀ : St) (db₀ : DB) (g₀ : GDir) (ops : List AOp) (cfg' : Cfg)
    (hs₀ : s₀.db = some db₀) (hf₀ : Files s₀ db₀ g₀) (hnb : db₀.batch = none) (hd₀ : DInv s₀ db₀)
    (dy : List Nat) (hdy : ∀ i ∈ orphanIds g₀, i ∈ dy)
    (hok : ∀ op ∈ ops, AOpOK op) (hids : IdsOK s₀ ⟨[], [], dy⟩ ops)
    (hcfg' : cfg'.Valid) (sc : St) (d dc : DirSt) (hcr : Crashed (arun s₀ ops) sc db₀.dir d dc) :
    ∃ s' db' g' j, openDB sc db₀.dir cfg' = (s', .ok) ∧ s'.db = some db' ∧
      j ≤ (unitsOfLog (logOf g₀) ++ unitsOf s₀ ops).length ∧
      (∀ k, absGet s' db' k = specOfUnits ((unitsOfLog (logOf g₀) ++ unitsOf s₀ ops).take j) k) ∧
      (NoByteLost d dc → j = (unitsOfLog (logOf g₀) ++ unitsOf s₀ ops).length) ∧
      (∀ n, Durable (arun s₀ ops) n → n ≤ j) ∧
      Inv s' db' g' ∧ unitsOfLog (logOf g') = (unitsOfLog (logOf g₀) ++ unitsOf s₀ ops).take j := by
  obtain ⟨L, h, hr, hu⟩ := history_state s₀ db₀ g₀ ops dy (tagIds g₀) hs₀ hf₀ hnb hd₀ hdy (tagIds_spec g₀) hok hids
  obtain ⟨s', db', g', j, h1, h2, h3, h4, h5, h6, h7, h8, _⟩ :=
    crash_of_RunInv hr sc cfg' d dc hcr.before hcr.nodb hcr.after hcr.unlocked hcr.image hcr.nomerge hcfg'
  rw [hu] at h4 h5 h6 h7
  exact ⟨s', db', g', j, h1, h2, h5, h6, h7, h8, h3, h4⟩

/-- the start state of the fresh-database theorems -/
theorem fresh_start (dir : String) (cfg : Cfg) (hcfg : cfg.Valid) :
    (openDB St.init dir cfg).1 = freshSt dir cfg ∧ (freshSt dir cfg).db = some (freshDB dir cfg) ∧
      Files (freshSt dir cfg) (freshDB dir cfg) [(0, [])] ∧ DInv (freshSt dir cfg) (freshDB dir cfg) ∧
      unitsOfLog (logOf [(0, [])]) = [] ∧ orphanIds [(0, [])] = [] := by
  refine ⟨by rw [openDB_fresh_eq dir cfg hcfg], rfl, (Inv_fresh dir cfg).files, DInv_fresh dir cfg, rfl, rfl⟩

/-- the simple freshness condition implies the batch-id side condition (fresh database) -/
theorem idsOK_of_freshIds (dir : String) (cfg : Cfg) (hcfg : cfg.Valid) (ops : List AOp)
    (hok : ∀ op ∈ ops, AOpOK op) (hfr : FreshIds ops) : IdsOK (openDB St.init dir cfg).1 h0 ops := by
  obtain ⟨e0, e1, e2, e3, _, e5⟩ := fresh_start dir cfg hcfg
  obtain ⟨L, hr⟩ := RunInv_start e1 e2 rfl e3 [] [] (by rw [e5]; intro i hi; exact hi)
    (by intro x hx; simp [logOf] at hx)
  rw [e0]
  apply (IdsOK_units ops _ (unitsOfLog (logOf [(0, [])])) [] []).mp
  refine IdsOK_of_fresh ops hr hok hfr.1 ?_
  intro i hi
  exact ⟨hfr.2 i hi, by simp, fun b hb => by simp [batchOf, freshSt, freshDB] at hb⟩

/-- **C03 for call histories** (fresh database).  For every valid `cfg`, `cfg'`, directory `dir`
    and history `ops` with the size side conditions and fresh batch ids, let `s` be the state
    `ops` reaches from the freshly opened database — ANY point of a history, also with a batch
    open and partly flushed.  For EVERY crash image `sc` of `s`: `Open` returns `.ok` and there is
    `j ≤ units.length` with `absGet = specOfUnits (units.take j)` — the mapping produced by a
    prefix of the acknowledged mutations, in acknowledgement order; moreover
    (a) if no byte was lost (process death only) then `j = units.length`: every acknowledged
        mutation, and nothing of an open, uncommitted batch even if part of it was flushed;
    (b) `j ≥ n` for every `n` such that the first `n` units end inside the flushed prefixes of
        their files (`Durable s n`). -/
theorem C03_history_prefix (dir : String) (cfg cfg' : Cfg) (hcfg : cfg.Valid) (hcfg' : cfg'.Valid)
    (ops : List AOp) (hok : ∀ op ∈ ops, AOpOK op) (hids : IdsOK (openDB St.init dir cfg).1 h0 ops)
    (sc : St) (d dc : DirSt) (hcr : Crashed (arun (openDB St.init dir cfg).1 ops) sc dir d dc) :
    ∃ s' db' j, openDB sc dir cfg' = (s', .ok) ∧ s'.db = some db' ∧
      j ≤ (unitsOf (openDB St.init dir cfg).1 ops).length ∧
      (∀ k, absGet s' db' k = specOfUnits ((unitsOf (openDB St.init dir cfg).1 ops).take j) k) ∧
      (NoByteLost d dc → j = (unitsOf (openDB St.init dir cfg).1 ops).length) ∧
      (∀ n, Durable (arun (openDB St.init dir cfg).1 ops) n → n ≤ j) := by
  obtain ⟨e0, e1, e2, e3, e4, e5⟩ := fresh_start dir cfg hcfg
  rw [e0] at hcr hids ⊢
  obtain ⟨s', db', g', j, h1, h2, h3, h4, h5, h6, _, _⟩ :=
    C03_history_prefix_from (freshSt dir cfg) (freshDB dir cfg) [(0, [])] ops cfg' e1 e2 rfl e3 []
      (by rw [e5]; intro i hi; exact hi) hok hids hcfg' sc d dc hcr
  rw [e4, List.nil_append] at h3 h4 h5
  exact ⟨s', db', j, h1, h2, h3, h4, h5, h6⟩

/-! ## what survives a power failure -/

/-- in a state reached by a history, if every data file is completely flushed then every
    acknowledged unit is durable -/
theorem durable_of_allSynced {L : Nat} {cfg : Cfg} {dir : String} {s : St} {h : Hist} {used : List Nat}
    (hr : RunInv L cfg dir s h used) (hall : ∀ db, s.db = some db → AllSynced s db) :
    Durable s h.units.length := by
  obtain ⟨db, g, hi⟩ := hr.hinv
  obtain ⟨db1, e1, hdinv, _, _⟩ := hr.dur
  rw [hi.open_] at e1
  cases e1
  have := Durable_all hi.open_ hi.files hdinv (hall db hi.open_)
  rwa [hi.units] at this

/-- **everything flushed ⇒ everything acknowledged survives a power failure**: if in the state a
    history reaches every data file is completely flushed (`AllSynced`), then EVERY crash image
    exposes the mapping of ALL acknowledged units -/
theorem C03_history_flushed (dir : String) (cfg cfg' : Cfg) (hcfg : cfg.Valid) (hcfg' : cfg'.Valid)
    (ops : List AOp) (hok : ∀ op ∈ ops, AOpOK op) (hids : IdsOK (openDB St.init dir cfg).1 h0 ops)
    (hall : ∀ db, (arun (openDB St.init dir cfg).1 ops).db = some db →
      AllSynced (arun (openDB St.init dir cfg).1 ops) db)
    (sc : St) (d dc : DirSt) (hcr : Crashed (arun (openDB St.init dir cfg).1 ops) sc dir d dc) :
    ∃ s' db', openDB sc dir cfg' = (s', .ok) ∧ s'.db = some db' ∧
      ∀ k, absGet s' db' k = specOfUnits (unitsOf (openDB St.init dir cfg).1 ops) k := by
  obtain ⟨s', db', j, h1, h2, h3, h4, _, h6⟩ := C03_history_prefix dir cfg cfg' hcfg hcfg' ops hok hids sc d dc hcr
  obtain ⟨e0, e1, e2, e3, e4, e5⟩ := fresh_start dir cfg hcfg
  obtain ⟨L, h, hr, hu⟩ := history_state (freshSt dir cfg) (freshDB dir cfg) [(0, [])] ops [] [] e1 e2 rfl e3
    (by rw [e5]; intro i hi; exact hi) (by intro x hx; simp [logOf] at hx) hok (by rw [← e0]; exact hids)
  rw [e4, List.nil_append, ← e0] at hu
  rw [← e0] at hr
  have hdur := durable_of_allSynced hr hall
  rw [hu] at hdur
  have hj : j = (unitsOf (openDB St.init dir cfg).1 ops).length := Nat.le_antisymm h3 (h6 _ hdur)
  refine ⟨s', db', h1, h2, ?_⟩
  intro k
  rw [h4 k, hj, List.take_length]

/-- the handle a history reaches: open, durability invariant, configuration kept -/
theorem history_handle (dir : String) (cfg : Cfg) (hcfg : cfg.Valid) (ops : List AOp) :
    ∃ db, (arun (openDB St.init dir cfg).1 ops).db = some db ∧
      DInv (arun (openDB St.init dir cfg).1 ops) db ∧ db.cfg = cfg ∧ db.dir = dir := by
  obtain ⟨e0, e1, _, e3, _, _⟩ := fresh_start dir cfg hcfg
  rw [e0]
  exact DurC_arun ops ⟨freshDB dir cfg, e1, e3, rfl, rfl⟩

/-- **SyncStrategy Always**: when the last call of a history is a `Put` with a non-empty key, or a
    `Delete` that writes a tombstone (non-empty key, present in the index), every acknowledged
    mutation — this one included — survives a power failure. -/
theorem C03_history_always (dir : String) (cfg cfg' : Cfg) (hcfg : cfg.Valid) (hcfg' : cfg'.Valid)
    (hsync : cfg.sync = 1) (pre : List AOp) (op : AOp)
    (hop : (∃ k v, op = .put k v ∧ k.size ≠ 0) ∨
      (∃ k, op = .del k ∧ k.size ≠ 0 ∧
        ∀ db, (arun (openDB St.init dir cfg).1 pre).db = some db → (Index.get db.index k).isSome))
    (hok : ∀ o ∈ pre ++ [op], AOpOK o) (hids : IdsOK (openDB St.init dir cfg).1 h0 (pre ++ [op]))
    (sc : St) (d dc : DirSt) (hcr : Crashed (arun (openDB St.init dir cfg).1 (pre ++ [op])) sc dir d dc) :
    ∃ s' db', openDB sc dir cfg' = (s', .ok) ∧ s'.db = some db' ∧
      ∀ k, absGet s' db' k = specOfUnits (unitsOf (openDB St.init dir cfg).1 (pre ++ [op])) k := by
  apply C03_history_flushed dir cfg cfg' hcfg hcfg' (pre ++ [op]) hok hids ?_ sc d dc hcr
  obtain ⟨db1, hs1, hd1, hc1, _⟩ := history_handle dir cfg hcfg pre
  rw [arun_append]
  intro db hdb
  obtain ⟨hput, hdel⟩ := C13.C13_always hs1 hd1 (by rw [hc1]; exact hsync)
  rcases hop with ⟨k, v, rfl, hk⟩ | ⟨k, rfl, hk, hin⟩
  · obtain ⟨_, db', e1, _, _, e4, _⟩ := hput k v hk
    have hdb' : (put (arun (openDB St.init dir cfg).1 pre) k v).1.db = some db := hdb
    rw [e1] at hdb'; cases hdb'
    exact e4
  · have hsome := hin db1 hs1
    cases hg : Index.get db1.index k with
    | none => rw [hg] at hsome; simp at hsome
    | some old =>
      obtain ⟨_, db', e1, _, _, e4, _⟩ := (hdel k hk).2 old hg
      have hdb' : (delete (arun (openDB St.init dir cfg).1 pre) k).1.db = some db := hdb
      rw [e1] at hdb'; cases hdb'
      exact e4

/-- plain operations as calls of the general trace type -/
def plainOp : C01.Op → AOp
  | .put k v => .put k v
  | .del k => .del k
  | .get k => .get k
  | .sync => .sync

theorem arun_plain (pl : List C01.Op) : ∀ s : St, arun s (pl.map plainOp) = (C01.run s pl).1 := by
  induction pl with
  | nil => intro s; rfl
  | cons op t ih =>
    intro s
    have : astep s (plainOp op) = C01.step s op := by cases op <;> rfl
    simp only [List.map_cons, arun, C01.run, this, ih]

theorem bnewIds_plain (pl : List C01.Op) : bnewIds (pl.map plainOp) = [] := by
  induction pl with
  | nil => rfl
  | cons op t ih =>
    rw [List.map_cons, bnewIds_cons, ih]
    cases op <;> rfl

/-- **SyncStrategy Always, plain operations**: at EVERY point of a history of `Put` / `Delete` /
    `Get` / `Sync` calls, every acknowledged `Put` / `Delete` survives a power failure. -/
theorem C03_history_always_plain (dir : String) (cfg cfg' : Cfg) (hcfg : cfg.Valid) (hcfg' : cfg'.Valid)
    (hsync : cfg.sync = 1) (pl : List C01.Op) (hok : ∀ o ∈ pl.map plainOp, AOpOK o)
    (sc : St) (d dc : DirSt)
    (hcr : Crashed (arun (openDB St.init dir cfg).1 (pl.map plainOp)) sc dir d dc) :
    ∃ s' db', openDB sc dir cfg' = (s', .ok) ∧ s'.db = some db' ∧
      ∀ k, absGet s' db' k = specOfUnits (unitsOf (openDB St.init dir cfg).1 (pl.map plainOp)) k := by
  have hids : IdsOK (openDB St.init dir cfg).1 h0 (pl.map plainOp) :=
    idsOK_of_freshIds dir cfg hcfg _ hok (by
      unfold FreshIds
      rw [bnewIds_plain]
      exact ⟨List.nodup_nil, fun i hi => by simp at hi⟩)
  apply C03_history_flushed dir cfg cfg' hcfg hcfg' _ hok hids ?_ sc d dc hcr
  obtain ⟨e0, e1, _, e3, _, _⟩ := fresh_start dir cfg hcfg
  rw [arun_plain, e0]
  intro db hdb
  obtain ⟨db', h1, _, _, h4⟩ := C13.C13_always_run pl e1 e3 hsync (AllSynced_fresh dir cfg)
  rw [h1] at hdb; cases hdb
  exact h4

/-- **after `Sync()`** everything acknowledged so far survives a power failure -/
theorem C03_history_after_sync (dir : String) (cfg cfg' : Cfg) (hcfg : cfg.Valid) (hcfg' : cfg'.Valid)
    (pre : List AOp) (hok : ∀ o ∈ pre ++ [.sync], AOpOK o) (hids : IdsOK (openDB St.init dir cfg).1 h0 (pre ++ [.sync]))
    (sc : St) (d dc : DirSt) (hcr : Crashed (arun (openDB St.init dir cfg).1 (pre ++ [.sync])) sc dir d dc) :
    ∃ s' db', openDB sc dir cfg' = (s', .ok) ∧ s'.db = some db' ∧
      ∀ k, absGet s' db' k = specOfUnits (unitsOf (openDB St.init dir cfg).1 (pre ++ [.sync])) k := by
  apply C03_history_flushed dir cfg cfg' hcfg hcfg' _ hok hids ?_ sc d dc hcr
  obtain ⟨db1, hs1, hd1, _, _⟩ := history_handle dir cfg hcfg pre
  rw [arun_append]
  intro db hdb
  obtain ⟨_, e2, _, e4⟩ := syncDB_dur hs1 hd1
  have hdb' : (syncDB (arun (openDB St.init dir cfg).1 pre)).1.db = some db := hdb
  rw [e2] at hdb'; cases hdb'
  exact e4

/-! ## cross-check: the units against the live mapping and the C01 specification -/

/-- **the live mapping is the mapping of the units whenever the engine invariant holds**: if the
    state a history reaches satisfies `Inv` (no batch object, index = replay of the log — e.g. by
    the C01 / C05 theorems), then what `Get` sees is `specOfUnits` of all acknowledged units.
    (Without `Inv` — a batch open, partly flushed or abandoned — the live index runs ahead of the
    units; a restart then shows `specOfUnits units`, `C03_history_restart`.) -/
theorem C03_history_live (dir : String) (cfg : Cfg) (hcfg : cfg.Valid)
    (ops : List AOp) (hok : ∀ op ∈ ops, AOpOK op) (hids : IdsOK (openDB St.init dir cfg).1 h0 ops)
    (db : DB) (g : GDir) (hs : (arun (openDB St.init dir cfg).1 ops).db = some db)
    (hinv : Inv (arun (openDB St.init dir cfg).1 ops) db g) :
    ∀ k, absGet (arun (openDB St.init dir cfg).1 ops) db k
      = specOfUnits (unitsOf (openDB St.init dir cfg).1 ops) k := by
  obtain ⟨e0, e1, e2, e3, e4, e5⟩ := fresh_start dir cfg hcfg
  obtain ⟨L, h, hr, hu⟩ := history_state (freshSt dir cfg) (freshDB dir cfg) [(0, [])] ops [] [] e1 e2 rfl e3
    (by rw [e5]; intro i hi; exact hi) (by intro x hx; simp [logOf] at hx) hok (by rw [← e0]; exact hids)
  rw [e4, List.nil_append, ← e0] at hu
  rw [← e0] at hr
  obtain ⟨db', g', hi⟩ := hr.hinv
  rw [hi.open_] at hs
  cases hs
  have hg : g = g' := Files_unique hinv.files hi.files
  subst hg
  intro k
  rw [absGet_units hinv.files hinv.index k, hi.units, hu]

/-- **the units of a history of plain operations denote the C01 specification map**: the
    definition of units (`Put` with non-empty key; `Delete` only when a tombstone is written) agrees
    with the independent specification `C01.specRun` (`Delete` always removes the key) -/
theorem C03_units_agree_with_C01 (dir : String) (cfg : Cfg) (hcfg : cfg.Valid) (pl : List C01.Op)
    (hok1 : ∀ op ∈ pl, C01.OpOK op) (hok : ∀ o ∈ pl.map plainOp, AOpOK o) :
    ∀ k, specOfUnits (unitsOf (openDB St.init dir cfg).1 (pl.map plainOp)) k
      = (C01.specRun C01.specEmpty pl).1 k := by
  obtain ⟨_, habs, ⟨db, g, hs, hinv⟩⟩ := C01.C01_refines_fresh dir cfg hcfg pl hok1
  have hids : IdsOK (openDB St.init dir cfg).1 h0 (pl.map plainOp) :=
    idsOK_of_freshIds dir cfg hcfg _ hok (by
      unfold FreshIds
      rw [bnewIds_plain]
      exact ⟨List.nodup_nil, fun i hi => by simp at hi⟩)
  rw [← arun_plain] at hs hinv habs
  intro k
  rw [← C03_history_live dir cfg hcfg _ hok hids db g hs hinv k, ← habs, C01.absOf_eq hs]

/-! ## what was flushed stays flushed -/

theorem IdsOK_append (a b : List AOp) : ∀ (s : St) (h : Hist), IdsOK s h (a ++ b) →
    IdsOK s h a ∧ IdsOK (arun s a) (hrun s h a) b := by
  induction a with
  | nil => intro s h hi; exact ⟨trivial, hi⟩
  | cons op t ih =>
    intro s h hi
    obtain ⟨h1, h2⟩ := hi
    obtain ⟨i1, i2⟩ := ih _ _ h2
    exact ⟨⟨h1, i1⟩, i2⟩

/-- the units of a prefix of a history are a prefix of the units of the history -/
theorem unitsOf_prefix (s : St) (a b : List AOp) : unitsOf s a <+: unitsOf s (a ++ b) := by
  unfold unitsOf
  rw [hrun_append]
  cases hh : hrun s ⟨[], [], []⟩ a with
  | mk u fl dy =>
    rw [hrun_units b (arun s a) u fl dy]
    exact List.prefix_append _ _

/-- **what was flushed stays**: if at the point `pre` of a history every data file is completely
    flushed — after `Sync()`, after a `Put` / `Delete` under `Always`, after the `Commit` of a
    `Sync` batch, … —, then every mutation acknowledged up to that point survives EVERY later crash,
    whatever calls follow (`post`): the surviving prefix has at least `(unitsOf s pre).length`
    units (and `unitsOf s pre` is a prefix of `unitsOf s (pre ++ post)`, `unitsOf_prefix`). -/
theorem C03_history_synced_prefix (dir : String) (cfg cfg' : Cfg) (hcfg : cfg.Valid) (hcfg' : cfg'.Valid)
    (pre post : List AOp) (hok : ∀ op ∈ pre ++ post, AOpOK op)
    (hids : IdsOK (openDB St.init dir cfg).1 h0 (pre ++ post))
    (hall : ∀ db, (arun (openDB St.init dir cfg).1 pre).db = some db →
      AllSynced (arun (openDB St.init dir cfg).1 pre) db)
    (sc : St) (d dc : DirSt) (hcr : Crashed (arun (openDB St.init dir cfg).1 (pre ++ post)) sc dir d dc) :
    ∃ s' db' j, openDB sc dir cfg' = (s', .ok) ∧ s'.db = some db' ∧
      (unitsOf (openDB St.init dir cfg).1 pre).length ≤ j ∧
      j ≤ (unitsOf (openDB St.init dir cfg).1 (pre ++ post)).length ∧
      ∀ k, absGet s' db' k = specOfUnits ((unitsOf (openDB St.init dir cfg).1 (pre ++ post)).take j) k := by
  obtain ⟨s', db', j, h1, h2, h3, h4, _, h6⟩ :=
    C03_history_prefix dir cfg cfg' hcfg hcfg' (pre ++ post) hok hids sc d dc hcr
  refine ⟨s', db', j, h1, h2, h6 _ ?_, h3, h4⟩
  obtain ⟨e0, e1, e2, e3, e4, e5⟩ := fresh_start dir cfg hcfg
  have hokpre : ∀ op ∈ pre, AOpOK op := fun op h => hok op (List.mem_append_left _ h)
  have hokpost : ∀ op ∈ post, AOpOK op := fun op h => hok op (List.mem_append_right _ h)
  obtain ⟨L, h, hr, hu⟩ := history_state (freshSt dir cfg) (freshDB dir cfg) [(0, [])] pre [] [] e1 e2 rfl e3
    (by rw [e5]; intro i hi; exact hi) (by intro x hx; simp [logOf] at hx) hokpre
    (by rw [← e0]; exact (IdsOK_append pre post _ _ hids).1)
  rw [e4, List.nil_append, ← e0] at hu
  rw [← e0] at hr
  have hdur := durable_of_allSynced hr hall
  rw [hu] at hdur
  rw [arun_append]
  exact Durable_arun post hr.size hr.dur hdur hokpost

/-- **every mutation acknowledged before a `Sync()` survives every later crash** -/
theorem C03_history_before_sync (dir : String) (cfg cfg' : Cfg) (hcfg : cfg.Valid) (hcfg' : cfg'.Valid)
    (pre post : List AOp) (hok : ∀ op ∈ (pre ++ [.sync]) ++ post, AOpOK op)
    (hids : IdsOK (openDB St.init dir cfg).1 h0 ((pre ++ [.sync]) ++ post))
    (sc : St) (d dc : DirSt)
    (hcr : Crashed (arun (openDB St.init dir cfg).1 ((pre ++ [.sync]) ++ post)) sc dir d dc) :
    ∃ s' db' j, openDB sc dir cfg' = (s', .ok) ∧ s'.db = some db' ∧
      (unitsOf (openDB St.init dir cfg).1 pre).length ≤ j ∧
      j ≤ (unitsOf (openDB St.init dir cfg).1 ((pre ++ [.sync]) ++ post)).length ∧
      ∀ k, absGet s' db' k
        = specOfUnits ((unitsOf (openDB St.init dir cfg).1 ((pre ++ [.sync]) ++ post)).take j) k := by
  obtain ⟨s', db', j, h1, h2, h3, h4, h5⟩ :=
    C03_history_synced_prefix dir cfg cfg' hcfg hcfg' (pre ++ [.sync]) post hok hids (by
      obtain ⟨db1, hs1, hd1, _, _⟩ := history_handle dir cfg hcfg pre
      rw [arun_append]
      intro db hdb
      obtain ⟨_, e2, _, e4⟩ := syncDB_dur hs1 hd1
      have hdb' : (syncDB (arun (openDB St.init dir cfg).1 pre)).1.db = some db := hdb
      rw [e2] at hdb'; cases hdb'
      exact e4) sc d dc hcr
  exact ⟨s', db', j, h1, h2, Nat.le_trans (unitsOf_prefix _ pre [.sync]).length_le h3, h4, h5⟩

/-! ## C04 for histories -/

theorem take_split {α : Type} (U : List α) (i j : Nat) (u : α) (hu : U[i]? = some u) (hij : i < j) :
    U.take j = U.take i ++ u :: (U.drop (i + 1)).take (j - (i + 1)) := by
  have hi : i < U.length := by
    rcases Nat.lt_or_ge i U.length with h | h
    · exact h
    · rw [List.getElem?_eq_none h] at hu; cases hu
  have hU : U = U.take i ++ u :: U.drop (i + 1) := by
    have h1 : U.drop i = u :: U.drop (i + 1) := by
      rw [List.drop_eq_getElem_cons hi]
      have : U[i] = u := by
        rw [List.getElem?_eq_getElem hi] at hu
        exact Option.some.inj hu
      rw [this]
    rw [← h1, List.take_append_drop]
  have hlen : (U.take i).length = i := by rw [List.length_take]; omega
  conv => lhs; rw [hU]
  rw [List.take_append, hlen, List.take_of_length_le (by rw [hlen]; omega)]
  have : j - i = (j - (i + 1)) + 1 := by omega
  rw [this, List.take_succ_cons]

/-- **C04 (atomicity) for call histories.**  Same hypotheses as `C03_history_prefix`.  The
    recovered mapping is `specOfUnits (units.take j)`, and a committed batch is ONE unit: for the
    batch acknowledged as unit number `i` (`units[i]? = some (MUnit.batch id bops)`) EITHER
    `j ≤ i`: none of its operations is visible — the recovered mapping is that of a prefix of the
    units acknowledged BEFORE the batch —, OR `i < j`: ALL its operations were applied, in order,
    on top of the mapping of the units before it (followed by the later units up to `j`). -/
theorem C04_history_atomic (dir : String) (cfg cfg' : Cfg) (hcfg : cfg.Valid) (hcfg' : cfg'.Valid)
    (ops : List AOp) (hok : ∀ op ∈ ops, AOpOK op) (hids : IdsOK (openDB St.init dir cfg).1 h0 ops)
    (sc : St) (d dc : DirSt) (hcr : Crashed (arun (openDB St.init dir cfg).1 ops) sc dir d dc) :
    ∃ s' db' j, openDB sc dir cfg' = (s', .ok) ∧ s'.db = some db' ∧
      j ≤ (unitsOf (openDB St.init dir cfg).1 ops).length ∧
      (∀ k, absGet s' db' k = specOfUnits ((unitsOf (openDB St.init dir cfg).1 ops).take j) k) ∧
      ∀ i id bops, (unitsOf (openDB St.init dir cfg).1 ops)[i]? = some (MUnit.batch id bops) →
        (j ≤ i ∧ (unitsOf (openDB St.init dir cfg).1 ops).take j
            <+: (unitsOf (openDB St.init dir cfg).1 ops).take i) ∨
        (i < j ∧ ∀ k, absGet s' db' k
            = specFrom (bops.foldl applyOp (specOfUnits ((unitsOf (openDB St.init dir cfg).1 ops).take i)))
                (((unitsOf (openDB St.init dir cfg).1 ops).drop (i + 1)).take (j - (i + 1))) k) := by
  obtain ⟨s', db', j, h1, h2, h3, h4, _, _⟩ := C03_history_prefix dir cfg cfg' hcfg hcfg' ops hok hids sc d dc hcr
  refine ⟨s', db', j, h1, h2, h3, h4, ?_⟩
  intro i id bops hu
  rcases Nat.lt_or_ge i j with hij | hij
  · right
    refine ⟨hij, fun k => ?_⟩
    rw [h4 k, take_split _ i j _ hu hij, specOfUnits_append]
    rfl
  · left
    refine ⟨hij, ?_⟩
    have : (unitsOf (openDB St.init dir cfg).1 ops).take j
        = ((unitsOf (openDB St.init dir cfg).1 ops).take i).take j := by
      rw [List.take_take, Nat.min_eq_left hij]
    rw [this]
    exact List.take_prefix _ _

/-- **C04 (durability with the Sync option) for call histories.**  `pre` is any history that
    leaves an uncommitted batch `b` created with `Sync` and a non-empty staging area attached to
    the handle; then `Commit` is called.  After it has returned, EVERY crash image (power failure
    included) exposes the mapping of all units acknowledged so far, and the last of them is the
    batch, as one unit. -/
theorem C04_history_sync_durable (dir : String) (cfg cfg' : Cfg) (hcfg : cfg.Valid) (hcfg' : cfg'.Valid)
    (pre : List AOp) (b : BatchSt)
    (hb : batchOf (arun (openDB St.init dir cfg).1 pre) = some b)
    (hsy : b.sync = true) (hc : b.committed = false) (he : b.staged ≠ [])
    (hok : ∀ o ∈ pre ++ [.bcommit], AOpOK o) (hids : IdsOK (openDB St.init dir cfg).1 h0 (pre ++ [.bcommit]))
    (sc : St) (d dc : DirSt)
    (hcr : Crashed (arun (openDB St.init dir cfg).1 (pre ++ [.bcommit])) sc dir d dc) :
    (∃ fl, unitsOf (openDB St.init dir cfg).1 (pre ++ [.bcommit])
      = unitsOf (openDB St.init dir cfg).1 pre ++ [MUnit.batch b.id (fl ++ b.staged)]) ∧
    ∃ s' db', openDB sc dir cfg' = (s', .ok) ∧ s'.db = some db' ∧
      ∀ k, absGet s' db' k = specOfUnits (unitsOf (openDB St.init dir cfg).1 (pre ++ [.bcommit])) k := by
  refine ⟨?_, ?_⟩
  · refine ⟨(hrun (openDB St.init dir cfg).1 ⟨[], [], []⟩ pre).flushed, ?_⟩
    unfold unitsOf
    rw [hrun_append]
    simp only [hrun, hstep, hb, hc, he, ne_eq, not_false_eq_true, and_self, if_true]
  · apply C03_history_flushed dir cfg cfg' hcfg hcfg' _ hok hids ?_ sc d dc hcr
    obtain ⟨db1, hs1, hd1, _, _⟩ := history_handle dir cfg hcfg pre
    rw [arun_append]
    intro db hdb
    have hb1 : db1.batch = some b := by rw [← batchOf_eq hs1]; exact hb
    obtain ⟨_, db', e1, _, _, _, e5⟩ := C13.C13_sync_batch hs1 hb1 hsy hc he hd1
    have hdb' : (bcommit (arun (openDB St.init dir cfg).1 pre)).1.db = some db := hdb
    rw [e1] at hdb'; cases hdb'
    exact e5

/-! ## composition: histories separated by crashes and restarts -/

/-- a quiescent database state: an open handle on `dir` with configuration `cfg` and no batch
    object that satisfies the engine invariant (`Inv`) for a ghost directory denoting the units `U`
    — so its mapping is `specOfUnits U` (`Good.abs`) — and the durability invariant; all batch ids
    in its files are among `used`. -/
structure Good (s : St) (dir : String) (cfg : Cfg) (U : List MUnit) (used : List Nat) : Prop where
  ex : ∃ db g, s.db = some db ∧ db.dir = dir ∧ db.cfg = cfg ∧ Inv s db g ∧ DInv s db ∧
    unitsOfLog (logOf g) = U ∧ ∀ x ∈ logOf g, x.1.batch ≠ 0 → x.1.batch ∈ used

/-- the mapping of a quiescent state is the mapping of its units -/
theorem Good.abs {s : St} {dir : String} {cfg : Cfg} {U : List MUnit} {used : List Nat}
    (h : Good s dir cfg U used) : ∃ db, s.db = some db ∧ ∀ k, absGet s db k = specOfUnits U k := by
  obtain ⟨db, g, h1, _, _, h4, _, h6, _⟩ := h.ex
  exact ⟨db, h1, fun k => by rw [absGet_units h4.files h4.index k, h6]⟩

/-- the freshly opened database is quiescent, with no units and no batch ids -/
theorem Good_fresh (dir : String) (cfg : Cfg) (hcfg : cfg.Valid) : Good (openDB St.init dir cfg).1 dir cfg [] [] := by
  obtain ⟨e0, e1, _, e3, e4, _⟩ := fresh_start dir cfg hcfg
  rw [e0]
  exact ⟨freshDB dir cfg, [(0, [])], e1, rfl, rfl, Inv_fresh dir cfg, e3, e4, by intro x hx; simp [logOf] at hx⟩

/-- **one epoch: a history, then a crash, then `Open`.**  From a quiescent state with units `U₀`:
    any history (size side conditions; batch ids non-zero and not abandoned, all ids `used` so far
    counting as abandoned), any crash image of the state reached whose flush marks are sane, any
    valid new configuration: `Open` succeeds and the recovered state is quiescent again, with units
    `(U₀ ++ unitsOf s₀ ops).take j` — (a) everything if no byte was lost, (b) at least the durable
    units — and `used` extended by the ids of the history.  So the theorem applies again. -/
theorem C03_history_epoch {s₀ : St} {dir : String} {cfg : Cfg} {U₀ : List MUnit} {used : List Nat}
    (hg : Good s₀ dir cfg U₀ used) (ops : List AOp) (hok : ∀ op ∈ ops, AOpOK op)
    (hids : IdsOK s₀ ⟨[], [], used⟩ ops) (cfg' : Cfg) (hcfg' : cfg'.Valid)
    (sc : St) (d dc : DirSt) (hcr : Crashed (arun s₀ ops) sc dir d dc) (hm : SaneMarks dc.data) :
    ∃ j, (openDB sc dir cfg').2 = .ok ∧ j ≤ (U₀ ++ unitsOf s₀ ops).length ∧
      Good (openDB sc dir cfg').1 dir cfg' ((U₀ ++ unitsOf s₀ ops).take j) (bnewIds ops ++ used) ∧
      (NoByteLost d dc → j = (U₀ ++ unitsOf s₀ ops).length) ∧
      (∀ n, Durable (arun s₀ ops) n → n ≤ j) ∧
      (openDB sc dir cfg').1.world.get (mergeDirName dir) = none := by
  obtain ⟨db₀, g₀, h1, h2, h3, h4, h5, h6, h7⟩ := hg.ex
  subst h2 h3 h6
  obtain ⟨L, h, hr, hu⟩ := history_state s₀ db₀ g₀ ops used used h1 h4.files h4.nobatch h5
    (orphanIds_sub h7) h7 hok hids
  obtain ⟨s', db', g', j, c1, c2, c3, c4, c5, _, c7, c8, c9, c10, c11, c12, c13⟩ :=
    crash_of_RunInv hr sc cfg' d dc hcr.before hcr.nodb hcr.after hcr.unlocked hcr.image hcr.nomerge hcfg'
  rw [hu] at c4 c5 c7
  rw [c1]
  exact ⟨j, rfl, c5, ⟨db', g', c2, c9, c10, c3, c11 hm, c4, c12⟩, c7, c8, c13⟩

/-- `Close` is a crash without any loss: the state after `Close` is a crash state of `s` in which
    no byte was lost and all flush marks are sane -/
theorem crashed_close {s : St} {db : DB} {d : DirSt} (hs : s.db = some db) (hd : s.world.get db.dir = some d)
    (hle : ∀ x ∈ d.data, x.2.synced ≤ x.2.bytes.size)
    (hnm : s.world.get (mergeDirName db.dir) = none) :
    Crashed s (close s).1 db.dir d { d with data := syncAll d.data, locked := false } ∧
    NoByteLost d { d with data := syncAll d.data, locked := false } ∧
    SaneMarks (syncAll d.data) := by
  rw [close_eq s db d hs hd]
  have himg : ∀ data : List (Nat × FileSt), (∀ x ∈ data, x.2.synced ≤ x.2.bytes.size) →
      CrashImage data (syncAll data) := by
    intro data
    induction data with
    | nil => intro _; trivial
    | cons x t ih =>
      intro h
      obtain ⟨i, f⟩ := x
      exact ⟨rfl, ⟨f.bytes.size, h (i, f) (by simp), Nat.le_refl _, (extract_all _ _ (Nat.le_refl _)).symm⟩,
        ih (fun y hy => h y (by simp [hy]))⟩
  refine ⟨⟨hd, rfl, World.get_set_self _ _ _, rfl, himg d.data hle, ?_⟩, ?_, ?_, ?_⟩
  · rw [World.get_set_ne _ _ _ _ (Restart.mergeDirName_ne _)]; exact hnm
  · show (syncAll d.data).map _ = d.data.map _
    unfold syncAll
    rw [List.map_map]
    apply List.map_congr_left
    intro x _; rfl
  · intro x hx
    exact (mem_syncAll (List.dropLast_subset _ hx)).2
  · intro x hx
    rw [(mem_syncAll hx).2]; exact Nat.le_refl _

/-- **one epoch ending with a clean restart** (`Close`, then `Open`): from a quiescent state, any
    history — it may end with a batch open, partly flushed, or abandoned, which `C02_restart` does
    not cover —, then `Close` and `Open` under any valid configuration: the state is quiescent again
    and its units are ALL acknowledged units; nothing of an uncommitted batch is visible. -/
theorem C03_history_clean_restart {s₀ : St} {dir : String} {cfg : Cfg} {U₀ : List MUnit} {used : List Nat}
    (hg : Good s₀ dir cfg U₀ used) (ops : List AOp) (hok : ∀ op ∈ ops, AOpOK op)
    (hids : IdsOK s₀ ⟨[], [], used⟩ ops) (cfg' : Cfg) (hcfg' : cfg'.Valid)
    (hnm : (arun s₀ ops).world.get (mergeDirName dir) = none) :
    (openDB (close (arun s₀ ops)).1 dir cfg').2 = .ok ∧
    Good (openDB (close (arun s₀ ops)).1 dir cfg').1 dir cfg' (U₀ ++ unitsOf s₀ ops) (bnewIds ops ++ used) := by
  obtain ⟨db₀, g₀, h1, h2, h3, h4, h5, h6, h7⟩ := hg.ex
  obtain ⟨db, hs, hd, _, hdir⟩ := DurC_arun ops ⟨db₀, h1, h5, h3, h2⟩
  subst hdir
  obtain ⟨pre, f, hdata, _⟩ := hd.shape
  cases hw : (arun s₀ ops).world.get db.dir with
  | none => simp [dirOf, hw, DirSt.empty] at hdata
  | some d =>
    have hle : ∀ x ∈ d.data, x.2.synced ≤ x.2.bytes.size := by
      have := hd.le
      rwa [dirOf_eq hw] at this
    obtain ⟨hcr, hnl, hsm⟩ := crashed_close hs hw hle hnm
    obtain ⟨j, e1, _, e3, e4, _, _⟩ := C03_history_epoch hg ops hok hids cfg' hcfg' _ d _ hcr hsm
    rw [e4 hnl, List.take_length] at e3
    exact ⟨e1, e3⟩

/-- **clean restart, fresh database**: any history from the freshly opened database (it may end
    with a batch open, partly flushed, or abandoned), then `Close` and `Open` under any valid
    configuration: `Open` succeeds and exposes the mapping of ALL acknowledged units — nothing of an
    uncommitted batch, everything of every committed one. -/
theorem C03_history_restart (dir : String) (cfg cfg' : Cfg) (hcfg : cfg.Valid) (hcfg' : cfg'.Valid)
    (ops : List AOp) (hok : ∀ op ∈ ops, AOpOK op) (hids : IdsOK (openDB St.init dir cfg).1 h0 ops) :
    (openDB (close (arun (openDB St.init dir cfg).1 ops)).1 dir cfg').2 = .ok ∧
    ∃ db', (openDB (close (arun (openDB St.init dir cfg).1 ops)).1 dir cfg').1.db = some db' ∧
      ∀ k, absGet (openDB (close (arun (openDB St.init dir cfg).1 ops)).1 dir cfg').1 db' k
        = specOfUnits (unitsOf (openDB St.init dir cfg).1 ops) k := by
  have hg := Good_fresh dir cfg hcfg
  have hnm : (arun (openDB St.init dir cfg).1 ops).world.get (mergeDirName dir) = none := by
    obtain ⟨e0, e1, _, _, _, _⟩ := fresh_start dir cfg hcfg
    rw [e0]
    obtain ⟨hfr, _⟩ := arun_frame ops e1
    rw [hfr (mergeDirName dir) (Restart.mergeDirName_ne dir)]
    have := Engine.mergeDirName_ne dir
    simp [freshSt, World.get, this]
  obtain ⟨h1, h2⟩ := C03_history_clean_restart hg ops hok hids cfg' hcfg' hnm
  rw [List.nil_append] at h2
  exact ⟨h1, h2.abs⟩

/-- epochs: each is a history followed by a crash (`sc`, directories `d` / `dc` before / after)
    and `Open` under `cfg'` -/
structure Epoch where
  ops : List AOp
  sc : St
  d : DirSt
  dc : DirSt
  cfg' : Cfg

/-- the state after a list of epochs -/
def erun (dir : String) (s : St) : List Epoch → St
  | [] => s
  | e :: es => erun dir (openDB e.sc dir e.cfg').1 es

/-- the hypotheses of every epoch (`used` = the batch ids handed out before it) -/
def EpochsOK (dir : String) : St → List Nat → List Epoch → Prop
  | _, _, [] => True
  | s, used, e :: es =>
    (∀ op ∈ e.ops, AOpOK op) ∧ IdsOK s ⟨[], [], used⟩ e.ops ∧ e.cfg'.Valid ∧
    Crashed (arun s e.ops) e.sc dir e.d e.dc ∧ SaneMarks e.dc.data ∧
    EpochsOK dir (openDB e.sc dir e.cfg').1 (bnewIds e.ops ++ used) es

/-- `U'` survives the epochs `es` started in state `s` with units `U`: after each epoch, a prefix
    of (the units before it, then the units of its history) that contains the durable ones and is
    everything if no byte was lost -/
inductive Survives (dir : String) : St → List MUnit → List Epoch → List MUnit → Prop
  | nil (s : St) (U : List MUnit) : Survives dir s U [] U
  | cons (s : St) (U : List MUnit) (e : Epoch) (es : List Epoch) (U' : List MUnit) (j : Nat)
      (hj : j ≤ (U ++ unitsOf s e.ops).length)
      (hall : NoByteLost e.d e.dc → j = (U ++ unitsOf s e.ops).length)
      (hdur : ∀ n, Durable (arun s e.ops) n → n ≤ j)
      (rest : Survives dir (openDB e.sc dir e.cfg').1 ((U ++ unitsOf s e.ops).take j) es U') :
      Survives dir s U (e :: es) U'

/-- **any number of epochs**: from a quiescent state (e.g. the fresh database, `Good_fresh`), after
    any list of epochs that satisfy the hypotheses, the database is quiescent and its mapping is
    `specOfUnits U'` for a list `U'` that `Survives` the epochs: every `Open` succeeded, and each
    crash kept a prefix of the units acknowledged until then. -/
theorem C03_history_epochs (dir : String) (es : List Epoch) :
    ∀ {s : St} {cfg : Cfg} {U : List MUnit} {used : List Nat}, Good s dir cfg U used →
      EpochsOK dir s used es →
      ∃ U' cfg' used', Survives dir s U es U' ∧ Good (erun dir s es) dir cfg' U' used' := by
  induction es with
  | nil => intro s cfg U used hg _; exact ⟨U, cfg, used, .nil s U, hg⟩
  | cons e es ih =>
    intro s cfg U used hg hok
    obtain ⟨o1, o2, o3, o4, o5, o6⟩ := hok
    obtain ⟨j, _, c2, c3, c4, c5, _⟩ := C03_history_epoch hg e.ops o1 o2 e.cfg' o3 e.sc e.d e.dc o4 o5
    obtain ⟨U', cfg'', used', r1, r2⟩ := ih c3 o6
    exact ⟨U', cfg'', used', .cons s U e es U' j c2 c4 c5 r1, r2⟩

/-! ## non-vacuity

The hypotheses of the theorems above are met by EVERY history with the side conditions and a whole
family of crash images (`crashOf s dir n`: every file loses its last `n` bytes, but nothing of its
flushed prefix) — `C03_history_applicable`.  Then a concrete history with a batch that is flushed
in three pieces across three data files. -/

/-- a file after the loss of its last `n` bytes, except that the flushed prefix is never lost -/
def cutBy (n : Nat) (x : Nat × FileSt) : Nat × FileSt :=
  (x.1, ⟨x.2.bytes.extract 0 (max x.2.synced (x.2.bytes.size - n)), x.2.synced⟩)

/-- the state after a crash of `s` in which every data file of `dir` lost (up to) its last `n`
    bytes: no handle, the lock released, nothing else in the world -/
def crashOf (s : St) (dir : String) (n : Nat) : St :=
  match s.world.get dir with
  | some d => { world := [(dir, { d with data := d.data.map (cutBy n), locked := false })], db := none }
  | none => { world := [], db := none }

theorem crashImage_cutBy (n : Nat) : ∀ (data : List (Nat × FileSt)),
    (∀ x ∈ data, x.2.synced ≤ x.2.bytes.size) → CrashImage data (data.map (cutBy n)) := by
  intro data
  induction data with
  | nil => intro _; trivial
  | cons x t ih =>
    intro hle
    have hx := hle x (by simp)
    refine ⟨rfl, ⟨max x.2.synced (x.2.bytes.size - n), Nat.le_max_left _ _, Nat.max_le.mpr ⟨hx, Nat.sub_le _ _⟩, rfl⟩,
      ih (fun y hy => hle y (by simp [hy]))⟩

theorem crashed_crashOf {s : St} {dir : String} {d : DirSt} (n : Nat) (hd : s.world.get dir = some d)
    (hle : ∀ x ∈ d.data, x.2.synced ≤ x.2.bytes.size) :
    Crashed s (crashOf s dir n) dir d { d with data := d.data.map (cutBy n), locked := false } := by
  have e : crashOf s dir n
      = { world := [(dir, { d with data := d.data.map (cutBy n), locked := false })], db := none } := by
    simp only [crashOf, hd]
  rw [e]
  refine ⟨hd, rfl, by simp [World.get], rfl, crashImage_cutBy n d.data hle, ?_⟩
  have := Engine.mergeDirName_ne dir
  simp [World.get, this]

/-- **the hypotheses are satisfiable for every history**: whatever the history (with the side
    conditions) and whatever `n`, the state `crashOf … n` is a crash of the state reached -/
theorem C03_history_applicable (dir : String) (cfg : Cfg) (hcfg : cfg.Valid) (ops : List AOp) (n : Nat) :
    ∃ d, Crashed (arun (openDB St.init dir cfg).1 ops) (crashOf (arun (openDB St.init dir cfg).1 ops) dir n)
      dir d { d with data := d.data.map (cutBy n), locked := false } := by
  obtain ⟨db, hs, hd, _, hdir⟩ := history_handle dir cfg hcfg ops
  subst hdir
  obtain ⟨pre, f, hdata, _⟩ := hd.shape
  cases hw : (arun (openDB St.init db.dir cfg).1 ops).world.get db.dir with
  | none =>
    -- impossible: the directory of the handle ends with the active file
    simp [dirOf, hw, DirSt.empty] at hdata
  | some d =>
    refine ⟨d, crashed_crashOf n hw ?_⟩
    have := hd.le
    rwa [dirOf_eq hw] at this

/-- the flush marks of the images `cutBy n` are sane whenever the durability invariant held -/
theorem saneMarks_cutBy (n : Nat) (data : List (Nat × FileSt)) (hold : OnlyLastCut data)
    (hle : ∀ x ∈ data, x.2.synced ≤ x.2.bytes.size) : SaneMarks (data.map (cutBy n)) := by
  have hsz : ∀ x ∈ data, ((cutBy n x).2.bytes.size = max x.2.synced (x.2.bytes.size - n)) := by
    intro x hx
    show (x.2.bytes.extract 0 _).size = _
    rw [ByteArray.size_extract]
    have := hle x hx
    omega
  refine ⟨?_, ?_⟩
  · intro y hy
    rw [← List.map_dropLast] at hy
    obtain ⟨x, hx, rfl⟩ := List.mem_map.mp hy
    have h1 := hold x hx
    rw [hsz x (List.dropLast_subset _ hx)]
    show x.2.synced = _
    omega
  · intro y hy
    obtain ⟨x, hx, rfl⟩ := List.mem_map.mp hy
    rw [hsz x hx]
    exact Nat.le_max_left _ _

/-- the data directory of `dir` in state `s` -/
def dirAt (s : St) (dir : String) : DirSt := (s.world.get dir).getD DirSt.empty

/-- the epoch "history `ops` from state `s`, then a crash that loses (up to) the last `n` bytes of
    every file, then `Open` under `cfg'`" -/
def crashEpoch (s : St) (dir : String) (ops : List AOp) (n : Nat) (cfg' : Cfg) : Epoch :=
  { ops := ops, sc := crashOf (arun s ops) dir n, d := dirAt (arun s ops) dir,
    dc := { dirAt (arun s ops) dir with data := (dirAt (arun s ops) dir).data.map (cutBy n), locked := false },
    cfg' := cfg' }

/-- the simple freshness condition at a quiescent state: new ids pairwise distinct, non-zero and
    not used before -/
theorem idsOK_of_freshIds_good {s : St} {dir : String} {cfg : Cfg} {U : List MUnit} {used : List Nat}
    (hg : Good s dir cfg U used) (ops : List AOp) (hok : ∀ op ∈ ops, AOpOK op) (hfr : FreshIds ops)
    (hdis : ∀ i ∈ bnewIds ops, i ∉ used) : IdsOK s ⟨[], [], used⟩ ops := by
  obtain ⟨db, g, h1, _, _, h4, h5, _, h7⟩ := hg.ex
  obtain ⟨L, hr⟩ := RunInv_start h1 h4.files h4.nobatch h5 used used (orphanIds_sub h7) h7
  apply (IdsOK_units ops _ (unitsOfLog (logOf g)) [] used).mp
  refine IdsOK_of_fresh ops hr hok hfr.1 ?_
  intro i hi
  refine ⟨hfr.2 i hi, hdis i hi, fun b hb => ?_⟩
  rw [batchOf_eq h1, h4.nobatch] at hb
  cases hb

/-- **the hypotheses of an epoch are satisfiable from every quiescent state**, for every history
    with the side conditions and every loss `n` -/
theorem epoch_applicable {s : St} {dir : String} {cfg : Cfg} {U : List MUnit} {used : List Nat}
    (hg : Good s dir cfg U used) (ops : List AOp) (n : Nat) (cfg' : Cfg) :
    Crashed (arun s ops) (crashEpoch s dir ops n cfg').sc dir (crashEpoch s dir ops n cfg').d
      (crashEpoch s dir ops n cfg').dc ∧ SaneMarks (crashEpoch s dir ops n cfg').dc.data := by
  obtain ⟨db₀, g₀, h1, h2, h3, _, h5, _, _⟩ := hg.ex
  obtain ⟨db, hs, hd, _, hdir⟩ := DurC_arun ops ⟨db₀, h1, h5, h3, h2⟩
  subst hdir
  obtain ⟨pre, f, hdata, _⟩ := hd.shape
  cases hw : (arun s ops).world.get db.dir with
  | none => simp [dirOf, hw, DirSt.empty] at hdata
  | some d =>
    have hle : ∀ x ∈ d.data, x.2.synced ≤ x.2.bytes.size := by
      have := hd.le
      rwa [dirOf_eq hw] at this
    have hold : OnlyLastCut d.data := by
      have := hd.older
      rwa [dirOf_eq hw] at this
    have e : dirAt (arun s ops) db.dir = d := by simp only [dirAt, hw, Option.getD_some]
    simp only [crashEpoch, e]
    exact ⟨crashed_crashOf n hw hle, saneMarks_cutBy n d.data hold hle⟩

instance : (op : AOp) → Decidable (AOpOK op)
  | .put _ _ => by unfold AOpOK; infer_instance
  | .del _ => by unfold AOpOK; infer_instance
  | .get _ => by unfold AOpOK; infer_instance
  | .sync => by unfold AOpOK; infer_instance
  | .bnew _ _ => by unfold AOpOK; infer_instance
  | .bput _ _ => by unfold AOpOK; infer_instance
  | .bdel _ => by unfold AOpOK; infer_instance
  | .bget _ => by unfold AOpOK; infer_instance
  | .bcommit => by unfold AOpOK; infer_instance
  | .bdrop => by unfold AOpOK; infer_instance

private def K (s : String) : ByteArray := s.toUTF8

/-- `DataFileSize = 200`: a plain `Put`, then a batch (id 77, no Sync) whose third `Batch.Put`
    overflows the estimate — `flushStagedAndUpdateFile` writes `a, b` to file 0 and rotates; a plain
    `Put x` goes to file 1 while the batch is open; `Batch.Delete base` is staged; `Batch.Put d`
    flushes `c, del base` to file 1 and rotates; `Commit` writes `d` and the sealing record to
    file 2; a last plain `Put y` follows. -/
def demoCfg : Cfg := { fileSize := 200, sync := 0, bps := 0, idx := 0, io := 0, shards := 1 }
def demoOps : List AOp :=
  [.put (K "base") (K "B"), .bnew false 77, .bput (K "a") (K "1"), .bput (K "b") (K "2"), .bput (K "c") (K "3"),
   .put (K "x") (K "X"), .bdel (K "base"), .bput (K "d") (K "4"), .bcommit, .put (K "y") (K "Y")]

theorem demoOps_ok : ∀ op ∈ demoOps, AOpOK op := by decide
theorem demoOps_fresh : FreshIds demoOps := by decide

/-- `C03_history_prefix` / `C04_history_atomic` are not vacuous: at every point `m` of the demo
    history and for every loss `n`, their hypotheses hold for the crash state `crashOf … n` -/
example (m n : Nat) (cfg' : Cfg) (hcfg' : cfg'.Valid) :
    ∃ s' db' j, openDB (crashOf (arun (openDB St.init "d" demoCfg).1 (demoOps.take m)) "d" n) "d" cfg' = (s', .ok) ∧
      s'.db = some db' ∧ j ≤ (unitsOf (openDB St.init "d" demoCfg).1 (demoOps.take m)).length ∧
      ∀ k, absGet s' db' k = specOfUnits ((unitsOf (openDB St.init "d" demoCfg).1 (demoOps.take m)).take j) k := by
  have hok : ∀ op ∈ demoOps.take m, AOpOK op := fun op h => demoOps_ok op (List.mem_of_mem_take h)
  have hfr : FreshIds (demoOps.take m) := by
    have e : bnewIds demoOps = bnewIds (demoOps.take m) ++ bnewIds (demoOps.drop m) := by
      conv => lhs; rw [← List.take_append_drop m demoOps]
      simp only [bnewIds, List.flatMap_append]
    have h1 := demoOps_fresh.1
    have h2 := demoOps_fresh.2
    rw [e] at h1 h2
    exact ⟨(List.nodup_append.mp h1).1, fun i hi => h2 i (List.mem_append_left _ hi)⟩
  obtain ⟨d, hcr⟩ := C03_history_applicable "d" demoCfg (by decide) (demoOps.take m) n
  obtain ⟨s', db', j, h1, h2, h3, h4, _⟩ := C03_history_prefix "d" demoCfg cfg' (by decide) hcfg'
    (demoOps.take m) hok (idsOK_of_freshIds "d" demoCfg (by decide) _ hok hfr) _ d _ hcr
  exact ⟨s', db', j, h1, h2, h3, h4⟩

/-- a history that leaves an uncommitted `Sync` batch with one staged record -/
def syncPre : List AOp := [.bnew true 5, .bput (K "a") (K "1")]

/-- `C04_history_sync_durable` is not vacuous: its hypotheses hold for `syncPre`, every loss `n` -/
example (n : Nat) (cfg' : Cfg) (hcfg' : cfg'.Valid) :
    ∃ s' db', openDB (crashOf (arun (openDB St.init "d" demoCfg).1 (syncPre ++ [.bcommit])) "d" n) "d" cfg' = (s', .ok) ∧
      s'.db = some db' ∧
      ∀ k, absGet s' db' k = specOfUnits (unitsOf (openDB St.init "d" demoCfg).1 (syncPre ++ [.bcommit])) k := by
  have hb : ∃ b, batchOf (arun (openDB St.init "d" demoCfg).1 syncPre) = some b ∧ b.sync = true ∧
      b.committed = false ∧ b.staged ≠ [] := by
    rw [openDB_fresh "d" demoCfg (by decide)]
    exact ⟨_, rfl, rfl, rfl, by decide⟩
  obtain ⟨b, hb1, hb2, hb3, hb4⟩ := hb
  have hok : ∀ op ∈ syncPre ++ [.bcommit], AOpOK op := by decide
  have hfr : FreshIds (syncPre ++ [.bcommit]) := by decide
  obtain ⟨d, hcr⟩ := C03_history_applicable "d" demoCfg (by decide) (syncPre ++ [.bcommit]) n
  exact (C04_history_sync_durable "d" demoCfg cfg' (by decide) hcfg' syncPre b hb1 hb2 hb3 hb4 hok
    (idsOK_of_freshIds "d" demoCfg (by decide) _ hok hfr) _ d _ hcr).2

/-- `C03_history_before_sync` is not vacuous: `Put a`, `Sync()`, then the whole demo history; for
    every loss `n` at least the one unit acknowledged before the `Sync()` survives -/
example (n : Nat) (cfg' : Cfg) (hcfg' : cfg'.Valid) :
    ∃ s' db' j, openDB (crashOf (arun (openDB St.init "d" demoCfg).1
        (([.put (K "a") (K "0")] ++ [.sync]) ++ demoOps)) "d" n) "d" cfg' = (s', .ok) ∧ s'.db = some db' ∧
      1 ≤ j := by
  have hok : ∀ op ∈ ([AOp.put (K "a") (K "0")] ++ [.sync]) ++ demoOps, AOpOK op := by decide
  have hfr : FreshIds (([AOp.put (K "a") (K "0")] ++ [.sync]) ++ demoOps) := by decide
  obtain ⟨d, hcr⟩ := C03_history_applicable "d" demoCfg (by decide)
    (([AOp.put (K "a") (K "0")] ++ [.sync]) ++ demoOps) n
  obtain ⟨s', db', j, h1, h2, h3, _⟩ := C03_history_before_sync "d" demoCfg cfg' (by decide) hcfg'
    [.put (K "a") (K "0")] demoOps hok (idsOK_of_freshIds "d" demoCfg (by decide) _ hok hfr) _ d _ hcr
  refine ⟨s', db', j, h1, h2, Nat.le_trans ?_ h3⟩
  have : unitsOf (openDB St.init "d" demoCfg).1 [.put (K "a") (K "0")] = [MUnit.put (K "a") (K "0")] := by
    rw [openDB_fresh "d" demoCfg (by decide)]
    rfl
  rw [this]
  exact Nat.le_refl _

/-- a second history, with a new batch id -/
def demoOps2 : List AOp :=
  [.put (K "z") (K "Z"), .bnew true 78, .bput (K "a") (K "9"), .bdel (K "x"), .bcommit, .del (K "z")]

theorem demoOps2_ok : ∀ op ∈ demoOps2, AOpOK op := by decide
theorem demoOps2_fresh : FreshIds demoOps2 := by decide

/-- the two demo epochs: the first history up to and including `Commit`, a crash that tears the
    sealing record (13 bytes lost), `Open`; the second history, a crash that loses `n` bytes, `Open` -/
def demoEpochs (n : Nat) : List Epoch :=
  [crashEpoch (openDB St.init "d" demoCfg).1 "d" (demoOps.take 9) 13 demoCfg,
   crashEpoch (openDB (crashOf (arun (openDB St.init "d" demoCfg).1 (demoOps.take 9)) "d" 13) "d" demoCfg).1
     "d" demoOps2 n demoCfg]

/-- `C03_history_epoch` / `C03_history_epochs` are not vacuous: the two demo epochs satisfy all
    hypotheses, for every loss `n` in the second crash -/
example (n : Nat) : ∃ U' cfg' used', Survives "d" (openDB St.init "d" demoCfg).1 [] (demoEpochs n) U' ∧
    Good (erun "d" (openDB St.init "d" demoCfg).1 (demoEpochs n)) "d" cfg' U' used' := by
  have hg0 := Good_fresh "d" demoCfg (by decide)
  have hok1 : ∀ op ∈ demoOps.take 9, AOpOK op := fun op h => demoOps_ok op (List.mem_of_mem_take h)
  have hfr1 : FreshIds (demoOps.take 9) := by decide
  have hids1 := idsOK_of_freshIds_good hg0 (demoOps.take 9) hok1 hfr1 (by intro i _; simp)
  obtain ⟨a1, a2⟩ := epoch_applicable hg0 (demoOps.take 9) 13 demoCfg
  obtain ⟨j, _, _, hg1, _, _, _⟩ := C03_history_epoch hg0 (demoOps.take 9) hok1 hids1 demoCfg (by decide) _ _ _ a1 a2
  have hids2 := idsOK_of_freshIds_good hg1 demoOps2 demoOps2_ok demoOps2_fresh (by decide)
  obtain ⟨b1, b2⟩ := epoch_applicable hg1 demoOps2 n demoCfg
  exact C03_history_epochs "d" (demoEpochs n) hg0
    ⟨hok1, hids1, (show demoCfg.Valid by decide), a1, a2, demoOps2_ok, hids2, (show demoCfg.Valid by decide),
      b1, b2, trivial⟩

/-! ## evaluated sanity checks (compiled evaluation by `#guard`; not used by any proof) -/

private def showU : MUnit → String
  | .put k v => s!"put {String.fromUTF8! k}={String.fromUTF8! v}"
  | .del k => s!"del {String.fromUTF8! k}"
  | .batch id ops =>
    s!"batch {id} {ops.map (fun o => s!"{if o.typ = 1 then "del" else "put"} {String.fromUTF8! o.key}={String.fromUTF8! o.value}")}"

/-- per data file `(id, size, flushed prefix)` and the active id -/
private def view (s : St) : Option (List (Nat × Nat × Nat) × Nat) :=
  match s.db with
  | some db => some ((dirOf s db).data.map (fun x => (x.1, x.2.bytes.size, x.2.synced)), db.activeId)
  | none => none

private def absOf (s : St) (k : ByteArray) : Option ByteArray :=
  match s.db with
  | some db => absGet s db k
  | none => none

private def demoKeys : List String := ["base", "a", "b", "c", "d", "x", "y", "z"]
private def dump (s : St) : List (String × String) :=
  demoKeys.filterMap fun k => (absOf s (K k)).map fun v => (k, String.fromUTF8! v)
private def dumpSpec (m : C01.Spec) : List (String × String) :=
  demoKeys.filterMap fun k => (m (K k)).map fun v => (k, String.fromUTF8! v)
private def cfg2 : Cfg := { fileSize := 50, sync := 1, bps := 0, idx := 2, io := 1, shards := 16 }
private def demoAt (m : Nat) : St := arun (openDB St.init "d" demoCfg).1 (demoOps.take m)
private def demoUnits (m : Nat) : List MUnit := unitsOf (openDB St.init "d" demoCfg).1 (demoOps.take m)
/-- the mapping `Open` exposes after a crash at point `m` of the history that loses `n` bytes -/
private def recovered (m n : Nat) : List (String × String) := dump (openDB (crashOf (demoAt m) "d" n) "d" cfg2).1

-- the units of the whole history: the batch is ONE unit, in staging order, acknowledged after `x`
#guard (demoUnits 10).map showU
  = ["put base=B", "put x=X", "batch 77 [put a=1, put b=2, put c=3, del base=, put d=4]", "put y=Y"]
#guard (IdsOK (openDB St.init "d" demoCfg).1 h0 demoOps : Bool)
-- the files after `Commit` (point 9) and at the end: two pieces are flushed AND synced by the
-- rotations, the last piece + sealing record (26 bytes) and `y` (13 bytes) are not
#guard view (demoAt 9) == some ([(0, 42, 42), (1, 41, 41), (2, 26, 0)], 2)
#guard view (demoAt 10) == some ([(0, 42, 42), (1, 41, 41), (2, 39, 0)], 2)
-- crash right after `Commit` returned: nothing lost ⇒ all three units (j = 3) …
#guard recovered 9 0 == [("a", "1"), ("b", "2"), ("c", "3"), ("d", "4"), ("x", "X")]
#guard recovered 9 0 == dumpSpec (specOfUnits ((demoUnits 9).take 3))
-- … a cut INSIDE the batch's last piece (1 … 26 bytes lost: the sealing record or also `d` is torn)
-- ⇒ NONE of the batch, although two pieces of it are intact on disk: j = 2
#guard [1, 12, 13, 14, 25, 26, 1000].all fun n => recovered 9 n == [("base", "B"), ("x", "X")]
#guard recovered 9 13 == dumpSpec (specOfUnits ((demoUnits 9).take 2))
-- crash at the end: j = 4 (nothing lost), j = 3 (`y` torn), j = 2 (the cut reaches the sealing record)
#guard recovered 10 0 == [("a", "1"), ("b", "2"), ("c", "3"), ("d", "4"), ("x", "X"), ("y", "Y")]
#guard recovered 10 0 == dumpSpec (specOfUnits (demoUnits 10))
#guard [1, 12, 13].all fun n => recovered 10 n == dumpSpec (specOfUnits ((demoUnits 10).take 3))
#guard [14, 26, 27, 39, 1000].all fun n => recovered 10 n == dumpSpec (specOfUnits ((demoUnits 10).take 2))
-- process death while the batch is open and partly flushed (point 8: `a, b, c, del base` are in
-- the files and in the LIVE index): nothing lost, yet the recovered mapping shows nothing of it
#guard dump (demoAt 8) == [("a", "1"), ("b", "2"), ("c", "3"), ("x", "X")]
#guard recovered 8 0 == [("base", "B"), ("x", "X")]
#guard recovered 8 0 == dumpSpec (specOfUnits (demoUnits 8))
-- a batch id may be reused after its batch was committed, not after it was abandoned half-flushed
#guard (IdsOK (openDB St.init "d" demoCfg).1 h0
  [.bnew false 5, .bput (K "a") (K "1"), .bcommit, .bnew false 5, .bput (K "b") (K "2"), .bcommit] : Bool)
#guard !(IdsOK (openDB St.init "d" demoCfg).1 h0
  (demoOps.take 6 ++ [.bdrop, .bnew false 77]) : Bool)

-- what was flushed stays: `a` is acknowledged before `Sync()`, `b` and `c` after it (policy No):
-- whatever is lost later, `a` survives
#guard [0, 5, 13, 14, 26, 1000].map (fun n =>
    dump (openDB (crashOf (arun (openDB St.init "d" demoCfg).1
      [.put (K "a") (K "1"), .sync, .put (K "b") (K "2"), .put (K "c") (K "3")]) "d" n) "d" cfg2).1)
  == [[("a", "1"), ("b", "2"), ("c", "3")], [("a", "1"), ("b", "2")], [("a", "1"), ("b", "2")],
      [("a", "1")], [("a", "1")], [("a", "1")]]
-- two epochs: the first crash tears the sealing record of batch 77 (its two synced pieces stay on
-- disk as orphans), the second history commits a Sync batch 78 and deletes `z`
#guard dump (erun "d" (openDB St.init "d" demoCfg).1 (demoEpochs 0)) == [("base", "B"), ("a", "9")]
-- … the tombstone of `z` (13 bytes) is not flushed, batch 78 is: after a loss of up to 13 bytes
#guard [1, 13].all fun n =>
  dump (erun "d" (openDB St.init "d" demoCfg).1 (demoEpochs n)) == [("base", "B"), ("a", "9"), ("z", "Z")]
-- … and nothing more can be lost, whatever the crash (the Sync batch flushed everything before it)
#guard dump (erun "d" (openDB St.init "d" demoCfg).1 (demoEpochs 1000)) == [("base", "B"), ("a", "9"), ("z", "Z")]
-- the orphaned pieces of batch 77 make its id unusable in the second epoch
#guard !(IdsOK (openDB (crashOf (demoAt 9) "d" 13) "d" demoCfg).1 ⟨[], [], [77]⟩ [.bnew false 77] : Bool)
-- a clean restart with a batch open and partly flushed (point 8): all units, nothing of the batch
#guard dump (openDB (close (demoAt 8)).1 "d" cfg2).1 == [("base", "B"), ("x", "X")]

/-! ## axioms -/

/--
info: 'XixiKV.C03H.C03_history_prefix' depends on axioms: [propext, Classical.choice, Quot.sound]
-/
#guard_msgs in #print axioms C03_history_prefix
/--
info: 'XixiKV.C03H.C03_history_prefix_from' depends on axioms: [propext, Classical.choice, Quot.sound]
-/
#guard_msgs in #print axioms C03_history_prefix_from
/--
info: 'XixiKV.C03H.C04_history_atomic' depends on axioms: [propext, Classical.choice, Quot.sound]
-/
#guard_msgs in #print axioms C04_history_atomic
/--
info: 'XixiKV.C03H.C04_history_sync_durable' depends on axioms: [propext, Classical.choice, Quot.sound]
-/
#guard_msgs in #print axioms C04_history_sync_durable
/--
info: 'XixiKV.C03H.C03_history_epochs' depends on axioms: [propext, Classical.choice, Quot.sound]
-/
#guard_msgs in #print axioms C03_history_epochs
/--
info: 'XixiKV.C03H.C03_history_clean_restart' depends on axioms: [propext, Classical.choice, Quot.sound]
-/
#guard_msgs in #print axioms C03_history_clean_restart
/--
info: 'XixiKV.C03H.C03_history_before_sync' depends on axioms: [propext, Classical.choice, Quot.sound]
-/
#guard_msgs in #print axioms C03_history_before_sync
/--
info: 'XixiKV.C03H.C03_history_restart' depends on axioms: [propext, Classical.choice, Quot.sound]
-/
#guard_msgs in #print axioms C03_history_restart

end XixiKV.C03H
