import XixiKV.Proofs.EngineMerge.Out
import XixiKV.Properties.C07
import XixiKV.Proofs.TransEq2Codec
/-!
# C18 — hint files faithfully index the merged data files

"Every entry of a hint file names a key and a location at which the merged data files hold a live
record with exactly that key, and the hinted keys are exactly the keys stored in the merged files.
Opening through the hint therefore yields the same index - same keys, same values, same sizes - as
scanning those data files record by record."

`gm` is the ghost content of the merged (rewritten) data files, `hintBytes gm` the hint file
`Merge` writes for them (`Proofs/EngineMerge`: one framed `encodeHint key newPos` per rewritten
record, in rewrite order).  `MergeOutW` is what a successful `Merge` establishes
(`C06_merge_establishes`); `MergeOutW.merged` derives the hypothesis `Merged gm` from it.
`HintFits` is the size side condition of the format itself: `DataPos` and the hint codec store
`uint32` fields (file id, block, in-block offset, size).
-/
namespace XixiKV.C18
open XixiKV XixiKV.Frame XixiKV.Record XixiKV.Index XixiKV.Engine XixiKV.Engine.Restart XixiKV.Engine.MergeP

/-- **C18.**  Let the data files `data` be byte for byte the merged ghost files `gm` (ascending
    ids; valid, plain, non-tombstone records; at most one record per key) and let all positions fit
    `uint32`.  Then

    1. the hint file scans without error and decodes, entry by entry and in order, to exactly
       `(key, position)` of the records of the merged files — for ALL key bytes (the codec
       round-trip `decodeHint_encodeHint` has no condition on the key);
    2. the hinted keys are pairwise distinct, and they are exactly the keys stored in the files;
    3. every hinted position reads back (`readAt`, the position-based read used by `Get`) the
       encoding of a plain (batch id 0), non-tombstone record with exactly that key, which decodes;
    4. the sequential reader (strict or tolerating a torn tail) reports, for every merged file,
       the same positions — block, offset AND size (the bytes the record occupies, headers
       included) — that the hint stores;
    5. hence `loadIndexFromHintFile` from the empty state yields the same replay state — same
       keys, same positions and sizes, same `total`, `reclaim = 0` — as `loadIndexFromDataFiles`
       scanning the merged files record by record (`indexFromHint = indexFromScan`), and the
       reported largest file id is the id of the last file that holds a record. -/
theorem C18_hint (gm : GDir) (data : List (Nat × FileSt)) (hmt : Matches data gm) (hasc : AscIds gm)
    (hM : Merged gm) (hF : HintFits gm) :
    -- 1
    ((scan C false 0 (hintBytes gm)).ok = true ∧
     (scan C false 0 (hintBytes gm)).recs.map (fun (x : ByteArray × Pos) => decodeHint x.1)
       = (logOf gm).map (fun x => some (x.1.key, x.2))) ∧
    -- 2
    ((logOf gm).map (fun x => x.1.key)).Nodup ∧
    -- 3
    (∀ x ∈ logOf gm, ∃ f, getFile data x.2.fid = some f ∧
        readAt C f.bytes x.2.block x.2.off = .ok (encodeRecord x.1) ∧
        decodeRecord (encodeRecord x.1) = some x.1 ∧ x.1.batch = 0 ∧ x.1.typ ≠ 1) ∧
    -- 4
    (∀ y ∈ gm, ∃ f, getFile data y.1 = some f ∧
        ∀ tol, scan C tol y.1 f.bytes
          = { recs := (payloads y.2).zip (possOf y.1 y.2), validEnd := f.bytes.size, ok := true }) ∧
    -- 5
    (∃ maxFid, loadHint Replay.init (hintBytes gm) = some (replayLog (logOf gm), maxFid) ∧
        loadIndex Replay.init 0 data = some (replayLog (logOf gm), data) ∧
        (replayLog (logOf gm)).reclaim = 0 ∧ (replayLog (logOf gm)).pending = [] ∧
        (replayLog (logOf gm)).total = liveBytes (replayLog (logOf gm)).index ∧
        (∀ x ∈ logOf gm, x.2.fid ≤ maxFid) ∧ (maxFid = 0 ∨ ∃ x ∈ logOf gm, x.2.fid = maxFid)) := by
  refine ⟨⟨by rw [scan_hint], decode_hint gm hF⟩, ?_, ?_, ?_, ?_⟩
  · rw [List.nodup_iff_pairwise_ne, List.pairwise_map]
    exact hM.distinct
  · intro x hx
    obtain ⟨r, p⟩ := x
    obtain ⟨y, hy, hz⟩ := mem_logOf.mp hx
    obtain ⟨hread, hfid⟩ := readAt_ghost y.1 y.2 r p hz
    obtain ⟨f, hf, hb⟩ := Matches_getFile hmt hasc (show (y.1, y.2) ∈ gm from hy)
    refine ⟨f, by rw [hfid]; exact hf, by rw [hb]; exact hread, ?_, (hM.plain _ hx).1, (hM.plain _ hx).2⟩
    exact (hM.recs y hy r (List.of_mem_zip hz).1).decode
  · intro y hy
    obtain ⟨f, hf, hb⟩ := Matches_getFile hmt hasc (show (y.1, y.2) ∈ gm from hy)
    refine ⟨f, hf, fun tol => ?_⟩
    rw [hb]
    exact scan_build C tol y.1 (payloads y.2) (payloads_pos y.2)
  · obtain ⟨maxFid, h1, h2, h3⟩ := loadHint_eq_replay gm hM hF
    have hcnt := replay_counters (logOf gm)
    have hr : (replayLog (logOf gm)).reclaim = 0 ∧ (replayLog (logOf gm)).pending = [] := by
      rw [replayLog_eq, replayFrom_fresh (logOf gm) Replay.init 0 hM.plain hM.distinct (fun _ _ => rfl)]
      have : ∀ (l : List (Record × Pos)) (acc : Replay × Nat),
          (hintFold acc l).1.reclaim = acc.1.reclaim ∧ (hintFold acc l).1.pending = acc.1.pending := by
        intro l
        induction l with
        | nil => intro acc; exact ⟨rfl, rfl⟩
        | cons y t ih =>
          intro acc
          simp only [hintFold, List.foldl_cons] at ih ⊢
          exact ih _
      exact this _ _
    refine ⟨maxFid, h1, loadIndex_ghost_init data gm hmt hM.recs, hr.1, hr.2, ?_, h2, h3⟩
    rw [hcnt, hr.1, Nat.zero_add]

/-- the ids `0 … count-1` ascend -/
theorem asc_of_range {gm : GDir} (h : gm.map (·.1) = List.range gm.length) : AscIds gm := by
  have : (gm.map (·.1)).Pairwise (· < ·) := by rw [h]; exact List.pairwise_lt_range
  exact List.pairwise_map.mp this

/-- **C18 for the output of `Merge`**: whenever the merge directory is what a successful `Merge`
    leaves behind (`MergeOutW`, established by `C06_merge_establishes` and stable under later
    `Put/Delete/Sync`), its hint file and its data files are related as in `C18_hint`. -/
theorem C18_hint_mergeOut (w : World) (dir : String) (g : GDir) (n : Nat) (gm vis : GDir)
    (h : MergeOutW w dir g n gm vis) (hasc : AscIds g) (hrecs : ∀ x ∈ g, ∀ r ∈ x.2, RecOK r) (hF : HintFits gm) :
    ∃ md, w.get (mergeDirName dir) = some md ∧ md.hint = some (hintBytes gm) ∧ Matches md.data gm ∧
      Merged gm ∧ AscIds gm ∧
      ∃ maxFid, loadHint Replay.init (hintBytes gm) = some (replayLog (logOf gm), maxFid) ∧
        loadIndex Replay.init 0 md.data = some (replayLog (logOf gm), md.data) := by
  obtain ⟨md, h1, h2, h3, _⟩ := h.mdir
  have hM := (h.merged hasc hrecs).1
  have ha := asc_of_range h.ids
  obtain ⟨_, _, _, _, maxFid, h5, h6, _⟩ := C18_hint gm md.data h2 ha hM hF
  exact ⟨md, h1, h3, h2, hM, ha, maxFid, h5, h6⟩

/-- **C18 at the level of `Open`: the hint path and the scan path build the same index.**  Same
    hypotheses as `C07_crash_safe`.  Take ANY two crash histories of the adoption, `ks₁` and `ks₂` —
    in particular `ks₁ = []` (uninterrupted: `Open` adopts and reads the hint file) and
    `ks₂ = [number of steps − 1]` (the previous `Open` died after removing the marker: this `Open`
    returns `nonMergeFileId = 0` and scans every file record by record).  Both `Open`s succeed and
    their handles have the same index — same keys, same positions, same sizes —, the same
    `total − reclaim` (= live bytes), and map every key to the same value. -/
theorem C18_open_paths (s : St) (db : DB) (g : GDir) (n : Nat) (gm vis : GDir) (cfg₁ cfg₂ : Cfg) (ks₁ ks₂ : List Nat)
    (hdb : s.db = some db) (hinv : Inv s db g) (hmo : MergeOutW s.world db.dir g n gm vis)
    (hF : HintFits gm) (h₁ : cfg₁.Valid) (h₂ : cfg₂.Valid) :
    ∃ s₁ db₁ s₂ db₂,
      openDB ⟨C07.crashes (close s).1.world db.dir ks₁, none⟩ db.dir cfg₁ = (s₁, .ok) ∧ s₁.db = some db₁ ∧
      openDB ⟨C07.crashes (close s).1.world db.dir ks₂, none⟩ db.dir cfg₂ = (s₂, .ok) ∧ s₂.db = some db₂ ∧
      db₁.index = db₂.index ∧ db₁.total - db₁.reclaim = db₂.total - db₂.reclaim ∧
      (∀ k, absGet s₁ db₁ k = absGet s₂ db₂ k) ∧ s₁.world.get db.dir = s₂.world.get db.dir := by
  obtain ⟨s₁, db₁, d, md, hd, hmd, o1, e1, _, _, _, a1, i1, w1, _⟩ :=
    C07.C07_crash_safe s db g n gm vis cfg₁ ks₁ hdb hinv hmo hF h₁
  obtain ⟨s₂, db₂, d', md', hd', hmd', o2, e2, _, _, _, a2, i2, w2, _⟩ :=
    C07.C07_crash_safe s db g n gm vis cfg₂ ks₂ hdb hinv hmo hF h₂
  rw [hd] at hd'; cases hd'
  rw [hmd] at hmd'; cases hmd'
  refine ⟨s₁, db₁, s₂, db₂, o1, e1, o2, e2, by rw [i1.index, i2.index], ?_, fun k => by rw [a1 k, a2 k], by rw [w1, w2]⟩
  have c1 := i1.counters
  have c2 := i2.counters
  have : db₁.index = db₂.index := by rw [i1.index, i2.index]
  rw [c1, c2, this]; omega


/-! ## non-vacuity: two merged files, three keys (one with bytes ≥ 0x80, one that is itself a
    valid varint sequence) -/

def exGm : GDir :=
  [(0, [{ typ := 0, key := ⟨#[0x80, 0xff]⟩, value := "v1".toUTF8, batch := 0 },
        { typ := 0, key := ⟨#[0x01, 0x02, 0x03, 0x04]⟩, value := ByteArray.empty, batch := 0 }]),
   (1, [{ typ := 0, key := "k3".toUTF8, value := "v3".toUTF8, batch := 0 }])]

def exData : List (Nat × FileSt) := exGm.map (fun x => (x.1, ⟨bytesOf x.2, 0⟩))

def ixList (r : Replay) : List (List UInt8 × Pos) := r.index.map (fun x => (x.1.data.toList, x.2))

-- hypotheses (executable forms)
#guard (logOf exGm).all (fun x => x.1.batch == 0 && x.1.typ != 1)
#guard ((logOf exGm).map (fun x => x.1.key.data.toList)).Nodup
#guard (logOf exGm).all (fun x => x.2.fid < 2^32 && x.2.block < 2^32 && x.2.off < 2^32 && x.2.size < 2^32)
-- conclusions, evaluated
#guard (scan C false 0 (hintBytes exGm)).ok
#guard ((scan C false 0 (hintBytes exGm)).recs.map (fun x => (decodeHint x.1).map (fun y => (y.1.data.toList, y.2))))
    == (logOf exGm).map (fun x => some (x.1.key.data.toList, x.2))
#guard (match loadHint Replay.init (hintBytes exGm), loadIndex Replay.init 0 exData with
  | some (rh, m), some (rs, _) => ixList rh == ixList rs && rh.total == rs.total && rh.reclaim == rs.reclaim && m == 1
      && rh.index.length == 3
  | _, _ => false)
#guard (logOf exGm).all (fun x => match getFile exData x.2.fid with
  | some f => (match readAt C f.bytes x.2.block x.2.off with
    | .ok d => (decodeRecord d).map (fun r => (r.key.data.toList, r.batch)) == some (x.1.key.data.toList, 0)
    | _ => false)
  | none => false)

example : Matches exData exGm := by simp [exData, exGm, Matches]
example : AscIds exGm := by simp [exGm, AscIds]

-- `Open` through the hint (k = 0) and by scan (k = 5: marker already removed) on the history of C06
#guard (match (openDB ⟨Adopt.applyPrefix C07.closedW "d" 0, none⟩ "d" C06.exCfg).1.db,
              (openDB ⟨Adopt.applyPrefix C07.closedW "d" 5, none⟩ "d" C06.exCfg).1.db with
  | some a, some b => a.index.map (fun x => (x.1.data.toList, x.2)) == b.index.map (fun x => (x.1.data.toList, x.2))
      && a.total - a.reclaim == b.total - b.reclaim && a.index.length == 3 && a.reclaim > b.reclaim
  | _, _ => false)

/-- the hint codec as it stands in /repo (translated on every run, `Generated/Trans.lean`):
    `EncodeHintRecord` = the model's `encodeHint` for positions < 2³² (the hypothesis `HintFits` of
    the theorems above), and `DecodeHintRecord` returns what the model decodes whenever it decodes. -/
theorem C18_translated_hint_codec :
    (∀ (key : ByteArray) (p : Pos) (hintPos : ByteArray), p.fid < 2^32 → p.block < 2^32 → p.off < 2^32 → p.size < 2^32 →
        20 ≤ hintPos.size →
        Generated.Trans.datafile.EncodeHintRecord key (TransEq.goPos p) hintPos = encodeHint key p) ∧
    (∀ (buf key : ByteArray) (p : Pos), decodeHint buf = some (key, p) →
        Generated.Trans.datafile.DecodeHintRecord buf = (key, TransEq.goPos p)) :=
  ⟨fun key p hp h1 h2 h3 h4 hf => TransEq.trans_EncodeHintRecord_eq25 key p hp h1 h2 h3 h4 hf,
   fun buf key p h => TransEq.trans_DecodeHintRecord_eq buf key p h⟩

end XixiKV.C18

