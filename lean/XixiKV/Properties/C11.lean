import XixiKV.Proofs.Frame
import XixiKV.Proofs.Chunk
import XixiKV.Proofs.Record
import XixiKV.Proofs.Fio
/-!
# C11 — block/chunk framing round-trips every record at every offset

All statements are about the concrete model (`Chunk.crcCodec`: real CRC-32, real header layout)
of `datafile/data_file.go` + `datafile/log_record.go`, for **every** file `f` (any size, hence any
in-block start offset 0..32767 — not only files the writer produced), **every** non-empty payload
(any number of blocks) and **every** continuation `post` of the file.  The sequential-reader
statements hold for **both** kinds of reader: `tol = true` (the reader of the active file, which
tolerates a torn tail) and `tol = false` (every other reader: older files, merge, hint file).

Not covered by a theorem (said here so it is not silently missing): "both I/O back-ends store
identical bytes" — the model has one logical byte string per file for both back-ends; that the two
Go implementations realise it is established by the differential runs (FileIO vs MMap byte sums)
in the C11 check, not by proof.
-/
namespace XixiKV.C11
open XixiKV XixiKV.Frame XixiKV.Record

abbrev C : Codec := Chunk.crcCodec

/-- random read-back: the position `writeSingle` reports resolves to the payload, and keeps doing
    so whatever is appended afterwards -/
theorem C11_readAt (f d post : ByteArray) (fid : Nat) (hd : 0 < d.size) :
    readAt C (appendRec C f d ++ post) (posOf C fid f.size d).block (posOf C fid f.size d).off = .ok d :=
  readAt_write C d f post fid hd

/-- sequential read-back of one record through the writer's padding rule, with the size the
    writer reported and an end position equal to the new file size -/
theorem C11_next (tol : Bool) (f d post : ByteArray) (hd : 0 < d.size) :
    ∃ b' o', nextAt C tol (appendRec C f d ++ post) (endB f) (endO f) ((appendRec C f d ++ post).size + 1)
        = .ok (d, (posOf C 0 f.size d).size, b', o') ∧
      b' * BS + o' = (appendRec C f d).size ∧ 0 < o' ∧ o' ≤ BS :=
  nextAt_write C tol d f post _ hd (by
    have := size_appendRec_gt C f d hd
    rw [ByteArray.size_append]; omega)

/-- whole-file scan: any sequence of non-empty records appended to the empty file is read back in
    order, byte-identical, with exactly the positions reported at write time, then EOF; the
    reader's valid end is the file size -/
theorem C11_scan (tol : Bool) (fid : Nat) (ds : List ByteArray) (hpos : ∀ d ∈ ds, 0 < d.size) :
    scan C tol fid (appendAll C ByteArray.empty ds)
      = { recs := ds.zip (posAll C fid ByteArray.empty ds),
          validEnd := (appendAll C ByteArray.empty ds).size, ok := true } :=
  scan_build C tol fid ds hpos

/-- the reader reports end of file at the end of **every** file, wherever it falls in a block
    (the pinned reader ran past EOF for end offsets 32761..32767) -/
theorem C11_eof_everywhere (tol : Bool) (f : ByteArray) (fuel : Nat) :
    nextAt C tol f (endB f) (endO f) (fuel + 1) = .eof :=
  nextAt_end C tol f fuel

/-- a multi-record flush (`writeAll`, one write call) stores the bytes of the same records written
    one by one (`writeSingle`), and reports the same positions -/
theorem C11_flush (f : ByteArray) (ds : List ByteArray) (fid : Nat) :
    appendAll C f ds = ds.foldl (appendRec C) f ∧
    (∀ d rest, posAll C fid f (d :: rest) = posOf C fid f.size d :: posAll C fid (appendRec C f d) rest) :=
  ⟨rfl, fun _ _ => rfl⟩

/-- the size reported for a record is its payload plus one 7-byte header per chunk, and the file
    grows by exactly padding + that size (logical size = bytes written) -/
theorem C11_size (f d : ByteArray) (fid : Nat) (hd : 0 < d.size) :
    ∃ n, 0 < n ∧ (posOf C fid f.size d).size = n * 7 + d.size ∧
      (appendRec C f d).size = f.size + padOf (f.size % BS) + (posOf C fid f.size d).size ∧
      padOf (f.size % BS) ≤ 7 := by
  have hm := mod_lt_BS f.size
  obtain ⟨n, hn, hsz⟩ := size_recChunks C d (normO (f.size % BS)) hd (normO_lt _ hm)
  refine ⟨n, hn, ?_, ?_, ?_⟩
  · simp only [posOf]; rw [if_neg (by omega), hsz]; rfl
  · unfold appendRec
    rw [writeRec_pos C d _ hd]
    simp only [posOf, ByteArray.size_append, size_zeros]
    rw [if_neg (by omega)]; omega
  · have hH := hH; have hBS := hBS
    unfold padOf; split <;> omega

/-- positions, sizes and the new file size are a pure function `geom` of (file size, payload
    length) — data independent — which is what the exhaustive geometry sweep compares with the
    code's `writeToBuf` for all 32768 start offsets -/
theorem C11_geometry (fid : Nat) (f d : ByteArray) :
    (posOf C fid f.size d) = { fid := fid, block := (geom f.size d.size).1, off := (geom f.size d.size).2.1,
                               size := (geom f.size d.size).2.2.1 } ∧
    (appendRec C f d).size = (geom f.size d.size).2.2.2 :=
  posOf_geom C fid f d

/-- record codec round trip (nil/empty normalised as Go does) -/
theorem C11_codec_record (r : Record) (ht : r.typ < 256) (hk : r.key.size < 2 ^ 31)
    (hv : r.value.size < 2 ^ 31) (hb : r.batch < 2 ^ 64) :
    decodeRecord (encodeRecord r) = some r ∧ decodeValue (encodeRecord r) = some r.value ∧
    4 ≤ (encodeRecord r).size :=
  ⟨decodeRecord_encodeRecord r ht hk hv hb, decodeValue_encodeRecord r ht hk hv hb, encodeRecord_size_ge r⟩

/-- hint codec round trip for all key bytes (bytes ≥ 0x80, keys that look like varints, …) -/
theorem C11_codec_hint (key : ByteArray) (p : Pos) (h1 : p.fid < 2 ^ 32) (h2 : p.block < 2 ^ 32)
    (h3 : p.off < 2 ^ 32) (h4 : p.size < 2 ^ 32) :
    decodeHint (encodeHint key p) = some (key, p) :=
  decodeHint_encodeHint key p h1 h2 h3 h4

/-- varint round trips -/
theorem C11_codec_varint (n : Nat) (rest : List UInt8) (h : n < 2 ^ 64) :
    Varint.uvarint (Varint.putUvarint n ++ rest) = some (n, (Varint.putUvarint n).length) :=
  Varint.uvarint_putUvarint n rest h

/-! ## "both I/O back-ends store identical bytes", at the level of `fio.ReadWriter`

`Model/Fio.lean` models the OS file under the two back-ends (`FileIO`: `O_APPEND` writes, `ReadAt`;
`MMap`: a block-granular mapping over a file that is physically extended with zeros, logical size
`virtualSize`).  The engine model above works on the logical bytes only; these theorems are what
justifies that for the mmap back-end. -/

/-- For every initial file and every sequence of `Write/Read/Sync/Size/Truncate(n ≤ size)/
    ResetFileSize` calls: both back-ends deliver the same bytes, sizes and write counts call by call,
    while open the first `virtualSize` bytes of the mmap file are the `FileIO` file and the rest is
    zeros, and after `Close` the two files are byte-identical with physical = logical size. -/
theorem C11_backends_identical (B : Nat) (hB : 0 < B) (file : Fio.OsFile) (ops : List Fio.Op)
    (hok : Fio.OpsOk (Fio.FileIO.open file) ops) :
    (let f := Fio.runWith Fio.FileIO.apply (Fio.FileIO.open file) ops
     let m := Fio.runWith (Fio.MMap.apply B) (Fio.MMap.open B file) ops
     m.2.map Fio.Res.obs = f.2.map Fio.Res.obs ∧
     m.1.os.bytes.extract 0 m.1.virt = f.1.os.bytes ∧
     m.1.os.bytes.extract m.1.virt m.1.os.bytes.size = zeros (m.1.os.bytes.size - m.1.virt)) ∧
    (Fio.MMap.run B file ops).2.map Fio.Res.obs = (Fio.FileIO.run file ops).2.map Fio.Res.obs ∧
    (Fio.MMap.run B file ops).1.os.bytes = (Fio.FileIO.run file ops).1.os.bytes ∧
    (Fio.MMap.run B file ops).1.os.bytes.size = (Fio.MMap.run B file ops).1.virt :=
  Fio.Fio_backends_agree B hB file ops hok

/-- no call sequence on an `MMap` handle touches memory outside the mapping or beyond the physical
    end of the file (slice-bounds panic / SIGBUS / lost store) -/
theorem C11_mmap_never_faults (B : Nat) (hB : 0 < B) (f : Fio.OsFile) (ops : List Fio.Op) :
    Fio.Res.fault ∉ (Fio.MMap.run B f ops).2 :=
  Fio.Fio_no_fault B hB f ops

end XixiKV.C11
