import XixiKV.Proofs.Frame
import XixiKV.Proofs.Chunk
import XixiKV.Proofs.Record
import XixiKV.Proofs.Fio
import XixiKV.Proofs.TransEq
import XixiKV.Proofs.TransEq2
import XixiKV.Proofs.TransEq3
/-!
# C11 — block/chunk framing round-trips every record at every offset

All statements are about the concrete model (`Chunk.crcCodec`: real CRC-32, real header layout)
of `datafile/data_file.go` + `datafile/log_record.go`, for **every** file `f` (any size, hence any
in-block start offset 0..32767 — not only files the writer produced), **every** non-empty payload
(any number of blocks) and **every** continuation `post` of the file.  The sequential-reader
statements hold for **both** kinds of reader: `tol = true` (the reader of the active file, which
tolerates a torn tail) and `tol = false` (every other reader: older files, merge, hint file).

Not covered by a theorem (said here so it is not silently missing): "both I/O back-ends store
identical bytes" — the model has one logical byte string per file for both back-ends; that the two
Go implementations realise it is established by the differential runs (FileIO vs MMap byte sums)
in the C11 check, not by proof.
-/
namespace XixiKV.C11
open XixiKV XixiKV.Frame XixiKV.Record

abbrev C : Codec := Chunk.crcCodec

/-- random read-back: the position `writeSingle` reports resolves to the payload, and keeps doing
    so whatever is appended afterwards -/
theorem C11_readAt (f d post : ByteArray) (fid : Nat) (hd : 0 < d.size) :
    readAt C (appendRec C f d ++ post) (posOf C fid f.size d).block (posOf C fid f.size d).off = .ok d :=
  readAt_write C d f post fid hd

/-- sequential read-back of one record through the writer's padding rule, with the size the
    writer reported and an end position equal to the new file size -/
theorem C11_next (tol : Bool) (f d post : ByteArray) (hd : 0 < d.size) :
    ∃ b' o', nextAt C tol (appendRec C f d ++ post) (endB f) (endO f) ((appendRec C f d ++ post).size + 1)
        = .ok (d, (posOf C 0 f.size d).size, b', o') ∧
      b' * BS + o' = (appendRec C f d).size ∧ 0 < o' ∧ o' ≤ BS :=
  nextAt_write C tol d f post _ hd (by
    have := size_appendRec_gt C f d hd
    rw [ByteArray.size_append]; omega)

/-- whole-file scan: any sequence of non-empty records appended to the empty file is read back in
    order, byte-identical, with exactly the positions reported at write time, then EOF; the
    reader's valid end is the file size -/
theorem C11_scan (tol : Bool) (fid : Nat) (ds : List ByteArray) (hpos : ∀ d ∈ ds, 0 < d.size) :
    scan C tol fid (appendAll C ByteArray.empty ds)
      = { recs := ds.zip (posAll C fid ByteArray.empty ds),
          validEnd := (appendAll C ByteArray.empty ds).size, ok := true } :=
  scan_build C tol fid ds hpos

/-- the reader reports end of file at the end of **every** file, wherever it falls in a block
    (the pinned reader ran past EOF for end offsets 32761..32767) -/
theorem C11_eof_everywhere (tol : Bool) (f : ByteArray) (fuel : Nat) :
    nextAt C tol f (endB f) (endO f) (fuel + 1) = .eof :=
  nextAt_end C tol f fuel

/-- a multi-record flush (`writeAll`, one write call) stores the bytes of the same records written
    one by one (`writeSingle`), and reports the same positions -/
theorem C11_flush (f : ByteArray) (ds : List ByteArray) (fid : Nat) :
    appendAll C f ds = ds.foldl (appendRec C) f ∧
    (∀ d rest, posAll C fid f (d :: rest) = posOf C fid f.size d :: posAll C fid (appendRec C f d) rest) :=
  ⟨rfl, fun _ _ => rfl⟩

/-- the size reported for a record is its payload plus one 7-byte header per chunk, and the file
    grows by exactly padding + that size (logical size = bytes written) -/
theorem C11_size (f d : ByteArray) (fid : Nat) (hd : 0 < d.size) :
    ∃ n, 0 < n ∧ (posOf C fid f.size d).size = n * 7 + d.size ∧
      (appendRec C f d).size = f.size + padOf (f.size % BS) + (posOf C fid f.size d).size ∧
      padOf (f.size % BS) ≤ 7 := by
  have hm := mod_lt_BS f.size
  obtain ⟨n, hn, hsz⟩ := size_recChunks C d (normO (f.size % BS)) hd (normO_lt _ hm)
  refine ⟨n, hn, ?_, ?_, ?_⟩
  · simp only [posOf]; rw [if_neg (by omega), hsz]; rfl
  · unfold appendRec
    rw [writeRec_pos C d _ hd]
    simp only [posOf, ByteArray.size_append, size_zeros]
    rw [if_neg (by omega)]; omega
  · have hH := hH; have hBS := hBS
    unfold padOf; split <;> omega

/-- positions, sizes and the new file size are a pure function `geom` of (file size, payload
    length) — data independent — which is what the exhaustive geometry sweep compares with the
    code's `writeToBuf` for all 32768 start offsets -/
theorem C11_geometry (fid : Nat) (f d : ByteArray) :
    (posOf C fid f.size d) = { fid := fid, block := (geom f.size d.size).1, off := (geom f.size d.size).2.1,
                               size := (geom f.size d.size).2.2.1 } ∧
    (appendRec C f d).size = (geom f.size d.size).2.2.2 :=
  posOf_geom C fid f d

/-- record codec round trip (nil/empty normalised as Go does) -/
theorem C11_codec_record (r : Record) (ht : r.typ < 256) (hk : r.key.size < 2 ^ 31)
    (hv : r.value.size < 2 ^ 31) (hb : r.batch < 2 ^ 64) :
    decodeRecord (encodeRecord r) = some r ∧ decodeValue (encodeRecord r) = some r.value ∧
    4 ≤ (encodeRecord r).size :=
  ⟨decodeRecord_encodeRecord r ht hk hv hb, decodeValue_encodeRecord r ht hk hv hb, encodeRecord_size_ge r⟩

/-- hint codec round trip for all key bytes (bytes ≥ 0x80, keys that look like varints, …) -/
theorem C11_codec_hint (key : ByteArray) (p : Pos) (h1 : p.fid < 2 ^ 32) (h2 : p.block < 2 ^ 32)
    (h3 : p.off < 2 ^ 32) (h4 : p.size < 2 ^ 32) :
    decodeHint (encodeHint key p) = some (key, p) :=
  decodeHint_encodeHint key p h1 h2 h3 h4

/-- varint round trips -/
theorem C11_codec_varint (n : Nat) (rest : List UInt8) (h : n < 2 ^ 64) :
    Varint.uvarint (Varint.putUvarint n ++ rest) = some (n, (Varint.putUvarint n).length) :=
  Varint.uvarint_putUvarint n rest h

/-! ## "both I/O back-ends store identical bytes", at the level of `fio.ReadWriter`

`Model/Fio.lean` models the OS file under the two back-ends (`FileIO`: `O_APPEND` writes, `ReadAt`;
`MMap`: a block-granular mapping over a file that is physically extended with zeros, logical size
`virtualSize`).  The engine model above works on the logical bytes only; these theorems are what
justifies that for the mmap back-end. -/

/-- For every initial file and every sequence of `Write/Read/Sync/Size/Truncate(n ≤ size)/
    ResetFileSize` calls: both back-ends deliver the same bytes, sizes and write counts call by call,
    while open the first `virtualSize` bytes of the mmap file are the `FileIO` file and the rest is
    zeros, and after `Close` the two files are byte-identical with physical = logical size. -/
theorem C11_backends_identical (B : Nat) (hB : 0 < B) (file : Fio.OsFile) (ops : List Fio.Op)
    (hok : Fio.OpsOk (Fio.FileIO.open file) ops) :
    (let f := Fio.runWith Fio.FileIO.apply (Fio.FileIO.open file) ops
     let m := Fio.runWith (Fio.MMap.apply B) (Fio.MMap.open B file) ops
     m.2.map Fio.Res.obs = f.2.map Fio.Res.obs ∧
     m.1.os.bytes.extract 0 m.1.virt = f.1.os.bytes ∧
     m.1.os.bytes.extract m.1.virt m.1.os.bytes.size = zeros (m.1.os.bytes.size - m.1.virt)) ∧
    (Fio.MMap.run B file ops).2.map Fio.Res.obs = (Fio.FileIO.run file ops).2.map Fio.Res.obs ∧
    (Fio.MMap.run B file ops).1.os.bytes = (Fio.FileIO.run file ops).1.os.bytes ∧
    (Fio.MMap.run B file ops).1.os.bytes.size = (Fio.MMap.run B file ops).1.virt :=
  Fio.Fio_backends_agree B hB file ops hok

/-- no call sequence on an `MMap` handle touches memory outside the mapping or beyond the physical
    end of the file (slice-bounds panic / SIGBUS / lost store) -/
theorem C11_mmap_never_faults (B : Nat) (hB : 0 < B) (f : Fio.OsFile) (ops : List Fio.Op) :
    Fio.Res.fault ∉ (Fio.MMap.run B f ops).2 :=
  Fio.Fio_no_fault B hB f ops

/-! ## the writer and the chunk decoder as TRANSLATED from the Go source

`harness/cmd/trans` translates `(*DataFile).writeToBuf` and `DecodeChunk` from /repo's current
source into `Generated/Trans.lean` on every run (Go subset → Lean, machine integers with explicit
wrap-around, buffer effects as emitted segments); these theorems say that what the code computes is
what the hand-written model computes, so every theorem of this file is about the code as it reads
now (for the stated ranges), not only about executions that were compared. -/

/-- `writeToBuf` as it stands in /repo, started in the writer state of ANY file `f`: returns the
    position the model reports and the model's next writer state, and emits exactly the bytes the
    model appends (padding + chunks with correct 16-bit lengths and in-bounds slices). -/
theorem C11_translated_writeToBuf (C : Codec) (fid : Nat) (f data : ByteArray)
    (hdata : data.size < 2^31) (hblk : f.size / BS + data.size / 32761 + 2 < 2^32) :
    ∃ segs bytes,
      Generated.Trans.datafile.writeToBuf fid data (f.size / BS) (f.size % BS)
        = some (({ Fid := fid, BlockID := (posOf C fid f.size data).block,
                   Offset := (posOf C fid f.size data).off, Size := (posOf C fid f.size data).size },
                 (appendRec C f data).size / BS, (appendRec C f data).size % BS), segs) ∧
      TransEq.render C data segs = some bytes ∧ f ++ bytes = appendRec C f data :=
  TransEq.trans_writeToBuf_appendRec C fid f data hdata hblk

/-- `DecodeChunk` as it stands in /repo = the model's `Chunk.dec`, for every input slice -/
theorem C11_translated_DecodeChunk (block : ByteArray) :
    Generated.Trans.datafile.DecodeChunk TransEq.crcNat block = TransEq.ofDecOut (Chunk.dec block) :=
  TransEq.trans_DecodeChunk_eq block

/-- the mapping arithmetic of `(*MMap).remap` as it stands in /repo = the fio model's `roundUp` -/
theorem C11_translated_remap (newBase dataSize : Nat) (h : newBase + dataSize < 2^62) :
    Generated.Trans.fio.remap_endOff ↑newBase ↑dataSize
      = ↑(Fio.roundUp Generated.Trans.fio.blockSize (newBase + dataSize)) :=
  TransEq.trans_remap_endOff_eq newBase dataSize h

/-- the position-based reader `(*DataFile).readToBuf` as it stands in /repo (loop with early returns
    and `break`, the block window read from the file, the call to the translated `DecodeChunk`) =
    the model's `readAt`, for every file, block id and offset in machine range: same outcome
    (`nil` / `io.EOF` / `ErrInvalidCRC`) and, on success, the same payload; the fuel suffices. -/
theorem C11_translated_readToBuf (file block0 : ByteArray) (blockID offset : Nat)
    (hb0 : block0.size = 32768) (hfile : file.size / BS + 1 < 2^32) (hblk : blockID < 2^32) (hoff : offset < 2^32) :
    ∃ out, Generated.Trans.datafile.readToBuf block0 file TransEq.crcNat (file.size / BS) (file.size % BS) blockID offset
        = some (TransEq.ofOutErr (readAt Chunk.crcCodec file blockID offset), out) ∧
      ∀ p, readAt Chunk.crcCodec file blockID offset = .ok p → out = p :=
  TransEq.trans_readToBuf_eq file block0 blockID offset hb0 hfile hblk hoff

/-- the record codec as it stands in /repo: `EncodeLogRecord` = the model's `encodeRecord`
    (sizes < 2³¹, scratch header of the size the engine allocates), and `DecodeLogRecord` /
    `DecodeLogRecordValue` return what the model decodes whenever the model decodes at all
    (the inputs on which the model returns `none` are those on which the Go code panics or
    mis-slices: empty input, truncated / overflowing varint, negative or oversized lengths). -/
theorem C11_translated_record_codec :
    (∀ (r : Record) (header : ByteArray), r.key.size < 2^31 → r.value.size < 2^31 → r.batch < 2^64 →
        Generated.Trans.datafile.MaxLogRecordHeaderSize ≤ header.size →
        Generated.Trans.datafile.EncodeLogRecord (TransEq.goRecord r) header = encodeRecord r) ∧
    (∀ (data : ByteArray) (r : Record), data.size < 2^63 → decodeRecord data = some r →
        Generated.Trans.datafile.DecodeLogRecord data = TransEq.goRecord r) ∧
    (∀ (data v : ByteArray), data.size < 2^63 → decodeValue data = some v →
        Generated.Trans.datafile.DecodeLogRecordValue data = v) :=
  ⟨fun r header hk hv hb hf => TransEq.trans_EncodeLogRecord_eq21 r header hk hv hb hf,
   fun data r hs h => TransEq.trans_DecodeLogRecord_eq data r hs h,
   fun data v hs h => TransEq.trans_DecodeLogRecordValue_eq data v hs h⟩

/-- non-vacuity: a 40 000-byte payload appended to a file that ends 3 bytes before a block boundary -/
example : ∃ f d : ByteArray, 0 < d.size ∧ f.size % BS = 32765 ∧ d.size = 40000 :=
  ⟨zeros 32765, zeros 40000, by simp, by simp [BS], by simp⟩


/-! ## the sequential reader as TRANSLATED from the Go source (translator round 3) -/

/-- `(*DataFile).zeroUntilEnd` as it stands in /repo (a `for` loop that reads the file block by block through
    a pooled buffer, with a nested `range` loop over the bytes read) = the model's `allZeroFrom`: called with
    `fileSize` = the size of the file it returns whether every byte from `from` on is zero, for every file,
    every stale content of the pooled buffer and every start position; the fuel suffices. -/
theorem C11_translated_zeroUntilEnd (file pool0 : ByteArray) (from_ : Nat) (hpool : pool0.size = 32768)
    (hfile : file.size < 2^62) :
    Generated.Trans.datafile.zeroUntilEnd pool0 file (from_ : Int) (file.size : Int) = some (allZeroFrom file from_) :=
  TransEq.trans_zeroUntilEnd_eq file pool0 from_ hpool hfile

/-- the sequential reader `(*DataReader).next` as it stands in /repo (loop over the chunks of one record with
    early returns and `break`, the reader's block buffer, the calls of the translated `DecodeChunk`,
    `zeroUntilEnd`, `endOfLog` and `Size`, the assigned receiver fields `blockID`, `offset`, `validEnd`) =
    the model's sequential step `nextAt` followed by the reader's skip rule `rnormB/rnormO`, for BOTH values of
    `tolerateTornTail`, every file whose block count fits `uint32` with room for one increment, every stale
    content of the reader's buffer and of the pooled buffer, every reader state.  On success: the payload, the
    position `(Fid, blockID, offset, Size)` (`Size` is a `uint32`: the model's size modulo 2³²), the new reader
    state and `validEnd` = the end of the record; `io.EOF` / `ErrInvalidCRC` exactly when the model says end of
    log (torn-tail, zero-tail and `tornZero` rules included) / error, with `validEnd` unchanged.  The fuel suffices. -/
theorem C11_translated_next (file buf0 pool0 : ByteArray) (tol : Bool) (fid blockID offset : Nat) (validEnd : Int)
    (hbuf : buf0.size = 32768) (hpool : pool0.size = 32768) (hfile : file.size / BS + 1 < 2^32)
    (hblk : blockID < 2^32) :
    match nextAt Chunk.crcCodec tol file blockID offset (file.size + 1) with
    | .ok (d, sz, b', o') =>
      Generated.Trans.datafile.next (file := file) (crc32_ChecksumIEEE := TransEq.crcNat) (getBuf_block := pool0)
          (reader_dataFile_ID := fid) (reader_dataFile_lastBlockID := file.size / BS)
          (reader_dataFile_lastBlockSize := file.size % BS) (reader_blockID := blockID) (reader_offset := offset)
          (reader_blockBuf := buf0) (reader_validEnd := validEnd) (reader_tolerateTornTail := tol)
        = some ((d, some { Fid := fid, BlockID := blockID, Offset := offset, Size := sz % 2^32 }, none),
                rnormB b' o', rnormO o', ((b' * BS + o' : Nat) : Int))
    | .eof => ∃ b o,
      Generated.Trans.datafile.next (file := file) (crc32_ChecksumIEEE := TransEq.crcNat) (getBuf_block := pool0)
          (reader_dataFile_ID := fid) (reader_dataFile_lastBlockID := file.size / BS)
          (reader_dataFile_lastBlockSize := file.size % BS) (reader_blockID := blockID) (reader_offset := offset)
          (reader_blockBuf := buf0) (reader_validEnd := validEnd) (reader_tolerateTornTail := tol)
        = some ((ByteArray.empty, none, some "io.EOF"), b, o, validEnd)
    | .err => ∃ b o,
      Generated.Trans.datafile.next (file := file) (crc32_ChecksumIEEE := TransEq.crcNat) (getBuf_block := pool0)
          (reader_dataFile_ID := fid) (reader_dataFile_lastBlockID := file.size / BS)
          (reader_dataFile_lastBlockSize := file.size % BS) (reader_blockID := blockID) (reader_offset := offset)
          (reader_blockBuf := buf0) (reader_validEnd := validEnd) (reader_tolerateTornTail := tol)
        = some ((ByteArray.empty, none, some "ErrInvalidCRC"), b, o, validEnd) :=
  TransEq.trans_next_eq file buf0 pool0 tol fid blockID offset validEnd hbuf hpool hfile hblk

/-- non-vacuity of `C11_translated_next` (the `.ok` case on a multi-block record): a reader of either kind that
    stands at the end of ANY file `f` returns, after a non-empty record `d` was appended (and whatever came
    later), exactly `d`, the writer's position, and `validEnd` = the end of that record -/
theorem C11_translated_next_write (d f post buf0 pool0 : ByteArray) (tol : Bool) (fid : Nat) (validEnd : Int)
    (hd : 0 < d.size) (hbuf : buf0.size = 32768) (hpool : pool0.size = 32768)
    (hF : (appendRec C f d ++ post).size / BS + 1 < 2^32) :
    ∃ b o,
      Generated.Trans.datafile.next (file := appendRec C f d ++ post) (crc32_ChecksumIEEE := TransEq.crcNat)
          (getBuf_block := pool0) (reader_dataFile_ID := fid)
          (reader_dataFile_lastBlockID := (appendRec C f d ++ post).size / BS)
          (reader_dataFile_lastBlockSize := (appendRec C f d ++ post).size % BS)
          (reader_blockID := endB f) (reader_offset := endO f)
          (reader_blockBuf := buf0) (reader_validEnd := validEnd) (reader_tolerateTornTail := tol)
        = some ((d, some { Fid := fid, BlockID := endB f, Offset := endO f,
                           Size := (posOf C 0 f.size d).size % 2^32 }, none),
                b, o, ((appendRec C f d).size : Int)) :=
  TransEq.trans_next_write d f post buf0 pool0 tol fid validEnd hd hbuf hpool hF

end XixiKV.C11
