import XixiKV.Proofs.ConcMergeBatchExec
import XixiKV.Proofs.ConcMergeBatchInv
import XixiKV.Model.LocksetMergeBatch
import XixiKV.Properties.C08Batch
/-!
# C06 with batches: a Merge concurrent with BATCHES never rewrites (or skips) a record on the
strength of an uncommitted batch

Model: `XixiKV.ConcMergeBatch` (`Model/ConcMergeBatch.lean`) = the interleaving model with batches
of `Model/ConcBatch.lean` (early flushes, record-by-record index updates, the sealing record as
linearization point) plus the merge steps `mstart · mvisit* · mfinish | mabort` of
`Model/ConcMerge.lean`.  Flag `mergeVisitGated`: the liveness test `db.index.Get` of the merge loop
runs inside an R section of `db.mu` (`true`: the current tree, since 79a6afe; `false`: before).

`recoveredMap log` = the mapping a restart recovers: replay with parked batches
(`ConcBatch.recovered`), values read from the log.  Process death (no power loss): the adopting
restart replays `out ++ log.drop n`.
-/
namespace XixiKV.C06B
open XixiKV.ConcBatch XixiKV.ConcMergeBatch XixiKV.Lockset
open XixiKV.Conc (Tid Key Val Res upd updK)

/-! ## scenario D of `xkv batchvis`: the gate is necessary -/

/-- thread 0: `Put 1 10` (the old value, position 0) -/
def putOld : List LabelM :=
  [.cl 0 (.call (.put 1 10)), .cl 0 .acq, .cl 0 .append, .cl 0 .index, .cl 0 .rel, .cl 0 .ret]

/-- the merge starts (boundary 1); thread 1 opens a batch `[1 ↦ 99, 2 ↦ 5]`, stages `1 ↦ 99`,
FLUSHES EARLY (tagged record at position 1) and updates the index (`1 ↦ position 1`); the batch
stays open (unsealed) -/
def openBatch : List LabelM := putOld ++
  [.mstart none, .cl 1 (.call (.batch [(1, some 99), (2, some 5)])), .cl 1 .acq, .cl 1 .stage,
   .cl 1 .flush, .cl 1 .index]

/-- … the merge visits position 0 — the index points at the uncommitted position 1, the record is
SKIPPED — and finishes (marker written); then the process dies -/
def scenarioD : List LabelM := openBatch ++ [.mvisit, .mfinish]

def stateD : GM := (execM .gated false scenarioD initM).getD initM

theorem stateD_reachable : ReachableM .gated false stateD :=
  execM_init_reachable (by decide +kernel)

/-- **The gate is necessary.**  With `mergeVisitGated = false` (the tree before 79a6afe) — even with
the gated `Get` shape — a reachable state with a FINISHED merge exists in which the adopting
restart after a process death has LOST the acknowledged value of key 1: the merge skipped the live
record (the index already pointed at the early-flushed record of the open batch), the unsealed
batch is dropped by the replay. -/
theorem C06B_needs_gate :
    ∃ (a : GM) (n : Nat) (out : List Rec) (k : Key) (old : Val),
      ReachableM .gated false a ∧ a.m = .done n out ∧
      recoveredMap (adopted a.g n out) k = none ∧ recoveredMap a.g.log k = some old :=
  ⟨stateD, 1, [], 1, 10, stateD_reachable, by decide +kernel, by decide +kernel, by decide +kernel⟩

/-- the state of `C06B_needs_gate` in detail -/
example : stateD.m = .done 1 [] ∧ stateD.g.log = [.put 1 10 0, .put 1 99 1] ∧
    stateD.g.writer = some 1 ∧ stateD.g.idx 1 = some 1 ∧
    adopted stateD.g 1 [] = [.put 1 99 1] ∧ results stateD.g = [(0, .ok)] := by decide +kernel

/-- Non-vacuity under BOTH flag values: ungated the whole schedule runs; gated the `mvisit` is
refused while the batch is open (the schedule stops after `openBatch`, 12 choices) … -/
example : (execM .gated false scenarioD initM).isSome = true ∧
    (execM .gated true openBatch initM).isSome = true ∧
    execM .gated true scenarioD initM = none ∧
    (execPrefixM .gated true scenarioD initM 0).2 = 12 := by decide +kernel

/-- … and once the batch has committed the gated merge visits position 0, finds it dead IN THE
COMMITTED VIEW, writes nothing, and the adopting restart recovers the committed mapping. -/
def scenarioDGated : List LabelM := openBatch ++
  [.cl 1 .resume, .cl 1 .commit, .cl 1 .index, .cl 1 .seal, .cl 1 .rel,
   .mvisit, .mfinish]

def stateDGated : GM := (execM .gated true scenarioDGated initM).getD initM

theorem stateDGated_reachable : ReachableM .gated true stateDGated :=
  execM_init_reachable (by decide +kernel)

example : stateDGated.m = .done 1 [] ∧
    stateDGated.g.log = [.put 1 10 0, .put 1 99 1, .put 2 5 1, .fin 1] ∧
    ([1, 2].all fun k => recoveredMap (adopted stateDGated.g 1 []) k ==
      recoveredMap stateDGated.g.log k) = true ∧
    recoveredMap stateDGated.g.log 1 = some 99 := by decide +kernel

/-! ## tie to the code -/

set_option maxRecDepth 100000 in
/-- In `DB.Merge` of the current tree every `idxGet` row is in mode R of `db.mu`: the flag of the
code's shape is `mergeVisitGated = true` (and `IndexReadsLocked`, of which this is the `DB.Merge`
instance, holds). -/
theorem C06B_generated :
    MergeVisitGated Generated.locksetTable ∧ IndexReadsLocked Generated.locksetTable ∧
    mergeVisitFlagOf Generated.locksetTable = true := by decide

set_option maxRecDepth 100000 in
/-- rejected: the same table with the `idxGet` row of `DB.Merge` in mode none (the tree before
79a6afe) — both predicates fail, the flag is `false` -/
example : ¬ MergeVisitGated (ungateMerge Generated.locksetTable) ∧
    ¬ IndexReadsLocked (ungateMerge Generated.locksetTable) ∧
    mergeVisitFlagOf (ungateMerge Generated.locksetTable) = false ∧
    ¬ MergeVisitGated [⟨"DB.Merge", 56, "idxGet", .none, 0⟩] := by decide


/-! ## the gated merge preserves the committed mapping -/

/-- **A Merge concurrent with batches.**  `mergeVisitGated = true` (ANY `Get` shape, any number of
clients and batch sessions, any schedule, early flushes included): in every reachable state with a
FINISHED merge `(n, out)` — wherever the clients are, also in the middle of an open, partly flushed
batch — the restart that adopts the merged files after a process death recovers exactly the
mapping a restart without the merge recovers.  `recoveredMap` replays with parked batches, so an
open (unsealed) batch contributes nothing on either side. -/
theorem C06B_merge_with_batches {sh : Shape} {a : GM} {n : Nat} {out : List Rec}
    (h : ReachableM sh true a) (hm : a.m = .done n out) :
    recoveredMap (adopted a.g n out) = recoveredMap a.g.log := by
  have hM := reachableM_minvB h
  unfold MInvB at hM
  rw [hm] at hM
  exact mcoreB_preserves hM

/-- Corollary: whenever `db.mu` is free this is the LIVE mapping (`C08B_restart_agrees`). -/
theorem C06B_merge_live {sh : Shape} {a : GM} {n : Nat} {out : List Rec}
    (h : ReachableM sh true a) (hm : a.m = .done n out) (hw : a.g.writer = none) :
    recoveredMap (adopted a.g n out) = absMap a.g := by
  rw [C06B_merge_with_batches h hm]
  funext k
  show valAt a.g.log (recovered a.g.log k) = valAt a.g.log (a.g.idx k)
  rw [(C08B.C08B_restart_agrees (reachableM_base h) hw).1]

/-- Corollary: while a batch is open (`bstart = some s`, the log length at its `NewBatch`) both
restarts recover the mapping of the log as it was when the batch was opened — acknowledged data
only, nothing of the uncommitted batch. -/
theorem C06B_open_batch_dropped {sh : Shape} {a : GM} {n s : Nat} {out : List Rec}
    (h : ReachableM sh true a) (hm : a.m = .done n out) (hs : a.g.bstart = some s) :
    recoveredMap (adopted a.g n out) = recoveredMap (a.g.log.take s) := by
  rw [C06B_merge_with_batches h hm]
  funext k
  have e := C08B.C05_open_batch_dropped_at_restart (reachableM_base h) hs
  show valAt a.g.log (recovered a.g.log k) = valAt (a.g.log.take s) (recovered (a.g.log.take s) k)
  rw [e]
  have := valAt_append (a.g.log.take s) (a.g.log.drop s) (recovered (a.g.log.take s) k)
    (fun q hq => recovered_lt hq)
  rw [List.take_append_drop] at this
  exact this

/-- the statement for the code as it is: both flags computed from the generated lockset table -/
theorem C06B_merge_with_batches_code {a : GM} {n : Nat} {out : List Rec}
    (h : ReachableM (batchShapeOf Generated.locksetTable)
      (mergeVisitFlagOf Generated.locksetTable) a) (hm : a.m = .done n out) :
    recoveredMap (adopted a.g n out) = recoveredMap a.g.log := by
  rw [C06B_generated.2.2] at h
  exact C06B_merge_with_batches h hm


/-! ### a non-trivial instance of the hypotheses

`Put 1 10`, `Put 2 20`; the merge starts (boundary 2, order: position 1, then 0) and copies
`2 ↦ 20`; a batch `[1 ↦ 99, 3 ↦ 5]` runs with an early flush and COMMITS; the merge visits position
0 (dead in the committed view: skipped) and finishes; a second batch `[2 ↦ 77, 4 ↦ 1]` opens, stages
`2 ↦ 77`, flushes early, updates the index — and is still OPEN when the process dies. -/

def put2 : List LabelM :=
  [.cl 0 (.call (.put 2 20)), .cl 0 .acq, .cl 0 .append, .cl 0 .index, .cl 0 .rel, .cl 0 .ret]

def scenarioE : List LabelM := putOld ++ put2 ++
  [.mstart (some [1, 0]), .mvisit,
   .cl 1 (.call (.batch [(1, some 99), (3, some 5)])), .cl 1 .acq, .cl 1 .stage, .cl 1 .flush,
   .cl 1 .index, .cl 1 .resume, .cl 1 .commit, .cl 1 .index, .cl 1 .seal, .cl 1 .rel,
   .mvisit, .mfinish,
   .cl 2 (.call (.batch [(2, some 77), (4, some 1)])), .cl 2 .acq, .cl 2 .stage, .cl 2 .flush,
   .cl 2 .index]

def stateE : GM := (execM .gated true scenarioE initM).getD initM

theorem stateE_reachable : ReachableM .gated true stateE :=
  execM_init_reachable (by decide +kernel)

/-- the hypotheses of `C06B_merge_with_batches` / `C06B_open_batch_dropped` /
`C06B_output_plain` are met by `stateE`: merge finished with a non-empty output, a batch open with
an early-flushed record in the log and in the index (the index is AHEAD of the committed view) -/
example : stateE.m = .done 2 [.put 2 20 0] ∧
    stateE.g.log = [.put 1 10 0, .put 2 20 0, .put 1 99 1, .put 3 5 1, .fin 1, .put 2 77 2] ∧
    stateE.g.writer = some 2 ∧ stateE.g.bstart = some 5 ∧ stateE.g.idx 2 = some 5 ∧
    recovered stateE.g.log 2 = some 1 ∧
    [1, 2, 3, 4].map (recoveredMap stateE.g.log) = [some 99, some 20, some 5, none] ∧
    [1, 2, 3, 4].map (recoveredMap (adopted stateE.g 2 [.put 2 20 0])) =
      [some 99, some 20, some 5, none] := by decide +kernel

example : recoveredMap (adopted stateE.g 2 [.put 2 20 0]) = recoveredMap stateE.g.log :=
  C06B_merge_with_batches stateE_reachable (by decide +kernel)

/-! ## what the merge writes -/

/-- **The output is plain and committed.**  At any moment of a gated scan (running or finished):
the boundary `n` was fixed with nothing parked (every batch with a record before `n` is sealed
before `n`), and every record of `out` is the UNTAGGED copy `put k v 0` of a put at a position
`i < n` that is the live position of `k` in the committed view of the first `n` records
(`recovered (log.take n) k = some i`: the replay with parked batches applied it, so it is a plain
record or a record of a batch sealed before `n`) — no record of an unsealed batch is rewritten. -/
theorem C06B_output_plain {sh : Shape} {a : GM} (h : ReachableM sh true a) :
    ∀ n out, (a.m = .done n out ∨ ∃ todo, a.m = .scanning n todo out) →
      n ≤ a.g.log.length ∧ (replayAll (a.g.log.take n)).pend = [] ∧
      ∀ r ∈ out, ∃ k v b i, r = .put k v 0 ∧ i < n ∧ a.g.log[i]? = some (.put k v b) ∧
        recovered (a.g.log.take n) k = some i := by
  intro n out hm
  have hM := reachableM_minvB h
  unfold MInvB at hM
  rcases hm with hm | ⟨todo, hm⟩ <;> rw [hm] at hM <;> exact ⟨hM.le, hM.quiet, hM.src⟩

/-- **… live in the committed view AT THE VISIT.**  A visit of the gated merge (enabled only with
`db.mu` free) either writes nothing or copies, untagged, a put that is at that moment the live
record of its key in the mapping a restart would recover (`recovered log k = some i`, nothing
parked): it never acts on an index entry of an uncommitted batch. -/
theorem C06B_visit_committed {sh : Shape} {a : GM} {n i : Nat} {todo : List Nat} {out : List Rec}
    (h : ReachableM sh true a) (_hm : a.m = .scanning n (i :: todo) out)
    (hw : a.g.writer = none) :
    (replayAll a.g.log).pend = [] ∧
    (visit a.g i out = out ∨
     ∃ k v b, a.g.log[i]? = some (.put k v b) ∧ recovered a.g.log k = some i ∧
       visit a.g i out = out ++ [.put k v 0]) := by
  have hc := C08B.C08B_restart_agrees (reachableM_base h) hw
  refine ⟨hc.2, ?_⟩
  unfold visit
  split
  · rename_i k v b hi
    split
    · rename_i hk
      exact .inr ⟨k, v, b, hi, by rw [← hc.1]; exact hk, rfl⟩
    · exact .inl rfl
  · exact .inl rfl



/-- **No record of an unsealed batch is ever rewritten.**  While a batch is open (`bstart = some s`)
the records a restart would leave parked — the uncommitted ones — are exactly the log from
position `s` on; the boundary of a running or finished gated scan lies at or before `s`, and every
record of `out` was copied from a position `i < n ≤ s`: a committed record. -/
theorem C06B_open_batch_not_rewritten {sh : Shape} {a : GM} (h : ReachableM sh true a)
    {n s : Nat} {out : List Rec} (hm : a.m = .done n out ∨ ∃ todo, a.m = .scanning n todo out)
    (hs : a.g.bstart = some s) :
    (replayAll a.g.log).pend = enumPos s (a.g.log.drop s) ∧ n ≤ s ∧
    ∀ r ∈ out, ∃ k v b i, r = .put k v 0 ∧ i < s ∧ a.g.log[i]? = some (.put k v b) := by
  have hb : boundaryOf a.m = some n := by
    rcases hm with hm | ⟨todo, hm⟩ <;> rw [hm] <;> rfl
  have hns := (boundary_le_bstart h n hb).2 s hs
  refine ⟨open_batch_pend (reachable_inv0 (reachableM_base h)) hs, hns, fun r hr => ?_⟩
  obtain ⟨k, v, b, i, h1, h2, h3, _⟩ := (C06B_output_plain h n out hm).2.2 r hr
  exact ⟨k, v, b, i, h1, Nat.lt_of_lt_of_le h2 hns, h3⟩

/-- instance: `stateE` (merge done with output `[put 2 20 0]`, second batch open from position 5) -/
example : stateE.g.bstart = some 5 ∧ stateE.m = .done 2 [.put 2 20 0] ∧
    enumPos 5 (stateE.g.log.drop 5) = [(5, .put 2 77 2)] := by decide +kernel

/-- an instance of `C06B_visit_committed`: the state before the second visit of `scenarioE` -/
example : ∃ a : GM, ReachableM .gated true a ∧ a.m = .scanning 2 [0] [.put 2 20 0] ∧
    a.g.writer = none ∧ visit a.g 0 [.put 2 20 0] = [.put 2 20 0] :=
  ⟨(execM .gated true (scenarioE.take 24) initM).getD initM,
   execM_init_reachable (by decide +kernel), by decide +kernel, by decide +kernel,
   by decide +kernel⟩

end XixiKV.C06B
