import XixiKV.Proofs.ConcMergeBatchExec
import XixiKV.Model.LocksetMergeBatch
/-!
# C06 with batches: a Merge concurrent with BATCHES never rewrites (or skips) a record on the
strength of an uncommitted batch

Model: `XixiKV.ConcMergeBatch` (`Model/ConcMergeBatch.lean`) = the interleaving model with batches
of `Model/ConcBatch.lean` (early flushes, record-by-record index updates, the sealing record as
linearization point) plus the merge steps `mstart · mvisit* · mfinish | mabort` of
`Model/ConcMerge.lean`.  Flag `mergeVisitGated`: the liveness test `db.index.Get` of the merge loop
runs inside an R section of `db.mu` (`true`: the current tree, since 79a6afe; `false`: before).

`recoveredMap log` = the mapping a restart recovers: replay with parked batches
(`ConcBatch.recovered`), values read from the log.  Process death (no power loss): the adopting
restart replays `out ++ log.drop n`.
-/
namespace XixiKV.C06B
open XixiKV.ConcBatch XixiKV.ConcMergeBatch XixiKV.Lockset
open XixiKV.Conc (Tid Key Val Res upd updK)

/-! ## scenario D of `xkv batchvis`: the gate is necessary -/

/-- thread 0: `Put 1 10` (the old value, position 0) -/
def putOld : List LabelM :=
  [.cl 0 (.call (.put 1 10)), .cl 0 .acq, .cl 0 .append, .cl 0 .index, .cl 0 .rel, .cl 0 .ret]

/-- the merge starts (boundary 1); thread 1 opens a batch `[1 ↦ 99, 2 ↦ 5]`, stages `1 ↦ 99`,
FLUSHES EARLY (tagged record at position 1) and updates the index (`1 ↦ position 1`); the batch
stays open (unsealed) -/
def openBatch : List LabelM := putOld ++
  [.mstart none, .cl 1 (.call (.batch [(1, some 99), (2, some 5)])), .cl 1 .acq, .cl 1 .stage,
   .cl 1 .flush, .cl 1 .index]

/-- … the merge visits position 0 — the index points at the uncommitted position 1, the record is
SKIPPED — and finishes (marker written); then the process dies -/
def scenarioD : List LabelM := openBatch ++ [.mvisit, .mfinish]

def stateD : GM := (execM .gated false scenarioD initM).getD initM

theorem stateD_reachable : ReachableM .gated false stateD :=
  execM_init_reachable (by decide +kernel)

/-- **The gate is necessary.**  With `mergeVisitGated = false` (the tree before 79a6afe) — even with
the gated `Get` shape — a reachable state with a FINISHED merge exists in which the adopting
restart after a process death has LOST the acknowledged value of key 1: the merge skipped the live
record (the index already pointed at the early-flushed record of the open batch), the unsealed
batch is dropped by the replay. -/
theorem C06B_needs_gate :
    ∃ (a : GM) (n : Nat) (out : List Rec) (k : Key) (old : Val),
      ReachableM .gated false a ∧ a.m = .done n out ∧
      recoveredMap (adopted a.g n out) k = none ∧ recoveredMap a.g.log k = some old :=
  ⟨stateD, 1, [], 1, 10, stateD_reachable, by decide +kernel, by decide +kernel, by decide +kernel⟩

/-- the state of `C06B_needs_gate` in detail -/
example : stateD.m = .done 1 [] ∧ stateD.g.log = [.put 1 10 0, .put 1 99 1] ∧
    stateD.g.writer = some 1 ∧ stateD.g.idx 1 = some 1 ∧
    adopted stateD.g 1 [] = [.put 1 99 1] ∧ results stateD.g = [(0, .ok)] := by decide +kernel

/-- Non-vacuity under BOTH flag values: ungated the whole schedule runs; gated the `mvisit` is
refused while the batch is open (the schedule stops after `openBatch`, 12 choices) … -/
example : (execM .gated false scenarioD initM).isSome = true ∧
    (execM .gated true openBatch initM).isSome = true ∧
    execM .gated true scenarioD initM = none ∧
    (execPrefixM .gated true scenarioD initM 0).2 = 12 := by decide +kernel

/-- … and once the batch has committed the gated merge visits position 0, finds it dead IN THE
COMMITTED VIEW, writes nothing, and the adopting restart recovers the committed mapping. -/
def scenarioDGated : List LabelM := openBatch ++
  [.cl 1 .resume, .cl 1 .commit, .cl 1 .index, .cl 1 .seal, .cl 1 .rel,
   .mvisit, .mfinish]

def stateDGated : GM := (execM .gated true scenarioDGated initM).getD initM

theorem stateDGated_reachable : ReachableM .gated true stateDGated :=
  execM_init_reachable (by decide +kernel)

example : stateDGated.m = .done 1 [] ∧
    stateDGated.g.log = [.put 1 10 0, .put 1 99 1, .put 2 5 1, .fin 1] ∧
    ([1, 2].all fun k => recoveredMap (adopted stateDGated.g 1 []) k ==
      recoveredMap stateDGated.g.log k) = true ∧
    recoveredMap stateDGated.g.log 1 = some 99 := by decide +kernel

/-! ## tie to the code -/

set_option maxRecDepth 100000 in
/-- In `DB.Merge` of the current tree every `idxGet` row is in mode R of `db.mu`: the flag of the
code's shape is `mergeVisitGated = true` (and `IndexReadsLocked`, of which this is the `DB.Merge`
instance, holds). -/
theorem C06B_generated :
    MergeVisitGated Generated.locksetTable ∧ IndexReadsLocked Generated.locksetTable ∧
    mergeVisitFlagOf Generated.locksetTable = true := by decide

set_option maxRecDepth 100000 in
/-- rejected: the same table with the `idxGet` row of `DB.Merge` in mode none (the tree before
79a6afe) — both predicates fail, the flag is `false` -/
example : ¬ MergeVisitGated (ungateMerge Generated.locksetTable) ∧
    ¬ IndexReadsLocked (ungateMerge Generated.locksetTable) ∧
    mergeVisitFlagOf (ungateMerge Generated.locksetTable) = false ∧
    ¬ MergeVisitGated [⟨"DB.Merge", 56, "idxGet", .none, 0⟩] := by decide

end XixiKV.C06B
