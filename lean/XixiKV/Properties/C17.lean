import XixiKV.Proofs.EnginePolicy
import XixiKV.Properties.C01
import XixiKV.Properties.C05
import XixiKV.Proofs.TransEqSize
/-!
# C17 (second half) — the data-file size limit and the estimate it rests on

> "A data file exceeds DataFileSize only when it holds a single record (plus, for a batch, its
> sealing record) that alone exceeds the limit."

(The first half of C17 — `Stat` key count and size counters — is `C17_keynum`, `C17_counters*` in
`Properties/C01.lean`.)

Go code covered (at /repo HEAD), and its model:

* `datafile.GetLogRecordDiskSize` (`datafile/data_file.go`) ↦ `Record.diskSizeEstimate`;
  `DataFile.writeToBuf` (padding of a block tail shorter than a chunk header + 1, one 7-byte chunk
  header per chunk, chunks never cross a 32 KiB block) ↦ `Frame.appendRec`, whose growth is the pure
  function `padOf o + occupied (normO o) n` of the in-block end offset `o` and the payload length
  `n` (`Frame.posOf_geom`).
* `DB.appendLogRecord` (`db.go`): `if activeFile.Size()+maxSize > DataFileSize { db.sync() }` — the
  rotation happens BEFORE the append ↦ `Engine.appendLog`.
* `Batch.Put / Delete / Commit / flushStaged / flushStagedAndUpdateFile` (`batch.go`, with
  `maxFinRecord = 70`) ↦ `Engine.bput / bdel / bcommit / flushStaged / flushAndRotate`.

## PART 1 — the estimate (`C17_estimate`, `C17_estimate_file`, `C17_estimate_seal`, `C17_estimate_run`)

For every record whose key and value together are at most 2^27 bytes (128 MiB) and **every** current
file size, the bytes the writer appends (padding + all chunk headers + payload) are at most
`GetLogRecordDiskSize(len(key), len(value))`.  The sealing record of a batch occupies at most
`maxFinRecord = 70` bytes (in fact ≤ 46).

**KNOWN LIMITATION of `GetLogRecordDiskSize` (recorded, not hidden).**  The estimate charges one
7-byte chunk header per 32768 bytes of (over-estimated) payload, plus 7 + 11 bytes of slack beyond
the 21-byte maximal record header; the writer spends one chunk header per 32761 payload bytes (a
block holds 32768 − 7).  The deficit of 7 bytes per ≈ 153.4 MB (32761·32768/7 bytes) eats the slack:
the evaluated search at the end of this file finds the first failing sizes (worst in-block offset
`o = BS − 7`: 7 bytes of padding, then the record starts a fresh block)

* abstract bound used in the proof (payload `n = k + v + 21`): first failure at `k + v = 153 419 743`
  (`n = 153 419 764`) — so the theorem's hypothesis `k + v ≤ 2^27 = 134 217 728` is within 13 % of
  the best possible for a header-independent statement;
* real headers, batch record with id ≥ 2^63 (20 header bytes: `k = 2^27`, `v = 19 234 777`):
  occupied 153 485 327 > estimate 153 485 325; with a 63-bit id (19 header bytes) `v = 19 234 778`:
  153 485 327 > 153 485 326 — i.e. ≈ 146.3 MiB;
* batch record with a 1-byte key and 63-bit id (16 header bytes): `v = 306 806 749` (≈ 292.6 MiB);
* plain record (batch id 0) with `k = 2^27`: `v = 172 621 787` (12 header bytes, ≈ 292.6 MiB in
  total); plain record with a 1-byte key (8 header bytes): `v = 460 226 520` (≈ 438.9 MiB).

Beyond these sizes a file can exceed `DataFileSize` by a few bytes although it holds several records;
this is why the limit theorems carry the hypothesis "key + value ≤ 2^27 bytes".

## PART 2 — the limit (`C17_limit…`)

State predicate `SizeOK L s` (`Proofs/EnginePolicy.lean`): the database is open, its data files
match a ghost directory `g` (`Files s db g`: every file is byte for byte the framing of the records
appended to it), `DataFileSize ≤ L`, and every ghost file `gf` satisfies

  `FileOK L gf  :=  (bytesOf gf).size ≤ L  ∨  (∃ r, gf = [r])  ∨  (∃ r id, gf = [r, finRec id])`;

if a batch object is attached to the handle, its staging area satisfies `BSize`:
`Σ estimates(staged) ≤ cachedDataSize`, `Σ estimates(staged) + 70 ≤ DataFileSize ∨ |staged| ≤ 1`,
staged keys pairwise distinct.  (`cachedDataSize + 70 ≤ DataFileSize` is NOT an invariant of the Go
code: `Batch.Delete` of a staged key adds the old value length without a check.)  The bound `L` is a
parameter because `DataFileSize` may change at a restart (`C17_limit_restart`, `SizeOK.mono`).

`C17_limit_step / C17_limit` : every plain operation (`Put / Delete / Get / Sync`) and every batch
operation (`NewBatch / Put / Get / Delete / Commit`, dropping the batch object), in any
interleaving, preserves `SizeOK L`; it holds in the freshly opened database (`C17_limit_fresh`).
`C17_limit_bytes` / `C17_limit_exceeds` read the predicate on the bytes of the directory.

**Not covered:** `Merge`.  Its output directory is written through the same `appendLogRecord`
(`Engine.mergeRec` calls `Engine.appendLog` on the temporary handle), so `appendLog_size` is the
step lemma for it, but the merge loop itself is not part of the operation type here.
(Closed in `Properties/C17History.lean`: `C17_history_limit` carries `SizeOK` through whole histories with
`Merge`, adoption, restarts and `Backup`, and covers the rewritten files of the merge directory;
`C17_history_counters` / `C17_history_merge_admitted` do the same for the `Stat` half.)

"that alone exceeds the limit": in the model (as in Go) a single-record file arises whenever the
*estimate* of the record (plus the 70 reserved bytes, for a batch) does not fit the configured size;
the theorems state the structural fact (one record, or one record and its sealing record), which is
what the rotation rules guarantee.
-/
namespace XixiKV.C17
open XixiKV XixiKV.Frame XixiKV.Record XixiKV.Index XixiKV.Engine XixiKV.Engine.BatchP
open XixiKV.Engine.PolicyP.Size

/-! ## PART 1 — the estimate -/

/-- **C17 (estimate)**: for a record with key length `k`, value length `v` (both `< 2^31`, batch id
    `< 2^64`: the codec's side conditions) and `k + v ≤ 2^27`, and for ANY current file size `fsz`,
    the padding plus the bytes the record's chunks occupy are at most `GetLogRecordDiskSize(k, v)` -/
theorem C17_estimate (r : Record) (hk : r.key.size < 2 ^ 31) (hv : r.value.size < 2 ^ 31)
    (hb : r.batch < 2 ^ 64) (hs : r.key.size + r.value.size ≤ 2 ^ 27) (fsz : Nat) :
    padOf (fsz % BS) + occupied (normO (fsz % BS)) (encodeRecord r).size
      ≤ diskSizeEstimate r.key.size r.value.size :=
  estimate_geom r hk hv hb hs fsz

/-- **C17 (estimate, on files)**: `writeSingle` grows a file of any size by at most the estimate -/
theorem C17_estimate_file (f : ByteArray) (r : Record) (hk : r.key.size < 2 ^ 31)
    (hv : r.value.size < 2 ^ 31) (hb : r.batch < 2 ^ 64) (hs : r.key.size + r.value.size ≤ 2 ^ 27) :
    (appendRec C f (encodeRecord r)).size ≤ f.size + diskSizeEstimate r.key.size r.value.size :=
  appendRec_le_estimate f r hk hv hb hs

/-- **C17 (estimate, `writeAll`)**: a run of records grows a file by at most the sum of the estimates -/
theorem C17_estimate_run (rs : List Record) (f : ByteArray) (h : ∀ r ∈ rs, RecOK r ∧ Small r) :
    (appendAll C f (payloads rs)).size
      ≤ f.size + (rs.map (fun r => diskSizeEstimate r.key.size r.value.size)).sum :=
  appendAll_le_estimates rs f h

/-- **C17 (sealing record)**: the encoded `LogRecordBatchFinished` record of a batch with a positive
    `int64` id has at most 32 bytes, and appending it to a file of any size grows the file by at
    most `maxFinRecord = 70` bytes -/
theorem C17_estimate_seal (f : ByteArray) (id : Nat) (h : id < 2 ^ 63) :
    (encodeRecord (finRec id)).size ≤ 32 ∧
    (appendRec C f (encodeRecord (finRec id))).size ≤ f.size + maxFinRecord :=
  ⟨size_finRec_le id h, seal_le_70 f id h⟩

/-- the estimate is monotone in both arguments (used for `Batch.Delete` of a staged key) -/
theorem C17_estimate_mono {k v k' v' : Nat} (hk : k ≤ k') (hv : v ≤ v') :
    diskSizeEstimate k v ≤ diskSizeEstimate k' v' :=
  diskSizeEstimate_mono hk hv

/-! ## PART 2 — the limit -/

/-- **C17 (limit, `Put`)**: on the file part `Files s db g` of the engine invariant (`Inv.files`,
    `BCore.files`), with every ghost file within `L ≥ DataFileSize` or a single record (+ sealing
    record), `Put` of a key/value pair of at most 2^27 bytes re-establishes the same -/
theorem C17_limit_plain {L : Nat} {s : St} {db : DB} {g : GDir} (hf : Files s db g) (hsz : SizeInv L g)
    (hL : db.cfg.fileSize ≤ L) (hs : s.db = some db) (k v : ByteArray) (hk0 : 0 < k.size)
    (hk : k.size < 2 ^ 31) (hv : v.size < 2 ^ 31) (hsm : k.size + v.size ≤ 2 ^ 27) :
    ∃ db' g', (put s k v).1.db = some db' ∧ Files (put s k v).1 db' g' ∧ SizeInv L g' ∧ db'.cfg = db.cfg := by
  obtain ⟨db', g', h1, h2, h3, h4, _⟩ := put_size hf hsz hL hs k v hk0 hk hv hsm
  exact ⟨db', g', h1, h2, h3, h4⟩

/-- **C17 (limit, `Delete`)**: the same for the tombstone `Delete` appends (nothing is written for
    an absent key) -/
theorem C17_limit_plain_delete {L : Nat} {s : St} {db : DB} {g : GDir} (hf : Files s db g) (hsz : SizeInv L g)
    (hL : db.cfg.fileSize ≤ L) (hs : s.db = some db) (k : ByteArray) (hk0 : 0 < k.size)
    (hk : k.size < 2 ^ 31) (hks : k.size ≤ 2 ^ 27) :
    ∃ db' g', (delete s k).1.db = some db' ∧ Files (delete s k).1 db' g' ∧ SizeInv L g' ∧ db'.cfg = db.cfg := by
  obtain ⟨db', g', h1, h2, h3, h4, _⟩ := delete_size hf hsz hL hs k hk0 hk hks
  exact ⟨db', g', h1, h2, h3, h4⟩

/-- **C17 (limit, `appendLogRecord`)** — the step behind `Put`, `Delete` and the rewriting loop of
    `Merge`: rotation happens before the append, so the active file stays within the limit or is
    a fresh file holding exactly the new record -/
theorem C17_limit_appendLog {L : Nat} {s : St} {db : DB} {g : GDir} (h : Files s db g) (hsz : SizeInv L g)
    (hL : db.cfg.fileSize ≤ L) (r : Record) (hr : RecOK r) (hsm : r.key.size + r.value.size ≤ 2 ^ 27) :
    ∃ g', Files (appendLog s db r).1 (appendLog s db r).2.1 g' ∧ SizeInv L g' ∧
      (appendLog s db r).2.1.cfg = db.cfg := by
  obtain ⟨g', h1, h2, _, h4, _⟩ := appendLog_size h hsz hL r hr hsm
  exact ⟨g', h1, h2, h4⟩

/-- **C17 (limit, plain runs)**: every run of `Put / Delete / Get / Sync` (`C01.run`) from a state
    that satisfies the size invariant ends in one; empty keys are allowed (rejected, nothing changes) -/
theorem C17_limit_run {L : Nat} (ops : List C01.Op) : ∀ {s : St}, SizeOK L s →
    (∀ k v, C01.Op.put k v ∈ ops → k.size + v.size ≤ 2 ^ 27) →
    (∀ k, C01.Op.del k ∈ ops → k.size ≤ 2 ^ 27) →
    SizeOK L (C01.run s ops).1 := by
  induction ops with
  | nil => intro s h _ _; exact h
  | cons op ops ih =>
    intro s h hput hdel
    have hstep : SizeOK L (C01.step s op).1 := by
      cases op with
      | put k v =>
        have := hput k v (by simp)
        exact SizeOK_put h k v (lt31_of_le27 (by omega)) (lt31_of_le27 (by omega)) this
      | del k => exact SizeOK_delete h k (lt31_of_le27 (hdel k (by simp))) (hdel k (by simp))
      | get k => exact SizeOK_get h k
      | sync => exact SizeOK_sync h
    exact ih hstep (fun k v hm => hput k v (by simp [hm])) (fun k hm => hdel k (by simp [hm]))

/-- **C17 (limit, plain runs from a fresh database)** with `L = DataFileSize` -/
theorem C17_limit_run_fresh (dir : String) (cfg : Cfg) (h : cfg.Valid) (ops : List C01.Op)
    (hput : ∀ k v, C01.Op.put k v ∈ ops → k.size + v.size ≤ 2 ^ 27)
    (hdel : ∀ k, C01.Op.del k ∈ ops → k.size ≤ 2 ^ 27) :
    SizeOK cfg.fileSize (C01.run (openDB St.init dir cfg).1 ops).1 :=
  C17_limit_run ops (SizeOK_fresh dir cfg h) hput hdel

/-- **C17 (limit, one batch operation)**: with an open batch `b` whose staging area satisfies
    `BSize`, `Batch.Put`, `Batch.Delete` and `Commit` re-establish the size invariant of the files
    and of the staging area — in every branch (new key / staged key rewritten in place /
    flush-and-rotate first; commit of an empty or non-empty staging area; committed batch) -/
theorem C17_limit_batch {L : Nat} {s : St} {db : DB} {g : GDir} {b : BatchSt} (h : BOK L s db g b) :
    (∀ k v : ByteArray, k.size < 2 ^ 31 → v.size < 2 ^ 31 → k.size + v.size ≤ 2 ^ 27 →
      ∃ db' g' b', BOK L (bput s k v).1 db' g' b' ∧ db'.cfg = db.cfg) ∧
    (∀ k : ByteArray, k.size < 2 ^ 31 → k.size ≤ 2 ^ 27 →
      ∃ db' g' b', BOK L (bdel s k).1 db' g' b' ∧ db'.cfg = db.cfg) ∧
    (∀ k : ByteArray, (bget s k).1 = s) ∧
    (∃ db' g' b', BOK L (bcommit s).1 db' g' b' ∧ db'.cfg = db.cfg) :=
  ⟨fun k v hk hv hsm => bput_size h k v hk hv hsm, fun k hk hks => bdel_size h k hk hks,
   fun k => bget_state s k, bcommit_size h⟩

/-- **C17 (limit, `flushStaged`)** — the heart of the batch part: ALL staged records go to one
    file after at most one pre-rotation; the files keep the size invariant, and after flushing a
    non-empty staging area the active file (the last ghost file `gf1`) still has room for the
    sealing record or holds exactly the one staged record -/
theorem C17_limit_flush {L : Nat} {s : St} {db : DB} {g : GDir} (h : Files s db g) (hsz : SizeInv L g)
    (hL : db.cfg.fileSize ≤ L) (b : BatchSt) (hb : BSize db.cfg.fileSize b) :
    ∃ g1 gf1, Files (flushStaged s db b).1 (flushStaged s db b).2.1
        (g1 ++ [((flushStaged s db b).2.1.activeId, gf1)]) ∧
      SizeInv L (g1 ++ [((flushStaged s db b).2.1.activeId, gf1)]) ∧
      (b.staged ≠ [] → (bytesOf gf1).size + maxFinRecord ≤ L ∨ ∃ r, gf1 = [r]) := by
  obtain ⟨g1, gf1, h1, h2, _, _, _, _, h7⟩ := flushStaged_size h hsz hL b hb
  exact ⟨g1, gf1, h1, h2, h7⟩

/-- **C17 (limit, one step of any kind)**: plain and batch operations in any interleaving; batch
    operations without an open batch object are rejected and change nothing -/
theorem C17_limit_step {L : Nat} {s : St} (h : SizeOK L s) (op : AOp) (hop : AOpOK op) :
    SizeOK L (astep s op).1 :=
  SizeOK_astep h op hop

/-- **C17 (limit)**: every state reachable from a state that satisfies the size invariant by
    `Put / Delete / Get / Sync / NewBatch / Batch.Put / Batch.Get / Batch.Delete / Commit / drop`,
    with keys and values of at most 2^27 bytes together and positive `int64` batch ids, satisfies
    it again: every data file is within `L`, or holds a single record, or a single record and the
    sealing record of its batch -/
theorem C17_limit {L : Nat} {s : St} (h : SizeOK L s) (ops : List AOp) (hok : ∀ op ∈ ops, AOpOK op) :
    SizeOK L (arun s ops) :=
  SizeOK_arun ops h hok

/-- **C17 (limit, from a fresh database)** with `L = DataFileSize` -/
theorem C17_limit_fresh (dir : String) (cfg : Cfg) (h : cfg.Valid) (ops : List AOp)
    (hok : ∀ op ∈ ops, AOpOK op) : SizeOK cfg.fileSize (arun (openDB St.init dir cfg).1 ops) :=
  SizeOK_arun ops (SizeOK_fresh dir cfg h) hok

/-- **C17 (limit, read on the bytes)**: in a state that satisfies the size invariant every data
    file of the open database has at most `L` bytes, or is exactly the framing of one record, or
    exactly the framing of one record followed by a batch's sealing record -/
theorem C17_limit_bytes {L : Nat} {s : St} (h : SizeOK L s) :
    ∃ db, s.db = some db ∧ ∀ x ∈ (dirOf s db).data,
      x.2.bytes.size ≤ L ∨ (∃ r, x.2.bytes = bytesOf [r]) ∨ (∃ r id, x.2.bytes = bytesOf [r, finRec id]) :=
  h.bytes

/-- **C17 (limit, the property as quoted)**: a data file that EXCEEDS the bound is exactly the
    framing of a single record, or of a single record followed by the sealing record of its batch —
    and in the latter case the record alone (its framing) exceeds `L − maxFinRecord` -/
theorem C17_limit_exceeds {L : Nat} {s : St} (h : SizeOK L s) :
    ∃ db, s.db = some db ∧ ∀ x ∈ (dirOf s db).data, L < x.2.bytes.size →
      (∃ r, x.2.bytes = bytesOf [r]) ∨
      (∃ r id, x.2.bytes = bytesOf [r, finRec id] ∧ L < (bytesOf [r]).size + maxFinRecord) :=
  h.exceeds

/-- **C17 (limit, `NewBatch`)**: a new batch object (positive `int64` id) starts with an empty
    staging area, which satisfies the batch-side invariant -/
theorem C17_limit_bnew {L : Nat} {s : St} {db : DB} {g : GDir} (hs : s.db = some db) (hf : Files s db g)
    (hsz : SizeInv L g) (hL : db.cfg.fileSize ≤ L) (sync : Bool) (id : Nat) (hid : id < 2 ^ 63) :
    BOK L (bnew s sync id).1 { db with batch := some (newBatch sync id) } g (newBatch sync id) := by
  rw [bnew_eq hs]
  exact BOK.install (newBatch sync id) hf hsz hL (BSize_new _ sync id hid)

/-- **C17 (limit, dropping the batch object)** leaves the files as they are -/
theorem C17_limit_bdrop {L : Nat} {s : St} {db : DB} {g : GDir} {b : BatchSt} (h : BOK L s db g b) :
    (bdrop s).1.db = some { db with batch := none } ∧ Files (bdrop s).1 { db with batch := none } g ∧
      SizeInv L g := by
  rw [bdrop_eq h.open_]
  exact ⟨rfl, h.files.congr rfl rfl rfl, h.sizes⟩

/-- **C17 (limit, whole batch sessions)**: `NewBatch; ops…; Commit; drop` (`C05.runBatch`) -/
theorem C17_limit_runBatch {L : Nat} {s : St} (h : SizeOK L s) (sync : Bool) (id : Nat) (hid : id < 2 ^ 63)
    (ops : List C05.BOp)
    (hput : ∀ k v, C05.BOp.bput k v ∈ ops → k.size + v.size ≤ 2 ^ 27)
    (hdel : ∀ k, C05.BOp.bdel k ∈ ops → k.size ≤ 2 ^ 27) :
    SizeOK L (C05.runBatch s sync id ops).1 := by
  have hops : ∀ (ops : List C05.BOp) {s : St}, SizeOK L s →
      (∀ k v, C05.BOp.bput k v ∈ ops → k.size + v.size ≤ 2 ^ 27) →
      (∀ k, C05.BOp.bdel k ∈ ops → k.size ≤ 2 ^ 27) → SizeOK L (C05.runOps s ops).1 := by
    intro ops
    induction ops with
    | nil => intro s h _ _; exact h
    | cons op ops ih =>
      intro s h hput hdel
      have hstep : SizeOK L (C05.bstep s op).1 := by
        cases op with
        | bput k v =>
          have := hput k v (by simp)
          exact SizeOK_bput h k v (lt31_of_le27 (by omega)) (lt31_of_le27 (by omega)) this
        | bdel k => exact SizeOK_bdel h k (lt31_of_le27 (hdel k (by simp))) (hdel k (by simp))
        | bget k => exact SizeOK_bget h k
      exact ih hstep (fun k v hm => hput k v (by simp [hm])) (fun k hm => hdel k (by simp [hm]))
  exact SizeOK_bdrop (SizeOK_bcommit (hops ops (SizeOK_bnew h sync id hid) hput hdel))

/-- **C17 (limit, across a restart with another configuration)**: the files are not touched by
    `Close`/`Open`, so the invariant survives for the larger of the old bound and the new
    `DataFileSize` (which may be smaller or larger than the old one) -/
theorem C17_limit_restart {L : Nat} (s : St) (db : DB) (g : GDir) (cfg' : Cfg)
    (hdb : s.db = some db) (hinv : Inv s db g) (hsz : SizeInv L g)
    (hnomerge : s.world.get (mergeDirName db.dir) = none) (hcfg : cfg'.Valid) :
    SizeOK (max L cfg'.fileSize) (C02.restart s db.dir cfg') := by
  obtain ⟨_, s', db', hopen, hs', _, hc', _, _, _, hinv', _⟩ := C02.C02_restart s db g cfg' hdb hinv hnomerge hcfg
  have e : C02.restart s db.dir cfg' = s' := by simp only [C02.restart, hopen]
  rw [e]
  exact ⟨db', g, hs', hinv'.files, hsz.mono (Nat.le_max_left _ _), by rw [hc']; exact Nat.le_max_right _ _,
    fun b hb => by rw [hinv'.nobatch] at hb; simp at hb⟩

/-- **C17 (limit, for THE ghost directory)**: the ghost directory of an open database is determined
    by the bytes of its files (`PolicyP.Files_unique`: the framing is uniquely parseable and the
    record codec injective), so the size invariant holds for EVERY ghost directory the other
    property theorems speak about — in particular for the `g` of the engine invariant `Inv s db g`
    (C01, C02, C05) -/
theorem C17_limit_any_ghost {L : Nat} {s : St} (h : SizeOK L s) {db : DB} {g : GDir} (hs : s.db = some db)
    (hf : Files s db g) : SizeInv L g := by
  obtain ⟨db', g', hs', hf', hsz, _⟩ := h
  rw [hs] at hs'
  cases hs'
  rw [XixiKV.Engine.PolicyP.Files_unique hf hf']
  exact hsz

/-! ## non-vacuity -/

/-- the hypotheses are satisfiable and the conclusion applies to a mixed trace: a fresh database
    (any configuration, in particular a tiny `DataFileSize` that every record exceeds), plain writes,
    a batch that stages, rewrites, deletes, commits, is dropped, and a plain write again -/
example (dir : String) (cfg : Cfg) (h : cfg.Valid) (k k2 v w : ByteArray)
    (h1 : k.size + v.size ≤ 2 ^ 27) (h2 : k.size + w.size ≤ 2 ^ 27) (h3 : k2.size + w.size ≤ 2 ^ 27) :
    SizeOK cfg.fileSize (arun (openDB St.init dir cfg).1
      [.put k v, .get k, .sync, .bnew true 77, .bput k w, .bput k2 w, .bput k v, .bdel k, .bget k2,
       .bcommit, .bdrop, .del k, .put k2 w]) := by
  apply C17_limit_fresh dir cfg h
  intro op hop
  simp only [List.mem_cons, List.not_mem_nil, or_false] at hop
  have hk : k.size ≤ 2 ^ 27 := by omega
  rcases hop with e | e | e | e | e | e | e | e | e | e | e | e | e <;> subst e <;>
    first | exact h1 | exact h2 | exact h3 | exact hk | trivial | (show (77:Nat) < 2 ^ 63; decide)

/-- the single-record escape clause is really needed: with `DataFileSize = 200` a 1000-byte value
    cannot fit any file, yet the theorem applies (and the file that holds it has one record) -/
example (dir : String) (k v : ByteArray) (hk : k.size = 1) (hv : v.size = 1000) :
    SizeOK 200 (Engine.put (openDB St.init dir { fileSize := 200, sync := 0, bps := 0, idx := 0, io := 0, shards := 1 }).1 k v).1 := by
  have h27 : (2:Nat) ^ 27 = 134217728 := by decide
  exact C17_limit_step (SizeOK_fresh dir _ (by decide)) (.put k v) (by show k.size + v.size ≤ 2 ^ 27; omega)

/-- `FileOK` is monotone in the bound: a database written under `DataFileSize = 100` satisfies the
    invariant for every larger bound (e.g. after re-opening it with a larger `DataFileSize`) -/
example {s : St} (h : SizeOK 100 s) : SizeOK 4096 s := h.mono (by decide)

/-! ## evaluated sanity checks (`#guard`/`#eval`; not used by any proof) -/

private def fill (n : Nat) (b : UInt8) : ByteArray := ⟨Array.replicate n b⟩
private def K (s : String) : ByteArray := s.toUTF8
private def demoCfg : Cfg := { fileSize := 200, sync := 0, bps := 0, idx := 0, io := 0, shards := 1 }

/-- (file id, size in bytes, number of records found by the sequential scan) of every data file -/
private def fileStats (s : St) : List (Nat × Nat × Nat) :=
  match s.db with
  | some db => (dirOf s db).data.map (fun x => (x.1, x.2.bytes.size, (scan C false x.1 x.2.bytes).recs.length))
  | none => []

/-- the executable reading of `FileOK`: within the limit, or one record, or two records -/
private def statsOK (L : Nat) (l : List (Nat × Nat × Nat)) : Bool :=
  l.all (fun x => x.2.1 ≤ L || x.2.2 == 1 || x.2.2 == 2)

-- plain operations, `DataFileSize = 200`: small records share files (≤ 200 bytes each), the
-- 70 000-byte value sits alone in a file that exceeds the limit
private def demoPlain : St :=
  arun (openDB St.init "d" demoCfg).1
    [.put (K "a") (K "1"), .put (K "b") (K "2"), .put (K "c") (K "3"), .put (K "big") (fill 70000 7),
     .put (K "d") (K "4"), .put (K "e") (K "5"), .del (K "a"), .put (K "f") (fill 100 1), .put (K "g") (fill 100 2)]

#guard fileStats demoPlain = [(0, 39, 3), (1, 70030, 1), (2, 151, 4), (3, 113, 1)]
#guard statsOK 200 (fileStats demoPlain)
#guard (fileStats demoPlain).filter (fun x => x.2.1 > 200) = [(1, 70030, 1)]

-- a batch session with one oversized record: staging it flushes the small staged record into file 0
-- and rotates; at commit it is written into the fresh file 1 and followed by the sealing record
-- (2 records, 70 064 bytes > 200); everything else stays within 200 bytes
private def demoBatch : St :=
  arun (openDB St.init "d" demoCfg).1
    [.put (K "a") (K "1"), .bnew true 1234567890123, .bput (K "x") (K "1"), .bput (K "big") (fill 70000 7),
     .bcommit, .bdrop, .put (K "z") (K "9")]

#guard fileStats demoBatch = [(0, 31, 2), (1, 70064, 2), (2, 13, 1)]
#guard statsOK 200 (fileStats demoBatch)

-- a batch whose staging area is flushed in the middle (third distinct key overflows the estimate),
-- a staged key rewritten in place, a staged key deleted (cachedDataSize grows), commit
private def demoBatch2 : St :=
  arun (openDB St.init "d" demoCfg).1
    [.put (K "base") (K "B"), .bnew false 77, .bput (K "a") (K "1"), .bput (K "b") (fill 30 2), .bput (K "a") (fill 20 3),
     .bdel (K "b"), .bput (K "c") (K "4"), .bput (K "d") (K "5"), .bdel (K "base"), .bcommit, .bdrop]

#guard statsOK 200 (fileStats demoBatch2)
#guard (fileStats demoBatch2).all (fun x => x.2.1 ≤ 200)
#guard (fileStats demoBatch2).length ≥ 3

/-! ### where the estimate stops being an upper bound (closed-form search over the jump points)

`worstClosed n` = occupation of `n` payload bytes at the worst in-block offset `o = BS − 7`
(7 pad bytes, then ⌈n/32761⌉ chunks); the search steps through the payload lengths
`n = 32761·q + 1` (where the chunk count jumps) with the REAL header length of `(k, v, batch)`,
or with a fixed abstract header. The found sizes are confirmed on the model's own geometry
functions `padOf / normO / occupied / geom` below. -/

private def worstClosed (n : Nat) : Nat := n + 7 + 7 * ((n + 32760) / 32761)

private def hdrLen (k v b : Nat) : Nat :=
  1 + (Varint.putVarintNat k).length + (Varint.putVarintNat v).length + (Varint.putUvarint b).length

/-- first `(k, v, header, payload, occupied, estimate)` with `occupied > estimate`; `kOf m` = key
    length for the total `m = k + v`, `b` = batch id, `hfix` = fixed header length if given -/
private def firstViol (kOf : Nat → Nat) (b : Nat) (hfix : Option Nat) (qmin qmax : Nat) :
    Option (Nat × Nat × Nat × Nat × Nat × Nat) := Id.run do
  for q in [qmin:qmax] do
    for h in [4:22] do
      let m := 32761 * q + 1 - (22 + 3 - h)
      let k := kOf m
      let v := m - k
      let hd := match hfix with
        | some x => x
        | none => hdrLen k v b
      let n := hd + k + v
      if worstClosed n > diskSizeEstimate k v then
        return some (k, v, hd, n, worstClosed n, diskSizeEstimate k v)
  return none

-- abstract 21-byte header (the bound used in `C17_estimate`): k + v = 153 419 743
#guard firstViol (fun _ => 1) 0 (some 21) 1 4700 = some (1, 153419742, 21, 153419764, 153452559, 153452556)
-- real header, batch id ≥ 2^63 (10-byte uvarint), k = 2^27: 20 header bytes
#guard firstViol (fun m => min m (2^27)) (2^64-1) none 1 4700
  = some (134217728, 19234777, 20, 153452525, 153485327, 153485325)
-- real header, 63-bit batch id: 19 header bytes
#guard firstViol (fun m => min m (2^27)) (2^63-1) none 1 4700
  = some (134217728, 19234778, 19, 153452525, 153485327, 153485326)
-- batch record with a 1-byte key, 63-bit batch id: 16 header bytes
#guard firstViol (fun _ => 1) (2^63-1) none 1 9400 = some (1, 306806749, 16, 306806766, 306872335, 306872330)
-- plain record (batch id 0), k = 2^27: 12 header bytes
#guard firstViol (fun m => min m (2^27)) 0 none 1 9400
  = some (134217728, 172621787, 12, 306839527, 306905103, 306905102)
-- plain record with a 1-byte key: 8 header bytes
#guard firstViol (fun _ => 1) 0 none 1 14100 = some (1, 460226520, 8, 460226529, 460324879, 460324875)
-- no violation at all up to k + v = 2^27 + 32761 for any of the above (consistent with `C17_estimate`)
#guard firstViol (fun _ => 1) 0 (some 21) 1 4098 = none

-- confirmation on the model's geometry functions: the violation is real
#guard hdrLen 134217728 19234777 (2^64-1) = 20
#guard padOf (BS - 7) + occupied (normO (BS - 7)) (20 + 134217728 + 19234777) = 153485327
#guard diskSizeEstimate 134217728 19234777 = 153485325
#guard (geom (BS - 7) (20 + 134217728 + 19234777)).2.2.2 > (BS - 7) + diskSizeEstimate 134217728 19234777
#guard padOf (BS - 7) + occupied (normO (BS - 7)) (8 + 1 + 460226520) > diskSizeEstimate 1 460226520
-- the closed form agrees with the model's geometry at the worst offset
#guard [1, 100, 32761, 32762, 65522, 65523, 1000000].all fun n =>
  padOf (BS - 7) + occupied (normO (BS - 7)) n = worstClosed n
-- and the sealing record of the largest 63-bit id: 31 bytes encoded (the theorem says ≤ 32), at most
-- 45 bytes on disk (the theorem says ≤ 70 = maxFinRecord)
#guard (encodeRecord (finRec (2^63 - 1))).size = 31
#guard ([0, 1, BS - 8, BS - 7, BS - 1, BS - 40].map fun o => padOf o + occupied (normO o) 31)
  = [38, 38, 45, 45, 39, 38]

/-! ## axioms -/


/-- `GetLogRecordDiskSize` as TRANSLATED from /repo's current source (`Generated/Trans.lean`, 64-bit
    wrap-around arithmetic) is the model's `diskSizeEstimate` — the estimate whose soundness
    (`estimate ≥ bytes occupied`) the file-size-limit theorems above rest on. -/
theorem C17_translated_size_estimate (keySize valueSize : Nat) (hk : keySize < 2^61) (hv : valueSize < 2^61) :
    Generated.Trans.datafile.GetLogRecordDiskSize (keySize : Int) (valueSize : Int)
      = (Record.diskSizeEstimate keySize valueSize : Int) :=
  TransEq.trans_GetLogRecordDiskSize_eq keySize valueSize hk hv

end XixiKV.C17
