import XixiKV.Proofs.ShardIter
/-!
# C10 — iterators, ListKeys and Fold enumerate a sorted, complete, stable snapshot

Model: `Model/ShardIter.lean` (per-shard cursors of all three index types, the heap merge
`IndexIterator` with its parked cursors, the DB-level prefix filter `skipToNext`, and the
specification `Abs` = sorted array + index).  Helper lemmas and the simulation invariant:
`Proofs/ShardIter.lean`.

Reading guide.
* `idx` is the ascending content of the whole index at the moment the iterator is created
  (`idx.Pairwise (keyLt ·.1 ·.1)`: sorted by `bytes.Compare`, hence duplicate free).
* `shardOf : Key → Nat` is an arbitrary function with `shardOf k < n` on the keys present
  (Go: `xxhash(key) & (cap-1)`); `shardsOf shardOf n idx` are the per-shard contents.
* `calls` ranges over all finite sequences of `Rewind / Next / Seek k`.  `Valid / Key / Value` do not
  change the state (`IndexIterator.valid/key/value` are functions of the state), so they are the
  observation `Obs` taken on the fresh iterator and after every call (`trace`).
* `Seek` is forward-only, in the Go code (`IndexIterator.Seek` returns at once when the target lies
  before the current key in iteration order, and on an exhausted iterator) and in the specification
  (`Abs.seek`: move to the lower-bound index of the target unless that is below the cursor).  So no
  side condition on the call sequence is needed: the theorems hold for *all* sequences.
  `C10_seek_absolute_when_admissible` records that nothing claimed earlier is lost: on the call
  sequences whose every `Seek` target is at or ahead of the cursor (`Abs.admissible`; always the case
  on a fresh or just rewound iterator) `Seek k` is the absolute positioning `Abs.seekTo` — the first
  item `≥ k` (`≤ k` reversed).
* Snapshot stability ("later writes do not disturb it") is by construction of the cursors: they are
  created from `idx` and no call reads the live index again (map / skip list: copied slice; B-tree:
  copy-on-write clone, trusted).
-/
namespace XixiKV.C10
open XixiKV.Index XixiKV.ShardIter

/-- **C10_cursor** (DB-level iterator, `DB.NewIterator`): for every shard function, number of
    shards, index type, direction, prefix, sorted snapshot and call sequence, the sharded
    iterator shows exactly what the abstract cursor over the sorted, prefix-filtered snapshot shows —
    same `Valid`, `Key`, `Value` on the fresh iterator and after every call. -/
theorem C10_cursor {V : Type} (shardOf : Key → Nat) (n : Nat) (typ : IndexType) (rev : Bool) (pre : Key)
    (idx : List (Key × V)) (hsorted : idx.Pairwise (fun a b => keyLt a.1 b.1 = true))
    (hshard : ∀ x ∈ idx, shardOf x.1 < n)
    (calls : List Call) :
    (DBIter.new typ rev pre (shardsOf shardOf n idx)).trace calls = (Abs.new rev pre idx).trace calls :=
  trace_db (DSim.new typ rev pre shardOf n (sorted_of_pairwise hsorted) hshard) calls

/-- **C10_cursor_index**: the same for the index-level iterator `ShardedIndex.Iterator`
    (no prefix; what `ListKeys`, `Fold` and the `index` package tests use). -/
theorem C10_cursor_index {V : Type} (shardOf : Key → Nat) (n : Nat) (typ : IndexType) (rev : Bool)
    (idx : List (Key × V)) (hsorted : idx.Pairwise (fun a b => keyLt a.1 b.1 = true))
    (hshard : ∀ x ∈ idx, shardOf x.1 < n)
    (calls : List Call) :
    (IndexIterator.create typ rev (shardsOf shardOf n idx)).trace calls =
      (Abs.newIndex rev idx).trace calls :=
  trace_index (Sim.create typ rev shardOf n (sorted_of_pairwise hsorted) hshard) calls

/-- **C10_complete_sorted**: from any state reached by any call sequence (fresh,
    mid-way, exhausted), `Rewind` followed by the loop `for ; Valid(); Next()` yields exactly the
    snapshot items whose key has the prefix, with the value they had at creation, in iteration order;
    that list is strictly ordered (each key once); and the loop stops after exactly that many rounds
    (any `fuel ≥` the number of items gives the same result). -/
theorem C10_complete_sorted {V : Type} (shardOf : Key → Nat) (n : Nat) (typ : IndexType) (rev : Bool)
    (pre : Key) (idx : List (Key × V)) (hsorted : idx.Pairwise (fun a b => keyLt a.1 b.1 = true))
    (hshard : ∀ x ∈ idx, shardOf x.1 < n)
    (calls : List Call)
    (fuel : Nat) (hfuel : ((iterOrder rev idx).filter (fun x => hasPrefix pre x.1)).length ≤ fuel) :
    (((DBIter.new typ rev pre (shardsOf shardOf n idx)).run calls).rewind.collect fuel
        = ((iterOrder rev idx).filter (fun x => hasPrefix pre x.1)).map (fun x => (some x.1, some x.2)))
    ∧ ((iterOrder rev idx).filter (fun x => hasPrefix pre x.1)).Pairwise
        (fun a b => before rev a.1 b.1 = true) :=
  ⟨complete_db (DSim.new typ rev pre shardOf n (sorted_of_pairwise hsorted) hshard) calls fuel hfuel,
   ((sorted_of_pairwise hsorted).iterOrder (rev := rev)).filter _⟩

/-- **C10_listkeys**: the `ListKeys` / `Fold` loop `for it.Rewind(); it.Valid(); it.Next()` over
    `ShardedIndex.Iterator(reverse)` visits the whole snapshot in order (`ListKeys` collects the keys,
    `Fold` passes key and the value read at the snapshot position). -/
theorem C10_listkeys {V : Type} (shardOf : Key → Nat) (n : Nat) (typ : IndexType) (rev : Bool)
    (idx : List (Key × V)) (hsorted : idx.Pairwise (fun a b => keyLt a.1 b.1 = true))
    (hshard : ∀ x ∈ idx, shardOf x.1 < n) (fuel : Nat) (hfuel : idx.length ≤ fuel) :
    (IndexIterator.create typ rev (shardsOf shardOf n idx)).rewind.collect fuel
      = (iterOrder rev idx).map (fun x => (some x.1, some x.2)) :=
  complete_index (Sim.create typ rev shardOf n (sorted_of_pairwise hsorted) hshard) fuel
    (by simpa [Abs.newIndex, iterOrder_length] using hfuel)

/-- **C10_index_type_irrelevant**: the cursor implementation (B-tree cursor with its `isIterable`
    early returns vs. the array cursors of map / skip list) cannot be observed through the sharded
    iterator by *any* call sequence, index level or DB level. -/
theorem C10_index_type_irrelevant {V : Type} (typ typ' : IndexType) (rev : Bool) (pre : Key)
    (shards : List (List (Key × V)))
    (hsorted : ∀ s ∈ shards, s.Pairwise (fun a b => keyLt a.1 b.1 = true)) (calls : List Call) :
    (IndexIterator.create typ rev shards).trace calls = (IndexIterator.create typ' rev shards).trace calls ∧
    (DBIter.new typ rev pre shards).trace calls = (DBIter.new typ' rev pre shards).trace calls :=
  ⟨(ItSame.create typ typ' rev (fun s hs => sorted_of_pairwise (hsorted s hs))).trace calls,
   (DSame.new typ typ' rev pre (fun s hs => sorted_of_pairwise (hsorted s hs))).trace calls⟩

/-- **C10_seek_absolute_when_admissible**: what was claimed before `Seek` became forward-only still
    holds.  On every call sequence all of whose `Seek` targets are at or ahead of the cursor
    (`Abs.admissible`: the lower-bound index of the target is not below the cursor; always so on a
    fresh or just rewound iterator) the sharded iterator shows what the abstract cursor with the
    *absolute* positioning `Abs.seekTo` shows: `Seek k` lands on the first item `≥ k` (`≤ k` reversed). -/
theorem C10_seek_absolute_when_admissible {V : Type} (shardOf : Key → Nat) (n : Nat) (typ : IndexType)
    (rev : Bool) (pre : Key)
    (idx : List (Key × V)) (hsorted : idx.Pairwise (fun a b => keyLt a.1 b.1 = true))
    (hshard : ∀ x ∈ idx, shardOf x.1 < n)
    (calls : List Call) :
    ((Abs.new rev pre idx).admissible calls = true →
      (DBIter.new typ rev pre (shardsOf shardOf n idx)).trace calls = (Abs.new rev pre idx).traceTo calls) ∧
    ((Abs.newIndex rev idx).admissible calls = true →
      (IndexIterator.create typ rev (shardsOf shardOf n idx)).trace calls =
        (Abs.newIndex rev idx).traceTo calls) :=
  ⟨fun hadm => by rw [C10_cursor shardOf n typ rev pre idx hsorted hshard calls, Abs.trace_eq_traceTo calls hadm],
   fun hadm => by rw [C10_cursor_index shardOf n typ rev idx hsorted hshard calls, Abs.trace_eq_traceTo calls hadm]⟩

/-- **C10_seek_never_backwards**: a `Seek` whose target lies before the current key in iteration
    order, or on an exhausted iterator, leaves the abstract cursor — hence, by `C10_cursor`, the
    sharded iterator's observable state — where it is; every other `Seek` is the absolute positioning. -/
theorem C10_seek_never_backwards {V : Type} (a : Abs V) (k : Key) :
    (¬ a.i < a.A.length → a.seek k = a) ∧
    (∀ h : a.i < a.A.length, before a.reverse k a.A[a.i].1 = true → a.seek k = a) ∧
    (∀ h : a.i < a.A.length, a.A.Pairwise (fun x y => before a.reverse x.1 y.1 = true) →
      before a.reverse k a.A[a.i].1 = false → a.seek k = a.seekTo k ∧ a.i ≤ (a.seekTo k).i) :=
  ⟨Abs.seek_exhausted k, fun h hb => Abs.seek_passed h hb,
   fun h hs hb => ⟨(Abs.seek_ahead hs h hb).2, (Abs.seek_ahead hs h hb).1⟩⟩

/-! ## the hypotheses are satisfiable: a concrete instance (4 shards, 7 keys, prefix `b`) -/

/-- a key from its bytes -/
def k (s : List Nat) : Key := ⟨(s.map Nat.toUInt8).toArray⟩

/-- `a0 a1 a2 b1 b2 b3 c` with values `1..7` -/
def exIdx : List (Key × Nat) :=
  [(k [97,48], 1), (k [97,49], 2), (k [97,50], 3), (k [98,49], 4), (k [98,50], 5), (k [98,51], 6), (k [99], 7)]

/-- shard = last byte mod 4 -/
def exShard (x : Key) : Nat := (x.data.toList.getLastD 0).toNat % 4

/-- `Next; Seek b2; Next; Next (exhausted); Next; Rewind; Seek a; Seek b15` -/
def exCalls : List Call :=
  [.next, .seek (k [98,50]), .next, .next, .next, .rewind, .seek (k [97]), .seek (k [98,49,53])]

def ob (key : List Nat) (v : Nat) : Obs Nat := ⟨true, some (k key), some v⟩
def inv : Obs Nat := ⟨false, none, none⟩

example : exIdx.Pairwise (fun a b => keyLt a.1 b.1 = true) := by decide
example : ∀ x ∈ exIdx, exShard x.1 < 4 := by decide
example : (shardsOf exShard 4 exIdx).map (·.map (·.2)) = [[1], [2, 4], [3, 5], [6, 7]] := by decide
example : (Abs.new false (k [98]) exIdx).admissible exCalls = true := by decide
example : (Abs.new true (k [98]) exIdx).admissible [.next, .seek (k [98, 49, 53]), .next, .rewind] = true := by decide
example : (Abs.newIndex false exIdx).admissible exCalls = true := by decide

/-- what `C10_cursor` then says for the B-tree index, forward, prefix `b` -/
example : (DBIter.new .btree false (k [98]) (shardsOf exShard 4 exIdx)).trace exCalls =
    [ob [98,49] 4, ob [98,50] 5, ob [98,50] 5, ob [98,51] 6, inv, inv, ob [98,49] 4, ob [98,49] 4, ob [98,50] 5] := by
  decide
example : (Abs.new false (k [98]) exIdx).trace exCalls =
    [ob [98,49] 4, ob [98,50] 5, ob [98,50] 5, ob [98,51] 6, inv, inv, ob [98,49] 4, ob [98,49] 4, ob [98,50] 5] := by
  decide
/-- map index, reverse, prefix `b`: `Next; Seek b15; Next; Rewind` -/
example : (DBIter.new .hashmap true (k [98]) (shardsOf exShard 4 exIdx)).trace
      [.next, .seek (k [98, 49, 53]), .next, .rewind] =
    [ob [98,51] 6, ob [98,50] 5, ob [98,49] 4, inv, ob [98,51] 6] := by
  decide
/-- `ListKeys` / `Fold` on the skip-list index -/
example : (IndexIterator.create .skiplist false (shardsOf exShard 4 exIdx)).rewind.collect 7 =
    exIdx.map (fun x => (some x.1, some x.2)) := by
  decide

/-- the theorems applied to the instance (all hypotheses discharged by evaluation) -/
example : (DBIter.new .btree false (k [98]) (shardsOf exShard 4 exIdx)).trace exCalls =
    (Abs.new false (k [98]) exIdx).trace exCalls :=
  C10_cursor exShard 4 .btree false (k [98]) exIdx (by decide) (by decide) exCalls
example : (IndexIterator.create .hashmap true (shardsOf exShard 4 exIdx)).trace [.seek (k [98, 49, 53]), .next] =
    (Abs.newIndex true exIdx).trace [.seek (k [98, 49, 53]), .next] :=
  C10_cursor_index exShard 4 .hashmap true exIdx (by decide) (by decide) _
example := C10_complete_sorted exShard 4 .skiplist true (k [98]) exIdx (by decide) (by decide)
  [.next, .seek (k [98, 49, 53]), .next, .next, .rewind, .next] 3 (by decide)
example := C10_listkeys exShard 4 .btree false exIdx (by decide) (by decide) 7 (by decide)
example := C10_index_type_irrelevant .btree .hashmap true (k [98]) (shardsOf exShard 4 exIdx) (by decide)
  [.next, .next, .seek (k [99]), .seek (k [97])]

/-! ## backward seeks: the sharded iterator and the abstract cursor agree

Keys `a … f` on 4 shards as the real hash places them (`xxhash & 3`: `a b ↦ 3`, `c f ↦ 1`,
`d e ↦ 0`).  After two `Next` the cursor of shard 3 is exhausted and parked.  Before the repair
`Seek a` re-seeked only the cursors in the heap and landed on `c` with 4 shards but on `a` with one
shard, and after one `Next` only it found `a` with 4 shards too: the outcome depended on the history
and on the shard count.  Now `Seek a` lies before the current key `c` and is ignored — by the
sharded iterator for every shard count, and by the abstract cursor.  Second instance: `Seek` on an
exhausted iterator is ignored on both sides. -/

def bwIdx : List (Key × Nat) :=
  [(k [97], 1), (k [98], 2), (k [99], 3), (k [100], 4), (k [101], 5), (k [102], 6)]
def bwShard (x : Key) : Nat :=
  if x = k [97] ∨ x = k [98] then 3 else if x = k [99] ∨ x = k [102] then 1 else 0

/-- the formerly differing sequence agrees: 4 shards, 1 shard, and the abstract cursor -/
theorem backward_seek_agrees :
    (Abs.newIndex false bwIdx).admissible [.next, .next, .seek (k [97])] = false ∧
    (IndexIterator.create .btree false (shardsOf bwShard 4 bwIdx)).trace [.next, .next, .seek (k [97])]
      = [ob [97] 1, ob [98] 2, ob [99] 3, ob [99] 3] ∧
    (IndexIterator.create .btree false (shardsOf (fun _ => 0) 1 bwIdx)).trace [.next, .next, .seek (k [97])]
      = [ob [97] 1, ob [98] 2, ob [99] 3, ob [99] 3] ∧
    (Abs.newIndex false bwIdx).trace [.next, .next, .seek (k [97])]
      = [ob [97] 1, ob [98] 2, ob [99] 3, ob [99] 3] ∧
    (IndexIterator.create .btree false (shardsOf bwShard 4 bwIdx)).trace [.next, .seek (k [97])]
      = [ob [97] 1, ob [98] 2, ob [98] 2] ∧
    (Abs.newIndex false bwIdx).trace [.next, .seek (k [97])] = [ob [97] 1, ob [98] 2, ob [98] 2] := by
  decide

/-- `Seek` on an exhausted iterator (reverse, skip list): ignored on both sides -/
theorem exhausted_seek_agrees :
    (Abs.newIndex true exIdx).admissible [.seek (k [97]), .seek (k [98, 49, 53])] = false ∧
    (IndexIterator.create .skiplist true (shardsOf exShard 4 exIdx)).trace [.seek (k [97]), .seek (k [98, 49, 53])]
      = [ob [99] 7, inv, inv] ∧
    (Abs.newIndex true exIdx).trace [.seek (k [97]), .seek (k [98, 49, 53])] = [ob [99] 7, inv, inv] := by
  decide

/-- the theorems on these non-admissible sequences -/
example := C10_cursor_index bwShard 4 .btree false bwIdx (by decide) (by decide) [.next, .next, .seek (k [97])]
example := C10_cursor_index exShard 4 .skiplist true exIdx (by decide) (by decide)
  [.seek (k [97]), .seek (k [98, 49, 53])]
/-- and on an admissible one the absolute positioning is what is seen -/
example : (DBIter.new .btree false (k [98]) (shardsOf exShard 4 exIdx)).trace exCalls =
    (Abs.new false (k [98]) exIdx).traceTo exCalls :=
  (C10_seek_absolute_when_admissible exShard 4 .btree false (k [98]) exIdx (by decide) (by decide) exCalls).1
    (by decide)

end XixiKV.C10


