import XixiKV.Proofs.EngineMerge.Frame
import XixiKV.Properties.C02
import XixiKV.Proofs.Fio
/-!
# C20 — a backup opens to the state at the time of the backup

"Backup(dir) … produces a directory that opens as an independent database holding exactly the
mapping the source had when Backup was called; the source is unaffected and remains usable, and
the copy does not carry the source's directory lock."

`Engine.backup` mirrors `DB.Backup` = `utils.CopyDir(src, dest, exclude = lock file)`: every data
file and the hint file (if any) is copied, the lock file is not.  The model has ONE handle, so
"opens as an independent database" is stated as: after `Close` of the source, `Open dest` (any
valid configuration).  In the model the copy's bytes are values, so later source writes cannot
alias them; that the Go copy is alias-free as well (it is made with `io.Copy` into new files) is
what the differential runs of the C20 check observe.
-/
namespace XixiKV.C20
open XixiKV XixiKV.Frame XixiKV.Record XixiKV.Index XixiKV.Engine XixiKV.Engine.Restart XixiKV.Engine.MergeP XixiKV.Adopt

/-- **C20, a backup into a directory that is NOT empty** — typically the directory of an earlier
    backup of the same database, or the directory a database used to live in.  `dest` is any
    directory other than the data directory itself, not held open; whatever data files and hint file
    it held before are gone or overwritten (`removeStaleBackupFiles` + `CopyDir`), and a merge
    directory `dest ++ "-merge"` left next to it is REMOVED first (`removeStaleMergeDir`), so that
    opening the copy has nothing to adopt.  Then `Backup` succeeds and

    1. the source is unaffected: same handle, every directory other than `dest` and
       `mergeDirName dest` unchanged, the invariant still holds for `g`, every key maps to the same
       value; the directory `mergeDirName dest` does not exist afterwards (unless it IS the data
       directory, which is never touched) and nothing is adoptable next to `dest`;
    2. `dest` now exists, is NOT locked, and its data files are byte for byte the ghost files `g`
       (`Matches`), its hint file is the source's (or absent);
    3. the copy opens: after `Close` of the source, `Open dest` with ANY valid configuration
       succeeds, satisfies the invariant for the same ghost directory `g` and maps every key to
       what the source mapped it to when `Backup` was called;
    4. the copy is independent: `Put` / `Delete` / `Sync` on the source after the backup leave the
       directory `dest` untouched (so 3. keeps holding for the mapping at backup time).

    History of the hypotheses.  (a) Before repair ca47810 `CopyDir` only added and overwrote: a data
    file that a merge had reclaimed in the source meanwhile survived in `dest` and was replayed when
    the copy was opened — deleted keys came back; the hypothesis `hfresh` of `C20_backup` excluded
    exactly that.  (b) Before repair 88d026d `Backup` never looked at `dest ++ "-merge"`: a finished
    merge directory left there by a database that used to live at `dest` was ADOPTED over the freshly
    copied files when the copy was opened (reproduced on the code: 94 of 500 keys wrong); the proof
    of clause 3 had forced the hypothesis `plan s.world dest = none`, which excluded exactly that
    point.  With the repair that hypothesis is gone: `hplan` below is asked ONLY in the corner where
    `dest ++ "-merge"` is the source's own data directory (`dest = "x"`, `db.dir = "x-merge"`),
    which `Backup` must not remove; there it says that the live data directory does not carry an
    adoptable merge marker (the invariant `Inv` does not speak about the marker of the data
    directory).  For every other `dest` it is discharged by `fun e => absurd e h`
    (`C20_backup_over'`). -/
theorem C20_backup_over (s : St) (db : DB) (g : GDir) (dest : String) (cfg' : Cfg)
    (hdb : s.db = some db) (hinv : Inv s db g)
    (hne : dest ≠ db.dir) (hunl : ((s.world.get dest).getD DirSt.empty).locked = false)
    (hplan : mergeDirName dest = db.dir → plan s.world dest = none) (hcfg : cfg'.Valid) :
    ∃ s', backup s dest = (s', .ok) ∧
      -- 1. source unaffected; the stale merge directory next to `dest` is gone
      s'.db = some db ∧ (∀ n, n ≠ dest → n ≠ mergeDirName dest → s'.world.get n = s.world.get n) ∧
      (s'.world.get (mergeDirName dest) = if mergeDirName dest = db.dir then s.world.get db.dir else none) ∧
      plan s'.world dest = none ∧
      Inv s' db g ∧
      (∀ k, absGet s' db k = absGet s db k) ∧
      -- 2. the copy
      (∃ dd, s'.world.get dest = some dd ∧ dd.locked = false ∧ Matches dd.data g ∧ dd.hint = (dirOf s db).hint ∧
        dd.marker = ((s.world.get dest).getD DirSt.empty).marker) ∧
      -- 3. the copy opens to the mapping at backup time
      (∃ s'' db'', (close s').2 = .ok ∧ openDB (close s').1 dest cfg' = (s'', .ok) ∧ s''.db = some db'' ∧
        db''.dir = dest ∧ db''.cfg = cfg' ∧ Inv s'' db'' g ∧ (∀ k, absGet s'' db'' k = absGet s db k)) ∧
      -- 4. later source writes do not touch the copy
      (∀ k v, (put s' k v).1.world.get dest = s'.world.get dest) ∧
      (∀ k, (delete s' k).1.world.get dest = s'.world.get dest) ∧
      ((syncDB s').1.world.get dest = s'.world.get dest) := by
  obtain ⟨d, hd, hlock, hm⟩ := hinv.dir
  have hb := backup_eq' s db d dest hdb hd
  rw [hunl] at hb
  have hW := backupWorld_get s db dest
  have hWd : (backupWorld s db dest).get db.dir = some d := by rw [backupWorld_get_dir]; exact hd
  have hWm := backupWorld_get_mname s db dest
  have hWp := backupWorld_plan s db dest hplan
  generalize backupWorld s db dest = W at hb hW hWd hWm hWp
  obtain ⟨mk, hmk⟩ : ∃ mk, mk = ((s.world.get dest).getD DirSt.empty).marker := ⟨_, rfl⟩
  rw [← hmk] at hb
  have hms : Matches (syncAll d.data) g := Matches_syncAll hm
  obtain ⟨S, hS⟩ : ∃ S : St, S = ⟨W.set dest ⟨syncAll d.data, d.hint, mk, false⟩, s.db⟩ := ⟨_, rfl⟩
  rw [← hS] at hb
  have hSw : S.world = W.set dest ⟨syncAll d.data, d.hint, mk, false⟩ := by rw [hS]
  have hSdb : S.db = some db := by rw [hS]; exact hdb
  have hSd : S.world.get db.dir = some d := by rw [hSw, MergeP.get_set_ne _ _ _ _ hne.symm]; exact hWd
  have hSdest : S.world.get dest = some ⟨syncAll d.data, d.hint, mk, false⟩ := by rw [hSw, MergeP.get_set_self]
  have hSp : plan S.world dest = none := by
    rw [hSw, plan_set _ _ _ _ (Or.inl (mname_ne dest).symm)]; exact hWp
  refine ⟨S, hb, hSdb, ?_, ?_, hSp, ?_, ?_, ?_, ?_, ?_, ?_, ?_⟩
  · intro n hn hn'; rw [hSw, MergeP.get_set_ne _ _ _ _ hn]; exact hW n hn'
  · rw [hSw, MergeP.get_set_ne _ _ _ _ (mname_ne dest)]; exact hWm
  · exact ⟨⟨d, hSd, hlock, hm⟩, hinv.asc, hinv.active, hinv.recs,
      hinv.index, hinv.sorted, hinv.counters, hinv.nobatch⟩
  · intro k
    apply absGet_congr _ _ _ _ rfl
    intro id
    simp only [dirOf, hSd, hd]
  · exact ⟨_, hSdest, rfl, hms, by simp only [dirOf, hd, Option.getD_some], hmk⟩
  · -- open the copy
    have hclose := close_eq S db d hSdb hSd
    rw [hclose]
    simp only []
    have hplan' : plan (S.world.set db.dir { d with data := syncAll d.data, locked := false }) dest = none := by
      rw [plan_set S.world db.dir dest { d with data := syncAll d.data, locked := false } (Or.inr ⟨d, hSd, rfl⟩)]
      exact hSp
    have hopen := openDB_ghost
      { world := S.world.set db.dir { d with data := syncAll d.data, locked := false }, db := none }
      dest cfg' ⟨syncAll d.data, d.hint, mk, false⟩ g db.activeId rfl hcfg
      (by show World.get _ dest = _; rw [MergeP.get_set_ne _ _ _ _ hne, hSdest]) rfl hplan' hms hinv.recs hinv.active
    have hinv'' := Inv_scanDB
      ((S.world.set db.dir { d with data := syncAll d.data, locked := false }).set dest
        { (⟨syncAll d.data, d.hint, mk, false⟩ : DirSt) with locked := true })
      dest cfg' _ g db.activeId (MergeP.get_set_self _ _ _) rfl hms hinv.asc hinv.recs hinv.active
      { world := _, db := some (scanDB cfg' dest db.activeId g) } rfl
    exact ⟨_, _, trivial, hopen, rfl, rfl, rfl, hinv'', fun k => absGet_same_ghost hinv'' hinv k⟩
  · intro k v; exact put_get_other S k v db hSdb dest hne
  · intro k; exact delete_get_other S k db hSdb dest hne
  · exact syncDB_get_other S db hSdb dest hne

/-- `C20_backup_over` for every destination whose sibling `dest ++ "-merge"` is not the source's own
    data directory — NO hypothesis about what lies next to `dest`: whatever merge directory was
    there (finished, with a marker, foreign) does not exist afterwards. -/
theorem C20_backup_over' (s : St) (db : DB) (g : GDir) (dest : String) (cfg' : Cfg)
    (hdb : s.db = some db) (hinv : Inv s db g)
    (hne : dest ≠ db.dir) (hmn : mergeDirName dest ≠ db.dir)
    (hunl : ((s.world.get dest).getD DirSt.empty).locked = false) (hcfg : cfg'.Valid) :
    ∃ s', backup s dest = (s', .ok) ∧
      s'.db = some db ∧ (∀ n, n ≠ dest → n ≠ mergeDirName dest → s'.world.get n = s.world.get n) ∧
      s'.world.get (mergeDirName dest) = none ∧
      plan s'.world dest = none ∧
      Inv s' db g ∧
      (∀ k, absGet s' db k = absGet s db k) ∧
      (∃ dd, s'.world.get dest = some dd ∧ dd.locked = false ∧ Matches dd.data g ∧ dd.hint = (dirOf s db).hint ∧
        dd.marker = ((s.world.get dest).getD DirSt.empty).marker) ∧
      (∃ s'' db'', (close s').2 = .ok ∧ openDB (close s').1 dest cfg' = (s'', .ok) ∧ s''.db = some db'' ∧
        db''.dir = dest ∧ db''.cfg = cfg' ∧ Inv s'' db'' g ∧ (∀ k, absGet s'' db'' k = absGet s db k)) ∧
      (∀ k v, (put s' k v).1.world.get dest = s'.world.get dest) ∧
      (∀ k, (delete s' k).1.world.get dest = s'.world.get dest) ∧
      ((syncDB s').1.world.get dest = s'.world.get dest) := by
  obtain ⟨s', h0, h1, h2, h3, h⟩ := C20_backup_over s db g dest cfg' hdb hinv hne hunl (fun e => absurd e hmn) hcfg
  rw [if_neg hmn] at h3
  exact ⟨s', h0, h1, h2, h3, h⟩

/-- **C20.**  Let `db` be open on `s` with the invariant for the ghost directory `g`; let `dest` be
    a directory that does not exist yet.  Nothing is asked about `dest ++ "-merge"`: a merge directory
    left there is removed by `Backup` (repair 88d026d; before it the hypothesis
    `plan s.world dest = none` was needed and excluded a real defect, see `C20_backup_over`) — except
    in the corner where `dest ++ "-merge"` is the source's own data directory, where `hplan` says
    that the live data directory carries no adoptable marker.  Then `Backup` succeeds and

    1. the source is unaffected: same handle, every directory other than `dest` and
       `mergeDirName dest` unchanged, `mergeDirName dest` does not exist afterwards (unless it is
       the data directory), the invariant still holds for `g`, every key maps to the same value;
    2. `dest` now exists, is NOT locked, has no marker, and its data files are byte for byte the
       ghost files `g` (`Matches`);
    3. the copy opens: after `Close` of the source, `Open dest` with ANY valid configuration
       succeeds, satisfies the invariant for the same ghost directory `g` and maps every key to
       what the source mapped it to when `Backup` was called;
    4. the copy is independent: `Put` / `Delete` / `Sync` on the source after the backup leave the
       directory `dest` untouched (so 3. keeps holding for the mapping at backup time). -/
theorem C20_backup (s : St) (db : DB) (g : GDir) (dest : String) (cfg' : Cfg)
    (hdb : s.db = some db) (hinv : Inv s db g)
    (hfresh : s.world.get dest = none)
    (hplan : mergeDirName dest = db.dir → plan s.world dest = none) (hcfg : cfg'.Valid) :
    ∃ s', backup s dest = (s', .ok) ∧
      -- 1. source unaffected
      s'.db = some db ∧ (∀ n, n ≠ dest → n ≠ mergeDirName dest → s'.world.get n = s.world.get n) ∧
      (s'.world.get (mergeDirName dest) = if mergeDirName dest = db.dir then s.world.get db.dir else none) ∧
      Inv s' db g ∧
      (∀ k, absGet s' db k = absGet s db k) ∧
      -- 2. the copy
      (∃ dd, s'.world.get dest = some dd ∧ dd.locked = false ∧ dd.marker = none ∧ Matches dd.data g) ∧
      -- 3. the copy opens to the mapping at backup time
      (∃ s'' db'', (close s').2 = .ok ∧ openDB (close s').1 dest cfg' = (s'', .ok) ∧ s''.db = some db'' ∧
        db''.dir = dest ∧ db''.cfg = cfg' ∧ Inv s'' db'' g ∧ (∀ k, absGet s'' db'' k = absGet s db k)) ∧
      -- 4. later source writes do not touch the copy
      (∀ k v, (put s' k v).1.world.get dest = s'.world.get dest) ∧
      (∀ k, (delete s' k).1.world.get dest = s'.world.get dest) ∧
      ((syncDB s').1.world.get dest = s'.world.get dest) := by
  obtain ⟨d, hd, _, _⟩ := hinv.dir
  have hne : dest ≠ db.dir := by
    intro e; rw [e, hd] at hfresh; cases hfresh
  obtain ⟨s', h0, h1, h2, h3, _, h5, h6, ⟨dd, hdd, hl, hmt, _, hmk⟩, h8⟩ :=
    C20_backup_over s db g dest cfg' hdb hinv hne (by rw [hfresh]; rfl) hplan hcfg
  rw [hfresh] at hmk
  exact ⟨s', h0, h1, h2, h3, h5, h6, ⟨dd, hdd, hl, hmk, hmt⟩, h8⟩

/-! ## the mmap path of `Backup`: `ResetFileSize` shrinks the 512 MiB-extended files first, and the
    source keeps appending afterwards (`Model/Fio.lean`) -/

/-- After `ResetFileSize` (any `MMap` state) the file on disk has exactly the logical size — this is
    the file `CopyDir` copies — and the next write and the next read re-map and succeed. -/
theorem C20_mmap_reset (B : Nat) (hB : 0 < B) (m : Fio.MMap) (b : ByteArray) (off len : Nat) :
    m.resetFileSize.1.os.bytes.size = m.virt ∧
    (m.resetFileSize.1.write B b).2 = .n b.size ∧
    (0 < b.size → (m.resetFileSize.1.write B b).1.mapped = true) ∧
    (m.resetFileSize.1.read B off len).2 ≠ .fault :=
  ⟨Fio.size_ftruncate _ _, Fio.Fio_reset_then_access B hB m b off len⟩

/-- The repair 5e9ebf0 is necessary: with a `ResetFileSize` that cuts the file but keeps the
    mapping, the first non-empty write after a backup stores beyond the end of the file. -/
theorem C20_mmap_reset_needs_unmap (B : Nat) (hB : 0 < B) (f : Fio.OsFile) (b : ByteArray)
    (h0 : 0 < b.size) (hb : b.size ≤ B) :
    ((Fio.MMap.open B f).resetFileSizeOld.1.write B b).2 = .fault :=
  Fio.Fio_needs_unmap B hB f b h0 hb

/-! ## non-vacuity: the example state of C02 (one file, one record), backed up to "b" -/

example : ∃ s', backup C02.exSt "b" = (s', .ok) ∧ Inv s' C02.exDB C02.exG ∧
    ∃ s'' db'', openDB (close s').1 "b" { fileSize := 7, sync := 1, bps := 3, idx := 2, io := 1, shards := 64 } = (s'', .ok) ∧
      s''.db = some db'' ∧ ∀ k, absGet s'' db'' k = absGet C02.exSt C02.exDB k := by
  obtain ⟨s', h1, _, _, _, h2, _, _, ⟨s'', db'', _, h3, h4, _, _, _, h5⟩, _⟩ := C20_backup C02.exSt C02.exDB C02.exG "b"
    { fileSize := 7, sync := 1, bps := 3, idx := 2, io := 1, shards := 64 } rfl C02.exInv
    (by simp [C02.exSt, World.get]) (by simp [C02.exDB, mergeDirName]) (by decide)
  exact ⟨s', h1, h2, s'', db'', h3, h4, h5⟩

/-- evaluated: the copy is unlocked and holds the same bytes; the value read through the copy -/
def exAfter : St := (backup C02.exSt "b").1
#guard ((exAfter.world.get "b").map (·.locked)) == some false
#guard ((exAfter.world.get "b").map (fun d => d.data.map (fun x => (x.1, x.2.bytes.data.toList))))
    == ((exAfter.world.get "d").map (fun d => d.data.map (fun x => (x.1, x.2.bytes.data.toList))))
#guard (match (openDB (close exAfter).1 "b" C02.exDB.cfg).1 with
  | s'' => match s''.db with
    | some db'' => (absGet s'' db'' "k".toUTF8).map (·.data.toList) == some "v".toUTF8.data.toList
    | none => false)

/-! ## non-vacuity of `C20_backup_over'`: the destination holds an older database AND a finished merge
    directory lies next to it (the point the dropped hypothesis `plan s.world dest = none` excluded) -/

def cfgB : Cfg := { fileSize := 60, sync := 0, bps := 0, idx := 0, io := 0, shards := 1 }

/-- a database used to live at "b": three `Put`s (one record per file), a successful `Merge`, `Close` —
    never reopened: "b" holds files 0…3, "b-merge" the two rewritten files under a marker -/
def oldB : World :=
  (close (merge (put (put (put (openDB St.init "b" cfgB).1 "k".toUTF8 "OLD".toUTF8).1 "x".toUTF8 "1".toUTF8).1
    "k".toUTF8 "OLD2".toUTF8).1 [0, 1, 2]).1).1.world

/-- the source of C02 (`k ↦ v` in "d", open), in a world that also holds the old "b" and its "b-merge"
    (the lock bit of "b" is written once more — `Close` had cleared it already, see the `#guard` on `oldB` — so that
    "not held open" is proved by rewriting, without evaluating `Merge` in the kernel) -/
def exSt2 : St :=
  { world := (oldB.set "b" { (oldB.get "b").getD DirSt.empty with locked := false }).set "d"
      ((C02.exSt.world.get "d").getD DirSt.empty),
    db := some C02.exDB }

theorem exUnl2 : ((exSt2.world.get "b").getD DirSt.empty).locked = false := by
  show ((World.get (World.set (World.set _ "b" _) "d" _) "b").getD DirSt.empty).locked = false
  rw [MergeP.get_set_ne _ _ _ _ (by decide), MergeP.get_set_self]
  rfl

theorem exInv2 : Inv exSt2 C02.exDB C02.exG :=
  have hw : exSt2.world.get C02.exDB.dir = C02.exSt.world.get C02.exDB.dir := by
    show World.get (World.set _ "d" _) "d" = _
    rw [MergeP.get_set_self]; rfl
  ⟨by rw [hw]; exact C02.exInv.dir, C02.exInv.asc, C02.exInv.active, C02.exInv.recs, C02.exInv.index,
    C02.exInv.sorted, C02.exInv.counters, C02.exInv.nobatch⟩

/-- the theorem applies (no hypothesis about "b-merge"), and the merge directory is gone afterwards -/
example : ∃ s', backup exSt2 "b" = (s', .ok) ∧ s'.world.get "b-merge" = none ∧ plan s'.world "b" = none ∧
    ∃ s'' db'', openDB (close s').1 "b" cfgB = (s'', .ok) ∧ s''.db = some db'' ∧
      ∀ k, absGet s'' db'' k = absGet exSt2 C02.exDB k := by
  obtain ⟨s', h1, _, _, h2, h3, _, _, _, ⟨s'', db'', _, h4, h5, _, _, _, h6⟩, _⟩ :=
    C20_backup_over' exSt2 C02.exDB C02.exG "b" cfgB rfl exInv2 (by decide) (by decide) exUnl2 (by decide)
  exact ⟨s', h1, h2, h3, s'', db'', h4, h5, h6⟩

def dumpOf (s : St) (keys : List String) : List (Option (List UInt8)) :=
  match s.db with
  | some db => keys.map fun k => (absGet s db k.toUTF8).map (·.data.toList)
  | none => []

private def shape (w : World) : List (String × List Nat × Bool × Bool) :=
  w.map (fun x => (x.1, x.2.data.map (·.1), x.2.marker.isSome, x.2.locked))

-- evaluated.  Before: the old database in "b", its finished merge in "b-merge" (adoptable: `plan = some (3, 2)`)
#guard shape oldB == [("b", [0, 1, 2, 3], false, false), ("b-merge", [0, 1], true, false)]
#guard shape exSt2.world == [("b", [0, 1, 2, 3], false, false), ("b-merge", [0, 1], true, false), ("d", [0], false, true)]
#guard plan exSt2.world "b" == some (3, 2)
-- after `Backup`: "b" holds exactly the source's file, "b-merge" is gone, nothing is adoptable
#guard shape (backup exSt2 "b").1.world == [("b", [0], false, false), ("d", [0], false, true)]
#guard plan (backup exSt2 "b").1.world "b" == none
-- the copy opens to the source's mapping `k ↦ v`, `x` absent
#guard dumpOf exSt2 ["k", "x"] == [some "v".toUTF8.data.toList, none]
#guard dumpOf (openDB (close (backup exSt2 "b").1).1 "b" cfgB).1 ["k", "x"] == dumpOf exSt2 ["k", "x"]
-- the defect, replayed on the model: the same copy WITHOUT the removal (the pre-88d026d `Backup`) opens to the
-- mapping of the foreign merge, `k ↦ OLD2`, `x ↦ 1` - neither is in the source
#guard dumpOf (openDB (close ⟨exSt2.world.set "b" (((backup exSt2 "b").1.world.get "b").getD DirSt.empty),
    exSt2.db⟩).1 "b" cfgB).1 ["k", "x"] == [some "OLD2".toUTF8.data.toList, some "1".toUTF8.data.toList]

end XixiKV.C20

