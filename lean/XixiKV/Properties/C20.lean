import XixiKV.Proofs.EngineMerge.Frame
import XixiKV.Properties.C02
import XixiKV.Proofs.Fio
/-!
# C20 — a backup opens to the state at the time of the backup

"Backup(dir) … produces a directory that opens as an independent database holding exactly the
mapping the source had when Backup was called; the source is unaffected and remains usable, and
the copy does not carry the source's directory lock."

`Engine.backup` mirrors `DB.Backup` = `utils.CopyDir(src, dest, exclude = lock file)`: every data
file and the hint file (if any) is copied, the lock file is not.  The model has ONE handle, so
"opens as an independent database" is stated as: after `Close` of the source, `Open dest` (any
valid configuration).  In the model the copy's bytes are values, so later source writes cannot
alias them; that the Go copy is alias-free as well (it is made with `io.Copy` into new files) is
what the differential runs of the C20 check observe.
-/
namespace XixiKV.C20
open XixiKV XixiKV.Frame XixiKV.Record XixiKV.Index XixiKV.Engine XixiKV.Engine.Restart XixiKV.Engine.MergeP XixiKV.Adopt

/-- **C20.**  Let `db` be open on `s` with the invariant for the ghost directory `g`; let `dest` be
    a directory that does not exist yet and that has no adoptable merge directory of its own
    (`plan … dest = none`; in particular when `dest ++ "-merge"` does not exist).  Then `Backup`
    succeeds and

    1. the source is unaffected: same handle, every directory other than `dest` unchanged, the
       invariant still holds for `g`, every key maps to the same value;
    2. `dest` now exists, is NOT locked, has no marker, and its data files are byte for byte the
       ghost files `g` (`Matches`);
    3. the copy opens: after `Close` of the source, `Open dest` with ANY valid configuration
       succeeds, satisfies the invariant for the same ghost directory `g` and maps every key to
       what the source mapped it to when `Backup` was called;
    4. the copy is independent: `Put` / `Delete` / `Sync` on the source after the backup leave the
       directory `dest` untouched (so 3. keeps holding for the mapping at backup time). -/
theorem C20_backup (s : St) (db : DB) (g : GDir) (dest : String) (cfg' : Cfg)
    (hdb : s.db = some db) (hinv : Inv s db g)
    (hfresh : s.world.get dest = none) (hplan : plan s.world dest = none) (hcfg : cfg'.Valid) :
    ∃ s', backup s dest = (s', .ok) ∧
      -- 1. source unaffected
      s'.db = some db ∧ (∀ n, n ≠ dest → s'.world.get n = s.world.get n) ∧ Inv s' db g ∧
      (∀ k, absGet s' db k = absGet s db k) ∧
      -- 2. the copy
      (∃ dd, s'.world.get dest = some dd ∧ dd.locked = false ∧ dd.marker = none ∧ Matches dd.data g) ∧
      -- 3. the copy opens to the mapping at backup time
      (∃ s'' db'', (close s').2 = .ok ∧ openDB (close s').1 dest cfg' = (s'', .ok) ∧ s''.db = some db'' ∧
        db''.dir = dest ∧ db''.cfg = cfg' ∧ Inv s'' db'' g ∧ (∀ k, absGet s'' db'' k = absGet s db k)) ∧
      -- 4. later source writes do not touch the copy
      (∀ k v, (put s' k v).1.world.get dest = s'.world.get dest) ∧
      (∀ k, (delete s' k).1.world.get dest = s'.world.get dest) ∧
      ((syncDB s').1.world.get dest = s'.world.get dest) := by
  obtain ⟨d, hd, hlock, hm⟩ := hinv.dir
  have hne : dest ≠ db.dir := by
    intro e; rw [e, hd] at hfresh; cases hfresh
  have hasc : AscF d.data := Matches_AscF hm hinv.asc
  have hb := backup_eq s db d dest hdb hd hfresh hasc
  have hms : Matches (syncAll d.data) g := Matches_syncAll hm
  obtain ⟨S, hS⟩ : ∃ S : St, S = ⟨s.world.set dest ⟨syncAll d.data, d.hint, none, false⟩, s.db⟩ := ⟨_, rfl⟩
  rw [← hS] at hb
  have hSw : S.world = s.world.set dest ⟨syncAll d.data, d.hint, none, false⟩ := by rw [hS]
  have hSdb : S.db = some db := by rw [hS]; exact hdb
  have hSd : S.world.get db.dir = some d := by rw [hSw, MergeP.get_set_ne _ _ _ _ hne.symm]; exact hd
  have hSdest : S.world.get dest = some ⟨syncAll d.data, d.hint, none, false⟩ := by rw [hSw, MergeP.get_set_self]
  refine ⟨S, hb, hSdb, ?_, ?_, ?_, ?_, ?_, ?_, ?_, ?_⟩
  · intro n hn; rw [hSw]; exact MergeP.get_set_ne _ _ _ _ hn
  · exact ⟨⟨d, hSd, hlock, hm⟩, hinv.asc, hinv.active, hinv.recs,
      hinv.index, hinv.sorted, hinv.counters, hinv.nobatch⟩
  · intro k
    apply absGet_congr _ _ _ _ rfl
    intro id
    simp only [dirOf, hSd, hd]
  · exact ⟨_, hSdest, rfl, rfl, hms⟩
  · -- open the copy
    have hclose := close_eq S db d hSdb hSd
    rw [hclose]
    simp only []
    have hplan' : plan (S.world.set db.dir { d with data := syncAll d.data, locked := false }) dest = none := by
      rw [plan_set S.world db.dir dest { d with data := syncAll d.data, locked := false } (Or.inr ⟨d, hSd, rfl⟩), hSw,
        plan_set _ _ _ _ (Or.inl (mname_ne dest).symm)]
      exact hplan
    have hopen := openDB_ghost
      { world := S.world.set db.dir { d with data := syncAll d.data, locked := false }, db := none }
      dest cfg' ⟨syncAll d.data, d.hint, none, false⟩ g db.activeId rfl hcfg
      (by show World.get _ dest = _; rw [MergeP.get_set_ne _ _ _ _ hne, hSdest]) rfl hplan' hms hinv.recs hinv.active
    have hinv'' := Inv_scanDB
      ((S.world.set db.dir { d with data := syncAll d.data, locked := false }).set dest
        { (⟨syncAll d.data, d.hint, none, false⟩ : DirSt) with locked := true })
      dest cfg' _ g db.activeId (MergeP.get_set_self _ _ _) rfl hms hinv.asc hinv.recs hinv.active
      { world := _, db := some (scanDB cfg' dest db.activeId g) } rfl
    exact ⟨_, _, trivial, hopen, rfl, rfl, rfl, hinv'', fun k => absGet_same_ghost hinv'' hinv k⟩
  · intro k v; exact put_get_other S k v db hSdb dest hne
  · intro k; exact delete_get_other S k db hSdb dest hne
  · exact syncDB_get_other S db hSdb dest hne

/-- **C20, a backup into a directory that is NOT empty** — typically the directory of an earlier
    backup of the same database.  `dest` is any directory other than the data directory itself, not
    held open, without an adoptable merge directory of its own; whatever data files and hint file it
    held before are gone or overwritten (`removeStaleBackupFiles` + `CopyDir`): the copy's data files
    are byte for byte the ghost files `g` and its hint file is the source's (or absent), so that all
    four clauses of `C20_backup` hold again.  (Before repair ca47810 `CopyDir` only added and
    overwrote: a data file that a merge had reclaimed in the source meanwhile survived in `dest`
    and was replayed when the copy was opened — deleted keys came back, overwritten values
    returned; the hypothesis `hfresh` of `C20_backup` excluded exactly that.) -/
theorem C20_backup_over (s : St) (db : DB) (g : GDir) (dest : String) (cfg' : Cfg)
    (hdb : s.db = some db) (hinv : Inv s db g)
    (hne : dest ≠ db.dir) (hunl : ((s.world.get dest).getD DirSt.empty).locked = false)
    (hplan : plan s.world dest = none) (hcfg : cfg'.Valid) :
    ∃ s', backup s dest = (s', .ok) ∧
      -- 1. source unaffected
      s'.db = some db ∧ (∀ n, n ≠ dest → s'.world.get n = s.world.get n) ∧ Inv s' db g ∧
      (∀ k, absGet s' db k = absGet s db k) ∧
      -- 2. the copy
      (∃ dd, s'.world.get dest = some dd ∧ dd.locked = false ∧ Matches dd.data g ∧ dd.hint = (dirOf s db).hint) ∧
      -- 3. the copy opens to the mapping at backup time
      (∃ s'' db'', (close s').2 = .ok ∧ openDB (close s').1 dest cfg' = (s'', .ok) ∧ s''.db = some db'' ∧
        db''.dir = dest ∧ db''.cfg = cfg' ∧ Inv s'' db'' g ∧ (∀ k, absGet s'' db'' k = absGet s db k)) ∧
      -- 4. later source writes do not touch the copy
      (∀ k v, (put s' k v).1.world.get dest = s'.world.get dest) ∧
      (∀ k, (delete s' k).1.world.get dest = s'.world.get dest) ∧
      ((syncDB s').1.world.get dest = s'.world.get dest) := by
  obtain ⟨d, hd, hlock, hm⟩ := hinv.dir
  have hb := backup_eq' s db d dest hdb hd
  rw [hunl] at hb
  generalize ((s.world.get dest).getD DirSt.empty).marker = mk at hb
  have hms : Matches (syncAll d.data) g := Matches_syncAll hm
  obtain ⟨S, hS⟩ : ∃ S : St, S = ⟨s.world.set dest ⟨syncAll d.data, d.hint, mk, false⟩, s.db⟩ := ⟨_, rfl⟩
  rw [← hS] at hb
  have hSw : S.world = s.world.set dest ⟨syncAll d.data, d.hint, mk, false⟩ := by rw [hS]
  have hSdb : S.db = some db := by rw [hS]; exact hdb
  have hSd : S.world.get db.dir = some d := by rw [hSw, MergeP.get_set_ne _ _ _ _ hne.symm]; exact hd
  have hSdest : S.world.get dest = some ⟨syncAll d.data, d.hint, mk, false⟩ := by rw [hSw, MergeP.get_set_self]
  refine ⟨S, hb, hSdb, ?_, ?_, ?_, ?_, ?_, ?_, ?_, ?_⟩
  · intro n hn; rw [hSw]; exact MergeP.get_set_ne _ _ _ _ hn
  · exact ⟨⟨d, hSd, hlock, hm⟩, hinv.asc, hinv.active, hinv.recs,
      hinv.index, hinv.sorted, hinv.counters, hinv.nobatch⟩
  · intro k
    apply absGet_congr _ _ _ _ rfl
    intro id
    simp only [dirOf, hSd, hd]
  · exact ⟨_, hSdest, rfl, hms, by simp only [dirOf, hd, Option.getD_some]⟩
  · -- open the copy
    have hclose := close_eq S db d hSdb hSd
    rw [hclose]
    simp only []
    have hplan' : plan (S.world.set db.dir { d with data := syncAll d.data, locked := false }) dest = none := by
      rw [plan_set S.world db.dir dest { d with data := syncAll d.data, locked := false } (Or.inr ⟨d, hSd, rfl⟩), hSw,
        plan_set _ _ _ _ (Or.inl (mname_ne dest).symm)]
      exact hplan
    have hopen := openDB_ghost
      { world := S.world.set db.dir { d with data := syncAll d.data, locked := false }, db := none }
      dest cfg' ⟨syncAll d.data, d.hint, mk, false⟩ g db.activeId rfl hcfg
      (by show World.get _ dest = _; rw [MergeP.get_set_ne _ _ _ _ hne, hSdest]) rfl hplan' hms hinv.recs hinv.active
    have hinv'' := Inv_scanDB
      ((S.world.set db.dir { d with data := syncAll d.data, locked := false }).set dest
        { (⟨syncAll d.data, d.hint, mk, false⟩ : DirSt) with locked := true })
      dest cfg' _ g db.activeId (MergeP.get_set_self _ _ _) rfl hms hinv.asc hinv.recs hinv.active
      { world := _, db := some (scanDB cfg' dest db.activeId g) } rfl
    exact ⟨_, _, trivial, hopen, rfl, rfl, rfl, hinv'', fun k => absGet_same_ghost hinv'' hinv k⟩
  · intro k v; exact put_get_other S k v db hSdb dest hne
  · intro k; exact delete_get_other S k db hSdb dest hne
  · exact syncDB_get_other S db hSdb dest hne

/-! ## the mmap path of `Backup`: `ResetFileSize` shrinks the 512 MiB-extended files first, and the
    source keeps appending afterwards (`Model/Fio.lean`) -/

/-- After `ResetFileSize` (any `MMap` state) the file on disk has exactly the logical size — this is
    the file `CopyDir` copies — and the next write and the next read re-map and succeed. -/
theorem C20_mmap_reset (B : Nat) (hB : 0 < B) (m : Fio.MMap) (b : ByteArray) (off len : Nat) :
    m.resetFileSize.1.os.bytes.size = m.virt ∧
    (m.resetFileSize.1.write B b).2 = .n b.size ∧
    (0 < b.size → (m.resetFileSize.1.write B b).1.mapped = true) ∧
    (m.resetFileSize.1.read B off len).2 ≠ .fault :=
  ⟨Fio.size_ftruncate _ _, Fio.Fio_reset_then_access B hB m b off len⟩

/-- The repair 5e9ebf0 is necessary: with a `ResetFileSize` that cuts the file but keeps the
    mapping, the first non-empty write after a backup stores beyond the end of the file. -/
theorem C20_mmap_reset_needs_unmap (B : Nat) (hB : 0 < B) (f : Fio.OsFile) (b : ByteArray)
    (h0 : 0 < b.size) (hb : b.size ≤ B) :
    ((Fio.MMap.open B f).resetFileSizeOld.1.write B b).2 = .fault :=
  Fio.Fio_needs_unmap B hB f b h0 hb

/-! ## non-vacuity: the example state of C02 (one file, one record), backed up to "b" -/

example : ∃ s', backup C02.exSt "b" = (s', .ok) ∧ Inv s' C02.exDB C02.exG ∧
    ∃ s'' db'', openDB (close s').1 "b" { fileSize := 7, sync := 1, bps := 3, idx := 2, io := 1, shards := 64 } = (s'', .ok) ∧
      s''.db = some db'' ∧ ∀ k, absGet s'' db'' k = absGet C02.exSt C02.exDB k := by
  obtain ⟨s', h1, _, _, h2, _, _, ⟨s'', db'', _, h3, h4, _, _, _, h5⟩, _⟩ := C20_backup C02.exSt C02.exDB C02.exG "b"
    { fileSize := 7, sync := 1, bps := 3, idx := 2, io := 1, shards := 64 } rfl C02.exInv
    (by simp [C02.exSt, World.get]) (by simp [Adopt.plan, C02.exSt, World.get, mergeDirName]) (by decide)
  exact ⟨s', h1, h2, s'', db'', h3, h4, h5⟩

/-- evaluated: the copy is unlocked and holds the same bytes; the value read through the copy -/
def exAfter : St := (backup C02.exSt "b").1
#guard ((exAfter.world.get "b").map (·.locked)) == some false
#guard ((exAfter.world.get "b").map (fun d => d.data.map (fun x => (x.1, x.2.bytes.data.toList))))
    == ((exAfter.world.get "d").map (fun d => d.data.map (fun x => (x.1, x.2.bytes.data.toList))))
#guard (match (openDB (close exAfter).1 "b" C02.exDB.cfg).1 with
  | s'' => match s''.db with
    | some db'' => (absGet s'' db'' "k".toUTF8).map (·.data.toList) == some "v".toUTF8.data.toList
    | none => false)

end XixiKV.C20

