import XixiKV.Proofs.IterStableTranscript
import XixiKV.Properties.C10
/-!
# C10 at engine level — the engine's iterator IS the sharded iterator, and its snapshot is STABLE

`Properties/C10.lean` proves that the sharded heap-merging iterator (`DBIter`, `IndexIterator`) is
observationally the abstract cursor `ShardIter.Abs` over the sorted snapshot.  This module connects
the *engine model* (`Model/Batch.lean`: `Engine.Iter`, `iterNew`, `Iter.rewind/next/seek/skip`,
`Engine.listKeys`, `Engine.fold`, values read through `Engine.valueAt`) to it and proves what C10.lean
only argues in prose: **later writes do not disturb an iterator**.

Reading guide.
* Observation of an engine iterator = what `Driver.lean` (`fmtIter`) prints: the cell
  `it.items[it.cur]?` — `Valid` iff it exists, its key, and the value read through its position
  *in the current database state* (`Iter.obs` gives the position, `IterP.see s it` the value).
* `SnapOK s db g` (`Proofs/IterStable.lean`) is what must hold when the snapshot is **taken**: the
  data files of the open handle `db` match a ghost directory `g` (`Files`), every index entry is
  the position of a logged record with that key (`Prov`), the index is sorted.  It follows from the
  engine invariant `Inv s db g` (`SnapOK.of_inv`; `Inv` holds after `Open` and after every
  operation outside a batch, C01/C02/C05/C06) and from the in-batch invariant (`SnapOK.of_batch`:
  a batch is open, possibly with flushed, uncommitted records).  Nothing is assumed about the
  later states.
* `HOp` / `hrun` (`Proofs/IterStableMerge.lean`): a history of plain operations
  (`Put/Delete/Get/Sync`), batch operations (`NewBatch/Put/Delete/Get/Commit`, dropping the batch)
  `Merge` runs (argument: the order in which Go's map iteration visits the older files) and
  `Backup`s (into any directory), in any interleaving, **with no side condition at all** (any
  key/value sizes, any batch ids, `Merge` with any outcome, with or without an open batch).
  Together with the pure queries (`Stat`, `ListKeys`, `Fold`, `NewIterator`, which do not change the
  state) this is every call of the API except `Close`.
* `Ev`, `transcript`, `specTranscript` (`Proofs/IterStableTranscript.lean`): iterator calls
  interleaved with such writes; the iterator is observed before the first and after every event.
* A restart is not part of the claim: iterators do not survive `Close`.

Why it holds: while a handle is open its data files are append-only — every write path appends
whole frames to the active file or starts a new file with a fresh id (`IterP.Step_astep`), `Merge`
only rotates the active file and writes into the merge directory (`IterP.Step_merge`) — and a
framed record keeps resolving at its position whatever is appended behind it (`IterP.valueAt_ext`,
from `Frame.readAt_member` / `C11_readAt`).
-/
namespace XixiKV.C10E
open XixiKV.Frame XixiKV.Index XixiKV.ShardIter XixiKV.Engine XixiKV.Engine.IterP
open XixiKV.Engine.PolicyP.Size (AOp)
open XixiKV.Engine.BatchP (bnew_specX bput_specX fresh_of_unused)

/-! ## 1. the engine's cursor is the abstract cursor, hence the sharded iterator -/

/-- **C10_engine_cursor**.  The engine iterator created by `iterNew db pre rev` from a handle whose
    index is sorted (`Inv.sorted`) shows, on the fresh iterator and after every call of every
    call sequence, the same `(Valid, Key, Pos)` as the abstract cursor
    `Abs.new rev pre db.index` — and therefore the same as the sharded heap-merging iterator
    `DBIter.new typ rev pre (shardsOf …)` for every shard function, shard count and index type. -/
theorem C10_engine_cursor (db : DB) (pre : Key) (rev : Bool) (hsorted : SortedKeys db.index)
    (calls : List Call) :
    (iterNew db pre rev).trace calls = (Abs.new rev pre db.index).trace calls ∧
    ∀ (shardOf : Key → Nat) (n : Nat) (typ : IndexType), (∀ x ∈ db.index, shardOf x.1 < n) →
      (iterNew db pre rev).trace calls = (DBIter.new typ rev pre (shardsOf shardOf n db.index)).trace calls := by
  have h1 : (iterNew db pre rev).trace calls = (Abs.new rev pre db.index).trace calls :=
    CSim.trace ((sorted_of_pairwise hsorted).iterOrder) calls (CSim.new db pre rev)
  refine ⟨h1, fun shardOf n typ hshard => ?_⟩
  rw [h1, C10.C10_cursor shardOf n typ rev pre db.index hsorted hshard calls]

/-- **C10_engine_listkeys**.  `Engine.listKeys` / `Engine.fold` are what the `ListKeys` / `Fold` loop
    over the sharded index iterator (`C10_listkeys`: `Iterator(false)`, `Rewind`, `Valid`, `Next`)
    visits: the same keys in the same order, and for `Fold` the record read at the position the
    iterator serves. -/
theorem C10_engine_listkeys (s : St) (db : DB) (hsorted : SortedKeys db.index)
    (shardOf : Key → Nat) (n : Nat) (typ : IndexType) (hshard : ∀ x ∈ db.index, shardOf x.1 < n)
    (fuel : Nat) (hfuel : db.index.length ≤ fuel) :
    ((IndexIterator.create typ false (shardsOf shardOf n db.index)).rewind.collect fuel).map (·.1)
      = (listKeys db).map some ∧
    ((IndexIterator.create typ false (shardsOf shardOf n db.index)).rewind.collect fuel).map
        (fun x => (x.1, x.2.map (valueAt s db)))
      = (fold s db).map (fun x => (some x.1, some x.2)) := by
  rw [C10.C10_listkeys shardOf n typ false db.index hsorted hshard fuel hfuel]
  unfold listKeys Index.keys fold iterOrder
  simp only [Bool.false_eq_true, if_false, List.map_map]
  exact ⟨rfl, rfl⟩

/-- **C10_engine_complete**.  The snapshot every iterator / `ListKeys` / `Fold` works on
    (`db.index`) is strictly ascending (each key once) and holds exactly the keys that have a value. -/
theorem C10_engine_complete (s : St) (db : DB) (g : GDir) (hinv : SnapOK s db g) :
    (listKeys db).Pairwise (fun a b => keyLt a b = true) ∧
    (∀ k, k ∈ listKeys db ↔ (absGet s db k).isSome = true) ∧
    (∀ pre rev x, x ∈ (iterNew db pre rev).items ↔ x ∈ db.index) ∧
    fold s db = db.index.map (fun x => (x.1, valueAt s db x.2)) := by
  refine ⟨Index.sorted_keys hinv.sorted, fun k => ?_, fun pre rev x => ?_, rfl⟩
  · show k ∈ Index.keys db.index ↔ _
    rw [← Index.get_isSome_iff_mem_keys]
    cases hg : Index.get db.index k with
    | none => rw [absGet_of_get_none hg]; exact Iff.rfl
    | some p =>
      obtain ⟨r, _, _, _, ha⟩ := hinv.resolves (Index.get_eq_some_mem hg)
      rw [ha]
      exact ⟨fun _ => rfl, fun _ => rfl⟩
  · have : (iterNew db pre rev).items = iterOrder rev db.index := (CSim.new db pre rev).items
    rw [this]
    exact mem_iterOrder

/-! ## 2. the snapshot is stable under later writes -/

/-- **C10_stable**.  Let `SnapOK s db g` (e.g. `Inv s db g`) hold when the snapshot is taken (`iterNew db pre rev`,
    `listKeys db`, `fold s db` all work on the items `(k, p)` of `db.index`).  After EVERY later
    history `hist` of plain operations, batch operations, `Merge` runs and `Backup`s, leading to
    `s' = hrun s hist` with handle `db'`: every snapshot item still reads, through its captured
    position, exactly the value the key had at creation — although meanwhile `k` may have been
    overwritten or deleted, its file rotated away and merged. -/
theorem C10_stable (s : St) (db : DB) (g : GDir) (hdb : s.db = some db) (hinv : SnapOK s db g)
    (hist : List HOp) :
    ∃ db', (hrun s hist).db = some db' ∧ db'.dir = db.dir ∧
      ∀ k p, (k, p) ∈ db.index →
        ∃ v, absGet s db k = some v ∧ valueAt s db p = .val v ∧ valueAt (hrun s hist) db' p = .val v := by
  have hst := Step_hrun hist s
  obtain ⟨db', hdb', hadv⟩ := hst db hdb
  refine ⟨db', hdb', hadv.1, fun k p hm => ?_⟩
  obtain ⟨db'', v, e1, _, e3, e4, e5⟩ := hst.valueAt hdb hinv hm
  rw [hdb'] at e1
  cases e1
  exact ⟨v, e3, e4, e5⟩

/-- **C10_files_append_only** (the reason, as a statement of its own): along every history the
    handle keeps its directory, its active id never decreases, every data file that existed when the
    snapshot was taken still exists and is its old content followed by whole appended frames — and
    the *older* files (id below the active id at snapshot time), which `getValueByPosition` reads
    after releasing `db.mu`, are byte-identical for ever. -/
theorem C10_files_append_only (s : St) (db : DB) (g : GDir) (hdb : s.db = some db) (hinv : SnapOK s db g)
    (hist : List HOp) :
    ∃ db', (hrun s hist).db = some db' ∧ db'.dir = db.dir ∧ db.activeId ≤ db'.activeId ∧
      ∀ id f, getFile (dirOf s db).data id = some f →
        ∃ f', getFile (dirOf (hrun s hist) db').data id = some f' ∧
          (∃ ds : List ByteArray, f'.bytes = appendAll Engine.C f.bytes ds) ∧
          (id < db.activeId → f'.bytes = f.bytes) := by
  obtain ⟨db', hdb', hdir, hle, hadv⟩ := Step_hrun hist s db hdb
  obtain ⟨_, hext⟩ := hadv (Top_of_Files hinv.files)
  refine ⟨db', hdb', hdir, hle, fun id f hf => ?_⟩
  obtain ⟨f', h1, ⟨ds, _, h2⟩, h3⟩ := hext id f hf
  exact ⟨f', h1, ⟨ds, h2⟩, h3⟩

/-- **C10_fold_stable**.  A `Fold` (or any loop over `ListKeys` + reads through the snapshot) whose
    index snapshot was taken in state `s` and whose reads happen after the history sees exactly
    `fold s db`, the creation-time mapping. -/
theorem C10_fold_stable (s : St) (db : DB) (g : GDir) (hdb : s.db = some db) (hinv : SnapOK s db g)
    (hist : List HOp) :
    ∃ db', (hrun s hist).db = some db' ∧
      db.index.map (fun x => (x.1, valueAt (hrun s hist) db' x.2)) = fold s db ∧
      ∀ x ∈ fold s db, ∃ v, x.2 = .val v ∧ absGet s db x.1 = some v := by
  obtain ⟨db', hdb', _, hall⟩ := C10_stable s db g hdb hinv hist
  refine ⟨db', hdb', ?_, ?_⟩
  · unfold fold
    apply List.map_congr_left
    intro x hx
    obtain ⟨k, p⟩ := x
    obtain ⟨v, _, e2, e3⟩ := hall k p hx
    simp only [e2, e3]
  · intro x hx
    unfold fold at hx
    obtain ⟨y, hy, rfl⟩ := List.mem_map.mp hx
    obtain ⟨v, e1, e2, _⟩ := hall y.1 y.2 hy
    exact ⟨v, e2, e1⟩

/-- **C10_snapshot_transcript** (the final statement).  Create an iterator in a state satisfying
    `SnapOK` (e.g. the engine invariant), then run ANY interleaving `evs` of iterator calls
    (`Rewind / Next / Seek`) and database writes (plain, batch, `Merge`, `Backup`).  The whole
    transcript — `Valid`, `Key` and the `Value` read through the captured position in whatever
    state the database is in at that moment,
    observed before the first and after every event — equals the transcript of the abstract cursor
    over the *creation-time* mapping `fold s db` (which lists each key with `.val v`,
    `absGet s db k = some v`), on which writes have no effect.  No side condition on the iterator
    calls (`Seek` is forward-only in the engine model as in `Abs`, see `C10_cursor`). -/
theorem C10_snapshot_transcript (s : St) (db : DB) (g : GDir) (hdb : s.db = some db) (hinv : SnapOK s db g)
    (pre : Key) (rev : Bool) (evs : List Ev) :
    transcript s (iterNew db pre rev) evs = specTranscript (Abs.new rev pre (fold s db)) evs ∧
    (∀ x ∈ fold s db, ∃ v, x.2 = .val v ∧ absGet s db x.1 = some v) ∧
    (∀ k v, absGet s db k = some v → (k, Res.val v) ∈ fold s db) := by
  refine ⟨?_, ?_, ?_⟩
  · have h := transcript_eq hdb hinv pre rev evs (Step.refl s) (CSim.new db pre rev)
    rw [h, Abs.mapV_new]
    rfl
  · obtain ⟨_, _, _, h⟩ := C10_fold_stable s db g hdb hinv []
    exact h
  · intro k v hv
    cases hg : Index.get db.index k with
    | none => rw [absGet_of_get_none hg] at hv; cases hv
    | some p =>
      obtain ⟨r, _, _, e1, e2⟩ := hinv.resolves (Index.get_eq_some_mem hg)
      rw [e2] at hv
      cases hv
      unfold fold
      exact List.mem_map.mpr ⟨(k, p), Index.get_eq_some_mem hg, by simp only [e1]⟩

/-- **C10_snapshot_transcript_sharded**: the same for the sharded heap-merging iterator itself.
    For every shard function, shard count and index type, the `DBIter` over the index positions,
    whose `Value` reads the served position in the current (moving) database state, produces the
    transcript of the abstract cursor over the creation-time mapping. -/
theorem C10_snapshot_transcript_sharded (s : St) (db : DB) (g : GDir) (hdb : s.db = some db)
    (hinv : SnapOK s db g) (shardOf : Key → Nat) (n : Nat) (typ : IndexType)
    (hshard : ∀ x ∈ db.index, shardOf x.1 < n) (pre : Key) (rev : Bool) (evs : List Ev) :
    transcriptD s (DBIter.new typ rev pre (shardsOf shardOf n db.index)) evs
      = specTranscript (Abs.new rev pre (fold s db)) evs := by
  rw [transcriptD_eq_of_trace evs s _ (iterNew db pre rev)
    ((C10_engine_cursor db pre rev hinv.sorted _).2 shardOf n typ hshard).symm]
  exact (C10_snapshot_transcript s db g hdb hinv pre rev evs).1

/-- **C10_engine_complete_sorted**: from any state of the engine iterator reached by any
    call sequence, `Rewind` followed by the loop `for ; Valid(); Next()` — with every `Value` read
    after an arbitrary later history `hist` — yields exactly the creation-time pairs `(k, .val v)`
    whose key has the prefix, each once, in iteration order (strictly ordered). -/
theorem C10_engine_complete_sorted (s : St) (db : DB) (g : GDir) (hdb : s.db = some db) (hinv : SnapOK s db g)
    (pre : Key) (rev : Bool) (calls : List Call) (fuel : Nat)
    (hfuel : ((iterOrder rev db.index).filter (fun x => ShardIter.hasPrefix pre x.1)).length ≤ fuel)
    (hist : List HOp) :
    ∃ db', (hrun s hist).db = some db' ∧
      (((iterNew db pre rev).run calls).rewind.collect fuel).map
          (fun x => (x.1, x.2.map (valueAt (hrun s hist) db')))
        = ((iterOrder rev (fold s db)).filter (fun x => ShardIter.hasPrefix pre x.1)).map
            (fun x => (some x.1, some x.2)) ∧
      ((iterOrder rev (fold s db)).filter (fun x => ShardIter.hasPrefix pre x.1)).Pairwise
        (fun a b => before rev a.1 b.1 = true) := by
  obtain ⟨db', hdb', _, hall⟩ := C10_stable s db g hdb hinv hist
  have hfold : fold s db = db.index.map (fun x => (x.1, valueAt s db x.2)) := rfl
  refine ⟨db', hdb', ?_, ?_⟩
  · have hc := complete_engine ((sorted_of_pairwise hinv.sorted).iterOrder) (CSim.new db pre rev) calls
      fuel hfuel
    rw [hc, hfold, iterOrder_map, filter_map_key (valueAt s db) (ShardIter.hasPrefix pre)]
    simp only [List.map_map]
    apply List.map_congr_left
    intro x hx
    have hx' : x ∈ db.index := mem_iterOrder.mp (List.mem_filter.mp hx).1
    obtain ⟨v, _, e2, e3⟩ := hall x.1 x.2 hx'
    simp only [Function.comp, Option.map_some, e2, e3]
  · have hs : ShardIter.Sorted false (fold s db) := by
      rw [hfold]
      unfold ShardIter.Sorted
      rw [List.pairwise_map]
      exact sorted_of_pairwise hinv.sorted
    exact (hs.iterOrder (rev := rev)).filter _

/-! ## 3. non-vacuity -/

/-- every `Seek` of the sequence is the first call or directly follows a `Rewind`
    (`z` = the cursor is known to stand at index 0) -/
def seeksAtStart : Bool → List Call → Bool
  | _, [] => true
  | z, .seek _ :: cs => z && seeksAtStart false cs
  | _, .rewind :: cs => seeksAtStart true cs
  | _, .next :: cs => seeksAtStart false cs

/-- such sequences are admissible on every snapshot ("always true at index 0, i.e. on a fresh or just
    rewound iterator") — a decidable, snapshot-independent sufficient condition for every `Seek` of
    the sequence being the absolute positioning (`C10.C10_seek_absolute_when_admissible`) -/
theorem admissible_of_seeksAtStart {V : Type} (calls : List Call) :
    ∀ (a : Abs V) (z : Bool), (z = true → a.i = 0) → seeksAtStart z calls = true → a.admissible calls = true := by
  induction calls with
  | nil => intro a z _ _; rfl
  | cons c cs ih =>
    intro a z hz h
    cases c with
    | rewind =>
      simp only [Abs.admissible, Bool.true_and]
      exact ih _ true (fun _ => rfl) h
    | next =>
      simp only [Abs.admissible, Bool.true_and]
      exact ih _ false (fun e => by cases e) h
    | seek k =>
      simp only [seeksAtStart, Bool.and_eq_true] at h
      simp only [Abs.admissible, Bool.and_eq_true, decide_eq_true_eq]
      refine ⟨by rw [hz h.1]; exact Nat.zero_le _, ih _ false (fun e => by cases e) h.2⟩

/-! ### an executed history

Open `"d"` with a file-size limit of 70 bytes (two records per file), put four keys, create two
iterators (forward without prefix; reverse with prefix `a`).  Then, interleaved with iterator calls:
overwrite `a2`, delete `b1`, open a batch that overwrites `c1` and deletes `a1` and commit it, put
further keys (rotations), run a `Merge`, back the directory up (elsewhere and onto itself).  The iterator transcripts are evaluated and equal the
transcript over the creation-time mapping `a1=1 a2=2 b1=3 c1=4`. -/

def kb (s : String) : ByteArray := s.toUTF8
def exCfg : Cfg := { fileSize := 70, sync := 0, bps := 0, idx := 0, io := 0, shards := 1 }

/-- the state in which the iterators are created -/
def exS : St :=
  (put (put (put (put (openDB St.init "d" exCfg).1 (kb "a1") (kb "1")).1 (kb "a2") (kb "2")).1
    (kb "b1") (kb "3")).1 (kb "c1") (kb "4")).1

/-- the later history, as one list -/
def exHist : List HOp :=
  [.op (.put (kb "a2") (kb "X")), .op (.del (kb "b1")),
   .op (.bnew false 7), .op (.bput (kb "c1") (kb "Y")), .op (.bdel (kb "a1")), .op .bcommit, .op .bdrop,
   .op (.put (kb "e1") (kb "5")), .op (.put (kb "e2") (kb "6")), .merge [2, 0, 1, 3],
   .backup "bk", .backup "d", .op (.put (kb "a0") (kb "0"))]

/-- iterator calls interleaved with the history (the `Seek`s follow a `Rewind`) -/
def exEvs : List Ev :=
  [.call .next, .write (.op (.put (kb "a2") (kb "X"))), .call .next, .write (.op (.del (kb "b1"))),
   .write (.op (.bnew false 7)), .write (.op (.bput (kb "c1") (kb "Y"))), .write (.op (.bdel (kb "a1"))),
   .call .next, .write (.op .bcommit), .write (.op .bdrop), .call .next,
   .write (.op (.put (kb "e1") (kb "5"))), .write (.op (.put (kb "e2") (kb "6"))),
   .write (.merge [2, 0, 1, 3]), .write (.backup "bk"), .write (.backup "d"), .call .rewind, .call (.seek (kb "a2")), .write (.op (.put (kb "a0") (kb "0"))),
   .call .next, .call .next, .call .next]

def showRes : Res → String
  | .val v => "=" ++ String.fromUTF8! v
  | .notFound => "notfound"
  | .ok => "ok"
  | .err e => "err:" ++ e

def showObs (o : Obs Res) : Bool × Option String × Option String :=
  (o.valid, o.key.map String.fromUTF8!, o.value.map showRes)

def cell (k v : String) : Bool × Option String × Option String := (true, some k, some ("=" ++ v))
def done : Bool × Option String × Option String := (false, none, none)

def exTranscript (pre : String) (rev : Bool) : List (Bool × Option String × Option String) :=
  match exS.db with
  | some db => (transcript exS (iterNew db (kb pre) rev) exEvs).map showObs
  | none => []

def exSpec (pre : String) (rev : Bool) : List (Bool × Option String × Option String) :=
  match exS.db with
  | some db => (specTranscript (Abs.new rev (kb pre) (fold exS db)) exEvs).map showObs
  | none => []

def getStr (s : St) (k : String) : String := showRes (get s (kb k)).2
def nFiles (s : St) (dir : String) : Option (List Nat) := (s.world.get dir).map (fun d => d.data.map (·.1))

-- the creation-time mapping, spread over two files
#guard (match exS.db with
  | some db => (fold exS db).map (fun x => (String.fromUTF8! x.1, showRes x.2)) | none => [])
  == [("a1", "=1"), ("a2", "=2"), ("b1", "=3"), ("c1", "=4")]
#guard (match exS.db with | some db => db.index.map (·.2.fid) | none => []) == [0, 0, 1, 1]
-- the database really moved on: values changed, keys vanished, files rotated, the merge succeeded
#guard ["a0", "a1", "a2", "b1", "c1", "e1", "e2"].map (getStr (hrun exS exHist))
  == ["=0", "notfound", "=X", "notfound", "=Y", "=5", "=6"]
#guard nFiles exS "d" == some [0, 1]
#guard nFiles (hrun exS exHist) "d" == some [0, 1, 2, 3, 4, 5, 6]
-- the merge succeeded: its finished output is there after the backup to "bk" (`exHist.take 11`) …
#guard (nFiles (hrun exS (exHist.take 11)) "d-merge").isSome
#guard ((hrun exS (exHist.take 11)).world.get "d-merge").map (fun d => d.marker.isSome) == some true
-- … and `Backup` onto the data directory itself removes it (`removeStaleMergeDir`, repair 88d026d: "d-merge" is
-- the merge directory next to the destination "d"); the mapping does not depend on it
#guard nFiles (hrun exS exHist) "d-merge" == none
#guard nFiles (hrun exS exHist) "bk" == some [0, 1, 2, 3, 4, 5, 6]   -- the backup, taken before the last `Put`
#guard (match (hrun exS exHist).db with | some db => db.batch.isNone | none => false)
-- the forward iterator without prefix: its transcript over the moving database …
#guard exTranscript "" false ==
  [cell "a1" "1", cell "a2" "2", cell "a2" "2", cell "b1" "3", cell "b1" "3", cell "b1" "3", cell "b1" "3",
   cell "b1" "3", cell "c1" "4", cell "c1" "4", cell "c1" "4", done, done, done, done, done, done,
   cell "a1" "1", cell "a2" "2", cell "a2" "2", cell "b1" "3", cell "c1" "4", done]
-- … is the transcript over the creation-time mapping
#guard exTranscript "" false == exSpec "" false
-- the reverse iterator with prefix `a`
#guard exTranscript "a" true ==
  [cell "a2" "2", cell "a1" "1", cell "a1" "1", done, done, done, done, done, done, done, done, done, done,
   done, done, done, done, cell "a2" "2", cell "a2" "2", cell "a2" "2", cell "a1" "1", done, done]
#guard exTranscript "a" true == exSpec "a" true
-- admissibility of the calls, evaluated on the actual snapshot
#guard (match exS.db with
  | some db => (Abs.new false (kb "") db.index).admissible (callsOf exEvs)
      && (Abs.new true (kb "a") db.index).admissible (callsOf exEvs) | none => false)
-- the engine cursor against the sharded iterator (4 shards by last byte, B-tree cursors)
#guard (match exS.db with
  | some db =>
    ((iterNew db (kb "a") true).trace (callsOf exEvs)).map (fun o => (o.valid, o.key.map String.fromUTF8!, o.value.map (·.off)))
    == ((DBIter.new .btree true (kb "a") (shardsOf C10.exShard 4 db.index)).trace (callsOf exEvs)).map
          (fun o => (o.valid, o.key.map String.fromUTF8!, o.value.map (·.off)))
  | none => false)

-- the sharded iterator's own interleaved transcript (values read in the moving database)
#guard (match exS.db with
  | some db => (transcriptD exS (DBIter.new .skiplist true (kb "a") (shardsOf C10.exShard 4 db.index)) exEvs).map showObs
  | none => []) == exSpec "a" true
#guard (match exS.db with
  | some db => (transcriptD exS (DBIter.new .hashmap false (kb "") (shardsOf C10.exShard 4 db.index)) exEvs).map showObs
  | none => []) == exSpec "" false
-- `Rewind` + the `Valid/Next` loop after `Next; Next`, every value read after the whole history
#guard (match exS.db, (hrun exS exHist).db with
  | some db, some db' =>
    ((((iterNew db (kb "") false).run [.next, .next]).rewind.collect 4).map
      (fun x => (x.1.map String.fromUTF8!, x.2.map (fun p => showRes (valueAt (hrun exS exHist) db' p)))))
    == [(some "a1", some "=1"), (some "a2", some "=2"), (some "b1", some "=3"), (some "c1", some "=4")]
  | _, _ => false)

/-! ### the hypotheses are met by that instance (proof level) -/

/-- invariant of a history of plain `Put`s: the engine invariant, and every logged record is plain -/
def PlainInv (s : St) : Prop := ∃ db g, s.db = some db ∧ Inv s db g ∧ ∀ x ∈ logOf g, x.1.batch = 0

theorem inv_put {s : St} (h : PlainInv s) (k v : ByteArray)
    (hk0 : 0 < k.size) (hk : k.size < 2 ^ 31) (hv : v.size < 2 ^ 31) : PlainInv (put s k v).1 := by
  obtain ⟨db, g, hdb, hinv, hb⟩ := h
  obtain ⟨db', g', h1, h2, _, _, _, pos, hlog⟩ := put_spec hinv hdb k v hk0 hk hv
  refine ⟨db', g', h1, h2, fun x hx => ?_⟩
  rw [hlog] at hx
  rcases List.mem_append.mp hx with hx | hx
  · exact hb x hx
  · simp only [List.mem_singleton] at hx
    rw [hx]

theorem sz2 (k : String) (hk : k.toUTF8.size = 2) : 0 < (kb k).size ∧ (kb k).size < 2 ^ 31 := by
  unfold kb; rw [hk]; exact ⟨by decide, by decide⟩

theorem sz1 (v : String) (hv : v.toUTF8.size = 1) : (kb v).size < 2 ^ 31 := by
  unfold kb; rw [hv]; decide

theorem exS_plain : PlainInv exS := by
  have h0 : PlainInv (openDB St.init "d" exCfg).1 := by
    rw [openDB_fresh "d" exCfg (by decide)]
    exact ⟨_, _, rfl, Inv_fresh "d" exCfg, fun x hx => by simp [logOf] at hx⟩
  have h1 := inv_put h0 (kb "a1") (kb "1") (sz2 "a1" (by decide)).1 (sz2 "a1" (by decide)).2 (sz1 "1" (by decide))
  have h2 := inv_put h1 (kb "a2") (kb "2") (sz2 "a2" (by decide)).1 (sz2 "a2" (by decide)).2 (sz1 "2" (by decide))
  have h3 := inv_put h2 (kb "b1") (kb "3") (sz2 "b1" (by decide)).1 (sz2 "b1" (by decide)).2 (sz1 "3" (by decide))
  exact inv_put h3 (kb "c1") (kb "4") (sz2 "c1" (by decide)).1 (sz2 "c1" (by decide)).2 (sz1 "4" (by decide))

/-- the creation state of the example satisfies the invariant -/
theorem exS_inv : ∃ db g, exS.db = some db ∧ Inv exS db g := by
  obtain ⟨db, g, h1, h2, _⟩ := exS_plain
  exact ⟨db, g, h1, h2⟩

theorem exS_snap : ∃ db g, exS.db = some db ∧ SnapOK exS db g := by
  obtain ⟨db, g, hdb, hinv⟩ := exS_inv
  exact ⟨db, g, hdb, SnapOK.of_inv hinv⟩

/-- `C10_stable` applied to the example: every hypothesis is discharged -/
example : ∃ db db', exS.db = some db ∧ (hrun exS exHist).db = some db' ∧
    ∀ k p, (k, p) ∈ db.index →
      ∃ v, absGet exS db k = some v ∧ valueAt exS db p = .val v ∧ valueAt (hrun exS exHist) db' p = .val v := by
  obtain ⟨db, g, hdb, hinv⟩ := exS_snap
  obtain ⟨db', h1, _, h2⟩ := C10_stable exS db g hdb hinv exHist
  exact ⟨db, db', hdb, h1, h2⟩

/-- `C10_snapshot_transcript` applied to the example events, both iterators -/
example : ∃ db, exS.db = some db ∧ ∀ (pre : Key) (rev : Bool),
    transcript exS (iterNew db pre rev) exEvs = specTranscript (Abs.new rev pre (fold exS db)) exEvs := by
  obtain ⟨db, g, hdb, hinv⟩ := exS_snap
  refine ⟨db, hdb, fun pre rev => ?_⟩
  exact (C10_snapshot_transcript exS db g hdb hinv pre rev exEvs).1

/-- `C10_engine_cursor` applied to the example -/
example : ∃ db, exS.db = some db ∧ ∀ (pre : Key) (rev : Bool) (typ : IndexType),
    (iterNew db pre rev).trace (callsOf exEvs)
      = (DBIter.new typ rev pre (shardsOf (fun _ => 0) 1 db.index)).trace (callsOf exEvs) := by
  obtain ⟨db, g, hdb, hinv⟩ := exS_snap
  refine ⟨db, hdb, fun pre rev typ => ?_⟩
  exact (C10_engine_cursor db pre rev hinv.sorted (callsOf exEvs)).2 (fun _ => 0) 1 typ
      (fun _ _ => Nat.zero_lt_one)

/-- `C10_snapshot_transcript_sharded` applied to the example (4 shards by last byte) -/
example : ∃ db, exS.db = some db ∧ ((∀ x ∈ db.index, C10.exShard x.1 < 4) → ∀ (typ : IndexType) (pre : Key) (rev : Bool),
    transcriptD exS (DBIter.new typ rev pre (shardsOf C10.exShard 4 db.index)) exEvs
      = specTranscript (Abs.new rev pre (fold exS db)) exEvs) := by
  obtain ⟨db, g, hdb, hinv⟩ := exS_snap
  refine ⟨db, hdb, fun hshard typ pre rev => ?_⟩
  exact C10_snapshot_transcript_sharded exS db g hdb hinv C10.exShard 4 typ hshard pre rev exEvs
#guard (match exS.db with | some db => db.index.all (fun x => C10.exShard x.1 < 4) | none => false)

/-- `C10_engine_complete_sorted` applied to the example -/
example : ∃ db db', exS.db = some db ∧ (hrun exS exHist).db = some db' ∧ (db.index.length ≤ 4 →
    (((iterNew db (kb "") false).run [.next, .next]).rewind.collect 4).map
        (fun x => (x.1, x.2.map (valueAt (hrun exS exHist) db')))
      = ((iterOrder false (fold exS db)).filter (fun x => ShardIter.hasPrefix (kb "") x.1)).map
          (fun x => (some x.1, some x.2))) := by
  obtain ⟨db, g, hdb, hinv⟩ := exS_snap
  by_cases hl : db.index.length ≤ 4
  · obtain ⟨db', h1, h2, _⟩ := C10_engine_complete_sorted exS db g hdb hinv (kb "") false [.next, .next] 4
      (Nat.le_trans (List.length_filter_le _ _) (by rw [iterOrder_length]; exact hl)) exHist
    exact ⟨db, db', hdb, h1, fun _ => h2⟩
  · obtain ⟨db', h1, _⟩ := C10_stable exS db g hdb hinv exHist
    exact ⟨db, db', hdb, h1, fun h => absurd h hl⟩
#guard (match exS.db with | some db => db.index.length ≤ 4 | none => false)

/-- `C10_engine_listkeys`, `C10_engine_complete`, `C10_fold_stable`, `C10_files_append_only` applied
    to the example -/
example : ∃ db, exS.db = some db ∧
    (∀ typ, ((IndexIterator.create typ false (shardsOf (fun _ => 0) 1 db.index)).rewind.collect db.index.length).map (·.1)
      = (listKeys db).map some) ∧
    (listKeys db).Pairwise (fun a b => keyLt a b = true) ∧
    (∃ db', (hrun exS exHist).db = some db' ∧
      db.index.map (fun x => (x.1, valueAt (hrun exS exHist) db' x.2)) = fold exS db) ∧
    (∃ db', (hrun exS exHist).db = some db' ∧ db.activeId ≤ db'.activeId) := by
  obtain ⟨db, g, hdb, hinv⟩ := exS_snap
  refine ⟨db, hdb, fun typ => ?_, (C10_engine_complete exS db g hinv).1, ?_, ?_⟩
  · exact (C10_engine_listkeys exS db hinv.sorted (fun _ => 0) 1 typ (fun _ _ => Nat.zero_lt_one) _
      (Nat.le_refl _)).1
  · obtain ⟨db', h1, h2, _⟩ := C10_fold_stable exS db g hdb hinv exHist
    exact ⟨db', h1, h2⟩
  · obtain ⟨db', h1, _, h2, _⟩ := C10_files_append_only exS db g hdb hinv exHist
    exact ⟨db', h1, h2⟩
-- `ListKeys` / `Fold` of the engine against the loop over the sharded iterator (4 shards)
#guard (match exS.db with
  | some db =>
    ((IndexIterator.create .btree false (shardsOf C10.exShard 4 db.index)).rewind.collect 4).map (·.1)
      == (listKeys db).map some
  | none => false)
-- the older file 0 is byte-identical after the history, the then-active file 1 too (it was full)
#guard (match exS.db, (hrun exS exHist).db with
  | some db, some db' =>
    [0, 1].all (fun id => ((getFile (dirOf exS db).data id).map (·.bytes.data.toList))
      == ((getFile (dirOf (hrun exS exHist) db').data id).map (·.bytes.data.toList)))
    && db.activeId == 1 && db'.activeId == 6
  | _, _ => false)

/-! ### a snapshot taken in the middle of a batch

`SnapOK` also holds while a batch is open.  With the 70-byte limit every `Batch.Put` first flushes
what is staged (`flushStagedAndUpdateFile`), so in `exB` the record `c1=Y` is already on disk and in
the live index — uncommitted — while `a1=Z` is still staged.  An iterator created now serves
`c1=Y` (what `Get` answers at that moment), and keeps doing so after `Commit`, later writes and
a `Merge`. -/

def exB : St := (bput (bput (bnew exS false 7).1 (kb "c1") (kb "Y")).1 (kb "a1") (kb "Z")).1

theorem exB_snap : ∃ db g, exB.db = some db ∧ SnapOK exB db g ∧ db.batch.isSome = true := by
  obtain ⟨db, g, hdb, hinv, hb0⟩ := exS_plain
  have hx0 := bnew_specX hinv hdb false 7 (by decide) (by decide)
    (fresh_of_unused 7 (logOf g) (fun x hx => by rw [hb0 x hx]; decide))
  obtain ⟨_, db1, g1, b1, n1, hx1, _, _⟩ := bput_specX hx0 (kb "c1") (kb "Y")
    (sz2 "c1" (by decide)).1 (sz2 "c1" (by decide)).2 (sz1 "Y" (by decide))
  obtain ⟨_, db2, g2, b2, n2, hx2, _, _⟩ := bput_specX hx1 (kb "a1") (kb "Z")
    (sz2 "a1" (by decide)).1 (sz2 "a1" (by decide)).2 (sz1 "Z" (by decide))
  exact ⟨db2, g2, hx2.open_, SnapOK.of_batch hx2.core, by rw [hx2.batch]; rfl⟩

def exHistB : List HOp :=
  [.op (.bdel (kb "a2")), .op .bcommit, .op .bdrop, .op (.put (kb "c1") (kb "W")), .merge [0, 1, 2, 3, 4],
   .op (.del (kb "b1"))]

def exEvsB : List Ev :=
  [.call .next, .write (.op (.bdel (kb "a2"))), .call .next, .write (.op .bcommit), .write (.op .bdrop),
   .call .next, .write (.op (.put (kb "c1") (kb "W"))), .write (.merge [0, 1, 2, 3, 4]),
   .write (.op (.del (kb "b1"))), .call .rewind, .call (.seek (kb "b")), .call .next, .call .next]

example : ∃ db db', exB.db = some db ∧ (hrun exB exHistB).db = some db' ∧
    (∀ k p, (k, p) ∈ db.index →
      ∃ v, absGet exB db k = some v ∧ valueAt (hrun exB exHistB) db' p = .val v) ∧
    ∀ (pre : Key) (rev : Bool),
      transcript exB (iterNew db pre rev) exEvsB = specTranscript (Abs.new rev pre (fold exB db)) exEvsB := by
  obtain ⟨db, g, hdb, hsnap, _⟩ := exB_snap
  obtain ⟨db', h1, _, h2⟩ := C10_stable exB db g hdb hsnap exHistB
  refine ⟨db, db', hdb, h1, fun k p hm => ?_, fun pre rev => ?_⟩
  · obtain ⟨v, e1, _, e3⟩ := h2 k p hm
    exact ⟨v, e1, e3⟩
  · exact (C10_snapshot_transcript exB db g hdb hsnap pre rev exEvsB).1

-- the mapping the iterator was created on: `c1=Y` is flushed but uncommitted, `a1=Z` only staged
#guard (match exB.db with
  | some db => (fold exB db).map (fun x => (String.fromUTF8! x.1, showRes x.2)) | none => [])
  == [("a1", "=1"), ("a2", "=2"), ("b1", "=3"), ("c1", "=Y")]
#guard (match exB.db with | some db => db.batch.isSome | none => false)
#guard ["a1", "a2", "b1", "c1"].map (getStr (hrun exB exHistB)) == ["=Z", "notfound", "notfound", "=W"]
#guard (match exB.db with
  | some db => (transcript exB (iterNew db (kb "") false) exEvsB).map showObs
  | none => []) ==
  [cell "a1" "1", cell "a2" "2", cell "a2" "2", cell "b1" "3", cell "b1" "3", cell "b1" "3", cell "c1" "Y",
   cell "c1" "Y", cell "c1" "Y", cell "c1" "Y", cell "a1" "1", cell "b1" "3", cell "c1" "Y", done]

/-! ## 4. backward seeks and seeks on an exhausted iterator: all three agree

`Seek` is forward-only in the Go sharded iterator (modelled by `DBIter`), in the engine model
`Engine.Iter.seek` and in the abstract cursor `Abs.seek`.  On the keys `a … f` of `C10.bwIdx` on the
real `xxhash & 3` shards — the instance on which the sharded iterator used to land on `c` where the
engine model and the abstract cursor landed on `a` — a `Seek a` after two `Next` now leaves all
three on `c`, for 4 shards as for one; and on an exhausted iterator all three ignore `Seek`. -/

def bwDB : DB :=
  { (default : DB) with index := C10.bwIdx.map (fun x => (x.1, (⟨0, 0, x.2, 1⟩ : Pos))) }

def keysOf (l : List (Obs Pos)) : List (Option Key) := l.map (·.key)

example :
    (Abs.new false ByteArray.empty bwDB.index).admissible [.next, .next, .seek (C10.k [97])] = false ∧
    keysOf ((iterNew bwDB ByteArray.empty false).trace [.next, .next, .seek (C10.k [97])])
      = [some (C10.k [97]), some (C10.k [98]), some (C10.k [99]), some (C10.k [99])] ∧
    keysOf ((Abs.new false ByteArray.empty bwDB.index).trace [.next, .next, .seek (C10.k [97])])
      = [some (C10.k [97]), some (C10.k [98]), some (C10.k [99]), some (C10.k [99])] ∧
    keysOf ((DBIter.new .btree false ByteArray.empty (shardsOf C10.bwShard 4 bwDB.index)).trace
        [.next, .next, .seek (C10.k [97])])
      = [some (C10.k [97]), some (C10.k [98]), some (C10.k [99]), some (C10.k [99])] ∧
    keysOf ((DBIter.new .btree false ByteArray.empty (shardsOf (fun _ => 0) 1 bwDB.index)).trace
        [.next, .next, .seek (C10.k [97])])
      = [some (C10.k [97]), some (C10.k [98]), some (C10.k [99]), some (C10.k [99])] := by
  decide

/-- `Seek` on an exhausted iterator: engine model, sharded iterator and `Abs` ignore it -/
example :
    (Abs.new false ByteArray.empty bwDB.index).admissible [.seek (C10.k [103]), .seek (C10.k [98])] = false ∧
    keysOf ((iterNew bwDB ByteArray.empty false).trace [.seek (C10.k [103]), .seek (C10.k [98])])
      = [some (C10.k [97]), none, none] ∧
    keysOf ((DBIter.new .hashmap false ByteArray.empty (shardsOf C10.bwShard 4 bwDB.index)).trace
        [.seek (C10.k [103]), .seek (C10.k [98])])
      = [some (C10.k [97]), none, none] ∧
    keysOf ((Abs.new false ByteArray.empty bwDB.index).trace [.seek (C10.k [103]), .seek (C10.k [98])])
      = [some (C10.k [97]), none, none] := by
  decide

end XixiKV.C10E
