import XixiKV.Proofs.EngineRestart
/-!
# C02 — Close followed by Open restores exactly the visible mapping

"Closing a database and opening the same directory again yields exactly the mapping that was
visible before Close - same keys, same values, deleted keys stay deleted, committed batches stay
applied - no matter how many times it is restarted and no matter which index type, shard count,
I/O type or file-size limit the directory is reopened with.  Open never panics or fails on a
directory that was produced by a clean Close."

The theorems are about the executable model (`Model/Engine.lean`): `close`, `openDB`.  The
directory is assumed to have no pending merge directory (merge adoption is a separate property).
-/
namespace XixiKV.C02
open XixiKV XixiKV.Frame XixiKV.Record XixiKV.Index XixiKV.Engine XixiKV.Engine.Restart

/-- the state after `Close` followed by `Open dir cfg` -/
def restart (s : St) (dir : String) (cfg : Cfg) : St := (openDB (close s).1 dir cfg).1

/-- the explicit result of a restart: the world differs from the one before `Close` only in the
    sync marks of the data files; the handle is built from the replay of the ghost log and the
    *new* configuration enters only as the stored `cfg` field -/
theorem C02_restart_explicit (s : St) (db : DB) (g : GDir) (cfg' : Cfg)
    (hdb : s.db = some db) (hinv : Inv s db g)
    (hnomerge : s.world.get (mergeDirName db.dir) = none)
    (hcfg : cfg'.Valid) :
    ∃ d, s.world.get db.dir = some d ∧ Matches d.data g ∧
      close s = ({ world := s.world.set db.dir { d with data := syncAll d.data, locked := false },
                   db := none }, .ok) ∧
      openDB (close s).1 db.dir cfg'
        = ({ world := s.world.set db.dir { d with data := syncAll d.data, locked := true },
             db := some { cfg := cfg', dir := db.dir, activeId := db.activeId,
                          index := (replayLog (logOf g)).index,
                          reclaim := (replayLog (logOf g)).reclaim,
                          total := (replayLog (logOf g)).total, bytesWrite := 0, batch := none } },
           .ok) := by
  obtain ⟨d, hd, hlock, hm⟩ := hinv.dir
  refine ⟨d, hd, hm, close_eq s db d hdb hd, ?_⟩
  rw [close_eq s db d hdb hd]
  have hgne : g ≠ [] := getLast?_ne_none_of_map hinv.active
  have hms : Matches (syncAll d.data) g := Matches_syncAll hm
  have hopen := openDB_scan
    { world := s.world.set db.dir { d with data := syncAll d.data, locked := false }, db := none }
    db.dir cfg' { d with data := syncAll d.data, locked := false } (replayLog (logOf g)) (syncAll d.data)
    rfl (by omega) (World.get_set_self _ _ _) rfl
    (by rw [World.get_set_ne _ _ _ _ (mergeDirName_ne _)]; exact hnomerge)
    (Matches_ne_nil hms hgne)
    (loadIndex_ghost_init _ g hms hinv.recs)
  simp only [] at hopen ⊢
  rw [hopen]
  have hact : (mkDB cfg' db.dir (replayLog (logOf g)) (syncAll d.data)).activeId = db.activeId := by
    unfold mkDB
    exact activeId_of_getLast (by rw [Matches_getLast hms]; exact hinv.active)
  have hset : ∀ (w : World) (n : String) (a b : DirSt), (w.set n a).set n b = w.set n b := by
    intro w n a b
    induction w with
    | nil => simp [World.set]
    | cons y rest ih =>
      obtain ⟨m, x⟩ := y
      simp only [World.set]
      split
      · rename_i e; simp [World.set, e]
      · rename_i e; simp [World.set, e, ih]
  rw [hset]
  rw [← hact]
  rfl

/-- **C02** — one restart.  Let `s` be a state with an open handle `db` satisfying the engine
    invariant for the ghost directory `g`, without a merge directory.  For EVERY configuration
    `cfg'` with a positive file-size limit, `Close` then `Open` succeeds, and the new handle has
    the same index (hence `absGet` is the same function on all keys), the same active file id, the
    invariant holds again for the same ghost directory (so the theorem iterates), and `Stat` obeys
    the accounting relation `disk = reclaimable + live bytes` with the same key and file counts. -/
theorem C02_restart (s : St) (db : DB) (g : GDir) (cfg' : Cfg)
    (hdb : s.db = some db) (hinv : Inv s db g)
    (hnomerge : s.world.get (mergeDirName db.dir) = none)
    (hcfg : cfg'.Valid) :
    (close s).2 = .ok ∧
    ∃ s' db', openDB (close s).1 db.dir cfg' = (s', .ok) ∧ s'.db = some db' ∧
      db'.dir = db.dir ∧ db'.cfg = cfg' ∧
      db'.index = db.index ∧ db'.activeId = db.activeId ∧
      (∀ k, absGet s' db' k = absGet s db k) ∧
      Inv s' db' g ∧
      s'.world.get (mergeDirName db.dir) = none ∧
      db'.total = (replayLog (logOf g)).total ∧ db'.reclaim = (replayLog (logOf g)).reclaim ∧
      (stat s' db').disk = (stat s' db').reclaim + liveBytes db'.index ∧
      (stat s' db').keys = (stat s db).keys ∧ (stat s' db').files = (stat s db).files := by
  obtain ⟨d, hd, hm, hclose, hopen⟩ := C02_restart_explicit s db g cfg' hdb hinv hnomerge hcfg
  refine ⟨by rw [hclose], _, _, hopen, rfl, rfl, rfl, hinv.index.symm, rfl, ?_, ?_, ?_, rfl, rfl, ?_, ?_, ?_⟩
  · -- absGet
    intro k
    apply absGet_congr
    · exact hinv.index.symm
    · intro id
      simp only [dirOf, World.get_set_self, hd, Option.getD_some]
      exact getFile_syncAll d.data id
  · -- Inv
    exact {
      dir := ⟨_, World.get_set_self _ _ _, rfl, Matches_syncAll hm⟩
      asc := hinv.asc
      active := hinv.active
      recs := hinv.recs
      index := rfl
      sorted := replay_sorted _
      counters := replay_counters _
      nobatch := rfl }
  · rw [World.get_set_ne _ _ _ _ (mergeDirName_ne _)]; exact hnomerge
  · exact replay_counters _
  · simp only [stat]; rw [hinv.index]
  · simp only [stat, dirOf, World.get_set_self, hd, Option.getD_some, syncAll, List.length_map]

/-- **independence from the reader's configuration**: two restarts of the same closed directory
    with different (valid) configurations produce the same world and handles that differ in the
    stored `cfg` field only — index type, shard count, I/O type, sync policy, bytes-per-sync and
    file-size limit have no influence on what is recovered -/
theorem C02_config_independent (s : St) (db : DB) (g : GDir) (cfg₁ cfg₂ : Cfg)
    (hdb : s.db = some db) (hinv : Inv s db g)
    (hnomerge : s.world.get (mergeDirName db.dir) = none)
    (h₁ : cfg₁.Valid) (h₂ : cfg₂.Valid) :
    ∃ s₁ s₂ db₁ db₂, openDB (close s).1 db.dir cfg₁ = (s₁, .ok) ∧ openDB (close s).1 db.dir cfg₂ = (s₂, .ok) ∧
      s₁.db = some db₁ ∧ s₂.db = some db₂ ∧ s₁.world = s₂.world ∧ db₁ = { db₂ with cfg := cfg₁ } := by
  obtain ⟨d, hd, _, _, hopen₁⟩ := C02_restart_explicit s db g cfg₁ hdb hinv hnomerge h₁
  obtain ⟨d', hd', _, _, hopen₂⟩ := C02_restart_explicit s db g cfg₂ hdb hinv hnomerge h₂
  rw [hd] at hd'; cases hd'
  exact ⟨_, _, _, _, hopen₁, hopen₂, rfl, rfl, rfl, rfl⟩

/-- **C02, any number of restarts with any configurations**: after `Close`/`Open` cycles with an
    arbitrary list of valid configurations the handle still has the same index, the same active
    file, denotes the same mapping, and satisfies the invariant for the same ghost directory -/
theorem C02_restart_iter (cfgs : List Cfg) (hcfgs : ∀ c ∈ cfgs, c.Valid) :
    ∀ (s : St) (db : DB) (g : GDir), s.db = some db → Inv s db g →
      s.world.get (mergeDirName db.dir) = none →
      ∃ db', (cfgs.foldl (fun s c => restart s db.dir c) s).db = some db' ∧
        db'.dir = db.dir ∧ db'.index = db.index ∧ db'.activeId = db.activeId ∧
        (∀ k, absGet (cfgs.foldl (fun s c => restart s db.dir c) s) db' k = absGet s db k) ∧
        Inv (cfgs.foldl (fun s c => restart s db.dir c) s) db' g := by
  induction cfgs with
  | nil =>
    intro s db g hdb hinv _
    exact ⟨db, hdb, rfl, rfl, rfl, fun _ => rfl, hinv⟩
  | cons c cs ih =>
    intro s db g hdb hinv hnm
    obtain ⟨_, s', db', hopen, hdb', hdir, _, hix, hact, habs, hinv', hnm', _⟩ :=
      C02_restart s db g c hdb hinv hnm (hcfgs c (by simp))
    have hs' : restart s db.dir c = s' := by unfold restart; rw [hopen]
    obtain ⟨db'', h1, h2, h3, h4, h5, h6⟩ := ih (fun x hx => hcfgs x (by simp [hx])) s' db' g hdb' hinv'
      (by rw [hdir]; exact hnm')
    simp only [List.foldl_cons, hs']
    rw [hdir] at h1 h5 h6
    exact ⟨db'', h1, by rw [h2, hdir], by rw [h3, hix], by rw [h4, hact],
      fun k => by rw [h5 k, habs k], h6⟩

/-! ## non-vacuity -/

/-- a concrete instance: directory "d" holding one data file with the single record
    `put "k" "v"`, handle open on it -/
def exRec : Record := { typ := 0, key := "k".toUTF8, value := "v".toUTF8, batch := 0 }
def exG : GDir := [(0, [exRec])]
def exDB : DB :=
  { cfg := { fileSize := 1000, sync := 0, bps := 0, idx := 0, io := 0, shards := 1 }, dir := "d",
    activeId := 0, index := (replayLog (logOf exG)).index, reclaim := (replayLog (logOf exG)).reclaim,
    total := (replayLog (logOf exG)).total, bytesWrite := 0, batch := none }
def exSt : St :=
  { world := [("d", { data := [(0, ⟨bytesOf [exRec], 0⟩)], hint := none, marker := none, locked := true })],
    db := some exDB }

theorem exInv : Inv exSt exDB exG where
  dir := ⟨{ data := [(0, ⟨bytesOf [exRec], 0⟩)], hint := none, marker := none, locked := true },
    by simp [exSt, exDB, World.get], rfl, by simp [Matches, exG]⟩
  asc := by simp [AscIds, exG]
  active := by simp [exG, exDB]
  recs := by
    intro x hx r hr
    simp only [exG, List.mem_singleton] at hx
    subst hx
    simp only [List.mem_singleton] at hr
    subst hr
    refine ⟨by decide, by decide, ?_, ?_, by decide⟩
    · show ("k".toUTF8).size < 2 ^ 31
      have : ("k".toUTF8).size = 1 := by decide
      omega
    · show ("v".toUTF8).size < 2 ^ 31
      have : ("v".toUTF8).size = 1 := by decide
      omega
  index := rfl
  sorted := replay_sorted _
  counters := replay_counters _
  nobatch := rfl

/-- the hypotheses of `C02_restart` are satisfiable, with a different reader configuration -/
example : ∃ s' db', openDB (close exSt).1 "d"
      { fileSize := 7, sync := 1, bps := 3, idx := 2, io := 1, shards := 64 } = (s', .ok) ∧
    s'.db = some db' ∧ db'.index = exDB.index ∧ Inv s' db' exG := by
  obtain ⟨_, s', db', h1, h2, _, _, h3, _, _, h4, _⟩ := C02_restart exSt exDB exG
    { fileSize := 7, sync := 1, bps := 3, idx := 2, io := 1, shards := 64 } rfl exInv
    (by simp [exSt, exDB, World.get, mergeDirName]) (by decide)
  exact ⟨s', db', h1, h2, h3, h4⟩

/-- … and of `C02_restart_iter`: three restarts with three different configurations -/
example : ∃ db', ([{ fileSize := 7, sync := 1, bps := 3, idx := 2, io := 1, shards := 64 },
      { fileSize := 1, sync := 0, bps := 0, idx := 0, io := 0, shards := 1 },
      { fileSize := 4096, sync := 2, bps := 9, idx := 1, io := 0, shards := 3 }].foldl
        (fun s c => restart s "d" c) exSt).db = some db' ∧ db'.index = exDB.index := by
  obtain ⟨db', h1, _, h2, _⟩ := C02_restart_iter
    [{ fileSize := 7, sync := 1, bps := 3, idx := 2, io := 1, shards := 64 },
      { fileSize := 1, sync := 0, bps := 0, idx := 0, io := 0, shards := 1 },
      { fileSize := 4096, sync := 2, bps := 9, idx := 1, io := 0, shards := 3 }]
    (by intro c hc; simp only [List.mem_cons, List.not_mem_nil, or_false] at hc
        rcases hc with rfl | rfl | rfl <;> decide)
    exSt exDB exG rfl exInv (by simp [exSt, exDB, World.get, mergeDirName])
  exact ⟨db', h1, h2⟩

/-- `checkOptions`: a configuration that is not `Valid` is rejected before anything is looked at —
    the world (directories, lock) is unchanged and no handle exists; every other theorem of this
    file assumes `Valid`, which is exactly the complement. -/
theorem C02_options_rejected (s : St) (dir : String) (cfg : Cfg) (hdb : s.db = none) (h : ¬ cfg.Valid) :
    openDB s dir cfg = (s, .err "options") := by
  have h' : cfg.fileSize = 0 ∨ cfg.bps > 16777216 ∨ (cfg.sync = 2 ∧ cfg.bps = 0) := by
    unfold Cfg.Valid at h; omega
  unfold openDB
  simp only [hdb, if_pos h']

end XixiKV.C02

