import XixiKV.Proofs.DirLock
import XixiKV.Model.Lockset
/-!
# C16 (the part about the lock's life cycle) — the directory lock is exclusive, and it is released
by `Close` and by a failed `Open`, so the directory can then be opened again

Model: `XixiKV.DirLock` (`Model/DirLock.lean`): one lock bit per directory, any number of handles
in any interleaving.  Whether the failing paths of `Open` and the paths of `Close` release the lock
is a parameter (`Cfg`) computed from the generated lockset table (`Lockset.dirLockCfg`);
`C16_generated` checks that the current tree gives the releasing configuration.

Not covered here: that the OS primitive behind `flock.TryLock` is itself exclusive and is dropped
when the process dies (trusted), and the other half of C16 (what `Open` recovers), which is the
subject of the engine model.
-/
namespace XixiKV.C16
open XixiKV.DirLock XixiKV.Lockset XixiKV.Generated

/-- In every reachable state of every interleaving — whatever the release behaviour — at most one
handle holds a directory: two handles that are open (or still initialising) on the same directory
are the same handle. -/
theorem C16_exclusive {c : Cfg} {s : St} (hr : Reachable c s) {h h' : Hid} {d : Dir}
    (h1 : Holds s h d) (h2 : Holds s h' d) : h = h' :=
  (reachable_inv hr).uniq h h' d h1 h2

/-- a state in which the hypotheses hold non-trivially: handle 0 is open on directory 7, handle 1 has
just passed `TryLock` on directory 8, and handle 2's attempt on directory 7 was refused -/
example : ∃ s, Reachable Cfg.good s ∧ Holds s 0 7 ∧ Holds s 1 8 ∧ s.pc 2 = .closed ∧
    s.locked 7 = true := by
  let S1 : St := { locked := upd St.init.locked 7 true, pc := upd St.init.pc 0 (.opening 7) }
  let S2 : St := { S1 with pc := upd S1.pc 0 (.opened 7) }
  let S3 : St := { locked := upd S2.locked 8 true, pc := upd S2.pc 1 (.opening 8) }
  have s1 : Step Cfg.good St.init S1 := Step.tryOk St.init 0 7 rfl rfl
  have s2 : Step Cfg.good S1 S2 := Step.openOk S1 0 7 rfl
  have s3 : Step Cfg.good S2 S3 := Step.tryOk S2 1 8 rfl rfl
  have s4 : Step Cfg.good S3 S3 := Step.tryBusy S3 2 7 rfl rfl
  exact ⟨S3, .step (.step (.step (.step .init s1) s2) s3) s4, Or.inr rfl, Or.inl rfl, rfl, rfl⟩

/-- When the failing paths of `Open` and the paths of `Close` release the lock, the bit of a
directory is set exactly while some handle holds it: in every reachable state of every
interleaving, once the holder has closed — or its `Open` has failed — the bit is clear. -/
theorem C16_released {s : St} (hr : Reachable Cfg.good s) (d : Dir) :
    s.locked d = true ↔ ∃ h, Holds s h d :=
  ⟨reachable_tight hr d, fun ⟨h, hh⟩ => (reachable_inv hr).bit h d hh⟩

/-- … so the directory can then be opened again: after the `Close` of the handle that holds `d`,
and likewise after the failure of the `Open` that holds `d`, the `TryLock` of any closed handle on
`d` succeeds. -/
theorem C16_reopen {s : St} (hr : Reachable Cfg.good s) {h : Hid} {d : Dir} (hh : Holds s h d) :
    ∃ s', Step Cfg.good s s' ∧ Reachable Cfg.good s' ∧ s'.pc h = .closed ∧ s'.locked d = false ∧
      ∀ h', s'.pc h' = .closed → ∃ s'', Step Cfg.good s' s'' ∧ Holds s'' h' d := by
  have fin : ∀ s', Step Cfg.good s s' → s'.pc h = .closed → s'.locked d = false →
      ∃ s', Step Cfg.good s s' ∧ Reachable Cfg.good s' ∧ s'.pc h = .closed ∧ s'.locked d = false ∧
        ∀ h', s'.pc h' = .closed → ∃ s'', Step Cfg.good s' s'' ∧ Holds s'' h' d := by
    intro s' hs hc hl
    refine ⟨s', hs, .step hr hs, hc, hl, ?_⟩
    intro h' hc'
    exact ⟨_, Step.tryOk s' h' d hc' hl, Or.inl (by simp)⟩
  rcases hh with hh | hh
  · exact fin _ (Step.openFail s h d hh) (by simp) (by simp [release, Cfg.good])
  · exact fin _ (Step.close s h d hh) (by simp) (by simp [release, Cfg.good])

/-- The premise is necessary: if a failing path of `Open` does not release the lock, there is a
reachable state in which nobody holds directory 0 and yet its bit is set — no `Open` of it can
succeed any more. -/
theorem C16_needs_release (c : Cfg) (hc : c.releasesOnError = false) :
    ∃ s, Reachable c s ∧ (∀ h, ¬ Holds s h 0) ∧ s.locked 0 = true := by
  let S1 : St := { locked := upd St.init.locked 0 true, pc := upd St.init.pc 0 (.opening 0) }
  let S2 : St := { locked := release c.releasesOnError S1.locked 0, pc := upd S1.pc 0 .closed }
  have s1 : Step c St.init S1 := Step.tryOk St.init 0 0 rfl rfl
  have s2 : Step c S1 S2 := Step.openFail S1 0 0 rfl
  refine ⟨S2, .step (.step .init s1) s2, ?_, ?_⟩
  · intro h hh
    have : S2.pc h = .closed := by
      show upd (upd St.init.pc 0 (.opening 0)) 0 .closed h = .closed
      unfold upd; split <;> rfl
    rcases hh with hh | hh <;> rw [this] at hh <;> cases hh
  · show release c.releasesOnError S1.locked 0 0 = true
    rw [hc]; rfl

set_option maxRecDepth 100000 in
/-- On the lockset table regenerated from the current Go tree: in `Open`, every failing return
after the `flockTry` row is preceded — since the previous return — by a `flockRelease` row, except
the two returns that immediately follow `flockTry` (the acquisition itself failed: `err != nil`,
`!hold`; nothing is held on those paths); and in `DB.Close` every return is preceded by a
`flockRelease` row.  Hence the table stands for the releasing configuration of the model. -/
theorem C16_generated :
    ReleasesOnError locksetTable ∧ CloseReleases locksetTable ∧
    dirLockCfg locksetTable = Cfg.good := by decide

set_option maxRecDepth 100000 in
/-- `DB.Close` releases the directory lock last: no file is closed or synced after the release on any
path of the current tree (so "the database is open" and "the lock is held" coincide until `Close`
has finished with the files). -/
theorem C16_generated_close_order : CloseReleasesLast locksetTable := by decide

/-- the predicate is not vacuous: a `Close` that unlocks first and closes the active file afterwards -/
example : ¬ CloseReleasesLast
    [⟨"DB.Close", 0, "acqW", .W, 1⟩, ⟨"DB.Close", 1, "flockRelease", .W, 1⟩,
     ⟨"DB.Close", 2, "closeFile", .W, 1⟩, ⟨"DB.Close", 3, "relW", .W, 1⟩, ⟨"DB.Close", 4, "ret", .none, 0⟩] := by decide

set_option maxRecDepth 100000 in
/-- The literal reading "EVERY `retErr` after `flockTry` is preceded by a `flockRelease`" does not
hold on the current table: the offending rows are exactly two error returns of `Open`, the two
acquisition-failure returns.  (Reported rather than hidden; see `Lockset.ReleasesOnError`.) -/
example : ¬ ReleasesOnErrorStrict locksetTable ∧
    (unreleasedRows 0 false false 0 (openRows locksetTable)).map (fun r => (r.method, r.action)) =
      [("Open", "retErr"), ("Open", "retErr")] := by decide

/-- the predicates are not vacuous: an `Open` whose later failing return does not release, a third
immediate return after `TryLock`, an `Open` without `flockTry`, and a `Close` with a return that
keeps the lock are rejected -/
example :
    ¬ ReleasesOnError [⟨"Open", 0, "flockTry", .none, 0⟩, ⟨"Open", 1, "retErr", .none, 0⟩,
                       ⟨"Open", 2, "retErr", .none, 0⟩, ⟨"Open", 3, "fsRename", .none, 0⟩,
                       ⟨"Open", 4, "retErr", .none, 0⟩, ⟨"Open", 5, "ret", .none, 0⟩] ∧
    ¬ ReleasesOnError [⟨"Open", 0, "flockTry", .none, 0⟩, ⟨"Open", 1, "retErr", .none, 0⟩,
                       ⟨"Open", 2, "retErr", .none, 0⟩, ⟨"Open", 3, "retErr", .none, 0⟩] ∧
    ¬ ReleasesOnError [⟨"Open", 0, "retErr", .none, 0⟩, ⟨"Open", 1, "ret", .none, 0⟩] ∧
    ¬ CloseReleases [⟨"DB.Close", 0, "acqW", .W, 1⟩, ⟨"DB.Close", 1, "relW", .W, 1⟩,
                     ⟨"DB.Close", 2, "retErr", .none, 0⟩, ⟨"DB.Close", 3, "flockRelease", .W, 1⟩,
                     ⟨"DB.Close", 4, "relW", .W, 1⟩, ⟨"DB.Close", 5, "ret", .none, 0⟩] := by decide


end XixiKV.C16
