import XixiKV.Proofs.HistoryStatDur
import XixiKV.Proofs.HistoryStatExact
import XixiKV.Properties.C13
import XixiKV.Properties.C17
/-!
# C17 (Stat, space accounting, file-size limit) and C13 (durability invariant) through WHOLE histories

> C17: "Stat reports the true number of live keys and of data files, and its sizes satisfy
> 0 ≤ Reclaimable ≤ DiskSize with DiskSize − Reclaimable equal to the bytes occupied by the live
> records, in the live database and after a restart alike, so Merge is never refused because of
> drifted counters.  A data file exceeds DataFileSize only when it holds a single record (plus, for a
> batch, its sealing record) that alone exceeds the limit."

`Properties/C01.lean` / `Properties/C17.lean` prove this for plain and batch calls and a single
restart ("**Not covered:** `Merge`"); `Properties/C13.lean` proves the durability invariant `DInv`
for plain and batch calls.  This file lifts all of it to the **histories** of
`Properties/C01History.lean` — lists of plain calls, batch calls, `Merge` (success or id-conflict
error), restarts under any valid configuration (scan path or ADOPTION of a finished merge) and
`Backup` — from the freshly opened empty database, at EVERY point of the history
(`stateAt … n` = the model state after the first `n` calls, `specAt h n` = the specification state):

* `C17_history_counters`   — at every point without a live batch `Stat` is exact (`StatAt`): key
  count, file count, `0 ≤ Reclaimable ≤ DiskSize`, `DiskSize − Reclaimable = liveBytes` = Σ sizes of
  the records the live keys point to = the bytes those records occupy; and for every restart of the
  history what `DiskSize` / `Reclaimable` are afterwards (`RestartCounters`: the replay's counters;
  after the adopting restart both plus the excess `S` of `C06_adopt`);
* `C17_history_counters_exact` — the two counters ONE BY ONE: at every point without a live batch
  `DiskSize` and `Reclaimable` are exactly what a scan-path restart would compute from the current
  files, plus a common excess `E` that is `0` from the start, changes only at restarts, and is the `S`
  of `C06_adopt` from an adopting restart to the next restart (the live engine never drifts);
  `C17_history_marker` — which restarts adopt (follows the outcomes of the `Merge`s);
* `C17_history_merge_admitted` — Go's `uint64(totalSize − reclaimSize)` (`mergeNeed`) never wraps and
  equals `liveBytes`: `mergeCheck` refuses a merge for lack of space only if the LIVE data do not fit;
* `C17_history_limit`      — every data file, and every file of the merge directory (the rewritten
  files of a `Merge`, successful or not), is within the largest `DataFileSize` configured so far or
  holds a single record (plus a batch's sealing record); after adoption the adopted files are data
  files and satisfy the same;
* `C13_history`            — `DInv` at every point; a finished merge directory holds flushed files only;
  after every restart everything is flushed; `C13_history_always` / `C13_history_threshold`: the
  per-policy theorems apply at every point.

Hypotheses: exactly those of `C01_refines_history` (`HOpOK`, `WF`, `RunOK`), for the limit theorem in
addition `HOpSmall` (key + value ≤ 2^27 bytes: the range in which `GetLogRecordDiskSize` is an upper
bound, see `Properties/C17.lean`).  `*_small` variants take the static hypotheses of
`C01_refines_history_small` instead of `RunOK`.  Non-vacuity: `demoH` at the end.

**Not covered:** states with a LIVE batch for the `Stat` part (the index is ahead of nothing but the
staged records are not counted; `Stat` blocks on `db.mu` in Go anyway); the merge-ratio test of
`mergeCheck` (`float32` arithmetic, not modelled); `int64` overflow of the counters themselves
(`C17_history_merge_admitted` assumes `DiskSize < 2^63`).
-/
namespace XixiKV.C17H
open XixiKV XixiKV.Frame XixiKV.Record XixiKV.Index XixiKV.Engine XixiKV.Engine.BatchP XixiKV.Engine.HistP
open XixiKV.Engine.Restart XixiKV.Engine.MergeP XixiKV.Adopt
open XixiKV.Engine.PolicyP.Dur
open XixiKV.Engine.PolicyP.Size (SizeOK FileOK SizeInv)
open XixiKV.C01H
open XixiKV.C01 (Spec specEmpty absOf)

/-- the model state after the first `n` calls of the history `h` (from the freshly opened database) -/
def stateAt (dir : String) (cfg : Cfg) (h : List HOp) (n : Nat) : St :=
  (hrun dir (openDB St.init dir cfg).1 (h.take n)).1

/-- the specification state after the first `n` calls -/
def specAt (h : List HOp) (n : Nat) : SpecSt := (specRun ⟨specEmpty, .none⟩ (h.take n)).1

theorem stateAt_succ (dir : String) (cfg : Cfg) (h : List HOp) (n : Nat) (hn : n < h.length) :
    stateAt dir cfg h (n + 1) = (hstep dir (stateAt dir cfg h n) h[n]).1 :=
  hrun_take_succ dir h _ n hn

theorem stateAt_end (dir : String) (cfg : Cfg) (h : List HOp) :
    stateAt dir cfg h h.length = (hrun dir (openDB St.init dir cfg).1 h).1 := by
  unfold stateAt; rw [List.take_length]

/-- the history invariant at every point -/
theorem HInv_at (dir : String) (cfg : Cfg) (hcfg : cfg.Valid) (h : List HOp)
    (hok : ∀ op ∈ h, HOpOK dir op) (hwf : WF false h = true)
    (hrunok : RunOK dir (openDB St.init dir cfg).1 h) (n : Nat) :
    HInv dir (stateAt dir cfg h n) (specAt h n) := by
  obtain ⟨_, hi0⟩ := HInv0_fresh dir cfg hcfg
  exact (points dir (fun _ => True) (fun (c : Unit) _ => c) (fun _ _ _ => True)
    (fun _ _ _ _ _ _ _ _ _ _ => trivial) h _ ⟨specEmpty, .none⟩ () hi0.toQ trivial
    (fun op hop => ⟨hok op hop, trivial⟩) hwf hrunok n).1

/-! ## 1. `Stat` is exact at every point -/

/-- **C17 for histories, the counters.**  For every directory name, valid initial configuration and
    history `h` satisfying the side conditions of `C01_refines_history`:

    (a) at EVERY point `n` of the history at which no batch is live, with `s = stateAt … n` and
        `m = (specAt h n).m` the abstract map the specification has reached, there are the handle
        `db`, the ghost directory `g` and the data directory `d` with `StatAt dir s m db g d`:
        `Stat().KeyNum` = number of keys on which `m` is defined (= length of every duplicate-free
        enumeration of them; the index holds exactly these keys, once each), `Stat().DataFileNum` =
        number of data files of the directory, `Reclaimable ≤ DiskSize`,
        `DiskSize − Reclaimable = liveBytes db.index` = Σ `Pos.size` over the index, and every index
        entry `(k, p)` points at a logged record with key `k` and value `m k`, readable at `p`, whose
        encoding plus 7 bytes per chunk is `p.size` — the bytes the live record occupies.
        In particular: after `Merge` (success or error), after batches between a merge and its
        adoption, after the adopting restart, after any later restart.

    (b) for every restart in the history (position `n`): `RestartCounters` between the states before
        and after — without anything to adopt `DiskSize` and `Reclaimable` are exactly the replay's
        counters of the directory; after the ADOPTING restart both exceed the replay's by
        `S = Σ sizes of the records of the last hinted file` (it is scanned a second time), and only
        then. -/
theorem C17_history_counters (dir : String) (cfg : Cfg) (hcfg : cfg.Valid) (h : List HOp)
    (hok : ∀ op ∈ h, HOpOK dir op) (hwf : WF false h = true)
    (hrunok : RunOK dir (openDB St.init dir cfg).1 h) :
    (∀ n, isLive (specAt h n).slot = false →
      ∃ db g d, StatAt dir (stateAt dir cfg h n) (specAt h n).m db g d) ∧
    (∀ n (hn : n < h.length) cfg', h[n] = .restart cfg' →
      RestartCounters dir (stateAt dir cfg h n) (stateAt dir cfg h (n + 1))) := by
  refine ⟨?_, ?_⟩
  · intro n hq
    obtain ⟨dead, hQ⟩ := HInv_quiet (HInv_at dir cfg hcfg h hok hwf hrunok n) hq
    exact HInvQ.statAt hQ
  · intro n hn cfg' hop
    obtain ⟨_, hi0⟩ := HInv0_fresh dir cfg hcfg
    have := steps dir (fun _ => True)
      (fun s σ op => ∀ cfg', op = .restart cfg' → RestartCounters dir s (hstep dir s op).1)
      (by
        intro s σ op hi hopok _ hwf' hst cfg'' e
        subst e
        obtain ⟨dead, hQ⟩ := quiet_of_wf hi hwf' rfl
        exact restartQ_counters hQ cfg'' hopok hst)
      h _ ⟨specEmpty, .none⟩ hi0.toQ (fun op hop => ⟨hok op hop, trivial⟩) hwf hrunok n hn cfg' hop
    rw [stateAt_succ dir cfg h n hn]
    exact this

/-- **which restarts adopt.**  The case distinction of `RestartCounters` (is there a merge directory
    with a marker?) follows the history: initially there is none; a `Merge` that answers `.ok` leaves a
    merge directory WITH a marker, one that answers an error a merge directory WITHOUT; a restart
    leaves nothing adoptable (the adopted directory is removed, a marker-less one is ignored and
    stays marker-less); no other call touches the merge directory.  So a restart adopts — and
    over-reports `DiskSize` / `Reclaimable` by `S` — exactly when the last `Merge` since the previous
    restart (or since the start) answered `.ok`. -/
theorem C17_history_marker (dir : String) (cfg : Cfg) (hcfg : cfg.Valid) (h : List HOp)
    (hok : ∀ op ∈ h, HOpOK dir op) (hwf : WF false h = true)
    (hrunok : RunOK dir (openDB St.init dir cfg).1 h) :
    NoMarker (stateAt dir cfg h 0).world dir ∧
    ∀ n (hn : n < h.length),
      (∀ order, h[n] = .merge order →
        ((merge (stateAt dir cfg h n) order).2 = .ok →
          ∃ md, (stateAt dir cfg h (n + 1)).world.get (mergeDirName dir) = some md ∧ md.marker ≠ none) ∧
        ((∃ e, (merge (stateAt dir cfg h n) order).2 = .err e) → NoMarker (stateAt dir cfg h (n + 1)).world dir)) ∧
      (∀ cfg', h[n] = .restart cfg' → NoMarker (stateAt dir cfg h (n + 1)).world dir) ∧
      ((∀ order, h[n] ≠ .merge order) → (∀ cfg', h[n] ≠ .restart cfg') →
        (stateAt dir cfg h (n + 1)).world.get (mergeDirName dir) = (stateAt dir cfg h n).world.get (mergeDirName dir)) := by
  obtain ⟨_, hi0⟩ := HInv0_fresh dir cfg hcfg
  refine ⟨?_, ?_⟩
  · obtain ⟨db, g, _, _, _, _, hms, _⟩ := hi0
    rcases hms with hnm | ⟨n, gm, vis, hmo⟩
    · exact hnm
    · obtain ⟨md, hmd, _⟩ := hmo.mdir
      have hmd' : (openDB St.init dir cfg).1.world.get (mergeDirName dir) = some md := hmd
      rw [openDB_fresh dir cfg hcfg] at hmd'
      simp [World.get, if_neg (Engine.mergeDirName_ne dir)] at hmd'
  · intro n hn
    have key := steps dir (fun _ => True)
      (fun s σ op =>
        (∀ order, op = .merge order →
          ((merge s order).2 = .ok →
            ∃ md, (hstep dir s op).1.world.get (mergeDirName dir) = some md ∧ md.marker ≠ none) ∧
          ((∃ e, (merge s order).2 = .err e) → NoMarker (hstep dir s op).1.world dir)) ∧
        (∀ cfg', op = .restart cfg' → NoMarker (hstep dir s op).1.world dir) ∧
        ((∀ order, op ≠ .merge order) → (∀ cfg', op ≠ .restart cfg') →
          (hstep dir s op).1.world.get (mergeDirName dir) = s.world.get (mergeDirName dir)))
      (by
        intro s σ op hi hop _ hwf' hst
        obtain ⟨db0, hs0, hd0⟩ := HInv_open hi
        refine ⟨?_, ?_, ?_⟩
        · intro order e
          subst e
          obtain ⟨dead, hQ⟩ := quiet_of_wf hi hwf' rfl
          exact mergeQ_marker hQ order hop hst
        · intro cfg' e
          subst e
          obtain ⟨dead, hQ⟩ := quiet_of_wf hi hwf' rfl
          exact restartQ_nomarker hQ cfg' hop hst
        · intro h1 h2
          cases op with
          | a op => exact astep_mdir hs0 hd0 op
          | merge order => exact absurd rfl (h1 order)
          | restart cfg' => exact absurd rfl (h2 cfg')
          | backup dest =>
            obtain ⟨W, e, _, hwm⟩ := backup_eq hs0 dest
            show (backup s dest).1.world.get (mergeDirName dir) = _
            rw [e]
            have := hwm (by rw [hd0]; exact hop.1) (by rw [hd0]; exact hop.2)
            rw [hd0] at this; exact this)
      h _ ⟨specEmpty, .none⟩ hi0.toQ (fun op hop => ⟨hok op hop, trivial⟩) hwf hrunok n hn
    rw [stateAt_succ dir cfg h n hn]
    exact key

/-- the quantities of (a) on the handle, without the ghost state: what a caller of `Stat` sees -/
theorem C17_history_stat (dir : String) (cfg : Cfg) (hcfg : cfg.Valid) (h : List HOp)
    (hok : ∀ op ∈ h, HOpOK dir op) (hwf : WF false h = true)
    (hrunok : RunOK dir (openDB St.init dir cfg).1 h) (n : Nat) (hq : isLive (specAt h n).slot = false) :
    ∃ db d, (stateAt dir cfg h n).db = some db ∧ (stateAt dir cfg h n).world.get dir = some d ∧
      (∀ l : List ByteArray, l.Nodup → (∀ k, k ∈ l ↔ (specAt h n).m k ≠ none) →
        (stat (stateAt dir cfg h n) db).keys = l.length) ∧
      (stat (stateAt dir cfg h n) db).files = d.data.length ∧
      (stat (stateAt dir cfg h n) db).reclaim ≤ (stat (stateAt dir cfg h n) db).disk ∧
      (stat (stateAt dir cfg h n) db).disk - (stat (stateAt dir cfg h n) db).reclaim = liveBytes db.index := by
  obtain ⟨db, g, d, hst⟩ := (C17_history_counters dir cfg hcfg h hok hwf hrunok).1 n hq
  exact ⟨db, d, hst.open_, hst.world, hst.keys, hst.nfiles.1, hst.le, hst.diff⟩

/-! ## 1b. between restarts the two counters are EXACT (up to the excess of the last adopting restart) -/

/-- the side conditions of the call made at position `n` -/
theorem side_at (dir : String) (cfg : Cfg) (hcfg : cfg.Valid) (h : List HOp)
    (hok : ∀ op ∈ h, HOpOK dir op) (hwf : WF false h = true)
    (hrunok : RunOK dir (openDB St.init dir cfg).1 h) (n : Nat) (hn : n < h.length) :
    HOpOK dir h[n] ∧ (isLive (specAt h n).slot = true → batchCall h[n] = true) ∧ StepOK dir (stateAt dir cfg h n) h[n] := by
  obtain ⟨_, hi0⟩ := HInv0_fresh dir cfg hcfg
  exact steps dir (fun _ => True)
    (fun s σ op => HOpOK dir op ∧ (isLive σ.slot = true → batchCall op = true) ∧ StepOK dir s op)
    (fun _ _ _ _ hop' _ hwf' hst' => ⟨hop', hwf', hst'⟩)
    h _ ⟨specEmpty, .none⟩ hi0.toQ (fun op hop => ⟨hok op hop, trivial⟩) hwf hrunok n hn

/-- at point `n` index and counters are the replay's of the current files, the counters plus `E`:
    `Stat().DiskSize = (what a restart would compute from the data files) + E`, likewise `Reclaimable` -/
def ExcessAt (dir : String) (cfg : Cfg) (h : List HOp) (n E : Nat) : Prop :=
  ∃ db g, (stateAt dir cfg h n).db = some db ∧ Files (stateAt dir cfg h n) db g ∧
    db.index = (replayLog (logOf g)).index ∧
    db.total = (replayLog (logOf g)).total + E ∧ db.reclaim = (replayLog (logOf g)).reclaim + E

theorem ExcessAt_unique {dir : String} {cfg : Cfg} {h : List HOp} {n E E' : Nat}
    (h1 : ExcessAt dir cfg h n E) (h2 : ExcessAt dir cfg h n E') : E = E' := by
  obtain ⟨db, g, hs, hf, _, ht, _⟩ := h1
  obtain ⟨db', g', hs', hf', _, ht', _⟩ := h2
  rw [hs] at hs'; cases hs'
  have : g = g' := PolicyP.Files_unique hf hf'
  subst this
  omega

/-- the accounting invariant holds, with some excess, at every point -/
theorem acc_at (dir : String) (cfg : Cfg) (hcfg : cfg.Valid) (h : List HOp)
    (hok : ∀ op ∈ h, HOpOK dir op) (hwf : WF false h = true)
    (hrunok : RunOK dir (openDB St.init dir cfg).1 h) (n : Nat) : ∃ E, Acc E (stateAt dir cfg h n) := by
  obtain ⟨_, hi0⟩ := HInv0_fresh dir cfg hcfg
  exact (points dir (fun _ => True) (fun (c : Unit) _ => c) (fun _ s _ => ∃ E, Acc E s)
    (by
      intro _ s σ op hi ⟨E, ha⟩ hop _ hwf' hst
      cases op with
      | restart cfg' =>
        obtain ⟨dead, hQ⟩ := quiet_of_wf hi hwf' rfl
        exact Acc_restart hQ cfg' hop hst
      | a o => exact ⟨E, Acc_step dir E s σ _ hi ha hop hwf' hst (fun _ e => by cases e)⟩
      | merge o => exact ⟨E, Acc_step dir E s σ _ hi ha hop hwf' hst (fun _ e => by cases e)⟩
      | backup d => exact ⟨E, Acc_step dir E s σ _ hi ha hop hwf' hst (fun _ e => by cases e)⟩)
    h _ ⟨specEmpty, .none⟩ () hi0.toQ ⟨0, Acc_fresh dir cfg hcfg⟩ (fun op hop => ⟨hok op hop, trivial⟩) hwf hrunok n).2

/-- … and with the SAME excess as long as no restart occurs -/
theorem acc_range (dir : String) (cfg : Cfg) (hcfg : cfg.Valid) (h : List HOp)
    (hok : ∀ op ∈ h, HOpOK dir op) (hwf : WF false h = true)
    (hrunok : RunOK dir (openDB St.init dir cfg).1 h) (E : Nat) : ∀ (k n : Nat), n + k ≤ h.length →
    (∀ i, n ≤ i → i < n + k → ∀ cfg', h[i]? ≠ some (.restart cfg')) →
    Acc E (stateAt dir cfg h n) → Acc E (stateAt dir cfg h (n + k)) := by
  intro k
  induction k with
  | zero => intro n _ _ ha; exact ha
  | succ k ih =>
    intro n hle hnr ha
    have hn : n < h.length := by omega
    obtain ⟨hop, hwf', hst⟩ := side_at dir cfg hcfg h hok hwf hrunok n hn
    have hstep := Acc_step dir E _ _ h[n] (HInv_at dir cfg hcfg h hok hwf hrunok n) ha hop hwf' hst
      (by
        intro cfg' e
        have := hnr n (Nat.le_refl _) (by omega) cfg'
        rw [List.getElem?_eq_getElem hn, e] at this
        exact this rfl)
    rw [← stateAt_succ dir cfg h n hn] at hstep
    have := ih (n + 1) (by omega) (fun i h1 h2 => hnr i (by omega) (by omega)) hstep
    rw [show n + (k + 1) = n + 1 + k by omega]
    exact this

theorem excess_of_acc (dir : String) (cfg : Cfg) (hcfg : cfg.Valid) (h : List HOp)
    (hok : ∀ op ∈ h, HOpOK dir op) (hwf : WF false h = true)
    (hrunok : RunOK dir (openDB St.init dir cfg).1 h) (n : Nat) (hq : isLive (specAt h n).slot = false)
    {E : Nat} (ha : Acc E (stateAt dir cfg h n)) : ExcessAt dir cfg h n E := by
  obtain ⟨dead, hQ⟩ := HInv_quiet (HInv_at dir cfg hcfg h hok hwf hrunok n) hq
  obtain ⟨db, g, d, hst⟩ := HInvQ.statAt hQ
  obtain ⟨h1, h2, h3⟩ := ha.quiet hst.open_ hst.files (QuietDB_of_HInvQ hQ hst.open_)
  exact ⟨db, g, hst.open_, hst.files, h1, h2, h3⟩

/-- **C17 for histories, the counters one by one.**  `StatAt` relates the DIFFERENCE of the counters to
    the live records.  Separately they are exact too: at every point `n` without a live batch

    (a) there is exactly one `E` with `DiskSize = T + E` and `Reclaimable = R + E`, where `T`, `R` are
        the counters a scan-path restart would compute from the current data files
        (`replayLog (logOf g)`), and the index is that replay's index (`ExcessAt`);
    (b) `E = 0` at every such point before the first restart;
    (c) `E` does not change as long as no restart occurs — whatever plain calls, batches (with
        intermediate flushes and rotations), `Merge`s and `Backup`s lie between `n` and `n'`.

    Together with `C17_history_counters` (b) (`RestartCounters`: right after a restart `E = 0` on the
    scan path and `E = S` after an adoption): `Stat` reports exactly what a restart would compute,
    plus — from an adopting restart until the next restart — the constant `S`.  The live engine never
    drifts. -/
theorem C17_history_counters_exact (dir : String) (cfg : Cfg) (hcfg : cfg.Valid) (h : List HOp)
    (hok : ∀ op ∈ h, HOpOK dir op) (hwf : WF false h = true)
    (hrunok : RunOK dir (openDB St.init dir cfg).1 h) :
    (∀ n, isLive (specAt h n).slot = false →
      ∃ E, ExcessAt dir cfg h n E ∧ ∀ E', ExcessAt dir cfg h n E' → E' = E) ∧
    (∀ n, n ≤ h.length → isLive (specAt h n).slot = false →
      (∀ i, i < n → ∀ cfg', h[i]? ≠ some (.restart cfg')) → ExcessAt dir cfg h n 0) ∧
    (∀ n n' E, n ≤ n' → n' ≤ h.length → isLive (specAt h n).slot = false → isLive (specAt h n').slot = false →
      (∀ i, n ≤ i → i < n' → ∀ cfg', h[i]? ≠ some (.restart cfg')) →
      ExcessAt dir cfg h n E → ExcessAt dir cfg h n' E) := by
  refine ⟨?_, ?_, ?_⟩
  · intro n hq
    obtain ⟨E, ha⟩ := acc_at dir cfg hcfg h hok hwf hrunok n
    have := excess_of_acc dir cfg hcfg h hok hwf hrunok n hq ha
    exact ⟨E, this, fun E' h' => ExcessAt_unique h' this⟩
  · intro n hle hq hnr
    have h0 : Acc 0 (stateAt dir cfg h 0) := Acc_fresh dir cfg hcfg
    have := acc_range dir cfg hcfg h hok hwf hrunok 0 n 0 (by omega)
      (fun i _ h2 => hnr i (by omega)) h0
    rw [Nat.zero_add] at this
    exact excess_of_acc dir cfg hcfg h hok hwf hrunok n hq this
  · intro n n' E hle hle' hq hq' hnr hE
    obtain ⟨E0, ha⟩ := acc_at dir cfg hcfg h hok hwf hrunok n
    have h0 := excess_of_acc dir cfg hcfg h hok hwf hrunok n hq ha
    have : E = E0 := ExcessAt_unique hE h0
    subst this
    have := acc_range dir cfg hcfg h hok hwf hrunok E (n' - n) n (by omega)
      (fun i h1 h2 => hnr i h1 (by omega)) ha
    rw [show n + (n' - n) = n' by omega] at this
    exact excess_of_acc dir cfg hcfg h hok hwf hrunok n' hq' this

/-! ## 2. `mergeCheck` never sees drifted counters -/

/-- Go `int64` arithmetic: the result of an `int64` operation whose mathematical value is `x` -/
def wrapInt64 (x : Int) : Int := (x + 2 ^ 63) % 2 ^ 64 - 2 ^ 63

/-- `uint64(db.totalSize - db.reclaimSize)` of `mergeCheck` (`merge.go`): both fields are `int64`,
    the subtraction wraps to `int64`, the conversion reinterprets the bits -/
def mergeNeed (total reclaim : Int) : UInt64 := UInt64.ofNat (wrapInt64 (total - reclaim) % 2 ^ 64).toNat

/-- `if uint64(db.totalSize-db.reclaimSize) >= availableDiskSize { return ErrNoEnoughSpaceForMerge }` -/
def mergeRefusedNoSpace (total reclaim : Int) (avail : UInt64) : Bool := decide (mergeNeed total reclaim ≥ avail)

theorem mergeNeed_exact (total reclaim : Nat) (hle : reclaim ≤ total) (hlt : total < 2 ^ 63) :
    wrapInt64 ((total : Int) - reclaim) = ((total - reclaim : Nat) : Int) ∧
    (mergeNeed total reclaim).toNat = total - reclaim := by
  have h63 : (2 : Int) ^ 63 = 9223372036854775808 := by decide
  have h64 : (2 : Int) ^ 64 = 18446744073709551616 := by decide
  have h63n : (2 : Nat) ^ 63 = 9223372036854775808 := by decide
  have e1 : wrapInt64 ((total : Int) - reclaim) = ((total - reclaim : Nat) : Int) := by
    unfold wrapInt64
    rw [h63, h64]
    omega
  refine ⟨e1, ?_⟩
  unfold mergeNeed
  rw [e1, UInt64.toNat_ofNat']
  rw [h64]
  have : (((total - reclaim : Nat) : Int) % 18446744073709551616).toNat = total - reclaim := by omega
  rw [this]
  show (total - reclaim) % 2 ^ 64 = total - reclaim
  apply Nat.mod_eq_of_lt
  have h64n : (2 : Nat) ^ 64 = 18446744073709551616 := by decide
  omega

/-- **C17 for histories, `Merge` is not refused because of drifted counters.**  At every point of
    every history at which no batch is live (the only points at which `Merge` can take `db.mu`), if
    the `int64` field `totalSize` holds the model's `DiskSize` (`< 2^63`): the `int64` subtraction
    `totalSize − reclaimSize` does not wrap, the quantity `mergeCheck` compares with the free disk
    space is EXACTLY `liveBytes` — the bytes of the live records, what the merge will write — and
    whenever more than that is available the space check does not refuse. -/
theorem C17_history_merge_admitted (dir : String) (cfg : Cfg) (hcfg : cfg.Valid) (h : List HOp)
    (hok : ∀ op ∈ h, HOpOK dir op) (hwf : WF false h = true)
    (hrunok : RunOK dir (openDB St.init dir cfg).1 h) (n : Nat) (hq : isLive (specAt h n).slot = false) :
    ∃ db, (stateAt dir cfg h n).db = some db ∧ db.reclaim ≤ db.total ∧
      (db.total < 2 ^ 63 →
        wrapInt64 ((db.total : Int) - db.reclaim) = (liveBytes db.index : Int) ∧
        (mergeNeed db.total db.reclaim).toNat = liveBytes db.index ∧
        ∀ avail : UInt64, liveBytes db.index < avail.toNat → mergeRefusedNoSpace db.total db.reclaim avail = false) := by
  obtain ⟨db, g, d, hst⟩ := (C17_history_counters dir cfg hcfg h hok hwf hrunok).1 n hq
  have hle : db.reclaim ≤ db.total := hst.le
  have hdiff : db.total - db.reclaim = liveBytes db.index := hst.diff
  refine ⟨db, hst.open_, hle, fun hlt => ?_⟩
  obtain ⟨e1, e2⟩ := mergeNeed_exact db.total db.reclaim hle hlt
  rw [hdiff] at e1 e2
  refine ⟨e1, e2, fun avail hav => ?_⟩
  unfold mergeRefusedNoSpace
  rw [decide_eq_false_iff_not]
  intro hge
  have := UInt64.le_iff_toNat_le.mp hge
  omega

/-! ## 3. the file-size limit -/

/-- the limit at point `n`: the largest `DataFileSize` configured so far (initially, or by a restart) -/
def limitAt (cfg : Cfg) (h : List HOp) (n : Nat) : Nat := (h.take n).foldl limStep cfg.fileSize

theorem foldl_limStep_le (M : Nat) : ∀ (h : List HOp) (L : Nat), L ≤ M →
    (∀ cfg', HOp.restart cfg' ∈ h → cfg'.fileSize ≤ M) → h.foldl limStep L ≤ M := by
  intro h
  induction h with
  | nil => intro L hL _; exact hL
  | cons op ops ih =>
    intro L hL hr
    rw [List.foldl_cons]
    apply ih
    · cases op with
      | restart c => exact Nat.max_le.mpr ⟨hL, hr c (by simp)⟩
      | a o => exact hL
      | merge o => exact hL
      | backup d => exact hL
    · intro c hc; exact hr c (by simp [hc])

/-- `limitAt` is at most any bound on all configured sizes -/
theorem limitAt_le (cfg : Cfg) (h : List HOp) (n M : Nat) (h0 : cfg.fileSize ≤ M)
    (hr : ∀ cfg', HOp.restart cfg' ∈ h → cfg'.fileSize ≤ M) : limitAt cfg h n ≤ M :=
  foldl_limStep_le M _ _ h0 (fun c hc => hr c (List.mem_of_mem_take hc))

/-- a file respects the limit `L`: at most `L` bytes, or exactly the framing of one record, or of one
    record followed by the sealing record of its batch -/
def FileWithin (L : Nat) (f : FileSt) : Prop :=
  f.bytes.size ≤ L ∨ (∃ r, f.bytes = bytesOf [r]) ∨ (∃ r id, f.bytes = bytesOf [r, finRec id])

theorem FileWithin_of_matches {L : Nat} : ∀ {data : List (Nat × FileSt)} {g : GDir}, Matches data g → SizeInv L g →
    ∀ x ∈ data, FileWithin L x.2 := by
  intro data
  induction data with
  | nil => intro g _ _ x hx; simp at hx
  | cons y t ih =>
    intro g hm hs x hx
    rw [Restart.Matches_cons] at hm
    obtain ⟨z, g', rfl, _, e2, e3⟩ := hm
    rcases List.mem_cons.mp hx with e | hx
    · rw [e]
      unfold FileWithin
      rw [e2]
      rcases hs z (by simp) with c | ⟨r, c⟩ | ⟨r, id, c⟩
      · exact Or.inl c
      · exact Or.inr (Or.inl ⟨r, by rw [c]⟩)
      · exact Or.inr (Or.inr ⟨r, id, by rw [c]⟩)
    · exact ih e3 (fun w hw => hs w (by simp [hw])) x hx

/-- **C17 for histories, the file-size limit.**  For every history whose calls satisfy `HOpOK` and
    `HOpSmall` (key + value ≤ 2^27 bytes), at EVERY point `n`, with `L = limitAt cfg h n` the largest
    `DataFileSize` configured up to that point:

    * the state satisfies `SizeOK L` (`Proofs/EnginePolicy.lean`, `C17_limit…`): the handle's
      `DataFileSize` is at most `L` and every DATA file is within `L` bytes or holds exactly one
      record, or one record and the sealing record of its batch (`FileWithin`) — data files written
      by plain calls, by batches, the empty file a `Merge` rotates to, and after the adopting restart
      also the ADOPTED rewritten files;
    * every file of the MERGE directory — the rewritten files of the last `Merge`, whether it
      succeeded or failed with the id conflict — satisfies the same: `Merge` writes them through
      `appendLogRecord` with the `DataFileSize` of the handle that ran the merge (≤ `L`). -/
theorem C17_history_limit (dir : String) (cfg : Cfg) (hcfg : cfg.Valid) (h : List HOp)
    (hok : ∀ op ∈ h, HOpOK dir op ∧ HOpSmall op) (hwf : WF false h = true)
    (hrunok : RunOK dir (openDB St.init dir cfg).1 h) (n : Nat) :
    SizeOK (limitAt cfg h n) (stateAt dir cfg h n) ∧
    (∃ db, (stateAt dir cfg h n).db = some db ∧ db.cfg.fileSize ≤ limitAt cfg h n ∧
      ∀ x ∈ (dirOf (stateAt dir cfg h n) db).data, FileWithin (limitAt cfg h n) x.2) ∧
    (∀ md, (stateAt dir cfg h n).world.get (mergeDirName dir) = some md →
      ∀ x ∈ md.data, FileWithin (limitAt cfg h n) x.2) := by
  obtain ⟨_, hi0⟩ := HInv0_fresh dir cfg hcfg
  obtain ⟨_, hj⟩ := points dir HOpSmall limStep (fun L s _ => LimJ dir L s)
    (fun L s σ op hi hj hop hsm hwf' hst => LimJ_step dir L s σ op hi hj hop hsm hwf' hst)
    h _ ⟨specEmpty, .none⟩ cfg.fileSize hi0.toQ (LimJ_fresh dir cfg hcfg) hok hwf hrunok n
  have hj' : LimJ dir (limitAt cfg h n) (stateAt dir cfg h n) := hj
  obtain ⟨hso, _, hmd⟩ := hj'
  refine ⟨hso, ?_, ?_⟩
  · obtain ⟨db, g, h1, h2, h3, h4, _⟩ := hso
    obtain ⟨d, hd, _, hm⟩ := h2.dir
    refine ⟨db, h1, h4, ?_⟩
    have : (dirOf (stateAt dir cfg h n) db).data = d.data := by simp only [dirOf, hd, Option.getD_some]
    rw [this]
    exact FileWithin_of_matches hm h3
  · intro md hmd'
    obtain ⟨gm, hmm, _, hsz⟩ := hmd md hmd'
    exact FileWithin_of_matches hmm hsz

/-- a file that EXCEEDS the limit is a single record (+ sealing record): the property as quoted -/
theorem C17_history_limit_exceeds (dir : String) (cfg : Cfg) (hcfg : cfg.Valid) (h : List HOp)
    (hok : ∀ op ∈ h, HOpOK dir op ∧ HOpSmall op) (hwf : WF false h = true)
    (hrunok : RunOK dir (openDB St.init dir cfg).1 h) (n : Nat) :
    ∃ db, (stateAt dir cfg h n).db = some db ∧
      ∀ x ∈ (dirOf (stateAt dir cfg h n) db).data, limitAt cfg h n < x.2.bytes.size →
        (∃ r, x.2.bytes = bytesOf [r]) ∨
        (∃ r id, x.2.bytes = bytesOf [r, finRec id] ∧ limitAt cfg h n < (bytesOf [r]).size + maxFinRecord) :=
  (C17_history_limit dir cfg hcfg h hok hwf hrunok n).1.exceeds

/-! ## 4. the durability invariant -/

/-- **C13 for histories.**  At EVERY point of every history (plain calls, batch calls — also inside a
    live batch —, `Merge`, restarts, `Backup`):

    * the handle is open and satisfies the durability invariant `DInv`: the data directory ends with
      the active file, every NON-active file is completely flushed (a file is flushed before the
      engine rotates away from it — also by the rotation `Merge` starts with), no flush mark exceeds
      its file (`C13_older_files_flushed` spells it out);
    * a FINISHED merge directory (marker present) holds completely flushed files only: `Merge`
      flushes its output before it writes the marker;
    * after every restart of the history EVERYTHING is flushed (`Close` flushes every file; `Open`
      starts flushed, also when it adopts a merge), `bytesWrite = 0`, the configuration is the new one. -/
theorem C13_history (dir : String) (cfg : Cfg) (hcfg : cfg.Valid) (h : List HOp)
    (hok : ∀ op ∈ h, HOpOK dir op) (hwf : WF false h = true)
    (hrunok : RunOK dir (openDB St.init dir cfg).1 h) :
    (∀ n, ∃ db, (stateAt dir cfg h n).db = some db ∧ DInv (stateAt dir cfg h n) db ∧
      (∀ x ∈ (dirOf (stateAt dir cfg h n) db).data, x.1 ≠ db.activeId → x.2.synced = x.2.bytes.size) ∧
      (∀ md, (stateAt dir cfg h n).world.get (mergeDirName dir) = some md → md.marker ≠ none →
        ∀ x ∈ md.data, x.2.synced = x.2.bytes.size)) ∧
    (∀ n (hn : n < h.length) cfg', h[n] = .restart cfg' →
      ∃ db', (stateAt dir cfg h (n + 1)).db = some db' ∧ DInv (stateAt dir cfg h (n + 1)) db' ∧
        AllSynced (stateAt dir cfg h (n + 1)) db' ∧ db'.cfg = cfg' ∧ db'.bytesWrite = 0) := by
  obtain ⟨_, hi0⟩ := HInv0_fresh dir cfg hcfg
  have hpts := points dir (fun _ => True) (fun (c : Unit) _ => c) (fun _ s _ => DurJ dir s)
    (fun _ s σ op hi hj hop _ hwf' hst => DurJ_step dir s σ op hi hj hop hwf' hst)
    h _ ⟨specEmpty, .none⟩ () hi0.toQ (DurJ_fresh dir cfg hcfg) (fun op hop => ⟨hok op hop, trivial⟩) hwf hrunok
  refine ⟨?_, ?_⟩
  · intro n
    obtain ⟨_, ⟨db, hs, hd⟩, hms⟩ := hpts n
    exact ⟨db, hs, hd, hd.older_synced, hms⟩
  · intro n hn cfg' hop
    obtain ⟨hi, hj⟩ := hpts n
    have hst := steps dir (fun _ => True) (fun s _ op => StepOK dir s op ∧ HOpOK dir op)
      (fun _ _ _ _ hop' _ _ hst' => ⟨hst', hop'⟩)
      h _ ⟨specEmpty, .none⟩ hi0.toQ (fun op hop => ⟨hok op hop, trivial⟩) hwf hrunok n hn
    have hwfn := steps dir (fun _ => True) (fun _ σ op => isLive σ.slot = true → batchCall op = true)
      (fun _ _ _ _ _ _ hwf' _ => hwf')
      h _ ⟨specEmpty, .none⟩ hi0.toQ (fun op hop => ⟨hok op hop, trivial⟩) hwf hrunok n hn
    rw [hop] at hst hwfn
    obtain ⟨dead, hQ⟩ := quiet_of_wf hi hwfn rfl
    have := (restart_dur hQ hj cfg' hst.2 hst.1).2
    rw [stateAt_succ dir cfg h n hn, hop]
    exact this

/-- **C13 for histories, `Always`.**  At every point of every history at which the handle's policy is
    `Always`, `C13_always` applies: the next `Put` with a non-empty key returns with EVERY data file
    completely flushed (likewise a `Delete` that writes a tombstone) -/
theorem C13_history_always (dir : String) (cfg : Cfg) (hcfg : cfg.Valid) (h : List HOp)
    (hok : ∀ op ∈ h, HOpOK dir op) (hwf : WF false h = true)
    (hrunok : RunOK dir (openDB St.init dir cfg).1 h) (n : Nat) :
    ∃ db, (stateAt dir cfg h n).db = some db ∧ (db.cfg.sync = 1 →
      ∀ k v : ByteArray, k.size ≠ 0 →
        (put (stateAt dir cfg h n) k v).2 = .ok ∧
        ∃ db', (put (stateAt dir cfg h n) k v).1.db = some db' ∧ DInv (put (stateAt dir cfg h n) k v).1 db' ∧
          AllSynced (put (stateAt dir cfg h n) k v).1 db' ∧
          unsynced (activeFile (put (stateAt dir cfg h n) k v).1 db') = 0) := by
  obtain ⟨db, hs, hd, _⟩ := (C13_history dir cfg hcfg h hok hwf hrunok).1 n
  refine ⟨db, hs, fun hc k v hk => ?_⟩
  obtain ⟨h1, db', h2, h3, _, h5, _, h7⟩ := (C13.C13_always hs hd hc).1 k v hk
  exact ⟨h1, db', h2, h3, h5, h7⟩

/-- **C13 for histories, `Threshold`.**  At every point at which the policy is `Threshold`,
    `C13_threshold` applies with whatever excess `u` the unflushed tail has over the counter: after the
    next `Put` either the policy flush ran (everything flushed) or `bytesWrite < BytesPerSync`, and the
    excess grew by at most the 7 bytes of block padding.  (A bound on `u` itself exists for runs of
    plain calls only — `C13_threshold_run`; a non-`Sync` batch is not counted by the engine: the
    KNOWN LIMITATION recorded in `Properties/C13.lean`.) -/
theorem C13_history_threshold (dir : String) (cfg : Cfg) (hcfg : cfg.Valid) (h : List HOp)
    (hok : ∀ op ∈ h, HOpOK dir op) (hwf : WF false h = true)
    (hrunok : RunOK dir (openDB St.init dir cfg).1 h) (n : Nat) :
    ∃ db, (stateAt dir cfg h n).db = some db ∧ (db.cfg.sync = 2 →
      ∀ u, TInv (stateAt dir cfg h n) db u → ∀ k v : ByteArray, k.size ≠ 0 →
        (put (stateAt dir cfg h n) k v).2 = .ok ∧
        ∃ db', (put (stateAt dir cfg h n) k v).1.db = some db' ∧ DInv (put (stateAt dir cfg h n) k v).1 db' ∧
          ((db'.bytesWrite = 0 ∧ AllSynced (put (stateAt dir cfg h n) k v).1 db') ∨ db'.bytesWrite < db'.cfg.bps) ∧
          TInv (put (stateAt dir cfg h n) k v).1 db' (u + 7)) := by
  obtain ⟨db, hs, hd, _⟩ := (C13_history dir cfg hcfg h hok hwf hrunok).1 n
  refine ⟨db, hs, fun hc u ht k v hk => ?_⟩
  obtain ⟨h1, db', h2, h3, _, h5, h6, _⟩ := (C13.C13_threshold hs hd hc ht).1 k v hk
  exact ⟨h1, db', h2, h3, h5, h6⟩

/-! ## static hypotheses -/

/-- `RunOK` from the static bounds of `C01_refines_history_small` (records ≤ 2^27 bytes, fewer than
    2^31 − 1 calls, estimated bytes written below 4 GiB): with it every theorem of this file holds
    under conditions on the history alone -/
theorem runOK_of_small (dir : String) (cfg : Cfg) (hcfg : cfg.Valid) (h : List HOp)
    (hok : ∀ op ∈ h, HOpOK dir op ∧ HOpSmall op) (hwf : WF false h = true)
    (hlen : 2 * h.length + 1 < 2 ^ 32) (hcost : totalCost h < 2 ^ 32) :
    RunOK dir (openDB St.init dir cfg).1 h :=
  (C01_refines_history_small dir cfg hcfg h hok hwf hlen hcost).1

/-- `C17_history_limit`, all hypotheses static -/
theorem C17_history_limit_small (dir : String) (cfg : Cfg) (hcfg : cfg.Valid) (h : List HOp)
    (hok : ∀ op ∈ h, HOpOK dir op ∧ HOpSmall op) (hwf : WF false h = true)
    (hlen : 2 * h.length + 1 < 2 ^ 32) (hcost : totalCost h < 2 ^ 32) (n : Nat) :
    SizeOK (limitAt cfg h n) (stateAt dir cfg h n) ∧
    (∀ md, (stateAt dir cfg h n).world.get (mergeDirName dir) = some md →
      ∀ x ∈ md.data, FileWithin (limitAt cfg h n) x.2) :=
  have := C17_history_limit dir cfg hcfg h hok hwf (runOK_of_small dir cfg hcfg h hok hwf hlen hcost) n
  ⟨this.1, this.2.2⟩

/-- `C17_history_counters` (a) and `C13_history` (first part), all hypotheses static -/
theorem C17_C13_history_small (dir : String) (cfg : Cfg) (hcfg : cfg.Valid) (h : List HOp)
    (hok : ∀ op ∈ h, HOpOK dir op ∧ HOpSmall op) (hwf : WF false h = true)
    (hlen : 2 * h.length + 1 < 2 ^ 32) (hcost : totalCost h < 2 ^ 32) (n : Nat) :
    (isLive (specAt h n).slot = false → ∃ db g d, StatAt dir (stateAt dir cfg h n) (specAt h n).m db g d) ∧
    ∃ db, (stateAt dir cfg h n).db = some db ∧ DInv (stateAt dir cfg h n) db := by
  have hro := runOK_of_small dir cfg hcfg h hok hwf hlen hcost
  have hok' : ∀ op ∈ h, HOpOK dir op := fun op hop => (hok op hop).1
  refine ⟨(C17_history_counters dir cfg hcfg h hok' hwf hro).1 n, ?_⟩
  obtain ⟨db, h1, h2, _⟩ := (C13_history dir cfg hcfg h hok' hwf hro).1 n
  exact ⟨db, h1, h2⟩

/-! ## 5. non-vacuity: the demo history `demoH` of `Properties/C01History.lean`

41 calls: plain writes · a `Sync` batch with intermediate flushes · `Merge` [position 13] · `Backup` ·
a batch AFTER the merge · plain writes · the ADOPTING restart under `cfg1` [26] · reads · a second
restart under `cfg2` [34] · a `Merge` of the adopted directory [38] · a third (again adopting) restart
under `cfg0` [39] · a read.  All side conditions are PROVED (`demo_ok`, `demo_wf`, `demo_refines`). -/

theorem demo_runOK : RunOK "d" (openDB St.init "d" cfg0).1 demoH := demo_refines.1

theorem demo_counters :
    (∀ n, isLive (specAt demoH n).slot = false →
      ∃ db g d, StatAt "d" (stateAt "d" cfg0 demoH n) (specAt demoH n).m db g d) ∧
    (∀ n (hn : n < demoH.length) cfg', demoH[n] = .restart cfg' →
      RestartCounters "d" (stateAt "d" cfg0 demoH n) (stateAt "d" cfg0 demoH (n + 1))) :=
  C17_history_counters "d" cfg0 (by decide) demoH (fun op h => (demo_ok op h).1) demo_wf demo_runOK

/-- `Stat` is exact right after the first `Merge`, after the batch that follows it, after the adopting
    restart, after the second restart, at the end -/
example : ∀ n ∈ [14, 24, 27, 35, 41],
    ∃ db g d, StatAt "d" (stateAt "d" cfg0 demoH n) (specAt demoH n).m db g d := by
  intro n hn
  simp only [List.mem_cons, List.not_mem_nil, or_false] at hn
  rcases hn with rfl | rfl | rfl | rfl | rfl <;> exact demo_counters.1 _ (by decide)

/-- the three restarts of `demoH` -/
example : RestartCounters "d" (stateAt "d" cfg0 demoH 26) (stateAt "d" cfg0 demoH 27) ∧
    RestartCounters "d" (stateAt "d" cfg0 demoH 34) (stateAt "d" cfg0 demoH 35) ∧
    RestartCounters "d" (stateAt "d" cfg0 demoH 39) (stateAt "d" cfg0 demoH 40) :=
  ⟨demo_counters.2 26 (by decide) cfg1 rfl, demo_counters.2 34 (by decide) cfg2 rfl,
   demo_counters.2 39 (by decide) cfg0 rfl⟩

private def isRestart : HOp → Bool
  | .restart _ => true
  | _ => false

/-- `C17_history_counters_exact` on `demoH`: excess 0 up to the adopting restart (position 26) -/
theorem demo_exact : ∀ n, n ≤ 26 → isLive (specAt demoH n).slot = false → ExcessAt "d" cfg0 demoH n 0 := by
  intro n hn hq
  refine (C17_history_counters_exact "d" cfg0 (by decide) demoH (fun op h => (demo_ok op h).1) demo_wf demo_runOK).2.1
    n (by have : demoH.length = 41 := rfl; omega) hq ?_
  intro i hi cfg' e
  have hi' : i < 26 := by omega
  have key : ∀ j, j < 26 → (demoH[j]?.map isRestart) ≠ some true := by decide
  exact key i hi' (by rw [e]; rfl)

/-- `C17_history_merge_admitted` after the adopting restart (where `Reclaimable` over-reports) -/
theorem demo_merge_admitted : ∃ db, (stateAt "d" cfg0 demoH 27).db = some db ∧
    (db.total < 2 ^ 63 → (mergeNeed db.total db.reclaim).toNat = liveBytes db.index) := by
  obtain ⟨db, h1, _, h3⟩ := C17_history_merge_admitted "d" cfg0 (by decide) demoH (fun op h => (demo_ok op h).1)
    demo_wf demo_runOK 27 (by decide)
  exact ⟨db, h1, fun hlt => (h3 hlt).2.1⟩

theorem demo_limit (n : Nat) : SizeOK (limitAt cfg0 demoH n) (stateAt "d" cfg0 demoH n) :=
  (C17_history_limit "d" cfg0 (by decide) demoH demo_ok demo_wf demo_runOK n).1

theorem demo_durable (n : Nat) : ∃ db, (stateAt "d" cfg0 demoH n).db = some db ∧ DInv (stateAt "d" cfg0 demoH n) db := by
  obtain ⟨db, h1, h2, _⟩ := (C13_history "d" cfg0 (by decide) demoH (fun op h => (demo_ok op h).1) demo_wf demo_runOK).1 n
  exact ⟨db, h1, h2⟩

/-! ### evaluated (compiled evaluation by `#guard`; not used by any proof) -/

private def demoKeys : List ByteArray := ["a", "b", "c", "d", "e", "f", "g", "h", "z"].map kb

/-- (KeyNum, DataFileNum, Reclaimable, DiskSize, liveBytes) at point `n` -/
private def statRow (n : Nat) : Option (Nat × Nat × Nat × Nat × Nat) :=
  let s := stateAt "d" cfg0 demoH n
  match s.db with
  | some db => let st := stat s db; some (st.keys, st.files, st.reclaim, st.disk, liveBytes db.index)
  | none => none

private def quietPoints : List Nat := (List.range 42).filter (fun n => !isLive (specAt demoH n).slot)

-- the live batches occupy the points 4 … 10 and 17 … 22
#guard quietPoints = [0, 1, 2, 3, 11, 12, 13, 14, 15, 16, 23, 24, 25, 26, 27, 28, 29, 30, 31, 32, 33, 34, 35, 36, 37,
  38, 39, 40, 41]
-- at every quiet point: KeyNum = number of keys the SPECIFICATION's map defines, DataFileNum = number of files
-- of the directory, Reclaimable ≤ DiskSize, DiskSize − Reclaimable = liveBytes
#guard quietPoints.all fun n =>
  match statRow n with
  | some (keys, files, reclaim, disk, live) =>
    keys == (demoKeys.filter (fun k => ((specAt demoH n).m k).isSome)).length &&
    some files == ((stateAt "d" cfg0 demoH n).world.get "d").map (·.data.length) &&
    reclaim ≤ disk && disk - reclaim == live
  | none => false
-- the numbers: before / after the first `Merge` (one more, empty, file), before / after the ADOPTING restart
-- (9 files become 5; liveBytes stays 65; both counters are the replay's 141 / 76 PLUS S = 52 = the four
-- records of merged file 0, which the hint path scans again), after the second restart (exact: 141 / 76),
-- after the second merge, after the third restart (adopting again: S = 65, the whole merged file)
#guard [13, 14, 26, 27, 34, 35, 39, 40].map statRow =
  [some (4, 5, 51, 103, 52), some (4, 6, 51, 103, 52), some (5, 9, 127, 192, 65), some (5, 5, 128, 193, 65),
   some (5, 5, 128, 193, 65), some (5, 5, 76, 141, 65), some (5, 6, 76, 141, 65), some (5, 2, 65, 130, 65)]
-- EXACTNESS: at every quiet point both counters are what a scan of the current files computes (`loadIndex` = the
-- scan path of `Open`) plus the same excess E; E = 0 up to the adopting restart, 52 from it to the next restart,
-- 0 after the second restart (and through the second merge), 65 after the third (adopting) restart
private def excessRow (n : Nat) : Option (Nat × Nat) :=
  let s := stateAt "d" cfg0 demoH n
  match s.db, s.world.get "d" with
  | some db, some d =>
    match loadIndex { index := [], reclaim := 0, total := 0, pending := [] } 0 d.data with
    | some (R, _) => if R.index.map (·.2) == db.index.map (·.2) then some (db.total - R.total, db.reclaim - R.reclaim) else none
    | none => none
  | _, _ => none
#guard quietPoints.map excessRow =
  (List.replicate 14 (some (0, 0))) ++ (List.replicate 8 (some (52, 52))) ++ (List.replicate 5 (some (0, 0))) ++
  [some (65, 65), some (65, 65)]
-- `mergeCheck`'s quantity after the adopting restart: 193 − 128 = 65 = liveBytes, no wrap; a wrapped example
#guard (mergeNeed 193 128).toNat = 65 && mergeRefusedNoSpace 193 128 66 == false && mergeRefusedNoSpace 193 128 65
#guard (mergeNeed 128 193).toNat = 2 ^ 64 - 65      -- what drifted counters (reclaim > total) WOULD give
-- the limit: 120 until the second restart raises `DataFileSize` to 4096 (`cfg1` lowers it to 64: the limit stays)
#guard [0, 26, 27, 34, 35, 41].map (limitAt cfg0 demoH) = [120, 120, 120, 120, 4096, 4096]
-- every data file and every file of the merge directory is within the limit at every point
#guard (List.range 42).all fun n =>
  let s := stateAt "d" cfg0 demoH n
  ((s.world.get "d").map (·.data.all (fun x => x.2.bytes.size ≤ limitAt cfg0 demoH n))).getD false &&
  ((s.world.get "d-merge").map (·.data.all (fun x => x.2.bytes.size ≤ limitAt cfg0 demoH n))).getD true
-- durability: at every point every file but the last is completely flushed; a merge directory with a marker holds
-- flushed files only; right after each restart everything is flushed
#guard (List.range 42).all fun n =>
  let s := stateAt "d" cfg0 demoH n
  ((s.world.get "d").map (fun d => d.data.dropLast.all (fun x => x.2.synced == x.2.bytes.size))).getD false &&
  ((s.world.get "d-merge").map (fun d => d.marker.isNone || d.data.all (fun x => x.2.synced == x.2.bytes.size))).getD true
#guard [27, 35, 40].all fun n =>
  (((stateAt "d" cfg0 demoH n).world.get "d").map (fun d => d.data.all (fun x => x.2.synced == x.2.bytes.size))).getD false
-- the marker follows the history: none before the first merge, present from 14 to 26, gone after the adopting
-- restart, present after the second merge (39), gone after the third restart
#guard [13, 14, 26, 27, 38, 39, 40].map (fun n =>
  (((stateAt "d" cfg0 demoH n).world.get "d-merge").map (·.marker.isSome)).getD false)
  = [false, true, true, false, false, true, false]

/-! ### a second history: records that alone exceed the limit, through `Merge` and adoption

`DataFileSize = 60`; two 100-byte values (each alone exceeds the limit), one of them overwritten, a
batch with one oversized record, `Merge`, the adopting restart under a SMALLER `DataFileSize`. -/

private def fill (n : Nat) (b : UInt8) : ByteArray := ⟨Array.replicate n b⟩
private def cfgT : Cfg := { fileSize := 60, sync := 1, bps := 0, idx := 0, io := 0, shards := 1 }
private def cfgU : Cfg := { fileSize := 50, sync := 2, bps := 30, idx := 0, io := 0, shards := 1 }
def bigH : List HOp :=
  [.a (.put (kb "a") (fill 100 1)), .a (.put (kb "b") (kb "2")), .a (.put (kb "a") (fill 100 3)),
   .a (.bnew false 7), .a (.bput (kb "c") (fill 100 4)), .a (.bput (kb "d") (kb "5")), .a .bcommit, .a .bdrop,
   .merge [0, 1, 2, 3, 4], .a (.put (kb "e") (kb "6")), .restart cfgU, .a (.put (kb "f") (kb "7"))]

theorem big_ok : ∀ op ∈ bigH, HOpOK "d" op ∧ HOpSmall op := by decide
theorem big_wf : WF false bigH = true := by decide
theorem big_runOK : RunOK "d" (openDB St.init "d" cfgT).1 bigH :=
  runOK_of_small "d" cfgT (by decide) bigH big_ok big_wf (by decide) (by decide)

theorem big_limit (n : Nat) : SizeOK (limitAt cfgT bigH n) (stateAt "d" cfgT bigH n) ∧
    (∀ md, (stateAt "d" cfgT bigH n).world.get (mergeDirName "d") = some md →
      ∀ x ∈ md.data, FileWithin (limitAt cfgT bigH n) x.2) :=
  have := C17_history_limit "d" cfgT (by decide) bigH big_ok big_wf big_runOK n
  ⟨this.1, this.2.2⟩

private def fileStats (s : St) (dir : String) : Option (List (Nat × Nat × Nat)) :=
  (s.world.get dir).map (fun d => d.data.map (fun x => (x.1, x.2.bytes.size, (scan C false x.1 x.2.bytes).recs.length)))

-- (id, bytes, records): the merge succeeded; its output holds the live records: `b`, then `a` (113 bytes, alone in
-- file 1), `c` (alone in file 2), `d`
#guard (match (hstep "d" (stateAt "d" cfgT bigH 8) (.merge [0, 1, 2, 3, 4])).2 with | [.ok] => true | _ => false)
#guard fileStats (stateAt "d" cfgT bigH 9) "d-merge" = some [(0, 13, 1), (1, 113, 1), (2, 113, 1), (3, 13, 1)]
-- after the adopting restart the adopted files are data files; the oversized ones hold one record each
#guard fileStats (stateAt "d" cfgT bigH 11) "d" = some [(0, 13, 1), (1, 113, 1), (2, 113, 1), (3, 13, 1), (6, 13, 1)]
#guard (List.range 13).all fun n =>
  ((fileStats (stateAt "d" cfgT bigH n) "d").map (·.all (fun x => x.2.1 ≤ limitAt cfgT bigH n || x.2.2 ≤ 2))).getD false &&
  ((fileStats (stateAt "d" cfgT bigH n) "d-merge").map (·.all (fun x => x.2.1 ≤ limitAt cfgT bigH n || x.2.2 ≤ 2))).getD true
-- before the merge: the oversized records sit alone in files 1, 3, 4 (the batch's one was flushed when the next record
-- was staged); the batch's last record shares file 5 with the sealing record
#guard fileStats (stateAt "d" cfgT bigH 8) "d" = some [(0, 0, 0), (1, 113, 1), (2, 13, 1), (3, 113, 1), (4, 113, 1), (5, 25, 2)]

/-! ### a third history: a `Merge` that FAILS with the id conflict, then a (non-adopting) restart

Reopened with `DataFileSize = 1` every rewritten record needs a file of its own, the output would reach
the id of the active file: `Merge` answers `ErrMergeFileIDConflict` (`mergeids`).  `Stat` stays exact;
the merge directory has no marker, the following restart adopts nothing and computes exactly the
replay's counters.  (The marker-less merge directory — here two files, 13 bytes — stays on disk until
the next `Merge` removes it; no `Open` looks at it and `Stat` does not count it.  Same in Go.) -/

private def cfgA : Cfg := { fileSize := 1000, sync := 0, bps := 0, idx := 0, io := 0, shards := 1 }
private def cfgB : Cfg := { fileSize := 1, sync := 0, bps := 0, idx := 0, io := 0, shards := 1 }
def conflictH : List HOp :=
  [.a (.put (kb "a") (kb "1")), .a (.put (kb "c") (kb "4")), .a (.put (kb "a") (kb "2")), .restart cfgB, .merge [0],
   .a (.put (kb "e") (kb "5")), .restart cfgA, .a (.get (kb "a"))]

theorem conflict_ok : ∀ op ∈ conflictH, HOpOK "d" op ∧ HOpSmall op := by decide
theorem conflict_runOK : RunOK "d" (openDB St.init "d" cfgA).1 conflictH :=
  runOK_of_small "d" cfgA (by decide) conflictH conflict_ok (by decide) (by decide) (by decide)

/-- after the failed merge, and after the restart that follows it -/
example : (∃ db g d, StatAt "d" (stateAt "d" cfgA conflictH 5) (specAt conflictH 5).m db g d) ∧
    RestartCounters "d" (stateAt "d" cfgA conflictH 6) (stateAt "d" cfgA conflictH 7) :=
  have := C17_history_counters "d" cfgA (by decide) conflictH (fun op h => (conflict_ok op h).1) (by decide) conflict_runOK
  ⟨this.1 5 (by decide), this.2 6 (by decide) cfgA rfl⟩

#guard (match (hstep "d" (stateAt "d" cfgA conflictH 4) (.merge [0])).2 with | [.err e] => e == "mergeids" | _ => false)
-- (KeyNum, DataFileNum, Reclaimable, DiskSize) before the merge, after it (one more file), after the next write, after
-- the restart: nothing drifts, nothing is adopted
#guard [4, 5, 6, 7].map (fun n =>
    let s := stateAt "d" cfgA conflictH n
    s.db.map (fun db => ((stat s db).keys, (stat s db).files, (stat s db).reclaim, (stat s db).disk)))
  = [some (2, 1, 13, 39), some (2, 2, 13, 39), some (3, 3, 13, 52), some (3, 3, 13, 52)]
#guard [5, 7].map (fun n => ((stateAt "d" cfgA conflictH n).world.get "d-merge").map
    (fun d => (d.marker.isSome, d.data.map (fun x => (x.1, x.2.bytes.size)))))
  = [some (false, [(0, 0), (1, 13)]), some (false, [(0, 0), (1, 13)])]

end XixiKV.C17H
