import XixiKV.Proofs.HistoryCost
import XixiKV.Properties.C05
import XixiKV.Properties.C06
/-!
# C01 for WHOLE histories — plain operations, batch sessions, `Merge` and restarts in one theorem
# (C01 / C02 / C05 / C06 together)

`C01_refines_plain` covers lists of `Put / Get / Delete / Sync`; batches (C05), restarts (C02) and
`Merge` with its adopting restart (C06) have their own theorems against the same invariant.  This
file composes them: a **history** is a list of

* `HOp.a op` — any call of the write/read API, plain or through a batch object (`AOp` of
  `Proofs/EnginePolicy.lean`: `put del get sync bnew bput bdel bget bcommit bdrop`);
* `HOp.merge order` — `DB.Merge` (`order` = the order in which Go's map iteration visits the older
  files);
* `HOp.restart cfg` — `Close`, then `Open` of the same directory under the configuration `cfg`;
* `HOp.backup dest` — `DB.Backup` into another directory.

`hrun` executes a history on the model (`Model/Engine.lean`, `Model/Batch.lean`), `specRun` on the
abstract specification: a map `ByteArray → Option ByteArray` plus the state of the single batch slot
(`Slot`: no batch object / a dead, i.e. committed, batch object / a live batch with its issued
operations).  `C01_refines_history`: from the freshly opened empty database, the model returns call
by call what the specification prescribes, and the final mappings agree.  In the specification
`Merge` and restarts never change the map (`specStep`), whichever configuration the restart uses,
whether the merge succeeded or reported an error, however many of them occur, and wherever they
stand — in particular **between a successful `Merge` and the restart that adopts its output any
number of batches may be committed** (the gap left open by `C06_mergeOut_stable`; closed by
`MergeOutB` in `Proofs/HistoryReplay.lean`, `MergeOutB.grown` / `bcommitL` in
`Proofs/HistoryInv.lean`, restated here as `C06_mergeOut_stable_batch` / `C06_adopt_after_batches`).
`Backup` does not change the map either.

Theorems: `C01_refines_history` (refinement, with the run predicate `RunOK`),
`C01_refines_history_small` (all hypotheses static), `C01_latest_write_history` (latest write wins),
`C06_mergeOut_stable_batch`, `C06_adopt_after_batches`, `demo_refines` (non-vacuity).

## Side conditions (all explicit)

* `HOpOK`: keys and values shorter than 2^31 bytes (implied by `AOpOK`'s 2^27); batch ids positive and
  below 2^63; `Merge` visits each file once (`order.Nodup`); restart configurations are `Valid`; a
  `Backup` destination is neither the data directory nor its merge directory (excluded point `e3`).
  NO distinctness of batch ids is assumed: `NewBatch` builds a new snowflake node per batch, so two
  batches created within one millisecond carry the SAME id, and the theorem covers that.  (In a
  crash-free history every batch in the log is sealed before anything else is written — the
  invariant component `NoPend` — so every id is fresh in the sense `C05.Pre.fresh` needs.  The
  distinctness hypothesis belongs to the crash properties C03 / C04 only.)
* `WF`: while a batch is live (between `NewBatch` and `Commit`) only that batch's own calls occur.
  In Go `NewBatch` takes `db.mu` and `Commit` releases it: every other call (`Put`, `Get`, `Merge`,
  `Close`, a second `NewBatch`, …) BLOCKS until `Commit`; and a batch object that is dropped
  uncommitted leaves the lock held for ever.  Everything else is allowed, e.g. plain calls and
  `Merge` while a dead batch object is still around, calls through a dead batch
  (`ErrBatchCommitted`) or through no batch at all (the model's `no-batch`).
* `RunOK` — two `uint32` range conditions on the RUN (they depend on how often files rotate and
  how large the merged files get, not on the shape of the history): when `Merge` is called the active file id + 1 fits `uint32` (`FileID` is a `uint32`);
  when the database is restarted, every file of a pending FINISHED merge directory (marker present)
  is shorter than 4 GiB (`DataPos.Offset/Size` are `uint32`: the hint file cannot express more).
  `C01_refines_history_small` below DERIVES both from static bounds on the history (number of calls,
  total estimated bytes written), so that all hypotheses are conditions on the history alone.
-/
namespace XixiKV.C01H
open XixiKV XixiKV.Engine XixiKV.Engine.BatchP XixiKV.Engine.HistP
open XixiKV.Engine.PolicyP.Size (AOp astep AOpOK)
open XixiKV.C01 (Spec specEmpty specPut specDel getRes absOf)

/-! ## histories on the executable model -/

inductive HOp where
  | a (op : AOp)
  | merge (order : List Nat)
  | restart (cfg : Cfg)
  | backup (dest : String)

/-- one call on the model: new state and the results it returns (a restart is two calls) -/
def hstep (dir : String) (s : St) : HOp → St × List Res
  | .a op => ((astep s op).1, [(astep s op).2])
  | .merge order => ((merge s order).1, [(merge s order).2])
  | .restart cfg => ((openDB (close s).1 dir cfg).1, [(close s).2, (openDB (close s).1 dir cfg).2])
  | .backup dest => ((backup s dest).1, [(backup s dest).2])

/-- a history on the model: final state and all results, in call order -/
def hrun (dir : String) (s : St) : List HOp → St × List Res
  | [] => (s, [])
  | op :: ops => ((hrun dir (hstep dir s op).1 ops).1, (hstep dir s op).2 ++ (hrun dir (hstep dir s op).1 ops).2)

/-! ## the abstract specification -/

/-- the single batch slot: no batch object, a dead (committed, not yet dropped) one, or a live one
    with the puts `(k, some v)` and deletes `(k, none)` it has issued so far -/
inductive Slot where
  | none
  | dead
  | live (issued : List (ByteArray × Option ByteArray))

structure SpecSt where
  m : Spec
  slot : Slot

def qslot : Bool → Slot
  | false => .none
  | true => .dead

/-- the calls of the live batch: reads are layered (own latest operation, else the map at `NewBatch`
    time = the current map, nobody else can write), `Commit` applies the issued operations one by
    one in issue order.  Any OTHER call blocks in Go (excluded by `WF`; the value is a dummy). -/
def specLive (m : Spec) (issued : List (ByteArray × Option ByteArray)) : AOp → SpecSt × Res
  | .bput k v => (⟨m, .live (if k.size = 0 then issued else issued ++ [(k, some v)])⟩,
                  if k.size = 0 then .err "keyempty" else .ok)
  | .bdel k => (⟨m, .live (if k.size = 0 then issued else issued ++ [(k, none)])⟩,
                if k.size = 0 then .err "keyempty" else .ok)
  | .bget k => (⟨m, .live issued⟩, if k.size = 0 then .err "keyempty" else resOf (foldIssued m issued k))
  | .bcommit => (⟨foldIssued m issued, .dead⟩, .ok)
  | _ => (⟨m, .live issued⟩, .err "blocked")

/-- the calls while no batch is live (`dead` = a dead batch object is in the slot): the plain
    operations act on the map as in `C01.specStep`; `NewBatch` opens a batch; calls through the
    slot's batch object are rejected (`rejectRes`: `no-batch` when there is none, `keyempty` /
    `committed` for a dead one) and change nothing; dropping the object empties the slot -/
def specQuiet (m : Spec) (dead : Bool) : AOp → SpecSt × Res
  | .put k v => (⟨if k.size = 0 then m else specPut m k v, qslot dead⟩, if k.size = 0 then .err "keyempty" else .ok)
  | .del k => (⟨if k.size = 0 then m else specDel m k, qslot dead⟩, if k.size = 0 then .err "keyempty" else .ok)
  | .get k => (⟨m, qslot dead⟩, if k.size = 0 then .err "keyempty" else getRes (m k))
  | .sync => (⟨m, qslot dead⟩, .ok)
  | .bnew _ _ => (⟨m, .live []⟩, .ok)
  | .bput k _ => (⟨m, qslot dead⟩, rejectRes dead true k)
  | .bdel k => (⟨m, qslot dead⟩, rejectRes dead true k)
  | .bget k => (⟨m, qslot dead⟩, rejectRes dead true k)
  | .bcommit => (⟨m, qslot dead⟩, rejectRes dead false ByteArray.empty)
  | .bdrop => (⟨m, .none⟩, .ok)

def specA (σ : SpecSt) (op : AOp) : SpecSt × Res :=
  match σ.slot with
  | .live issued => specLive σ.m issued op
  | .none => specQuiet σ.m false op
  | .dead => specQuiet σ.m true op

/-- what the specification prescribes for one result -/
inductive Expect where
  /-- exactly this result -/
  | is (r : Res)
  /-- `Merge`: success, or an error (the model's only one is `mergeids`, Go's
      `ErrMergeFileIDConflict`: which of the two depends on file sizes, not on the map) -/
  | mergeOutcome

def Expect.holds : Expect → Res → Prop
  | .is r, r' => r' = r
  | .mergeOutcome, r' => r' = .ok ∨ ∃ e, r' = .err e

/-- one call on the specification: **`Merge` and restarts leave the map alone**; a restart loses the
    (dead) batch object -/
def specStep (σ : SpecSt) : HOp → SpecSt × List Expect
  | .a op => ((specA σ op).1, [.is (specA σ op).2])
  | .merge _ => (σ, [.mergeOutcome])
  | .restart _ => (⟨σ.m, .none⟩, [.is .ok, .is .ok])
  | .backup _ => (σ, [.is .ok])

def specRun (σ : SpecSt) : List HOp → SpecSt × List Expect
  | [] => (σ, [])
  | op :: ops => ((specRun (specStep σ op).1 ops).1, (specStep σ op).2 ++ (specRun (specStep σ op).1 ops).2)

/-- result lists agree position by position -/
def Holds : List Expect → List Res → Prop
  | [], [] => True
  | e :: es, r :: rs => e.holds r ∧ Holds es rs
  | _, _ => False

/-! ## side conditions -/

/-- sizes, ids, visiting order, configurations, backup destinations (`Backup` into the data directory
    itself or into its merge directory is excluded: see `e3` at the end of the file) -/
def HOpOK (dir : String) : HOp → Prop
  | .a (.put k v) => k.size < 2 ^ 31 ∧ v.size < 2 ^ 31
  | .a (.del k) => k.size < 2 ^ 31
  | .a (.bput k v) => k.size < 2 ^ 31 ∧ v.size < 2 ^ 31
  | .a (.bdel k) => k.size < 2 ^ 31
  | .a (.bnew _ id) => 0 < id ∧ id < 2 ^ 63
  | .a _ => True
  | .merge order => order.Nodup
  | .restart cfg => cfg.Valid
  | .backup dest => dest ≠ dir ∧ dest ≠ mergeDirName dir

/-- the calls a live batch's owner can make while every other caller is blocked -/
def batchCall : HOp → Bool
  | .a (.bput _ _) => true
  | .a (.bdel _) => true
  | .a (.bget _) => true
  | .a .bcommit => true
  | _ => false

def liveAfter (live : Bool) : HOp → Bool
  | .a (.bnew _ _) => true
  | .a .bcommit => false
  | .a .bdrop => false
  | .restart _ => false
  | _ => live

/-- well-formed call sequences: while a batch is live (`live = true`) only its own calls occur -/
def WF (live : Bool) : List HOp → Bool
  | [] => true
  | op :: ops => (!live || batchCall op) && WF (liveAfter live op) ops

/-- the `uint32` range conditions at the two places that need them -/
def StepOK (dir : String) (s : St) : HOp → Prop
  | .merge _ => ∀ db, s.db = some db → db.activeId + 1 < 2 ^ 32
  | .restart _ => ∀ md, s.world.get (mergeDirName dir) = some md → md.marker ≠ none →
      ∀ x ∈ md.data, x.2.bytes.size < 2 ^ 32
  | _ => True

def RunOK (dir : String) (s : St) : List HOp → Prop
  | [] => True
  | op :: ops => StepOK dir s op ∧ RunOK dir (hstep dir s op).1 ops

/-! ## the invariant, indexed by the specification state -/

def isLive : Slot → Bool
  | .live _ => true
  | _ => false

def HInv (dir : String) (s : St) (σ : SpecSt) : Prop :=
  match σ.slot with
  | .none => HInvQ dir s σ.m false
  | .dead => HInvQ dir s σ.m true
  | .live issued => HInvL dir s σ.m issued

/-- the model state and the specification state denote the same mapping: through the index when no
    batch is live, through the batch's layered view when one is -/
def Agree (s : St) (σ : SpecSt) : Prop :=
  match σ.slot with
  | .live issued => ∃ db b, s.db = some db ∧ db.batch = some b ∧ ∀ k, bview s db b k = foldIssued σ.m issued k
  | _ => ∀ k, absOf s k = σ.m k

theorem HInv_q (dir : String) (s : St) (m : Spec) (dead : Bool) :
    HInv dir s ⟨m, qslot dead⟩ = HInvQ dir s m dead := by
  cases dead <;> rfl

theorem specA_q (m : Spec) (dead : Bool) (op : AOp) : specA ⟨m, qslot dead⟩ op = specQuiet m dead op := by
  cases dead <;> rfl

theorem Holds_single {e : Expect} {r : Res} (h : e.holds r) : Holds [e] [r] := ⟨h, trivial⟩

theorem Holds_append : ∀ {es es' : List Expect} {rs rs' : List Res}, Holds es rs → Holds es' rs' →
    Holds (es ++ es') (rs ++ rs') := by
  intro es
  induction es with
  | nil =>
    intro es' rs rs' h h'
    cases rs with
    | nil => exact h'
    | cons r rs => exact absurd h (by simp [Holds])
  | cons e es ih =>
    intro es' rs rs' h h'
    cases rs with
    | nil => exact absurd h (by simp [Holds])
    | cons r rs => exact ⟨h.1, ih h.2 h'⟩

theorem HInvQ_agree {dir : String} {s : St} {m : Spec} {dead : Bool} (h : HInvQ dir s m dead) :
    ∀ k, absOf s k = m k := by
  intro k
  obtain ⟨db, hs, _⟩ := h.2
  obtain ⟨db0, g, hs0, _, _, habs, _⟩ := h.1
  rw [setB_db hs] at hs0
  cases hs0
  rw [C01.absOf_eq hs, ← habs k]
  rfl

theorem HInv_agree {dir : String} {s : St} {σ : SpecSt} (h : HInv dir s σ) : Agree s σ := by
  obtain ⟨m, sl⟩ := σ
  cases sl with
  | none => exact HInvQ_agree h
  | dead => exact HInvQ_agree h
  | live issued =>
    obtain ⟨db, g, b, l0, fl, hx, _⟩ := h
    exact ⟨db, b, hx.open_, hx.batch, hx.core.view⟩

/-! ## one call -/

/-- one call while no batch is live -/
theorem hstepQ {dir : String} {s : St} {m : Spec} {dead : Bool} (op : HOp)
    (h : HInvQ dir s m dead) (hop : HOpOK dir op) (hst : StepOK dir s op) :
    Holds (specStep ⟨m, qslot dead⟩ op).2 (hstep dir s op).2 ∧
    HInv dir (hstep dir s op).1 (specStep ⟨m, qslot dead⟩ op).1 := by
  cases op with
  | a op =>
    simp only [specStep, specA_q, hstep]
    cases op with
    | put k v =>
      obtain ⟨h1, h2⟩ := putQ h k v hop.1 hop.2
      exact ⟨Holds_single h1, by rw [show (specQuiet m dead (.put k v)).1 = ⟨_, qslot dead⟩ from rfl, HInv_q]; exact h2⟩
    | del k =>
      obtain ⟨h1, h2⟩ := delQ h k hop
      exact ⟨Holds_single h1, by rw [show (specQuiet m dead (.del k)).1 = ⟨_, qslot dead⟩ from rfl, HInv_q]; exact h2⟩
    | get k =>
      obtain ⟨h1, h2⟩ := getQ h k
      refine ⟨Holds_single h1, ?_⟩
      show HInv dir (get s k).1 ⟨m, qslot dead⟩
      rw [h2, HInv_q]; exact h
    | sync =>
      obtain ⟨h1, h2⟩ := syncQ h
      exact ⟨Holds_single h1, by rw [show (specQuiet m dead .sync).1 = ⟨m, qslot dead⟩ from rfl, HInv_q]; exact h2⟩
    | bnew sy id =>
      obtain ⟨h1, h2⟩ := bnewQ h sy id hop.1 hop.2
      exact ⟨Holds_single h1, h2⟩
    | bput k v =>
      have e := bputQ h k v
      refine ⟨Holds_single (by show (bput s k v).2 = _; rw [e]; rfl), ?_⟩
      show HInv dir (bput s k v).1 ⟨m, qslot dead⟩
      rw [e, HInv_q]; exact h
    | bdel k =>
      have e := bdelQ h k
      refine ⟨Holds_single (by show (bdel s k).2 = _; rw [e]; rfl), ?_⟩
      show HInv dir (bdel s k).1 ⟨m, qslot dead⟩
      rw [e, HInv_q]; exact h
    | bget k =>
      have e := bgetQ h k
      refine ⟨Holds_single (by show (bget s k).2 = _; rw [e]; rfl), ?_⟩
      show HInv dir (bget s k).1 ⟨m, qslot dead⟩
      rw [e, HInv_q]; exact h
    | bcommit =>
      have e := bcommitQ h
      refine ⟨Holds_single (by show (bcommit s).2 = _; rw [e]; rfl), ?_⟩
      show HInv dir (bcommit s).1 ⟨m, qslot dead⟩
      rw [e, HInv_q]; exact h
    | bdrop =>
      obtain ⟨h1, h2⟩ := bdropQ h
      exact ⟨Holds_single h1, h2⟩
  | merge order =>
    obtain ⟨h1, h2⟩ := mergeQ h order hop hst
    exact ⟨Holds_single h1, by show HInv dir (merge s order).1 ⟨m, qslot dead⟩; rw [HInv_q]; exact h2⟩
  | restart cfg =>
    obtain ⟨h1, h2, h3⟩ := restartQ h cfg hop hst
    exact ⟨⟨h1, h2, trivial⟩, h3⟩
  | backup dest =>
    obtain ⟨h1, h2⟩ := backupQ h dest hop.1 hop.2
    exact ⟨Holds_single h1, by show HInv dir (backup s dest).1 ⟨m, qslot dead⟩; rw [HInv_q]; exact h2⟩

/-- one call of the live batch -/
theorem hstepL {dir : String} {s : St} {m : Spec} {issued : List (ByteArray × Option ByteArray)}
    (op : HOp) (h : HInvL dir s m issued) (hop : HOpOK dir op) (hb : batchCall op = true) :
    Holds (specStep ⟨m, .live issued⟩ op).2 (hstep dir s op).2 ∧
    HInv dir (hstep dir s op).1 (specStep ⟨m, .live issued⟩ op).1 := by
  cases op with
  | merge order => simp [batchCall] at hb
  | restart cfg => simp [batchCall] at hb
  | backup dest => simp [batchCall] at hb
  | a op =>
    cases op with
    | bput k v =>
      obtain ⟨h1, h2⟩ := bputL h k v hop.1 hop.2
      exact ⟨Holds_single h1, h2⟩
    | bdel k =>
      obtain ⟨h1, h2⟩ := bdelL h k hop
      exact ⟨Holds_single h1, h2⟩
    | bget k =>
      obtain ⟨h1, h2⟩ := bgetL h k
      refine ⟨Holds_single h1, ?_⟩
      show HInv dir (bget s k).1 ⟨m, .live issued⟩
      rw [h2]; exact h
    | bcommit =>
      obtain ⟨h1, h2⟩ := bcommitL h
      exact ⟨Holds_single h1, h2⟩
    | put k v => simp [batchCall] at hb
    | del k => simp [batchCall] at hb
    | get k => simp [batchCall] at hb
    | sync => simp [batchCall] at hb
    | bnew sy id => simp [batchCall] at hb
    | bdrop => simp [batchCall] at hb

/-- **one call**, any slot -/
theorem hstep_ok {dir : String} {s : St} {σ : SpecSt} (op : HOp)
    (h : HInv dir s σ) (hop : HOpOK dir op)
    (hwf : isLive σ.slot = true → batchCall op = true) (hst : StepOK dir s op) :
    Holds (specStep σ op).2 (hstep dir s op).2 ∧ HInv dir (hstep dir s op).1 (specStep σ op).1 := by
  obtain ⟨m, sl⟩ := σ
  cases sl with
  | none => exact hstepQ (dead := false) op h hop hst
  | dead => exact hstepQ (dead := true) op h hop hst
  | live issued => exact hstepL op h hop (hwf rfl)

theorem isLive_step (σ : SpecSt) (op : HOp) (hwf : isLive σ.slot = true → batchCall op = true) :
    isLive (specStep σ op).1.slot = liveAfter (isLive σ.slot) op := by
  obtain ⟨m, sl⟩ := σ
  cases sl with
  | live issued =>
    have hb := hwf rfl
    cases op with
    | merge order => simp [batchCall] at hb
    | restart cfg => simp [batchCall] at hb
    | backup dest => simp [batchCall] at hb
    | a op => cases op <;> first | rfl | simp [batchCall] at hb
  | none =>
    cases op with
    | merge order => rfl
    | restart cfg => rfl
    | backup dest => rfl
    | a op => cases op <;> rfl
  | dead =>
    cases op with
    | merge order => rfl
    | restart cfg => rfl
    | backup dest => rfl
    | a op => cases op <;> rfl

/-! ## whole histories -/

/-- **the refinement, from any state of the invariant** -/
theorem hrun_ok (dir : String) : ∀ (h : List HOp) {s : St} {σ : SpecSt}, HInv dir s σ →
    (∀ op ∈ h, HOpOK dir op) → WF (isLive σ.slot) h = true → RunOK dir s h →
    Holds (specRun σ h).2 (hrun dir s h).2 ∧ HInv dir (hrun dir s h).1 (specRun σ h).1 := by
  intro h
  induction h with
  | nil => intro s σ hi _ _ _; exact ⟨trivial, hi⟩
  | cons op ops ih =>
    intro s σ hi hok hwf hro
    simp only [WF, Bool.and_eq_true, Bool.or_eq_true, Bool.not_eq_true'] at hwf
    have hall : isLive σ.slot = true → batchCall op = true := by
      intro hl
      rcases hwf.1 with h1 | h1
      · rw [hl] at h1; cases h1
      · exact h1
    obtain ⟨h1, h2⟩ := hstep_ok op hi (hok op (by simp)) hall hro.1
    obtain ⟨i1, i2⟩ := ih h2 (fun o ho => hok o (by simp [ho]))
      (by rw [isLive_step σ op hall]; exact hwf.2) hro.2
    exact ⟨Holds_append h1 i1, i2⟩

/-- **C01 for histories (refinement).**  For every directory name, every valid initial
    configuration and every history `h` of plain calls, batch calls, `Merge`s and restarts that
    satisfies the side conditions (`HOpOK`, `WF`, `RunOK` — see the file header):

    * `Open` of the fresh directory succeeds;
    * running `h` on the model yields, call by call, the results the specification prescribes
      (`Holds`): every `Get` / batch `Get` answers from the map resp. the layered view, every
      mutator answers `.ok` or its rejection, every `Close` / `Open` of a restart answers `.ok`,
      every `Merge` answers `.ok` or an error;
    * the final model state and the final specification state denote the same mapping (`Agree`:
      `absGet` on every key equals the specification's map; through the batch's view if the history
      ends inside a batch).

    In the specification `Merge` and restarts do not touch the map (`specStep`), so: no `Merge`, no
    restart, under whatever configuration and in whatever position of the history — also between a
    successful `Merge`, batches committed after it, and the restart that adopts it — changes what
    any key maps to. -/
theorem C01_refines_history (dir : String) (cfg : Cfg) (hcfg : cfg.Valid) (h : List HOp)
    (hok : ∀ op ∈ h, HOpOK dir op) (hwf : WF false h = true)
    (hrunok : RunOK dir (openDB St.init dir cfg).1 h) :
    (openDB St.init dir cfg).2 = .ok ∧
    Holds (specRun ⟨specEmpty, .none⟩ h).2 (hrun dir (openDB St.init dir cfg).1 h).2 ∧
    Agree (hrun dir (openDB St.init dir cfg).1 h).1 (specRun ⟨specEmpty, .none⟩ h).1 := by
  obtain ⟨h0, hi0⟩ := HInv0_fresh dir cfg hcfg
  obtain ⟨h1, h2⟩ := hrun_ok dir h (σ := ⟨specEmpty, .none⟩) hi0.toQ hok hwf hrunok
  exact ⟨h0, h1, HInv_agree h2⟩

/-! ## the range conditions of the run, derived from static bounds on the history -/

/-- records that are not huge (`AOpOK`'s size conditions): key and value together at most 2^27
    bytes — under which `GetLogRecordDiskSize` is an upper bound for what a record occupies -/
def HOpSmall : HOp → Prop
  | .a (.put k v) => k.size + v.size ≤ 2 ^ 27
  | .a (.del k) => k.size ≤ 2 ^ 27
  | .a (.bput k v) => k.size + v.size ≤ 2 ^ 27
  | .a (.bdel k) => k.size ≤ 2 ^ 27
  | _ => True

/-- an upper bound for the bytes a call can add to the data files: the size estimate of the record it
    writes or stages; `finCost` for the sealing record of a `Commit` -/
def cost : HOp → Nat
  | .a (.put k v) => Record.diskSizeEstimate k.size v.size
  | .a (.del k) => Record.diskSizeEstimate k.size 0
  | .a (.bput k v) => Record.diskSizeEstimate k.size v.size
  | .a (.bdel k) => Record.diskSizeEstimate k.size 0
  | .a .bcommit => finCost
  | _ => 0

def totalCost (h : List HOp) : Nat := (h.map cost).sum

theorem HInv_quiet {dir : String} {s : St} {σ : SpecSt} (h : HInv dir s σ) (hq : isLive σ.slot = false) :
    ∃ dead, HInvQ dir s σ.m dead := by
  obtain ⟨m, sl⟩ := σ
  cases sl with
  | none => exact ⟨false, h⟩
  | dead => exact ⟨true, h⟩
  | live issued => simp [isLive] at hq

/-- the bound after one call: at most two rotations, at most `cost op` more weight -/
theorem Bnd_step {dir : String} {s : St} {σ : SpecSt} {A W : Nat} (op : HOp) (hi : HInv dir s σ) (hb : Bnd s A W)
    (hop : HOpOK dir op) (hsm : HOpSmall op) (hwf : isLive σ.slot = true → batchCall op = true)
    (hA : A + 1 < 2 ^ 32) (hW : W < 2 ^ 32) :
    StepOK dir s op ∧ Bnd (hstep dir s op).1 (A + 2) (W + cost op) := by
  cases op with
  | a op =>
    refine ⟨trivial, ?_⟩
    cases op with
    | put k v => exact (Bnd_put hb k v hop.1 hop.2 hsm).mono (by omega) (Nat.le_refl _)
    | del k => exact (Bnd_delete hb k hop hsm).mono (by omega) (Nat.le_refl _)
    | get k =>
      show Bnd (get s k).1 _ _
      rw [PolicyP.get_state]; exact hb.mono (by omega) (by simp [cost])
    | sync => exact (Bnd_sync hb).mono (by omega) (by simp [cost])
    | bnew sy id => exact (Bnd_bnew hb sy id hop.2).mono (by omega) (by simp [cost])
    | bput k v => exact Bnd_bput hb k v hop.1 hop.2 hsm
    | bdel k => exact Bnd_bdel hb k hop hsm
    | bget k =>
      show Bnd (bget s k).1 _ _
      rw [bget_state]; exact hb.mono (by omega) (by simp [cost])
    | bcommit => exact Bnd_bcommit hb
    | bdrop => exact (Bnd_bdrop hb).mono (by omega) (by simp [cost])
  | merge order =>
    have hq : isLive σ.slot = false := by
      cases hl : isLive σ.slot with
      | false => rfl
      | true => have := hwf hl; simp [batchCall] at this
    obtain ⟨dead, hQ⟩ := HInv_quiet hi hq
    obtain ⟨h1, h2⟩ := Bnd_merge hQ hb order hop hA
    exact ⟨h1, h2.mono (by omega) (by simp [cost])⟩
  | restart cfg =>
    have hq : isLive σ.slot = false := by
      cases hl : isLive σ.slot with
      | false => rfl
      | true => have := hwf hl; simp [batchCall] at this
    obtain ⟨dead, hQ⟩ := HInv_quiet hi hq
    exact ⟨restart_sizes hQ hb hW, (Bnd_restart hQ hb cfg hop hW).mono (by omega) (by simp [cost])⟩
  | backup dest =>
    have hq : isLive σ.slot = false := by
      cases hl : isLive σ.slot with
      | false => rfl
      | true => have := hwf hl; simp [batchCall] at this
    obtain ⟨dead, hQ⟩ := HInv_quiet hi hq
    refine ⟨trivial, (Bnd_backup hb dest ?_).mono (by omega) (by simp [cost])⟩
    intro db hs
    obtain ⟨db0, g0, hs0, hd0, _⟩ := hQ.1
    rw [setB_db hs] at hs0
    cases hs0
    rw [show db.dir = dir from hd0]
    exact hop.1

/-- **`RunOK` from static bounds**: if the history has fewer than 2^31 − 1 calls and the estimates of
    everything it writes sum up to less than 4 GiB, both range conditions hold along the whole run -/
theorem RunOK_of_small (dir : String) : ∀ (h : List HOp) {s : St} {σ : SpecSt} {A W : Nat}, HInv dir s σ → Bnd s A W →
    (∀ op ∈ h, HOpOK dir op ∧ HOpSmall op) → WF (isLive σ.slot) h = true →
    A + 2 * h.length + 1 < 2 ^ 32 → W + totalCost h < 2 ^ 32 → RunOK dir s h := by
  intro h
  induction h with
  | nil => intro s σ A W _ _ _ _ _ _; trivial
  | cons op ops ih =>
    intro s σ A W hi hb hok hwf hA hW
    simp only [WF, Bool.and_eq_true, Bool.or_eq_true, Bool.not_eq_true'] at hwf
    have hall : isLive σ.slot = true → batchCall op = true := by
      intro hl
      rcases hwf.1 with h1 | h1
      · rw [hl] at h1; cases h1
      · exact h1
    have hlen : (op :: ops).length = ops.length + 1 := rfl
    have hcost : totalCost (op :: ops) = cost op + totalCost ops := by
      simp only [totalCost, List.map_cons, List.sum_cons]
    rw [hlen] at hA
    rw [hcost] at hW
    obtain ⟨hop, hsm⟩ := hok op (by simp)
    obtain ⟨h1, h2⟩ := Bnd_step op hi hb hop hsm hall (by omega) (by omega)
    obtain ⟨_, hi'⟩ := hstep_ok op hi hop hall h1
    exact ⟨h1, ih hi' h2 (fun o ho => hok o (by simp [ho])) (by rw [isLive_step σ op hall]; exact hwf.2)
      (by omega) (by omega)⟩

/-- **C01 for histories, all hypotheses static.**  `C01_refines_history` with `RunOK` replaced by
    conditions on the history alone: records of at most 2^27 bytes (`HOpSmall` = the size part of
    `AOpOK`), at most 2^31 − 2 calls, estimated bytes written below 4 GiB.  (Beyond these bounds the
    refinement still holds whenever the two range conditions `RunOK` hold on the run.) -/
theorem C01_refines_history_small (dir : String) (cfg : Cfg) (hcfg : cfg.Valid) (h : List HOp)
    (hok : ∀ op ∈ h, HOpOK dir op ∧ HOpSmall op) (hwf : WF false h = true)
    (hlen : 2 * h.length + 1 < 2 ^ 32) (hcost : totalCost h < 2 ^ 32) :
    RunOK dir (openDB St.init dir cfg).1 h ∧
    (openDB St.init dir cfg).2 = .ok ∧
    Holds (specRun ⟨specEmpty, .none⟩ h).2 (hrun dir (openDB St.init dir cfg).1 h).2 ∧
    Agree (hrun dir (openDB St.init dir cfg).1 h).1 (specRun ⟨specEmpty, .none⟩ h).1 := by
  obtain ⟨_, hi0⟩ := HInv0_fresh dir cfg hcfg
  have hro : RunOK dir (openDB St.init dir cfg).1 h :=
    RunOK_of_small dir h (σ := ⟨specEmpty, .none⟩) hi0.toQ (Bnd_fresh dir cfg hcfg) hok hwf (by omega) (by omega)
  exact ⟨hro, C01_refines_history dir cfg hcfg h (fun op hop => (hok op hop).1) hwf hro⟩

/-! ## corollaries -/

/-- `Merge` and restarts do not touch the specification's map (by definition of `specStep`) -/
theorem spec_merge_restart_keep_map (σ : SpecSt) (order : List Nat) (cfg : Cfg) :
    (specStep σ (.merge order)).1.m = σ.m ∧ (specStep σ (.restart cfg)).1.m = σ.m := ⟨rfl, rfl⟩

/-- the writes a call makes effective: a plain `Put` / `Delete` with a non-empty key at once, the
    operations a batch has issued at its `Commit`, in issue order; nothing else writes -/
def stepWrites (σ : SpecSt) : HOp → List (ByteArray × Option ByteArray)
  | .a (.put k v) => if isLive σ.slot = true ∨ k.size = 0 then [] else [(k, some v)]
  | .a (.del k) => if isLive σ.slot = true ∨ k.size = 0 then [] else [(k, none)]
  | .a .bcommit => match σ.slot with
    | .live issued => issued
    | _ => []
  | _ => []

/-- all effective writes of a history, in the order in which they take effect -/
def writesOf (σ : SpecSt) : List HOp → List (ByteArray × Option ByteArray)
  | [] => []
  | op :: ops => stepWrites σ op ++ writesOf (specStep σ op).1 ops

theorem specStep_map (σ : SpecSt) (op : HOp) : (specStep σ op).1.m = foldIssued σ.m (stepWrites σ op) := by
  obtain ⟨m, sl⟩ := σ
  cases op with
  | merge order => rfl
  | restart cfg => rfl
  | backup dest => rfl
  | a op =>
    cases sl with
    | live issued => cases op <;> rfl
    | none =>
      cases op with
      | put k v =>
        show (if k.size = 0 then m else specPut m k v) = foldIssued m (if false = true ∨ k.size = 0 then [] else [(k, some v)])
        by_cases h0 : k.size = 0
        · rw [if_pos h0, if_pos (Or.inr h0)]; rfl
        · rw [if_neg h0, if_neg (by simp [h0])]; rfl
      | del k =>
        show (if k.size = 0 then m else specDel m k) = foldIssued m (if false = true ∨ k.size = 0 then [] else [(k, none)])
        by_cases h0 : k.size = 0
        · rw [if_pos h0, if_pos (Or.inr h0)]; rfl
        · rw [if_neg h0, if_neg (by simp [h0])]; rfl
      | _ => rfl
    | dead =>
      cases op with
      | put k v =>
        show (if k.size = 0 then m else specPut m k v) = foldIssued m (if false = true ∨ k.size = 0 then [] else [(k, some v)])
        by_cases h0 : k.size = 0
        · rw [if_pos h0, if_pos (Or.inr h0)]; rfl
        · rw [if_neg h0, if_neg (by simp [h0])]; rfl
      | del k =>
        show (if k.size = 0 then m else specDel m k) = foldIssued m (if false = true ∨ k.size = 0 then [] else [(k, none)])
        by_cases h0 : k.size = 0
        · rw [if_pos h0, if_pos (Or.inr h0)]; rfl
        · rw [if_neg h0, if_neg (by simp [h0])]; rfl
      | _ => rfl

/-- the specification's final map is the effective writes applied one by one -/
theorem specRun_map (h : List HOp) : ∀ (σ : SpecSt), (specRun σ h).1.m = foldIssued σ.m (writesOf σ h) := by
  induction h with
  | nil => intro σ; rfl
  | cons op ops ih =>
    intro σ
    show (specRun (specStep σ op).1 ops).1.m = _
    rw [ih, specStep_map]
    simp only [writesOf, foldIssued, List.foldl_append]

/-- **C01 for histories, "latest write wins".**  If the history does not end inside a batch, every
    key maps to the value of its most recent effective write — a plain put, or a put issued by a
    batch that was committed, in commit order — and to nothing when it was never written or its most
    recent effective write was a delete (`C05.own k ws`: the last entry for `k` in `ws`).  Merges
    and restarts do not occur in `writesOf` at all. -/
theorem C01_latest_write_history (dir : String) (cfg : Cfg) (hcfg : cfg.Valid) (h : List HOp)
    (hok : ∀ op ∈ h, HOpOK dir op) (hwf : WF false h = true)
    (hrunok : RunOK dir (openDB St.init dir cfg).1 h)
    (hq : isLive (specRun ⟨specEmpty, .none⟩ h).1.slot = false) (k : ByteArray) :
    absOf (hrun dir (openDB St.init dir cfg).1 h).1 k
      = (C05.own k (writesOf ⟨specEmpty, .none⟩ h)).getD none := by
  obtain ⟨_, _, hag⟩ := C01_refines_history dir cfg hcfg h hok hwf hrunok
  have hm := specRun_map h ⟨specEmpty, .none⟩
  generalize specRun ⟨specEmpty, .none⟩ h = R at *
  obtain ⟨⟨m, sl⟩, res⟩ := R
  have hk : absOf (hrun dir (openDB St.init dir cfg).1 h).1 k = m k := by
    cases sl with
    | live issued => simp [isLive] at hq
    | none => exact hag k
    | dead => exact hag k
  rw [hk]
  simp only at hm
  rw [hm]
  show (writesOf ⟨specEmpty, .none⟩ h).foldl applyIssued specEmpty k = _
  rw [← C05.layered_eq_fold]
  unfold C05.layered
  cases C05.own k (writesOf ⟨specEmpty, .none⟩ h) <;> rfl

/-! ## C06, the gap closed: batch sessions between a successful `Merge` and its adoption -/

theorem runOps_gstep (ops : List C05.BOp) : ∀ {s : St} {db : DB} {g : GDir} {b : BatchSt} {base : Spec}
    {issued : List (ByteArray × Option ByteArray)} {l0 fl : List (Record.Record × Frame.Pos)},
    BInvX s db g b base issued l0 fl → (∀ op ∈ ops, C05.BOpOK op) →
    ∃ db' g' b' issued' fl', BInvX (C05.runOps s ops).1 db' g' b' base issued' l0 fl' ∧ b'.id = b.id ∧
      db'.dir = db.dir ∧ GStep (IsBatch b.id) db g (C05.runOps s ops).1 db' g' ∧
      (C05.runOps s ops).1.world.get (mergeDirName db.dir) = s.world.get (mergeDirName db.dir) := by
  induction ops with
  | nil =>
    intro s db g b base issued l0 fl hx _
    exact ⟨db, g, b, issued, fl, hx, rfl, rfl, GStep.refl _ hx.core.files, rfl⟩
  | cons op ops ih =>
    intro s db g b base issued l0 fl hx hok
    have hop := hok op (by simp)
    have hid64 : b.id < 2 ^ 64 := by have := hx.core.idlt; omega
    have hne : mergeDirName db.dir ≠ db.dir := Restart.mergeDirName_ne _
    -- one step
    have hstep : ∃ db1 g1 b1 issued1 fl1, BInvX (C05.bstep s op).1 db1 g1 b1 base issued1 l0 fl1 ∧ b1.id = b.id ∧
        db1.dir = db.dir ∧ GStep (IsBatch b.id) db g (C05.bstep s op).1 db1 g1 ∧
        (C05.bstep s op).1.world.get (mergeDirName db.dir) = s.world.get (mergeDirName db.dir) := by
      cases op with
      | bput k v =>
        by_cases h0 : k.size = 0
        · show ∃ db1 g1 b1 issued1 fl1, BInvX (bput s k v).1 db1 g1 b1 base issued1 l0 fl1 ∧ b1.id = b.id ∧
            db1.dir = db.dir ∧ GStep (IsBatch b.id) db g (bput s k v).1 db1 g1 ∧
            (bput s k v).1.world.get (mergeDirName db.dir) = s.world.get (mergeDirName db.dir)
          rw [bput_keyempty hx.open_ hx.batch k v h0]
          exact ⟨db, g, b, issued, fl, hx, rfl, rfl, GStep.refl _ hx.core.files, rfl⟩
        · obtain ⟨_, db', g', b', new, hx', hid, _⟩ := bput_specX hx k v (by omega) hop.1 hop.2
          obtain ⟨db'', g'', hs'', hgs⟩ := bput_gstep hx.open_ hx.batch hx.core.files hx.core.stagedOK hid64 k v
          rw [hx'.open_] at hs''; cases hs''
          have hgg : g'' = g' := PolicyP.Files_unique hgs.files hx'.core.files
          subst hgg
          obtain ⟨hfr1, dbf, hsf, hdf⟩ := bput_frame hx.open_ k v
          rw [hx'.open_] at hsf; cases hsf
          exact ⟨db', g'', b', _, _, hx', hid, hdf, hgs, hfr1 _ hne⟩
      | bdel k =>
        by_cases h0 : k.size = 0
        · show ∃ db1 g1 b1 issued1 fl1, BInvX (bdel s k).1 db1 g1 b1 base issued1 l0 fl1 ∧ b1.id = b.id ∧
            db1.dir = db.dir ∧ GStep (IsBatch b.id) db g (bdel s k).1 db1 g1 ∧
            (bdel s k).1.world.get (mergeDirName db.dir) = s.world.get (mergeDirName db.dir)
          rw [bdel_keyempty hx.open_ hx.batch k h0]
          exact ⟨db, g, b, issued, fl, hx, rfl, rfl, GStep.refl _ hx.core.files, rfl⟩
        · obtain ⟨_, db', g', b', new, hx', hid, _⟩ := bdel_specX hx k (by omega) hop
          obtain ⟨db'', g'', hs'', hgs⟩ := bdel_gstep hx.open_ hx.batch hx.core.files hx.core.stagedOK hid64 k
          rw [hx'.open_] at hs''; cases hs''
          have hgg : g'' = g' := PolicyP.Files_unique hgs.files hx'.core.files
          subst hgg
          obtain ⟨hfr1, dbf, hsf, hdf⟩ := bdel_frame hx.open_ k
          rw [hx'.open_] at hsf; cases hsf
          exact ⟨db', g'', b', _, _, hx', hid, hdf, hgs, hfr1 _ hne⟩
      | bget k =>
        show ∃ db1 g1 b1 issued1 fl1, BInvX (bget s k).1 db1 g1 b1 base issued1 l0 fl1 ∧ b1.id = b.id ∧
          db1.dir = db.dir ∧ GStep (IsBatch b.id) db g (bget s k).1 db1 g1 ∧
          (bget s k).1.world.get (mergeDirName db.dir) = s.world.get (mergeDirName db.dir)
        rw [bget_state]
        exact ⟨db, g, b, issued, fl, hx, rfl, rfl, GStep.refl _ hx.core.files, rfl⟩
    obtain ⟨db1, g1, b1, issued1, fl1, hx1, hid1, hd1, hgs1, hw1⟩ := hstep
    obtain ⟨db2, g2, b2, issued2, fl2, hx2, hid2, hd2, hgs2, hw2⟩ := ih hx1 (fun o ho => hok o (by simp [ho]))
    rw [hid1] at hgs2
    rw [hd1] at hw2
    exact ⟨db2, g2, b2, issued2, fl2, hx2, hid2.trans hid1, hd2.trans hd1, hgs1.trans hgs2, hw2.trans hw1⟩

/-- **C06, `MergeOutB` is stable under whole batch sessions** (`NewBatch; Put/Delete/Get…; Commit;`
    the batch object is dropped — `C05.runBatch`), with ANY positive batch id below 2^63, any
    operations, any number of intermediate flushes and file rotations.  Let `db` be open on `s` with
    the invariant for `g`, the merge directory be `MergeOutB` for `g` (e.g. right after a successful
    `Merge`: `C06_merge_establishes` and `MergeOutW.toB`; or after earlier writes and batches), and
    the log be sealed (`NoPend`: true in every state a crash-free history reaches).  After the
    session the invariant holds again, the session behaved as C05 says, the merge directory is
    `MergeOutB` — same marker, same merged files — for the NEW ghost directory, and the log is sealed
    again: so the theorem iterates, alternates with `C06_mergeOut_stable` (plain writes), and ends
    in `C06_adopt_after_batches`. -/
theorem C06_mergeOut_stable_batch (s : St) (db : DB) (g : GDir) (n : Nat) (gm vis : GDir) (sync : Bool) (id : Nat)
    (ops : List C05.BOp) (hdb : s.db = some db) (hinv : Inv s db g)
    (hmo : MergeOutB s.world db.dir g n gm vis) (hnp : NoPend (Engine.logOf g))
    (h0 : 0 < id) (hlt : id < 2 ^ 63) (hok : ∀ op ∈ ops, C05.BOpOK op) :
    (C05.runBatch s sync id ops).2 = .ok :: (C05.specBatch (absGet s db) ops).2 ++ [.ok, .ok] ∧
    ∃ db' g', (C05.runBatch s sync id ops).1.db = some db' ∧ db'.dir = db.dir ∧
      Inv (C05.runBatch s sync id ops).1 db' g' ∧
      (∀ k, absGet (C05.runBatch s sync id ops).1 db' k = (C05.specBatch (absGet s db) ops).1 k) ∧
      MergeOutB (C05.runBatch s sync id ops).1.world db.dir g' n gm vis ∧ NoPend (Engine.logOf g') := by
  have hpre : C05.Pre s db g id ops := ⟨hdb, hinv, h0, hlt, hnp id, hok⟩
  obtain ⟨hres, dbL, gL, hsL, _, habsL, _⟩ := C05.C05_layered s db g sync id ops hpre
  refine ⟨hres, ?_⟩
  -- walk through the session with explicit ghost directories
  have hx0 := bnew_specX hinv hdb sync id h0 hlt (hnp id)
  obtain ⟨db1, g1, b1, issued1, fl1, hx1, hid1, hd1, hgs1, hw1⟩ := runOps_gstep ops hx0 hok
  have hid1' : b1.id = id := hid1
  obtain ⟨_, db2, g2, hseal, habs2, hempty, hnonempty⟩ := bcommit_specX hx1
  obtain ⟨db2', g2', hs2, hgs2⟩ := bcommit_gstep hx1.open_ hx1.batch hx1.core.files hx1.core.stagedOK hx1.core.idlt
  rw [hseal.open_] at hs2; cases hs2
  have hgg : g2' = g2 := PolicyP.Files_unique hgs2.files (hseal.inv.files.congr rfl rfl rfl)
  subst hgg
  obtain ⟨hfr2, dbf, hsf, hdf⟩ := bcommit_frame hx1.open_
  rw [hseal.open_] at hsf; cases hsf
  obtain ⟨hdrop, hinv3, habs3⟩ := bdrop_spec hseal
  -- the ghost directory of the final state has grown from `g` above the marker
  rw [hid1'] at hgs2
  have hgs : GStep (IsBatch id) db g (bcommit (C05.runOps (bnew s sync id).1 ops).1).1 db2 g2' := by
    have := hgs1.trans hgs2
    exact ⟨this.files, this.grown, this.act, this.log⟩
  have hwb : (bnew s sync id).1.world = s.world := by rw [bnew_eq hdb]
  have hw2 := hfr2 (mergeDirName db.dir) (by rw [hd1]; exact Restart.mergeDirName_ne _)
  have hwAll : (bcommit (C05.runOps (bnew s sync id).1 ops).1).1.world.get (mergeDirName db.dir)
      = s.world.get (mergeDirName db.dir) := by
    rw [hw2, hw1, hwb]
  have hnp2 : NoPend (Engine.logOf g2') := by
    by_cases he : b1.staged = []
    · obtain ⟨_, e1, _, e2⟩ := hempty he
      rw [e1, hx1.core.log, e2, List.append_nil]; exact hnp
    · obtain ⟨new, p, e1, e2⟩ := hnonempty he
      rw [e1]
      exact NoPend_commit hnp (by have := hx1.core.idpos; omega) e2 (finRec b1.id) p rfl rfl
  have hfin : (C05.runBatch s sync id ops).1 = (bdrop (bcommit (C05.runOps (bnew s sync id).1 ops).1).1).1 := rfl
  rw [hfin] at hsL habsL ⊢
  have hsL' := hsL
  rw [hdrop] at hsL'
  cases hsL'
  refine ⟨{ db2 with batch := none }, g2', hsL, hdf.trans hd1, hinv3, habsL, ?_, hnp2⟩
  · have hwd : (bdrop (bcommit (C05.runOps (bnew s sync id).1 ops).1).1).1.world
        = (bcommit (C05.runOps (bnew s sync id).1 ops).1).1.world := by rw [hdrop]
    exact hmo.grown hgs.grown (hmo.le_active hinv.files) (by rw [hwd]; exact hwAll)

/-- **C06, the adopting restart after writes AND batches**: `C06_adopt` with `MergeOutW` weakened to
    `MergeOutB`.  `Close` and `Open` under any valid configuration succeed, every key keeps its
    value, the invariant holds for the merged ghost directory `gm ++ hi g n`, the merge directory is
    gone, and a sealed log stays sealed. -/
theorem C06_adopt_after_batches (s : St) (db : DB) (g : GDir) (n : Nat) (gm vis : GDir) (cfg' : Cfg)
    (hdb : s.db = some db) (hinv : Inv s db g) (hmo : MergeOutB s.world db.dir g n gm vis)
    (hF : MergeP.HintFits gm) (hcfg : cfg'.Valid) :
    (close s).2 = .ok ∧ ∃ s' db', openDB (close s).1 db.dir cfg' = (s', .ok) ∧ s'.db = some db' ∧ db'.dir = db.dir ∧
      (∀ k, absGet s' db' k = absGet s db k) ∧ Inv s' db' (gm ++ MergeP.hi g n) ∧
      s'.world.get (mergeDirName db.dir) = none ∧
      (NoPend (Engine.logOf g) → NoPend (Engine.logOf (gm ++ MergeP.hi g n))) ∧ db'.activeId = db.activeId :=
  restart_adopt cfg' hdb hinv hmo hF hcfg

/-- the hypotheses of `C06_mergeOut_stable_batch` are satisfiable: the one-record example state of
    C02 / C06 right after its `Merge` (which succeeds: `#guard` in `Properties/C06.lean`), any batch
    session with any positive id -/
example (hm : (merge C02.exSt [0]).2 = .ok) (sync : Bool) (id : Nat) (h0 : 0 < id) (hlt : id < 2 ^ 63)
    (ops : List C05.BOp) (hok : ∀ op ∈ ops, C05.BOpOK op) :
    ∃ db' g' gm vis, (C05.runBatch (merge C02.exSt [0]).1 sync id ops).1.db = some db' ∧
      Inv (C05.runBatch (merge C02.exSt [0]).1 sync id ops).1 db' g' ∧
      MergeOutB (C05.runBatch (merge C02.exSt [0]).1 sync id ops).1.world "d" g' 1 gm vis := by
  obtain ⟨h1, h2, _, ⟨gm, vis, hmo⟩, _⟩ := C06.C06_merge_establishes C02.exSt (merge C02.exSt [0]).1 C02.exDB C02.exG
    [0] rfl C02.exInv (by simp) (by decide) (by rw [← hm])
  have hnp0 : NoPend (Engine.logOf C02.exG) := by
    have : NoPend ([] ++ Engine.logOf C02.exG) := by
      apply NoPend_plain (fun id => rfl)
      intro x hx
      obtain ⟨y, hy, hr⟩ := MergeP.mem_logOf_record (r := x.1) (p := x.2) hx
      simp only [C02.exG, List.mem_singleton] at hy
      subst hy
      simp only [List.mem_singleton] at hr
      rw [hr]; rfl
    simpa using this
  have hnp : NoPend (Engine.logOf (C02.exG ++ [(C02.exDB.activeId + 1, [])])) := by
    rw [logOf_new_file]; exact hnp0
  have hmoB := MergeOutW.toB hmo h2.asc hnp
  obtain ⟨_, db', g', e1, _, e3, _, e5, _⟩ := C06_mergeOut_stable_batch (merge C02.exSt [0]).1 (MergeP.rotDB C02.exDB) _ _
    gm vis sync id ops h1 h2 hmoB hnp h0 hlt hok
  exact ⟨db', g', gm, vis, e1, e3, e5⟩

/-! ## non-vacuity: an executed history for which every side condition is PROVED

`open "d"` (file-size limit 120: a rotation every second or third record) · plain writes · a batch
with an intermediate flush, read-your-writes and a delete · a call through the dead batch · `Merge`
· a `Backup` · a batch AFTER the merge that reuses the first batch's id (same-millisecond snowflake ids), again
with intermediate flushes · plain writes · the ADOPTING restart under another configuration ·
reads · a second restart under a third configuration · a `Merge` of the adopted directory · a third
restart. -/

def kb (s : String) : ByteArray := s.toUTF8
def cfg0 : Cfg := { fileSize := 120, sync := 0, bps := 0, idx := 0, io := 0, shards := 1 }
def cfg1 : Cfg := { fileSize := 64, sync := 1, bps := 0, idx := 2, io := 1, shards := 16 }
def cfg2 : Cfg := { fileSize := 4096, sync := 2, bps := 100, idx := 1, io := 0, shards := 4 }

def demoH : List HOp :=
  [.a (.put (kb "a") (kb "1")), .a (.put (kb "b") (kb "2")), .a (.put (kb "a") (kb "3")),
   .a (.bnew true 11), .a (.bput (kb "c") (kb "4")), .a (.bget (kb "a")), .a (.bdel (kb "b")),
   .a (.bput (kb "d") (kb "5")), .a (.bput (kb "e") (kb "6")), .a (.bget (kb "b")), .a .bcommit,
   .a (.bput (kb "z") (kb "9")), .a (.get (kb "b")),
   .merge [1, 0, 2],
   .a (.get (kb "c")), .backup "bk",
   .a (.bnew false 11), .a (.bput (kb "a") (kb "7")), .a (.bdel (kb "c")), .a (.bput (kb "f") (kb "8")),
   .a (.bput (kb "g") (kb "8")), .a (.bget (kb "a")), .a .bcommit, .a .bdrop,
   .a (.put (kb "h") (kb "9")), .a (.del (kb "d")),
   .restart cfg1,
   .a (.get (kb "a")), .a (.get (kb "b")), .a (.get (kb "c")), .a (.get (kb "d")), .a (.get (kb "e")),
   .a (.get (kb "f")), .a (.get (kb "h")),
   .restart cfg2,
   .a (.get (kb "a")), .a (.get (kb "f")), .a (.bget (kb "a")), .merge [], .restart cfg0, .a (.get (kb "a"))]

instance (dir : String) : DecidablePred (HOpOK dir) := fun op => by
  cases op with
  | a op => cases op <;> (simp only [HOpOK]; infer_instance)
  | merge order => simp only [HOpOK]; infer_instance
  | restart cfg => simp only [HOpOK]; infer_instance
  | backup dest => simp only [HOpOK]; infer_instance

instance : DecidablePred HOpSmall := fun op => by
  cases op with
  | a op => cases op <;> (simp only [HOpSmall]; infer_instance)
  | merge order => simp only [HOpSmall]; infer_instance
  | restart cfg => simp only [HOpSmall]; infer_instance
  | backup dest => simp only [HOpSmall]; infer_instance

theorem demo_ok : ∀ op ∈ demoH, HOpOK "d" op ∧ HOpSmall op := by decide
theorem demo_wf : WF false demoH = true := by decide
theorem demo_len : 2 * demoH.length + 1 < 2 ^ 32 := by decide
theorem demo_cost : totalCost demoH < 2 ^ 32 := by decide

/-- all hypotheses of `C01_refines_history_small` — hence of `C01_refines_history` — hold for the
    concrete history -/
theorem demo_refines :
    RunOK "d" (openDB St.init "d" cfg0).1 demoH ∧ (openDB St.init "d" cfg0).2 = .ok ∧
    Holds (specRun ⟨specEmpty, .none⟩ demoH).2 (hrun "d" (openDB St.init "d" cfg0).1 demoH).2 ∧
    Agree (hrun "d" (openDB St.init "d" cfg0).1 demoH).1 (specRun ⟨specEmpty, .none⟩ demoH).1 :=
  C01_refines_history_small "d" cfg0 (by decide) demoH demo_ok demo_wf demo_len demo_cost

/-! ### evaluated (compiled evaluation by `#guard`; not used by any proof) -/

private def showRes : Res → String
  | .ok => "ok"
  | .val v => s!"val:{v.data.toList}"
  | .notFound => "nf"
  | .err e => "err:" ++ e

private def checkRes : Expect → Res → Bool
  | .is r, r' => showRes r == showRes r'
  | .mergeOutcome, r' => match r' with
    | .ok => true
    | .err _ => true
    | _ => false

private def nFiles (s : St) (dir : String) : Option (List Nat) := (s.world.get dir).map (fun d => d.data.map (·.1))
private def demoRun (n : Nat) : St := (hrun "d" (openDB St.init "d" cfg0).1 (demoH.take n)).1

-- the results, call by call (44 results for 41 calls: a restart is two calls)
#guard (hrun "d" (openDB St.init "d" cfg0).1 demoH).2.map showRes
  = ["ok", "ok", "ok",
     "ok", "ok", "val:[51]", "ok", "ok", "ok", "nf", "ok", "err:committed", "nf",
     "ok",
     "val:[52]", "ok",
     "ok", "ok", "ok", "ok", "ok", "val:[55]", "ok", "ok",
     "ok", "ok",
     "ok", "ok",
     "val:[55]", "nf", "nf", "nf", "val:[54]", "val:[56]", "val:[57]",
     "ok", "ok",
     "val:[55]", "val:[56]", "err:no-batch", "ok", "ok", "ok", "val:[55]"]
-- … are what the specification prescribes
#guard (List.zipWith checkRes (specRun ⟨specEmpty, .none⟩ demoH).2 (hrun "d" (openDB St.init "d" cfg0).1 demoH).2).all id
#guard (specRun ⟨specEmpty, .none⟩ demoH).2.length = (hrun "d" (openDB St.init "d" cfg0).1 demoH).2.length
-- both merges succeeded
#guard (match (hstep "d" (demoRun 13) (.merge [1, 0, 2])).2 with | [.ok] => true | _ => false)
-- the first `Merge` rotates to file 5 (= the marker id); its output is one file
#guard nFiles (demoRun 14) "d" == some [0, 1, 2, 3, 4, 5]
#guard nFiles (demoRun 14) "d-merge" == some [0]
-- the batch after the merge flushed on its way: files 5 … 8 exist before the adopting restart
#guard nFiles (demoRun 26) "d" == some [0, 1, 2, 3, 4, 5, 6, 7, 8]
#guard nFiles (demoRun 26) "d-merge" == some [0]
-- the adopting restart: merged file 0 + the files ≥ 5; the merge directory is gone
#guard nFiles (demoRun 27) "d" == some [0, 5, 6, 7, 8]
#guard nFiles (demoRun 27) "d-merge" == none
-- the backup taken between the merge and its adoption holds the six files of that moment
#guard nFiles (demoRun 27) "bk" == some [0, 1, 2, 3, 4, 5]
-- the final mapping is the specification's
#guard ["a", "b", "c", "d", "e", "f", "g", "h", "z"].all fun k =>
  (absOf (hrun "d" (openDB St.init "d" cfg0).1 demoH).1 (kb k)).map (·.data.toList)
    == ((specRun ⟨specEmpty, .none⟩ demoH).1.m (kb k)).map (·.data.toList)
#guard (["a", "b", "c", "d", "e", "f", "g", "h", "z"].map fun k =>
  (absOf (hrun "d" (openDB St.init "d" cfg0).1 demoH).1 (kb k)).map (·.data.toList))
    == [some [55], none, none, none, some [54], some [56], some [56], some [57], none]

/-! ### the excluded points, run on the model (evaluated; for the report)

**E1 — a plain call while a batch is live** (`WF` violated).  Go: the call blocks on `db.mu` until
`Commit`.  The model does not represent blocking and simply executes it: the plain `Put` is written
at once, the batch's staged `Put` of the same key is applied at `Commit` and wins.

**E2 — a batch object dropped uncommitted after an intermediate flush** (`WF` violated: `bdrop`
while live).  Go: the DB lock is never released, every later call blocks for ever.  The model
continues: the flushed part of the batch is visible in the live index (`x ↦ 1`), the staged part is
not (`u`); after a restart the flushed records are orphans without a sealing record and `x` is gone
— and when a LATER batch with the SAME id commits, its sealing record adopts the orphans: after the
next restart `x ↦ 1` is back.  (This is the hazard behind the id-freshness hypothesis of C03 / C04;
it needs an unsealed batch in the log, i.e. a crash — or this unreachable drop.  In crash-free
well-formed histories ids may repeat freely: `demoH` uses 11 twice.)

**E3 — `Backup` into the database's own merge directory between a successful `Merge` and its
adoption** (`HOpOK` violated: `dest = dir ++ "-merge"`; a real caller CAN do this).  The copied data
files overwrite the rewritten files of the same names while marker and hint file stay: the adopting
`Open` installs the ORIGINAL files `0 … count-1` as "merged" files and deletes the originals from
`count` up to the marker: acknowledged data is lost without any error.  The same happens in Go
(`utils.CopyDir` overwrites `000000000.data …` in `<dir>-merge`).  Re-evaluated after repair 88d026d
(`Backup dest` removes a merge directory `dest ++ "-merge"` first): here that is `"d-merge-merge"`, which does
not exist, so nothing is removed and every output below is as before — the point stays excluded.

**E3' — `Backup` into the data directory itself** (`HOpOK` violated: `dest = dir`).  Since repair 88d026d this
removes the database's OWN finished merge directory (`dir ++ "-merge"` is "the merge directory next to the
destination"; model and Go agree).  Harmless for the mapping — the merge result is merely discarded and the next
`Open` scans — but `HInv`'s clause about the merge directory would need its own case, so the point stays excluded. -/

private def cfgS : Cfg := { fileSize := 60, sync := 0, bps := 0, idx := 0, io := 0, shards := 1 }
private def e3 : List HOp :=
  [.a (.put (kb "a") (kb "1")), .a (.put (kb "b") (kb "2")), .a (.put (kb "a") (kb "3")), .a (.put (kb "c") (kb "4")),
   .a (.put (kb "d") (kb "5")), .merge [0, 1, 2], .backup "d-merge", .a (.get (kb "a")), .restart cfgS,
   .a (.get (kb "a")), .a (.get (kb "b")), .a (.get (kb "c")), .a (.get (kb "d"))]
-- one record per file: data files 0…4 + the empty active file 5; the merge output is four files
#guard (nFiles (hrun "d" (openDB St.init "d" cfgS).1 (e3.take 6)).1 "d-merge") == some [0, 1, 2, 3]
-- the live value of `d` is 5; after the adopting restart `d` is gone (not found): the adoption installed the copied
-- originals 0…3 as "merged" files and deleted original file 4, the only copy of `d ↦ 5`
#guard (hrun "d" (openDB St.init "d" cfgS).1 e3).2.map showRes
  = ["ok", "ok", "ok", "ok", "ok", "ok", "ok", "val:[51]", "ok", "ok", "val:[51]", "val:[50]", "val:[52]", "nf"]
-- (since `Backup` makes its destination hold exactly the source's files - repair ca47810 - the merge directory now holds
--  copies of the ORIGINAL files 0…5 under the marker of the finished merge)
#guard (nFiles (hrun "d" (openDB St.init "d" cfgS).1 (e3.take 7)).1 "d-merge") == some [0, 1, 2, 3, 4, 5]
-- file 4 (the only copy of `d ↦ 5`) has been deleted by the adoption
#guard (nFiles (hrun "d" (openDB St.init "d" cfgS).1 (e3.take 9)).1 "d") == some [0, 1, 2, 3, 5]

private def e3' : List HOp :=
  [.a (.put (kb "a") (kb "1")), .a (.put (kb "b") (kb "2")), .a (.put (kb "a") (kb "3")), .a (.put (kb "c") (kb "4")),
   .a (.put (kb "d") (kb "5")), .merge [0, 1, 2], .backup "d", .restart cfgS,
   .a (.get (kb "a")), .a (.get (kb "b")), .a (.get (kb "c")), .a (.get (kb "d"))]
-- E3': the finished merge directory is there after `Merge`, gone after `Backup "d"`; nothing is lost
#guard (nFiles (hrun "d" (openDB St.init "d" cfgS).1 (e3'.take 6)).1 "d-merge") == some [0, 1, 2, 3]
#guard (nFiles (hrun "d" (openDB St.init "d" cfgS).1 (e3'.take 7)).1 "d-merge") == none
#guard (hrun "d" (openDB St.init "d" cfgS).1 e3').2.map showRes
  = ["ok", "ok", "ok", "ok", "ok", "ok", "ok", "ok", "ok", "val:[51]", "val:[50]", "val:[52]", "val:[53]"]

/-! (E1 and E2 as lists:) -/

private def e1 : List HOp :=
  [.a (.bnew false 5), .a (.bput (kb "a") (kb "1")), .a (.put (kb "a") (kb "2")), .a (.get (kb "a")), .a .bcommit,
   .a (.get (kb "a")), .restart cfg0, .a (.get (kb "a"))]
#guard WF false e1 == false
#guard (hrun "d" (openDB St.init "d" cfg0).1 e1).2.map showRes
  = ["ok", "ok", "ok", "val:[50]", "ok", "val:[49]", "ok", "ok", "val:[49]"]

private def e2 : List HOp :=
  [.a (.put (kb "a") (kb "0")), .a (.bnew false 5), .a (.bput (kb "x") (kb "1")), .a (.bput (kb "y") (kb "2")),
   .a (.bput (kb "z") (kb "3")), .a (.bput (kb "u") (kb "4")), .a .bdrop,
   .a (.get (kb "x")), .a (.get (kb "u")), .restart cfg0, .a (.get (kb "x")), .a (.get (kb "a")),
   .a (.bnew false 5), .a (.bput (kb "w") (kb "9")), .a .bcommit, .a .bdrop, .a (.get (kb "x")),
   .restart cfg0, .a (.get (kb "x")), .a (.get (kb "w"))]
#guard WF false e2 == false
#guard (hrun "d" (openDB St.init "d" cfg0).1 e2).2.map showRes
  = ["ok", "ok", "ok", "ok", "ok", "ok", "ok",
     "val:[49]", "nf", "ok", "ok", "nf", "val:[48]",
     "ok", "ok", "ok", "ok", "nf",
     "ok", "ok", "val:[49]", "val:[57]"]

end XixiKV.C01H
