import XixiKV.Proofs.ConcMergeDur
import XixiKV.Proofs.ConcMergeDurSched
import XixiKV.Model.LocksetFlush
import XixiKV.Generated.Skeletons
/-!
# C06, durability under concurrency: writes that race with a Merge survive a power failure after it

Model: `XixiKV.ConcMergeDur` (`Model/ConcMergeDur.lean`) = the concurrent merge model
`Model/ConcMerge.lean` (unbounded client threads doing `Put / Delete / Get`, arbitrary scheduler,
one merging goroutine: `mstart · mvisit* · mfinish | mabort`) plus a durability frontier
`synced` (length of the log prefix on stable storage; `sync` may happen at any time, `mstart`
flushes) and the pre-marker flush `mflush` of Go commit 3a671fe, switched by the shape flag
`flushBeforeMarker`.  `afterPowerFailure d` is the log the restart after a power failure replays:
`out ++ (log.drop n).take (synced - n)` if the merge `(n, out)` has FINISHED (it is adopted),
`log.take synced` otherwise.

The defect (DESIGN.md §11.7 item 8): a write during the scan moves a key's index entry, the scan
skips the old record — possibly the only flushed version — and the marker was written without
flushing the new one: after a power failure the key is gone (`C06_durable_needs_flush`).
With the flush (`C06_durable_merge`) a power failure in ANY reachable state recovers the replay
of a prefix of the write history that contains everything flushed — exactly the guarantee of a
database that never merges.  `C06_generated_flush_before_marker` reads the flag off the
regenerated lockset table.
-/
namespace XixiKV.C06D
open XixiKV XixiKV.Conc XixiKV.ConcMerge XixiKV.ConcMergeDur

/-- **Durability with a concurrent Merge.**  Well-locked shape, boundary fixed under `db.mu`,
    flush before the marker.  In every reachable state (any number of clients, any schedule, any
    number of finished / aborted / running merges, clients in the middle of their operations), what
    a restart after a power failure recovers is the replay of a prefix `log.take j` of the write
    history with `synced ≤ j ≤ |log|`: nothing flushed is lost, nothing is reordered, no key
    vanishes. -/
theorem C06_durable_merge {d : GD} (h : ReachableD Shape.allTrue true true d) :
    ∃ j, d.synced ≤ j ∧ j ≤ d.a.g.log.length ∧
      recovered (afterPowerFailure d) = recovered (d.a.g.log.take j) :=
  ⟨d.synced, Nat.le_refl _, (reachableD_dinv h).1, powerFailure_prefix h⟩

/-- the sharper form: the recovered mapping is exactly the replay of the flushed prefix -/
theorem C06_durable_merge_exact {d : GD} (h : ReachableD Shape.allTrue true true d) :
    d.synced ≤ d.a.g.log.length ∧
      recovered (afterPowerFailure d) = recovered (d.a.g.log.take d.synced) :=
  ⟨(reachableD_dinv h).1, powerFailure_prefix h⟩

/-- the page cache may have written back more than what was explicitly flushed: for EVERY survivor
    frontier `j ≥ synced` the restart recovers the replay of `log.take j` (for `j ≥ |log|` that is the
    whole log) -/
theorem C06_durable_merge_survivors {d : GD} (h : ReachableD Shape.allTrue true true d) {j : Nat}
    (hj : d.synced ≤ j) :
    recovered (afterPowerFailureAt d j) = recovered (d.a.g.log.take j) ∧
      afterPowerFailureAt d d.synced = afterPowerFailure d :=
  ⟨powerFailureAt_prefix h hj, afterPowerFailureAt_synced d⟩

/-- "in particular": after a finished merge `(n, out)`, a key whose value at the boundary (all of
    it flushed: `n ≤ synced`) was NOT rewritten by the merge has a superseding record — a newer put
    or a tombstone — inside the flushed part `[n, synced)` of the post-boundary log. -/
theorem C06_durable_skipped_superseded {d : GD} {n : Nat} {out : List Rec} {k : Key} {v : Val}
    (h : ReachableD Shape.allTrue true true d) (hm : d.a.m = .done n out)
    (hlive : recovered (d.a.g.log.take n) k = some v) (hskip : Rec.put k v ∉ out) :
    n ≤ d.synced ∧ ∃ i r, n ≤ i ∧ i < d.synced ∧ d.a.g.log[i]? = some r ∧ recKey r = k := by
  refine ⟨?_, skipped_superseded h hm hlive hskip⟩
  have hD := reachableD_dinv h
  obtain ⟨⟨g, m⟩, s, fl⟩ := d
  simp only at hm; subst hm
  exact hD.2.1

/-- **The flush is necessary.**  With `flushBeforeMarker = false` (the code before 3a671fe) there is
    a reachable quiescent state with a finished merge in which key 1 has the FLUSHED value 10 and
    the acknowledged value 11, and a power failure followed by the adopting restart recovers
    nothing for key 1: the recovered mapping is not the replay of ANY prefix of the log that
    contains the flushed part.  (Schedule `ConcMergeDur.powerLossSchedule`:
    put 1 10; sync; mstart; put 1 11; mvisit — skips the old record; mfinish.) -/
theorem C06_durable_needs_flush :
    ∃ d n out, ReachableD Shape.allTrue true false d ∧ d.a.m = .done n out ∧ d.a.g.writer = none ∧
      (∀ t, d.a.g.pc t = .idle) ∧
      absMap d.a.g 1 = some 11 ∧
      recovered (d.a.g.log.take d.synced) 1 = some 10 ∧
      recovered (afterPowerFailure d) 1 = none ∧
      ∀ j, d.synced ≤ j → j ≤ d.a.g.log.length →
        recovered (afterPowerFailure d) ≠ recovered (d.a.g.log.take j) :=
  needs_flush

/-! ## the results of `ConcMerge` as corollaries -/

/-- every state of the durable model projects to a state of `ConcMerge` (any shape): all theorems of
    `Properties/C06.lean` about `ReachableM` and of C08 / C09 about `Conc.Reachable` apply -/
theorem C06_durable_projects {sh : Shape} {b f : Bool} {d : GD} (h : ReachableD sh b f d) :
    ReachableM sh b d.a ∧ Reachable sh d.a.g :=
  ⟨reachableD_base h, reachableM_base (reachableD_base h)⟩

/-- no power failure (= everything is flushed, `synced = |log|`): the directory is the one
    `ConcMerge` adopts, and with `db.mu` free the restart recovers the live mapping
    (`C06_concurrent_merge`); holds with or without the pre-marker flush -/
theorem C06_durable_no_failure {f : Bool} {d : GD} {n : Nat} {out : List Rec}
    (h : ReachableD Shape.allTrue true f d) (hm : d.a.m = .done n out)
    (hs : d.synced = d.a.g.log.length) (hw : d.a.g.writer = none) :
    afterPowerFailure d = adopted d.a.g n out ∧ recovered (afterPowerFailure d) = absMap d.a.g := by
  have e : afterPowerFailure d = adopted d.a.g n out := by
    unfold afterPowerFailure adopted
    rw [hm]
    simp only
    rw [hs, List.take_of_length_le (by rw [List.length_drop]; omega)]
  exact ⟨e, by rw [e]; exact merge_preserves (reachableD_base h) hm hw⟩

/-- with the flush, everything flushed and `db.mu` free, a power failure is harmless in every
    merge state (idle, scanning, finished) -/
theorem C06_durable_synced_live {d : GD} (h : ReachableD Shape.allTrue true true d)
    (hs : d.synced = d.a.g.log.length) (hw : d.a.g.writer = none) :
    recovered (afterPowerFailure d) = absMap d.a.g := by
  rw [powerFailure_prefix h, hs, List.take_length]
  exact unfinished_merge_harmless (reachableD_base h) hw

/-! ## non-vacuity: the power-loss schedule executed under both flag values -/

/-- before 3a671fe: the schedule runs to a finished merge; the directory after the power failure is
    EMPTY (output empty, nothing of the post-boundary log flushed) -/
theorem C06_durable_example_unflushed :
    ∃ d, execD Shape.allTrue true false powerLossSchedule initD = some d ∧
      d.a.m = .done 1 [] ∧ d.synced = 1 ∧ d.a.g.log = [.put 1 10, .put 1 11] ∧
      afterPowerFailure d = [] ∧ recovered (afterPowerFailure d) 1 = none :=
  powerLossSchedule_runs

/-- after 3a671fe: the marker cannot be written before the flush (the same schedule is refused at
    its last step, everything before it runs) … -/
theorem C06_durable_example_refused :
    (execD Shape.allTrue true true powerLossPrefix initD).isSome = true ∧
    (execD Shape.allTrue true true powerLossSchedule initD).isNone = true :=
  ⟨powerLossPrefix_runs, powerLossSchedule_refused⟩

/-- … and with the flush in place the directory after the power failure holds the new record: the
    hypotheses of `C06_durable_merge` / `C06_durable_skipped_superseded` are met by a state in which
    the merge skipped a flushed record (`out = []`, boundary value of key 1 is 10) -/
theorem C06_durable_example_flushed :
    ∃ d, execD Shape.allTrue true true powerLossScheduleFlushed initD = some d ∧
      ReachableD Shape.allTrue true true d ∧
      d.a.m = .done 1 [] ∧ d.synced = 2 ∧ d.a.g.log = [.put 1 10, .put 1 11] ∧
      afterPowerFailure d = [.put 1 11] ∧ recovered (afterPowerFailure d) 1 = some 11 := by
  obtain ⟨d, hd, h⟩ := powerLossScheduleFlushed_runs
  exact ⟨d, hd, execD_reachable ReachableD.init hd, h⟩

/-! ## tie to the code -/

set_option maxRecDepth 100000 in
/-- In the generated lockset table of the current tree, every successful return of `DB.Merge` after
    its scan (after the last `idxGet`) is preceded by an `fsync` in a W section of `db.mu` that also
    lies after the scan: the premise `flushBeforeMarker = true` of `C06_durable_merge`
    (`ConcMergeDur.StepD.mflush` needs `db.mu` free = the W section). -/
theorem C06_generated_flush_before_marker :
    Lockset.mergeFlushBeforeMarker Generated.locksetTable = true := by decide

set_option maxRecDepth 100000 in
/-- the predicate is not vacuous: the generated table with the post-scan flush of `DB.Merge` removed
    is rejected (and still has the start section: the removal touches nothing else) -/
theorem C06_generated_flush_rejects_old :
    Lockset.mergeFlushBeforeMarker (Lockset.withoutMergeFlush Generated.locksetTable) = false ∧
    Lockset.mergeStartInLock (Lockset.withoutMergeFlush Generated.locksetTable) = true := by decide

/-- hand-written tables: the shape before 3a671fe (its only flush is the one of the start section) is
    rejected, the repaired shape accepted, a post-scan flush outside the W section rejected -/
theorem C06_generated_flush_examples :
    Lockset.mergeFlushBeforeMarker Lockset.mergeTableBefore = false ∧
    Lockset.mergeFlushBeforeMarker Lockset.mergeTableAfter = true ∧
    Lockset.mergeFlushBeforeMarker Lockset.mergeTableUnlocked = false := by decide

end XixiKV.C06D
