import XixiKV.Proofs.Ownership
/-!
# C15 — caller buffers are never retained or modified; returned values never change  (PARTIAL)

Model: `Model/Ownership.lean` (heap of identified buffers, engine slots `.own` / `.ref`, copy policy,
adversarial `scribble`).  Helper lemmas: `Proofs/Ownership.lean`.

What is proved: at the level of references the copy discipline is SUFFICIENT (`C15_noninterference`,
`C15_copies_suffice`) and each copy is NECESSARY (`C15_needs_copies`, `C15_pool_writes_caller_memory`).
What is NOT proved here: that the Go code follows the discipline.  Go's heap is not formalised; the
absence of aliasing in the code is established by the differential scribble-mode runs of the C15 check.

Reading guide.
* A call `put kbuf k vbuf v` means: the caller puts `k` / `v` into its buffers `kbuf` / `vbuf` and calls
  `DB.Put` with them.  Reusing one buffer for every call is passing the same id again.
* `scribble id b` overwrites any buffer — one the caller passed earlier, or one that `get` / `bget`
  returned (`Res.val id _` carries its identity) — at any point between two calls.
* `run p s ops` = (results of the API calls in order, final state); `unscribbled ops` drops the scribble steps.
* Results are equal as values: the bytes are those at return time.  (The buffer identities agree too.)
-/
namespace XixiKV.C15
open XixiKV.Ownership

/-- **C15_copies_suffice** (general form): for every policy that copies every parameter and returns
    fresh slices (whatever the pool flag), from every state that holds no alias, for every call
    sequence with arbitrary scribble steps interleaved:
    1. every API call returns what it returns in the same sequence without the scribble steps;
    2. the final abstract mapping is the same;
    3. the engine still holds no alias;
    4. whichever call comes next, the engine's part of it leaves every existing buffer — the caller's
       own and every buffer returned so far — exactly as it is;
    5. at the end every caller buffer holds exactly what the caller itself wrote into it. -/
theorem C15_copies_suffice (p : Policy) (hp : p.copies = true) (s : State) (hs : s.noRef = true)
    (ops : List Op) :
    (run p s ops).1 = (run p s (unscribbled ops)).1
    ∧ (∀ k, abs (run p s ops).2 k = abs (run p s (unscribbled ops)).2 k)
    ∧ (run p s ops).2.noRef = true
    ∧ (∀ op id, ((run p s ops).2.enter op).live id = true →
        (engine p ((run p s ops).2.enter op) op).2.heap id = ((run p s ops).2.enter op).heap id)
    ∧ (∀ n, (run p s ops).2.heap (.arg n) = callerHeap s ops (.arg n)) := by
  have h := (noRef_iff s).1 hs
  have hr := run_rel hp ops (Rel.refl h)
  exact ⟨hr.1, hr.2.abs, (noRef_iff _).2 hr.2.noRef,
    fun op _ hid => engine_untouched hp (enter_rel hr.2 op op).noRef.pool op hid,
    fun n => run_callerHeap hp n ops h⟩

/-- **C15_noninterference**: under the all-copy policy, for EVERY call sequence from the empty
    database with ARBITRARY scribble steps interleaved, all results and the final `abs` equal those of
    the same sequence with the scribble steps removed; the store never contains a `.ref`; and the
    engine never writes into a caller buffer or into a buffer it has returned (4., 5. above). -/
theorem C15_noninterference (ops : List Op) :
    (run Policy.safe init ops).1 = (run Policy.safe init (unscribbled ops)).1
    ∧ (∀ k, abs (run Policy.safe init ops).2 k = abs (run Policy.safe init (unscribbled ops)).2 k)
    ∧ (run Policy.safe init ops).2.noRef = true
    ∧ (∀ op id, ((run Policy.safe init ops).2.enter op).live id = true →
        (engine Policy.safe ((run Policy.safe init ops).2.enter op) op).2.heap id
          = ((run Policy.safe init ops).2.enter op).heap id)
    ∧ (∀ n, (run Policy.safe init ops).2.heap (.arg n) = callerHeap init ops (.arg n)) :=
  C15_copies_suffice Policy.safe rfl init rfl ops

/-! ### each copy is necessary -/

private def kA : Bytes := ⟨#[97]⟩
private def kB : Bytes := ⟨#[98]⟩
private def v1 : Bytes := ⟨#[1, 1]⟩
private def v2 : Bytes := ⟨#[2, 2]⟩
private def v3 : Bytes := ⟨#[3, 3]⟩

/-- the index keeps the caller's key (btree / skip list on the original code): `Put(a)`, the caller
    reuses the key buffer, `Get(a)` no longer finds the key -/
def wPutKey : List Op := [.put (.arg 0) kA (.arg 1) v1, .scribble (.arg 0) kB, .get (.arg 2) kA]
def wPutValue : List Op := [.put (.arg 0) kA (.arg 1) v1, .scribble (.arg 1) v2, .get (.arg 2) kA]
def wBatchPutKey : List Op := [.bput (.arg 0) kA (.arg 1) v1, .scribble (.arg 0) kB, .bget (.arg 2) kA]
def wBatchPutValue : List Op :=
  [.bput (.arg 0) kA (.arg 1) v1, .scribble (.arg 1) v2, .bcommit, .get (.arg 2) kA]
/-- a repeated `Batch.Put` keeps the caller's value slice: the committed value is whatever the buffer
    holds at commit time -/
def wBatchRewrite : List Op :=
  [.bput (.arg 0) kA (.arg 1) v1, .bput (.arg 0) kA (.arg 1) v2, .scribble (.arg 1) v3, .bcommit, .get (.arg 2) kA]
/-- `Get` hands out engine memory: writing into the result changes the stored value -/
def wGet : List Op :=
  [.put (.arg 0) kA (.arg 1) v1, .get (.arg 2) kA, .scribble (.ret 0) v2, .get (.arg 2) kA]
/-- `Batch.Get` returns the staged record's own slice (original code): writing into the result changes
    what the batch commits -/
def wBatchGet : List Op :=
  [.bput (.arg 0) kA (.arg 1) v1, .bget (.arg 2) kA, .scribble (.ret 0) v2, .bcommit, .get (.arg 2) kA]
/-- repeated `Batch.Put`, commit, then an unrelated `Put` with other buffers — no scribble step at all -/
def wPool : List Op :=
  [.bput (.arg 0) kA (.arg 1) v1, .bput (.arg 0) kA (.arg 1) v2, .bcommit,
   .put (.arg 2) kB (.arg 3) v3, .get (.arg 4) kA]

/-- **C15_needs_copies**: with any single copy / fresh flag flipped to "kept / aliased" (all others
    safe) there is a short call sequence on which a result differs from the scribble-free run. -/
theorem C15_needs_copies :
    differs { Policy.safe with putKeyCopied := false } wPutKey = true
    ∧ differs { Policy.safe with putValueCopied := false } wPutValue = true
    ∧ differs { Policy.safe with batchPutKeyCopied := false } wBatchPutKey = true
    ∧ differs { Policy.safe with batchPutValueCopied := false } wBatchPutValue = true
    ∧ differs { Policy.safe with batchRewriteValueCopied := false } wBatchRewrite = true
    ∧ differs { Policy.safe with getReturnsFresh := false } wGet = true
    ∧ differs { Policy.safe with batchGetReturnsFresh := false } wBatchGet = true := by decide

/-- **C15_pool_writes_caller_memory** (the historical pool defect).  When a repeated `Batch.Put` keeps
    the caller's value slice and the record pool keeps that slice's backing array, then — without any
    scribble step — the caller's value buffer `arg 1`, into which the caller wrote `v2` last, holds
    `v3` at the end: an unrelated `Put` with other buffers wrote into it; and `Get(a)` returns `v3`
    where the all-copy policy returns `v2`.  (The pool flag alone is harmless: `C15_copies_suffice`
    holds whatever `poolMayWriteInto` is, because no alias ever reaches the pool.) -/
theorem C15_pool_writes_caller_memory :
    let p := { Policy.safe with batchRewriteValueCopied := false, poolMayWriteInto := true }
    unscribbled wPool = wPool
    ∧ callerHeap init wPool (.arg 1) = v2
    ∧ (run p init wPool).2.heap (.arg 1) = v3
    ∧ (run p init wPool).1 = [.ok, .ok, .ok, .ok, .val (.ret 0) v3]
    ∧ (run Policy.safe init wPool).1 = [.ok, .ok, .ok, .ok, .val (.ret 0) v2] := by decide

/-! ### non-vacuity -/

/-- the same sequences are harmless under the all-copy policy -/
example : [wPutKey, wPutValue, wBatchPutKey, wBatchPutValue, wBatchRewrite, wGet, wBatchGet, wPool].all
    (fun w => !differs Policy.safe w) = true := by decide

/-- what differs in the three historical cases -/
example : (run { Policy.safe with putKeyCopied := false } init wPutKey).1 = [.ok, .notFound]
    ∧ (run Policy.safe init wPutKey).1 = [.ok, .val (.ret 0) v1] := by decide
example : (run { Policy.safe with batchRewriteValueCopied := false } init wBatchRewrite).1
      = [.ok, .ok, .ok, .val (.ret 0) v3]
    ∧ (run Policy.safe init wBatchRewrite).1 = [.ok, .ok, .ok, .val (.ret 0) v2] := by decide
example : (run { Policy.safe with batchGetReturnsFresh := false } init wBatchGet).1
      = [.ok, .val (.ret 0) v1, .ok, .val (.ret 1) v2]
    ∧ (run Policy.safe init wBatchGet).1 = [.ok, .val (.ret 0) v1, .ok, .val (.ret 1) v1] := by decide

/-- `abs` differs as well (index keeps the caller's key) -/
example : abs (run { Policy.safe with putKeyCopied := false } init wPutKey).2 kA = none
    ∧ abs (run { Policy.safe with putKeyCopied := false } init (unscribbled wPutKey)).2 kA = some v1 := by decide

/-- reusing the key buffer for the next call is enough, no scribble step needed: with the index
    keeping the caller's key, `Put(a); Put(b)` through one buffer loses `a` -/
example :
    let w : List Op := [.put (.arg 0) kA (.arg 1) v1, .put (.arg 0) kB (.arg 1) v2, .get (.arg 2) kA]
    (run { Policy.safe with putKeyCopied := false } init w).1 = [.ok, .ok, .notFound]
    ∧ (run Policy.safe init w).1 = [.ok, .ok, .val (.ret 0) v1] := by decide

/-- a mixed run under the all-copy policy: one key buffer and one value buffer for every call,
    scribbled after each return, results scribbled too -/
example :
    (run Policy.safe init
      [.put (.arg 0) kA (.arg 1) v1, .scribble (.arg 0) v3, .scribble (.arg 1) v3,
       .get (.arg 0) kA, .scribble (.ret 0) v3, .scribble (.arg 0) v3,
       .bput (.arg 0) kA (.arg 1) v2, .scribble (.arg 1) v3, .bput (.arg 0) kB (.arg 1) v1, .scribble (.arg 0) kA,
       .bget (.arg 0) kA, .scribble (.ret 1) v3, .bdel (.arg 0) kB, .bcommit,
       .put (.arg 0) v3 (.arg 1) v3, .get (.arg 0) kA, .get (.arg 0) kB, .delete (.arg 0) kA, .get (.arg 0) kA]).1
    = [.ok, .val (.ret 0) v1, .ok, .ok, .val (.ret 1) v2, .ok, .ok, .ok, .val (.ret 2) v2, .notFound, .ok, .notFound] := by
  decide

example : Policy.safe.copies = true ∧ init.noRef = true := by decide
example : policyOfFlags [] = Policy.safe := by decide
example : policyOfFlags [("putKeyCopied", false)] = { Policy.safe with putKeyCopied := false } := by decide
example : policyOfFlags [("batchRewriteValueCopied", false), ("poolMayWriteInto", true)]
    = { Policy.safe with batchRewriteValueCopied := false, poolMayWriteInto := true } := by decide
/-- the invariant is not trivially true: it fails as soon as a parameter is kept -/
example : (run { Policy.safe with putKeyCopied := false } init wPutKey).2.noRef = false := by decide

end XixiKV.C15

