import XixiKV.Proofs.MergeLeftover

/-!
# C07 / C06 — a Merge starts from an EMPTY merge directory, whatever an earlier attempt left behind

A Merge that died (or abandoned itself) before writing its completion marker leaves a merge directory
WITHOUT a marker behind: any subset of its rewritten data files, with or without its hint file.  `Open`
ignores such a directory (`C07_leftover_removal_crash`).  The NEXT `Merge` must not build on it: it opens
its files in append mode, so whatever survived would sit in front of the new output, and the stale hint
entries would be replayed at adoption (seeded changes C06-r7out4 and C07-r7out1: deleted keys come back).

`C07_merge_ignores_leftover`: in the model — tied to `Merge` by the correspondence runs "second merge over
an unfinished leftover" of C06 and by the crash images of C07 — the complete result of `merge` (every
directory of the world, the database handle, the returned result) is THE SAME whether the merge directory
held arbitrary content `md'` (marker or not, any files, any bytes) or did not exist at all.
-/

namespace XixiKV.C07Leftover
open XixiKV XixiKV.Engine XixiKV.Engine.Leftover XixiKV.Engine.Restart

theorem C07_merge_ignores_leftover (s : St) (db : DB) (order : List Nat) (md' : DirSt) (hdb : s.db = some db) :
    merge ⟨s.world.set (mergeDirName db.dir) md', s.db⟩ order =
    merge ⟨s.world.remove (mergeDirName db.dir), s.db⟩ order := by
  have hne : db.dir ≠ mergeDirName db.dir := (mergeDirName_ne db.dir).symm
  have hA : (s.world.set (mergeDirName db.dir) md').get db.dir = s.world.get db.dir :=
    World.get_set_ne _ _ _ _ hne
  have hB : (s.world.remove (mergeDirName db.dir)).get db.dir = s.world.get db.dir :=
    get_remove_ne _ _ _ hne
  unfold merge withDB
  simp only [hdb, rotate_eq, hA, hB, remove_set_ne _ _ _ _ hne, remove_set_same, remove_remove]

/-- the premise is satisfiable with a NON-EMPTY leftover: an open database next to a merge directory that holds a hint file
and a data file, no marker -/
example : ∃ (s : St) (db : DB) (md' : DirSt), s.db = some db ∧ md'.hint.isSome = true ∧ md'.data.length = 1 ∧ md'.marker.isNone = true ∧
    (⟨s.world.set (mergeDirName db.dir) md', s.db⟩ : St).world.get (mergeDirName db.dir) = some md' :=
  let db : DB := { cfg := default, dir := "d", activeId := 0, index := [], reclaim := 0, total := 0, bytesWrite := 0, batch := none }
  ⟨⟨[("d", DirSt.empty)], some db⟩, db, { DirSt.empty with hint := some ByteArray.empty, data := [(0, ⟨ByteArray.empty, 0⟩)] },
    rfl, rfl, rfl, rfl, World.get_set_self _ _ _⟩

end XixiKV.C07Leftover
