import XixiKV.Proofs.ConcBatchExec
import XixiKV.Proofs.ConcBatchWindow
import XixiKV.Proofs.ConcBatchSafe
import XixiKV.Proofs.ConcBatchHist
import XixiKV.Model.LocksetBatch
/-!
# C08 / C05 / C09 with batches: a committed batch is ONE atomic multi-key write for every
concurrent observer

Model: `XixiKV.ConcBatch` (`Model/ConcBatch.lean`): `DB.Put / DB.Delete / DB.Get` as in
`Model/Conc.lean` (well-locked shape) plus batch sessions `NewBatch · Batch.Put* /
Batch.Delete* · Commit` with EARLY FLUSHES and record-by-record index updates; `DB.Get` =
index read (`Shape.getIdxGated`: inside an R section of `db.mu`, or not) followed by a resolve
step that is enabled only while no writer holds `db.mu`; unbounded threads, arbitrary scheduler.
`recovered log` = replay with parked batches (`Engine.replayRec`).

Premise of the general theorems: `sh.getIdxGated = true ∨ BenignFlushes g.hist`.

* `sh.getIdxGated = true`: `DB.Get` takes `db.mu.RLock()` BEFORE `db.index.Get`.  The generated
  lockset table of the CURRENT tree says it does (`C08B_generated`: `batchShapeOf … = gated`), so
  the `…_code` corollaries below are unconditional.
* `BenignFlushes g.hist`: every flush recorded in the history (early or at commit) wrote no
  tombstone and no key that the rest of the batch touches again.  True without batches; true
  for put-only batches that write every key once (`C08B_linearizable_putonly`); decidable on a
  given history.

Without the premise the statement is FALSE: three executed schedules of the shape `asIs` — the
tree up to e7b2d7b, where `DB.Get` read the index without `db.mu` — (`C08B_needs_gate_delete`,
`C08B_needs_gate_rewrite`, `C08B_needs_gate_torn_commit`), each reproduced on that Go code: a `Get`
of a key deleted by a still OPEN batch returned `ErrKeyNotFound` at once (the miss path of
`DB.Get` never touched `db.mu`), a `Get` returned a value the batch later overwrote (never a
committed value), and a reader saw a committed batch half applied.  The repair ("readers take the
DB read lock before they consult the index") moves the index read of `Get`, the snapshots of
`ListKeys / Fold / NewIterator` and the liveness test of `Merge` under `db.mu.RLock()`.

History convention: `g.hist` is newest-first.
-/
namespace XixiKV.C08B
open XixiKV.ConcBatch XixiKV.Lockset
open XixiKV.Conc (Tid Key Val Res upd updK)

/-! ## the invariants are inductive -/

/-- `Inv0` (mutual exclusion, index vs. recovered log, sequential correctness of staging and
flushing) is inductive for EVERY shape; `InvL` (the history is explained by the specification) is
inductive under the premise. -/
theorem C08B_invariant_inductive (sh : Shape) :
    (Inv0 init ∧ ∀ g g', Inv0 g → Step sh g g' → Inv0 g') ∧
    (InvL sh init ∧ ∀ g g', Inv0 g → InvL sh g → Step sh g g' →
      (sh.getIdxGated = true ∨ BenignFlushes g'.hist) → InvL sh g') :=
  ⟨⟨init_inv0, fun _ _ hI hs => step_inv0 hI hs⟩,
   ⟨init_invL sh, fun _ _ hI hL hs hok => step_invL hI hL hs hok⟩⟩

/-! ## restart agrees with the live index whenever `db.mu` is free -/

/-- In every reachable state (any shape, any batches, any schedule) in which `db.mu` is free, the
live index is exactly what a restart rebuilds from the log with the parked-batch rule, and the
replay leaves no parked record behind (every batch in the log is sealed). -/
theorem C08B_restart_agrees {sh : Shape} {g : G} (hr : Reachable sh g) (hw : g.writer = none) :
    g.idx = recovered g.log ∧ (replayAll g.log).pend = [] :=
  (reachable_inv0 hr).consistent (no_mid_of_free (reachable_inv0 hr) hw)

/-- The live index differs from the recovered one only while some thread holds `db.mu` in the
middle of an update (`DB.Put / DB.Delete` between append and index update, or an open batch). -/
theorem C08B_ahead_only_under_lock {sh : Shape} {g : G} (hr : Reachable sh g)
    (hne : g.idx ≠ recovered g.log) : ∃ t, g.writer = some t ∧ mid (g.pc t) = true := by
  have hI := reachable_inv0 hr
  cases hw : g.writer with
  | none => exact absurd (C08B_restart_agrees hr hw).1 hne
  | some t =>
    refine ⟨t, rfl, ?_⟩
    have hcs : inCS (g.pc t) = true := (hI.lock t).2 hw
    cases hm : mid (g.pc t) with
    | true => rfl
    | false => exact absurd (hI.consistent (no_mid_of_holder hI hcs hm)).1 hne

/-- While a batch is open, a restart recovers exactly the index of the log as it was at `NewBatch`:
the early-flushed records are parked and, without the sealing record, dropped. -/
theorem C05_open_batch_dropped_at_restart {sh : Shape} {g : G} (hr : Reachable sh g) {s : Nat}
    (hs : g.bstart = some s) : recovered g.log = recovered (g.log.take s) := by
  have hI := reachable_inv0 hr
  obtain ⟨t, ht⟩ := hI.bstartF (by rw [hs]; simp)
  have hh := hI.heldF t
  have key : ∀ {ops b s' todo staged rest},
      BatchFacts g.log g.idx g.bstart ops b s' todo staged rest →
      recovered g.log = recovered (g.log.take s) := by
    intro ops b s' todo staged rest bf
    have : s' = s := by have := bf.bs; rw [hs] at this; exact (Option.some.inj this).symm
    subst this
    have := (recovered_append_tagged (g.log.take s') (g.log.drop s') b bf.bne bf.tagged).1
    rwa [List.take_append_drop] at this
  cases hc : g.pc t <;> rw [hc] at ht <;> simp only [isBat] at ht <;> try cases ht
  · rw [hc] at hh; exact key hh.1
  · rw [hc] at hh; exact key hh

/-! ### an executed schedule with an early flush and a waiting `Get`

Thread 0 puts `1 ↦ 10`.  Thread 1 opens a batch `[2 ↦ 20, 3 ↦ 30]`, stages `2 ↦ 20`, FLUSHES EARLY
(record at position 1, index updated).  Thread 2 calls `Get 2`, reads position 1 from the index
and must wait: its resolve step is refused while the batch holds `db.mu`. -/

def put1 : Schedule :=
  [(0, .call (.put 1 10)), (0, .acq), (0, .append), (0, .index), (0, .rel), (0, .ret)]

def earlyFlush : Schedule := put1 ++
  [(1, .call (.batch [(2, some 20), (3, some 30)])), (1, .acq), (1, .stage), (1, .flush),
   (1, .index), (1, .resume), (2, .call (.get 2)), (2, .idxRead)]

/-- … then the batch commits (flush of `3 ↦ 30`, sealing record, unlock) and the `Get` completes -/
def earlyFlushDone : Schedule := earlyFlush ++
  [(1, .commit), (1, .index), (1, .seal), (1, .rel), (2, .resolve), (2, .ret), (1, .ret)]

def aheadState : G := (exec .asIs earlyFlush init).getD init
def doneState : G := (exec .asIs earlyFlushDone init).getD init

theorem aheadState_reachable : Reachable .asIs aheadState := exec_init_reachable (by decide +kernel)
theorem doneState_reachable : Reachable .asIs doneState := exec_init_reachable (by decide +kernel)

/-- the exhibited state of `C08B_ahead_only_under_lock`: after the early flush the index is AHEAD of
the recovered log (key 2 ↦ position 1 live, nothing after a restart), the batch thread holds
`db.mu`, and the `Get` of thread 2 sits on position 1 and cannot resolve it (the same schedule
extended by `2:resolve` is refused) -/
example : aheadState.idx 2 = some 1 ∧ recovered aheadState.log 2 = none ∧
    aheadState.idx ≠ recovered aheadState.log ∧ aheadState.writer = some 1 ∧
    aheadState.log = [.put 1 10 0, .put 2 20 1] ∧
    aheadState.pc 2 = .getFound 2 1 ∧ aheadState.waiters = [(2, 2, 1)] ∧
    exec .asIs (earlyFlush ++ [(2, .resolve)]) init = none :=
  ⟨by decide +kernel, by decide +kernel, fun h => absurd (congrFun h 2) (by decide +kernel),
   by decide +kernel, by decide +kernel, by decide +kernel, by decide +kernel, by decide +kernel⟩

/-- non-vacuity of the whole story (task item 4): after the commit the waiting `Get` returns the
batch's value 20; the log carries the tagged records and the sealing record; live = restart;
the history passes the linearizability checks, with the `Get` linearized right after the batch. -/
example : doneState.log = [.put 1 10 0, .put 2 20 1, .put 3 30 1, .fin 1] ∧
    results doneState = [(0, .ok), (2, .val (some 20)), (1, .ok)] ∧
    doneState.writer = none ∧ BenignFlushes doneState.hist ∧
    ([1, 2, 3].all fun k => doneState.idx k == recovered doneState.log k) = true ∧
    doneState.hist.reverse.drop 4 =
      [.flush 1 [(2, some 20)] [(3, some 30)], .inv 2 (.get 2), .flush 1 [(3, some 30)] [],
       .lin 1 (.batch [(2, some 20), (3, some 30)]) .ok, .lin 2 (.get 2) (.val (some 20)),
       .ret 2 (.val (some 20)), .ret 1 .ok] := by decide +kernel

/-! ## linearizability -/

/-- Every reachable state's ghost history is linearizable w.r.t. the sequential specification in
which a batch is ONE atomic multi-key update applied in issue order at its commit (linearization
points: index update for `Put`/`Delete`, the sealing record — or the release when nothing was
staged — for a batch, the index read for a `Get`, EXCEPT a `Get` that read a position of a still
open batch: it is linearized at that batch's commit, right after the batch):

* per thread the events are `inv op · lin op r · ret r` triples and the results at the
  linearization points are those of the specification (`Linearizable`);
* the specification state reached is `specMap g`: the live mapping while no batch is open, and
  while one is open the mapping a restart would recover — the records of the open batch, flushed
  or not, are in NO result any operation has obtained so far;
* each thread's phase is the one its control state says; in particular
* every `Get` that holds a position of the open batch (`waiters`) is still un-linearized — it has
  not returned and cannot (`Step.getResolve` needs `db.mu` free) before the commit. -/
theorem C08B_linearizable {sh : Shape} {g : G} (hr : Reachable sh g)
    (hok : sh.getIdxGated = true ∨ BenignFlushes g.hist) :
    Linearizable g.hist ∧
    specRun g.hist = some (specMap g) ∧
    (∀ t, phase g.hist t = some (phaseOf g t)) ∧
    (∀ w ∈ g.waiters, ∃ t s, g.writer = some t ∧ isBat (g.pc t) = true ∧ g.bstart = some s ∧
      s ≤ w.2.2 ∧ g.pc w.1 = .getFound w.2.1 w.2.2 ∧
      phase g.hist w.1 = some (.invoked (.get w.2.1))) := by
  have hI := reachable_inv0 hr
  have hL := reachable_invL hr hok
  refine ⟨linearizable_of_invL hL, hL.spec, hL.phases, ?_⟩
  intro w hw
  obtain ⟨hpc, hop⟩ := hI.waitF w hw
  cases hs : g.bstart with
  | none => rw [openPos_false_of_none hs] at hop; cases hop
  | some s =>
    obtain ⟨t, ht⟩ := hI.bstartF (by rw [hs]; simp)
    refine ⟨t, s, (hI.lock t).1 (isBat_inCS ht), ht, rfl, by simpa [openPos, hs] using hop, hpc, ?_⟩
    have hiw : isWaiter g.waiters w.1 = true := by
      simp only [isWaiter, List.any_eq_true, beq_iff_eq]; exact ⟨w, hw, rfl⟩
    rw [hL.phases w.1]
    simp [phaseOf, hpc, phaseOfPC, hiw]

/-- the premise is met by `doneState` (as-is shape, benign flushes), whose history has an early
flush, a `Get` overlapping the commit, and the helping linearization point -/
example : Reachable .asIs doneState ∧ BenignFlushes doneState.hist :=
  ⟨doneState_reachable, by decide +kernel⟩

/-- and by `aheadState`, where the waiter clause is not vacuous -/
example : Reachable .asIs aheadState ∧ BenignFlushes aheadState.hist ∧ aheadState.waiters ≠ [] :=
  ⟨aheadState_reachable, by decide +kernel, by decide +kernel⟩

/-- the gated shape needs no condition on the batches: a batch with a tombstone and a key written
twice across an early flush (`[Delete 1, Put 2 21, Put 1 5]`, flush after the first operation),
a `Get 1` that can only read the index once the batch has released `db.mu` -/
def sGated : Schedule := put1 ++
  [(1, .call (.batch [(1, none), (2, some 21), (1, some 5)])), (2, .call (.get 1)), (1, .acq),
   (1, .stage), (1, .flush), (1, .index), (1, .resume), (1, .stage), (1, .commit), (1, .index),
   (1, .index), (1, .seal), (1, .rel), (2, .idxRead), (2, .resolve), (2, .ret), (1, .ret)]

example : Reachable .gated ((exec .gated sGated init).getD init) ∧ Shape.gated.getIdxGated = true ∧
    ¬ BenignFlushes ((exec .gated sGated init).getD init).hist ∧
    results ((exec .gated sGated init).getD init) = [(0, .ok), (2, .val (some 5)), (1, .ok)] ∧
    ((exec .gated sGated init).getD init).log =
      [.put 1 10 0, .del 1 1, .put 2 21 1, .put 1 5 1, .fin 1] ∧
    -- while the batch holds the lock the index read is refused
    exec .gated (sGated.take 13 ++ [(2, .idxRead)]) init = none :=
  ⟨exec_init_reachable (by decide +kernel), rfl, by decide +kernel, by decide +kernel,
   by decide +kernel, by decide +kernel⟩

/-- Completed operations.  Whenever a return event `ret t r` is in the history of a reachable state
(premise as above), the same thread has — before it, with none of its own call / linearization /
return events in between — a linearization event `lin t op r` with the SAME result, preceded by
the invocation `inv t op`; and `r` is the result the sequential specification (batches atomic)
gives for `op` in the state `m` obtained by running all earlier linearization events in order.
For a `Get` that waited for a batch, the linearization event is the one emitted by the commit. -/
theorem C08B_completed_ops {sh : Shape} {g : G} (hr : Reachable sh g)
    (hok : sh.getIdxGated = true ∨ BenignFlushes g.hist) {t : Tid} {r : Res}
    {h2 h1 : List Ev} (hh : g.hist = h2 ++ .ret t r :: h1) :
    ∃ op hl hm h0 m,
      h1 = hl ++ .lin t op r :: (hm ++ .inv t op :: h0) ∧
      (∀ e ∈ hl, ownEv t e = false) ∧ (∀ e ∈ hm, ownEv t e = false) ∧
      specRun (hm ++ .inv t op :: h0) = some m ∧ (specStep m op).2 = r :=
  completed_ops (C08B_linearizable hr hok).1 hh

/-- the hypothesis is met: `doneState`'s history contains the return of the waiting `Get` with the
batch's value -/
example : ∃ h2 h1, doneState.hist = h2 ++ .ret 2 (.val (some 20)) :: h1 :=
  List.append_of_mem (by decide +kernel)

/-- A static, input-level sufficient condition that does not need the gate (any shape): if every batch
invoked so far consists of `Put`s of pairwise distinct keys, all flushes are benign and the
history is linearizable. -/
theorem C08B_linearizable_putonly {sh : Shape} {g : G} (hr : Reachable sh g)
    (hs : SafeBatches g.hist) :
    BenignFlushes g.hist ∧ Linearizable g.hist ∧ specRun g.hist = some (specMap g) := by
  have hb := (safe_inv hr hs).1
  have h := C08B_linearizable hr (.inr hb)
  exact ⟨hb, h.1, h.2.1⟩

example : Reachable .asIs doneState ∧ SafeBatches doneState.hist :=
  ⟨doneState_reachable, by decide +kernel⟩

/-! ## C05: the partial flush is unobservable -/

/-- Property of the ghost history.  Let the history be `h2 ++ flush t recs rest :: h1` (thread `t`
flushed staged records of its batch; `h1` happened before, `h2` after) and let `h2` contain no
linearization event of `t` (the batch has not committed).  Then

* `t` is still inside its batch and holds `db.mu`;
* the specification state `m` is the same now as at the flush, and it is the state reached by
  `h1` — it contains nothing of the batch;
* every operation that took effect since the flush is a `Get` and obtained `m k`: its result does
  not depend on the flushed records.

(Every operation that RETURNS in `h2` returns the result of its linearization event —
`C08B_linearizable` — which is either such a `Get` or older than the flush.) -/
theorem C05_partial_flush_unobservable {sh : Shape} {g : G} (hr : Reachable sh g)
    (hok : sh.getIdxGated = true ∨ BenignFlushes g.hist)
    {t : Tid} {recs rest : List BOp} {h2 h1 : List Ev}
    (hh : g.hist = h2 ++ .flush t recs rest :: h1) (hopen : ∀ op r, Ev.lin t op r ∉ h2) :
    g.writer = some t ∧ isBat (g.pc t) = true ∧
    ∃ m, specRun h1 = some m ∧ specRun g.hist = some m ∧
      ∀ t' op r, Ev.lin t' op r ∈ h2 → ∃ k, op = .get k ∧ r = .val (m k) := by
  have hI := reachable_inv0 hr
  have hL := reachable_invL hr hok
  obtain ⟨hbat, hq⟩ := reachable_window hr h2 t recs rest h1 hh hopen
  refine ⟨(hI.lock t).1 (isBat_inCS hbat), hbat, specMap g, ?_, hL.spec, ?_⟩
  · have hs := hL.spec
    rw [hh] at hs
    exact (specRun_quiet (h1 := .flush t recs rest :: h1) hq hs).1
  · have hs := hL.spec
    rw [hh] at hs
    exact (specRun_quiet (h1 := .flush t recs rest :: h1) hq hs).2

/-- the hypotheses are met by `aheadState`: its history is `[inv 2 (get 2)] ++ flush 1 … :: h1` and
thread 1 has no linearization event after the flush -/
example : aheadState.hist =
      [.inv 2 (.get 2)] ++ .flush 1 [(2, some 20)] [(3, some 30)] :: aheadState.hist.drop 2 ∧
    ∀ op r, Ev.lin 1 op r ∉ [Ev.inv 2 (.get 2)] :=
  ⟨by decide +kernel, by simp⟩

/-! ## the premise is necessary: three schedules of the tree before the repair

All three run on `Shape.asIs` (what the generated table gave up to e7b2d7b) and were reproduced
on that Go code (`DataFileSize = 4096`, two 2000-byte values force the early flush). -/

/-- 1. An early-flushed DELETE is observable at once.  `1 ↦ 10` is committed; a batch
`[Delete 1, Put 2 20]` is open and has flushed its tombstone early (`db.index.Delete(1)`).
`Get 1` of thread 2 — invoked after `Put 1 10` returned — returns NOT FOUND immediately, while
the batch is uncommitted and holds the lock; a crash now recovers `1 ↦ 10`. -/
def sDelete : Schedule := put1 ++
  [(1, .call (.batch [(1, none), (2, some 20)])), (1, .acq), (1, .stage), (1, .flush), (1, .index),
   (1, .resume), (2, .call (.get 1)), (2, .idxRead), (2, .ret)]

theorem C08B_needs_gate_delete :
    ∃ g, Reachable .asIs g ∧ g.writer = some 1 ∧ isBat (g.pc 1) = true ∧
      results g = [(0, .ok), (2, .val none)] ∧
      valAt g.log (recovered g.log 1) = some 10 ∧
      g.hist.reverse = [.inv 0 (.put 1 10), .lin 0 (.put 1 10) .ok, .ret 0 .ok,
        .inv 1 (.batch [(1, none), (2, some 20)]), .flush 1 [(1, none)] [(2, some 20)],
        .inv 2 (.get 1), .lin 2 (.get 1) (.val none), .ret 2 (.val none)] ∧
      ¬ Linearizable g.hist ∧ ¬ BenignFlushes g.hist :=
  ⟨(exec .asIs sDelete init).getD init, exec_init_reachable (by decide +kernel), by decide +kernel,
   by decide +kernel, by decide +kernel, by decide +kernel, by decide +kernel,
   fun h => absurd h.2 (by decide +kernel), by decide +kernel⟩

/-- 2. A `Get` returns an INTERMEDIATE value of a batch.  The batch `[Put 1 11, Put 2 20, Put 1 12]`
flushes `1 ↦ 11` early; `Get 1` reads that position and waits; the batch writes `1 ↦ 12` and
commits; the `Get` returns 11 — a value key 1 never had in any committed state (10, then 12). -/
def sRewrite : Schedule := put1 ++
  [(1, .call (.batch [(1, some 11), (2, some 20), (1, some 12)])), (1, .acq), (1, .stage),
   (1, .flush), (1, .index), (1, .resume), (2, .call (.get 1)), (2, .idxRead), (1, .stage),
   (1, .commit), (1, .index), (1, .index), (1, .seal), (1, .rel), (2, .resolve), (2, .ret), (1, .ret)]

theorem C08B_needs_gate_rewrite :
    ∃ g, Reachable .asIs g ∧ g.writer = none ∧ (∀ t ∈ [0, 1, 2], g.pc t = .idle) ∧
      results g = [(0, .ok), (2, .val (some 11)), (1, .ok)] ∧
      absMap g 1 = some 12 ∧
      g.log = [.put 1 10 0, .put 1 11 1, .put 2 20 1, .put 1 12 1, .fin 1] ∧
      ¬ Linearizable g.hist ∧ ¬ BenignFlushes g.hist :=
  ⟨(exec .asIs sRewrite init).getD init, exec_init_reachable (by decide +kernel), by decide +kernel,
   by decide +kernel, by decide +kernel, by decide +kernel, by decide +kernel,
   fun h => absurd h.2 (by decide +kernel), by decide +kernel⟩

/-- 3. A TORN read of a commit, with no early flush at all.  `1 ↦ 10`, `2 ↦ 20` are committed; the
batch `[Delete 1, Put 2 21]` commits; between its two index updates thread 2 runs `Get 1` (not
found: the delete is visible, returns at once) and then `Get 2` (reads the OLD position, waits for
the lock, returns the old value 20).  One thread sees the batch applied and then not applied. -/
def sTorn : Schedule := put1 ++
  [(0, .call (.put 2 20)), (0, .acq), (0, .append), (0, .index), (0, .rel), (0, .ret),
   (1, .call (.batch [(1, none), (2, some 21)])), (1, .acq), (1, .stage), (1, .stage), (1, .commit),
   (1, .index), (2, .call (.get 1)), (2, .idxRead), (2, .ret), (2, .call (.get 2)), (2, .idxRead),
   (1, .index), (1, .seal), (1, .rel), (2, .resolve), (2, .ret), (1, .ret)]

theorem C08B_needs_gate_torn_commit :
    ∃ g, Reachable .asIs g ∧ g.writer = none ∧ (∀ t ∈ [0, 1, 2], g.pc t = .idle) ∧
      results g = [(0, .ok), (0, .ok), (2, .val none), (2, .val (some 20)), (1, .ok)] ∧
      absMap g 1 = none ∧ absMap g 2 = some 21 ∧
      ¬ Linearizable g.hist ∧ ¬ BenignFlushes g.hist :=
  ⟨(exec .asIs sTorn init).getD init, exec_init_reachable (by decide +kernel), by decide +kernel,
   by decide +kernel, by decide +kernel, by decide +kernel, by decide +kernel,
   fun h => absurd h.2 (by decide +kernel), by decide +kernel⟩

/-- with the index read of `Get` inside the R section all three schedules are refused at the index
read (the gated shape is the one for which `C08B_linearizable` has no side condition) -/
example : exec .gated sDelete init = none ∧ exec .gated sRewrite init = none ∧
    exec .gated sTorn init = none := by decide +kernel

/-! ## the generated lockset table -/

set_option maxRecDepth 100000 in
/-- What the automaton assumes, checked on the table regenerated from the Go AST:
`DB.Put`/`DB.Delete` have the well-locked shape (`C08`), every log append / index access of
`Batch.Put`, `Batch.Delete`, `Batch.Commit` is in W mode in the section opened by `DB.NewBatch`,
`DB.NewBatch` returns holding W, `Batch.Commit` releases exactly at its returns (after the sealing
append on the success path), `DB.Get` passes an R acquisition before it reads a data file, its
index read and its data-file look-up are in ONE R section, every read of the index content on a
shared handle (`Get`, `Merge`'s liveness test, the snapshots of `ListKeys / Fold / NewIterator`)
is under `db.mu` — and so the shape of the current tree is `gated`. -/
theorem C08B_generated :
    WellLocked Generated.locksetTable ∧ BatchSectionW Generated.locksetTable ∧
    NewBatchHoldsW Generated.locksetTable ∧ CommitReleases Generated.locksetTable ∧
    GetResolveGated Generated.locksetTable ∧ GetOneSection Generated.locksetTable ∧
    IndexReadsLocked Generated.locksetTable ∧
    batchShapeOf Generated.locksetTable = Shape.gated := by decide

/-- the shape flag of the current tree -/
theorem code_gated : (batchShapeOf Generated.locksetTable).getIdxGated = true := by
  rw [C08B_generated.2.2.2.2.2.2.2]; rfl

/-! ## the unconditional statements for the code as it is -/

/-- `C08B_linearizable` for the shape computed from the generated lockset table: no condition on
the batches (tombstones, keys written several times, any number of early flushes). -/
theorem C08B_linearizable_code {g : G} (hr : Reachable (batchShapeOf Generated.locksetTable) g) :
    Linearizable g.hist ∧
    specRun g.hist = some (specMap g) ∧
    (∀ t, phase g.hist t = some (phaseOf g t)) ∧
    g.waiters = [] :=
  have h := C08B_linearizable hr (.inl code_gated)
  ⟨h.1, h.2.1, h.2.2.1, (reachable_invL hr (.inl code_gated)).gatedW code_gated⟩

/-- `C08B_completed_ops` for the code as it is -/
theorem C08B_completed_ops_code {g : G} (hr : Reachable (batchShapeOf Generated.locksetTable) g)
    {t : Tid} {r : Res} {h2 h1 : List Ev} (hh : g.hist = h2 ++ .ret t r :: h1) :
    ∃ op hl hm h0 m,
      h1 = hl ++ .lin t op r :: (hm ++ .inv t op :: h0) ∧
      (∀ e ∈ hl, ownEv t e = false) ∧ (∀ e ∈ hm, ownEv t e = false) ∧
      specRun (hm ++ .inv t op :: h0) = some m ∧ (specStep m op).2 = r :=
  C08B_completed_ops hr (.inl code_gated) hh

/-- `C05_partial_flush_unobservable` for the code as it is: between a flush of an open batch and
its commit nothing takes effect at all — not even a `Get` (`h2` has NO linearization event): every
reader is held off at `db.mu.RLock()` before it can look at the index. -/
theorem C05_partial_flush_unobservable_code {g : G}
    (hr : Reachable (batchShapeOf Generated.locksetTable) g)
    {t : Tid} {recs rest : List BOp} {h2 h1 : List Ev}
    (hh : g.hist = h2 ++ .flush t recs rest :: h1) (hopen : ∀ op r, Ev.lin t op r ∉ h2) :
    g.writer = some t ∧ isBat (g.pc t) = true ∧
    ∃ m, specRun h1 = some m ∧ specRun g.hist = some m ∧
      ∀ t' op r, Ev.lin t' op r ∈ h2 → ∃ k, op = .get k ∧ r = .val (m k) :=
  C05_partial_flush_unobservable hr (.inl code_gated) hh hopen

/-- the hypotheses are met by an executed schedule of the code's shape: the state of `sGated`
(a batch with a tombstone and a rewritten key, flushed early) is reachable, its history contains
the return of the `Get` and the early flush -/
example : Reachable (batchShapeOf Generated.locksetTable) ((exec .gated sGated init).getD init) ∧
    (∃ h2 h1, ((exec .gated sGated init).getD init).hist = h2 ++ .ret 2 (.val (some 5)) :: h1) ∧
    (∃ h2 h1, ((exec .gated sGated init).getD init).hist =
      h2 ++ .flush 1 [(1, none)] [(2, some 21), (1, some 5)] :: h1) := by
  rw [C08B_generated.2.2.2.2.2.2.2]
  exact ⟨exec_init_reachable (by decide +kernel), List.append_of_mem (by decide +kernel),
    List.append_of_mem (by decide +kernel)⟩

/-- the predicates are not vacuous: a `DB.Get` that reads the file before the gate, a `NewBatch`
that releases, a `Commit` that releases before its sealing append are rejected; the `DB.Get` of
the tree before the repair (index read without the lock) gives the shape `asIs` and fails
`IndexReadsLocked` -/
example :
    ¬ GetResolveGated [⟨"DB.Get", 0, "idxGet", .none, 0⟩, ⟨"DB.Get", 1, "readFile", .none, 0⟩,
      ⟨"DB.Get", 2, "acqR", .R, 1⟩, ⟨"DB.Get", 3, "relR", .R, 1⟩, ⟨"DB.Get", 4, "ret", .none, 0⟩] ∧
    ¬ NewBatchHoldsW [⟨"DB.NewBatch", 0, "acqW", .W, 1⟩, ⟨"DB.NewBatch", 1, "relW", .W, 1⟩,
      ⟨"DB.NewBatch", 2, "ret", .none, 0⟩] ∧
    ¬ CommitReleases [⟨"Batch.Commit", 0, "retErr", .W, 1⟩, ⟨"Batch.Commit", 1, "appendAll", .W, 1⟩,
      ⟨"Batch.Commit", 2, "relW", .W, 1⟩, ⟨"Batch.Commit", 3, "append", .none, 0⟩,
      ⟨"Batch.Commit", 4, "ret", .none, 0⟩] ∧
    batchShapeOf [⟨"DB.Get", 0, "idxGet", .none, 0⟩, ⟨"DB.Get", 1, "acqR", .R, 1⟩,
      ⟨"DB.Get", 2, "readFile", .R, 1⟩, ⟨"DB.Get", 3, "relR", .R, 1⟩,
      ⟨"DB.Get", 4, "ret", .none, 0⟩] = Shape.asIs ∧
    ¬ IndexReadsLocked [⟨"DB.Get", 0, "idxGet", .none, 0⟩, ⟨"DB.Get", 1, "acqR", .R, 1⟩,
      ⟨"DB.Get", 2, "readFile", .R, 1⟩, ⟨"DB.Get", 3, "relR", .R, 1⟩,
      ⟨"DB.Get", 4, "ret", .none, 0⟩] := by decide +kernel

end XixiKV.C08B
