import XixiKV.Proofs.EngineMerge.AdoptOpen
import XixiKV.Properties.C02
import XixiKV.Proofs.ConcMerge
import XixiKV.Model.Lockset
import XixiKV.Generated.Skeletons
/-!
# C06 — Merge preserves every value and reclaims the garbage

"Running Merge never changes what any key maps to: not in the live database, not after the restart
that adopts the merged files, and not after any later restart; … Merge either reports an error and
changes no key's value, or after the adopting restart the directory holds only the merged live
records plus post-merge writes, and the temporary merge directory is gone."

Theorems about the executable model: `merge` (`Model/Batch.lean`), `close`, `openDB` with the atomic
`adopt` (`Model/Engine.lean`; `adopt` = all steps of `Model/Adopt.lean` by `adopt_eq_steps`).

`MergeOutW w dir g n gm vis` (defined in `Proofs/EngineMerge`, section "what a successful `Merge`
leaves behind") is the merge-output invariant; `MergeOut w dir g n := ∃ gm vis, MergeOutW …`.

Scope of the "after further writes" part: `Put`, `Delete`, `Sync` after the merge (records with
batch id 0).  Batches committed between a merge and its adoption need, in addition, the freshness
of batch ids (a sealing record written after the merge must not seal records parked before it);
that argument belongs to C04 and is not repeated here.
(Closed in `Properties/C01History.lean`: `C06_mergeOut_stable_batch`, `C06_adopt_after_batches` and the
history theorem `C01_refines_history` cover batch sessions between a merge and its adoption — for
crash-free histories without any freshness hypothesis, since `Merge` only runs when every batch in
the log is sealed.)
-/
namespace XixiKV.C06
open XixiKV XixiKV.Frame XixiKV.Record XixiKV.Index XixiKV.Engine XixiKV.Engine.Restart XixiKV.Engine.MergeP

/-- **C06, `Merge` succeeds.**  Let `db` be open on `s` with the invariant for the ghost directory
    `g`.  For EVERY visiting order of the older files (`order`: any duplicate-free list — Go
    iterates a map, each key once; ids the list omits are visited afterwards in ascending order)
    with file ids inside `uint32`: if `Merge` reports success then

    * the handle is the old one after one rotation (`rotDB`: active id + 1), the invariant holds
      for `g` plus a new empty last file, and NO key changes its value in the live database;
    * the merge directory is `MergeOut` for `nonMergeFileId = old active id + 1`;
    * no directory other than the data directory and its merge directory is touched. -/
theorem C06_merge_establishes (s s' : St) (db : DB) (g : GDir) (order : List Nat)
    (hdb : s.db = some db) (hinv : Inv s db g) (ho : order.Nodup) (hsmall : db.activeId + 1 < 2 ^ 32)
    (hm : merge s order = (s', .ok)) :
    s'.db = some (rotDB db) ∧ Inv s' (rotDB db) (g ++ [(db.activeId + 1, [])]) ∧
    (∀ k, absGet s' (rotDB db) k = absGet s db k) ∧
    MergeOut s'.world db.dir (g ++ [(db.activeId + 1, [])]) (db.activeId + 1) ∧
    (∀ nm, nm ≠ db.dir → nm ≠ mergeDirName db.dir → s'.world.get nm = s.world.get nm) := by
  obtain ⟨h1, h2, h3, h4, _, _, h7⟩ := merge_spec hdb hinv order ho hsmall
  rw [hm] at h1 h2 h3 h4 h7
  exact ⟨h1, h2, h3, h7 rfl, h4⟩

/-- **C06, `Merge` reports an error** (the only error of the model: the rewritten output would reach
    the id of a non-participating file, `ErrMergeFileIDConflict`; a CRC error cannot occur on files
    that match their ghost content).  Then no key changes its value, the invariant holds, and the
    merge directory has NO marker — so it is ignored by every later `Open` (`C07_no_marker_open`)
    and removed by the next `Merge`.  Moreover `Merge` has no third outcome. -/
theorem C06_merge_error_harmless (s : St) (db : DB) (g : GDir) (order : List Nat)
    (hdb : s.db = some db) (hinv : Inv s db g) (ho : order.Nodup) (hsmall : db.activeId + 1 < 2 ^ 32) :
    ((merge s order).2 = .ok ∨ ∃ e, (merge s order).2 = .err e) ∧
    ∀ e, (merge s order).2 = .err e →
      (merge s order).1.db = some (rotDB db) ∧
      Inv (merge s order).1 (rotDB db) (g ++ [(db.activeId + 1, [])]) ∧
      (∀ k, absGet (merge s order).1 (rotDB db) k = absGet s db k) ∧
      (∃ md, (merge s order).1.world.get (mergeDirName db.dir) = some md ∧ md.marker = none) ∧
      Adopt.plan (merge s order).1.world db.dir = none := by
  obtain ⟨h1, h2, h3, _, h5, h6, _⟩ := merge_spec hdb hinv order ho hsmall
  refine ⟨h6, fun e he => ⟨h1, h2, h3, h5 e he, ?_⟩⟩
  obtain ⟨md, hmd, hmk⟩ := h5 e he
  exact plan_none_of_no_marker hmd hmk

/-- **`MergeOut` is stable under later `Put` / `Delete` / `Sync`**: they append plain records to
    files with id ≥ n only and never touch the merge directory.  (Each conclusion also restates
    the invariant for the new ghost directory, so the lemma iterates.) -/
theorem C06_mergeOut_stable (s : St) (db : DB) (g : GDir) (n : Nat) (gm vis : GDir)
    (hdb : s.db = some db) (hinv : Inv s db g) (hmo : MergeOutW s.world db.dir g n gm vis) :
    (∀ k v, 0 < k.size → k.size < 2 ^ 31 → v.size < 2 ^ 31 →
      ∃ db' g', (put s k v).1.db = some db' ∧ db'.dir = db.dir ∧ Inv (put s k v).1 db' g' ∧
        MergeOutW (put s k v).1.world db.dir g' n gm vis) ∧
    (∀ k, 0 < k.size → k.size < 2 ^ 31 →
      ∃ db' g', (delete s k).1.db = some db' ∧ db'.dir = db.dir ∧ Inv (delete s k).1 db' g' ∧
        MergeOutW (delete s k).1.world db.dir g' n gm vis) ∧
    ((syncDB s).1.db = some db ∧ Inv (syncDB s).1 db g ∧ MergeOutW (syncDB s).1.world db.dir g n gm vis) := by
  have hle := hmo.le_active hinv.files
  have hne := mname_ne db.dir
  refine ⟨?_, ?_, ?_⟩
  · intro k v hk0 hk hv
    obtain ⟨db', g0, gf, g', pos, h1, h2, hg, _, hgrow, hinv'⟩ := put_shape hinv hdb k v hk0 hk hv
    refine ⟨db', g', h1, h2, hinv', ?_⟩
    rw [hg] at hmo
    exact hmo.grow hgrow hle rfl (put_get_other s k v db hdb _ hne)
  · intro k hk0 hk
    rcases delete_shape hinv hdb k hk0 hk with h | ⟨db', g0, gf, g', pos, h1, h2, hg, _, hgrow, hinv'⟩
    · rw [h]; exact ⟨db, g, hdb, rfl, hinv, hmo⟩
    · refine ⟨db', g', h1, h2, hinv', ?_⟩
      rw [hg] at hmo
      exact hmo.grow hgrow hle rfl (delete_get_other s k db hdb _ hne)
  · obtain ⟨h1, h2, _, _⟩ := sync_spec hinv hdb
    refine ⟨h1, h2, ?_⟩
    have hw := syncDB_get_other s db hdb _ hne
    exact ⟨by rw [hw]; exact hmo.mdir, hmo.ids, hmo.count, hmo.small, hmo.perm, hmo.live, hmo.hiPlain, hmo.hiNe⟩

/-- **C06, the adopting restart.**  Invariant + `MergeOutW` (right after the merge, or after any
    number of later `Put/Delete/Sync` by `C06_mergeOut_stable`) + positions fit `uint32`
    (`HintFits`, the hint format's own limit).  Then `Close` and `Open` under ANY valid
    configuration succeed and

    * every key maps to what it mapped to before `Close` (`absGet` equal on all keys);
    * the data directory holds exactly the rewritten files (`md.data`, ids `0 … count-1`) followed
      by the original files with id ≥ n, and the hint file; it matches the ghost directory
      `gm ++ hi g n`; the merge directory is gone; no other directory changed;
    * the invariant holds again, for `gm ++ hi g n`; the index IS the replay of that directory;
    * counters: `Open` reads the hint and then scans the files with id ≥ `min(maxFileId, n)`
      — so the last hinted file `maxFid` is scanned AGAIN: its records are counted a second time
      in `total` and, being already indexed, once in `reclaim`.  Precisely: `total` and `reclaim`
      both exceed what a scan-path `Open` of the same directory computes by
      `S = Σ size of the records of the merged files with id ≥ maxFid` (= the records of file
      `maxFid`).  The C17 relation `total = reclaim + liveBytes index` (hence
      `total − reclaim = liveBytes`) still holds; `Stat.Reclaimable` over-reports by `S` until the
      next restart. -/
theorem C06_adopt (s : St) (db : DB) (g : GDir) (n : Nat) (gm vis : GDir) (cfg' : Cfg)
    (hdb : s.db = some db) (hinv : Inv s db g) (hmo : MergeOutW s.world db.dir g n gm vis)
    (hF : HintFits gm) (hcfg : cfg'.Valid) :
    (close s).2 = .ok ∧
    ∃ s' db' d md maxFid, s.world.get db.dir = some d ∧ s.world.get (mergeDirName db.dir) = some md ∧
      openDB (close s).1 db.dir cfg' = (s', .ok) ∧ s'.db = some db' ∧
      db'.dir = db.dir ∧ db'.cfg = cfg' ∧ db'.activeId = db.activeId ∧
      (∀ k, absGet s' db' k = absGet s db k) ∧
      s'.world.get db.dir
        = some ⟨md.data ++ (syncAll d.data).filter (fun x => n ≤ x.1), some (hintBytes gm), d.marker, true⟩ ∧
      Matches (md.data ++ (syncAll d.data).filter (fun x => n ≤ x.1)) (gm ++ hi g n) ∧
      s'.world.get (mergeDirName db.dir) = none ∧
      (∀ nm, nm ≠ db.dir → nm ≠ mergeDirName db.dir → s'.world.get nm = s.world.get nm) ∧
      Inv s' db' (gm ++ hi g n) ∧
      db'.index = (replayLog (logOf (gm ++ hi g n))).index ∧
      db'.total = (replayLog (logOf (gm ++ hi g n))).total + sizeSum (logOf (hi gm maxFid)) ∧
      db'.reclaim = (replayLog (logOf (gm ++ hi g n))).reclaim + sizeSum (logOf (hi gm maxFid)) ∧
      db'.total = db'.reclaim + liveBytes db'.index ∧ db'.total - db'.reclaim = liveBytes db'.index ∧
      (maxFid = 0 ∨ ∃ x ∈ logOf gm, x.2.fid = maxFid) ∧ (∀ x ∈ logOf gm, x.2.fid ≤ maxFid) := by
  obtain ⟨d, hd, hlock, hm⟩ := hinv.dir
  have hclose := close_eq s db d hdb hd
  have hne := mname_ne db.dir
  rw [hclose]
  refine ⟨rfl, ?_⟩
  have hmo' : MergeOutW (s.world.set db.dir { d with data := syncAll d.data, locked := false }) db.dir g n gm vis :=
    ⟨by rw [MergeP.get_set_ne _ _ _ _ hne]; exact hmo.mdir, hmo.ids, hmo.count, hmo.small, hmo.perm, hmo.live,
      hmo.hiPlain, hmo.hiNe⟩
  obtain ⟨md, maxFid, W', hmd, hopen, hWd, hWm, hWo, hmt, hinv', hmax2, hmax1⟩ := open_after_merge
    ⟨s.world.set db.dir { d with data := syncAll d.data, locked := false }, none⟩ db.dir cfg'
    { d with data := syncAll d.data, locked := false } g n db.activeId gm vis rfl hcfg
    (MergeP.get_set_self _ _ _) rfl (Matches_syncAll hm) hinv.asc hinv.recs hinv.active hmo' hF
  rw [MergeP.get_set_ne _ _ _ _ hne] at hmd
  refine ⟨_, _, d, md, maxFid, hd, hmd, hopen, rfl, rfl, rfl, rfl, ?_, hWd, hmt, hWm, ?_, hinv', rfl, rfl, rfl, ?_, ?_,
    hmax2, hmax1⟩
  · intro k
    exact absGet_of_ValRel hinv hinv' (ValRel_merged hmo hinv.asc hinv.recs) k
  · intro nm h1 h2
    rw [hWo nm h1 h2, MergeP.get_set_ne _ _ _ _ h1]
  · exact hinv'.counters
  · rw [hinv'.counters]; omega

/-- **C06, any later restart.**  After the adopting restart the directory has no merge directory,
    so C02 applies: every further `Close`/`Open` (any valid configuration) restores the same
    mapping — now through the scan path, whose counters are the replay's (the excess `S` is gone).
    Together with `C06_adopt`: the mapping before the merge = after the merge = after the adopting
    restart = after the next restart. -/
theorem C06_second_restart (s' : St) (db' : DB) (gnew : GDir) (cfg'' : Cfg)
    (hdb : s'.db = some db') (hinv : Inv s' db' gnew) (hgone : s'.world.get (mergeDirName db'.dir) = none)
    (hcfg : cfg''.Valid) :
    ∃ s'' db'', openDB (close s').1 db'.dir cfg'' = (s'', .ok) ∧ s''.db = some db'' ∧
      (∀ k, absGet s'' db'' k = absGet s' db' k) ∧ Inv s'' db'' gnew ∧
      db''.total = (replayLog (logOf gnew)).total ∧ db''.reclaim = (replayLog (logOf gnew)).reclaim := by
  obtain ⟨_, s'', db'', h1, h2, _, _, _, _, h3, h4, _, h5, h6, _⟩ := C02.C02_restart s' db' gnew cfg'' hdb hinv hgone hcfg
  exact ⟨s'', db'', h1, h2, h3, h4, h5, h6⟩

/-! ## non-vacuity: an executed history

open "d" (file-size limit 70: two records per file), overwrite and delete keys, `Merge`, write
after the merge, `Close`, `Open` (adopts), `Close`, `Open` again. -/

def kb (s : String) : ByteArray := s.toUTF8
def exCfg : Cfg := { fileSize := 70, sync := 0, bps := 0, idx := 0, io := 0, shards := 1 }

def hist0 : St :=
  let s := (openDB St.init "d" exCfg).1
  let s := (put s (kb "a") (kb "1")).1
  let s := (put s (kb "b") (kb "2")).1
  let s := (put s (kb "a") (kb "3")).1
  let s := (put s (kb "c") (kb "4")).1
  let s := (delete s (kb "b")).1
  s

def dump (s : St) : List (String × Option (List UInt8)) :=
  match s.db with
  | none => []
  | some db => ["a", "b", "c", "e"].map (fun k => (k, (absGet s db (kb k)).map (·.data.toList)))

def histMerged : St := (merge hist0 [1, 0]).1
def histAfter : St := (put histMerged (kb "e") (kb "5")).1
def histAdopted : St := (openDB (close histAfter).1 "d" { exCfg with fileSize := 64, idx := 2 }).1
def histAgain : St := (openDB (close histAdopted).1 "d" exCfg).1

def nFiles (s : St) (dir : String) : Option (List Nat) := (s.world.get dir).map (fun d => d.data.map (·.1))

#guard (match (merge hist0 [1, 0]).2 with | .ok => true | _ => false)
#guard dump hist0 == [("a", some [51]), ("b", none), ("c", some [52]), ("e", none)]
#guard dump histMerged == dump hist0
#guard (nFiles hist0 "d").map (·.length) == some 3        -- the history rotated twice
#guard nFiles histMerged "d-merge" == some [0]             -- two live records fit one file
#guard ((histMerged.world.get "d-merge").map (fun d => d.marker.isSome && d.hint.isSome)) == some true
#guard dump histAdopted == [("a", some [51]), ("b", none), ("c", some [52]), ("e", some [53])]
#guard nFiles histAdopted "d" == some [0, 3]                -- merged file 0 + post-merge file 3
#guard nFiles histAdopted "d-merge" == none                 -- the merge directory is gone
#guard dump histAgain == dump histAdopted
-- the counters after the adopting restart: total − reclaim = live bytes; reclaim over-reports
#guard (match histAdopted.db, histAgain.db with
  | some d1, some d2 => d1.total - d1.reclaim == liveBytes d1.index && d2.total - d2.reclaim == liveBytes d2.index
      && d1.index.map (·.2) == d2.index.map (·.2) && d1.reclaim > d2.reclaim && d1.total - d1.reclaim == d2.total - d2.reclaim
  | _, _ => false)
-- an id conflict: with a reader whose file-size limit is too small the output needs ≥ n files
def histConflict : St :=
  let s := (openDB St.init "d" { exCfg with fileSize := 1000 }).1
  let s := (put s (kb "a") (kb "1")).1
  let s := (put s (kb "c") (kb "4")).1
  (openDB (close s).1 "d" { exCfg with fileSize := 1 }).1
#guard (match (merge histConflict [0]).2 with | .err e => e == "mergeids" | _ => false)
#guard dump (merge histConflict [0]).1 == dump histConflict
#guard ((merge histConflict [0]).1.world.get "d-merge").map (·.marker.isSome) == some false

/-- proof-level instance: the one-record example state of C02 -/
example : (merge C02.exSt [0]).2 = .ok →
    MergeOut (merge C02.exSt [0]).1.world "d" (C02.exG ++ [(1, [])]) 1 := by
  intro h
  have := C06_merge_establishes C02.exSt (merge C02.exSt [0]).1 C02.exDB C02.exG [0] rfl C02.exInv (by simp)
    (by decide) (by rw [← h])
  exact this.2.2.2.1
#guard (match (merge C02.exSt [0]).2 with | .ok => true | _ => false)

/-! ## "writes and deletes that race with the merge are kept with their final live outcome":
    all interleavings of concurrent `Put` / `Delete` / `Get` with the merge scan

Model: `Model/ConcMerge.lean` — the clients of `Model/Conc.lean` (any number of threads, arbitrary
scheduler) plus the merging goroutine: `mstart` fixes the boundary `n` (needs `db.mu` free), one
`mvisit` per old record reads the index atomically and rewrites the record iff the index still
points at it, `mfinish` writes the marker.  The log a restart replays after adopting the finished
merge is `out ++ log.drop n`.  (The byte level — files, hint file, adoption steps — is the
sequential part above; this part is about interleavings.) -/

open XixiKV.Conc XixiKV.ConcMerge in
/-- **C06, concurrent.**  In every state reachable under any schedule in which a merge has finished
    and `db.mu` is free — whatever ran during and after the scan — the restart that adopts the merged
    files recovers exactly the live mapping. -/
theorem C06_concurrent_merge {a : GM} {n : Nat} {out : List Rec}
    (h : ReachableM Shape.allTrue true a) (hm : a.m = .done n out) (hw : a.g.writer = none) :
    recovered (adopted a.g n out) = absMap a.g :=
  merge_preserves h hm hw

open XixiKV.Conc XixiKV.ConcMerge in
/-- While the scan is running, or after it was abandoned, nothing is adopted: a restart replays the
    plain log and recovers the live mapping. -/
theorem C06_concurrent_unfinished {a : GM} (h : ReachableM Shape.allTrue true a)
    (hw : a.g.writer = none) : recovered a.g.log = absMap a.g :=
  unfinished_merge_harmless h hw

open XixiKV.Conc XixiKV.ConcMerge in
/-- "the directory holds only the merged live records plus post-merge writes": the rewritten records
    are puts, at most one per key, each copied from an old position, and each is still the live
    record of its key or superseded by a record written after the merge started. -/
theorem C06_concurrent_output {a : GM} (h : ReachableM Shape.allTrue true a) :
    match a.m with
    | .idle => True
    | .scanning n _ out => n ≤ a.g.log.length ∧ OutOK a.g n out
    | .done n out => n ≤ a.g.log.length ∧ OutOK a.g n out :=
  merge_out_ok h

open XixiKV.Conc XixiKV.ConcMerge in
/-- The premise "the boundary is fixed while holding `db.mu`" is necessary: without it a finished
    merge loses an acknowledged write (a Put appends, the merge starts and scans, the Put updates
    the index; live value 10, after adoption the key is gone). -/
theorem C06_merge_needs_lock :
    ∃ a n out, ReachableM Shape.allTrue false a ∧ a.m = .done n out ∧ a.g.writer = none ∧
      (∀ t, a.g.pc t = .idle) ∧ absMap a.g 1 = some 10 ∧ recovered (adopted a.g n out) 1 = none :=
  merge_needs_lock

open XixiKV.Conc XixiKV.ConcMerge in
/-- non-vacuity: a Delete and a Put race with a two-record scan; the rewritten record of key 1 is
    stale and the tombstone written after the start wins; key 2 keeps its post-merge value -/
theorem C06_concurrent_example :
    ∃ a, execM Shape.allTrue true raceSchedule initM = some a ∧
      a.m = .done 2 [.put 2 20, .put 1 10] ∧ a.g.writer = none ∧
      absMap a.g 1 = none ∧ absMap a.g 2 = some 21 ∧
      recovered (adopted a.g 2 [.put 2 20, .put 1 10]) 1 = none ∧
      recovered (adopted a.g 2 [.put 2 20, .put 1 10]) 2 = some 21 :=
  raceSchedule_runs

set_option maxRecDepth 100000 in
/-- In the generated lockset table of the current tree `DB.Merge` reads `olderFiles` (the set of
    files to merge, hence the boundary) in the W section of `db.mu` in which it rotates the active
    file — the premise `startInLock = true` of `C06_concurrent_merge`. -/
theorem C06_generated : Lockset.mergeStartInLock Generated.locksetTable = true := by decide

end XixiKV.C06

