import XixiKV.Proofs.DatatypeStep
/-!
# C19 — the redis-style structures behave like their abstract types and survive restart

*Implementation model* `XixiKV.Datatype.run` (`Model/Datatype.lean`): `datatype/*.go` command by
command over the abstract store `KV` (`get` / `put` / `delete` / ordered atomic `batch`), clock as input.
*Specification* `XixiKV.Datatype.Spec.step` (`Spec/Datatype.lean`): user key ↦ string-with-expiry /
hash / set / deque / sorted set; no versions, no internal keys.

*Simulation relation* `R U M t kv sp` (`Proofs/DatatypeSim.lean`): for every user key `k ∈ U` the
record under `k` is what the specification object at `k` says — nothing; the string record; or the
metadata record with the object's type, size and (lists) window, whose element records *under the
current version* are exactly the object's elements — and no record exists under an internal key
`k ‖ version ‖ …` with `version ≥ t`.  Stale versions, list cells outside the window,
`encodeWithScore` records and keys outside `U` are unconstrained.

## Hypotheses (all explicit; all decidable on the history — `HistOK` has a `Decidable` instance)

(i)   `PrefixFree U`: the user keys of the history lie in a set `U` in which no key is a proper
      prefix of another (`prefixFree_of_same_size`: keys of one length qualify).  Needed:
      `key ‖ version ‖ field` of one user key can *be* another user key — `collision` below.
(ii)  monotone clock: every command runs at a time `now ≥ t`, after which `t := now + 1`; and
      `now < 2^62` ns (so versions and list cells fit their 64-bit fields; year 2116).
      Needed: two incarnations of a key created in the same clock tick share their element
      records — `sameTick` below.
(iii) `ZNoClash M`: sorted-set members lie in a set `M` in which no member is a non-empty byte
      string followed by another member followed by that member's 4-byte length
      (`zNoClash_of_same_size`: members of one length qualify); scores are non-empty texts.
      Needed: inside ONE sorted set the `encodeWithMember` key of such a member IS the
      `encodeWithScore` key of the other — `zclash` below (a defect of the key layout).
(iv)  `StepOK` at every step, on the specification state: the object addressed has fewer than
      `2^32 - 1` elements (`size` is a `uint32`), and `now + ttl < 2^63` for `Set`.

An expired string is absent for every command (`Get` replies `nil` for it: the code's convention);
no hypothesis about expiry or about the bytes of string values is needed: `findMetadata` reads the
expiry first, then compares the type byte, and decodes as metadata only live records of the
requested type (written by `encodeMeta` only), so `Reply.panic` / `Reply.otherErr` are not
reachable under (i).
-/
namespace XixiKV.C19
open XixiKV.Datatype XixiKV.Datatype.Spec

/-- The empty store represents the empty specification state. -/
theorem C19_init (U M : List ByteArray) (t : Nat) : R U M t KV.empty State.empty :=
  R_empty U M t

/-- **One command.**  Under the hypotheses, the model's reply equals the specification's and the
    simulation relation holds again, with the clock bound moved past `now`. -/
theorem C19_refines_step {U M : List ByteArray} (hU : PrefixFree U) (hM : ZNoClash M)
    {t : Nat} {kv : KV} {sp : State} (hR : R U M t kv sp)
    (c : Cmd) (now : Nat) (hc : CmdOK U M c) (ht : t ≤ now) (hnow : now < 2 ^ 62)
    (hok : StepOK sp c now = true) :
    (run c kv now).2 = (Spec.step c sp now).2 ∧
    R U M (now + 1) (run c kv now).1 (Spec.step c sp now).1 :=
  step_refines hU hM hR c now hc ht hnow hok

/-- **C19_refines.**  For every history (commands with their clock values) that satisfies the
    hypotheses, started on the empty store, every reply of the implementation model equals the
    reply of the specification. -/
theorem C19_refines {U M : List ByteArray} (hU : PrefixFree U) (hM : ZNoClash M)
    (h : List (Cmd × Nat)) (hok : HistOK U M 0 State.empty h) :
    (runAll h KV.empty).2 = (Spec.stepAll h State.empty).2 :=
  (hist_refines hU hM h 0 KV.empty State.empty (R_empty U M 0) hok).1

/-- The property's "small key space": user keys of one length, sorted-set members of one length. -/
theorem C19_refines_fixed_width {U M : List ByteArray} (n m : Nat)
    (hU : ∀ k ∈ U, k.size = n) (hM : ∀ x ∈ M, x.size = m)
    (h : List (Cmd × Nat)) (hok : HistOK U M 0 State.empty h) :
    (runAll h KV.empty).2 = (Spec.stepAll h State.empty).2 :=
  C19_refines (prefixFree_of_same_size U n hU) (zNoClash_of_same_size M m hM) h hok

/-- The same from any related pair of states; the relation holds again at the end
    (`endTime t h`: one past the last clock value of `h`). -/
theorem C19_refines_from {U M : List ByteArray} (hU : PrefixFree U) (hM : ZNoClash M)
    {t : Nat} {kv : KV} {sp : State} (hR : R U M t kv sp)
    (h : List (Cmd × Nat)) (hok : HistOK U M t sp h) :
    (runAll h kv).2 = (Spec.stepAll h sp).2 ∧
    R U M (endTime t h) (runAll h kv).1 (Spec.stepAll h sp).1 :=
  hist_refines hU hM h t kv sp hR hok

/-- **C19_restart.**  The relation looks at the store only through `get`: a restart that preserves
    the key ↦ value mapping (C02/C04 of the engine) preserves it, with the same specification state. -/
theorem C19_restart {U M : List ByteArray} {t : Nat} {kv kv' : KV} {sp : State}
    (hR : R U M t kv sp) (hget : ∀ k, kv'.get k = kv.get k) : R U M t kv' sp :=
  R_congr hR hget

/-- History `h₁`, restart, history `h₂`, with the hypotheses on `h₁ ++ h₂`: the replies after the
    restart are those of the specification continuing from where it was — "the whole state is
    unchanged by restart". -/
theorem C19_restart_replies {U M : List ByteArray} (hU : PrefixFree U) (hM : ZNoClash M)
    (h₁ h₂ : List (Cmd × Nat)) (kv' : KV)
    (hrestart : ∀ k, kv'.get k = (runAll h₁ KV.empty).1.get k)
    (hok : HistOK U M 0 State.empty (h₁ ++ h₂)) :
    (runAll h₂ kv').2 = (Spec.stepAll h₂ (Spec.stepAll h₁ State.empty).1).2 := by
  obtain ⟨hok₁, hok₂⟩ := (histOK_append h₁ h₂ 0 State.empty).mp hok
  obtain ⟨_, hR⟩ := hist_refines hU hM h₁ 0 KV.empty State.empty (R_empty U M 0) hok₁
  exact (hist_refines hU hM h₂ _ kv' _ (C19_restart hR hrestart) hok₂).1

/-! ## Satisfiability: concrete histories meet the hypotheses -/

private def k1 : ByteArray := ⟨#[0x6b, 0x31]⟩
private def k2 : ByteArray := ⟨#[0x6b, 0x32]⟩
private def a : ByteArray := ⟨#[0x61]⟩
private def b : ByteArray := ⟨#[0x62]⟩
private def v1 : ByteArray := ⟨#[1, 2, 3]⟩
private def v2 : ByteArray := ⟨#[9]⟩
private def s15 : Score := "1.5".toUTF8
private def sm2 : Score := "-2".toUTF8

/-- all five types on two keys, deletion and re-creation with another type, an expiring string -/
private def demo : List (Cmd × Nat) := [
  (.hset k1 a v1, 10), (.hset k1 a v2, 11), (.hset k1 b .empty, 12), (.hget k1 a, 13), (.hget k1 b, 14),
  (.hdel k1 a, 15), (.hget k1 a, 16), (.type k1, 17), (.sadd k1 a, 18),
  (.del k1, 19), (.hget k1 b, 20), (.sadd k1 a, 21), (.sadd k1 a, 22), (.sadd k1 b, 23), (.srem k1 a, 24),
  (.sismember k1 a, 25), (.sismember k1 b, 26),
  (.del k1, 27), (.rpush k1 a, 28), (.rpush k1 b, 29), (.lpush k1 v1, 30), (.rpop k1, 31), (.lpop k1, 32),
  (.lpop k1, 33), (.lpop k1, 34), (.lpush k1 v2, 35), (.rpop k1, 36),
  (.set k1 (some v1) 0, 37), (.get k1, 38), (.lpop k1, 39),
  (.zadd k2 s15 a, 40), (.zadd k2 s15 a, 41), (.zadd k2 sm2 a, 42), (.zscore k2 a, 43), (.zscore k2 b, 44),
  (.set k2 (some v2) 1, 45), (.get k2, 46), (.set k2 (some v1) 0, 47), (.del k2, 48), (.zscore k2 a, 49)]

example : PrefixFree [k1, k2] := by decide
example : ZNoClash [a, b] := by decide
set_option maxRecDepth 100000 in
example : HistOK [k1, k2] [a, b] 0 State.empty demo := by decide

set_option maxRecDepth 100000 in
/-- the theorem applies to `demo` … -/
example : (runAll demo KV.empty).2 = (Spec.stepAll demo State.empty).2 :=
  C19_refines (U := [k1, k2]) (M := [a, b]) (by decide) (by decide) demo (by decide)

/-- … and these are the replies -/
example : (Spec.stepAll demo State.empty).2 = [
    .flag true, .flag false, .flag true, .bytes v2, .nil, .flag true, .notFound, .size 1, .wrongType,
    .ok, .nil, .flag true, .flag false, .flag true, .flag true, .flag false, .flag true,
    .ok, .size 1, .size 2, .size 3, .bytes b, .bytes v1, .bytes a, .nil, .size 1, .bytes v2,
    .ok, .bytes v1, .wrongType,
    .flag true, .flag false, .flag false, .score sm2, .notFound,
    .ok, .nil, .ok, .ok, .score "-1".toUTF8] := by decide

#guard (runAll demo KV.empty).2 == (Spec.stepAll demo State.empty).2

set_option maxRecDepth 100000 in
/-- restart in the middle of `demo` (after the 20th command), into any store with the same mapping -/
example (kv' : KV) (hrestart : ∀ k, kv'.get k = (runAll (demo.take 20) KV.empty).1.get k) :
    (runAll (demo.drop 20) kv').2
      = (Spec.stepAll (demo.drop 20) (Spec.stepAll (demo.take 20) State.empty).1).2 :=
  C19_restart_replies (U := [k1, k2]) (M := [a, b]) (by decide) (by decide) _ _ kv' hrestart
    (by rw [List.take_append_drop]; decide)

/-- expired strings are absent for `Type` and for every other type (created afresh under the key);
    a live string — whatever its bytes, here "你好世界", twelve bytes ≥ 0x80 — is WRONGTYPE for them -/
private def cjk : ByteArray := "你好世界".toUTF8
private def demoExp : List (Cmd × Nat) := [
  (.set k1 (some v1) 1, 5), (.get k1, 7), (.type k1, 8), (.hget k1 a, 9), (.hset k1 a v2, 10), (.type k1, 11),
  (.hget k1 a, 12), (.set k1 (some cjk) 1, 13), (.sadd k1 a, 15), (.sismember k1 a, 16),
  (.set k1 (some v1) 1, 17), (.rpush k1 b, 19), (.lpop k1, 20), (.set k1 (some v1) 1, 21),
  (.zadd k1 s15 a, 23), (.zscore k1 a, 24),
  (.set k2 (some cjk) 0, 25), (.hset k2 a v1, 26), (.sadd k2 a, 27), (.lpush k2 a, 28), (.zadd k2 s15 a, 29),
  (.zscore k2 a, 30), (.type k2, 31), (.get k2, 32)]

set_option maxRecDepth 100000 in
example : HistOK [k1, k2] [a, b] 0 State.empty demoExp := by decide

set_option maxRecDepth 100000 in
example : (Spec.stepAll demoExp State.empty).2 = [
    .ok, .nil, .notFound, .nil, .flag true, .size 1, .bytes v2, .ok, .flag true, .flag true,
    .ok, .size 1, .bytes b, .ok, .flag true, .score s15,
    .ok, .wrongType, .wrongType, .wrongType, .wrongType, .wrongType, .size 0, .bytes cjk] := by decide

#guard (runAll demoExp KV.empty).2 == (Spec.stepAll demoExp State.empty).2

/-! ## Each hypothesis is needed: histories on which model (= the Go code) and specification differ -/

/-- (i) `k1 ‖ le64 5 ‖ a` — the internal key of field `a` of the hash `k1` created at time 5 — used
    as a user key: `Set` on it overwrites the field, `HGet k1 a` returns the string record. -/
private def kc : ByteArray := hashKey k1 5 a
private def collision : List (Cmd × Nat) := [(.hset k1 a v1, 5), (.set kc (some v2) 0, 6), (.hget k1 a, 7)]

example : ¬ PrefixFree [k1, kc] := by decide
#guard (runAll collision KV.empty).2 == [.flag true, .ok, .bytes ⟨#[0, 0, 9]⟩]
#guard (Spec.stepAll collision State.empty).2 == [.flag true, .ok, .bytes v1]

/-- (ii) deletion and re-creation in the same clock tick: the new incarnation gets the old version
    and inherits the old fields. -/
private def sameTick : List (Cmd × Nat) :=
  [(.hset k1 a v1, 5), (.del k1, 5), (.hset k1 b v2, 5), (.hget k1 a, 6)]

example : ¬ HistOK [k1] [] 0 State.empty sameTick := by decide
#guard (runAll sameTick KV.empty).2 == [.flag true, .ok, .flag true, .bytes v1]
#guard (Spec.stepAll sameTick State.empty).2 == [.flag true, .ok, .flag true, .notFound]

/-- (iii) inside one sorted set: member `"1" ‖ a ‖ le32 1` was never added, but its member key is
    the score key of `(1, a)`: `ZScore` finds the nil value and parses it as `0`; `ZAdd` reports it
    as existing and does not count it. -/
private def mc : ByteArray := "1".toUTF8 ++ a ++ le32 1
private def zclash : List (Cmd × Nat) :=
  [(.zadd k1 "1".toUTF8 a, 5), (.zadd k1 "2".toUTF8 b, 6), (.zscore k1 mc, 7), (.zadd k1 "5".toUTF8 mc, 8)]

example : ¬ ZNoClash [a, b, mc] := by decide
#guard (runAll zclash KV.empty).2 == [.flag true, .flag true, .score "0".toUTF8, .flag false]
#guard (Spec.stepAll zclash State.empty).2 == [.flag true, .flag true, .notFound, .flag true]

end XixiKV.C19

