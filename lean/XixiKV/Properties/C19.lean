import XixiKV.Proofs.DatatypeStep
import XixiKV.Proofs.TransEq4
/-!
# C19 — the redis-style structures behave like their abstract types and survive restart

*Implementation model* `XixiKV.Datatype.run` (`Model/Datatype.lean`): `datatype/*.go` command by
command over the abstract store `KV` (`get` / `put` / `delete` / ordered atomic `batch`), clock as input.
*Specification* `XixiKV.Datatype.Spec.step` (`Spec/Datatype.lean`): user key ↦ string-with-expiry /
hash / set / deque / sorted set; no versions, no internal keys.

*Simulation relation* `R U M t kv sp` (`Proofs/DatatypeSim.lean`): for every user key `k ∈ U` the
record under `k` is what the specification object at `k` says — nothing; the string record; or the
metadata record with the object's type, size and (lists) window, whose element records *under the
current version* are exactly the object's elements — and no record exists under an internal key
`k ‖ version ‖ …` with `version ≥ t`.  Stale versions, list cells outside the window,
`encodeWithScore` records and keys outside `U` are unconstrained.

## Hypotheses (all explicit; all decidable on the history — `HistOK` has a `Decidable` instance)

(i)   `PrefixFree U`: the user keys of the history lie in a set `U` in which no key is a proper
      prefix of another (`prefixFree_of_same_size`: keys of one length qualify).  Needed:
      `key ‖ version ‖ field` of one user key can *be* another user key — `collision` below.
(ii)  monotone clock: every command runs at a time `now ≥ t`, after which `t := now + 1`; and
      `now < 2^62` ns (so versions and list cells fit their 64-bit fields; year 2116).
      Needed: two incarnations of a key created in the same clock tick share their element
      records — `sameTick` below.
(iii) `ZNoClash M`: sorted-set members lie in a set `M` in which no member is a non-empty byte
      string followed by another member followed by that member's 4-byte length
      (`zNoClash_of_same_size`: members of one length qualify); scores are non-empty texts.
      Needed: inside ONE sorted set the `encodeWithMember` key of such a member IS the
      `encodeWithScore` key of the other — `zclash` below (a defect of the key layout).
(iv)  `StepOK` at every step, on the specification state: the object addressed has fewer than
      `2^32 - 1` elements (`size` is a `uint32`), and `now + ttl < 2^63` for `Set`.

An expired string is absent for every command (`Get` replies `nil` for it: the code's convention);
no hypothesis about expiry or about the bytes of string values is needed: `findMetadata` reads the
expiry first, then compares the type byte, and decodes as metadata only live records of the
requested type (written by `encodeMeta` only), so `Reply.panic` / `Reply.otherErr` are not
reachable under (i).
-/
namespace XixiKV.C19
open XixiKV.Datatype XixiKV.Datatype.Spec

/-- The empty store represents the empty specification state. -/
theorem C19_init (U M : List ByteArray) (t : Nat) : R U M t KV.empty State.empty :=
  R_empty U M t

/-- **One command.**  Under the hypotheses, the model's reply equals the specification's and the
    simulation relation holds again, with the clock bound moved past `now`. -/
theorem C19_refines_step {U M : List ByteArray} (hU : PrefixFree U) (hM : ZNoClash M)
    {t : Nat} {kv : KV} {sp : State} (hR : R U M t kv sp)
    (c : Cmd) (now : Nat) (hc : CmdOK U M c) (ht : t ≤ now) (hnow : now < 2 ^ 62)
    (hok : StepOK sp c now = true) :
    (run c kv now).2 = (Spec.step c sp now).2 ∧
    R U M (now + 1) (run c kv now).1 (Spec.step c sp now).1 :=
  step_refines hU hM hR c now hc ht hnow hok

/-- **C19_refines.**  For every history (commands with their clock values) that satisfies the
    hypotheses, started on the empty store, every reply of the implementation model equals the
    reply of the specification. -/
theorem C19_refines {U M : List ByteArray} (hU : PrefixFree U) (hM : ZNoClash M)
    (h : List (Cmd × Nat)) (hok : HistOK U M 0 State.empty h) :
    (runAll h KV.empty).2 = (Spec.stepAll h State.empty).2 :=
  (hist_refines hU hM h 0 KV.empty State.empty (R_empty U M 0) hok).1

/-- The property's "small key space": user keys of one length, sorted-set members of one length. -/
theorem C19_refines_fixed_width {U M : List ByteArray} (n m : Nat)
    (hU : ∀ k ∈ U, k.size = n) (hM : ∀ x ∈ M, x.size = m)
    (h : List (Cmd × Nat)) (hok : HistOK U M 0 State.empty h) :
    (runAll h KV.empty).2 = (Spec.stepAll h State.empty).2 :=
  C19_refines (prefixFree_of_same_size U n hU) (zNoClash_of_same_size M m hM) h hok

/-- The same from any related pair of states; the relation holds again at the end
    (`endTime t h`: one past the last clock value of `h`). -/
theorem C19_refines_from {U M : List ByteArray} (hU : PrefixFree U) (hM : ZNoClash M)
    {t : Nat} {kv : KV} {sp : State} (hR : R U M t kv sp)
    (h : List (Cmd × Nat)) (hok : HistOK U M t sp h) :
    (runAll h kv).2 = (Spec.stepAll h sp).2 ∧
    R U M (endTime t h) (runAll h kv).1 (Spec.stepAll h sp).1 :=
  hist_refines hU hM h t kv sp hR hok

/-- **C19_restart.**  The relation looks at the store only through `get`: a restart that preserves
    the key ↦ value mapping (C02/C04 of the engine) preserves it, with the same specification state. -/
theorem C19_restart {U M : List ByteArray} {t : Nat} {kv kv' : KV} {sp : State}
    (hR : R U M t kv sp) (hget : ∀ k, kv'.get k = kv.get k) : R U M t kv' sp :=
  R_congr hR hget

/-- History `h₁`, restart, history `h₂`, with the hypotheses on `h₁ ++ h₂`: the replies after the
    restart are those of the specification continuing from where it was — "the whole state is
    unchanged by restart". -/
theorem C19_restart_replies {U M : List ByteArray} (hU : PrefixFree U) (hM : ZNoClash M)
    (h₁ h₂ : List (Cmd × Nat)) (kv' : KV)
    (hrestart : ∀ k, kv'.get k = (runAll h₁ KV.empty).1.get k)
    (hok : HistOK U M 0 State.empty (h₁ ++ h₂)) :
    (runAll h₂ kv').2 = (Spec.stepAll h₂ (Spec.stepAll h₁ State.empty).1).2 := by
  obtain ⟨hok₁, hok₂⟩ := (histOK_append h₁ h₂ 0 State.empty).mp hok
  obtain ⟨_, hR⟩ := hist_refines hU hM h₁ 0 KV.empty State.empty (R_empty U M 0) hok₁
  exact (hist_refines hU hM h₂ _ kv' _ (C19_restart hR hrestart) hok₂).1

/-! ## Satisfiability: concrete histories meet the hypotheses -/

private def k1 : ByteArray := ⟨#[0x6b, 0x31]⟩
private def k2 : ByteArray := ⟨#[0x6b, 0x32]⟩
private def a : ByteArray := ⟨#[0x61]⟩
private def b : ByteArray := ⟨#[0x62]⟩
private def v1 : ByteArray := ⟨#[1, 2, 3]⟩
private def v2 : ByteArray := ⟨#[9]⟩
private def s15 : Score := "1.5".toUTF8
private def sm2 : Score := "-2".toUTF8

/-- all five types on two keys, deletion and re-creation with another type, an expiring string -/
private def demo : List (Cmd × Nat) := [
  (.hset k1 a v1, 10), (.hset k1 a v2, 11), (.hset k1 b .empty, 12), (.hget k1 a, 13), (.hget k1 b, 14),
  (.hdel k1 a, 15), (.hget k1 a, 16), (.type k1, 17), (.sadd k1 a, 18),
  (.del k1, 19), (.hget k1 b, 20), (.sadd k1 a, 21), (.sadd k1 a, 22), (.sadd k1 b, 23), (.srem k1 a, 24),
  (.sismember k1 a, 25), (.sismember k1 b, 26),
  (.del k1, 27), (.rpush k1 a, 28), (.rpush k1 b, 29), (.lpush k1 v1, 30), (.rpop k1, 31), (.lpop k1, 32),
  (.lpop k1, 33), (.lpop k1, 34), (.lpush k1 v2, 35), (.rpop k1, 36),
  (.set k1 (some v1) 0, 37), (.get k1, 38), (.lpop k1, 39),
  (.zadd k2 s15 a, 40), (.zadd k2 s15 a, 41), (.zadd k2 sm2 a, 42), (.zscore k2 a, 43), (.zscore k2 b, 44),
  (.set k2 (some v2) 1, 45), (.get k2, 46), (.set k2 (some v1) 0, 47), (.del k2, 48), (.zscore k2 a, 49)]

example : PrefixFree [k1, k2] := by decide
example : ZNoClash [a, b] := by decide
set_option maxRecDepth 100000 in
example : HistOK [k1, k2] [a, b] 0 State.empty demo := by decide

set_option maxRecDepth 100000 in
/-- the theorem applies to `demo` … -/
example : (runAll demo KV.empty).2 = (Spec.stepAll demo State.empty).2 :=
  C19_refines (U := [k1, k2]) (M := [a, b]) (by decide) (by decide) demo (by decide)

/-- … and these are the replies -/
example : (Spec.stepAll demo State.empty).2 = [
    .flag true, .flag false, .flag true, .bytes v2, .nil, .flag true, .notFound, .size 1, .wrongType,
    .ok, .nil, .flag true, .flag false, .flag true, .flag true, .flag false, .flag true,
    .ok, .size 1, .size 2, .size 3, .bytes b, .bytes v1, .bytes a, .nil, .size 1, .bytes v2,
    .ok, .bytes v1, .wrongType,
    .flag true, .flag false, .flag false, .score sm2, .notFound,
    .ok, .nil, .ok, .ok, .score "-1".toUTF8] := by decide

#guard (runAll demo KV.empty).2 == (Spec.stepAll demo State.empty).2

set_option maxRecDepth 100000 in
/-- restart in the middle of `demo` (after the 20th command), into any store with the same mapping -/
example (kv' : KV) (hrestart : ∀ k, kv'.get k = (runAll (demo.take 20) KV.empty).1.get k) :
    (runAll (demo.drop 20) kv').2
      = (Spec.stepAll (demo.drop 20) (Spec.stepAll (demo.take 20) State.empty).1).2 :=
  C19_restart_replies (U := [k1, k2]) (M := [a, b]) (by decide) (by decide) _ _ kv' hrestart
    (by rw [List.take_append_drop]; decide)

/-- expired strings are absent for `Type` and for every other type (created afresh under the key);
    a live string — whatever its bytes, here "你好世界", twelve bytes ≥ 0x80 — is WRONGTYPE for them -/
private def cjk : ByteArray := "你好世界".toUTF8
private def demoExp : List (Cmd × Nat) := [
  (.set k1 (some v1) 1, 5), (.get k1, 7), (.type k1, 8), (.hget k1 a, 9), (.hset k1 a v2, 10), (.type k1, 11),
  (.hget k1 a, 12), (.set k1 (some cjk) 1, 13), (.sadd k1 a, 15), (.sismember k1 a, 16),
  (.set k1 (some v1) 1, 17), (.rpush k1 b, 19), (.lpop k1, 20), (.set k1 (some v1) 1, 21),
  (.zadd k1 s15 a, 23), (.zscore k1 a, 24),
  (.set k2 (some cjk) 0, 25), (.hset k2 a v1, 26), (.sadd k2 a, 27), (.lpush k2 a, 28), (.zadd k2 s15 a, 29),
  (.zscore k2 a, 30), (.type k2, 31), (.get k2, 32)]

set_option maxRecDepth 100000 in
example : HistOK [k1, k2] [a, b] 0 State.empty demoExp := by decide

set_option maxRecDepth 100000 in
example : (Spec.stepAll demoExp State.empty).2 = [
    .ok, .nil, .notFound, .nil, .flag true, .size 1, .bytes v2, .ok, .flag true, .flag true,
    .ok, .size 1, .bytes b, .ok, .flag true, .score s15,
    .ok, .wrongType, .wrongType, .wrongType, .wrongType, .wrongType, .size 0, .bytes cjk] := by decide

#guard (runAll demoExp KV.empty).2 == (Spec.stepAll demoExp State.empty).2

/-! ## Each hypothesis is needed: histories on which model (= the Go code) and specification differ -/

/-- (i) `k1 ‖ le64 5 ‖ a` — the internal key of field `a` of the hash `k1` created at time 5 — used
    as a user key: `Set` on it overwrites the field, `HGet k1 a` returns the string record. -/
private def kc : ByteArray := hashKey k1 5 a
private def collision : List (Cmd × Nat) := [(.hset k1 a v1, 5), (.set kc (some v2) 0, 6), (.hget k1 a, 7)]

example : ¬ PrefixFree [k1, kc] := by decide
#guard (runAll collision KV.empty).2 == [.flag true, .ok, .bytes ⟨#[0, 0, 9]⟩]
#guard (Spec.stepAll collision State.empty).2 == [.flag true, .ok, .bytes v1]

/-- (ii) deletion and re-creation in the same clock tick: the new incarnation gets the old version
    and inherits the old fields. -/
private def sameTick : List (Cmd × Nat) :=
  [(.hset k1 a v1, 5), (.del k1, 5), (.hset k1 b v2, 5), (.hget k1 a, 6)]

example : ¬ HistOK [k1] [] 0 State.empty sameTick := by decide
#guard (runAll sameTick KV.empty).2 == [.flag true, .ok, .flag true, .bytes v1]
#guard (Spec.stepAll sameTick State.empty).2 == [.flag true, .ok, .flag true, .notFound]

/-- (iii) inside one sorted set: member `"1" ‖ a ‖ le32 1` was never added, but its member key is
    the score key of `(1, a)`: `ZScore` finds the nil value and parses it as `0`; `ZAdd` reports it
    as existing and does not count it. -/
private def mc : ByteArray := "1".toUTF8 ++ a ++ le32 1
private def zclash : List (Cmd × Nat) :=
  [(.zadd k1 "1".toUTF8 a, 5), (.zadd k1 "2".toUTF8 b, 6), (.zscore k1 mc, 7), (.zadd k1 "5".toUTF8 mc, 8)]

example : ¬ ZNoClash [a, b, mc] := by decide
#guard (runAll zclash KV.empty).2 == [.flag true, .flag true, .score "0".toUTF8, .flag false]
#guard (Spec.stepAll zclash State.empty).2 == [.flag true, .flag true, .notFound, .flag true]

/-! ## The codecs as they stand in /repo (translated from `datatype/meta.go`, `types.go` on every run)

The model functions `encodeMeta`, `decodeMeta`, `hashKey`, `setKey`, `listKey`, `zmemKey`, `zscoreKey`,
`encodeStr` and the decoding part of `get`, on which the refinement above rests, are not only mirrored by hand
and tested differentially: `harness/cmd/trans` regenerates Lean definitions from the Go source of the
corresponding functions on every run (`Generated/Trans.lean`, namespace `Generated.Trans.datatype`), and
`Proofs/TransEq4.lean` proves them equal to the model functions on the machine ranges.  The receiver's fields
are separate arguments of the generated definitions; `int64` fields (`expire`, `version`) are compared on
`0 ≤ · < 2^63` (the model keeps them as `Nat`). -/

/-- **the metadata codec as it stands in /repo.**
    (1) `(*metadata).encode` = `encodeMeta` for every field value in its machine range
        (`expire`, `version`: non-negative `int64`; `size`: `uint32`; `head`, `tail`: `uint64`);
    (2) `decodeMetadata` returns what the model decodes whenever the model decodes at all (`decodeMeta buf = none`
        iff the record is empty — Go panics at `buf[0]` — or one of the varints read overflows or is negative —
        Go goes on with garbage numbers or panics on a negative slice index, `metaDecodePanics`);
    (3) in particular the translated decoder reads back what the translated encoder writes, for every valid `Meta`;
    (4) the byte counts / error codes `n` of the translated `binary.Uvarint`, from which the Go code computes the
        slice indices, are the model's `uvarintLen`, from which `metaDecodePanics` is computed — on every input. -/
theorem C19_translated_meta_codec :
    (∀ m : Meta, m.expire < 2^63 → m.version < 2^63 → m.size < 2^32 → m.head < 2^64 → m.tail < 2^64 →
        Generated.Trans.datatype.metadata_encode m.dataType.toNat (m.expire : Int) (m.version : Int) m.size m.head m.tail
          = encodeMeta m) ∧
    (∀ (buf : ByteArray) (m : Meta), decodeMeta buf = some m →
        Generated.Trans.datatype.decodeMetadata buf = TransEq.goMeta m) ∧
    (∀ m : Meta, m.Valid →
        Generated.Trans.datatype.decodeMetadata
          (Generated.Trans.datatype.metadata_encode m.dataType.toNat (m.expire : Int) (m.version : Int) m.size m.head m.tail)
          = TransEq.goMeta m) ∧
    (∀ b : ByteArray, (Generated.Trans.binary_Uvarint b).2 = uvarintLen b.data.toList) :=
  ⟨fun m he hv hs hh ht => TransEq.trans_metadata_encode_eq m he hv hs hh ht,
   fun buf m h => TransEq.trans_decodeMetadata_eq buf m h,
   fun m h => TransEq.trans_decodeMetadata_encode m h,
   fun b => TransEq.Uvarint_len b⟩

/-- non-vacuity: the metadata of a two-element list created at time 300 is valid, and this is what the
    translated encoder / decoder do with it -/
private def mList : Meta :=
  { dataType := tList, expire := 0, version := 300, size := 2, head := initialListMark - 1, tail := initialListMark + 1 }
example : mList.Valid := ⟨by decide, by decide, by decide, by decide, by decide, by decide⟩
example : Generated.Trans.datatype.metadata_encode 3 0 300 2 (2^63 - 2) (2^63) = encodeMeta mList :=
  C19_translated_meta_codec.1 mList (by decide) (by decide) (by decide) (by decide) (by decide)
example : Generated.Trans.datatype.decodeMetadata (Generated.Trans.datatype.metadata_encode 3 0 300 2 (2^63 - 2) (2^63))
    = { dataType := 3, expire := 0, version := 300, size := 2, head := 2^63 - 2, tail := 2^63 } :=
  C19_translated_meta_codec.2.2.1 mList ⟨by decide, by decide, by decide, by decide, by decide, by decide⟩
#guard Generated.Trans.datatype.metadata_encode 3 0 300 2 (2^63 - 2) (2^63)
  = ⟨#[3, 0, 0xd8, 0x04, 4, 0xfe, 0xff, 0xff, 0xff, 0xff, 0xff, 0xff, 0xff, 0x7f, 0x80, 0x80, 0x80, 0x80, 0x80, 0x80, 0x80, 0x80, 0x80, 0x01]⟩

/-- **the five internal-key encoders as they stand in /repo** equal `hashKey`, `setKey`, `listKey`, `zmemKey`,
    `zscoreKey` for keys / fields / members / score texts shorter than 2^60 bytes (`len` is an `int`; the sum of
    the lengths must not wrap), versions that are non-negative `int64`s and every list index (the argument type
    of the generated definition is `Nat`, the field is a `uint64`; `le64` writes its low 8 bytes).  The score text
    `utils.Float64ToBytes(zk.score)` is an abstract parameter of the translation (floats are not translated):
    the equality holds for every byte string in its place. -/
theorem C19_translated_internal_keys :
    (∀ (key field : ByteArray) (version : Nat), key.size < 2^60 → field.size < 2^60 → version < 2^63 →
        Generated.Trans.datatype.hashInternalKey_encode key (version : Int) field = hashKey key version field) ∧
    (∀ (key member : ByteArray) (version : Nat), key.size < 2^60 → member.size < 2^60 → version < 2^63 →
        Generated.Trans.datatype.setInternalKey_encode key (version : Int) member = setKey key version member) ∧
    (∀ (key : ByteArray) (version index : Nat), key.size < 2^60 → version < 2^63 →
        Generated.Trans.datatype.listInternalKey_encode key (version : Int) index = listKey key version index) ∧
    (∀ (key member : ByteArray) (version : Nat), key.size < 2^60 → member.size < 2^60 → version < 2^63 →
        Generated.Trans.datatype.zsetInternalKey_encodeWithMember key (version : Int) member = zmemKey key version member) ∧
    (∀ (score key member : ByteArray) (version : Nat), score.size < 2^60 → key.size < 2^60 → member.size < 2^60 →
        version < 2^63 →
        Generated.Trans.datatype.zsetInternalKey_encodeWithScore score key (version : Int) member
          = zscoreKey key version score member) :=
  ⟨fun key field version hk hf hv => TransEq.trans_hashInternalKey_encode_eq key field version hk hf hv,
   fun key member version hk hm hv => TransEq.trans_setInternalKey_encode_eq key member version hk hm hv,
   fun key version index hk hv => TransEq.trans_listInternalKey_encode_eq key version index hk hv,
   fun key member version hk hm hv => TransEq.trans_zsetInternalKey_encodeWithMember_eq key member version hk hm hv,
   fun score key member version hs hk hm hv =>
     TransEq.trans_zsetInternalKey_encodeWithScore_eq score key member version hs hk hm hv⟩

/-- non-vacuity: the keys of the demo histories above (`k1`, field / member `a`, score text "1.5", version 40) -/
example : Generated.Trans.datatype.hashInternalKey_encode k1 40 a = ⟨#[0x6b, 0x31, 40, 0, 0, 0, 0, 0, 0, 0, 0x61]⟩ :=
  (C19_translated_internal_keys.1 k1 a 40 (by decide) (by decide) (by decide)).trans (by decide)
example : Generated.Trans.datatype.setInternalKey_encode k1 40 a
    = ⟨#[0x6b, 0x31, 40, 0, 0, 0, 0, 0, 0, 0, 0x61, 1, 0, 0, 0]⟩ :=
  (C19_translated_internal_keys.2.1 k1 a 40 (by decide) (by decide) (by decide)).trans (by decide)
example : Generated.Trans.datatype.listInternalKey_encode k1 40 (initialListMark - 1)
    = ⟨#[0x6b, 0x31, 40, 0, 0, 0, 0, 0, 0, 0, 0xfe, 0xff, 0xff, 0xff, 0xff, 0xff, 0xff, 0x7f]⟩ :=
  (C19_translated_internal_keys.2.2.1 k1 40 _ (by decide) (by decide)).trans (by decide)
example : Generated.Trans.datatype.zsetInternalKey_encodeWithMember k1 40 a
    = ⟨#[0x6b, 0x31, 40, 0, 0, 0, 0, 0, 0, 0, 0x61]⟩ :=
  (C19_translated_internal_keys.2.2.2.1 k1 a 40 (by decide) (by decide) (by decide)).trans (by decide)
example : Generated.Trans.datatype.zsetInternalKey_encodeWithScore s15 k1 40 a
    = ⟨#[0x6b, 0x31, 40, 0, 0, 0, 0, 0, 0, 0, 0x31, 0x2e, 0x35, 0x61, 1, 0, 0, 0]⟩ :=
  (C19_translated_internal_keys.2.2.2.2 s15 k1 a 40 (by decide) (by decide) (by decide) (by decide)).trans (by decide)

/-- **the string record as it stands in /repo** (`Set` / `Get` of `datatype/types.go`).
    (1) For a non-nil value, `Set` hands `db.Put` the user key and the model's `encodeStr expire value`, with
        `expire = now + ttl` (`0` without ttl), `clock` being whatever `time.Now().Add(·).UnixNano()` is, as long as
        it maps this `ttl` to `now + ttl`; hence the model's `set` is the Go function's store update.
    (2) On a record `enc` that the engine returns for `key`, `Get` returns what the model's `get` replies
        (`Reply.bytes b ↦ (b, nil)`, `Reply.nil ↦ (nil, nil)`, `Reply.wrongType ↦ (nil, ErrWrongTypeOperation)`),
        for every record on which the model does not predict a Go panic. -/
theorem C19_translated_string_record :
    (∀ (clock : Int → Int) (kv : KV) (key v : ByteArray) (now ttl : Nat), v.size < 2^60 → now + ttl < 2^63 →
        (ttl ≠ 0 → clock (ttl : Int) = ((now + ttl : Nat) : Int)) → key.size ≠ 0 →
        (set kv now key (some v) ttl).1
          = kv.put (Generated.Trans.datatype.Set_put clock key v (ttl : Int)).1
                   (Generated.Trans.datatype.Set_put clock key v (ttl : Int)).2) ∧
    (∀ (db : ByteArray → ByteArray) (kv : KV) (key enc : ByteArray) (now : Nat), key.size ≠ 0 → kv.get key = some enc →
        db key = enc → now < 2^63 → (get kv now key).2 ≠ .panic →
        Generated.Trans.datatype.Get db (now : Int) key = TransEq.ofGetReply (get kv now key).2) :=
  ⟨fun clock kv key v now ttl hv hnow hclock hkey => by
     rw [TransEq.trans_Set_put_eq clock key v now ttl hv hnow hclock]
     simp only [Datatype.set, if_neg hkey],
   fun db kv key enc now hkey hget hdb hnow hnp => TransEq.trans_Get_eq db kv key enc now hkey hget hdb hnow hnp⟩

/-- non-vacuity: `Set k1 v1` with a ttl of 5 ns at time 1000, and `Get` of that record at times 1004 and 1005 -/
example (kv : KV) : (set kv 1000 k1 (some v1) 5).1
    = kv.put k1 (Generated.Trans.datatype.Set_put (fun d => 1000 + d) k1 v1 5).2 :=
  C19_translated_string_record.1 (fun d => 1000 + d) kv k1 v1 1000 5 (by decide) (by decide) (fun _ => rfl) (by decide)
#guard (Generated.Trans.datatype.Set_put (fun d => 1000 + d) k1 v1 5).2 = ⟨#[0, 0xda, 0x0f, 1, 2, 3]⟩
example : Generated.Trans.datatype.Get (fun _ => ⟨#[0, 0xda, 0x0f, 1, 2, 3]⟩) 1004 k1 = (v1, none) :=
  (C19_translated_string_record.2 (fun _ => ⟨#[0, 0xda, 0x0f, 1, 2, 3]⟩) [(k1, ⟨#[0, 0xda, 0x0f, 1, 2, 3]⟩)] k1 _ 1004
    (by decide) rfl rfl (by decide) (by decide)).trans (by decide)
example : Generated.Trans.datatype.Get (fun _ => ⟨#[0, 0xda, 0x0f, 1, 2, 3]⟩) 1005 k1 = (ByteArray.empty, none) :=
  (C19_translated_string_record.2 (fun _ => ⟨#[0, 0xda, 0x0f, 1, 2, 3]⟩) [(k1, ⟨#[0, 0xda, 0x0f, 1, 2, 3]⟩)] k1 _ 1005
    (by decide) rfl rfl (by decide) (by decide)).trans (by decide)

end XixiKV.C19

