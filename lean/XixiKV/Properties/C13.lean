import XixiKV.Proofs.EnginePolicy
import XixiKV.Properties.C01
import XixiKV.Properties.C05
/-!
# C13 — sync policy: what has reached stable storage when a call returns

C13: "With SyncStrategy Always every Put/Delete has been flushed to stable storage before it
returns; with Threshold fewer than BytesPerSync bytes appended by acknowledged Puts/Deletes are
unflushed at any return; a batch created with Sync is flushed, including its sealing record, before
Commit returns. Sync() and Close() flush everything written so far, and a file is flushed before the
engine rotates away from it."

Go code (`/repo/db.go`, `/repo/batch.go`) ↦ model (`Model/Engine.lean`, `Model/Batch.lean`):

* `appendLogRecord` ↦ `Engine.appendLog`: `if activeFile.Size()+maxSize > DataFileSize { db.sync() }`,
  write, `totalSize += pos.Size`, `bytesWrite += pos.Size`, then
  `if Always || (Threshold && bytesWrite >= BytesPerSync) { activeFile.Sync(); bytesWrite = 0 }`;
* `db.sync()` ↦ `Engine.rotate`: `activeFile.Sync(); bytesWrite = 0;` the file becomes an older file,
  a new empty active file with the next id is created;
* `DB.Sync` ↦ `Engine.syncDB` (fsync of the ACTIVE file only); `DB.Close` ↦ `Engine.close` (every
  file is closed, `Close` of a data file flushes it);
* `Batch.flushStaged` ↦ `Engine.flushStaged` (pre-rotation when the staged data plus the sealing
  record would not fit, one `writeAll`, `if options.Sync { activeFile.Sync() }`);
  `flushStagedAndUpdateFile` ↦ `flushAndRotate`; `Batch.Commit` ↦ `bcommit` (flush, sealing record
  `LogRecordBatchFinished`, `if options.Sync { activeFile.Sync() }`).

A data file is `FileSt = ⟨bytes, synced⟩`; `synced` is the length of the prefix covered by the last
`fsync`/`msync` — "flushed to stable storage" means `synced = bytes.size`.  `unsynced f` is the
length of the unflushed tail.

The statements use a purely structural *durability invariant* `DInv s db` (no ghost state): the
data directory of the handle ends with the active file, all other file ids are smaller, every
NON-active file is completely flushed and no flush mark exceeds its file.  It holds after `Open` of
a fresh directory (`C13_fresh`) and after a clean restart (`C13_restart`), and EVERY call of the
model keeps it (`C13_rotation_flushes`, `C13_calls`).  `AllSynced s db` = every data file of the
directory is completely flushed.

## What the Threshold theorem says, and what the engine does NOT count

`bytesWrite` is the engine's own counter; `C13_threshold` proves `bytesWrite < BytesPerSync` (or
everything flushed) at every return and relates the counter to the REAL unflushed tail of the
active file: `unsynced (active) ≤ bytesWrite + u` where `u` collects the bytes the counter does not
see.  Two kinds of bytes are not counted by the implementation:

1. **block padding**: when fewer than 8 bytes are left in a 32 KiB block the writer zero-fills them
   before the record (`padOf`, at most 7 bytes per record, none in an empty file); `pos.Size` — the
   number added to `bytesWrite` — excludes them.  Hence for plain operations the exact bound is
   `unsynced < BytesPerSync + 7 · (number of calls since the counter was last exact)`
   (`C13_threshold_run`); a flush or a rotation resets the excess to 0.
2. **everything a batch writes**: `flushStaged` and the sealing record do not go through
   `appendLogRecord`, so their bytes are never added to `bytesWrite`.  When the batch is not `Sync`
   they stay unflushed until the next policy flush / `Sync()` / rotation / `Close()`.  This is a
   KNOWN LIMITATION of the implementation (not of the model): the `#guard` at the end of this file
   exhibits a non-Sync batch under `Threshold, BytesPerSync = 10` that leaves far more than 10
   unflushed bytes in the active file after `Commit` with `bytesWrite = 0`; and
   `C13_nosync_batch_not_flushed` proves that `Commit` of a non-Sync batch does not move the flush
   mark at all.  Consequently the Threshold bound is proved for sequences of PLAIN operations
   (`C01.run`), not for sequences that contain non-Sync batches.

(`DInv` through WHOLE histories — `Merge`, the adopting restart, later restarts, `Backup` — is
`C13_history` in `Properties/C17History.lean`.)
-/
namespace XixiKV.C13
open XixiKV XixiKV.Frame XixiKV.Record XixiKV.Index XixiKV.Engine XixiKV.Engine.BatchP
open XixiKV.Engine.PolicyP.Dur

/-! ## a file is flushed before the engine rotates away from it; every call keeps the invariant -/

/-- **C13, rotation.**  (i) `db.sync()` (`rotate`) leaves the file it rotates away from completely
    flushed, starts an empty active file with the next id, resets the counter and keeps the
    invariant.  (ii) Every call of the model — `Put`, `Delete`, `Get`, `Sync`, `NewBatch`,
    `Batch.Put`, `Batch.Get`, `Batch.Delete`, `Batch.Commit`, dropping the batch — returns in a state
    with an open handle that satisfies the invariant again; every rotation path is covered
    (`appendLogRecord`, the pre-rotation of `flushStaged`, `flushStagedAndUpdateFile`).
    By `C13_older_files_flushed` the invariant says that every non-active file is flushed. -/
theorem C13_rotation_flushes {s : St} {db : DB} (hs : s.db = some db) (hd : DInv s db) :
    (DInv (rotate s db).1 (rotate s db).2 ∧
      getFile (dirOf (rotate s db).1 (rotate s db).2).data db.activeId
        = some ⟨(activeFile s db).bytes, (activeFile s db).bytes.size⟩ ∧
      activeFile (rotate s db).1 (rotate s db).2 = ⟨ByteArray.empty, 0⟩ ∧
      (rotate s db).2.activeId = db.activeId + 1 ∧ (rotate s db).2.bytesWrite = 0) ∧
    (∀ k v, ∃ db', (put s k v).1.db = some db' ∧ DInv (put s k v).1 db') ∧
    (∀ k, ∃ db', (delete s k).1.db = some db' ∧ DInv (delete s k).1 db') ∧
    (∀ k, ∃ db', (get s k).1.db = some db' ∧ DInv (get s k).1 db') ∧
    (∃ db', (syncDB s).1.db = some db' ∧ DInv (syncDB s).1 db') ∧
    (∀ sync id, ∃ db', (bnew s sync id).1.db = some db' ∧ DInv (bnew s sync id).1 db') ∧
    (∀ k v, ∃ db', (bput s k v).1.db = some db' ∧ DInv (bput s k v).1 db') ∧
    (∀ k, ∃ db', (bget s k).1.db = some db' ∧ DInv (bget s k).1 db') ∧
    (∀ k, ∃ db', (bdel s k).1.db = some db' ∧ DInv (bdel s k).1 db') ∧
    (∃ db', (bcommit s).1.db = some db' ∧ DInv (bcommit s).1 db') ∧
    (∃ db', (bdrop s).1.db = some db' ∧ DInv (bdrop s).1 db') := by
  have h : Dur s := ⟨db, hs, hd⟩
  obtain ⟨r1, r2, r3⟩ := DInv_rotate hd
  exact ⟨⟨r1, r2, r3, rfl, rfl⟩, fun k v => Dur_put h k v, fun k => Dur_delete h k, fun k => Dur_get h k,
    Dur_syncDB h, fun sync id => Dur_bnew h sync id, fun k v => Dur_bput h k v, fun k => Dur_bget h k,
    fun k => Dur_bdel h k, Dur_bcommit h, Dur_bdrop h⟩

/-- what the invariant says about the files the engine has rotated away from: every data file other
    than the active one is completely flushed, and no flush mark exceeds its file -/
theorem C13_older_files_flushed {s : St} {db : DB} (hd : DInv s db) :
    (∀ x ∈ (dirOf s db).data, x.1 ≠ db.activeId → x.2.synced = x.2.bytes.size) ∧
    (∀ x ∈ (dirOf s db).data, x.2.synced ≤ x.2.bytes.size) ∧
    (db.activeId, activeFile s db) ∈ (dirOf s db).data ∧
    ((activeFile s db).synced = (activeFile s db).bytes.size → AllSynced s db) :=
  ⟨hd.older_synced, hd.le, hd.active_mem, hd.allSynced⟩

/-- the invariant is established by `Open` on a directory that does not exist yet: the handle is
    open, nothing is unflushed, the counter is 0 -/
theorem C13_fresh (dir : String) (cfg : Cfg) (h : cfg.Valid) :
    ∃ db, (openDB St.init dir cfg).1.db = some db ∧ DInv (openDB St.init dir cfg).1 db ∧
      AllSynced (openDB St.init dir cfg).1 db ∧ TInv (openDB St.init dir cfg).1 db 0 ∧
      db.cfg = cfg ∧ db.bytesWrite = 0 := by
  rw [openDB_fresh_eq dir cfg h]
  exact ⟨freshDB dir cfg, rfl, DInv_fresh dir cfg, AllSynced_fresh dir cfg, TInv_fresh dir cfg, rfl, rfl⟩

/-- … and by every clean restart (`Close` then `Open`, any new configuration) of a database that
    satisfies the engine invariant and the durability invariant: afterwards everything is flushed -/
theorem C13_restart (s : St) (db : DB) (g : GDir) (cfg' : Cfg) (hdb : s.db = some db) (hinv : Inv s db g)
    (hd : DInv s db) (hnomerge : s.world.get (mergeDirName db.dir) = none) (hcfg : cfg'.Valid) :
    ∃ db', (C02.restart s db.dir cfg').db = some db' ∧ DInv (C02.restart s db.dir cfg') db' ∧
      AllSynced (C02.restart s db.dir cfg') db' ∧ TInv (C02.restart s db.dir cfg') db' 0 ∧
      db'.cfg = cfg' ∧ db'.bytesWrite = 0 := by
  obtain ⟨d, hget, _, _, hopen⟩ := C02.C02_restart_explicit s db g cfg' hdb hinv hnomerge hcfg
  unfold C02.restart
  rw [hopen]
  have key : ∀ (S : St) (D : DB),
      S.world = s.world.set db.dir { d with data := Restart.syncAll d.data, locked := true } →
      D.dir = db.dir → D.activeId = db.activeId → D.cfg = cfg' → D.bytesWrite = 0 →
      DInv S D ∧ AllSynced S D ∧ TInv S D 0 ∧ D.cfg = cfg' ∧ D.bytesWrite = 0 := by
    intro S D hw hdir hact hc hbw
    have hdata : (dirOf S D).data = Restart.syncAll (dirOf s db).data := by
      simp only [dirOf, hw, hdir, Restart.World.get_set_self, hget, Option.getD_some]
    obtain ⟨h1, h2⟩ := DInv_of_syncAll hd hdata hact
    refine ⟨h1, h2, ?_, hc, hbw⟩
    unfold TInv
    rw [h2.unsynced_zero h1]; exact Nat.zero_le _
  exact ⟨_, rfl, key _ _ rfl rfl rfl rfl rfl⟩

/-! ### list level: any sequence of calls -/

/-- any plain operation sequence keeps the invariant -/
theorem C13_run_plain (ops : List C01.Op) : ∀ {s : St} {db : DB}, s.db = some db → DInv s db →
    ∃ db', (C01.run s ops).1.db = some db' ∧ DInv (C01.run s ops).1 db' := by
  induction ops with
  | nil => intro s db hs hd; exact ⟨db, hs, hd⟩
  | cons op ops ih =>
    intro s db hs hd
    have h : Dur s := ⟨db, hs, hd⟩
    have hstep : Dur (C01.step s op).1 := by
      cases op with
      | put k v => exact Dur_put h k v
      | del k => exact Dur_delete h k
      | get k => exact Dur_get h k
      | sync => exact Dur_syncDB h
    obtain ⟨db1, hs1, hd1⟩ := hstep
    exact ih hs1 hd1

/-- any sequence of staging calls of a batch keeps the invariant -/
theorem C13_run_batch_ops (ops : List C05.BOp) : ∀ {s : St} {db : DB}, s.db = some db → DInv s db →
    ∃ db', (C05.runOps s ops).1.db = some db' ∧ DInv (C05.runOps s ops).1 db' := by
  induction ops with
  | nil => intro s db hs hd; exact ⟨db, hs, hd⟩
  | cons op ops ih =>
    intro s db hs hd
    have h : Dur s := ⟨db, hs, hd⟩
    have hstep : Dur (C05.bstep s op).1 := by
      cases op with
      | bput k v => exact Dur_bput h k v
      | bdel k => exact Dur_bdel h k
      | bget k => exact Dur_bget h k
    obtain ⟨db1, hs1, hd1⟩ := hstep
    exact ih hs1 hd1

/-- a whole batch session (`NewBatch; ops…; Commit; drop`, any `Sync` option, any operations, any
    number of intermediate flushes and rotations) keeps the invariant -/
theorem C13_run_batch {s : St} {db : DB} (hs : s.db = some db) (hd : DInv s db) (sync : Bool) (id : Nat)
    (ops : List C05.BOp) :
    ∃ db', (C05.runBatch s sync id ops).1.db = some db' ∧ DInv (C05.runBatch s sync id ops).1 db' := by
  obtain ⟨db1, hs1, hd1⟩ := Dur_bnew ⟨db, hs, hd⟩ sync id
  obtain ⟨db2, hs2, hd2⟩ := C13_run_batch_ops ops hs1 hd1
  exact Dur_bdrop (Dur_bcommit ⟨db2, hs2, hd2⟩)

/-- the calls of the model that write or flush, in one type -/
inductive Call where
  | plain : C01.Op → Call
  | bnew : Bool → Nat → Call
  | bop : C05.BOp → Call
  | bcommit : Call
  | bdrop : Call

def call (s : St) : Call → St
  | .plain op => (C01.step s op).1
  | .bnew sync id => (Engine.bnew s sync id).1
  | .bop op => (C05.bstep s op).1
  | .bcommit => (Engine.bcommit s).1
  | .bdrop => (Engine.bdrop s).1

def calls (s : St) (cs : List Call) : St := cs.foldl call s

/-- **every interleaving** of plain operations and batch calls (well formed or not: staging calls
    without a batch, double commits, … are rejected by the model and change nothing) keeps the
    invariant — so at every return every non-active file is completely flushed -/
theorem C13_calls (cs : List Call) : ∀ {s : St} {db : DB}, s.db = some db → DInv s db →
    ∃ db', (calls s cs).db = some db' ∧ DInv (calls s cs) db' := by
  induction cs with
  | nil => intro s db hs hd; exact ⟨db, hs, hd⟩
  | cons c cs ih =>
    intro s db hs hd
    have h : Dur s := ⟨db, hs, hd⟩
    have hstep : Dur (call s c) := by
      cases c with
      | plain op =>
        cases op with
        | put k v => exact Dur_put h k v
        | del k => exact Dur_delete h k
        | get k => exact Dur_get h k
        | sync => exact Dur_syncDB h
      | bnew sync id => exact Dur_bnew h sync id
      | bop op =>
        cases op with
        | bput k v => exact Dur_bput h k v
        | bdel k => exact Dur_bdel h k
        | bget k => exact Dur_bget h k
      | bcommit => exact Dur_bcommit h
      | bdrop => exact Dur_bdrop h
    obtain ⟨db1, hs1, hd1⟩ := hstep
    exact ih hs1 hd1

/-! ## SyncStrategy Always -/

/-- **C13, Always.**  Under `SyncStrategy = Always` a `Put` (non-empty key) answers ok and when it
    returns EVERY data file is completely flushed — in particular the active file, which now ends
    with the new record; the same for a `Delete` that wrote a tombstone; a `Delete` of an absent key
    writes nothing and leaves the state untouched. -/
theorem C13_always {s : St} {db : DB} (hs : s.db = some db) (hd : DInv s db) (hcfg : db.cfg.sync = 1) :
    (∀ k v : ByteArray, k.size ≠ 0 →
      (put s k v).2 = .ok ∧
      ∃ db', (put s k v).1.db = some db' ∧ DInv (put s k v).1 db' ∧ db'.cfg = db.cfg ∧
        AllSynced (put s k v).1 db' ∧
        (activeFile (put s k v).1 db').synced = (activeFile (put s k v).1 db').bytes.size ∧
        unsynced (activeFile (put s k v).1 db') = 0) ∧
    (∀ k : ByteArray, k.size ≠ 0 →
      (Index.get db.index k = none → delete s k = (s, .ok)) ∧
      (∀ old, Index.get db.index k = some old →
        (delete s k).2 = .ok ∧
        ∃ db', (delete s k).1.db = some db' ∧ DInv (delete s k).1 db' ∧ db'.cfg = db.cfg ∧
          AllSynced (delete s k).1 db' ∧
          (activeFile (delete s k).1 db').synced = (activeFile (delete s k).1 db').bytes.size ∧
          unsynced (activeFile (delete s k).1 db') = 0)) := by
  have key : ∀ (r : Record) (S : St) (D : DB), S.world = (appendLog s db r).1.world →
      D.dir = (appendLog s db r).2.1.dir → D.activeId = (appendLog s db r).2.1.activeId →
      D.cfg = (appendLog s db r).2.1.cfg →
      DInv S D ∧ D.cfg = db.cfg ∧ AllSynced S D ∧
        (activeFile S D).synced = (activeFile S D).bytes.size ∧ unsynced (activeFile S D) = 0 := by
    intro r S D hw hdir hact hc
    have h1 := (DInv_appendLog hd r).congr hw hdir hact
    have h2 := (appendLog_always hd hcfg r).1.congr hw hdir
    exact ⟨h1, hc.trans (appendLog_handle hd r).2.1, h2, h2.active h1, h2.unsynced_zero h1⟩
  refine ⟨?_, ?_⟩
  · intro k v hk
    obtain ⟨h1, h2, h3⟩ := put_state hs k v hk
    exact ⟨h1, _, h2, key _ _ _ h3 rfl rfl rfl⟩
  · intro k hk
    refine ⟨fun hg => delete_eq_none hs k hk hg, ?_⟩
    intro old hg
    obtain ⟨h1, h2, h3⟩ := delete_state hs k hk hg
    exact ⟨h1, _, h2, key _ _ _ h3 rfl rfl rfl⟩

/-- Always, list level: starting from a state in which everything is flushed (e.g. the fresh
    database, or after `Sync()`), everything is flushed at every return of every plain operation -/
theorem C13_always_run (ops : List C01.Op) : ∀ {s : St} {db : DB}, s.db = some db → DInv s db →
    db.cfg.sync = 1 → AllSynced s db →
    ∃ db', (C01.run s ops).1.db = some db' ∧ DInv (C01.run s ops).1 db' ∧ db'.cfg = db.cfg ∧
      AllSynced (C01.run s ops).1 db' := by
  induction ops with
  | nil => intro s db hs hd _ ha; exact ⟨db, hs, hd, rfl, ha⟩
  | cons op ops ih =>
    intro s db hs hd hc ha
    have hA : AlwInv db.cfg s db := ⟨hd, rfl, ha⟩
    have hstep : ∃ db1, (C01.step s op).1.db = some db1 ∧ AlwInv db.cfg (C01.step s op).1 db1 := by
      cases op with
      | put k v => exact AlwInv_put hs hA hc k v
      | del k => exact AlwInv_delete hs hA hc k
      | get k => exact ⟨db, by show (get s k).1.db = _; rw [get_state]; exact hs,
          by show AlwInv _ (get s k).1 db; rw [get_state]; exact hA⟩
      | sync => exact ⟨db, AlwInv_syncDB hs hA⟩
    obtain ⟨db1, hs1, hA1⟩ := hstep
    obtain ⟨db', h1, h2, h3, h4⟩ := ih hs1 hA1.dinv (by rw [hA1.hcfg]; exact hc) hA1.all
    exact ⟨db', h1, h2, h3.trans hA1.hcfg, h4⟩

/-! ## SyncStrategy Threshold -/

/-- **C13, Threshold, one call.**  Under `SyncStrategy = Threshold`, after a `Put` (non-empty key)
    or a `Delete` that wrote a tombstone:
    * either the policy flush ran — the counter is 0 and EVERYTHING is flushed — or the engine's
      counter `bytesWrite` of bytes appended since the last flush is below `BytesPerSync`;
    * the REAL unflushed tail of the active file exceeds the counter by at most `u + 7` bytes if it
      exceeded it by at most `u` before (`TInv`): the only uncounted bytes of a plain append are the
      block padding, at most 7;
    * and by nothing at all (`TInv … 0`) if the call rotated to a new file. -/
theorem C13_threshold {s : St} {db : DB} {u : Nat} (hs : s.db = some db) (hd : DInv s db)
    (hcfg : db.cfg.sync = 2) (ht : TInv s db u) :
    (∀ k v : ByteArray, k.size ≠ 0 →
      (put s k v).2 = .ok ∧
      ∃ db', (put s k v).1.db = some db' ∧ DInv (put s k v).1 db' ∧ db'.cfg = db.cfg ∧
        ((db'.bytesWrite = 0 ∧ AllSynced (put s k v).1 db') ∨ db'.bytesWrite < db'.cfg.bps) ∧
        TInv (put s k v).1 db' (u + 7) ∧
        (db'.activeId ≠ db.activeId → TInv (put s k v).1 db' 0)) ∧
    (∀ k : ByteArray, k.size ≠ 0 →
      (Index.get db.index k = none → delete s k = (s, .ok)) ∧
      (∀ old, Index.get db.index k = some old →
        (delete s k).2 = .ok ∧
        ∃ db', (delete s k).1.db = some db' ∧ DInv (delete s k).1 db' ∧ db'.cfg = db.cfg ∧
          ((db'.bytesWrite = 0 ∧ AllSynced (delete s k).1 db') ∨ db'.bytesWrite < db'.cfg.bps) ∧
          TInv (delete s k).1 db' (u + 7) ∧
          (db'.activeId ≠ db.activeId → TInv (delete s k).1 db' 0))) := by
  have key : ∀ (r : Record) (S : St) (D : DB), S.world = (appendLog s db r).1.world →
      D.dir = (appendLog s db r).2.1.dir → D.activeId = (appendLog s db r).2.1.activeId →
      D.cfg = (appendLog s db r).2.1.cfg → D.bytesWrite = (appendLog s db r).2.1.bytesWrite →
      DInv S D ∧ D.cfg = db.cfg ∧
        ((D.bytesWrite = 0 ∧ AllSynced S D) ∨ D.bytesWrite < D.cfg.bps) ∧
        TInv S D (u + 7) ∧ (D.activeId ≠ db.activeId → TInv S D 0) := by
    intro r S D hw hdir hact hc hbw
    obtain ⟨t1, t2, t3⟩ := appendLog_threshold hd hcfg ht r
    refine ⟨(DInv_appendLog hd r).congr hw hdir hact, hc.trans (appendLog_handle hd r).2.1, ?_,
      t1.congr hw hdir hact hbw, fun hne => (t3 (by rw [← hact]; exact hne)).congr hw hdir hact hbw⟩
    rcases t2 with ⟨a, b⟩ | a
    · exact Or.inl ⟨hbw.trans a, b.congr hw hdir⟩
    · exact Or.inr (by rw [hbw, hc]; exact a)
  refine ⟨?_, ?_⟩
  · intro k v hk
    obtain ⟨h1, h2, h3⟩ := put_state hs k v hk
    exact ⟨h1, _, h2, key _ _ _ h3 rfl rfl rfl rfl⟩
  · intro k hk
    refine ⟨fun hg => delete_eq_none hs k hk hg, ?_⟩
    intro old hg
    obtain ⟨h1, h2, h3⟩ := delete_state hs k hk hg
    exact ⟨h1, _, h2, key _ _ _ h3 rfl rfl rfl rfl⟩

/-- **C13, Threshold, list level.**  Start from a state in which the counter is exact (`TInv s db 0`:
    the unflushed tail of the active file is at most `bytesWrite` — e.g. the fresh database, or any
    state right after a flush) and below the threshold (or everything is flushed).  Then at the
    return of EVERY plain operation sequence (hence, applied to the prefixes, at every return):
    * the invariant holds (all non-active files are completely flushed), the configuration is
      unchanged;
    * `bytesWrite < BytesPerSync`, or everything is flushed;
    * the real unflushed tail of the active file is at most `bytesWrite + 7 · (number of calls)`,
      hence it is 0 or below `BytesPerSync + 7 · (number of calls)`. -/
theorem C13_threshold_run (ops : List C01.Op) : ∀ {s : St} {db : DB} {u : Nat}, s.db = some db → DInv s db →
    db.cfg.sync = 2 → TInv s db u → (db.bytesWrite < db.cfg.bps ∨ AllSynced s db) →
    ∃ db', (C01.run s ops).1.db = some db' ∧ DInv (C01.run s ops).1 db' ∧ db'.cfg = db.cfg ∧
      (db'.bytesWrite < db.cfg.bps ∨ AllSynced (C01.run s ops).1 db') ∧
      unsynced (activeFile (C01.run s ops).1 db') ≤ db'.bytesWrite + (u + 7 * ops.length) ∧
      (unsynced (activeFile (C01.run s ops).1 db') = 0 ∨
        unsynced (activeFile (C01.run s ops).1 db') < db.cfg.bps + (u + 7 * ops.length)) := by
  induction ops with
  | nil =>
    intro s db u hs hd _ ht hb
    have hT : ThrInv db.cfg s db u := ⟨hd, rfl, ht, hb⟩
    exact ⟨db, hs, hd, rfl, hb, ht, hT.unsynced_bound⟩
  | cons op ops ih =>
    intro s db u hs hd hc ht hb
    have hT : ThrInv db.cfg s db u := ⟨hd, rfl, ht, hb⟩
    have hstep : ∃ db1, (C01.step s op).1.db = some db1 ∧ ThrInv db.cfg (C01.step s op).1 db1 (u + 7) := by
      cases op with
      | put k v => exact ThrInv_put hs hT hc k v
      | del k => exact ThrInv_delete hs hT hc k
      | get k => exact ⟨db, by show (get s k).1.db = _; rw [get_state]; exact hs,
          by show ThrInv _ (get s k).1 db _; rw [get_state]; exact hT.mono (by omega)⟩
      | sync => exact ⟨db, (ThrInv_syncDB hs hT).1, (ThrInv_syncDB hs hT).2.mono (by omega)⟩
    obtain ⟨db1, hs1, hT1⟩ := hstep
    have hb1 : db1.bytesWrite < db1.cfg.bps ∨ AllSynced (C01.step s op).1 db1 := by
      rw [hT1.hcfg]; exact hT1.bound
    obtain ⟨db', h1, h2, h3, h4, h5, h6⟩ := ih hs1 hT1.dinv (by rw [hT1.hcfg]; exact hc) hT1.tinv hb1
    rw [hT1.hcfg] at h4 h6
    refine ⟨db', h1, h2, h3.trans hT1.hcfg, h4, ?_, ?_⟩
    · simp only [List.length_cons]
      show unsynced (activeFile (C01.run (C01.step s op).1 ops).1 db') ≤ _
      omega
    · simp only [List.length_cons]
      show unsynced (activeFile (C01.run (C01.step s op).1 ops).1 db') = 0 ∨
        unsynced (activeFile (C01.run (C01.step s op).1 ops).1 db') < _
      omega

/-- the Threshold bound on the fresh database, at EVERY return: for every prefix of the operation
    list, fewer than `BytesPerSync + 7 · (calls so far)` bytes of the active file are unflushed (or
    none), and all other files are completely flushed -/
theorem C13_threshold_fresh (dir : String) (cfg : Cfg) (h : cfg.Valid) (hc : cfg.sync = 2)
    (ops : List C01.Op) (n : Nat) :
    ∃ db', (C01.run (openDB St.init dir cfg).1 (ops.take n)).1.db = some db' ∧
      DInv (C01.run (openDB St.init dir cfg).1 (ops.take n)).1 db' ∧
      (db'.bytesWrite < cfg.bps ∨ AllSynced (C01.run (openDB St.init dir cfg).1 (ops.take n)).1 db') ∧
      (unsynced (activeFile (C01.run (openDB St.init dir cfg).1 (ops.take n)).1 db') = 0 ∨
        unsynced (activeFile (C01.run (openDB St.init dir cfg).1 (ops.take n)).1 db') < cfg.bps + 7 * n) := by
  obtain ⟨db, h1, h2, h3, h4, h5, _⟩ := C13_fresh dir cfg h
  obtain ⟨db', g1, g2, _, g4, _, g6⟩ := C13_threshold_run (ops.take n) h1 h2 (by rw [h5]; exact hc) h4 (Or.inr h3)
  rw [h5] at g4 g6
  refine ⟨db', g1, g2, g4, ?_⟩
  have hl : (ops.take n).length ≤ n := by rw [List.length_take]; exact Nat.min_le_left _ _
  rcases g6 with g | g
  · exact Or.inl g
  · right; omega

/-! ## a batch created with Sync -/

/-- **C13, Sync batch.**  `Commit` of a batch created with `Sync`, with a non-empty staging area:
    answers ok; when it returns the active file consists of what it held when the flush started
    (after the pre-rotation, if one was due) followed by all staged records and then the SEALING
    record `finRec b.id` — and it is completely flushed, sealing record included; with the
    invariant, every data file is completely flushed. -/
theorem C13_sync_batch {s : St} {db : DB} {b : BatchSt} (hs : s.db = some db) (hb : db.batch = some b)
    (hsync : b.sync = true) (hc : b.committed = false) (he : b.staged ≠ []) (hd : DInv s db) :
    (bcommit s).2 = .ok ∧
    ∃ db', (bcommit s).1.db = some db' ∧ DInv (bcommit s).1 db' ∧
      (activeFile (bcommit s).1 db').bytes
        = appendRec C (appendAll C (activeFile (fpreS s db b) (fpreDB s db b)).bytes (flushPayloads b))
            (encodeRecord (finRec b.id)) ∧
      (activeFile (bcommit s).1 db').synced = (activeFile (bcommit s).1 db').bytes.size ∧
      AllSynced (bcommit s).1 db' := by
  obtain ⟨h1, db', h2, h3, _, _, _, h7, h8, _, _⟩ := bcommit_nonempty_dur hs hb hc he hd
  exact ⟨h1, db', h2, h3, h7, h8 hsync, h3.allSynced (h8 hsync)⟩

/-- the state in which `flushStaged` writes is the current one, or the one right after a rotation
    (then the old active file is completely flushed and the new one is empty) -/
theorem C13_sync_batch_pre {s : St} {db : DB} (hd : DInv s db) (b : BatchSt) :
    (fpreS s db b = s ∧ fpreDB s db b = db) ∨
    (fpreS s db b = (rotate s db).1 ∧ fpreDB s db b = (rotate s db).2 ∧
      activeFile (fpreS s db b) (fpreDB s db b) = ⟨ByteArray.empty, 0⟩) :=
  (fpre_dur hd b).2.2.2.2.2

/-- the limitation behind the Threshold caveat: `Commit` of a batch created WITHOUT `Sync` writes
    the staged records and the sealing record but does not move the flush mark of the active file,
    and `bytesWrite` does not count these bytes: the handle's counter is the one it had in the state
    in which the flush started (by `C13_sync_batch_pre`: the old value, or 0 after the pre-rotation) -/
theorem C13_nosync_batch_not_flushed {s : St} {db : DB} {b : BatchSt} (hs : s.db = some db)
    (hb : db.batch = some b) (hsync : b.sync = false) (hc : b.committed = false) (he : b.staged ≠ [])
    (hd : DInv s db) :
    ∃ db', (bcommit s).1.db = some db' ∧
      (activeFile (bcommit s).1 db').bytes
        = appendRec C (appendAll C (activeFile (fpreS s db b) (fpreDB s db b)).bytes (flushPayloads b))
            (encodeRecord (finRec b.id)) ∧
      (activeFile (bcommit s).1 db').synced = (activeFile (fpreS s db b) (fpreDB s db b)).synced ∧
      db'.bytesWrite = (fpreDB s db b).bytesWrite := by
  obtain ⟨_, db', h2, _, _, _, _, h7, _, h9, h10⟩ := bcommit_nonempty_dur hs hb hc he hd
  exact ⟨db', h2, h7, h9 hsync, h10⟩

/-- **C13, Sync batch, session level.**  For a whole session `NewBatch(Sync); ops…; Commit` with an
    ARBITRARY list of batch puts / deletes / gets (any number of intermediate flushes and
    rotations): `Commit` answers ok, the invariant holds, and either every data file is completely
    flushed, or the session wrote nothing at all (the files are those before `NewBatch`).
    If the list contains a `Put` with a non-empty key, everything is flushed. -/
theorem C13_sync_batch_session {s : St} {db : DB} (hs : s.db = some db) (hd : DInv s db) (id : Nat)
    (ops : List C05.BOp) :
    (C05.runCommit s true id ops).2 = .ok ∧
    ∃ db', (C05.runCommit s true id ops).1.db = some db' ∧ DInv (C05.runCommit s true id ops).1 db' ∧
      (AllSynced (C05.runCommit s true id ops).1 db' ∨ (C05.runCommit s true id ops).1.world = s.world) ∧
      ((∃ k v, C05.BOp.bput k v ∈ ops ∧ k.size ≠ 0) → AllSynced (C05.runCommit s true id ops).1 db') := by
  have hrun : ∀ (ops : List C05.BOp) (s1 : St) (db1 : DB) (b1 : BatchSt), BSess s true s1 db1 b1 →
      ∃ db2 b2, BSess s true (C05.runOps s1 ops).1 db2 b2 ∧ (b1.staged ≠ [] → b2.staged ≠ []) ∧
        ((∃ k v, C05.BOp.bput k v ∈ ops ∧ k.size ≠ 0) → b2.staged ≠ []) := by
    intro ops
    induction ops with
    | nil =>
      intro s1 db1 b1 hS
      exact ⟨db1, b1, hS, fun h => h, fun ⟨k, v, hm, _⟩ => by simp at hm⟩
    | cons op ops ih =>
      intro s1 db1 b1 hS
      have hstep : ∃ db2 b2, BSess s true (C05.bstep s1 op).1 db2 b2 ∧ (b1.staged ≠ [] → b2.staged ≠ []) ∧
          (∀ k v, op = C05.BOp.bput k v → k.size ≠ 0 → b2.staged ≠ []) := by
        cases op with
        | bput k v =>
          obtain ⟨db2, b2, g1, g2, g3⟩ := BSess_bput hS k v
          exact ⟨db2, b2, g1, g2, fun k' v' e hk => by cases e; exact g3 hk⟩
        | bdel k =>
          obtain ⟨db2, b2, g1, g2⟩ := BSess_bdel hS k
          exact ⟨db2, b2, g1, g2, fun k' v' e => by cases e⟩
        | bget k => exact ⟨db1, b1, BSess_bget hS k, fun h => h, fun k' v' e => by cases e⟩
      obtain ⟨db2, b2, g1, g2, g3⟩ := hstep
      obtain ⟨db3, b3, f1, f2, f3⟩ := ih _ db2 b2 g1
      refine ⟨db3, b3, f1, fun h => f2 (g2 h), ?_⟩
      rintro ⟨k, v, hm, hk⟩
      rcases List.mem_cons.mp hm with e | hm
      · exact f2 (g3 k v e.symm hk)
      · exact f3 ⟨k, v, hm, hk⟩
  obtain ⟨db2, b2, hS, _, hmut⟩ := hrun ops _ _ _ (BSess_bnew hs hd true id)
  obtain ⟨c1, db', c2, c3, c4, c5⟩ := BSess_bcommit hS
  refine ⟨c1, db', c2, c3, ?_, fun hex => c5 (hmut hex) rfl⟩
  by_cases he : b2.staged = []
  · exact Or.inr (c4 he)
  · exact Or.inl (c5 he rfl)

/-! ## Sync() and Close() -/

/-- **C13, Sync and Close.**  `Sync()` answers ok, keeps the handle and flushes the active file
    completely (no invariant needed for that); with the invariant, every data file is then
    completely flushed.  `Close()` answers ok and flushes EVERY data file of the directory (no
    invariant needed). -/
theorem C13_sync_close {s : St} {db : DB} (hs : s.db = some db) :
    ((syncDB s).2 = .ok ∧ (syncDB s).1.db = some db ∧
      (activeFile (syncDB s).1 db).bytes = (activeFile s db).bytes ∧
      (activeFile (syncDB s).1 db).synced = (activeFile (syncDB s).1 db).bytes.size ∧
      (DInv s db → DInv (syncDB s).1 db ∧ AllSynced (syncDB s).1 db)) ∧
    ((close s).2 = .ok ∧ (close s).1.db = none ∧
      ∃ d, (close s).1.world.get db.dir = some d ∧
        d.data.map (fun x => (x.1, x.2.bytes)) = (dirOf s db).data.map (fun x => (x.1, x.2.bytes)) ∧
        ∀ x ∈ d.data, x.2.synced = x.2.bytes.size) := by
  refine ⟨?_, ?_⟩
  · have hA : activeFile (syncDB s).1 db = ⟨(activeFile s db).bytes, (activeFile s db).bytes.size⟩ := by
      rw [syncDB_eq hs]; exact activeFile_putFile s db _
    refine ⟨by rw [syncDB_eq hs], by rw [syncDB_eq hs]; exact hs, by rw [hA], by rw [hA], ?_⟩
    intro hd
    obtain ⟨_, _, h3, h4⟩ := syncDB_dur hs hd
    exact ⟨h3, h4⟩
  · unfold close withDB
    rw [hs]
    refine ⟨rfl, rfl, _, Restart.World.get_set_self _ _ _, ?_, ?_⟩
    · simp only [List.map_map]
      apply List.map_congr_left
      intro x _; rfl
    · intro x hx
      obtain ⟨y, _, rfl⟩ := List.mem_map.mp hx
      rfl

/-! ## non-vacuity -/

/-- the hypotheses of `C13_always` are satisfiable (fresh database, any `fileSize`, so the `Put`
    may or may not rotate): after the first `Put` everything is flushed -/
example (dir : String) (cfg : Cfg) (h : cfg.Valid) (hc : cfg.sync = 1) (k v : ByteArray) (hk : k.size ≠ 0) :
    ∃ db', (put (openDB St.init dir cfg).1 k v).1.db = some db' ∧
      AllSynced (put (openDB St.init dir cfg).1 k v).1 db' ∧
      unsynced (activeFile (put (openDB St.init dir cfg).1 k v).1 db') = 0 := by
  obtain ⟨db, h1, h2, _, _, h5, _⟩ := C13_fresh dir cfg h
  obtain ⟨_, db', g1, _, _, g4, _, g6⟩ := (C13_always h1 h2 (by rw [h5]; exact hc)).1 k v hk
  exact ⟨db', g1, g4, g6⟩

/-- the hypotheses of `C13_threshold` are satisfiable with `u = 0` (fresh database) -/
example (dir : String) (cfg : Cfg) (h : cfg.Valid) (hc : cfg.sync = 2) (k v : ByteArray) (hk : k.size ≠ 0) :
    ∃ db', (put (openDB St.init dir cfg).1 k v).1.db = some db' ∧
      ((db'.bytesWrite = 0 ∧ AllSynced (put (openDB St.init dir cfg).1 k v).1 db') ∨ db'.bytesWrite < cfg.bps) ∧
      unsynced (activeFile (put (openDB St.init dir cfg).1 k v).1 db') ≤ db'.bytesWrite + 7 := by
  obtain ⟨db, h1, h2, _, h4, h5, _⟩ := C13_fresh dir cfg h
  obtain ⟨_, db', g1, _, g3, g4, g5, _⟩ := (C13_threshold h1 h2 (by rw [h5]; exact hc) h4).1 k v hk
  rw [g3, h5] at g4
  exact ⟨db', g1, g4, g5⟩

/-- the hypotheses of `C13_sync_batch` are satisfiable: `NewBatch(Sync)` and one `Batch.Put` on the
    fresh database give an open, uncommitted Sync batch with a non-empty staging area -/
example (dir : String) (cfg : Cfg) (h : cfg.Valid) (id : Nat) (k v : ByteArray) (hk : k.size ≠ 0) :
    ∃ db b, (bput (bnew (openDB St.init dir cfg).1 true id).1 k v).1.db = some db ∧ db.batch = some b ∧
      b.sync = true ∧ b.committed = false ∧ b.staged ≠ [] ∧
      DInv (bput (bnew (openDB St.init dir cfg).1 true id).1 k v).1 db := by
  obtain ⟨db, h1, h2, _⟩ := C13_fresh dir cfg h
  obtain ⟨db', b', hS, _, hne⟩ := BSess_bput (BSess_bnew h1 h2 true id) k v
  exact ⟨db', b', hS.sdb, hS.bat, hS.sync, hS.open_, hne hk, hS.dinv⟩

/-- … and the whole session flushes everything -/
example (dir : String) (cfg : Cfg) (h : cfg.Valid) (id : Nat) (k v : ByteArray) (hk : k.size ≠ 0) :
    ∃ db', (C05.runCommit (openDB St.init dir cfg).1 true id [.bput k v]).1.db = some db' ∧
      AllSynced (C05.runCommit (openDB St.init dir cfg).1 true id [.bput k v]).1 db' := by
  obtain ⟨db, h1, h2, _⟩ := C13_fresh dir cfg h
  obtain ⟨_, db', g1, _, _, g4⟩ := C13_sync_batch_session h1 h2 id [.bput k v]
  exact ⟨db', g1, g4 ⟨k, v, by simp, hk⟩⟩

/-! ## evaluated sanity checks (compiled evaluation by `#guard`; not used by any proof) -/

/-- per data file `(id, size, flushed prefix)`, then the active id and the engine's counter -/
private def view (s : St) : Option (List (Nat × Nat × Nat) × Nat × Nat) :=
  match s.db with
  | some db => some ((dirOf s db).data.map (fun x => (x.1, x.2.bytes.size, x.2.synced)), db.activeId, db.bytesWrite)
  | none => none

/-- type of the last record in the active file (2 = sealing record) -/
private def lastTyp (s : St) : Option Nat :=
  match s.db with
  | some db => ((scan C true db.activeId (activeFile s db).bytes).recs.getLast?).bind
      (fun x => (decodeRecord x.1).map (·.typ))
  | none => none

private def K (s : String) : ByteArray := s.toUTF8
private def fill (n : Nat) (b : UInt8) : ByteArray := ⟨Array.replicate n b⟩
private def cfgOf (fs sy bps : Nat) : Cfg := { fileSize := fs, sync := sy, bps := bps, idx := 0, io := 0, shards := 1 }
private def ops1 : List C01.Op :=
  [.put (K "a") (K "1"), .put (K "b") (K "22"), .put (K "c") (K "333"), .del (K "a"), .put (K "d") (K "4"), .get (K "b")]
private def bops : List C05.BOp := [.bput (K "a") (K "1"), .bput (K "b") (K "22"), .bdel (K "a"), .bput (K "c") (K "333")]

-- policy No, tiny files: four files, every file the engine rotated away from is flushed, the
-- active one is not (25 unflushed bytes)
#guard view (C01.run (openDB St.init "d" (cfgOf 60 0 0)).1 ops1).1
  == some ([(0, 13, 13), (1, 14, 14), (2, 15, 15), (3, 25, 0)], 3, 25)
-- Always: nothing unflushed at any return
#guard (List.range 7).all fun n =>
  match view (C01.run (openDB St.init "d" (cfgOf 1000 1 0)).1 (ops1.take n)).1 with
  | some (fs, _, bw) => fs.all (fun x => x.2.1 == x.2.2) && bw == 0
  | none => false
-- Threshold 40: the flush happens in the call that brings the counter to 42 ≥ 40
#guard (List.range 7).map (fun n => view (C01.run (openDB St.init "d" (cfgOf 1000 2 40)).1 (ops1.take n)).1)
  == [some ([(0, 0, 0)], 0, 0), some ([(0, 13, 0)], 0, 13), some ([(0, 27, 0)], 0, 27), some ([(0, 42, 42)], 0, 0),
      some ([(0, 54, 42)], 0, 12), some ([(0, 67, 42)], 0, 25), some ([(0, 67, 42)], 0, 25)]
-- block padding is NOT counted: the first record ends 7 bytes before the 32 KiB boundary, the
-- second write zero-fills them; 32781 bytes are unflushed, the counter says 32774
#guard view (C01.run (openDB St.init "d" (cfgOf 10000000 2 1000000)).1 [.put (K "a") (fill 32747 1), .put (K "b") (K "x")]).1
  == some ([(0, 32781, 0)], 0, 32774)
-- Sync() flushes the active file; Close() flushes every file
#guard view (syncDB (C01.run (openDB St.init "d" (cfgOf 60 0 0)).1 ops1).1).1
  == some ([(0, 13, 13), (1, 14, 14), (2, 15, 15), (3, 25, 25)], 3, 25)
#guard (((close (C01.run (openDB St.init "d" (cfgOf 60 0 0)).1 ops1).1).1.world.get "d").map
    fun d => d.data.map (fun x => (x.1, x.2.bytes.size, x.2.synced)))
  == some [(0, 13, 13), (1, 14, 14), (2, 15, 15), (3, 25, 25)]
-- a Sync batch: after Commit nothing is unflushed and the active file ends with the sealing record
#guard view (C05.runCommit (openDB St.init "d" (cfgOf 1000 2 10)).1 true 77 bops).1 == some ([(0, 54, 54)], 0, 0)
#guard lastTyp (C05.runCommit (openDB St.init "d" (cfgOf 1000 2 10)).1 true 77 bops).1 == some 2
-- … also with intermediate flushes and rotations (fileSize 100)
#guard view (C05.runCommit (openDB St.init "d" (cfgOf 100 2 10)).1 true 77 bops).1
  == some ([(0, 0, 0), (1, 13, 13), (2, 14, 14), (3, 12, 12), (4, 28, 28)], 4, 0)
-- KNOWN LIMITATION of the implementation (see the header): a batch WITHOUT Sync under
-- Threshold / BytesPerSync = 10 leaves 54 > 10 unflushed bytes after Commit, and the counter is 0
#guard view (C05.runCommit (openDB St.init "d" (cfgOf 1000 2 10)).1 false 77 bops).1 == some ([(0, 54, 0)], 0, 0)
#guard (match (C05.runCommit (openDB St.init "d" (cfgOf 1000 2 10)).1 false 77 bops).1.db with
  | some db => unsynced (activeFile (C05.runCommit (openDB St.init "d" (cfgOf 1000 2 10)).1 false 77 bops).1 db)
      > db.cfg.bps + db.bytesWrite
  | none => false)

/-! ## axioms -/


end XixiKV.C13
