import XixiKV.Proofs.DatatypeEngineCmds
import XixiKV.Properties.C19
import XixiKV.Properties.C01History
/-!
# C19 ON THE ENGINE — the redis-style layer, run on the engine model, refines the abstract redis types
# (C19 ∘ C01 / C02 / C05 / C06: one theorem for the whole stack)

`Properties/C19.lean` proves that `datatype/*.go`, modelled over an ABSTRACT store (`Model/Datatype.lean`,
`KV`), refines the reference specification of the redis types (`Spec/Datatype.lean`).
`Properties/C01History.lean` proves that the ENGINE model refines an abstract map for every history of plain
calls, batch sessions, `Merge`s and restarts.  This file composes the two.

## Construction

`Model/DatatypeOn.lean` writes the sixteen commands once more, GENERIC in the store (`Store σ`: `get` /
`put` / `delete` / one committed `batch`), with the Go functions' handling of engine errors written out.

* Instantiated with the abstract store (`kvStore`) the generic commands ARE the functions of
  `Model/Datatype.lean`: `On.run_kvStore` (`Proofs/DatatypeEngineKV.lean`), for every command, store and
  clock value, no side condition.  So nothing of `Model/Datatype.lean` or of the proofs of C19 is touched, and
  the validation of `Model/Datatype.lean` against the Go code (differential harness) covers the generic
  transcription.
* Instantiated with the engine model (`engineStore bid`): `dtStep s c now bid` issues `Engine.get`,
  `Engine.put`, `Engine.delete` and, for every structural update, ONE batch —
  `Engine.bnew s false bid`; `Engine.bput` / `Engine.bdel` per staged operation; `Engine.bcommit`;
  `Engine.bdrop` — exactly as `datatype/types.go` / `generic.go` do (`bid`: the batch's snowflake id, an
  input per command as everywhere in the engine model; `now`: the clock, as in the datatype model).
* `estep` / `erun` run histories of `EOp`s: commands, restarts (`Close`; `Open` of the same directory under
  ANY valid configuration) and `Merge`s (any visiting order).

## Theorems

* `C19_sim_engine` — the simulation lemma: if the engine state satisfies the invariant of C01History with the
  mapping `kv.get` and no batch object (`On.Rel`), a command run on the engine model and on `kv` gives the same
  reply and related post-states (`get` / `put` / `delete` by the C01 step lemmas, the batch by C05).
* `C19_refines_engine` — the capstone: every output of every history, run on the engine model from the freshly
  opened empty database, is what the abstract redis types prescribe (`specStepE`: the reply of
  `Spec.step` for a command; `.ok`, `.ok` for the `Close` and `Open` of a restart; `.ok` or an error for
  `Merge`; restarts and merges leave the abstract state alone).  Hypotheses: those of `C19_refines` on the
  commands of the history, the engine side conditions `EOpOK`, and the two `uint32` range conditions of the run
  (`ERunOK`, as `RunOK` in C01History).
* `C19_refines_engine_small` — the same with `ERunOK` DERIVED from static bounds (number of calls, estimated
  bytes written): all hypotheses are decidable conditions on the history.
* `C19_refines_engine_replies` — the replies alone: `repliesOf (erun …).2 = (Spec.stepAll (cmdsOf h) ∅).2`.
* `C19_restart_engine` — after any prefix `h₁` and any gap `g` of restarts and merges (e.g. one restart; or
  merge, adopting restart under another configuration, another restart) the replies of `h₂` are those of the
  specification continuing from the state after `h₁`: the whole abstract state is unchanged.
* `engineBatch_trace`, `batchTrace_wf`, `enginePut_trace`, `engineDelete_trace`, `engineGet_trace` — every
  operation of `engineStore` is a call, or a well-formed batch session, of the histories of `C01History`.
* `demo_refines_engine`, `#guard`s — non-vacuity: an executed history on a 160-byte file-size limit.

## Side conditions (all explicit)

* `HistOK U M 0 ∅ (cmdsOf h)` — the hypotheses of `C19_refines`: keys from a prefix-free set `U`, sorted-set
  members from a clash-free set `M`, strictly increasing clock below `2^62`, `StepOK` (sizes below `2^32 - 1`,
  `now + ttl < 2^63`).
* `EOpOK V` — a command's arguments are at most `V` bytes together (`V ≤ 2^25`, so that every record the layer
  writes — internal key `key ‖ 8 bytes ‖ field/member/score/length`, value, metadata ≤ 46 bytes — is within the
  engine's `AOpOK` bound `2^27`; the invariant carries "every stored value is at most `V + 64` bytes", because
  `ZAdd` deletes a key that contains a stored value, the old score); batch ids positive and below `2^63` (NOT
  assumed distinct); restart configurations valid; a `Merge` visits each file once.  (The clock conditions the
  engine side needs — `now < 2^63`, `now + ttl < 2^63` — are among the hypotheses of `C19_refines`.)
* `ERunOK` (dynamic) or `8 * h.length + 1 < 2^32 ∧ totalECost V h < 2^32` (static).
-/
namespace XixiKV.C19E
open XixiKV XixiKV.Engine XixiKV.Engine.HistP XixiKV.Datatype XixiKV.Datatype.On XixiKV.Datatype.Spec

/-! ## the specification of a history of the whole stack -/

/-- what the specification prescribes for one output -/
inductive Expect where
  /-- exactly this reply of the layer -/
  | reply (r : Reply)
  /-- `Close` / `Open`: success -/
  | ok
  /-- `Merge`: success, or an error (`ErrMergeFileIDConflict`: depends on file sizes, not on the data) -/
  | mergeOutcome

def Expect.holds : Expect → Out → Prop
  | .reply r, .reply r' => r' = r
  | .ok, .res r => r = .ok
  | .mergeOutcome, .res r => r = .ok ∨ ∃ e, r = .err e
  | _, _ => False

/-- one call on the specification: a command is `Spec.step`; **restarts and merges leave the state alone** -/
def specStepE (sp : State) : EOp → State × List Expect
  | .cmd c now _ => ((Spec.step c sp now).1, [.reply (Spec.step c sp now).2])
  | .restart _ => (sp, [.ok, .ok])
  | .merge _ => (sp, [.mergeOutcome])

def specRunE (sp : State) : List EOp → State × List Expect
  | [] => (sp, [])
  | op :: ops => ((specRunE (specStepE sp op).1 ops).1, (specStepE sp op).2 ++ (specRunE (specStepE sp op).1 ops).2)

/-- outputs agree position by position -/
def HoldsE : List Expect → List Out → Prop
  | [], [] => True
  | e :: es, o :: os => e.holds o ∧ HoldsE es os
  | _, _ => False

/-! ## side conditions -/

/-- engine-side conditions on a call -/
def EOpOK (V : Nat) : EOp → Prop
  | .cmd c _ bid => argSize c ≤ V ∧ 0 < bid ∧ bid < 2 ^ 63
  | .restart cfg => cfg.Valid
  | .merge order => order.Nodup

instance (V : Nat) : DecidablePred (EOpOK V) := fun op => by
  cases op <;> (simp only [EOpOK]; infer_instance)

/-- the `uint32` range conditions at the two places that need them (as `C01H.StepOK`) -/
def EStepOK (dir : String) (s : St) : EOp → Prop
  | .merge _ => ∀ db, s.db = some db → db.activeId + 1 < 2 ^ 32
  | .restart _ => ∀ md, s.world.get (mergeDirName dir) = some md → md.marker ≠ none →
      ∀ x ∈ md.data, x.2.bytes.size < 2 ^ 32
  | .cmd _ _ _ => True

def ERunOK (dir : String) (s : St) : List EOp → Prop
  | [] => True
  | op :: ops => EStepOK dir s op ∧ ERunOK dir (estep dir s op).1 ops

/-- an upper bound for the bytes a call adds to the data files -/
def ecostOp (V : Nat) : EOp → Nat
  | .cmd c _ _ => ecost V c
  | _ => 0

def totalECost (V : Nat) (h : List EOp) : Nat := (h.map (ecostOp V)).sum

/-! ## the invariant of the whole stack -/

/-- the engine state represents — through some abstract store `kv` — the abstract redis state `sp` -/
def EInv (dir : String) (V : Nat) (U M : List ByteArray) (t : Nat) (s : St) (sp : State) : Prop :=
  ∃ kv, Rel dir V s kv ∧ R U M t kv sp

/-- the clock bound after a call -/
def tAfter (t : Nat) : EOp → Nat
  | .cmd _ now _ => now + 1
  | _ => t

/-- the hypotheses of `C19_refines_step` for a call (nothing for restarts and merges) -/
def SpecOK (U M : List ByteArray) (t : Nat) (sp : State) : EOp → Prop
  | .cmd c now _ => CmdOK U M c ∧ t ≤ now ∧ now < 2 ^ 62 ∧ StepOK sp c now = true
  | _ => True

/-- the clock conditions of `ECmdOK` are among the hypotheses of `C19_refines` -/
theorem stepOK_ttl {sp : State} {c : Cmd} {now : Nat} (h : StepOK sp c now = true) : TtlOK c now := by
  unfold StepOK at h
  unfold TtlOK
  rw [Bool.and_eq_true] at h
  cases c with
  | set k v ttl =>
    cases v with
    | none => trivial
    | some v => exact of_decide_eq_true h.2
  | _ => trivial

theorem ECmdOK_of {V : Nat} {U M : List ByteArray} {t : Nat} {sp : State} {c : Cmd} {now bid : Nat}
    (hop : EOpOK V (.cmd c now bid)) (hsp : SpecOK U M t sp (.cmd c now bid)) : ECmdOK V c now :=
  ⟨hop.1, by have := hsp.2.2.1; omega, stepOK_ttl hsp.2.2.2⟩

theorem HoldsE_append : ∀ {es es' : List Expect} {os os' : List Out}, HoldsE es os → HoldsE es' os' →
    HoldsE (es ++ es') (os ++ os') := by
  intro es
  induction es with
  | nil =>
    intro es' os os' h h'
    cases os with
    | nil => exact h'
    | cons o os => exact absurd h (by simp [HoldsE])
  | cons e es ih =>
    intro es' os os' h h'
    cases os with
    | nil => exact absurd h (by simp [HoldsE])
    | cons o os => exact ⟨h.1, ih h.2 h'⟩

/-- **C19 simulation lemma (one command on the engine).**  If the engine state `s` satisfies the invariant of
    `C01_refines_history` with the mapping `kv.get` and an empty batch slot, and every stored value is at most
    `V + 64` bytes long (`On.Rel`), then the command `c` run on the ENGINE model (`dtStep`: `Engine.get / put /
    delete`, one `bnew … bcommit` batch) and on the abstract store (`Datatype.run`) give the same reply and
    related post-states. -/
theorem C19_sim_engine {dir : String} {V : Nat} (hV : V ≤ 2 ^ 25) {s : St} {kv : KV} (h : Rel dir V s kv)
    (c : Cmd) (now bid : Nat) (hc : ECmdOK V c now) (h0 : 0 < bid) (hlt : bid < 2 ^ 63) :
    (dtStep s c now bid).2 = (Datatype.run c kv now).2 ∧
    Rel dir V (dtStep s c now bid).1 (Datatype.run c kv now).1 :=
  let ⟨h1, h2, _⟩ := sim_cmd hV h c now h0 hlt hc
  ⟨h1, h2⟩

section
variable {dir : String} {V : Nat} {U M : List ByteArray}

/-- **one call of the whole stack** -/
theorem estep_ok (hU : PrefixFree U) (hM : ZNoClash M) (hV : V ≤ 2 ^ 25) {t : Nat} {s : St} {sp : State}
    (hi : EInv dir V U M t s sp) (op : EOp) (hop : EOpOK V op) (hsp : SpecOK U M t sp op) (hst : EStepOK dir s op) :
    HoldsE (specStepE sp op).2 (estep dir s op).2 ∧
    EInv dir V U M (tAfter t op) (estep dir s op).1 (specStepE sp op).1 := by
  obtain ⟨kv, hrel, hR⟩ := hi
  cases op with
  | cmd c now bid =>
    have hc := ECmdOK_of hop hsp
    obtain ⟨_, h0, hlt⟩ := hop
    obtain ⟨hcmd, ht, hnow, hstep⟩ := hsp
    obtain ⟨e1, r1, _⟩ := sim_cmd hV hrel c now h0 hlt hc
    obtain ⟨e2, r2⟩ := C19.C19_refines_step hU hM hR c now hcmd ht hnow hstep
    exact ⟨⟨e1.trans e2, trivial⟩, _, r1, r2⟩
  | restart cfg =>
    obtain ⟨h1, h2, h3⟩ := sim_restart hrel cfg hop hst
    exact ⟨⟨h1, h2, trivial⟩, kv, h3, hR⟩
  | merge order =>
    obtain ⟨h1, h2⟩ := sim_merge hrel order hop hst
    exact ⟨⟨h1, trivial⟩, kv, h2, hR⟩

/-- the hypotheses of `C19_refines` along a history of the whole stack -/
theorem histOK_cons {t : Nat} {sp : State} {op : EOp} {ops : List EOp} (h : HistOK U M t sp (cmdsOf (op :: ops))) :
    SpecOK U M t sp op ∧ HistOK U M (tAfter t op) (specStepE sp op).1 (cmdsOf ops) := by
  cases op with
  | cmd c now bid =>
    obtain ⟨a, b, c', d, e⟩ := h
    exact ⟨⟨a, b, c', d⟩, e⟩
  | restart cfg => exact ⟨trivial, h⟩
  | merge order => exact ⟨trivial, h⟩

theorem endTime_cons (t : Nat) (op : EOp) (ops : List EOp) :
    endTime t (cmdsOf (op :: ops)) = endTime (tAfter t op) (cmdsOf ops) := by
  cases op <;> rfl

/-- **the refinement, from any state of the invariant** -/
theorem erun_ok (hU : PrefixFree U) (hM : ZNoClash M) (hV : V ≤ 2 ^ 25) : ∀ (h : List EOp) {t : Nat} {s : St}
    {sp : State}, EInv dir V U M t s sp → HistOK U M t sp (cmdsOf h) → (∀ op ∈ h, EOpOK V op) → ERunOK dir s h →
    HoldsE (specRunE sp h).2 (erun dir s h).2 ∧
    EInv dir V U M (endTime t (cmdsOf h)) (erun dir s h).1 (specRunE sp h).1 := by
  intro h
  induction h with
  | nil => intro t s sp hi _ _ _; exact ⟨trivial, hi⟩
  | cons op ops ih =>
    intro t s sp hi hok heok hro
    obtain ⟨hsp, hrest⟩ := histOK_cons hok
    obtain ⟨h1, h2⟩ := estep_ok hU hM hV hi op (heok op (by simp)) hsp hro.1
    obtain ⟨i1, i2⟩ := ih h2 hrest (fun o ho => heok o (by simp [ho])) hro.2
    rw [endTime_cons]
    exact ⟨HoldsE_append h1 i1, i2⟩

/-! ## the range conditions of the run, from static bounds -/

/-- the size bound after one call: at most eight more file ids, at most `ecostOp V op` more weight -/
theorem ebnd_step (hV : V ≤ 2 ^ 25) {t : Nat} {s : St} {sp : State} {A W : Nat} (hi : EInv dir V U M t s sp)
    (hb : Bnd s A W) (op : EOp) (hop : EOpOK V op) (hsp : SpecOK U M t sp op) (hA : A + 1 < 2 ^ 32) (hW : W < 2 ^ 32) :
    EStepOK dir s op ∧ Bnd (estep dir s op).1 (A + 8) (W + ecostOp V op) := by
  obtain ⟨kv, hrel, _⟩ := hi
  cases op with
  | cmd c now bid =>
    have hc := ECmdOK_of hop hsp
    obtain ⟨_, h0, hlt⟩ := hop
    obtain ⟨_, _, b1⟩ := sim_cmd hV hrel c now h0 hlt hc
    exact ⟨trivial, b1 A W hb⟩
  | restart cfg =>
    exact ⟨restart_sizes hrel.1 hb hW, (Bnd_restart hrel.1 hb cfg hop hW).mono (by omega) (by simp [ecostOp])⟩
  | merge order =>
    obtain ⟨h1, h2⟩ := Bnd_merge hrel.1 hb order hop hA
    exact ⟨h1, h2.mono (by omega) (by simp [ecostOp])⟩

/-- **`ERunOK` from static bounds** -/
theorem ERunOK_of_small (hU : PrefixFree U) (hM : ZNoClash M) (hV : V ≤ 2 ^ 25) : ∀ (h : List EOp) {t : Nat} {s : St}
    {sp : State} {A W : Nat}, EInv dir V U M t s sp → Bnd s A W → HistOK U M t sp (cmdsOf h) →
    (∀ op ∈ h, EOpOK V op) → A + 8 * h.length + 1 < 2 ^ 32 → W + totalECost V h < 2 ^ 32 → ERunOK dir s h := by
  intro h
  induction h with
  | nil => intro t s sp A W _ _ _ _ _ _; trivial
  | cons op ops ih =>
    intro t s sp A W hi hb hok heok hA hW
    have hlen : (op :: ops).length = ops.length + 1 := rfl
    have hcost : totalECost V (op :: ops) = ecostOp V op + totalECost V ops := by
      simp only [totalECost, List.map_cons, List.sum_cons]
    rw [hlen] at hA
    rw [hcost] at hW
    obtain ⟨hsp, hrest⟩ := histOK_cons hok
    have hop := heok op (by simp)
    obtain ⟨h1, h2⟩ := ebnd_step hV hi hb op hop hsp (by omega) (by omega)
    obtain ⟨_, hi'⟩ := estep_ok hU hM hV hi op hop hsp h1
    exact ⟨h1, ih hi' h2 hrest (fun o ho => heok o (by simp [ho])) (by omega) (by omega)⟩

end

/-! ## the replies alone -/

def expReplies : List Expect → List Reply
  | [] => []
  | .reply r :: es => r :: expReplies es
  | _ :: es => expReplies es

theorem HoldsE.replies : ∀ {es : List Expect} {os : List Out}, HoldsE es os → repliesOf os = expReplies es := by
  intro es
  induction es with
  | nil =>
    intro os h
    cases os with
    | nil => rfl
    | cons o os => exact absurd h (by simp [HoldsE])
  | cons e es ih =>
    intro os h
    cases os with
    | nil => exact absurd h (by simp [HoldsE])
    | cons o os =>
      obtain ⟨h1, h2⟩ := h
      have := ih h2
      cases e <;> cases o <;> simp only [Expect.holds] at h1
      · subst h1; simp only [repliesOf, expReplies, this]
      · simp only [repliesOf, expReplies, this]
      · simp only [repliesOf, expReplies, this]

theorem expReplies_append (a b : List Expect) : expReplies (a ++ b) = expReplies a ++ expReplies b := by
  induction a with
  | nil => rfl
  | cons e a ih => cases e <;> simp [expReplies, ih]

/-- the specification of a history of the whole stack IS `Spec.stepAll` on its commands -/
theorem specRunE_eq : ∀ (h : List EOp) (sp : State),
    (specRunE sp h).1 = (Spec.stepAll (cmdsOf h) sp).1 ∧
    expReplies (specRunE sp h).2 = (Spec.stepAll (cmdsOf h) sp).2 := by
  intro h
  induction h with
  | nil => intro sp; exact ⟨rfl, rfl⟩
  | cons op ops ih =>
    intro sp
    cases op with
    | cmd c now bid =>
      obtain ⟨i1, i2⟩ := ih (Spec.step c sp now).1
      refine ⟨?_, ?_⟩
      · show (specRunE (Spec.step c sp now).1 ops).1 = _
        rw [i1]; rfl
      · show expReplies ([.reply (Spec.step c sp now).2] ++ (specRunE (Spec.step c sp now).1 ops).2) = _
        rw [expReplies_append, i2]; rfl
    | restart cfg =>
      obtain ⟨i1, i2⟩ := ih sp
      exact ⟨i1, by
        show expReplies ([.ok, .ok] ++ (specRunE sp ops).2) = _
        rw [expReplies_append, i2]; rfl⟩
    | merge order =>
      obtain ⟨i1, i2⟩ := ih sp
      exact ⟨i1, by
        show expReplies ([.mergeOutcome] ++ (specRunE sp ops).2) = _
        rw [expReplies_append, i2]; rfl⟩

/-! ## the capstone -/

theorem EInv_fresh (dir : String) (V : Nat) (U M : List ByteArray) (cfg : Cfg) (hcfg : cfg.Valid) :
    (openDB St.init dir cfg).2 = .ok ∧ EInv dir V U M 0 (openDB St.init dir cfg).1 State.empty :=
  ⟨(Rel_fresh dir V cfg hcfg).1, KV.empty, (Rel_fresh dir V cfg hcfg).2, R_empty U M 0⟩

/-- **C19_refines_engine.**  For every directory name, every valid initial configuration and every history `h`
    of datatype commands, restarts (under any valid configurations) and `Merge`s that satisfies the side
    conditions (file header): `Open` of the fresh directory succeeds, and running `h` ON THE ENGINE MODEL yields,
    output by output, what the abstract redis types prescribe — every reply of every command equals the reply of
    `Spec.step` (`Spec/Datatype.lean`), every `Close` / `Open` of a restart answers `.ok`, every `Merge` answers
    `.ok` or an error; in the specification restarts and merges do not touch the abstract state. -/
theorem C19_refines_engine {U M : List ByteArray} (hU : PrefixFree U) (hM : ZNoClash M)
    (dir : String) (cfg : Cfg) (hcfg : cfg.Valid) (V : Nat) (hV : V ≤ 2 ^ 25) (h : List EOp)
    (hok : HistOK U M 0 State.empty (cmdsOf h)) (heok : ∀ op ∈ h, EOpOK V op)
    (hrun : ERunOK dir (openDB St.init dir cfg).1 h) :
    (openDB St.init dir cfg).2 = .ok ∧
    HoldsE (specRunE State.empty h).2 (erun dir (openDB St.init dir cfg).1 h).2 ∧
    EInv dir V U M (endTime 0 (cmdsOf h)) (erun dir (openDB St.init dir cfg).1 h).1
      (Spec.stepAll (cmdsOf h) State.empty).1 := by
  obtain ⟨h0, hi0⟩ := EInv_fresh dir V U M cfg hcfg
  obtain ⟨h1, h2⟩ := erun_ok hU hM hV h hi0 hok heok hrun
  rw [(specRunE_eq h State.empty).1] at h2
  exact ⟨h0, h1, h2⟩

/-- **C19_refines_engine, all hypotheses static**: `ERunOK` replaced by bounds on the history alone — fewer than
    `2^29` calls, estimated bytes written (`ecost`: three records of the arguments' size plus `V + 128`, and a
    sealing record, per writing command) below 4 GiB. -/
theorem C19_refines_engine_small {U M : List ByteArray} (hU : PrefixFree U) (hM : ZNoClash M)
    (dir : String) (cfg : Cfg) (hcfg : cfg.Valid) (V : Nat) (hV : V ≤ 2 ^ 25) (h : List EOp)
    (hok : HistOK U M 0 State.empty (cmdsOf h)) (heok : ∀ op ∈ h, EOpOK V op)
    (hlen : 8 * h.length + 1 < 2 ^ 32) (hcost : totalECost V h < 2 ^ 32) :
    ERunOK dir (openDB St.init dir cfg).1 h ∧
    (openDB St.init dir cfg).2 = .ok ∧
    HoldsE (specRunE State.empty h).2 (erun dir (openDB St.init dir cfg).1 h).2 ∧
    EInv dir V U M (endTime 0 (cmdsOf h)) (erun dir (openDB St.init dir cfg).1 h).1
      (Spec.stepAll (cmdsOf h) State.empty).1 := by
  obtain ⟨_, hi0⟩ := EInv_fresh dir V U M cfg hcfg
  have hro : ERunOK dir (openDB St.init dir cfg).1 h :=
    ERunOK_of_small hU hM hV h hi0 (Bnd_fresh dir cfg hcfg) hok heok (by omega) (by omega)
  exact ⟨hro, C19_refines_engine hU hM dir cfg hcfg V hV h hok heok hro⟩

/-- **C19_refines_engine, the replies**: the replies of the commands of `h`, run on the engine model with
    restarts and merges in between, are the replies of the reference specification to the commands alone. -/
theorem C19_refines_engine_replies {U M : List ByteArray} (hU : PrefixFree U) (hM : ZNoClash M)
    (dir : String) (cfg : Cfg) (hcfg : cfg.Valid) (V : Nat) (hV : V ≤ 2 ^ 25) (h : List EOp)
    (hok : HistOK U M 0 State.empty (cmdsOf h)) (heok : ∀ op ∈ h, EOpOK V op)
    (hrun : ERunOK dir (openDB St.init dir cfg).1 h) :
    repliesOf (erun dir (openDB St.init dir cfg).1 h).2 = (Spec.stepAll (cmdsOf h) State.empty).2 := by
  rw [(C19_refines_engine hU hM dir cfg hcfg V hV h hok heok hrun).2.1.replies]
  exact (specRunE_eq h State.empty).2

/-! ## restart (and merge + adopting restart + restart) leave the whole abstract state unchanged -/

theorem erun_append (dir : String) : ∀ (a b : List EOp) (s : St),
    erun dir s (a ++ b) = ((erun dir (erun dir s a).1 b).1, (erun dir s a).2 ++ (erun dir (erun dir s a).1 b).2) := by
  intro a
  induction a with
  | nil => intro b s; rfl
  | cons op a ih =>
    intro b s
    show ((erun dir (estep dir s op).1 (a ++ b)).1, (estep dir s op).2 ++ (erun dir (estep dir s op).1 (a ++ b)).2) = _
    rw [ih]
    simp only [erun, List.append_assoc]

theorem ERunOK_append (dir : String) : ∀ (a b : List EOp) (s : St),
    ERunOK dir s (a ++ b) ↔ ERunOK dir s a ∧ ERunOK dir (erun dir s a).1 b := by
  intro a
  induction a with
  | nil => intro b s; simp [ERunOK, erun]
  | cons op a ih =>
    intro b s
    simp only [List.cons_append, ERunOK, ih, erun, and_assoc]

theorem cmdsOf_append : ∀ (a b : List EOp), cmdsOf (a ++ b) = cmdsOf a ++ cmdsOf b := by
  intro a
  induction a with
  | nil => intro b; rfl
  | cons op a ih => intro b; cases op <;> simp [cmdsOf, ih]

/-- a gap: restarts and merges only -/
def isGap : List EOp → Bool
  | [] => true
  | .cmd _ _ _ :: _ => false
  | _ :: ops => isGap ops

theorem cmdsOf_gap : ∀ (g : List EOp), isGap g = true → cmdsOf g = [] := by
  intro g
  induction g with
  | nil => intro _; rfl
  | cons op g ih =>
    intro h
    cases op with
    | cmd c now bid => simp [isGap] at h
    | restart cfg => exact ih h
    | merge order => exact ih h

/-- **C19_restart_engine.**  Run `h₁`, then a gap `g` of restarts and merges — a restart; or a `Merge`, the
    restart that adopts its output (under any other configuration) and one more restart; any such sequence —
    then `h₂`, all on the engine model from the fresh database.  The replies of `h₂` are those of the reference
    specification continuing from the abstract state after `h₁`: restarts and merges change no key, no type,
    no element, no expiry. -/
theorem C19_restart_engine {U M : List ByteArray} (hU : PrefixFree U) (hM : ZNoClash M)
    (dir : String) (cfg : Cfg) (hcfg : cfg.Valid) (V : Nat) (hV : V ≤ 2 ^ 25) (h₁ g h₂ : List EOp)
    (hg : isGap g = true)
    (hok : HistOK U M 0 State.empty (cmdsOf (h₁ ++ g ++ h₂))) (heok : ∀ op ∈ h₁ ++ g ++ h₂, EOpOK V op)
    (hrun : ERunOK dir (openDB St.init dir cfg).1 (h₁ ++ g ++ h₂)) :
    repliesOf (erun dir (erun dir (openDB St.init dir cfg).1 (h₁ ++ g)).1 h₂).2
      = (Spec.stepAll (cmdsOf h₂) (Spec.stepAll (cmdsOf h₁) State.empty).1).2 := by
  obtain ⟨_, hi0⟩ := EInv_fresh dir V U M cfg hcfg
  have hc : cmdsOf (h₁ ++ g) = cmdsOf h₁ := by rw [cmdsOf_append, cmdsOf_gap g hg, List.append_nil]
  rw [cmdsOf_append, hc] at hok
  obtain ⟨hok₁, hok₂⟩ := (histOK_append _ _ 0 State.empty).mp hok
  obtain ⟨hr₁, hr₂⟩ := (ERunOK_append dir _ _ _).mp hrun
  obtain ⟨_, hi₁⟩ := erun_ok hU hM hV (h₁ ++ g) hi0 (by rw [hc]; exact hok₁)
    (fun o ho => heok o (by simp only [List.mem_append] at ho ⊢; exact Or.inl ho)) hr₁
  rw [hc, (specRunE_eq (h₁ ++ g) State.empty).1, hc] at hi₁
  obtain ⟨h2, _⟩ := erun_ok hU hM hV h₂ hi₁ hok₂
    (fun o ho => heok o (by simp only [List.mem_append] at ho ⊢; exact Or.inr ho)) hr₂
  rw [h2.replies]
  exact (specRunE_eq h₂ _).2

/-! ## the engine calls of the layer are histories in the sense of `C01History`

Every operation of `engineStore` is a call — or, for a batch, a well-formed batch session — of the histories
`C01H.HOp` about which `C01_refines_history` speaks: the whole stack adds no new way of driving the engine. -/

/-- the calls of one batch: `NewBatch`, one `Put` / `Delete` per staged operation, `Commit`, the object dropped -/
def batchTrace (bid : Nat) (ops : List KV.Op) : List C01H.HOp :=
  .a (.bnew false bid) ::
    (ops.map (fun op => match op with
      | .put k v => C01H.HOp.a (.bput k v)
      | .del k => C01H.HOp.a (.bdel k)) ++ [.a .bcommit, .a .bdrop])

theorem hrun_stage (dir : String) (rest : List C01H.HOp) : ∀ (ops : List KV.Op) (s : St),
    (C01H.hrun dir s (ops.map (fun op => match op with
      | .put k v => C01H.HOp.a (.bput k v)
      | .del k => C01H.HOp.a (.bdel k)) ++ rest)).1 = (C01H.hrun dir (ops.foldl stageOp s) rest).1 := by
  intro ops
  induction ops with
  | nil => intro s; rfl
  | cons op ops ih =>
    intro s
    cases op with
    | put k v => exact ih (stageOp s (.put k v))
    | del k => exact ih (stageOp s (.del k))

/-- `engineBatch` IS the run of a batch session of `C01History` … -/
theorem engineBatch_trace (dir : String) (bid : Nat) (s : St) (ops : List KV.Op) :
    (engineBatch bid s ops).1 = (C01H.hrun dir s (batchTrace bid ops)).1 := by
  show _ = (C01H.hrun dir (bnew s false bid).1 _).1
  rw [hrun_stage]
  rfl

/-- … which is well-formed (only the batch's own calls between `NewBatch` and `Commit`) and leaves no live batch -/
theorem batchTrace_wf (bid : Nat) : ∀ (ops : List KV.Op), C01H.WF false (batchTrace bid ops) = true := by
  intro ops
  show C01H.WF true _ = true
  induction ops with
  | nil => rfl
  | cons op ops ih => cases op <;> exact ih

/-- the plain operations are single calls -/
theorem enginePut_trace (dir : String) (bid : Nat) (s : St) (k v : ByteArray) :
    ((engineStore bid).put s k v).1 = (C01H.hrun dir s [.a (.put k v)]).1 := rfl
theorem engineDelete_trace (dir : String) (bid : Nat) (s : St) (k : ByteArray) :
    ((engineStore bid).delete s k).1 = (C01H.hrun dir s [.a (.del k)]).1 := rfl
theorem engineGet_trace (dir : String) (bid : Nat) (s : St) (k : ByteArray) :
    (C01H.hstep dir s (.a (.get k))).2 = [(engineStore bid).get s k] ∧ (C01H.hstep dir s (.a (.get k))).1 = s :=
  ⟨rfl, PolicyP.get_state s k⟩

/-! ## Non-vacuity: an executed history of the whole stack

All five types on a 160-byte file-size limit (the data files rotate several times); a sorted-set score update
(which deletes a key containing a stored value) and an `SRem`; a `Merge`; a batch committed AFTER the merge and
before its adoption; the adopting restart under another configuration; reads; a second restart under a third
configuration; more commands; a `Merge` of the adopted directory; a third restart; reads.  Batch ids repeat
(snowflake ids of one millisecond). -/

def kb (s : String) : ByteArray := s.toUTF8
def cfgA : Cfg := { fileSize := 160, sync := 0, bps := 0, idx := 0, io := 0, shards := 1 }
def cfgB : Cfg := { fileSize := 96, sync := 1, bps := 0, idx := 2, io := 1, shards := 16 }
def cfgC : Cfg := { fileSize := 4096, sync := 2, bps := 100, idx := 1, io := 0, shards := 4 }

def demoE : List EOp :=
  [.cmd (.set (kb "k1") (some (kb "hello")) 0) 10 7,
   .cmd (.hset (kb "k2") (kb "a") (kb "v1")) 11 7,
   .cmd (.hset (kb "k2") (kb "b") (kb "v2")) 12 8,
   .cmd (.sadd (kb "k3") (kb "a")) 13 8,
   .cmd (.sadd (kb "k3") (kb "b")) 14 9,
   .cmd (.lpush (kb "k4") (kb "a")) 15 9,
   .cmd (.rpush (kb "k4") (kb "b")) 16 9,
   .cmd (.zadd (kb "k5") (kb "1.5") (kb "a")) 17 9,
   .cmd (.zadd (kb "k5") (kb "-2") (kb "a")) 18 9,
   .cmd (.srem (kb "k3") (kb "a")) 19 10,
   .merge [1, 0, 2],
   .cmd (.hdel (kb "k2") (kb "a")) 20 11,
   .restart cfgB,
   .cmd (.get (kb "k1")) 21 12, .cmd (.hget (kb "k2") (kb "a")) 22 12, .cmd (.hget (kb "k2") (kb "b")) 23 12,
   .cmd (.sismember (kb "k3") (kb "a")) 24 12, .cmd (.sismember (kb "k3") (kb "b")) 25 12,
   .cmd (.lpop (kb "k4")) 26 12, .cmd (.zscore (kb "k5") (kb "a")) 27 12, .cmd (.type (kb "k5")) 28 12,
   .restart cfgC,
   .cmd (.rpop (kb "k4")) 29 13, .cmd (.get (kb "k1")) 30 13, .cmd (.del (kb "k1")) 31 13,
   .cmd (.lpush (kb "k1") (kb "x")) 32 13,
   .merge [],
   .restart cfgA,
   .cmd (.zscore (kb "k5") (kb "a")) 33 14, .cmd (.hget (kb "k2") (kb "b")) 34 14, .cmd (.lpop (kb "k4")) 35 14,
   .cmd (.get (kb "k1")) 36 14, .cmd (.rpop (kb "k1")) 37 14]

def demoU : List ByteArray := [kb "k1", kb "k2", kb "k3", kb "k4", kb "k5"]
def demoM : List ByteArray := [kb "a", kb "b"]

theorem demoU_ok : PrefixFree demoU := by decide
theorem demoM_ok : ZNoClash demoM := by decide
set_option maxRecDepth 100000 in
theorem demo_hist : HistOK demoU demoM 0 State.empty (cmdsOf demoE) := by decide
theorem demo_eok : ∀ op ∈ demoE, EOpOK 64 op := by decide
theorem demo_len : 8 * demoE.length + 1 < 2 ^ 32 := by decide
theorem demo_cost : totalECost 64 demoE < 2 ^ 32 := by decide

/-- all hypotheses of `C19_refines_engine_small` — hence of `C19_refines_engine` — hold for the concrete history -/
theorem demo_refines_engine :
    ERunOK "d" (openDB St.init "d" cfgA).1 demoE ∧ (openDB St.init "d" cfgA).2 = .ok ∧
    HoldsE (specRunE State.empty demoE).2 (erun "d" (openDB St.init "d" cfgA).1 demoE).2 ∧
    EInv "d" 64 demoU demoM (endTime 0 (cmdsOf demoE)) (erun "d" (openDB St.init "d" cfgA).1 demoE).1
      (Spec.stepAll (cmdsOf demoE) State.empty).1 :=
  C19_refines_engine_small demoU_ok demoM_ok "d" cfgA (by decide) 64 (by decide) demoE demo_hist demo_eok demo_len demo_cost

/-- `C19_restart_engine` on the concrete history: the replies after the gap `Merge; restart cfgA` (calls 26, 27)
    are those of the specification continuing from the abstract state after the first 26 calls -/
example :
    repliesOf (erun "d" (erun "d" (openDB St.init "d" cfgA).1 (demoE.take 26 ++ [.merge [], .restart cfgA])).1
        (demoE.drop 28)).2
      = (Spec.stepAll (cmdsOf (demoE.drop 28)) (Spec.stepAll (cmdsOf (demoE.take 26)) State.empty).1).2 :=
  have e : demoE.take 26 ++ [.merge [], .restart cfgA] ++ demoE.drop 28 = demoE := rfl
  C19_restart_engine demoU_ok demoM_ok "d" cfgA (by decide) 64 (by decide) (demoE.take 26) [.merge [], .restart cfgA]
    (demoE.drop 28) rfl (by rw [e]; exact demo_hist) (by rw [e]; exact demo_eok) (by rw [e]; exact demo_refines_engine.1)

/-! ### evaluated (compiled evaluation by `#guard`; not used by any proof) -/

private def resOk : Res → Bool
  | .ok => true
  | _ => false

private def checkOut : Expect → Out → Bool
  | .reply r, .reply r' => r == r'
  | .ok, .res r => resOk r
  | .mergeOutcome, .res r => match r with
    | .ok => true
    | .err _ => true
    | _ => false
  | _, _ => false

private def engineRes : List Out → List Bool
  | [] => []
  | .res r :: os => resOk r :: engineRes os
  | _ :: os => engineRes os

private def nFiles (s : St) (dir : String) : Option (List Nat) := (s.world.get dir).map (fun d => d.data.map (·.1))
private def demoSt (n : Nat) : St := (erun "d" (openDB St.init "d" cfgA).1 (demoE.take n)).1

-- the replies of the engine run are the replies of the reference specification …
#guard repliesOf (erun "d" (openDB St.init "d" cfgA).1 demoE).2 == (Spec.stepAll (cmdsOf demoE) State.empty).2
-- … namely these
#guard repliesOf (erun "d" (openDB St.init "d" cfgA).1 demoE).2 ==
  [.ok, .flag true, .flag true, .flag true, .flag true, .size 1, .size 2, .flag true, .flag false, .flag true,
   .flag true,
   .bytes (kb "hello"), .notFound, .bytes (kb "v2"), .flag false, .flag true, .bytes (kb "a"), .score (kb "-2"), .size 4,
   .bytes (kb "b"), .bytes (kb "hello"), .ok, .size 1,
   .score (kb "-2"), .bytes (kb "v2"), .nil, .wrongType, .bytes (kb "x")]
-- every output is what the specification prescribes, position by position (28 replies, 6 restart results, 2 merge results)
#guard (List.zipWith checkOut (specRunE State.empty demoE).2 (erun "d" (openDB St.init "d" cfgA).1 demoE).2).all id
#guard (specRunE State.empty demoE).2.length = (erun "d" (openDB St.init "d" cfgA).1 demoE).2.length
-- both merges and all three restarts (Close, Open) succeed
#guard engineRes (erun "d" (openDB St.init "d" cfgA).1 demoE).2 == [true, true, true, true, true, true, true, true]
-- the data rotates: files before the first merge; the merge output; after the adopting restart
#guard nFiles (demoSt 10) "d" == some [0, 1, 2, 3, 4, 5, 6, 7, 8, 9, 10, 11, 12, 13, 14, 15, 16]
#guard nFiles (demoSt 11) "d-merge" == some [0, 1, 2]
#guard nFiles (demoSt 12) "d" == some [0, 1, 2, 3, 4, 5, 6, 7, 8, 9, 10, 11, 12, 13, 14, 15, 16, 17, 18]
#guard nFiles (demoSt 13) "d" == some [0, 1, 2, 17, 18]
#guard nFiles (demoSt 13) "d-merge" == none
-- the second merge and its adoption
#guard nFiles (demoSt 27) "d-merge" == some [0]
#guard nFiles (demoSt 28) "d" == some [0, 20]

end XixiKV.C19E
