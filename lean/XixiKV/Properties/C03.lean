import XixiKV.Proofs.EngineRestart
import XixiKV.Proofs.ZeroExt
import XixiKV.Proofs.TornZero
import XixiKV.Proofs.Truncate
/-!
# C03 — crash recovery, and the atomicity part of C04

C03: "If the process dies at any instant - optionally losing any not-yet-synced tail of any file,
as in a power failure - the next Open succeeds without panicking and exposes the mapping produced
by some prefix of the mutations in the order they were acknowledged.  That prefix contains every
mutation acknowledged before the last successful sync of its file, and every acknowledged mutation
when only the process (not the OS) died."

C04 (atomicity): "The operations of one batch take effect as a unit: after any crash or restart
either every put and delete of the batch is visible or none is."

Crash model.  A crash image of a data directory (`CrashImage`, `Proofs/EngineRestart.lean`) keeps
of every file some prefix at least as long as its synced prefix.  Because rotation syncs the old
active file before switching (`OnlyLastCut`), only the last file can actually lose bytes; the
decomposed form used by `C03_open_crash` is: earlier files intact (`Matches dataI gI`), the last
file cut to `n ≤ size` bytes.  Process death without OS failure is the case `n = size`.
The lock is advisory and dies with the process (`locked = false`); no merge directory is pending
(merge adoption after a crash is a separate property).
-/
namespace XixiKV.C03
open XixiKV XixiKV.Frame XixiKV.Record XixiKV.Index XixiKV.Engine XixiKV.Engine.Restart

/-- **C03, Open on a crash image**: it returns `.ok`, never an error; the index is the replay of
    the ghost log `g'` = `g` with its last file reduced to its first `j` records, where `j` is the
    number of records of that file lying wholly inside the cut; the last file has been truncated to
    exactly `bytesOf (gl.take j)`; and the engine invariant holds again for `g'` (so all later
    appends are well-formed and every live-operation theorem applies again). -/
theorem C03_open_crash (s : St) (dir : String) (cfg : Cfg) (d : DirSt)
    (gI : GDir) (id : Nat) (gl : GFile) (dataI : List (Nat × FileSt)) (fl : FileSt) (n : Nat)
    (hdb : s.db = none) (hcfg : cfg.Valid)
    (hd : s.world.get dir = some d) (hl : d.locked = false)
    (hnomerge : s.world.get (mergeDirName dir) = none)
    (hasc : AscIds (gI ++ [(id, gl)]))
    (hrecs : ∀ x ∈ gI ++ [(id, gl)], ∀ r ∈ x.2, RecOK r)
    (hdata : d.data = dataI ++ [(id, fl)]) (hI : Matches dataI gI)
    (hn : n ≤ (bytesOf gl).size) (hfl : fl.bytes = (bytesOf gl).extract 0 n) :
    ∃ j, j ≤ gl.length ∧ (bytesOf (gl.take j)).size ≤ n ∧
      (j < gl.length → n < (bytesOf (gl.take (j+1))).size) ∧
      ∃ s' db', openDB s dir cfg = (s', .ok) ∧ s'.db = some db' ∧
        db'.dir = dir ∧ db'.cfg = cfg ∧ db'.activeId = id ∧
        db'.index = (replayLog (logOf (gI ++ [(id, gl.take j)]))).index ∧
        (∃ d' sy', s'.world.get dir = some d' ∧
          d'.data = dataI ++ [(id, ⟨bytesOf (gl.take j), sy'⟩)]) ∧
        Inv s' db' (gI ++ [(id, gl.take j)]) ∧
        s'.world.get (mergeDirName dir) = none := by
  obtain ⟨j, hj, hfit, hnfit, sy', hopen⟩ :=
    openDB_crash s dir cfg d gI id gl dataI fl n hdb hcfg hd hl hnomerge hrecs hdata hI hn hfl
  have hact : (mkDB cfg dir (replayLog (logOf (gI ++ [(id, gl.take j)])))
      (dataI ++ [(id, ⟨bytesOf (gl.take j), sy'⟩)])).activeId = id := by
    unfold mkDB
    exact activeId_of_getLast (by rw [List.getLast?_concat]; rfl)
  refine ⟨j, hj, hfit, hnfit, _, _, hopen, rfl, rfl, rfl, hact, rfl,
    ⟨_, sy', World.get_set_self _ _ _, rfl⟩, ?_, ?_⟩
  · exact {
      dir := ⟨_, World.get_set_self _ _ _, rfl, Matches_append hI (by simp [Matches])⟩
      asc := AscIds_cut _ hasc
      active := by rw [List.getLast?_concat, hact]; rfl
      recs := by
        intro x hx r hr
        simp only [List.mem_append, List.mem_singleton] at hx
        rcases hx with hx | hx
        · exact hrecs x (by simp [hx]) r hr
        · subst hx
          exact hrecs (id, gl) (by simp) r (List.mem_of_mem_take hr)
      index := rfl
      sorted := replay_sorted _
      counters := replay_counters _
      nobatch := rfl }
  · rw [World.get_set_ne _ _ _ _ (Restart.mergeDirName_ne _)]; exact hnomerge

/-- **C03, what survives** — for the `j` of `C03_open_crash` (characterised by: the first `j`
    records fit into the `n` surviving bytes, the first `j+1` do not):
    * the recovered log is a PREFIX of the acknowledged log;
    * every record prefix that fits into the surviving bytes is kept: if the first `m` records
      occupy at most `n` bytes — in particular if the synced length is the end of record `m` and
      the cut respects it — then `m ≤ j` and the log up to `m` is a prefix of the recovered log;
    * if nothing was cut (`n` = size: only the process died) everything survives, `g' = g`. -/
theorem C03_prefix (gI : GDir) (id : Nat) (gl : GFile) (n j : Nat) (hj : j ≤ gl.length)
    (hnfit : j < gl.length → n < (bytesOf (gl.take (j+1))).size) :
    logOf (gI ++ [(id, gl.take j)]) <+: logOf (gI ++ [(id, gl)]) ∧
    (∀ m, m ≤ gl.length → (bytesOf (gl.take m)).size ≤ n →
      m ≤ j ∧ logOf (gI ++ [(id, gl.take m)]) <+: logOf (gI ++ [(id, gl.take j)])) ∧
    (n = (bytesOf gl).size → j = gl.length ∧ gI ++ [(id, gl.take j)] = gI ++ [(id, gl)]) := by
  refine ⟨logOf_cut_prefix gI id gl j, ?_, ?_⟩
  · intro m hm hmn
    have hmj : m ≤ j := by
      apply Classical.byContradiction
      intro hlt
      have h1 := hnfit (by omega)
      have h2 := size_bytesOf_take_mono gl (j+1) m (by omega)
      omega
    exact ⟨hmj, logOf_cut_mono gI id gl m j hmj⟩
  · intro hn
    have hjl : j = gl.length := by
      apply Classical.byContradiction
      intro hne
      have h1 := hnfit (by omega)
      have h2 := size_bytesOf_take_le gl (j+1)
      omega
    refine ⟨hjl, ?_⟩
    rw [hjl, List.take_length]

/-- **C03, from a live state**: let `s` be any state in which the handle `db` satisfies the engine
    invariant for `g`, with only the last file possibly unsynced; let `sc` be any state whose
    directory is a crash image of it (handle gone, lock released).  Then `Open` (any valid
    configuration) succeeds and the recovered handle satisfies the invariant for a ghost directory
    `g'` whose log is a prefix of the log of `g`; this prefix contains the first `m` records of the
    last file whenever its synced length covers them (earlier files are entirely kept), and is the
    whole log when no byte was lost. -/
theorem C03_crash_restart (s sc : St) (db : DB) (g : GDir) (cfg : Cfg) (d dc : DirSt)
    (hinv : Inv s db g) (hd : s.world.get db.dir = some d) (hlast : OnlyLastCut d.data)
    (hnodb : sc.db = none) (hdc : sc.world.get db.dir = some dc) (hunl : dc.locked = false)
    (himg : CrashImage d.data dc.data)
    (hnomerge : sc.world.get (mergeDirName db.dir) = none) (hcfg : cfg.Valid) :
    ∃ g' s' db', openDB sc db.dir cfg = (s', .ok) ∧ s'.db = some db' ∧ Inv s' db' g' ∧
      db'.activeId = db.activeId ∧
      db'.index = (replayLog (logOf g')).index ∧
      logOf g' <+: logOf g ∧
      (∀ gI id gl f m, g = gI ++ [(id, gl)] → d.data.getLast? = some (id, f) → m ≤ gl.length →
        (bytesOf (gl.take m)).size ≤ f.synced → logOf (gI ++ [(id, gl.take m)]) <+: logOf g') ∧
      (dc.data.map (fun x => (x.1, x.2.bytes.size)) = d.data.map (fun x => (x.1, x.2.bytes.size)) →
        g' = g ∧ db'.index = db.index) := by
  obtain ⟨d0, hd0, _, hm⟩ := hinv.dir
  rw [hd] at hd0; cases hd0
  have hgne : g ≠ [] := getLast?_ne_none_of_map hinv.active
  obtain ⟨gI, id, gl, dataI, f, fl, n, hg, hlastf, hdcdata, hI, hfb, hsn, hn, hfl⟩ :=
    crashImage_decomp d.data dc.data g hm hlast himg hgne
  subst hg
  obtain ⟨j, hj, hfit, hnfit, s', db', hopen, hdb', _, _, hact, hix, _, hinv', _⟩ :=
    C03_open_crash sc db.dir cfg dc gI id gl dataI fl n hnodb hcfg hdc hunl hnomerge hinv.asc
      hinv.recs hdcdata hI hn hfl
  obtain ⟨hpre, hsync, hall⟩ := C03_prefix gI id gl n j hj hnfit
  have hid : db.activeId = id := by
    have := hinv.active
    rw [List.getLast?_concat] at this
    simpa using this.symm
  refine ⟨gI ++ [(id, gl.take j)], s', db', hopen, hdb', hinv', by rw [hact, hid], hix, hpre, ?_, ?_⟩
  · intro gI' id' gl' f' m hg' hlast' hm' hsz
    have hlen : (gI ++ [(id, gl)]).getLast? = (gI' ++ [(id', gl')]).getLast? := by rw [hg']
    rw [List.getLast?_concat, List.getLast?_concat] at hlen
    cases hlen
    have hgI : gI = gI' := List.append_cancel_right hg'
    subst hgI
    rw [hlastf] at hlast'
    cases hlast'
    exact (hsync m hm' (by omega)).2
  · intro hsame
    -- nothing was cut: the last file kept its size
    have hlastc : dc.data.getLast? = some (id, fl) := by rw [hdcdata, List.getLast?_concat]
    have h1 : (dc.data.map (fun x => (x.1, x.2.bytes.size))).getLast? = some (id, fl.bytes.size) := by
      rw [List.getLast?_map, hlastc]; rfl
    have h2 : (d.data.map (fun x => (x.1, x.2.bytes.size))).getLast? = some (id, f.bytes.size) := by
      rw [List.getLast?_map, hlastf]; rfl
    rw [hsame, h2] at h1
    have hsz : fl.bytes.size = f.bytes.size := by
      simp only [Option.some.injEq, Prod.mk.injEq, true_and] at h1; exact h1.symm
    rw [hfl, size_extract0 _ _ hn, hfb] at hsz
    obtain ⟨_, hgg⟩ := hall hsz
    refine ⟨hgg, ?_⟩
    rw [hix, hgg, hinv.index]

/-! ## C04, atomicity in the replay -/

/-- **C04 (atomicity), the prefix form**: let the log be `l₁` followed by tagged records of one
    batch `b ≠ 0`, none of them the sealing record (a crash cut the batch anywhere before its
    sealing record).  Then
    * replay exposes NONE of them: index and both counters are those of `l₁` (no freshness needed);
    * if nothing was parked under `b` after `l₁` (batch-id freshness), then appending the sealing
      record applies ALL of them, in order, on top of the state after `l₁`: the whole replay state
      is `applyAll … tagged` (the fold of `Replay.apply`, i.e. `updateIndex`), and in particular
      the index is `applyIx (replayLog l₁).index tagged` — the very index the same operations would
      have produced as individual, untagged writes.
    (`countFin r sz` = `r` with `total` and `reclaim` raised by the size of the sealing record;
     `dropBatch r b` = `r` with everything parked under `b` forgotten.) -/
theorem C04_atomic_replay (l₁ tagged : List (Record × Pos)) (b : Nat) (hb : b ≠ 0)
    (htag : ∀ x ∈ tagged, x.1.batch = b ∧ x.1.typ ≠ 2) :
    ((replayLog (l₁ ++ tagged)).index = (replayLog l₁).index ∧
     (replayLog (l₁ ++ tagged)).total = (replayLog l₁).total ∧
     (replayLog (l₁ ++ tagged)).reclaim = (replayLog l₁).reclaim) ∧
    (pendingGet (replayLog l₁).pending b = [] →
      ∀ (fin : Record) (p : Pos), fin.batch = b → fin.typ = 2 →
        replayRec (replayLog (l₁ ++ tagged)) fin p
          = dropBatch (applyAll (countFin (replayLog l₁) p.size) tagged) b ∧
        (replayLog (l₁ ++ tagged ++ [(fin, p)])).index = applyIx (replayLog l₁).index tagged) := by
  have hrep : replayLog (l₁ ++ tagged)
      = setPending (replayLog l₁) (parkAll (replayLog l₁).pending b tagged) := by
    rw [replayLog_eq, replayFrom_append, ← replayLog_eq, replayFrom_tagged b hb tagged _ htag]
    rfl
  refine ⟨by rw [hrep]; exact ⟨rfl, rfl, rfl⟩, ?_⟩
  intro hfresh fin p hfb hft
  have hstep : replayRec (replayLog (l₁ ++ tagged)) fin p
      = dropBatch (applyAll (countFin (replayLog l₁) p.size) tagged) b := by
    rw [hrep]
    exact replayRec_seal (replayLog l₁) b hb tagged hfresh fin p hfb hft
  refine ⟨hstep, ?_⟩
  have : replayLog (l₁ ++ tagged ++ [(fin, p)]) = replayRec (replayLog (l₁ ++ tagged)) fin p := by
    rw [replayLog_eq, replayFrom_append, ← replayLog_eq]; rfl
  rw [this, hstep]
  show (applyAll _ tagged).index = _
  rw [applyAll_index]
  rfl

/-- **C04 (atomicity), any interleaving**: in ANY log that does not contain the sealing record of
    batch `b ≠ 0` — wherever the records of `b` are, whatever lies between and after them — none of
    `b`'s records is visible: index and counters equal those of the log with all records of `b`
    removed. -/
theorem C04_unsealed_invisible (l : List (Record × Pos)) (b : Nat) (hb : b ≠ 0)
    (hnofin : ∀ x ∈ l, x.1.batch = b → x.1.typ ≠ 2) :
    (replayLog l).index = (replayLog (l.filter (fun x => x.1.batch ≠ b))).index ∧
    (replayLog l).total = (replayLog (l.filter (fun x => x.1.batch ≠ b))).total ∧
    (replayLog l).reclaim = (replayLog (l.filter (fun x => x.1.batch ≠ b))).reclaim := by
  have h := replayFrom_filter_batch b hb l Replay.init hnofin
  have h0 : dropBatch Replay.init b = Replay.init := rfl
  rw [h0, ← replayLog_eq, ← replayLog_eq] at h
  rw [h]
  exact ⟨rfl, rfl, rfl⟩

/-! ## non-vacuity -/

def r1 : Record := { typ := 0, key := "a".toUTF8, value := "1".toUTF8, batch := 0 }
def r2 : Record := { typ := 0, key := "b".toUTF8, value := "2".toUTF8, batch := 0 }

theorem r1_ok : RecOK r1 := by
  refine ⟨by decide, by decide, ?_, ?_, by decide⟩
  · show ("a".toUTF8).size < 2 ^ 31
    have : ("a".toUTF8).size = 1 := by decide
    omega
  · show ("1".toUTF8).size < 2 ^ 31
    have : ("1".toUTF8).size = 1 := by decide
    omega

theorem r2_ok : RecOK r2 := by
  refine ⟨by decide, by decide, ?_, ?_, by decide⟩
  · show ("b".toUTF8).size < 2 ^ 31
    have : ("b".toUTF8).size = 1 := by decide
    omega
  · show ("2".toUTF8).size < 2 ^ 31
    have : ("2".toUTF8).size = 1 := by decide
    omega

/-- `C03_open_crash` is not vacuous: a directory with one file holding two records, the file cut
    one byte short (the second record is torn): Open succeeds and the invariant holds for a ghost
    directory whose log is a prefix of the original one -/
example : ∃ j s' db', j ≤ 2 ∧
    openDB { world := [("d", { data := [(0, ⟨(bytesOf [r1, r2]).extract 0 ((bytesOf [r1, r2]).size - 1), 0⟩)],
                               hint := none, marker := none, locked := false })], db := none }
      "d" { fileSize := 100, sync := 0, bps := 0, idx := 0, io := 0, shards := 1 } = (s', .ok) ∧
    Inv s' db' [(0, [r1, r2].take j)] ∧
    logOf [(0, [r1, r2].take j)] <+: logOf [(0, [r1, r2])] := by
  obtain ⟨j, hj, _, hnfit, s', db', hopen, _, _, _, _, _, _, hinv, _⟩ := C03_open_crash
    { world := [("d", { data := [(0, ⟨(bytesOf [r1, r2]).extract 0 ((bytesOf [r1, r2]).size - 1), 0⟩)],
                        hint := none, marker := none, locked := false })], db := none }
    "d" { fileSize := 100, sync := 0, bps := 0, idx := 0, io := 0, shards := 1 }
    { data := [(0, ⟨(bytesOf [r1, r2]).extract 0 ((bytesOf [r1, r2]).size - 1), 0⟩)],
      hint := none, marker := none, locked := false }
    [] 0 [r1, r2] [] ⟨(bytesOf [r1, r2]).extract 0 ((bytesOf [r1, r2]).size - 1), 0⟩
    ((bytesOf [r1, r2]).size - 1) rfl (by decide) (by simp [World.get]) rfl
    (by simp [World.get, mergeDirName]) (by simp [AscIds])
    (by
      intro x hx r hr
      simp only [List.nil_append, List.mem_singleton] at hx
      subst hx
      simp only [List.mem_cons, List.not_mem_nil, or_false] at hr
      rcases hr with rfl | rfl
      · exact r1_ok
      · exact r2_ok)
    rfl (by simp [Matches]) (by omega) rfl
  exact ⟨j, s', db', hj, hopen, hinv, (C03_prefix [] 0 [r1, r2] _ j hj hnfit).1⟩

/-- `C04_atomic_replay` is not vacuous: after the empty log, a batch (id 7) of a put and a delete
    is invisible without its sealing record and applied as a unit with it -/
example (p1 p2 p3 : Pos) :
    let t1 : Record := { typ := 0, key := "a".toUTF8, value := "1".toUTF8, batch := 7 }
    let t2 : Record := { typ := 1, key := "a".toUTF8, value := ByteArray.empty, batch := 7 }
    let fin : Record := { typ := 2, key := "7".toUTF8, value := ByteArray.empty, batch := 7 }
    (replayLog ([] ++ [(t1, p1), (t2, p2)])).index = [] ∧
    (replayLog ([] ++ [(t1, p1), (t2, p2)] ++ [(fin, p3)])).index
      = applyIx [] [(t1, p1), (t2, p2)] := by
  intro t1 t2 fin
  have h := C04_atomic_replay [] [(t1, p1), (t2, p2)] 7 (by decide) (by
    intro x hx
    simp only [List.mem_cons, List.not_mem_nil, or_false] at hx
    rcases hx with rfl | rfl <;> exact ⟨rfl, by simp [t1, t2]⟩)
  exact ⟨h.1.1, (h.2 rfl fin p3 rfl rfl).2⟩

/-- `C04_unsealed_invisible` is not vacuous: a tagged put of batch 7 followed by an ordinary put,
    no sealing record: the replay is that of the ordinary put alone -/
example (p1 p2 : Pos) :
    (replayLog [(({ typ := 0, key := "a".toUTF8, value := "1".toUTF8, batch := 7 } : Record), p1),
                (r2, p2)]).index = (replayLog [(r2, p2)]).index := by
  have h := C04_unsealed_invisible
    [(({ typ := 0, key := "a".toUTF8, value := "1".toUTF8, batch := 7 } : Record), p1), (r2, p2)] 7
    (by decide) (by
      intro x hx _
      simp only [List.mem_cons, List.not_mem_nil, or_false] at hx
      rcases hx with rfl | rfl <;> simp [r2])
  rw [h.1]
  have : ([(({ typ := 0, key := "a".toUTF8, value := "1".toUTF8, batch := 7 } : Record), p1),
      (r2, p2)].filter (fun x => x.1.batch ≠ 7)) = [(r2, p2)] := by
    simp [r2]
  rw [this]

/-- `C03_crash_restart` is not vacuous: a live handle on a directory with one unsynced record;
    power failure loses the whole unsynced tail; Open succeeds on the image -/
example : ∃ g' s' db',
    openDB { world := [("d", { data := [(0, ⟨(bytesOf [r1]).extract 0 0, 0⟩)], hint := none,
                               marker := none, locked := false })], db := none }
      "d" { fileSize := 9, sync := 1, bps := 0, idx := 1, io := 1, shards := 8 } = (s', .ok) ∧
    Inv s' db' g' ∧ logOf g' <+: logOf [(0, [r1])] := by
  let db : DB :=
    { cfg := { fileSize := 1000, sync := 0, bps := 0, idx := 0, io := 0, shards := 1 }, dir := "d",
      activeId := 0, index := (replayLog (logOf [(0, [r1])])).index,
      reclaim := (replayLog (logOf [(0, [r1])])).reclaim,
      total := (replayLog (logOf [(0, [r1])])).total, bytesWrite := 0, batch := none }
  let d : DirSt := { data := [(0, ⟨bytesOf [r1], 0⟩)], hint := none, marker := none, locked := true }
  let s : St := { world := [("d", d)], db := some db }
  have hinv : Inv s db [(0, [r1])] :=
    { dir := ⟨d, by simp [s, db, World.get], rfl, by simp [Matches, d]⟩
      asc := by simp [AscIds]
      active := by simp [db]
      recs := by
        intro x hx r hr
        simp only [List.mem_singleton] at hx
        subst hx
        simp only [List.mem_singleton] at hr
        subst hr
        exact r1_ok
      index := rfl
      sorted := replay_sorted _
      counters := replay_counters _
      nobatch := rfl }
  obtain ⟨g', s', db', hopen, _, hinv', _, _, hpre, _⟩ := C03_crash_restart s
    { world := [("d", { data := [(0, ⟨(bytesOf [r1]).extract 0 0, 0⟩)], hint := none,
                        marker := none, locked := false })], db := none }
    db [(0, [r1])] { fileSize := 9, sync := 1, bps := 0, idx := 1, io := 1, shards := 8 } d
    { data := [(0, ⟨(bytesOf [r1]).extract 0 0, 0⟩)], hint := none, marker := none, locked := false }
    hinv (by simp [s, db, World.get]) (by intro x hx; simp [d] at hx) rfl (by simp [db, World.get]) rfl
    (by
      simp only [CrashImage, d, and_true, true_and]
      exact ⟨0, Nat.le_refl _, Nat.zero_le _, rfl⟩)
    (by simp [db, World.get, mergeDirName]) (by decide)
  exact ⟨g', s', db', hopen, hinv', hpre⟩

/-! ## memory-mapped I/O: the process dies without `Close`

Under `FileIOType = MemoryMap` every data file — the active one and, after rotations, the older ones
— is physically extended with zeros while it is open (`Model/Fio.lean`); a process death leaves
them that way.  A power failure may in addition persist only the first part of the last record; the
rest of the pre-extended file reads as zeros (`C03_mmap_power_failure` below; this was the
finding `mmap-powerloss-cut-inside-record` until the reader rule `tornZero` was added). -/

/-- **C03, mmap, process death.**  A directory whose data files are the ghost files, each followed by
    an arbitrary number of zero bytes (`MatchesZ`): `Open` succeeds under any valid configuration,
    recovers EVERY record (the handle is the one a scan of the exact files builds), cuts the files
    back to their logical bytes, and the engine invariant holds again. -/
theorem C03_mmap_process_death (s : St) (dir : String) (cfg : Cfg) (d : DirSt) (g : GDir) (a : Nat)
    (hdb : s.db = none) (hcfg : cfg.Valid) (hd : s.world.get dir = some d)
    (hl : d.locked = false) (hm : Adopt.plan s.world dir = none) (hmt : MatchesZ d.data g)
    (hasc : AscIds g) (hrecs : ∀ x ∈ g, ∀ r ∈ x.2, RecOK r) (hact : (g.getLast?).map (·.1) = some a) :
    (openDB s dir cfg).2 = .ok ∧ (openDB s dir cfg).1.db = some (MergeP.scanDB cfg dir a g) ∧
      Inv (openDB s dir cfg).1 (MergeP.scanDB cfg dir a g) g :=
  Inv_openDB_zero_ext s dir cfg d g a hdb hcfg hd hl hm hmt hasc hrecs hact

/-- **C03, mmap, power failure inside the last record.**  The last file's ghost content at the time
    of the failure is `gl`; the image holds its first `j` records completely, the first `m` bytes
    of what the append of record `j` wrote (`m` < its length, anywhere: inside the padding, the
    header, the length field, the payload, a later chunk of a multi-block record), and then zeros
    reaching beyond the end of that record; the older files are zero-extended ghost files.

    Hypothesis `NoFalseAccept`: the ONE `DecodeChunk` call on the chunk that contains the cut does
    not return a chunk if the bytes it sees differ from the fully persisted ones (a CRC-32 can be
    fooled with probability 2⁻³²; when the lost bytes were zeros anyway nothing is assumed).

    Then `Open` succeeds under any valid configuration and recovers exactly `gl.take j'` with
    `j' = j` — or `j + 1` in the degenerate case where only zeros were lost, and certainly `j`
    whenever the damaged chunk is rejected —, the files are cut back to the recovered bytes, and
    the engine invariant holds for the recovered log: a PREFIX of the acknowledged history
    (`C03_prefix` applies to it verbatim). -/
theorem C03_mmap_power_failure (s : St) (dir : String) (cfg : Cfg) (d : DirSt)
    (gI : GDir) (id : Nat) (gl : GFile) (j : Nat) (hj : j < gl.length)
    (dataI : List (Nat × FileSt)) (fl : FileSt) (m k : Nat)
    (hdb : s.db = none) (hcfg : cfg.Valid)
    (hd : s.world.get dir = some d) (hl : d.locked = false) (hpl : Adopt.plan s.world dir = none)
    (hasc : AscIds (gI ++ [(id, gl)]))
    (hrecs : ∀ x ∈ gI ++ [(id, gl)], ∀ r ∈ x.2, RecOK r)
    (hdata : d.data = dataI ++ [(id, fl)]) (hI : MatchesZ dataI gI)
    (hm : m < (writeRec C (encodeRecord gl[j]) ((bytesOf (gl.take j)).size % BS)).size)
    (hk : (writeRec C (encodeRecord gl[j]) ((bytesOf (gl.take j)).size % BS)).size < m + k)
    (hnfa : NoFalseAccept C (bytesOf (gl.take j))
      (writeRec C (encodeRecord gl[j]) ((bytesOf (gl.take j)).size % BS)) m k)
    (hfl : fl.bytes = bytesOf (gl.take j)
      ++ (writeRec C (encodeRecord gl[j]) ((bytesOf (gl.take j)).size % BS)).extract 0 m ++ zeros k) :
    ∃ j', (j' = j ∨ j' = j + 1) ∧
      ((padOf ((bytesOf (gl.take j)).size % BS) < m →
        TornRejected C (bytesOf (gl.take j))
          (writeRec C (encodeRecord gl[j]) ((bytesOf (gl.take j)).size % BS)) m k) → j' = j) ∧
      ∃ s' db', openDB s dir cfg = (s', .ok) ∧ s'.db = some db' ∧
        db'.dir = dir ∧ db'.cfg = cfg ∧ db'.activeId = id ∧
        db'.index = (replayLog (logOf (gI ++ [(id, gl.take j')]))).index ∧
        (∃ d', s'.world.get dir = some d' ∧
          d'.data = cutBack dataI gI
            ++ [(id, ⟨bytesOf (gl.take j'), min fl.synced (bytesOf (gl.take j')).size⟩)]) ∧
        Inv s' db' (gI ++ [(id, gl.take j')]) :=
  Inv_openDB_torn_zero_take s dir cfg d gI id gl j hj dataI fl m k hdb hcfg hd hl hpl hasc hrecs
    hdata hI hm hk hnfa hfl

/-- the sequential reader on a zero-extended well-formed file, either reader mode: exactly the
    records, `validEnd` = the logical size -/
theorem C03_scan_zero_extended (tol : Bool) (fid : Nat) (ds : List ByteArray) (hpos : ∀ d ∈ ds, 0 < d.size) (k : Nat) :
    scan C tol fid (appendAll C ByteArray.empty ds ++ zeros k)
      = { recs := ds.zip (posAll C fid ByteArray.empty ds),
          validEnd := (appendAll C ByteArray.empty ds).size, ok := true } :=
  scan_zero_ext tol fid ds hpos k

end XixiKV.C03
