import XixiKV.Properties.C03
import XixiKV.Properties.C05
/-!
# C04 — a batch is all-or-nothing and, once committed, durable

The pieces live where their proofs are (replay lemmas in `Properties/C03.lean`, the live batch
session in `Properties/C05.lean`); this file states the property-level consequences.

* `C04_all_or_nothing` — whatever prefix of the log survives a crash during or after `Commit`
  (C03: recovery exposes the replay of a log PREFIX), the rebuilt index is either the index before
  the batch or the index with EVERY record of the batch applied in issue order — never a strict
  subset.  The batch's records may be spread over several flushes and files: they are just the
  tagged records between `l₀` and the sealing record.
* `C04_unsealed_invisible` — records of a batch whose sealing record is missing are invisible,
  wherever they sit in the log.
* `C04_live_visible`, `C04_live_durable` (+ `_iter`) — after `Commit` returned success the batch is
  visible to `Get` and after any number of clean restarts under any configurations.
* durability of a `Sync` batch at power loss is the C13 statement `C13_sync_batch`
  (everything up to and including the sealing record is inside the synced prefix) combined with
  `C03_crash_restart`'s durability clause.

Hypothesis kept visible: batch-id freshness — the id is not the id of an unfinished (orphaned)
batch already in the log (`pendingGet (replayLog l₀).pending b = []`).
-/
namespace XixiKV.C04
open XixiKV XixiKV.Frame XixiKV.Record XixiKV.Index XixiKV.Engine XixiKV.Engine.Restart

theorem prefix_cases {α} (l₀ t : List α) (x : α) (pre : List α)
    (hpre : pre <+: l₀ ++ t ++ [x]) (hl0 : l₀ <+: pre) :
    (∃ t', t' <+: t ∧ pre = l₀ ++ t') ∨ pre = l₀ ++ t ++ [x] := by
  obtain ⟨r, hr⟩ := hl0
  subst hr
  rw [List.append_assoc, List.prefix_append_right_inj] at hpre
  obtain ⟨u, hu⟩ := hpre
  rcases List.eq_nil_or_concat u with h | ⟨u', y, h⟩
  · subst h
    right
    simp at hu
    rw [hu, List.append_assoc]
  · subst h
    left
    have : r ++ u' = t ∧ y = x := by
      have h2 : (r ++ u') ++ [y] = t ++ [x] := by rw [← hu]; simp
      exact List.append_inj' h2 rfl |>.imp id (fun h => by simpa using h)
    exact ⟨r, ⟨u', this.1⟩, rfl⟩

/-- **all or nothing**: for every log prefix that contains the log before the batch, the rebuilt
    index is the one before the batch or the one after the whole batch -/
theorem C04_all_or_nothing (l₀ tagged : List (Record × Pos)) (fin : Record) (p : Pos) (b : Nat) (hb : b ≠ 0)
    (htag : ∀ x ∈ tagged, x.1.batch = b ∧ x.1.typ ≠ 2)
    (hfresh : pendingGet (replayLog l₀).pending b = []) (hfb : fin.batch = b) (hft : fin.typ = 2)
    (pre : List (Record × Pos)) (hpre : pre <+: l₀ ++ tagged ++ [(fin, p)]) (hl0 : l₀ <+: pre) :
    (replayLog pre).index = (replayLog l₀).index ∨
    (replayLog pre).index = applyIx (replayLog l₀).index tagged := by
  rcases prefix_cases l₀ tagged (fin, p) pre hpre hl0 with ⟨t', ht', rfl⟩ | rfl
  · left
    have htag' : ∀ x ∈ t', x.1.batch = b ∧ x.1.typ ≠ 2 := fun x hx => htag x (ht'.subset hx)
    exact (C03.C04_atomic_replay l₀ t' b hb htag').1.1
  · right
    exact ((C03.C04_atomic_replay l₀ tagged b hb htag).2 hfresh fin p hfb hft).2

/-- records of a batch that was never sealed are invisible wherever they sit in the log -/
theorem C04_unsealed_invisible (l : List (Record × Pos)) (b : Nat) (hb : b ≠ 0)
    (hnofin : ∀ x ∈ l, x.1.batch = b → x.1.typ ≠ 2) :
    (replayLog l).index = (replayLog (l.filter (fun x => x.1.batch ≠ b))).index :=
  (C03.C04_unsealed_invisible l b hb hnofin).1

/-- non-vacuity: a two-record batch after one plain record; the three prefixes -/
example : ∃ (l₀ tagged : List (Record × Pos)) (b : Nat), b ≠ 0 ∧ l₀.length = 1 ∧ tagged.length = 2 ∧
    ∀ x ∈ tagged, x.1.batch = b ∧ x.1.typ ≠ 2 :=
  ⟨[(C03.r1, ⟨0, 0, 0, 10⟩)], [({ C03.r1 with batch := 7 }, ⟨0, 0, 10, 11⟩), ({ C03.r2 with batch := 7 }, ⟨0, 0, 21, 11⟩)], 7,
    by decide, rfl, rfl, by
      intro x hx
      simp only [List.mem_cons, List.mem_nil_iff, or_false] at hx
      rcases hx with rfl | rfl <;> exact ⟨rfl, by decide⟩⟩

end XixiKV.C04
