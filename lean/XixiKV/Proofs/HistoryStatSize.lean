import XixiKV.Proofs.HistoryStat
import XixiKV.Proofs.CrashHistoryRun
/-!
# The file-size limit through `Merge`, adoption and restarts — helper lemmas for `C17_history_limit`

`Merge` writes its output through the same `appendLogRecord` as `Put` (`Engine.mergeRec` calls
`Engine.appendLog` on the temporary handle `mdb`, whose `DataFileSize` is the live handle's).  The
merge directory carries no lock, so the step lemma is `appendLog_sizeU` (`appendLog_size` for
`FilesU`), and `MSz` is the loop invariant of the rewrite loop — it holds whether or not the loop
fails (id conflict), so EVERY file a `Merge` leaves in the merge directory respects the limit.
-/
namespace XixiKV.C17H
open XixiKV XixiKV.Frame XixiKV.Record XixiKV.Index XixiKV.Engine XixiKV.Engine.BatchP XixiKV.Engine.HistP
open XixiKV.Engine.Restart XixiKV.Engine.MergeP XixiKV.Adopt
open XixiKV.Engine.PolicyP.Size
open XixiKV.C01H

/-! ## `appendLogRecord` on a directory without a lock -/

theorem appendLog_sizeU {L : Nat} {s : St} {db : DB} {g : GDir} (h : FilesU s db g) (hsz : SizeInv L g)
    (hL : db.cfg.fileSize ≤ L) (r : Record) (hr : RecOK r) (hsm : Small r) :
    ∃ g', FilesU (appendLog s db r).1 (appendLog s db r).2.1 g' ∧ SizeInv L g' ∧
      (appendLog s db r).2.1.cfg = db.cfg ∧ (appendLog s db r).2.1.dir = db.dir := by
  obtain ⟨g0, gf, hg, hlt⟩ := h.last
  have hb : (activeFile s db).bytes = bytesOf gf := activeFile_bytesU h.dir h.asc (by rw [hg]; simp)
  rw [appendLog_eq]
  split
  · obtain ⟨hf, hdb, _, _⟩ := rotate_specU h
    have hlt' : ∀ x ∈ g, x.1 < (rotate s db).2.activeId := by
      intro x hx
      rw [hdb, hg] at *
      rcases List.mem_append.mp hx with hx | hx
      · have := hlt x hx; simp only; omega
      · simp only [List.mem_singleton] at hx; rw [hx]; exact Nat.lt_succ_self _
    have hf' : FilesU (rotate s db).1 (rotate s db).2 (g ++ [((rotate s db).2.activeId, [])]) := by
      rw [hdb]; exact hf
    obtain ⟨h1, _, _, ⟨bw, h4⟩, _⟩ := appendTail_specU hf' hlt' r hr
    refine ⟨_, h1, SizeInv_snoc hsz (Or.inr (Or.inl ⟨r, rfl⟩)), by rw [h4, hdb], by rw [h4, hdb]⟩
  · rename_i hfit
    have hf' : FilesU s db (g0 ++ [(db.activeId, gf)]) := by rw [← hg]; exact h
    obtain ⟨h1, _, _, ⟨bw, h4⟩, _⟩ := appendTail_specU hf' hlt r hr
    refine ⟨_, h1, ?_, by rw [h4], by rw [h4]⟩
    rw [hg] at hsz
    refine SizeInv_snoc (SizeInv_init hsz) (Or.inl ?_)
    have := size_bytesOf_snoc_le gf r hr hsm
    rw [hb] at hfit
    omega

/-! ## the rewrite loop -/

/-- the temporary handle's directory matches a ghost directory that respects the limit `L`, and the
    temporary handle's `DataFileSize` is at most `L` — with or without a failure -/
structure MSz (L : Nat) (s : St) (m : MergeSt) : Prop where
  ex : ∃ gmc, FilesU s m.mdb gmc ∧ SizeInv L gmc
  lim : m.mdb.cfg.fileSize ≤ L

theorem Small_plainOf {r : Record} (h : Small r) : Small (plainOf r) := h

theorem mergeRec_size {L : Nat} {db1 : DB} {s : St} {m : MergeSt} (hZ : MSz L s m) (n fileId : Nat)
    (r : Record) (p : Pos) (hr : RecOK r) (hsm : Small r) :
    MSz L (mergeRec s db1 m n fileId (encodeRecord r) p).1 (mergeRec s db1 m n fileId (encodeRecord r) p).2 := by
  unfold mergeRec
  cases hfail : m.failed with
  | some e => simp only [Option.isSome_some, if_true]; exact hZ
  | none =>
    simp only [Option.isSome_none, Bool.false_eq_true, if_false, hr.decode]
    cases hg : Index.get db1.index r.key with
    | none => simp only []; exact hZ
    | some q =>
      simp only []
      by_cases hc : q.fid = fileId ∧ q.off = p.off ∧ q.block = p.block
      · rw [if_pos hc]
        obtain ⟨gmc, hfu, hsz⟩ := hZ.ex
        obtain ⟨g', h1, h2, h3, _⟩ := appendLog_sizeU hfu hsz hZ.lim (plainOf r) (RecOK_plainOf hr) (Small_plainOf hsm)
        have hA : appendLog s m.mdb { r with batch := 0 } = appendLog s m.mdb (plainOf r) := rfl
        rw [hA]
        generalize appendLog s m.mdb (plainOf r) = res at *
        obtain ⟨s', mdb', npos⟩ := res
        simp only at h1 h2 h3 ⊢
        by_cases hge : mdb'.activeId ≥ n
        · rw [if_pos hge]; exact ⟨⟨g', h1, h2⟩, by show mdb'.cfg.fileSize ≤ L; rw [h3]; exact hZ.lim⟩
        · rw [if_neg hge]; exact ⟨⟨g', h1, h2⟩, by show mdb'.cfg.fileSize ≤ L; rw [h3]; exact hZ.lim⟩
      · rw [if_neg hc]; exact hZ

theorem mergeRec_fold_size {L : Nat} {db1 : DB} (n fileId : Nat) (xs : List (Record × Pos)) :
    ∀ {s : St} {m : MergeSt}, MSz L s m → (∀ x ∈ xs, RecOK x.1 ∧ Small x.1) →
    MSz L
      ((xs.map (fun x => (encodeRecord x.1, x.2))).foldl (fun (acc : St × MergeSt) (x : ByteArray × Pos) =>
        mergeRec acc.1 db1 acc.2 n fileId x.1 x.2) (s, m)).1
      ((xs.map (fun x => (encodeRecord x.1, x.2))).foldl (fun (acc : St × MergeSt) (x : ByteArray × Pos) =>
        mergeRec acc.1 db1 acc.2 n fileId x.1 x.2) (s, m)).2 := by
  induction xs with
  | nil => intro s m hZ _; exact hZ
  | cons x t ih =>
    intro s m hZ hx
    obtain ⟨hr, hsm⟩ := hx x (by simp)
    simp only [List.map_cons, List.foldl_cons]
    exact ih (mergeRec_size hZ n fileId x.1 x.2 hr hsm) (fun y hy => hx y (by simp [hy]))

theorem mergeFile_size {L : Nat} {W : World} {db1 : DB} {s : St} {m : MergeSt} (hB : MBase W db1 s m) (hZ : MSz L s m)
    {d1 : DirSt} (hd1 : W.get db1.dir = some d1) {g1 : GDir} (hmt : Matches d1.data g1) (hasc : AscIds g1)
    (hrecs : ∀ x ∈ g1, ∀ r ∈ x.2, RecOK r) (hsg : SmallG g1) (x : Nat × GFile) (hx : x ∈ g1) :
    MSz L (mergeFile db1 db1.activeId (s, m) x.1).1 (mergeFile db1 db1.activeId (s, m) x.1).2 := by
  unfold mergeFile
  simp only []
  cases hfail : m.failed with
  | some e => simp only [Option.isSome_some, if_true]; exact hZ
  | none =>
    simp only [Option.isSome_none, Bool.false_eq_true, if_false]
    have hdir : dirOf s db1 = d1 := by
      unfold dirOf
      rw [hB.frame db1.dir (mname_ne db1.dir).symm, hd1]; rfl
    obtain ⟨f, hf, hb⟩ := Matches_getFile hmt hasc (show (x.1, x.2) ∈ g1 from hx)
    rw [hdir, hf]
    simp only [hb]
    have hscan := scan_build C false x.1 (payloads x.2) (payloads_pos x.2)
    have hscan' : scan C false x.1 (bytesOf x.2) = { recs := (payloads x.2).zip (possOf x.1 x.2), validEnd := (bytesOf x.2).size, ok := true } := hscan
    rw [hscan']
    simp only []
    have hrecs' : (payloads x.2).zip (possOf x.1 x.2)
        = (x.2.zip (possOf x.1 x.2)).map (fun y => (encodeRecord y.1, y.2)) := by
      unfold payloads
      rw [List.zip_map_left]
      rfl
    rw [hrecs']
    have hxs : ∀ y ∈ x.2.zip (possOf x.1 x.2), RecOK y.1 ∧ Small y.1 := by
      intro y hy
      exact ⟨hrecs x hx y.1 (List.of_mem_zip hy).1, hsg x hx y.1 (List.of_mem_zip hy).1⟩
    have hZ2 := mergeRec_fold_size (L := L) (db1 := db1) db1.activeId x.1 (x.2.zip (possOf x.1 x.2)) hZ hxs
    simp only [Bool.not_true, Bool.false_eq_true, false_and, if_false]
    exact hZ2

theorem mergeFile_fold_size {L : Nat} {W : World} {db1 : DB} {d1 : DirSt} (hd1 : W.get db1.dir = some d1) {g1 : GDir}
    (hmt : Matches d1.data g1) (hasc : AscIds g1) (hrecs : ∀ x ∈ g1, ∀ r ∈ x.2, RecOK r) (hsg : SmallG g1) (vis : GDir) :
    ∀ {s : St} {m : MergeSt} {Lg : List (Record × Pos)},
    MBase W db1 s m → (m.failed = none → ∃ gmc, MFull db1 s m Lg gmc) → MSz L s m → (∀ x ∈ vis, x ∈ g1) →
    MSz L ((vis.map (·.1)).foldl (mergeFile db1 db1.activeId) (s, m)).1
      ((vis.map (·.1)).foldl (mergeFile db1 db1.activeId) (s, m)).2 := by
  induction vis with
  | nil => intro s m Lg _ _ hZ _; exact hZ
  | cons x t ih =>
    intro s m Lg hB hF hZ hx
    obtain ⟨hB1, hF1⟩ := mergeFile_step hB hF hd1 hmt hasc hrecs x (hx x (by simp))
    have hZ1 := mergeFile_size hB hZ hd1 hmt hasc hrecs hsg x (hx x (by simp))
    simp only [List.map_cons, List.foldl_cons]
    exact ih (s := (mergeFile db1 db1.activeId (s, m) x.1).1) (m := (mergeFile db1 db1.activeId (s, m) x.1).2)
      hB1 (fun h => (hF1 h).2) hZ1 (fun y hy => hx y (by simp [hy]))

theorem mergeLoop_size {L : Nat} {s : St} {db : DB} {g : GDir} (hinv : Inv s db g) (order : List Nat) (ho : order.Nodup)
    (hsg : SmallG g) (hL : db.cfg.fileSize ≤ L) :
    MSz L (mergeLoop s db order).1 (mergeLoop s db order).2 := by
  obtain ⟨hf1, hdb1, _⟩ := rotate_spec hinv.files
  have hdb1' : (rotate s db).2 = rotDB db := hdb1
  obtain ⟨d1, hd1, hl1, hm1⟩ := hf1.dir
  rw [rotate_dir] at hd1
  have hne := mname_ne db.dir
  have hW : (mergeStart s db).world.get db.dir = some d1 := by
    unfold mergeStart
    simp only []
    rw [get_set_ne _ _ _ _ hne.symm, get_remove_ne _ _ _ hne.symm]; exact hd1
  have hB0 : MBase (mergeStart s db).world (rotDB db) (mergeStart s db) (mergeM0 (rotDB db)) := by
    refine ⟨by unfold mergeStart; rw [hdb1'], fun _ _ => rfl, rfl, ?_, ?_⟩
    · unfold metaOf mergeStart
      simp only []
      rw [show (rotDB db).dir = db.dir from rfl, get_set_self]
      rfl
    · unfold mergeStart
      simp only []
      rw [show (rotDB db).dir = db.dir from rfl, get_set_self]
      exact ⟨_, rfl⟩
  have hF0 : (mergeM0 (rotDB db)).failed = none →
      ∃ gmc, MFull (rotDB db) (mergeStart s db) (mergeM0 (rotDB db)) [] gmc := by
    intro _
    refine ⟨[(0, [])], ⟨⟨?_, by simp [AscIds], rfl, ?_⟩, rfl, ?_, rfl, ?_⟩⟩
    · refine ⟨{ DirSt.empty with data := [(0, ⟨ByteArray.empty, 0⟩)] }, ?_, ?_⟩
      · show (mergeStart s db).world.get (mergeDirName db.dir) = some { DirSt.empty with data := [(0, ⟨ByteArray.empty, 0⟩)] }
        unfold mergeStart
        simp only []
        rw [get_set_self]
      · show (0 : Nat) = 0 ∧ ByteArray.empty = bytesOf [] ∧ True
        exact ⟨rfl, rfl, trivial⟩
    · intro x hx r hr
      simp only [List.mem_singleton] at hx
      rw [hx] at hr; simp at hr
    · simp [logOf]
    · show 0 < db.activeId + 1
      omega
  have hdir : dirOf (mergeStart s db) (rotate s db).2 = d1 := by
    unfold dirOf
    rw [rotate_dir, hW]; rfl
  have hasc1 := hf1.asc
  have hrecs1 := hf1.recs
  obtain ⟨hperm, hmem⟩ := visOf_perm order d1 (db.activeId + 1) (g ++ [(db.activeId + 1, [])]) ho hm1 hasc1
  have hloop : mergeLoop s db order
      = ((visOf order d1 (db.activeId + 1) (g ++ [(db.activeId + 1, [])])).map (·.1)).foldl
          (mergeFile (rotDB db) (rotDB db).activeId) (mergeStart s db, mergeM0 (rotDB db)) := by
    unfold mergeLoop
    rw [hdir, hdb1', visOf_ids]
    rfl
  rw [hloop]
  have hZ0 : MSz L (mergeStart s db) (mergeM0 (rotDB db)) := by
    obtain ⟨gmc, hfull⟩ := hF0 rfl
    refine ⟨⟨[(0, [])], ?_, ?_⟩, hL⟩
    · refine ⟨⟨{ DirSt.empty with data := [(0, ⟨ByteArray.empty, 0⟩)] }, ?_, ?_⟩, by simp [AscIds], rfl, ?_⟩
      · show (mergeStart s db).world.get (mergeDirName db.dir) = some { DirSt.empty with data := [(0, ⟨ByteArray.empty, 0⟩)] }
        unfold mergeStart
        simp only []
        rw [get_set_self]
      · show (0 : Nat) = 0 ∧ ByteArray.empty = bytesOf [] ∧ True
        exact ⟨rfl, rfl, trivial⟩
      · intro x hx r hr
        simp only [List.mem_singleton] at hx
        rw [hx] at hr; simp at hr
    · intro x hx
      simp only [List.mem_singleton] at hx
      rw [hx]; exact FileOK_nil L
  have hsg1 : SmallG (g ++ [(db.activeId + 1, [])]) := by
    intro x hx r hr
    rcases List.mem_append.mp hx with hx | hx
    · exact hsg x hx r hr
    · simp only [List.mem_singleton] at hx; rw [hx] at hr; simp at hr
  exact mergeFile_fold_size (L := L) (W := (mergeStart s db).world) (db1 := rotDB db) (d1 := d1) hW hm1 hasc1 hrecs1 hsg1
    (visOf order d1 (db.activeId + 1) (g ++ [(db.activeId + 1, [])])) hB0 hF0 hZ0 hmem

/-- **every file `Merge` leaves in the merge directory respects the limit** (`L ≥` the live handle's
    `DataFileSize`), whether `Merge` succeeded or reported the id conflict: the directory matches a
    ghost directory `gm` all of whose files are within `L` or hold a single record -/
theorem merge_sizes {L : Nat} {s : St} {db : DB} {g : GDir} (hs : s.db = some db) (hinv : Inv s db g) (order : List Nat)
    (ho : order.Nodup) (hsg : SmallG g) (hL : db.cfg.fileSize ≤ L) :
    ∀ md, (merge s order).1.world.get (mergeDirName db.dir) = some md →
      ∃ gm, Matches md.data gm ∧ (∀ x ∈ gm, ∀ r ∈ x.2, RecOK r) ∧ SizeInv L gm := by
  obtain ⟨hdb1, d1, hW, hl1, hm1, hB, hF⟩ := mergeLoop_spec hinv order ho
  have hZ := mergeLoop_size hinv order ho hsg hL
  obtain ⟨gmc, hfu, hsz⟩ := hZ.ex
  obtain ⟨md0, hmd0, hmt0⟩ := hfu.dir
  have hrd : (rotDB db).dir = db.dir := rfl
  rw [hB.mdir, hrd] at hmd0
  intro md hmd
  rw [merge_eq hs, hdb1] at hmd
  unfold mergeFinish at hmd
  cases hfail : (mergeLoop s db order).2.failed with
  | some e =>
    rw [hfail] at hmd
    simp only [] at hmd
    rw [hmd0] at hmd
    cases hmd
    exact ⟨gmc, hmt0, hfu.recs, hsz⟩
  | none =>
    rw [hfail] at hmd
    simp only [hrd, hmd0, Option.getD_some, get_set_self, Option.some.injEq] at hmd
    subst hmd
    exact ⟨gmc, Matches_syncAll hmt0, hfu.recs, hsz⟩

/-! ## the invariant of `C17_history_limit` and its preservation, call by call -/

/-- every file of the merge directory (if there is one) respects the limit `L` -/
def MDirOK (L : Nat) (w : World) (dir : String) : Prop :=
  ∀ md, w.get (mergeDirName dir) = some md →
    ∃ gm, Matches md.data gm ∧ (∀ x ∈ gm, ∀ r ∈ x.2, RecOK r) ∧ SizeInv L gm

theorem MDirOK.mono {L L' : Nat} {w : World} {dir : String} (h : MDirOK L w dir) (hL : L ≤ L') : MDirOK L' w dir := by
  intro md hmd
  obtain ⟨gm, h1, h2, h3⟩ := h md hmd
  exact ⟨gm, h1, h2, h3.mono hL⟩

theorem MDirOK.congr {L : Nat} {w w' : World} {dir : String} (h : MDirOK L w dir)
    (hw : w'.get (mergeDirName dir) = w.get (mergeDirName dir)) : MDirOK L w' dir := by
  intro md hmd
  rw [hw] at hmd
  exact h md hmd

/-- every record of the data files, and every staged record, has key + value ≤ 2^27 bytes (the range in
    which `GetLogRecordDiskSize` is an upper bound): `Bnd` of `Proofs/HistoryCost.lean` without its
    numeric bounds -/
def SmallSt (s : St) : Prop := ∃ A W, Bnd s A W

theorem SmallSt_of {s : St} {db : DB} {g : GDir} (hs : s.db = some db) (hf : Files s db g) (hsg : SmallG g)
    (hb : db.batch = none) : SmallSt s := by
  refine ⟨db.activeId, wt g + stagedW db, db, g, hs, hf, Nat.le_refl _, hsg, Nat.le_refl _, ?_⟩
  intro b hb'
  rw [hb] at hb'; cases hb'

theorem SmallSt.smallG {s s' : St} {db : DB} {g : GDir} (h : SmallSt s) (hw : s'.world = s.world) (hs : s.db = some db)
    (hf : Files s' db g) : SmallG g := by
  obtain ⟨A, W, db', g', hs', hf', _, hsg, _, _⟩ := h
  rw [hs] at hs'; cases hs'
  have : g' = g := PolicyP.Files_unique' hf' hf hw rfl
  rw [← this]; exact hsg

theorem HInv_open {dir : String} {s : St} {σ : SpecSt} (h : HInv dir s σ) : ∃ db, s.db = some db ∧ db.dir = dir := by
  obtain ⟨m, sl⟩ := σ
  have hQ : ∀ dead, HInvQ dir s m dead → ∃ db, s.db = some db ∧ db.dir = dir := by
    intro dead hq
    obtain ⟨db, hs, _⟩ := hq.2
    obtain ⟨db0, g, hs0, hd0, _⟩ := hq.1
    rw [setB_db hs] at hs0
    cases hs0
    exact ⟨db, hs, hd0⟩
  cases sl with
  | none => exact hQ false h
  | dead => exact hQ true h
  | live issued =>
    obtain ⟨db, g, b, l0, fl, hx, hd, _⟩ := h
    exact ⟨db, hx.open_, hd⟩

theorem quiet_of_wf {dir : String} {s : St} {σ : SpecSt} {op : HOp} (hi : HInv dir s σ)
    (hwf : isLive σ.slot = true → batchCall op = true) (hb : batchCall op = false) : ∃ dead, HInvQ dir s σ.m dead := by
  have hq : isLive σ.slot = false := by
    cases hl : isLive σ.slot with
    | false => rfl
    | true => have := hwf hl; rw [hb] at this; cases this
  exact HInv_quiet hi hq

/-- the limit the files respect: the largest `DataFileSize` configured so far -/
def limStep (L : Nat) : HOp → Nat
  | .restart cfg => max L cfg.fileSize
  | _ => L

/-- **the invariant of `C17_history_limit`**: the data files respect `L` (`SizeOK`), all records are
    in the range of the estimate (`SmallSt`), the files of the merge directory respect `L` -/
def LimJ (dir : String) (L : Nat) (s : St) : Prop := SizeOK L s ∧ SmallSt s ∧ MDirOK L s.world dir

theorem AOpOK_of {dir : String} {op : AOp} (hop : HOpOK dir (.a op)) (hsm : HOpSmall (.a op)) : AOpOK op := by
  cases op with
  | put k v => exact hsm
  | del k => exact hsm
  | bnew sy id => exact hop.2
  | bput k v => exact hsm
  | bdel k => exact hsm
  | get k => trivial
  | sync => trivial
  | bget k => trivial
  | bcommit => trivial
  | bdrop => trivial

theorem SmallSt_astep {dir : String} {s : St} (h : SmallSt s) (op : AOp) (hop : HOpOK dir (.a op))
    (hsm : HOpSmall (.a op)) : SmallSt (astep s op).1 := by
  obtain ⟨A, W, hb⟩ := h
  cases op with
  | put k v => exact ⟨_, _, Bnd_put hb k v hop.1 hop.2 hsm⟩
  | del k => exact ⟨_, _, Bnd_delete hb k hop hsm⟩
  | get k =>
    show SmallSt (get s k).1
    rw [PolicyP.get_state]; exact ⟨A, W, hb⟩
  | sync => exact ⟨_, _, Bnd_sync hb⟩
  | bnew sy id => exact ⟨_, _, Bnd_bnew hb sy id hop.2⟩
  | bput k v => exact ⟨_, _, Bnd_bput hb k v hop.1 hop.2 hsm⟩
  | bdel k => exact ⟨_, _, Bnd_bdel hb k hop hsm⟩
  | bget k =>
    show SmallSt (bget s k).1
    rw [bget_state]; exact ⟨A, W, hb⟩
  | bcommit => exact ⟨_, _, Bnd_bcommit hb⟩
  | bdrop => exact ⟨_, _, Bnd_bdrop hb⟩

theorem astep_mdir {dir : String} {s : St} {db : DB} (hs : s.db = some db) (hd : db.dir = dir) (op : AOp) :
    (astep s op).1.world.get (mergeDirName dir) = s.world.get (mergeDirName dir) := by
  obtain ⟨hfr, _⟩ := C03H.astep_frame hs op
  exact hfr (mergeDirName dir) (by rw [hd]; exact Restart.mergeDirName_ne dir)

theorem merge_lim {dir : String} {s : St} {m : BSpec} {dead : Bool} {L : Nat} (hq : HInvQ dir s m dead)
    (hj : LimJ dir L s) (order : List Nat) (ho : order.Nodup)
    (hsmall : ∀ db, s.db = some db → db.activeId + 1 < 2 ^ 32) : LimJ dir L (merge s order).1 := by
  obtain ⟨⟨db, g, hs, hf, hsi, hlim, hb⟩, hsm, hmd⟩ := hj
  obtain ⟨hs0, hd, hi0, _⟩ := hq.unpack hs hf
  obtain ⟨h1, h2, _⟩ := merge_spec hs0 hi0 order ho (hsmall db hs)
  have e : merge s order = (setB db.batch (merge (setB none s) order).1, (merge (setB none s) order).2) := by
    conv => lhs; rw [← setB_restore hs]
    exact merge_setB _ _ _
  refine ⟨?_, ?_, ?_⟩
  · rw [e]
    exact ⟨setBDB db.batch (rotDB (setBDB none db)), g ++ [(db.activeId + 1, [])], setB_db h1 _,
      h2.files.congr rfl rfl rfl, SizeInv_snoc hsi (FileOK_nil L), hlim, hb⟩
  · obtain ⟨A, W, db', g', hs', hf', _, hsg', hW', hbok'⟩ := hsm
    have hb' : Bnd s db'.activeId W := ⟨db', g', hs', hf', Nat.le_refl _, hsg', hW', hbok'⟩
    exact ⟨_, _, (Bnd_merge hq hb' order ho (hsmall db' hs')).2⟩
  · have hsg : SmallG g := hsm.smallG (s' := setB none s) rfl hs (hf.congr rfl rfl rfl)
    have := merge_sizes hs0 hi0 order ho hsg (show (setBDB none db).cfg.fileSize ≤ L from hlim)
    rw [e]
    intro md hmd'
    have hdir : (setBDB none db).dir = dir := hd
    rw [hdir] at this
    exact this md hmd'

theorem backup_lim {dir : String} {s : St} {L : Nat} {db0 : DB} (hs0 : s.db = some db0) (hd0 : db0.dir = dir)
    (hj : LimJ dir L s) (dest : String) (h1 : dest ≠ dir) (h2 : dest ≠ mergeDirName dir) :
    LimJ dir L (backup s dest).1 := by
  obtain ⟨⟨db, g, hs, hf, hsi, hlim, hb⟩, ⟨A, W, hbnd⟩, hmd⟩ := hj
  rw [hs0] at hs; cases hs
  refine ⟨?_, ⟨A, W, Bnd_backup hbnd dest (fun db' hs' => by rw [hs0] at hs'; cases hs'; rw [hd0]; exact h1)⟩, ?_⟩
  · obtain ⟨W', e, hwd, _⟩ := backup_eq hs0 dest
    rw [e]
    have hw : W'.get db0.dir = s.world.get db0.dir := hwd (by rw [hd0]; exact h1)
    exact ⟨db0, g, hs0, ⟨by show DirOK W' db0.dir g; unfold DirOK; rw [hw]; exact hf.dir, hf.asc,
      hf.active, hf.recs⟩, hsi, hlim, hb⟩
  · obtain ⟨W', e, _, hwm⟩ := backup_eq hs0 dest
    rw [e]
    have hw2 : W'.get (mergeDirName dir) = s.world.get (mergeDirName dir) := by
      have := hwm (by rw [hd0]; exact h1) (by rw [hd0]; exact h2)
      rw [hd0] at this; exact this
    exact hmd.congr hw2

theorem restart_lim {dir : String} {s : St} {m : BSpec} {dead : Bool} {L : Nat} (hq : HInvQ dir s m dead)
    (hj : LimJ dir L s) (cfg' : Cfg) (hcfg : cfg'.Valid)
    (hsz : ∀ md, s.world.get (mergeDirName dir) = some md → md.marker ≠ none →
      ∀ x ∈ md.data, x.2.bytes.size < 2 ^ 32) :
    LimJ dir (max L cfg'.fileSize) (openDB (close s).1 dir cfg').1 := by
  obtain ⟨⟨db, g, hs, hf, hsi, hlim, hb⟩, hsm, hmd⟩ := hj
  obtain ⟨hs0, hd, hi0, hms⟩ := hq.unpack hs hf
  subst hd
  have hcl : close (setB none s) = close s := close_setB none s
  have hsg : SmallG g := hsm.smallG (s' := setB none s) rfl hs (hf.congr rfl rfl rfl)
  rcases hms with hnm | ⟨n, gm, vis, hmo⟩
  · obtain ⟨d, hd, _, hopen⟩ := restart_scanX cfg' hs0 hi0 hnm.plan hcfg
    rw [hcl] at hopen
    have hopen' : openDB (close s).1 db.dir cfg'
        = (⟨s.world.set db.dir ⟨syncAll d.data, d.hint, d.marker, true⟩, some (scanDB cfg' db.dir db.activeId g)⟩, .ok) := hopen
    rw [hopen']
    obtain ⟨d', hd', _, hm⟩ := hi0.dir
    have hdd : d' = d := by
      have : (setB none s).world.get (setBDB none db).dir = s.world.get db.dir := rfl
      rw [this] at hd'
      have hd2 : s.world.get db.dir = some d := hd
      rw [hd2] at hd'; cases hd'; rfl
    subst hdd
    have hinv' := Inv_scanDB (s.world.set db.dir ⟨syncAll d'.data, d'.hint, d'.marker, true⟩) db.dir cfg'
      ⟨syncAll d'.data, d'.hint, d'.marker, true⟩ g db.activeId (MergeP.get_set_self _ _ _) rfl (Matches_syncAll hm)
      hi0.asc hi0.recs hi0.active ⟨_, some (scanDB cfg' db.dir db.activeId g)⟩ rfl
    refine ⟨⟨_, g, rfl, hinv'.files, hsi.mono (Nat.le_max_left _ _), Nat.le_max_right _ _, fun b hb' => by cases hb'⟩,
      SmallSt_of rfl hinv'.files hsg rfl, ?_⟩
    exact (hmd.mono (Nat.le_max_left _ _)).congr (MergeP.get_set_ne _ _ _ _ (mname_ne db.dir))
  · have hF := HintFits_of_sizes hmo hsz
    obtain ⟨d, md, maxFid, W', hd, hmdd, hmm, _, _, hopen, _, hWm, hinv', hM, _, _⟩ :=
      restart_adoptX cfg' hs0 hi0 hmo hF hcfg
    rw [hcl] at hopen
    have hopen' : openDB (close s).1 db.dir cfg'
        = (⟨W', some (hintDB cfg' db.dir db.activeId (gm ++ hi g n) (sizeSum (logOf (hi gm maxFid))))⟩, .ok) := hopen
    rw [hopen']
    obtain ⟨gm', hmm', hrecs', hsz'⟩ := hmd md hmdd
    have hgg : gm' = gm := PolicyP.Matches_unique hmm' hmm hrecs' hM.recs
    subst hgg
    have hsiAll : SizeInv L (gm' ++ hi g n) := by
      intro x hx
      rcases List.mem_append.mp hx with hx | hx
      · exact hsz' x hx
      · exact hsi x ((hi_sublist g n).subset hx)
    have hsgAll : SmallG (gm' ++ hi g n) := by
      intro x hx r hr
      rcases List.mem_append.mp hx with hx | hx
      · exact SmallG_merged hmo hsg x hx r hr
      · exact hsg x ((hi_sublist g n).subset hx) r hr
    refine ⟨⟨_, gm' ++ hi g n, rfl, hinv'.files, hsiAll.mono (Nat.le_max_left _ _), Nat.le_max_right _ _,
      fun b hb' => by cases hb'⟩, SmallSt_of rfl hinv'.files hsgAll rfl, ?_⟩
    intro md' hmd'
    have : W'.get (mergeDirName db.dir) = none := hWm
    rw [this] at hmd'; cases hmd'

/-- **one call keeps the invariant**, with the limit raised by a restart to the new `DataFileSize` if
    that is larger -/
theorem LimJ_step (dir : String) (L : Nat) (s : St) (σ : SpecSt) (op : HOp) (hi : HInv dir s σ) (hj : LimJ dir L s)
    (hop : HOpOK dir op) (hsm : HOpSmall op) (hwf : isLive σ.slot = true → batchCall op = true)
    (hst : StepOK dir s op) : LimJ dir (limStep L op) (hstep dir s op).1 := by
  obtain ⟨db0, hs0, hd0⟩ := HInv_open hi
  cases op with
  | a op =>
    exact ⟨SizeOK_astep hj.1 op (AOpOK_of hop hsm), SmallSt_astep hj.2.1 op hop hsm,
      hj.2.2.congr (astep_mdir hs0 hd0 op)⟩
  | merge order =>
    obtain ⟨dead, hq⟩ := quiet_of_wf hi hwf rfl
    exact merge_lim hq hj order hop hst
  | restart cfg' =>
    obtain ⟨dead, hq⟩ := quiet_of_wf hi hwf rfl
    exact restart_lim hq hj cfg' hop hst
  | backup dest => exact backup_lim hs0 hd0 hj dest hop.1 hop.2

theorem LimJ_fresh (dir : String) (cfg : Cfg) (h : cfg.Valid) : LimJ dir cfg.fileSize (openDB St.init dir cfg).1 := by
  refine ⟨SizeOK_fresh dir cfg h, ⟨0, 0, Bnd_fresh dir cfg h⟩, ?_⟩
  intro md hmd
  rw [openDB_fresh dir cfg h] at hmd
  simp [World.get, if_neg (Engine.mergeDirName_ne dir)] at hmd

end XixiKV.C17H
