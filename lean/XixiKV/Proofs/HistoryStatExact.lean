import XixiKV.Proofs.HistoryStatDur
/-!
# The counters are EXACT between restarts — helper lemmas for `C17_history_counters_exact`

`Inv.counters` (`DiskSize − Reclaimable = liveBytes`) says nothing about the two counters separately.
Here: the live engine accounts every record it writes exactly as the replay of a restart would —
a plain record at once (`Replay.apply`), a batch record when it is flushed (`applyStaged` =
`Replay.apply`), a sealing record in both counters (`countFin`) — whereas the replay parks batch
records and applies them when the sealing record arrives.  For the logs a crash-free history writes
(`Seg`: plain records and complete batch blocks `tagged… ++ [fin]`) both accountings agree on index,
`total` and `reclaim` (`Seg_block`: `applyAll` commutes with `countFin`).  Hence between two restarts
`DiskSize` / `Reclaimable` are the replay's counters of the current files plus a CONSTANT excess `E`
— `0` from the start and after a scan-path restart, `S` after an adopting restart (`Acc E s`).
-/
namespace XixiKV.C17H
open XixiKV XixiKV.Frame XixiKV.Record XixiKV.Index XixiKV.Engine XixiKV.Engine.BatchP XixiKV.Engine.HistP
open XixiKV.Engine.Restart XixiKV.Engine.MergeP XixiKV.Adopt
open XixiKV.C01H

/-! ## pure part: two accountings of a log -/

/-- equality of replay states up to the parked records -/
structure CoreEq (R R' : Replay) : Prop where
  index : R.index = R'.index
  total : R.total = R'.total
  reclaim : R.reclaim = R'.reclaim

theorem CoreEq.refl (R : Replay) : CoreEq R R := ⟨rfl, rfl, rfl⟩

theorem CoreEq.symm {R R' : Replay} (h : CoreEq R R') : CoreEq R' R := ⟨h.index.symm, h.total.symm, h.reclaim.symm⟩

theorem CoreEq.trans {R R' R'' : Replay} (h : CoreEq R R') (h' : CoreEq R' R'') : CoreEq R R'' :=
  ⟨h.index.trans h'.index, h.total.trans h'.total, h.reclaim.trans h'.reclaim⟩

theorem CoreEq.apply {R R' : Replay} (h : CoreEq R R') (k : ByteArray) (t : Nat) (p : Pos) :
    CoreEq (R.apply k t p) (R'.apply k t p) :=
  ⟨by rw [Restart.apply_index, Restart.apply_index, h.index], by rw [Restart.apply_total, Restart.apply_total, h.total],
   by rw [Restart.apply_reclaim, Restart.apply_reclaim, h.reclaim, h.index]⟩

theorem CoreEq.countFin {R R' : Replay} (h : CoreEq R R') (c : Nat) : CoreEq (countFin R c) (countFin R' c) :=
  ⟨h.index, by show R.total + c = R'.total + c; rw [h.total], by show R.reclaim + c = R'.reclaim + c; rw [h.reclaim]⟩

theorem applyAll_cons (R : Replay) (x : Record × Pos) (l : List (Record × Pos)) :
    applyAll R (x :: l) = applyAll (R.apply x.1.key x.1.typ x.2) l := rfl

theorem CoreEq.applyAll (l : List (Record × Pos)) : ∀ {R R' : Replay}, CoreEq R R' → CoreEq (applyAll R l) (applyAll R' l) := by
  induction l with
  | nil => intro R R' h; exact h
  | cons x t ih => intro R R' h; rw [applyAll_cons, applyAll_cons]; exact ih (h.apply _ _ _)

/-- counting a sealing record before or after applying records makes no difference -/
theorem applyAll_countFin (l : List (Record × Pos)) : ∀ (R : Replay) (c : Nat),
    CoreEq (applyAll (countFin R c) l) (countFin (applyAll R l) c) := by
  induction l with
  | nil => intro R c; exact CoreEq.refl _
  | cons x t ih =>
    intro R c
    rw [applyAll_cons, applyAll_cons]
    have h1 : CoreEq ((countFin R c).apply x.1.key x.1.typ x.2) (countFin (R.apply x.1.key x.1.typ x.2) c) := by
      refine ⟨?_, ?_, ?_⟩
      · show ((countFin R c).apply x.1.key x.1.typ x.2).index = (R.apply x.1.key x.1.typ x.2).index
        rw [Restart.apply_index, Restart.apply_index]; rfl
      · show ((countFin R c).apply x.1.key x.1.typ x.2).total = (R.apply x.1.key x.1.typ x.2).total + c
        rw [Restart.apply_total, Restart.apply_total]
        show R.total + c + x.2.size = R.total + x.2.size + c
        omega
      · show ((countFin R c).apply x.1.key x.1.typ x.2).reclaim = (R.apply x.1.key x.1.typ x.2).reclaim + c
        rw [Restart.apply_reclaim, Restart.apply_reclaim]
        show R.reclaim + c + _ + oldSize R.index x.1.key = R.reclaim + _ + oldSize R.index x.1.key + c
        omega
    exact (CoreEq.applyAll t h1).trans (ih _ c)

/-- **the live engine's accounting of one written record**: a sealing record is charged to both
    counters, every other record is applied at once -/
def lrec (R : Replay) (rec : Record) (pos : Pos) : Replay :=
  if rec.batch ≠ 0 ∧ rec.typ = 2 then countFin R pos.size else R.apply rec.key rec.typ pos

def lfold (R : Replay) (l : List (Record × Pos)) : Replay := l.foldl (fun R x => lrec R x.1 x.2) R

theorem lfold_nil (R : Replay) : lfold R [] = R := rfl

theorem lfold_cons (R : Replay) (x : Record × Pos) (l : List (Record × Pos)) :
    lfold R (x :: l) = lfold (lrec R x.1 x.2) l := rfl

theorem lfold_append (R : Replay) (a b : List (Record × Pos)) : lfold R (a ++ b) = lfold (lfold R a) b := by
  unfold lfold; rw [List.foldl_append]

theorem lrec_apply (R : Replay) (rec : Record) (pos : Pos) (h : rec.batch = 0 ∨ rec.typ ≠ 2) :
    lrec R rec pos = R.apply rec.key rec.typ pos := by
  unfold lrec
  rw [if_neg]
  rcases h with h | h
  · exact fun c => c.1 h
  · exact fun c => h c.2

theorem lrec_fin (R : Replay) (rec : Record) (pos : Pos) (hb : rec.batch ≠ 0) (ht : rec.typ = 2) :
    lrec R rec pos = countFin R pos.size := by
  unfold lrec; rw [if_pos ⟨hb, ht⟩]

theorem lfold_applyAll (l : List (Record × Pos)) : ∀ (R : Replay), (∀ x ∈ l, x.1.typ ≠ 2) → lfold R l = applyAll R l := by
  induction l with
  | nil => intro R _; rfl
  | cons x t ih =>
    intro R h
    rw [lfold_cons, applyAll_cons, lrec_apply R x.1 x.2 (Or.inr (h x (by simp)))]
    exact ih _ (fun y hy => h y (by simp [hy]))

theorem CoreEq.lrec {R R' : Replay} (h : CoreEq R R') (rec : Record) (pos : Pos) :
    CoreEq (lrec R rec pos) (lrec R' rec pos) := by
  unfold C17H.lrec
  split
  · exact h.countFin _
  · exact h.apply _ _ _

theorem CoreEq.lfold (l : List (Record × Pos)) : ∀ {R R' : Replay}, CoreEq R R' → CoreEq (lfold R l) (lfold R' l) := by
  induction l with
  | nil => intro R R' h; exact h
  | cons x t ih => intro R R' h; rw [lfold_cons, lfold_cons]; exact ih (h.lrec _ _)

/-- nothing is parked -/
def NoPendR (R : Replay) : Prop := ∀ id, pendingGet R.pending id = []

theorem NoPend_iff (l : List (Record × Pos)) : NoPend l ↔ NoPendR (replayLog l) := Iff.rfl

/-- **a log segment on which the two accountings agree**: from every replay state with nothing parked
    the live accounting and the replay reach the same index and counters, and again nothing is
    parked -/
def Seg (l : List (Record × Pos)) : Prop :=
  ∀ R R' : Replay, NoPendR R → CoreEq R' R → CoreEq (lfold R' l) (replayFrom R l) ∧ NoPendR (replayFrom R l)

theorem Seg_nil : Seg [] := fun _ _ hn hc => ⟨hc, hn⟩

theorem Seg_append {a b : List (Record × Pos)} (ha : Seg a) (hb : Seg b) : Seg (a ++ b) := by
  intro R R' hn hc
  obtain ⟨h1, h2⟩ := ha R R' hn hc
  rw [lfold_append, replayFrom_append]
  exact hb _ _ h2 h1

/-- a plain record -/
theorem Seg_plain (r : Record) (p : Pos) (hb : r.batch = 0) : Seg [(r, p)] := by
  intro R R' hn hc
  have e : replayFrom R [(r, p)] = R.apply r.key r.typ p := by
    rw [replayFrom_cons, replayFrom_nil]
    unfold replayRec
    rw [if_pos hb]
  rw [e, lfold_cons, lfold_nil, lrec_apply R' r p (Or.inl hb)]
  refine ⟨hc.apply _ _ _, ?_⟩
  intro id
  rw [Restart.apply_pending]
  exact hn id

/-- a complete batch: its tagged records, then its sealing record -/
theorem Seg_block (b : Nat) (hb : b ≠ 0) (tagged : List (Record × Pos))
    (ht : ∀ x ∈ tagged, x.1.batch = b ∧ x.1.typ ≠ 2) (fin : Record) (p : Pos) (hfb : fin.batch = b)
    (hft : fin.typ = 2) : Seg (tagged ++ [(fin, p)]) := by
  intro R R' hn hc
  have e : replayFrom R (tagged ++ [(fin, p)]) = dropBatch (applyAll (countFin R p.size) tagged) b := by
    rw [replayFrom_append, replayFrom_tagged b hb tagged _ ht, replayFrom_cons, replayFrom_nil]
    exact replayRec_seal R b hb tagged (hn b) fin p hfb hft
  have e' : lfold R' (tagged ++ [(fin, p)]) = countFin (applyAll R' tagged) p.size := by
    rw [lfold_append, lfold_cons, lfold_nil, lfold_applyAll tagged R' (fun x hx => (ht x hx).2),
      lrec_fin _ fin p (by rw [hfb]; exact hb) hft]
  rw [e, e']
  refine ⟨?_, ?_⟩
  · have h1 : CoreEq (countFin (applyAll R' tagged) p.size) (countFin (applyAll R tagged) p.size) :=
      (CoreEq.applyAll tagged hc).countFin _
    have h2 := (applyAll_countFin tagged R p.size).symm
    exact ⟨h1.index.trans h2.index, h1.total.trans h2.total, h1.reclaim.trans h2.reclaim⟩
  · intro id
    show pendingGet ((applyAll (countFin R p.size) tagged).pending.filter (·.1 ≠ b)) id = []
    rw [applyAll_pending]
    show pendingGet (R.pending.filter (·.1 ≠ b)) id = []
    by_cases e : id = b
    · rw [e, pendingGet_filter_self]
    · rw [pendingGet_filter_ne _ _ _ e]; exact hn id

/-- on a base log with nothing parked followed by a segment, the live accounting started from the
    base's replay agrees with the replay of the whole -/
theorem Seg.replay {L0 l : List (Record × Pos)} (h0 : NoPend L0) (hl : Seg l) :
    CoreEq (lfold (replayLog L0) l) (replayLog (L0 ++ l)) ∧ NoPend (L0 ++ l) := by
  have := hl (replayLog L0) (replayLog L0) h0 (CoreEq.refl _)
  have e : replayLog (L0 ++ l) = replayFrom (replayLog L0) l := by
    rw [replayLog_eq, replayFrom_append]; rfl
  rw [e]
  exact ⟨this.1, fun id => by
    show pendingGet (replayLog (L0 ++ l)).pending id = []
    rw [e]; exact this.2 id⟩

/-! ## the live engine performs the live accounting -/

/-- the handle's index and counters are those of the replay state `R`, the counters plus `E` -/
structure LRb (E : Nat) (db : DB) (R : Replay) : Prop where
  index : db.index = R.index
  total : db.total = R.total + E
  reclaim : db.reclaim = R.reclaim + E

theorem LRb.congr {E : Nat} {db db' : DB} {R : Replay} (h : LRb E db R) (hi : db'.index = db.index)
    (ht : db'.total = db.total) (hr : db'.reclaim = db.reclaim) : LRb E db' R :=
  ⟨hi.trans h.index, ht.trans h.total, hr.trans h.reclaim⟩

theorem LRb.core {E : Nat} {db : DB} {R R' : Replay} (h : LRb E db R) (hc : CoreEq R R') : LRb E db R' :=
  ⟨h.index.trans hc.index, by rw [h.total, hc.total], by rw [h.reclaim, hc.reclaim]⟩

theorem oldSize_eq (ix : Index) (k : ByteArray) : Engine.oldSize (Index.get ix k) = Restart.oldSize ix k := rfl

theorem LRb.applyStaged {E : Nat} {db : DB} {R : Replay} (h : LRb E db R) (r : Staged) (p : Pos) :
    LRb E (applyStaged db r p) (R.apply r.key r.typ p) := by
  refine ⟨?_, ?_, ?_⟩
  · rw [applyStaged_index, Restart.apply_index, h.index]
  · rw [applyStaged_total, Restart.apply_total, h.total]; omega
  · rw [applyStaged_reclaim, Restart.apply_reclaim, h.reclaim, oldSize_eq, h.index]; omega

theorem LRb.applyAllStaged {E : Nat} (id : Nat) (xs : List (Staged × Pos)) : ∀ {db : DB} {R : Replay}, LRb E db R →
    LRb E (applyAllStaged db xs) (applyAll R (asLog id xs)) := by
  induction xs with
  | nil => intro db R h; exact h
  | cons x t ih =>
    intro db R h
    rw [applyAllStaged_cons]
    show LRb E _ (applyAll R ((toRec id x.1, x.2) :: asLog id t))
    rw [applyAll_cons]
    exact ih (h.applyStaged x.1 x.2)

theorem LRb.fin {E : Nat} {db db' : DB} {R : Replay} (h : LRb E db R) (c : Nat) (hi : db'.index = db.index)
    (ht : db'.total = db.total + c) (hr : db'.reclaim = db.reclaim + c) : LRb E db' (countFin R c) := by
  refine ⟨hi.trans h.index, ?_, ?_⟩
  · show db'.total = R.total + c + E
    rw [ht, h.total]; omega
  · show db'.reclaim = R.reclaim + c + E
    rw [hr, h.reclaim]; omega

/-- **`flushStaged`** applies the staged records, tagged with the batch id, as the live accounting does -/
theorem flushStaged_acc {s : St} {db : DB} {g : GDir} (h : Files s db g) (b : BatchSt)
    (hok : ∀ r ∈ b.staged, StagedOK r) (hid : b.id < 2 ^ 64) {E : Nat} {R : Replay} (hlr : LRb E db R) :
    ∃ g' ps, Files (flushStaged s db b).1 (flushStaged s db b).2.1 g' ∧
      logOf g' = logOf g ++ asLog b.id (b.staged.zip ps) ∧
      LRb E (flushStaged s db b).2.1 (applyAll R (asLog b.id (b.staged.zip ps))) ∧
      (flushStaged s db b).2.1.batch = db.batch ∧
      (flushStaged s db b).2.2 = { b with staged := [], cached := 0 } := by
  rw [flushStaged_eq]
  split
  · obtain ⟨hf, hdb, hs⟩ := rotate_spec h
    obtain ⟨g', ps, _, h2, h3, _, h5, h6⟩ := flushTail_spec hf b hok hid
    refine ⟨g', ps, h2, by rw [h3, logOf_new_file], ?_, ?_, h6⟩
    · rw [h5]
      apply LRb.applyAllStaged
      rw [hdb]
      exact hlr.congr rfl rfl rfl
    · rw [h5, (applyAllStaged_rest _ _).2.2.2.2, hdb]
  · obtain ⟨g', ps, _, h2, h3, _, h5, h6⟩ := flushTail_spec h b hok hid
    refine ⟨g', ps, h2, h3, ?_, ?_, h6⟩
    · rw [h5]; exact LRb.applyAllStaged _ _ hlr
    · rw [h5, (applyAllStaged_rest _ _).2.2.2.2]

theorem flushAndRotate_acc {s : St} {db : DB} {g : GDir} (h : Files s db g) (b : BatchSt)
    (hok : ∀ r ∈ b.staged, StagedOK r) (hid : b.id < 2 ^ 64) {E : Nat} {R : Replay} (hlr : LRb E db R) :
    ∃ g' ps, Files (flushAndRotate s db b).1 (flushAndRotate s db b).2.1 g' ∧
      logOf g' = logOf g ++ asLog b.id (b.staged.zip ps) ∧
      LRb E (flushAndRotate s db b).2.1 (applyAll R (asLog b.id (b.staged.zip ps))) ∧
      (flushAndRotate s db b).2.2 = { b with staged := [], cached := 0 } := by
  obtain ⟨g', ps, h2, h3, h4, _, h6⟩ := flushStaged_acc h b hok hid hlr
  obtain ⟨hf, hdb, _⟩ := rotate_spec h2
  rw [flushAndRotate_eq]
  refine ⟨_, ps, hf, by rw [logOf_new_file, h3], ?_, h6⟩
  show LRb E (rotate (flushStaged s db b).1 (flushStaged s db b).2.1).2 _
  rw [hdb]
  exact h4.congr rfl rfl rfl

/-! ## the invariant -/

/-- the unsealed tail `fl` of the log versus the batch slot: empty unless a batch is live; then it holds
    records of that batch only, and is empty while nothing is staged -/
def OpenB (db : DB) (fl : List (Record × Pos)) : Prop :=
  match db.batch with
  | none => fl = []
  | some b => if b.committed = true then fl = [] else
      (∀ x ∈ fl, x.1.batch = b.id ∧ x.1.typ ≠ 2) ∧ (b.staged = [] → fl = [])

/-- no live batch -/
def QuietDB (db : DB) : Prop := ∀ b, db.batch = some b → b.committed = true

theorem OpenB.quiet {db : DB} {fl : List (Record × Pos)} (h : OpenB db fl) (hq : QuietDB db) : fl = [] := by
  unfold OpenB at h
  cases hb : db.batch with
  | none => rw [hb] at h; exact h
  | some b => rw [hb] at h; simp only [hq b hb, if_true] at h; exact h

theorem OpenB_nil {db : DB} (hq : QuietDB db) : OpenB db [] := by
  unfold OpenB
  cases hb : db.batch with
  | none => rfl
  | some b => simp only [hq b hb, if_true]

theorem OpenB.live {db : DB} {b : BatchSt} {fl : List (Record × Pos)} (h : OpenB db fl) (hb : db.batch = some b)
    (hc : b.committed = false) : (∀ x ∈ fl, x.1.batch = b.id ∧ x.1.typ ≠ 2) ∧ (b.staged = [] → fl = []) := by
  unfold OpenB at h
  rw [hb] at h
  simp only [hc, Bool.false_eq_true, if_false] at h
  exact h

theorem OpenB_live {db : DB} {b : BatchSt} {fl : List (Record × Pos)} (hb : db.batch = some b)
    (hc : b.committed = false) (h1 : ∀ x ∈ fl, x.1.batch = b.id ∧ x.1.typ ≠ 2) (h2 : b.staged = [] → fl = []) :
    OpenB db fl := by
  unfold OpenB
  rw [hb]
  simp only [hc, Bool.false_eq_true, if_false]
  exact ⟨h1, h2⟩

/-- **the accounting invariant with excess `E`**: the log is a base `L0` in which nothing is parked
    (the log at the last restart), a segment `l` on which live accounting and replay agree, and the
    unsealed tail `fl` of the live batch; index and counters of the handle are the live accounting of
    `l ++ fl` on top of the replay of `L0`, the counters plus `E` -/
def Acc (E : Nat) (s : St) : Prop :=
  ∃ db g L0 l fl, s.db = some db ∧ Files s db g ∧ logOf g = L0 ++ l ++ fl ∧ NoPend L0 ∧ Seg l ∧ OpenB db fl ∧
    LRb E db (lfold (replayLog L0) (l ++ fl))

/-- **without a live batch the counters are the replay's plus `E`**, the index is the replay's -/
theorem Acc.quiet {E : Nat} {s : St} {db : DB} {g : GDir} (h : Acc E s) (hs : s.db = some db) (hf : Files s db g)
    (hq : QuietDB db) :
    db.index = (replayLog (logOf g)).index ∧ db.total = (replayLog (logOf g)).total + E ∧
    db.reclaim = (replayLog (logOf g)).reclaim + E := by
  obtain ⟨db', g', L0, l, fl, hs', hf', hlog, h0, hl, hob, hlr⟩ := h
  rw [hs] at hs'; cases hs'
  have hg : g' = g := PolicyP.Files_unique hf' hf
  subst hg
  have hfl := hob.quiet hq
  subst hfl
  rw [List.append_nil] at hlog hlr
  obtain ⟨hc, _⟩ := hl.replay h0
  rw [← hlog] at hc
  have := hlr.core hc
  exact ⟨this.index, this.total, this.reclaim⟩

theorem QuietDB_of_HInvQ {dir : String} {s : St} {m : BSpec} {dead : Bool} (hq : HInvQ dir s m dead) {db : DB}
    (hs : s.db = some db) : QuietDB db := by
  obtain ⟨db', hs', hshape⟩ := hq.2
  rw [hs] at hs'; cases hs'
  intro b hb
  cases dead with
  | false =>
    have : db.batch = none := hshape
    rw [this] at hb; cases hb
  | true =>
    obtain ⟨bc, hbc, hc⟩ := hshape
    rw [hbc] at hb; cases hb; exact hc

/-! ## the calls keep the invariant (same excess) -/

theorem Acc_put {E : Nat} {s : St} {db : DB} (ha : Acc E s) (hs : s.db = some db) (hq : QuietDB db)
    (k v : ByteArray) (hk : k.size < 2 ^ 31) (hv : v.size < 2 ^ 31) : Acc E (put s k v).1 := by
  by_cases hk0 : k.size = 0
  · rw [put_keyempty s k v hk0 hs]; exact ha
  · obtain ⟨db', g, L0, l, fl, hs', hf, hlog, h0, hl, hob, hlr⟩ := ha
    rw [hs] at hs'; cases hs'
    have hfl := hob.quiet hq
    subst hfl
    rw [List.append_nil] at hlog hlr
    have hr : RecOK { typ := 0, key := k, value := v, batch := 0 } :=
      ⟨by show 0 < 3; omega, by show 0 < k.size; omega, hk, hv, by show 0 < 2 ^ 64; decide⟩
    obtain ⟨g', bw, a, hf', hlog', _, hdb⟩ := appendLog_spec hf _ hr
    rw [put_eq hs k v hk0]
    generalize appendLog s db { typ := 0, key := k, value := v, batch := 0 } = A at *
    obtain ⟨s1, db1, pos⟩ := A
    simp only at hf' hlog' hdb
    subst hdb
    refine ⟨_, g', L0, l ++ [({ typ := 0, key := k, value := v, batch := 0 }, pos)], [], rfl, hf'.congr rfl rfl rfl,
      by rw [hlog', hlog]; simp, h0,
      Seg_append hl (Seg_plain { typ := 0, key := k, value := v, batch := 0 } pos rfl), OpenB_nil (fun b hb => hq b hb), ?_⟩
    rw [List.append_nil, lfold_append, lfold_cons, lfold_nil, lrec_apply _ _ _ (Or.inl rfl)]
    show LRb E _ (Replay.apply (lfold (replayLog L0) l) k 0 pos)
    refine ⟨?_, ?_, ?_⟩
    · rw [Restart.apply_index, if_neg (show ¬ (0 : Nat) = 1 by decide)]
      show Index.put db.index k pos = _
      rw [hlr.index]
    · rw [Restart.apply_total]
      show db.total + pos.size = _
      rw [hlr.total]; omega
    · rw [Restart.apply_reclaim, if_neg (show ¬ (0 : Nat) = 1 by decide)]
      show db.reclaim + Engine.oldSize (Index.get db.index k) = _
      rw [oldSize_eq, hlr.index, hlr.reclaim]
      show _ = (lfold (replayLog L0) l).reclaim + 0 + Restart.oldSize (lfold (replayLog L0) l).index k + E
      omega

theorem Acc_delete {E : Nat} {s : St} {db : DB} (ha : Acc E s) (hs : s.db = some db) (hq : QuietDB db)
    (k : ByteArray) (hk : k.size < 2 ^ 31) : Acc E (delete s k).1 := by
  by_cases hk0 : k.size = 0
  · rw [delete_keyempty s k hk0 hs]; exact ha
  · cases hg : Index.get db.index k with
    | none => rw [delete_eq_none hs k hk0 hg]; exact ha
    | some old =>
      obtain ⟨db', g, L0, l, fl, hs', hf, hlog, h0, hl, hob, hlr⟩ := ha
      rw [hs] at hs'; cases hs'
      have hfl := hob.quiet hq
      subst hfl
      rw [List.append_nil] at hlog hlr
      have hr : RecOK { typ := 1, key := k, value := ByteArray.empty, batch := 0 } :=
        ⟨by show 1 < 3; omega, by show 0 < k.size; omega, hk, by show 0 < 2 ^ 31; decide, by show 0 < 2 ^ 64; decide⟩
      obtain ⟨g', bw, a, hf', hlog', _, hdb⟩ := appendLog_spec hf _ hr
      rw [delete_eq_some hs k hk0 hg]
      generalize appendLog s db { typ := 1, key := k, value := ByteArray.empty, batch := 0 } = A at *
      obtain ⟨s1, db1, pos⟩ := A
      simp only at hf' hlog' hdb
      subst hdb
      refine ⟨_, g', L0, l ++ [({ typ := 1, key := k, value := ByteArray.empty, batch := 0 }, pos)], [], rfl,
        hf'.congr rfl rfl rfl, by rw [hlog', hlog]; simp, h0,
        Seg_append hl (Seg_plain { typ := 1, key := k, value := ByteArray.empty, batch := 0 } pos rfl),
        OpenB_nil (fun b hb => hq b hb), ?_⟩
      rw [List.append_nil, lfold_append, lfold_cons, lfold_nil, lrec_apply _ _ _ (Or.inl rfl)]
      show LRb E _ (Replay.apply (lfold (replayLog L0) l) k 1 pos)
      have hold : Restart.oldSize (lfold (replayLog L0) l).index k = old.size := by
        unfold Restart.oldSize
        rw [← hlr.index, hg]
      refine ⟨?_, ?_, ?_⟩
      · rw [Restart.apply_index, if_pos rfl]
        show Index.erase db.index k = _
        rw [hlr.index]
      · rw [Restart.apply_total]
        show db.total + pos.size = _
        rw [hlr.total]; omega
      · rw [Restart.apply_reclaim, if_pos rfl, hold]
        show db.reclaim + pos.size + old.size = _
        rw [hlr.reclaim]
        omega

theorem Acc.congr {E : Nat} {s s' : St} {db db' : DB} (ha : Acc E s) (hs : s.db = some db) (hs' : s'.db = some db')
    (hw : ∀ g, Files s db g → Files s' db' g) (hi : db'.index = db.index) (ht : db'.total = db.total)
    (hr : db'.reclaim = db.reclaim) (hb : ∀ fl, OpenB db fl → OpenB db' fl) : Acc E s' := by
  obtain ⟨db0, g, L0, l, fl, hs0, hf, hlog, h0, hl, hob, hlr⟩ := ha
  rw [hs] at hs0; cases hs0
  exact ⟨db', g, L0, l, fl, hs', hw g hf, hlog, h0, hl, hb fl hob, hlr.congr hi ht hr⟩

theorem Acc_sync {E : Nat} {s : St} {db : DB} (ha : Acc E s) (hs : s.db = some db) : Acc E (syncDB s).1 := by
  obtain ⟨db0, g, L0, l, fl, hs0, hf, hlog, h0, hl, hob, hlr⟩ := ha
  rw [hs] at hs0; cases hs0
  obtain ⟨e, hgs⟩ := sync_gstep hs hf
  exact ⟨db, g, L0, l, fl, e, hgs.files, hlog, h0, hl, hob, hlr⟩

theorem Acc_bnew {E : Nat} {s : St} {db : DB} (ha : Acc E s) (hs : s.db = some db) (hq : QuietDB db)
    (sync : Bool) (id : Nat) : Acc E (bnew s sync id).1 := by
  rw [bnew_eq hs]
  refine ha.congr hs rfl (fun g hf => hf.congr rfl rfl rfl) rfl rfl rfl ?_
  intro fl hob
  have := hob.quiet hq
  subst this
  exact OpenB_live (b := newBatch sync id) rfl rfl (fun x hx => by simp at hx) (fun _ => rfl)

theorem Acc_bdrop {E : Nat} {s : St} {db : DB} (ha : Acc E s) (hs : s.db = some db) (hq : QuietDB db) :
    Acc E (bdrop s).1 := by
  rw [bdrop_eq hs]
  refine ha.congr hs rfl (fun g hf => hf.congr rfl rfl rfl) rfl rfl rfl ?_
  intro fl hob
  have := hob.quiet hq
  subst this
  exact OpenB_nil (fun b hb => by cases hb)

/-- a staging call of the live batch (`Batch.Put` / `Batch.Delete`): nothing, a changed staging area, or
    `flushStagedAndUpdateFile` first -/
theorem Acc_stageOut {E : Nat} {s s' : St} {db : DB} {b : BatchSt} {must : Prop} (ha : Acc E s) (hs : s.db = some db)
    (hb : db.batch = some b) (hc : b.committed = false) (hok : ∀ r ∈ b.staged, StagedOK r) (hid : b.id < 2 ^ 64)
    (o : PolicyP.Dur.StageOut s db b must s') : Acc E s' := by
  cases o with
  | same e _ => rw [e]; exact ha
  | staged b' e hne _ hc' hid' =>
    rw [e]
    refine ha.congr hs rfl (fun g hf => hf.congr rfl rfl rfl) rfl rfl rfl ?_
    intro fl hob
    obtain ⟨h1, _⟩ := hob.live hb hc
    exact OpenB_live (b := b') rfl (hc'.trans hc) (fun x hx => by rw [hid']; exact h1 x hx) (fun he => absurd he hne)
  | flushed b' e hne _ hc' hid' =>
    rw [e]
    obtain ⟨db0, g, L0, l, fl, hs0, hf, hlog, h0, hl, hob, hlr⟩ := ha
    rw [hs] at hs0; cases hs0
    obtain ⟨h1, _⟩ := hob.live hb hc
    obtain ⟨g', ps, hf', hlog', hlr', h6⟩ := flushAndRotate_acc hf b hok hid hlr
    have hidb : b'.id = b.id := by rw [hid', h6]
    have hcb : b'.committed = false := by rw [hc', h6]; exact hc
    have htag := asLog_tagged (id := b.id) (ps := ps) hok
    refine ⟨_, g', L0, l, fl ++ asLog b.id (b.staged.zip ps), rfl, hf'.congr rfl rfl rfl,
      by rw [hlog', hlog, List.append_assoc], h0, hl, ?_, ?_⟩
    · refine OpenB_live (b := b') rfl hcb ?_ (fun he => absurd he hne)
      intro x hx
      rw [hidb]
      rcases List.mem_append.mp hx with hx | hx
      · exact h1 x hx
      · exact htag x hx
    · rw [← List.append_assoc, lfold_append, lfold_applyAll _ _ (fun x hx => (htag x hx).2)]
      exact hlr'.congr rfl rfl rfl

/-- `Commit` of the live batch -/
theorem Acc_bcommit {E : Nat} {s : St} {db : DB} {b : BatchSt} (ha : Acc E s) (hs : s.db = some db)
    (hb : db.batch = some b) (hc : b.committed = false) (hok : ∀ r ∈ b.staged, StagedOK r) (hpos : 0 < b.id)
    (hid : b.id < 2 ^ 63) : Acc E (bcommit s).1 := by
  by_cases he : b.staged = []
  · rw [bcommit_empty hs hb hc he]
    refine ha.congr hs rfl (fun g hf => hf.congr rfl rfl rfl) rfl rfl rfl ?_
    intro fl hob
    have := (hob.live hb hc).2 he
    subst this
    refine OpenB_nil ?_
    intro b' hb'
    simp only [Option.some.injEq] at hb'
    subst hb'
    rfl
  · obtain ⟨db0, g, L0, l, fl, hs0, hf, hlog, h0, hl, hob, hlr⟩ := ha
    rw [hs] at hs0; cases hs0
    obtain ⟨h1, _⟩ := hob.live hb hc
    have hid64 : b.id < 2 ^ 64 := by omega
    obtain ⟨g1, ps, hf1, hlog1, hlr1, _, h6⟩ :=
      flushStaged_acc hf { b with committed := true } hok hid64 hlr
    have hidB : (flushStaged s db { b with committed := true }).2.2.id = b.id := by rw [h6]
    have hcB : (flushStaged s db { b with committed := true }).2.2.committed = true := by rw [h6]
    obtain ⟨g2, hf2, hlog2, _⟩ := seal_spec hf1 (flushStaged s db { b with committed := true }).2.2 (by rw [hidB]; exact hid)
    have htag := asLog_tagged (id := b.id) (ps := ps) hok
    have htagAll : ∀ x ∈ fl ++ asLog b.id (b.staged.zip ps), x.1.batch = b.id ∧ x.1.typ ≠ 2 := by
      intro x hx
      rcases List.mem_append.mp hx with hx | hx
      · exact h1 x hx
      · exact htag x hx
    rw [bcommit_nonempty hs hb hc he]
    rw [hidB] at hlog2 ⊢
    refine ⟨_, g2, L0, l ++ (fl ++ asLog b.id (b.staged.zip ps) ++ [(finRec b.id, sealPos
        (flushStaged s db { b with committed := true }).1 (flushStaged s db { b with committed := true }).2.1 b.id)]), [],
      rfl, hf2.congr rfl rfl rfl, ?_, h0,
      Seg_append hl (Seg_block b.id (by omega) _ htagAll (finRec b.id) _ rfl rfl), OpenB_nil ?_, ?_⟩
    · rw [hlog2, hlog1, hlog]
      simp only [List.append_assoc, List.append_nil]
    · intro b' hb'
      simp only [Option.some.injEq] at hb'
      subst hb'
      exact hcB
    · rw [List.append_nil, ← List.append_assoc, ← List.append_assoc, lfold_append, lfold_cons, lfold_nil,
        lrec_fin _ _ _ (show (finRec b.id).batch ≠ 0 from by show b.id ≠ 0; omega) rfl,
        List.append_assoc, ← List.append_assoc l, lfold_append, lfold_applyAll _ _ (fun x hx => (htag x hx).2)]
      exact hlr1.fin _ rfl rfl rfl

/-- `Merge`: one rotation, no record -/
theorem Acc_merge {dir : String} {E : Nat} {s : St} {m : BSpec} {dead : Bool} (hq : HInvQ dir s m dead) (ha : Acc E s)
    (order : List Nat) (ho : order.Nodup) (hsmall : ∀ db, s.db = some db → db.activeId + 1 < 2 ^ 32) :
    Acc E (merge s order).1 := by
  obtain ⟨db, hs, _⟩ := hq.2
  obtain ⟨db0, g0, hs0, _, hi0, _⟩ := hq.1
  rw [setB_db hs] at hs0
  cases hs0
  obtain ⟨h1, h2, _⟩ := merge_spec (setB_db hs none) hi0 order ho (hsmall db hs)
  have e : merge s order = (setB db.batch (merge (setB none s) order).1, (merge (setB none s) order).2) := by
    conv => lhs; rw [← setB_restore hs]
    exact merge_setB _ _ _
  rw [e]
  obtain ⟨db', g, L0, l, fl, hs', hf, hlog, h0, hl, hob, hlr⟩ := ha
  rw [hs] at hs'; cases hs'
  have hg : g = g0 := PolicyP.Files_unique' hf hi0.files rfl rfl
  subst hg
  exact ⟨setBDB db.batch (rotDB (setBDB none db)), g ++ [(db.activeId + 1, [])], L0, l, fl, setB_db h1 _,
    h2.files.congr rfl rfl rfl, by rw [logOf_new_file]; exact hlog, h0, hl, hob, hlr.congr rfl rfl rfl⟩

theorem Acc_backup {E : Nat} {s : St} {db : DB} (ha : Acc E s) (hs : s.db = some db) (dest : String)
    (h1 : dest ≠ db.dir) : Acc E (backup s dest).1 := by
  obtain ⟨W, e, hwd, _⟩ := backup_eq hs dest
  rw [e]
  refine ha.congr hs hs ?_ rfl rfl rfl (fun _ h => h)
  intro g hf
  have hw : W.get db.dir = s.world.get db.dir := hwd h1
  exact ⟨by show DirOK W db.dir g; unfold DirOK; rw [hw]; exact hf.dir, hf.asc, hf.active, hf.recs⟩

/-- **restart**: the invariant is re-established from scratch — base = the whole (new) log, excess `0`
    on the scan path, `S` after an adoption -/
theorem Acc_restart {dir : String} {s : St} {m : BSpec} {dead : Bool} (hq : HInvQ dir s m dead)
    (cfg' : Cfg) (hcfg : cfg'.Valid)
    (hsz : ∀ md, s.world.get (mergeDirName dir) = some md → md.marker ≠ none →
      ∀ x ∈ md.data, x.2.bytes.size < 2 ^ 32) :
    ∃ E', Acc E' (openDB (close s).1 dir cfg').1 := by
  obtain ⟨db, hs, _⟩ := hq.2
  obtain ⟨db0, g, hs0, hd0, hi0, _, hms0, hfr⟩ := hq.1
  rw [setB_db hs] at hs0
  cases hs0
  have hdir : db.dir = dir := hd0
  subst hdir
  have hcl : close (setB none s) = close s := close_setB none s
  rcases hms0 with hnm | ⟨n, gm, vis, hmo⟩
  · obtain ⟨d, hdd, _, hopen⟩ := restart_scanX cfg' (setB_db hs none) hi0 hnm.plan hcfg
    rw [hcl] at hopen
    have hopen' : openDB (close s).1 db.dir cfg'
        = (⟨s.world.set db.dir ⟨syncAll d.data, d.hint, d.marker, true⟩, some (scanDB cfg' db.dir db.activeId g)⟩, .ok) := hopen
    rw [hopen']
    obtain ⟨d', hd', _, hm⟩ := hi0.dir
    have hdd' : s.world.get db.dir = some d := hdd
    have hd2 : s.world.get db.dir = some d' := hd'
    rw [hdd'] at hd2
    cases hd2
    have hinv' := Inv_scanDB (s.world.set db.dir ⟨syncAll d.data, d.hint, d.marker, true⟩) db.dir cfg'
      ⟨syncAll d.data, d.hint, d.marker, true⟩ g db.activeId (MergeP.get_set_self _ _ _) rfl (Matches_syncAll hm)
      hi0.asc hi0.recs hi0.active ⟨_, some (scanDB cfg' db.dir db.activeId g)⟩ rfl
    exact ⟨0, _, g, logOf g, [], [], rfl, hinv'.files, by simp, hfr, Seg_nil, OpenB_nil (fun b hb => by cases hb),
      ⟨rfl, rfl, rfl⟩⟩
  · have hF := HintFits_of_sizes hmo hsz
    obtain ⟨d, md, maxFid, W', _, _, _, _, _, hopen, _, _, hinv', _⟩ :=
      restart_adoptX cfg' (setB_db hs none) hi0 hmo hF hcfg
    obtain ⟨_, _, _, _, _, _, _, _, _, hnp, _⟩ := restart_adopt cfg' (setB_db hs none) hi0 hmo hF hcfg
    rw [hcl] at hopen
    have hopen' : openDB (close s).1 db.dir cfg'
        = (⟨W', some (hintDB cfg' db.dir db.activeId (gm ++ hi g n) (sizeSum (logOf (hi gm maxFid))))⟩, .ok) := hopen
    rw [hopen']
    exact ⟨sizeSum (logOf (hi gm maxFid)), _, gm ++ hi g n, logOf (gm ++ hi g n), [], [], rfl, hinv'.files, by simp,
      hnp hfr, Seg_nil, OpenB_nil (fun b hb => by cases hb), ⟨rfl, rfl, rfl⟩⟩

/-- **every call but a restart keeps the invariant with the SAME excess** -/
theorem Acc_step (dir : String) (E : Nat) (s : St) (σ : SpecSt) (op : HOp) (hi : HInv dir s σ) (ha : Acc E s)
    (hop : HOpOK dir op) (hwf : isLive σ.slot = true → batchCall op = true) (hst : StepOK dir s op)
    (hnr : ∀ cfg', op ≠ .restart cfg') : Acc E (hstep dir s op).1 := by
  cases op with
  | restart cfg' => exact absurd rfl (hnr cfg')
  | merge order =>
    obtain ⟨dead, hq⟩ := quiet_of_wf hi hwf rfl
    exact Acc_merge hq ha order hop hst
  | backup dest =>
    obtain ⟨db0, hs0, hd0⟩ := HInv_open hi
    exact Acc_backup ha hs0 dest (by rw [hd0]; exact hop.1)
  | a op =>
    obtain ⟨m, sl⟩ := σ
    have hQ : ∀ dead, HInvQ dir s m dead → Acc E (hstep dir s (.a op)).1 := by
      intro dead hq
      obtain ⟨db, hs, _⟩ := hq.2
      have hqd := QuietDB_of_HInvQ hq hs
      cases op with
      | put k v => exact Acc_put ha hs hqd k v hop.1 hop.2
      | del k => exact Acc_delete ha hs hqd k hop
      | get k =>
        show Acc E (get s k).1
        rw [PolicyP.get_state]; exact ha
      | sync => exact Acc_sync ha hs
      | bnew sy id => exact Acc_bnew ha hs hqd sy id
      | bput k v =>
        show Acc E (bput s k v).1
        rw [bputQ hq k v]; exact ha
      | bdel k =>
        show Acc E (bdel s k).1
        rw [bdelQ hq k]; exact ha
      | bget k =>
        show Acc E (bget s k).1
        rw [bget_state]; exact ha
      | bcommit =>
        show Acc E (bcommit s).1
        rw [bcommitQ hq]; exact ha
      | bdrop => exact Acc_bdrop ha hs hqd
    cases sl with
    | none => exact hQ false hi
    | dead => exact hQ true hi
    | live issued =>
      obtain ⟨db, g, b, l0, fl, hx, _, _, _⟩ := hi
      have hid64 : b.id < 2 ^ 64 := by have := hx.core.idlt; omega
      have hb := hwf rfl
      cases op with
      | bput k v =>
        exact Acc_stageOut ha hx.open_ hx.batch hx.core.live hx.core.stagedOK hid64 (PolicyP.Dur.bput_out hx.open_ hx.batch k v)
      | bdel k =>
        exact Acc_stageOut ha hx.open_ hx.batch hx.core.live hx.core.stagedOK hid64 (PolicyP.Dur.bdel_out hx.open_ hx.batch k)
      | bget k =>
        show Acc E (bget s k).1
        rw [bget_state]; exact ha
      | bcommit =>
        exact Acc_bcommit ha hx.open_ hx.batch hx.core.live hx.core.stagedOK hx.core.idpos hx.core.idlt
      | put k v => simp [batchCall] at hb
      | del k => simp [batchCall] at hb
      | get k => simp [batchCall] at hb
      | sync => simp [batchCall] at hb
      | bnew sy id => simp [batchCall] at hb
      | bdrop => simp [batchCall] at hb

theorem Acc_fresh (dir : String) (cfg : Cfg) (h : cfg.Valid) : Acc 0 (openDB St.init dir cfg).1 := by
  rw [openDB_fresh dir cfg h]
  have hi := Inv_fresh dir cfg
  refine ⟨_, [(0, [])], [], [], [], rfl, hi.files, rfl, fun id => rfl, Seg_nil, OpenB_nil (fun b hb => by cases hb), ?_⟩
  exact ⟨rfl, rfl, rfl⟩

end XixiKV.C17H
