import XixiKV.Proofs.TransEqBase
/-! # translated Go function(s) = model: Remap (split out of `TransEq.lean` so that a function that leaves the
    translator's subset, or whose proof breaks, affects only the properties that restate it) -/
namespace XixiKV.TransEq
open XixiKV XixiKV.Generated.Trans XixiKV.Frame
/-! ## (c) the size arithmetic of `(*MMap).remap` -/

/-- **the new mapping end computed by `remap` = `Fio.roundUp blockSize (newBase + dataSize)`**
    for `newBase + dataSize < 2^62` -/
theorem trans_remap_endOff_eq (newBase dataSize : Nat) (h : newBase + dataSize < 2^62) :
    fio.remap_endOff (newBase : Int) (dataSize : Int)
      = (Fio.roundUp fio.blockSize (newBase + dataSize) : Int) := by
  simp (disch := omega) only [fio.remap_endOff, Fio.roundUp, fio.blockSize, i64_of_range, tdiv_of_nonneg]
  omega

/-- the early-return test of `remap` is the model's `newBase + dataSize ≤ m.endOff` -/
theorem trans_remap_covered_iff (endOff newBase dataSize : Nat) (h : newBase + dataSize < 2^62) :
    fio.remap_covered (endOff : Int) (newBase : Int) (dataSize : Int) ↔ newBase + dataSize ≤ endOff := by
  simp (disch := omega) only [fio.remap_covered, i64_of_range]
  omega

/-- the block size the translator read from `fio/mmap.go` is the one `cmd/extract` reports -/
theorem trans_fio_blockSize_eq : fio.blockSize = Generated.mmapBlockSize := rfl

example : fio.remap_endOff ((536870912 : Nat) : Int) ((1 : Nat) : Int)
    = (Fio.roundUp fio.blockSize (536870912 + 1) : Int) :=
  trans_remap_endOff_eq 536870912 1 (by decide)
example : fio.remap_endOff 536870912 1 = 1073741824 := by decide

end XixiKV.TransEq
