import XixiKV.Proofs.TransEq2Read
/-!
# Translated Go = model, round 3: the sequential reader

| Go function                       | generated definition        | model                                   | theorem |
|---|---|---|---|
| `(*DataFile).zeroUntilEnd`        | `datafile.zeroUntilEnd`     | `Frame.allZeroFrom`                     | `trans_zeroUntilEnd_eq` |
| `(*DataReader).endOfLog`          | `datafile.endOfLog`         | the `.eof` line of `Frame.nextAt`       | `trans_endOfLog_eq` |
| `(*DataReader).next`              | `datafile.next`             | `Frame.nextAt` (+ `rnormB/rnormO`)      | `trans_next_eq` (`trans_next_write`) |
| `(*DataFile).Truncate`            | `datafile.Truncate`         | `ByteArray.extract 0 size`, `(size / BS, size % BS)` | `trans_Truncate_eq` (`_inv`, `_closed`) in `TransEq3Trunc.lean` |

`Generated/Trans.lean` is regenerated from /repo's current source on every run (`harness/cmd/trans`,
round 3: `round3.go`); see `harness/cmd/trans/NOTES.md` for the subset, the tables and what is trusted.
-/
namespace XixiKV.TransEq
open XixiKV XixiKV.Generated.Trans XixiKV.Frame

/-! ## bytes that are zero on an interval -/

/-- all bytes of `f` at positions `a ≤ j < b` are zero -/
def ZeroOn (f : ByteArray) (a b : Nat) : Prop := ∀ j, a ≤ j → j < b → f.get! j = 0

theorem get!_eq_data (f : ByteArray) (j : Nat) (h : j < f.size) : f.get! j = f.data[j]'h := by
  simp only [ByteArray.get!]
  exact getElem!_pos f.data j h

/-- the model's `allZeroFrom` (what `zeroUntilEnd` computes) pointwise -/
theorem allZeroFrom_iff (f : ByteArray) (i : Nat) : allZeroFrom f i = true ↔ ZeroOn f i f.size := by
  unfold allZeroFrom ZeroOn
  rw [Array.all_eq_true]
  have hsz : f.size = f.data.size := rfl
  constructor
  · intro h j hij hj
    have h1 : j - i < (f.extract i f.size).data.size := by
      rw [ByteArray.data_extract, Array.size_extract]; omega
    have := h (j - i) h1
    simp only [ByteArray.data_extract, Array.getElem_extract, beq_iff_eq] at this
    rw [get!_eq_data f j hj]
    have e : i + (j - i) = j := by omega
    simpa only [e] using this
  · intro h k hk
    have hk' : k < min f.size f.data.size - i := by
      rw [ByteArray.data_extract, Array.size_extract] at hk; exact hk
    have := h (i + k) (by omega) (by omega)
    rw [get!_eq_data f (i + k) (by omega)] at this
    simp only [ByteArray.data_extract, Array.getElem_extract, beq_iff_eq]
    exact this

theorem allZeroFrom_eq_false (f : ByteArray) (i : Nat) : allZeroFrom f i = false ↔ ¬ ZeroOn f i f.size := by
  rw [← allZeroFrom_iff]; cases allZeroFrom f i <;> simp

theorem ZeroOn_split (f : ByteArray) (a m b : Nat) (h1 : ZeroOn f a m) (h2 : ZeroOn f m b) : ZeroOn f a b := by
  intro j h3 h4
  by_cases h : j < m
  · exact h1 j h3 h
  · exact h2 j (by omega) h4

theorem ZeroOn_mono (f : ByteArray) (a b a' b' : Nat) (h : ZeroOn f a b) (ha : a ≤ a') (hb : b' ≤ b) : ZeroOn f a' b' :=
  fun j h1 h2 => h j (by omega) (by omega)

/-- a window of the file, read into a buffer, is zero iff the file is zero there -/
theorem ZeroOn_window (file : ByteArray) (F n : Nat) (h : F + n ≤ file.size) :
    ZeroOn (file.extract F (F + n)) 0 n ↔ ZeroOn file F (F + n) := by
  constructor
  · intro hz j h1 h2
    have := hz (j - F) (by omega) (by omega)
    rw [get!_extract file F (F + n) (j - F) (by omega) h] at this
    have e : F + (j - F) = j := by omega
    rwa [e] at this
  · intro hz j _ h2
    rw [get!_extract file F (F + n) j (by omega) h]
    exact hz (F + j) (by omega) (by omega)

/-! ## `(*DataFile).zeroUntilEnd` -/

abbrev ZSt := datafile.zeroUntilEnd.St

/-- the inner `range` loop over a window that is all zero runs to its end and changes only the range variable -/
theorem zloop1_zero (rng : ByteArray) : ∀ (k i : Nat) (st : ZSt), i + k = rng.size → ZeroOn rng i rng.size →
    ∃ st', datafile.zeroUntilEnd.loop1 rng k i st = some (.inl st') ∧
      st'.from_ = st.from_ ∧ st'.block = st.block ∧ st'.n = st.n := by
  intro k
  induction k with
  | zero => intro i st _ _; exact ⟨st, rfl, rfl, rfl, rfl⟩
  | succ k ih =>
    intro i st hik hz
    have h0 : rng.get! i = 0 := hz i (Nat.le_refl _) (by omega)
    obtain ⟨st', e, e1, e2, e3⟩ := ih (i + 1) { st with b := (rng.get! i).toNat } (by omega)
      (ZeroOn_mono rng _ _ _ _ hz (by omega) (Nat.le_refl _))
    refine ⟨st', ?_, e1, e2, e3⟩
    rw [datafile.zeroUntilEnd.loop1]
    simp only [datafile.zeroUntilEnd.body1, h0, UInt8.toNat_zero, ne_eq, not_true_eq_false, ↓reduceIte, Ctl.step]
    simpa only [h0, UInt8.toNat_zero] using e

/-- … and returns `false` from the function as soon as it meets a non-zero byte -/
theorem zloop1_nonzero (rng : ByteArray) : ∀ (k i : Nat) (st : ZSt), i + k = rng.size → ¬ ZeroOn rng i rng.size →
    datafile.zeroUntilEnd.loop1 rng k i st = some (.inr false) := by
  intro k
  induction k with
  | zero =>
    intro i st hik hz
    exact absurd (fun j h1 h2 => by omega) hz
  | succ k ih =>
    intro i st hik hz
    rw [datafile.zeroUntilEnd.loop1]
    by_cases h0 : rng.get! i = 0
    · have hz' : ¬ ZeroOn rng (i + 1) rng.size := by
        intro h
        apply hz
        intro j h1 h2
        by_cases hj : j = i
        · rw [hj]; exact h0
        · exact h j (by omega) h2
      simp only [datafile.zeroUntilEnd.body1, h0, UInt8.toNat_zero, ne_eq, not_true_eq_false, ↓reduceIte, Ctl.step]
      exact ih (i + 1) _ (by omega) hz'
    · have h1 : (rng.get! i).toNat ≠ 0 := by
        intro h; apply h0; exact UInt8.toNat_inj.1 (by rw [h]; rfl)
      simp only [datafile.zeroUntilEnd.body1, ne_eq, h1, not_false_eq_true, ↓reduceIte, Ctl.step]

set_option linter.unusedSimpArgs false in -- (alternative forms for harmless rewrites of the Go source)
/-- one iteration of the outer loop: the next window of at most one block is read and tested -/
theorem zbody0_spec (file : ByteArray) (st : ZSt) (F : Nat) (hF : st.from_ = (F : Int)) (hbs : st.block.size = 32768)
    (hlt : F < file.size) (hf : file.size < 2^62) :
    (ZeroOn file F (F + min (file.size - F) 32768) →
      ∃ st', datafile.zeroUntilEnd.body0 file (file.size : Int) st = .next st' ∧
        st'.from_ = ((F + min (file.size - F) 32768 : Nat) : Int) ∧ st'.block.size = 32768) ∧
    (¬ ZeroOn file F (F + min (file.size - F) 32768) →
      datafile.zeroUntilEnd.body0 file (file.size : Int) st = .ret false) := by
  obtain ⟨fr, blk, n0, b0⟩ := st
  simp only [] at hF hbs
  subst hF
  generalize hn : min (file.size - F) 32768 = n
  have hnI : min (i64 ((file.size : Int) - (F : Int))) ((datafile.blockSize : Nat) : Int) = (n : Int) := by
    rw [i64_of_range (by omega) (by omega)]
    simp only [datafile.blockSize]
    omega
  have hnI' : min ((datafile.blockSize : Nat) : Int) (i64 ((file.size : Int) - (F : Int))) = (n : Int) := by
    rw [Int.min_comm]; exact hnI
  have hwin := read_window blk file F n 0 (by omega)
  have hsr := size_read blk file F n (by omega) (by omega)
  have hrs : (file.extract (F + 0) (F + n)).size = n := by rw [ByteArray.size_extract]; omega
  have hzw := ZeroOn_window file F n (by omega)
  rw [Nat.add_zero] at hwin hrs
  constructor
  · intro hz
    obtain ⟨st', e, e1, e2, e3⟩ := zloop1_zero (file.extract F (F + n)) n 0
      ⟨(F : Int), putAt blk 0 (file.extract F (F + (n - 0))), (n : Int), b0⟩ (by omega)
      (by rw [hrs]; exact hzw.2 hz)
    refine ⟨{ st' with from_ := i64 (st'.from_ + st'.n) }, ?_, ?_, ?_⟩
    · simp only [datafile.zeroUntilEnd.body0, hnI, hnI', Int.toNat_natCast, hwin, hrs, e, Ctl.sub]
    · show i64 (st'.from_ + st'.n) = _
      rw [e1, e3]
      simp only []
      rw [i64_of_range (by omega) (by omega)]
      omega
    · show st'.block.size = 32768
      rw [e2]
      exact hsr.trans hbs
  · intro hz
    have := zloop1_nonzero (file.extract F (F + n)) n 0
      ⟨(F : Int), putAt blk 0 (file.extract F (F + (n - 0))), (n : Int), b0⟩ (by omega)
      (by rw [hrs]; exact fun h => hz (hzw.1 h))
    simp only [datafile.zeroUntilEnd.body0, hnI, hnI', Int.toNat_natCast, hwin, hrs, this, Ctl.sub]

theorem allZeroFrom_ge (file : ByteArray) (F : Nat) (h : file.size ≤ F) : allZeroFrom file F = true :=
  (allZeroFrom_iff file F).2 (fun j h1 h2 => by omega)

/-- the outer loop from position `F`: `true` iff everything from `F` to the end of the file is zero -/
theorem zloop0_spec (file : ByteArray) (hf : file.size < 2^62) :
    ∀ (fuel : Nat) (st : ZSt) (F : Nat), st.from_ = (F : Int) → st.block.size = 32768 →
      (file.size - F) + 1 ≤ fuel →
      Ctl.after (datafile.zeroUntilEnd.loop0 file (file.size : Int) fuel st) (fun _ => some true)
        = some (allZeroFrom file F) := by
  intro fuel
  induction fuel with
  | zero => intro st F _ _ h; omega
  | succ fuel ih =>
    intro st F hF hbs hfuel
    rw [datafile.zeroUntilEnd.loop0]
    by_cases hlt : F < file.size
    · rw [if_pos (by rw [hF]; omega)]
      obtain ⟨hz1, hz2⟩ := zbody0_spec file st F hF hbs hlt hf
      by_cases hz : ZeroOn file F (F + min (file.size - F) 32768)
      · obtain ⟨st', e, e1, e2⟩ := hz1 hz
        have hfuel' : file.size - (F + min (file.size - F) 32768) + 1 ≤ fuel := by omega
        have hi := ih st' (F + min (file.size - F) 32768) e1 e2 hfuel'
        rw [e]
        simp only [Ctl.step]
        rw [hi]
        refine congrArg some ?_
        cases hr : allZeroFrom file F
        · rw [allZeroFrom_eq_false] at hr ⊢
          exact fun h => hr (ZeroOn_split file _ _ _ hz h)
        · rw [allZeroFrom_iff] at hr ⊢
          exact ZeroOn_mono file _ _ _ _ hr (by omega) (Nat.le_refl _)
      · rw [hz2 hz]
        simp only [Ctl.step, Ctl.after]
        refine congrArg some ?_
        symm
        rw [allZeroFrom_eq_false]
        exact fun h => hz (ZeroOn_mono file _ _ _ _ h (Nat.le_refl _) (by omega))
    · rw [if_neg (by rw [hF]; omega)]
      simp only [Ctl.after]
      rw [allZeroFrom_ge file F (by omega)]

/-- **`(*DataFile).zeroUntilEnd` = the model's `allZeroFrom`**: for every file, every content of the pooled
    block buffer and every start position (also beyond the end), called with `fileSize` = the size of the
    file, it returns whether all bytes from `from` to the end of the file are zero; the fuel suffices. -/
theorem trans_zeroUntilEnd_eq (file block0 : ByteArray) (from_ : Nat) (hb0 : block0.size = 32768)
    (hf : file.size < 2^62) :
    datafile.zeroUntilEnd block0 file (from_ : Int) (file.size : Int) = some (allZeroFrom file from_) := by
  simp only [datafile.zeroUntilEnd]
  exact zloop0_spec file hf _ _ from_ rfl hb0 (by omega)

example : datafile.zeroUntilEnd (mkBytes 32768) ⟨#[1, 0, 0]⟩ 1 3 = some true := by
  have h := trans_zeroUntilEnd_eq ⟨#[1, 0, 0]⟩ (mkBytes 32768) 1 (by simp) (by decide)
  have e1 : ((ByteArray.mk #[1, 0, 0]).size : Int) = 3 := rfl
  have e2 : allZeroFrom ⟨#[1, 0, 0]⟩ 1 = true := by
    rw [allZeroFrom_iff]
    intro j h1 h2
    have h3 : j < 3 := h2
    have : j = 1 ∨ j = 2 := by omega
    rcases this with rfl | rfl <;> rfl
  rw [e1, e2] at h
  exact h

/-! ## `(*DataReader).next` -/

abbrev NSt := datafile.next.St
/-- Go results `(data, pos, err)` and the final `reader.blockID`, `reader.offset`, `reader.validEnd` -/
abbrev NRes := (ByteArray × Option datafile.DataPos × Option String) × Nat × Nat × Int

theorem dec_ok_size {w p : ByteArray} {t : CT} (h : Chunk.dec w = .ok p t) : H + p.size ≤ w.size := by
  have hH := hH
  unfold Chunk.dec at h
  simp only [] at h
  split at h
  · cases h
  · split at h
    · cases h
    · split at h
      · cases h
      · injection h with h1 h2
        rw [← h1, ByteArray.size_extract]
        omega

/-- any sub-window of the block buffer after the read effect -/
theorem read_sub (b file : ByteArray) (base size lo hi : Nat) (hsz : base + size ≤ file.size) (hhi : hi ≤ size) :
    (putAt b 0 (file.extract base (base + (size - 0)))).extract lo hi = file.extract (base + lo) (base + hi) := by
  have h0 := read_window b file base size 0 hsz
  have : (putAt b 0 (file.extract base (base + (size - 0)))).extract lo hi
      = ((putAt b 0 (file.extract base (base + (size - 0)))).extract 0 size).extract lo hi := by
    rw [ByteArray.extract_extract]; congr 1 <;> omega
  rw [this, h0, ByteArray.extract_extract]
  congr 1 <;> omega

/-- the model's `hdrLen` is Go's `binary.LittleEndian.Uint16` of the two length bytes -/
theorem hdrLen_eq_le16 (f : ByteArray) (i : Nat) (h : i + 6 ≤ f.size) :
    hdrLen f i = le16 (f.extract (i + 4) (i + 6)) := by
  have hs : (f.extract (i + 4) (i + 6)).size = 2 := by rw [ByteArray.size_extract]; omega
  unfold hdrLen le16
  rw [toList_size2 _ hs]

/-! ### one iteration of the loop of `next`

The loop body is executed symbolically *one condition at a time* (`rw [if_pos/if_neg (by …)] at hX` on the
unfolded body): each condition is a small term, so the `omega` side goals stay small.  (Simplifying the
whole body with `simp (disch := omega)` as for `readToBuf` works but is slow here: the branch conditions
pile up as hypotheses, and `omega` proofs over more than about ten atoms are slow to check in the kernel.) -/

/-- a fact kept out of sight of `omega` (which collects every arithmetic hypothesis) -/
structure Hid (p : Prop) : Prop where
  h : p

theorem Ctl.call_some {α σ ρ : Type} {r : Option α} {a : α} (k : α → Ctl σ ρ) (h : r = some a) :
    Ctl.call r k = k a := by subst h; rfl

theorem rnormB_lit (b o : Nat) : rnormB b o = if o + 7 ≥ 32768 then b + 1 else b := rfl
theorem rnormO_lit (o : Nat) : rnormO o = if o + 7 ≥ 32768 then 0 else o := rfl
theorem claimedEnd_lit (f : ByteArray) (base off size : Nat) :
    claimedEnd f base off size
      = if off + 7 ≤ size then min (base + size) (base + off + 7 + hdrLen f (base + off)) else base + size := rfl
theorem end_eq (s : NSt) (c : Int) (h : s.end_ = c) : s.end_ = c := h

set_option hygiene false in
/-- decide one (small) condition of the generated code: remove the 64-bit wraps, then linear arithmetic -/
local macro "nd" : tactic =>
  `(tactic| (simp (disch := omega) only [hfs, datafile.blockSize, datafile.chunkHeaderSize, i64_of_range, Int.toNat_natCast,
      ne_eq, not_true_eq_false, not_false_eq_true, reduceCtorEq] <;> omega))

set_option hygiene false in
/-- the same with the facts about the block window and the decoded chunk (no final `omega`) -/
local macro "ndd" : tactic =>
  `(tactic| (simp (disch := omega) only [hfs, datafile.blockSize, datafile.chunkHeaderSize, datafile.Full, datafile.Last,
      i64_of_range, Int.toNat_natCast, Nat.mod_eq_of_lt, hsize.h, hsize2.h, hsize3.h, hoff.h, hoff2.h, hwin, hdec,
      ne_eq, not_true_eq_false, not_false_eq_true, reduceCtorEq, Option.some.injEq, String.reduceEq,
      and_true, true_and, and_false, false_and, or_false, false_or, or_true, true_or, Bool.false_eq_true]))

set_option hygiene false in
/-- the last step of every error path: `ErrIncompleteChunk` is reported as `ErrInvalidCRC` -/
local macro "errleaf" : tactic =>
  `(tactic| (cases inc
             · simp only [Bool.false_eq_true, ↓reduceIte] at he
               subst he
               rw [if_neg (by ndd)] at hX
               rw [← hX]
               ndd
             · simp only [↓reduceIte] at he
               subst he
               rw [if_pos (by ndd)] at hX
               exact hX.symm))

set_option hygiene false in
/-- a tolerant reader, after `end` was computed: the `tornZero` rule -/
local macro "toltail" : tactic =>
  `(tactic| (cases haz1 : allZeroFrom file ce
             · rw [Ctl.call_some _ (hzz _ _ ce false rfl (by nd) haz1)] at hX
               rw [if_neg (by simp)] at hX
               rw [if_neg (by
                 intro h
                 rcases h with h | h | h
                 · exact hE' h
                 · exact Bool.noConfusion h
                 · simp [haz1] at h)]
               errleaf
             · rw [Ctl.call_some _ (hzz _ _ ce true rfl (by nd) haz1)] at hX
               by_cases hlt : ce < file.size
               · rw [if_pos ⟨by nd, rfl⟩] at hX
                 rw [if_pos (Or.inr (Or.inr (by simp [hlt, haz1])))]
                 exact hX.symm
               · rw [if_neg (by ndd; omega)] at hX
                 rw [if_neg (by
                   intro h
                   rcases h with h | h | h
                   · exact hE' h
                   · exact Bool.noConfusion h
                   · simp [hlt] at h)]
                 errleaf))

/-- the block starts at or behind the end of the file -/
theorem nbody0_eof1 (file pool0 : ByteArray) (tol : Bool) (st : NSt) (B O : Nat)
    (hB : st.reader_blockID = B) (hO : st.reader_offset = O)
    (hfs : st.fileSize = (file.size : Int))
    (hB32 : B < 2^32) (h1 : B * 32768 ≥ file.size) :
    datafile.next.body0 file crcNat pool0 tol st
        = .ret ((ByteArray.empty, none, datafile.endOfLog tol st.cnt), B, O, st.reader_validEnd) := by
  subst hB hO
  generalize hX : datafile.next.body0 file crcNat pool0 tol st = X
  simp only [datafile.next.body0] at hX
  rw [if_pos (by nd)] at hX
  exact hX.symm

/-- the offset is at or behind the end of the readable part of the block -/
theorem nbody0_eof2 (file pool0 : ByteArray) (tol : Bool) (st : NSt) (B O : Nat)
    (hB : st.reader_blockID = B) (hO : st.reader_offset = O)
    (hfs : st.fileSize = (file.size : Int))
    (hB32 : B < 2^32) (hf : file.size < 2^47) (h1 : B * 32768 < file.size)
    (h2 : O ≥ min (file.size - B * 32768) 32768) :
    datafile.next.body0 file crcNat pool0 tol st
        = .ret ((ByteArray.empty, none, datafile.endOfLog tol st.cnt), B, O, st.reader_validEnd) := by
  subst hB hO
  generalize hX : datafile.next.body0 file crcNat pool0 tol st = X
  simp only [datafile.next.body0] at hX
  rw [if_neg (by nd)] at hX
  rw [if_pos (by nd)] at hX
  exact hX.symm

/-- the chunk at `(B, O)` decodes: the last chunk of a record ends the loop, any other continues in the next block -/
theorem nbody0_ok (file pool0 : ByteArray) (tol : Bool) (st : NSt) (B O size : Nat) (p : ByteArray) (t : Nat)
    (hB : st.reader_blockID = B) (hO : st.reader_offset = O) (hbs : st.reader_blockBuf.size = 32768)
    (hfs : st.fileSize = (file.size : Int))
    (hB1 : B + 1 < 2^32) (hf : file.size < 2^47) (h1 : B * 32768 < file.size)
    (hsz : size = min (file.size - B * 32768) 32768) (h2 : O < size)
    (hd : Chunk.dec (file.extract (B * 32768 + O) (B * 32768 + size)) = .ok p t) :
    if @Eq Nat t 0 ∨ @Eq Nat t 3 then
      ∃ st', datafile.next.body0 file crcNat pool0 tol st = .brk st' ∧ st'.res = st.res ++ p ∧
        st'.cnt = (st.cnt + 1) % 2^32 ∧ st'.reader_blockID = rnormB B (O + H + p.size) ∧
        st'.reader_offset = rnormO (O + H + p.size) ∧
        st'.reader_validEnd = ((B * BS + (O + H + p.size) : Nat) : Int) ∧ st'.pos = st.pos
    else
      ∃ st', datafile.next.body0 file crcNat pool0 tol st = .next st' ∧ st'.res = st.res ++ p ∧
        st'.cnt = (st.cnt + 1) % 2^32 ∧ st'.reader_blockID = B + 1 ∧ st'.reader_offset = 0 ∧
        st'.reader_blockBuf.size = 32768 ∧ st'.fileSize = (file.size : Int) ∧
        st'.reader_validEnd = st.reader_validEnd ∧ st'.pos = st.pos := by
  subst hB hO
  have hs1 : size ≤ 32768 := by omega
  have hs2 : st.reader_blockID * 32768 + size ≤ file.size := by omega
  have hsize : Hid ((min ((file.size : Int) - (st.reader_blockID : Int) * ((32768 : Nat) : Int)) ((32768 : Nat) : Int) % 2 ^ 32).toNat
      = size) := ⟨by omega⟩
  have hoff : Hid (((st.reader_blockID : Int) * ((32768 : Nat) : Int)).toNat = st.reader_blockID * 32768) := ⟨by omega⟩
  -- (the same facts for the operands in the other order: harmless rewrites of the Go source)
  have hsize2 : Hid ((min ((32768 : Nat) : Int) ((file.size : Int) - (st.reader_blockID : Int) * ((32768 : Nat) : Int)) % 2 ^ 32).toNat
      = size) := ⟨by omega⟩
  have hsize3 : Hid ((min ((file.size : Int) - ((32768 : Nat) : Int) * (st.reader_blockID : Int)) ((32768 : Nat) : Int) % 2 ^ 32).toNat
      = size) := ⟨by omega⟩
  have hoff2 : Hid ((((32768 : Nat) : Int) * (st.reader_blockID : Int)).toNat = st.reader_blockID * 32768) := ⟨by omega⟩
  clear hsz
  have hwin := read_window st.reader_blockBuf file (st.reader_blockID * 32768) size st.reader_offset (by omega)
  have hdec := trans_DecodeChunk_eq (file.extract (st.reader_blockID * 32768 + st.reader_offset)
          (st.reader_blockID * 32768 + size))
  have hsr := (size_read st.reader_blockBuf file (st.reader_blockID * 32768) size (by omega) (by omega)).trans hbs
  clear hbs
  have hps := dec_ok_size hd
  rw [ByteArray.size_extract, hH] at hps
  have hps' : st.reader_offset + 7 + p.size ≤ size := by omega
  clear hps
  rw [hd] at hdec
  simp only [ofDecOut] at hdec
  clear hd
  generalize hX : datafile.next.body0 file crcNat pool0 tol st = X
  simp only [datafile.next.body0] at hX
  rw [if_neg (by nd)] at hX
  rw [if_neg (by nd)] at hX
  rw [if_neg (by ndd)] at hX
  rw [if_neg (by ndd)] at hX
  by_cases ht : @Eq Nat t 0 ∨ @Eq Nat t 3
  · rw [if_pos ht]
    rw [if_pos (by ndd; omega)] at hX
    by_cases hc : st.reader_offset + 7 + p.size + 7 ≥ 32768
    · rw [if_pos (by ndd; omega)] at hX
      subst hX
      refine ⟨_, rfl, ?_, ?_, ?_, ?_, ?_, ?_⟩
      · show _ ++ _ = _
        ndd
      · rfl
      · show (st.reader_blockID + 1) % 2^32 = _
        rw [rnormB_lit, hH, if_pos (by omega)]
        omega
      · show 0 = _
        rw [rnormO_lit, hH, if_pos (by omega)]
      · show i64 _ = _
        ndd
        rw [hBS, hH]
        omega
      · rfl
    · rw [if_neg (by ndd; omega)] at hX
      subst hX
      refine ⟨_, rfl, ?_, ?_, ?_, ?_, ?_, ?_⟩
      · show _ ++ _ = _
        ndd
      · rfl
      · show st.reader_blockID = _
        rw [rnormB_lit, hH, if_neg (by omega)]
      · show (_ + _) % 2^32 = _
        ndd
        rw [rnormO_lit, hH, if_neg (by omega)]
        omega
      · show i64 _ = _
        ndd
        rw [hBS, hH]
        omega
      · rfl
  · rw [if_neg ht]
    rw [if_neg (by ndd; omega)] at hX
    subst hX
    refine ⟨_, rfl, ?_, ?_, ?_, ?_, ?_, ?_, ?_, ?_⟩
    · show _ ++ _ = _
      ndd
    · rfl
    · show (st.reader_blockID + 1) % 2^32 = _
      omega
    · rfl
    · show (putAt _ _ _).size = _
      ndd
      exact hsr
    · exact hfs
    · rfl
    · rfl


set_option linter.unusedSimpArgs false in -- (alternative forms for harmless rewrites of the Go source)
/-- the chunk at `(B, O)` does not decode (`inc`: it is incomplete, otherwise its checksum is wrong): end of the log
    under the model's three rules, `ErrInvalidCRC` otherwise -/
theorem nbody0_bad (file pool0 : ByteArray) (tol inc : Bool) (st : NSt) (B O size : Nat) (e : String)
    (hB : st.reader_blockID = B) (hO : st.reader_offset = O)
    (hfs : st.fileSize = (file.size : Int)) (hp0 : pool0.size = 32768)
    (hB32 : B < 2^32) (hf : file.size < 2^47) (h1 : B * 32768 < file.size)
    (hsz : size = min (file.size - B * 32768) 32768) (h2 : O < size)
    (he : e = if inc then "ErrIncompleteChunk" else "ErrInvalidCRC")
    (hdec : datafile.DecodeChunk crcNat (file.extract (B * 32768 + O) (B * 32768 + size)) = (ByteArray.empty, 0, some e)) :
    datafile.next.body0 file crcNat pool0 tol st =
      if (inc = true ∧ tol = true ∧ B * 32768 + size = file.size) ∨ allZeroFrom file (B * 32768 + O) = true ∨
          tornZero tol file (B * 32768) O size = true
      then .ret ((ByteArray.empty, none, datafile.endOfLog tol st.cnt), B, O, st.reader_validEnd)
      else .ret ((ByteArray.empty, none, some "ErrInvalidCRC"), B, O, st.reader_validEnd) := by
  subst hB hO
  have hs1 : size ≤ 32768 := by omega
  have hs2 : st.reader_blockID * 32768 + size ≤ file.size := by omega
  have hsize : Hid ((min ((file.size : Int) - (st.reader_blockID : Int) * ((32768 : Nat) : Int)) ((32768 : Nat) : Int) % 2 ^ 32).toNat
      = size) := ⟨by omega⟩
  have hoff : Hid (((st.reader_blockID : Int) * ((32768 : Nat) : Int)).toNat = st.reader_blockID * 32768) := ⟨by omega⟩
  -- (the same facts for the operands in the other order: harmless rewrites of the Go source)
  have hsize2 : Hid ((min ((32768 : Nat) : Int) ((file.size : Int) - (st.reader_blockID : Int) * ((32768 : Nat) : Int)) % 2 ^ 32).toNat
      = size) := ⟨by omega⟩
  have hsize3 : Hid ((min ((file.size : Int) - ((32768 : Nat) : Int) * (st.reader_blockID : Int)) ((32768 : Nat) : Int) % 2 ^ 32).toNat
      = size) := ⟨by omega⟩
  have hoff2 : Hid ((((32768 : Nat) : Int) * (st.reader_blockID : Int)).toNat = st.reader_blockID * 32768) := ⟨by omega⟩
  clear hsz
  have hwin := read_window st.reader_blockBuf file (st.reader_blockID * 32768) size st.reader_offset (by omega)
  have hzz : ∀ (i j : Int) (k : Nat) (b : Bool), i = (k : Int) → j = (file.size : Int) → allZeroFrom file k = b →
      datafile.zeroUntilEnd pool0 file i j = some b := by
    intro i j k b hi hj hb
    rw [hi, hj, ← hb]
    exact trans_zeroUntilEnd_eq file pool0 k hp0 (by omega)
  clear hp0
  have hL : st.reader_offset + 7 ≤ size →
      le16 ((putAt st.reader_blockBuf 0 (file.extract (st.reader_blockID * 32768)
        (st.reader_blockID * 32768 + (size - 0)))).extract (st.reader_offset + 4) (st.reader_offset + 6))
        = hdrLen file (st.reader_blockID * 32768 + st.reader_offset) := by
    intro h7
    have e1 := read_sub st.reader_blockBuf file (st.reader_blockID * 32768) size (st.reader_offset + 4)
      (st.reader_offset + 6) hs2 (by omega)
    have e00 : st.reader_offset + 6 ≤ size := Nat.le_of_succ_le h7
    have e0 : st.reader_blockID * 32768 + st.reader_offset + 6 ≤ file.size :=
      Nat.le_trans (by rw [Nat.add_assoc]; exact Nat.add_le_add_left e00 _) hs2
    have e2 := hdrLen_eq_le16 file (st.reader_blockID * 32768 + st.reader_offset) e0
    rw [e1, e2]
    simp only [Nat.add_assoc]
  generalize hX : datafile.next.body0 file crcNat pool0 tol st = X
  simp only [datafile.next.body0] at hX
  rw [if_neg (by nd)] at hX
  rw [if_neg (by nd)] at hX
  rw [if_neg (by ndd)] at hX
  rw [if_pos (by ndd)] at hX
  obtain ⟨ce, hce⟩ : ∃ ce, ce = claimedEnd file (st.reader_blockID * 32768) st.reader_offset size := ⟨_, rfl⟩
  have htz : tornZero tol file (st.reader_blockID * 32768) st.reader_offset size
      = (tol && decide (ce < file.size) && allZeroFrom file ce) := by subst hce; rfl
  rw [htz]
  rw [claimedEnd_lit] at hce
  generalize hLv : hdrLen file (st.reader_blockID * 32768 + st.reader_offset) = L at hce hL
  clear htz hLv
  cases haz0 : allZeroFrom file (st.reader_blockID * 32768 + st.reader_offset)
  · rw [Ctl.call_some _ (hzz _ _ _ false (by nd) (by nd) haz0)] at hX
    cases tol
    · -- a reader that does not tolerate a torn tail
      rw [if_neg (by ndd)] at hX
      rw [if_neg (by ndd)] at hX
      rw [if_neg (by simp)]
      errleaf
    · -- a reader that tolerates a torn tail
      by_cases hE : inc = true ∧ st.reader_blockID * 32768 + size = file.size
      · -- the undecodable chunk is cut short by the end of the file
        obtain ⟨hi, hE⟩ := hE
        subst hi
        simp only [↓reduceIte] at he
        subst he
        rw [if_pos (by ndd; omega)] at hX
        rw [if_pos (Or.inl ⟨rfl, rfl, hE⟩)]
        exact hX.symm
      · have hE' : ¬ (inc = true ∧ true = true ∧ st.reader_blockID * 32768 + size = file.size) :=
          fun h => hE ⟨h.1, h.2.2⟩
        rw [if_neg (by
          cases inc <;> simp only [Bool.false_eq_true, ↓reduceIte] at he <;> subst he
          · ndd
          · ndd
            simp only [true_and] at hE
            omega)] at hX
        rw [if_pos (by ndd)] at hX
        -- the extent the chunk claims: `end` = the model's `claimedEnd`
        by_cases h7 : st.reader_offset + 7 ≤ size
        · rw [if_pos h7] at hce
          have hLb : L < 65536 := by rw [← hL h7]; exact le16_lt _
          rw [if_pos (by ndd; omega)] at hX
          rw [end_eq _ (ce : Int) (by
            simp (disch := omega) only [hfs, datafile.blockSize, datafile.chunkHeaderSize, i64_of_range,
              Nat.mod_eq_of_lt, hsize.h, hsize2.h, hsize3.h, hoff.h, hoff2.h, hL h7]
            omega)] at hX
          toltail
        · rw [if_neg h7] at hce
          rw [if_neg (by ndd; omega)] at hX
          rw [end_eq _ (ce : Int) (by ndd; omega)] at hX
          toltail
  · rw [Ctl.call_some _ (hzz _ _ _ true (by nd) (by nd) haz0)] at hX
    rw [if_pos (Or.inr rfl)] at hX
    rw [if_pos (Or.inr (Or.inl rfl))]
    exact hX.symm


/-- **one iteration of the translated loop = the model's `chunkSeq`** (both reader modes) -/
theorem nbody0_spec (file pool0 : ByteArray) (tol : Bool) (st : NSt) (B O : Nat)
    (hB : st.reader_blockID = B) (hO : st.reader_offset = O) (hbs : st.reader_blockBuf.size = 32768)
    (hfs : st.fileSize = (file.size : Int)) (hp0 : pool0.size = 32768)
    (hB32 : B < 2^32) (hf : file.size / BS + 1 < 2^32) :
    match chunkSeq Chunk.crcCodec tol file B O with
    | .eof => datafile.next.body0 file crcNat pool0 tol st
        = .ret ((ByteArray.empty, none, datafile.endOfLog tol st.cnt), B, O, st.reader_validEnd)
    | .err => datafile.next.body0 file crcNat pool0 tol st
        = .ret ((ByteArray.empty, none, some "ErrInvalidCRC"), B, O, st.reader_validEnd)
    | .ok (p, t) =>
      if @Eq Nat t 0 ∨ @Eq Nat t 3 then
        ∃ st', datafile.next.body0 file crcNat pool0 tol st = .brk st' ∧ st'.res = st.res ++ p ∧
          st'.cnt = (st.cnt + 1) % 2^32 ∧ st'.reader_blockID = rnormB B (O + H + p.size) ∧
          st'.reader_offset = rnormO (O + H + p.size) ∧
          st'.reader_validEnd = ((B * BS + (O + H + p.size) : Nat) : Int) ∧ st'.pos = st.pos
      else
        ∃ st', datafile.next.body0 file crcNat pool0 tol st = .next st' ∧ st'.res = st.res ++ p ∧
          st'.cnt = (st.cnt + 1) % 2^32 ∧ st'.reader_blockID = B + 1 ∧ st'.reader_offset = 0 ∧
          st'.reader_blockBuf.size = 32768 ∧ st'.fileSize = (file.size : Int) ∧
          st'.reader_validEnd = st.reader_validEnd ∧ st'.pos = st.pos := by
  rw [hBS] at hf
  have hf' : file.size < 2^47 := by omega
  generalize hr : chunkSeq Chunk.crcCodec tol file B O = r
  unfold chunkSeq at hr
  simp only [] at hr
  split at hr
  · rename_i h1
    rw [hBS] at h1
    subst hr
    exact nbody0_eof1 file pool0 tol st B O hB hO hfs hB32 h1
  · rename_i h1
    split at hr
    · rename_i h2
      rw [hBS] at h1 h2
      subst hr
      exact nbody0_eof2 file pool0 tol st B O hB hO hfs hB32 hf' (by omega) h2
    · rename_i h2
      rw [hBS] at h1 h2 hr
      have hcd : Chunk.crcCodec.dec = Chunk.dec := rfl
      rw [hcd] at hr
      have hdec := trans_DecodeChunk_eq (file.extract (B * 32768 + O) (B * 32768 + min (file.size - B * 32768) 32768))
      cases hd : Chunk.dec (file.extract (B * 32768 + O) (B * 32768 + min (file.size - B * 32768) 32768)) with
      | ok p t =>
        rw [hd] at hr
        simp only [] at hr
        subst hr
        exact nbody0_ok file pool0 tol st B O _ p t hB hO hbs hfs (by omega) hf' (by omega) rfl (by omega) hd
      | incomplete =>
        rw [hd] at hr hdec
        simp only [] at hr
        have hb := nbody0_bad file pool0 tol true st B O _ "ErrIncompleteChunk" hB hO hfs hp0 hB32 hf' (by omega)
          rfl (by omega) rfl hdec
        rw [hb]
        subst hr
        by_cases hc : (tol = true ∧ B * 32768 + min (file.size - B * 32768) 32768 = file.size) ∨
            allZeroFrom file (B * 32768 + O) = true ∨
            tornZero tol file (B * 32768) O (min (file.size - B * 32768) 32768) = true
        · rw [if_pos hc, if_pos (by rcases hc with h | h | h; exact Or.inl ⟨rfl, h⟩; exact Or.inr (Or.inl h); exact Or.inr (Or.inr h))]
        · rw [if_neg hc, if_neg (by
            intro h; apply hc
            rcases h with h | h | h
            · exact Or.inl h.2
            · exact Or.inr (Or.inl h)
            · exact Or.inr (Or.inr h))]
      | badCrc =>
        rw [hd] at hr hdec
        simp only [] at hr
        have hb := nbody0_bad file pool0 tol false st B O _ "ErrInvalidCRC" hB hO hfs hp0 hB32 hf' (by omega)
          rfl (by omega) rfl hdec
        rw [hb]
        subst hr
        by_cases hc : allZeroFrom file (B * 32768 + O) = true ∨
            tornZero tol file (B * 32768) O (min (file.size - B * 32768) 32768) = true
        · rw [if_pos hc, if_pos (Or.inr hc)]
        · rw [if_neg hc, if_neg (by
            intro h; apply hc
            rcases h with h | h
            · exact absurd h.1 (by decide)
            · exact h)]


/-! ### `endOfLog`, the loop, the function -/

set_option linter.unusedSimpArgs false in -- (alternative forms for harmless rewrites of the Go source)
/-- **`(*DataReader).endOfLog`**: the end of the log inside a record (`cnt > 0` chunks already consumed) is an
    error for a reader that does not tolerate a torn tail -/
theorem trans_endOfLog_eq (tol : Bool) (cnt : Nat) :
    datafile.endOfLog tol cnt = if cnt > 0 ∧ tol = false then some "ErrInvalidCRC" else some "io.EOF" := by
  rcases Nat.eq_zero_or_pos cnt with h | h
  · subst h
    cases tol <;> simp [datafile.endOfLog]
  · have h' : cnt ≠ 0 := by omega
    cases tol <;> simp [datafile.endOfLog, h, h']

theorem endOfLog_zero (tol : Bool) : datafile.endOfLog tol 0 = some "io.EOF" := by
  rw [trans_endOfLog_eq]; simp
theorem endOfLog_tol (c : Nat) : datafile.endOfLog true c = some "io.EOF" := by
  rw [trans_endOfLog_eq]; simp
theorem endOfLog_pos (c : Nat) (h : 0 < c) : datafile.endOfLog false c = some "ErrInvalidCRC" := by
  rw [trans_endOfLog_eq]; simp [h]

theorem chunkSeq_ok_lt {C : Codec} {tol : Bool} {f : ByteArray} {B O : Nat} {x : ByteArray × CT}
    (h : chunkSeq C tol f B O = .ok x) : B * BS < f.size := by
  unfold chunkSeq at h
  simp only [] at h
  split at h
  · cases h
  · omega

/-- how the result of the translated loop, entered in state `st`, corresponds to a result of the model's
    `nextAt`: on success the state the loop is left in (`n` = the bytes occupied = 7 per chunk + payload);
    the end of the log is reported through `endOfLog` with the chunk count at loop entry, and `validEnd` is
    untouched unless a record was completed -/
def NLoopRel (tol : Bool) (st : NSt) (res : Option (NSt ⊕ NRes)) : Out (ByteArray × Nat × Nat × Nat) → Prop
  | .ok (q, n, b', o') => ∃ st' k, res = some (.inl st') ∧ st'.res = st.res ++ q ∧ n = 7 * k + q.size ∧
      st'.cnt = (st.cnt + k) % 2^32 ∧ st'.reader_blockID = rnormB b' o' ∧ st'.reader_offset = rnormO o' ∧
      st'.reader_validEnd = ((b' * BS + o' : Nat) : Int) ∧ st'.pos = st.pos
  | .eof => ∃ b o, res = some (.inr ((ByteArray.empty, none, datafile.endOfLog tol st.cnt), b, o, st.reader_validEnd))
  | .err => ∃ b o, res = some (.inr ((ByteArray.empty, none, some "ErrInvalidCRC"), b, o, st.reader_validEnd))

theorem nloop0_spec (file pool0 : ByteArray) (tol : Bool) (hp0 : pool0.size = 32768) (hf : file.size / BS + 1 < 2^32) :
    ∀ (fuel : Nat) (st : NSt) (B O : Nat), st.reader_blockID = B → st.reader_offset = O →
      st.reader_blockBuf.size = 32768 → st.fileSize = (file.size : Int) → B < 2^32 → st.cnt ≤ B →
      (file.size + BS - 1) / BS + 1 ≤ B + fuel → 1 ≤ fuel →
      NLoopRel tol st (datafile.next.loop0 file crcNat pool0 tol fuel st) (nextAt Chunk.crcCodec tol file B O fuel) := by
  have hBS := hBS
  intro fuel
  induction fuel with
  | zero => intro st B O _ _ _ _ _ _ _ h; omega
  | succ fuel ih =>
    intro st B O hB hO hbs hfs hB32 hcnt hfuel _
    have hb := nbody0_spec file pool0 tol st B O hB hO hbs hfs hp0 hB32 hf
    rw [nextAt, datafile.next.loop0]
    generalize hc : chunkSeq Chunk.crcCodec tol file B O = c at hb
    cases c with
    | eof =>
      simp only [] at hb ⊢
      rw [hb]
      exact ⟨_, _, rfl⟩
    | err =>
      simp only [] at hb ⊢
      rw [hb]
      exact ⟨_, _, rfl⟩
    | ok x =>
      obtain ⟨p, t⟩ := x
      have hlt := chunkSeq_ok_lt hc
      rw [hBS] at hlt hf hfuel
      simp only [] at hb ⊢
      by_cases ht : @Eq Nat t 0 ∨ @Eq Nat t 3
      · rw [if_pos ht] at hb ⊢
        obtain ⟨st', e1, e2, e3, e4, e5, e6, e7⟩ := hb
        rw [e1]
        refine ⟨st', 1, rfl, e2, ?_, e3, e4, e5, e6, e7⟩
        rw [hH]
      · rw [if_neg ht] at hb ⊢
        obtain ⟨st', e1, e2, e3, e4, e5, e6, e7, e8, e9⟩ := hb
        rw [e1]
        simp only [Ctl.step]
        have e3' : st'.cnt = st.cnt + 1 := by rw [e3]; omega
        have := ih st' (B + 1) 0 e4 e5 e6 e7 (by omega) (by omega) (by rw [hBS]; omega) (by omega)
        generalize nextAt Chunk.crcCodec tol file (B + 1) 0 fuel = r at this ⊢
        cases r with
        | ok y =>
          obtain ⟨q, n, b', o'⟩ := y
          obtain ⟨st'', k, f1, f2, f3, f4, f5, f6, f7, f8⟩ := this
          refine ⟨st'', k + 1, f1, ?_, ?_, ?_, f5, f6, f7, f8.trans e9⟩
          · rw [f2, e2, ByteArray.append_assoc]
          · rw [f3, hH, ByteArray.size_append]; omega
          · rw [f4, e3']; omega
        | eof =>
          obtain ⟨b, o, f1⟩ := this
          rw [f1, e8, e3']
          cases tol
          · exact ⟨b, o, by rw [endOfLog_pos _ (by omega)]⟩
          · exact ⟨b, o, by rw [endOfLog_tol, endOfLog_tol]⟩
        | err =>
          obtain ⟨b, o, f1⟩ := this
          rw [f1, e8]
          exact ⟨b, o, rfl⟩


/-- elimination form of `nloop0_spec`: whatever follows the loop (`K`) and whatever state it is entered in are
    found by unification with `hA` (the proofs below never write the generated initial state down) -/
theorem nloop0_after (file pool0 : ByteArray) (tol : Bool) (hp0 : pool0.size = 32768) (hf : file.size / BS + 1 < 2^32)
    {fuel : Nat} {st : NSt} {K : NSt → Option NRes} {A : Option NRes}
    (hA : Ctl.after (datafile.next.loop0 file crcNat pool0 tol fuel st) K = A) (B O : Nat)
    (hB : st.reader_blockID = B) (hO : st.reader_offset = O) (hbs : st.reader_blockBuf.size = 32768)
    (hfs : st.fileSize = (file.size : Int)) (hB32 : B < 2^32) (hcnt : st.cnt ≤ B)
    (hfuel : (file.size + BS - 1) / BS + 1 ≤ B + fuel) (h1 : 1 ≤ fuel) :
    ∃ res, NLoopRel tol st res (nextAt Chunk.crcCodec tol file B O fuel) ∧ Ctl.after res K = A :=
  ⟨_, nloop0_spec file pool0 tol hp0 hf fuel st B O hB hO hbs hfs hB32 hcnt hfuel h1, hA⟩

/-- **`(*DataReader).next` = the model's `nextAt`** followed by the reader's skip rule `rnormB/rnormO`, for both
    values of `tolerateTornTail`, every file whose block count fits `uint32` with room for one increment, every
    content of the reader's block buffer and of the pooled buffer `zeroUntilEnd` uses, every reader state
    `(blockID, offset, validEnd)` and the writer state `(lastBlockID, lastBlockSize) = (size / BS, size % BS)` of
    the file.  On success: the payload, the position `(Fid, blockID, offset, Size)` (`Size` is a `uint32`: the
    model's size modulo 2³²), the new reader state and `validEnd` = the end of the record; `io.EOF` /
    `ErrInvalidCRC` exactly when the model says end of log / error, with `validEnd` unchanged (the reader's
    block id and offset are then unspecified by the model). -/
theorem trans_next_eq (file buf0 pool0 : ByteArray) (tol : Bool) (fid blockID offset : Nat) (validEnd : Int)
    (hbuf : buf0.size = 32768) (hpool : pool0.size = 32768) (hfile : file.size / BS + 1 < 2^32)
    (hblk : blockID < 2^32) :
    match nextAt Chunk.crcCodec tol file blockID offset (file.size + 1) with
    | .ok (d, sz, b', o') =>
      datafile.next (file := file) (crc32_ChecksumIEEE := crcNat) (getBuf_block := pool0)
          (reader_dataFile_ID := fid) (reader_dataFile_lastBlockID := file.size / BS)
          (reader_dataFile_lastBlockSize := file.size % BS) (reader_blockID := blockID) (reader_offset := offset)
          (reader_blockBuf := buf0) (reader_validEnd := validEnd) (reader_tolerateTornTail := tol)
        = some ((d, some { Fid := fid, BlockID := blockID, Offset := offset, Size := sz % 2^32 }, none),
                rnormB b' o', rnormO o', ((b' * BS + o' : Nat) : Int))
    | .eof => ∃ b o,
      datafile.next (file := file) (crc32_ChecksumIEEE := crcNat) (getBuf_block := pool0)
          (reader_dataFile_ID := fid) (reader_dataFile_lastBlockID := file.size / BS)
          (reader_dataFile_lastBlockSize := file.size % BS) (reader_blockID := blockID) (reader_offset := offset)
          (reader_blockBuf := buf0) (reader_validEnd := validEnd) (reader_tolerateTornTail := tol)
        = some ((ByteArray.empty, none, some "io.EOF"), b, o, validEnd)
    | .err => ∃ b o,
      datafile.next (file := file) (crc32_ChecksumIEEE := crcNat) (getBuf_block := pool0)
          (reader_dataFile_ID := fid) (reader_dataFile_lastBlockID := file.size / BS)
          (reader_dataFile_lastBlockSize := file.size % BS) (reader_blockID := blockID) (reader_offset := offset)
          (reader_blockBuf := buf0) (reader_validEnd := validEnd) (reader_tolerateTornTail := tol)
        = some ((ByteArray.empty, none, some "ErrInvalidCRC"), b, o, validEnd) := by
  have hBS := hBS
  have hsz := trans_Size_eq file.size (by omega)
  simp only [datafile.next]
  generalize hA : Ctl.after (datafile.next.loop0 _ _ _ _ _ _) _ = A
  obtain ⟨res, hrel, hA'⟩ := nloop0_after file pool0 tol hpool hfile hA blockID offset rfl rfl hbuf hsz hblk
    (Nat.zero_le _) (by rw [hBS]; omega) (by omega)
  generalize nextAt Chunk.crcCodec tol file blockID offset (file.size + 1) = r at hrel ⊢
  subst hA'
  cases r with
  | ok y =>
    obtain ⟨d, sz, b', o'⟩ := y
    obtain ⟨st', k, f1, f2, f3, f4, f5, f6, f7, f8⟩ := hrel
    subst f1
    simp only [ByteArray.empty_append] at f2 f4 f8
    simp only [Ctl.after, f2, f5, f6, f7, f8, f4, f3, datafile.chunkHeaderSize]
    have e : ((0 + k) % 2 ^ 32 * 7 % 2 ^ 32 + ((d.size : Int) % 2 ^ 32).toNat) % 2 ^ 32 = (7 * k + d.size) % 2 ^ 32 := by
      omega
    rw [e]
  | eof =>
    obtain ⟨b, o, f1⟩ := hrel
    subst f1
    exact ⟨b, o, by simp only [Ctl.after, endOfLog_zero]⟩
  | err =>
    obtain ⟨b, o, f1⟩ := hrel
    subst f1
    exact ⟨b, o, by simp only [Ctl.after]⟩


/-- read-back through the translated sequential reader (with `Frame.nextAt_write`): a reader (of either kind)
    that stands at the end of `f` returns, after a record `d` was appended (and whatever was appended later),
    exactly `d`, the position the writer reported, and `validEnd` = the end of that record -/
theorem trans_next_write (d f post buf0 pool0 : ByteArray) (tol : Bool) (fid : Nat) (validEnd : Int) (hd : 0 < d.size)
    (hbuf : buf0.size = 32768) (hpool : pool0.size = 32768)
    (hF : (appendRec Chunk.crcCodec f d ++ post).size / BS + 1 < 2^32) :
    ∃ b o,
      datafile.next (file := appendRec Chunk.crcCodec f d ++ post) (crc32_ChecksumIEEE := crcNat) (getBuf_block := pool0)
          (reader_dataFile_ID := fid)
          (reader_dataFile_lastBlockID := (appendRec Chunk.crcCodec f d ++ post).size / BS)
          (reader_dataFile_lastBlockSize := (appendRec Chunk.crcCodec f d ++ post).size % BS)
          (reader_blockID := endB f) (reader_offset := endO f)
          (reader_blockBuf := buf0) (reader_validEnd := validEnd) (reader_tolerateTornTail := tol)
        = some ((d, some { Fid := fid, BlockID := endB f, Offset := endO f,
                           Size := (posOf Chunk.crcCodec 0 f.size d).size % 2^32 }, none),
                b, o, ((appendRec Chunk.crcCodec f d).size : Int)) := by
  have hBS := hBS
  have hgt := size_appendRec_gt Chunk.crcCodec f d hd
  have hm := mod_lt_BS f.size
  have hle : f.size / BS ≤ (appendRec Chunk.crcCodec f d ++ post).size / BS := by
    apply Nat.div_le_div_right
    rw [ByteArray.size_append]; omega
  have hblk : endB f < 2^32 := by
    simp only [endB, normB]; split <;> omega
  obtain ⟨b', o', hread, hend, _, _⟩ := nextAt_write Chunk.crcCodec tol d f post
    ((appendRec Chunk.crcCodec f d ++ post).size + 1) hd (by rw [ByteArray.size_append]; omega)
  have h := trans_next_eq (appendRec Chunk.crcCodec f d ++ post) buf0 pool0 tol fid (endB f) (endO f) validEnd
    hbuf hpool hF hblk
  rw [hread] at h
  simp only [] at h
  rw [hend] at h
  exact ⟨_, _, h⟩

/-- an empty file: `io.EOF`, `validEnd` untouched -/
example : ∃ b o, datafile.next (file := ByteArray.empty) (crc32_ChecksumIEEE := crcNat) (getBuf_block := mkBytes 32768)
    (reader_dataFile_ID := 1) (reader_dataFile_lastBlockID := 0) (reader_dataFile_lastBlockSize := 0)
    (reader_blockID := 0) (reader_offset := 0) (reader_blockBuf := mkBytes 32768) (reader_validEnd := 5)
    (reader_tolerateTornTail := false) = some ((ByteArray.empty, none, some "io.EOF"), b, o, 5) := by
  have h := trans_next_eq ByteArray.empty (mkBytes 32768) (mkBytes 32768) false 1 0 0 5 (by simp) (by simp)
    (by decide) (by decide)
  exact h

end XixiKV.TransEq
