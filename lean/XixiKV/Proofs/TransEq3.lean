import XixiKV.Proofs.TransEq2
/-!
# Translated Go = model, round 3: the sequential reader

| Go function                       | generated definition        | model                                   | theorem |
|---|---|---|---|
| `(*DataFile).zeroUntilEnd`        | `datafile.zeroUntilEnd`     | `Frame.allZeroFrom`                     | `trans_zeroUntilEnd_eq` |
| `(*DataReader).next`              | `datafile.next`             | `Frame.nextAt` (+ `rnormB/rnormO`)      | `trans_next_eq` |

`Generated/Trans.lean` is regenerated from /repo's current source on every run (`harness/cmd/trans`,
round 3: `round3.go`); see `harness/cmd/trans/NOTES.md` for the subset, the tables and what is trusted.
-/
namespace XixiKV.TransEq
open XixiKV XixiKV.Generated.Trans XixiKV.Frame

/-! ## bytes that are zero on an interval -/

/-- all bytes of `f` at positions `a ≤ j < b` are zero -/
def ZeroOn (f : ByteArray) (a b : Nat) : Prop := ∀ j, a ≤ j → j < b → f.get! j = 0

theorem get!_eq_data (f : ByteArray) (j : Nat) (h : j < f.size) : f.get! j = f.data[j]'h := by
  simp only [ByteArray.get!]
  exact getElem!_pos f.data j h

/-- the model's `allZeroFrom` (what `zeroUntilEnd` computes) pointwise -/
theorem allZeroFrom_iff (f : ByteArray) (i : Nat) : allZeroFrom f i = true ↔ ZeroOn f i f.size := by
  unfold allZeroFrom ZeroOn
  rw [Array.all_eq_true]
  have hsz : f.size = f.data.size := rfl
  constructor
  · intro h j hij hj
    have h1 : j - i < (f.extract i f.size).data.size := by
      rw [ByteArray.data_extract, Array.size_extract]; omega
    have := h (j - i) h1
    simp only [ByteArray.data_extract, Array.getElem_extract, beq_iff_eq] at this
    rw [get!_eq_data f j hj]
    have e : i + (j - i) = j := by omega
    simpa only [e] using this
  · intro h k hk
    have hk' : k < min f.size f.data.size - i := by
      rw [ByteArray.data_extract, Array.size_extract] at hk; exact hk
    have := h (i + k) (by omega) (by omega)
    rw [get!_eq_data f (i + k) (by omega)] at this
    simp only [ByteArray.data_extract, Array.getElem_extract, beq_iff_eq]
    exact this

theorem allZeroFrom_eq_false (f : ByteArray) (i : Nat) : allZeroFrom f i = false ↔ ¬ ZeroOn f i f.size := by
  rw [← allZeroFrom_iff]; cases allZeroFrom f i <;> simp

theorem ZeroOn_split (f : ByteArray) (a m b : Nat) (h1 : ZeroOn f a m) (h2 : ZeroOn f m b) : ZeroOn f a b := by
  intro j h3 h4
  by_cases h : j < m
  · exact h1 j h3 h
  · exact h2 j (by omega) h4

theorem ZeroOn_mono (f : ByteArray) (a b a' b' : Nat) (h : ZeroOn f a b) (ha : a ≤ a') (hb : b' ≤ b) : ZeroOn f a' b' :=
  fun j h1 h2 => h j (by omega) (by omega)

/-- a window of the file, read into a buffer, is zero iff the file is zero there -/
theorem ZeroOn_window (file : ByteArray) (F n : Nat) (h : F + n ≤ file.size) :
    ZeroOn (file.extract F (F + n)) 0 n ↔ ZeroOn file F (F + n) := by
  constructor
  · intro hz j h1 h2
    have := hz (j - F) (by omega) (by omega)
    rw [get!_extract file F (F + n) (j - F) (by omega) h] at this
    have e : F + (j - F) = j := by omega
    rwa [e] at this
  · intro hz j _ h2
    rw [get!_extract file F (F + n) j (by omega) h]
    exact hz (F + j) (by omega) (by omega)

end XixiKV.TransEq
