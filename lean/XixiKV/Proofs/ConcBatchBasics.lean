import XixiKV.Model.ConcBatch
import XixiKV.Proofs.Conc
/-!
# Basic facts for `Model/ConcBatch.lean`: log positions, replay with parked batches, staging
-/
namespace XixiKV.ConcBatch
open XixiKV.Conc (Tid Key Val upd updK Res upd_same upd_ne updK_same updK_ne lt_of_getElem?_eq_some)

theorem forall_upd {Q : PC → Prop} {pc : Tid → PC} {t : Tid} {c' : PC}
    (h : ∀ t', Q (pc t')) (hc : Q c') : ∀ t', Q (upd pc t c' t') := by
  intro t'; unfold upd; split
  · exact hc
  · exact h t'

/-! ## positions of an append-only log -/

theorem valAt_append (log l : List Rec) (p : Option Nat)
    (h : ∀ q, p = some q → q < log.length) : valAt (log ++ l) p = valAt log p := by
  cases p with
  | none => rfl
  | some q => simp only [valAt]; rw [List.getElem?_append_left (h q rfl)]

theorem readPos_append (log l : List Rec) (p : Nat) (h : p < log.length) :
    readPos (log ++ l) (some p) = readPos log (some p) := by
  simp only [readPos]; rw [valAt_append _ _ _ (fun q hq => by cases hq; exact h)]

def view (log : List Rec) (ix : Key → Option Nat) : Map := fun k => valAt log (ix k)

theorem view_append (log l : List Rec) (ix : Key → Option Nat)
    (h : ∀ k p, ix k = some p → p < log.length) : view (log ++ l) ix = view log ix := by
  funext k; exact valAt_append _ _ _ (fun q hq => h k q hq)

/-! ## replay -/

def enumPos : Nat → List Rec → List (Nat × Rec)
  | _, [] => []
  | p, r :: l => (p, r) :: enumPos (p + 1) l

theorem enumPos_append (p : Nat) (l l' : List Rec) :
    enumPos p (l ++ l') = enumPos p l ++ enumPos (p + l.length) l' := by
  induction l generalizing p with
  | nil => simp [enumPos]
  | cons r l ih =>
    simp only [List.cons_append, enumPos, ih, List.length_cons]
    rw [show p + 1 + l.length = p + (l.length + 1) by omega]

theorem mem_enumPos {p : Nat} {l : List Rec} {x : Nat × Rec} (h : x ∈ enumPos p l) :
    x.2 ∈ l ∧ p ≤ x.1 ∧ x.1 < p + l.length ∧ l[x.1 - p]? = some x.2 := by
  induction l generalizing p with
  | nil => simp [enumPos] at h
  | cons r l ih =>
    simp only [enumPos, List.mem_cons] at h
    rcases h with h | h
    · subst h; simp
    · obtain ⟨a, b, c, d⟩ := ih h
      refine ⟨List.mem_cons_of_mem _ a, by omega, by simp only [List.length_cons]; omega, ?_⟩
      rw [show x.1 - p = (x.1 - (p + 1)) + 1 by omega]
      simpa using d

theorem replayFrom_append (l l' : List Rec) (i : Nat) (s : RS) :
    replayFrom (l ++ l') i s = replayFrom l' (i + l.length) (replayFrom l i s) := by
  induction l generalizing i s with
  | nil => rfl
  | cons r l ih =>
    simp only [List.cons_append, replayFrom, ih, List.length_cons]
    rw [show i + 1 + l.length = i + (l.length + 1) by omega]

theorem replayAll_append (l l' : List Rec) :
    replayAll (l ++ l') = replayFrom l' l.length (replayAll l) := by
  simp [replayAll, replayFrom_append]

theorem replayAll_snoc (l : List Rec) (r : Rec) :
    replayAll (l ++ [r]) = replayRec (replayAll l) l.length r := by
  rw [replayAll_append]; rfl

/-- parking: tagged data records only extend the parked list -/
theorem replayFrom_tagged (l : List Rec) (b : Nat) (hb : b ≠ 0)
    (hl : ∀ r ∈ l, r.bid = b ∧ ∀ b', r ≠ .fin b') (i : Nat) (s : RS) :
    replayFrom l i s = ⟨s.ix, s.pend ++ enumPos i l⟩ := by
  induction l generalizing i s with
  | nil => simp [replayFrom, enumPos]
  | cons r l ih =>
    have hr := hl r List.mem_cons_self
    simp only [replayFrom, enumPos]
    rw [ih (fun r' h' => hl r' (List.mem_cons_of_mem _ h'))]
    have : replayRec s i r = ⟨s.ix, s.pend ++ [(i, r)]⟩ := by
      unfold replayRec
      rw [if_neg (by rw [hr.1]; exact hb)]
      cases r with
      | fin b' => exact absurd rfl (hr.2 b')
      | put k v b' => rfl
      | del k b' => rfl
    rw [this]; simp

theorem recovered_append_tagged (log l : List Rec) (b : Nat) (hb : b ≠ 0)
    (hl : ∀ r ∈ l, r.bid = b ∧ ∀ b', r ≠ .fin b') :
    recovered (log ++ l) = recovered log ∧
    (replayAll (log ++ l)).pend = (replayAll log).pend ++ enumPos log.length l := by
  simp only [recovered]; rw [replayAll_append, replayFrom_tagged l b hb hl]; simp

theorem replayRec_plain (s : RS) (p : Nat) (r : Rec) (h : r.bid = 0) :
    replayRec s p r = ⟨applyIx s.ix p r, s.pend⟩ := by
  simp [replayRec, h]

theorem filter_bid_all (l : List (Nat × Rec)) (b : Nat) (h : ∀ x ∈ l, x.2.bid = b) :
    l.filter (fun x => x.2.bid = b) = l ∧ l.filter (fun x => x.2.bid ≠ b) = [] := by
  constructor
  · exact List.filter_eq_self.2 (fun x hx => by simp [h x hx])
  · exact List.filter_eq_nil_iff.2 (fun x hx => by simp [h x hx])

/-- the sealing record applies the parked records -/
theorem replayAll_seal (log : List Rec) (b : Nat) (hb : b ≠ 0)
    (h : ∀ x ∈ (replayAll log).pend, x.2.bid = b) :
    replayAll (log ++ [.fin b]) = ⟨applyPend (recovered log) (replayAll log).pend, []⟩ := by
  rw [replayAll_snoc]
  unfold replayRec
  rw [if_neg (by simpa [Rec.bid] using hb)]
  simp only
  rw [(filter_bid_all _ b h).1, (filter_bid_all _ b h).2]; rfl

/-- positions handed out by the replay are positions of the log -/
def PosBound (n : Nat) (s : RS) : Prop :=
  (∀ k p, s.ix k = some p → p < n) ∧ ∀ x ∈ s.pend, x.1 < n

theorem applyIx_bound {n p : Nat} {ix : Key → Option Nat} (r : Rec)
    (h : ∀ k q, ix k = some q → q < n) (hp : p < n) : ∀ k q, applyIx ix p r k = some q → q < n := by
  intro k q hq
  cases r with
  | put k' v b =>
    simp only [applyIx, updK] at hq
    split at hq
    · cases hq; exact hp
    · exact h k q hq
  | del k' b =>
    simp only [applyIx, updK] at hq
    split at hq
    · cases hq
    · exact h k q hq
  | fin b => exact h k q hq

theorem applyPend_bound {n : Nat} (l : List (Nat × Rec)) {ix : Key → Option Nat}
    (h : ∀ k q, ix k = some q → q < n) (hl : ∀ x ∈ l, x.1 < n) :
    ∀ k q, applyPend ix l k = some q → q < n := by
  induction l generalizing ix with
  | nil => exact h
  | cons x l ih =>
    simp only [applyPend, List.foldl_cons]
    exact ih (applyIx_bound x.2 h (hl x List.mem_cons_self))
      (fun y hy => hl y (List.mem_cons_of_mem _ hy))

theorem replayRec_bound {n : Nat} {s : RS} (r : Rec) (h : PosBound n s) :
    PosBound (n + 1) (replayRec s n r) := by
  have h1 : ∀ k q, s.ix k = some q → q < n + 1 := fun k q hq => Nat.lt_succ_of_lt (h.1 k q hq)
  have h2 : ∀ x ∈ s.pend, x.1 < n + 1 := fun x hx => Nat.lt_succ_of_lt (h.2 x hx)
  unfold replayRec
  split
  · exact ⟨applyIx_bound r h1 (Nat.lt_succ_self n), h2⟩
  · split
    · refine ⟨applyPend_bound _ h1 (fun x hx => h2 x (List.mem_filter.1 hx).1),
        fun x hx => h2 x (List.mem_filter.1 hx).1⟩
    · refine ⟨h1, ?_⟩
      intro x hx
      simp only [List.mem_append, List.mem_singleton] at hx
      rcases hx with hx | hx
      · exact h2 x hx
      · subst hx; exact Nat.lt_succ_self n

theorem replayFrom_bound (l : List Rec) (n : Nat) (s : RS) (h : PosBound n s) :
    PosBound (n + l.length) (replayFrom l n s) := by
  induction l generalizing n s with
  | nil => exact h
  | cons r l ih =>
    simp only [replayFrom, List.length_cons]
    rw [show n + (l.length + 1) = n + 1 + l.length by omega]
    exact ih _ _ (replayRec_bound r h)

theorem recovered_lt {log : List Rec} {k : Key} {p : Nat} (h : recovered log k = some p) :
    p < log.length := by
  have h0 : PosBound 0 ⟨fun _ => none, []⟩ := by
    unfold PosBound
    exact ⟨fun _ _ h => (by cases h), fun _ h => (by cases h)⟩
  have := replayFrom_bound log 0 ⟨fun _ => none, []⟩ h0
  simpa using this.1 k p h

/-! ## staging -/

def overlay (staged : List BOp) (m : Map) : Map :=
  fun k => match staged.find? (fun x => x.1 == k) with
    | some x => x.2
    | none => m k

def applyTodo (todo : List (Key × Option Nat)) (ix : Key → Option Nat) : Key → Option Nat :=
  todo.foldl (fun ix x => updK ix x.1 x.2) ix

def KeysNodup (staged : List BOp) : Prop := (staged.map (·.1)).Nodup

theorem hasKey_iff {staged : List BOp} {k : Key} : hasKey staged k = true ↔ k ∈ staged.map (·.1) := by
  simp only [hasKey, List.any_eq_true, List.mem_map, beq_iff_eq]

theorem hasKey_false_iff {staged : List BOp} {k : Key} :
    hasKey staged k = false ↔ k ∉ staged.map (·.1) := by
  rw [← hasKey_iff]; simp

theorem find_none_of_hasKey_false {staged : List BOp} {k : Key} (h : hasKey staged k = false) :
    staged.find? (fun x => x.1 == k) = none := by
  rw [List.find?_eq_none]
  intro x hx
  simp only [hasKey, List.any_eq_false, beq_iff_eq] at h
  simpa using h x hx

theorem overlay_of_not_hasKey {staged : List BOp} {k : Key} (m : Map) (h : hasKey staged k = false) :
    overlay staged m k = m k := by
  simp only [overlay, find_none_of_hasKey_false h]

theorem overlay_cons (x : BOp) (staged : List BOp) (m : Map) (k : Key) :
    overlay (x :: staged) m k = if x.1 = k then x.2 else overlay staged m k := by
  simp only [overlay, List.find?_cons]
  by_cases h : x.1 = k
  · simp [h]
  · have : (x.1 == k) = false := by simpa using h
    simp [h, this]

theorem keys_setStaged (staged : List BOp) (k : Key) (ov : Option Val) :
    (setStaged staged k ov).map (·.1) = staged.map (·.1) := by
  induction staged with
  | nil => rfl
  | cons x l ih =>
    simp only [setStaged]
    split
    · rename_i h; simp [h]
    · simp [ih]

theorem overlay_setStaged (staged : List BOp) (k : Key) (ov : Option Val) (m : Map)
    (h : hasKey staged k = true) : overlay (setStaged staged k ov) m = updK (overlay staged m) k ov := by
  induction staged with
  | nil => simp [hasKey] at h
  | cons x l ih =>
    funext k'
    simp only [setStaged]
    by_cases hx : x.1 = k
    · rw [if_pos hx, overlay_cons]
      by_cases hk : k' = k
      · subst hk; simp
      · rw [updK_ne _ _ hk, overlay_cons, hx]
        simp [Ne.symm hk]
    · rw [if_neg hx, overlay_cons]
      have hl : hasKey l k = true := by
        simp only [hasKey, List.any_cons, Bool.or_eq_true, beq_iff_eq] at h
        rcases h with h | h
        · exact absurd h hx
        · exact h
      rw [ih hl]
      by_cases hk : k' = k
      · subst hk; simp [hx]
      · rw [updK_ne _ _ hk, updK_ne _ _ hk, overlay_cons]

theorem overlay_snoc (staged : List BOp) (x : BOp) (m : Map) (h : hasKey staged x.1 = false) :
    overlay (staged ++ [x]) m = updK (overlay staged m) x.1 x.2 := by
  induction staged with
  | nil =>
    funext k'
    simp only [List.nil_append, overlay_cons]
    by_cases hk : k' = x.1
    · subst hk; simp
    · rw [updK_ne _ _ hk]; simp [Ne.symm hk, overlay]
  | cons y l ih =>
    funext k'
    have hy : y.1 ≠ x.1 ∧ hasKey l x.1 = false := by
      simp only [hasKey, List.any_cons, Bool.or_eq_false_iff, beq_eq_false_iff_ne] at h
      exact ⟨h.1, h.2⟩
    simp only [List.cons_append, overlay_cons, ih hy.2]
    by_cases hk : k' = x.1
    · subst hk; simp [hy.1]
    · rw [updK_ne _ _ hk, updK_ne _ _ hk, overlay_cons]

/-- `Batch.Put / Batch.Delete` on the staged records is the sequential update of the overlaid map -/
theorem overlay_stage (staged : List BOp) (op : BOp) (ix : Key → Option Nat) (log : List Rec) :
    overlay (stage staged (ix op.1).isSome op) (view log ix) =
      updK (overlay staged (view log ix)) op.1 op.2 := by
  unfold stage
  by_cases h : hasKey staged op.1 = true
  · rw [if_pos h]; exact overlay_setStaged _ _ _ _ h
  · rw [if_neg h]
    have h' : hasKey staged op.1 = false := by simpa using h
    obtain ⟨k, ov⟩ := op
    cases ov with
    | some v => exact overlay_snoc _ _ _ h'
    | none =>
      simp only
      cases hp : ix k with
      | some p => simp only [Option.isSome_some, if_true]; exact overlay_snoc _ (k, none) _ h'
      | none =>
        simp only [Option.isSome_none, Bool.false_eq_true, if_false]
        funext k'
        by_cases hk : k' = k
        · subst hk; rw [updK_same, overlay_of_not_hasKey _ h']; simp [view, hp, valAt]
        · rw [updK_ne _ _ hk]

theorem keysNodup_stage {staged : List BOp} (present : Bool) (op : BOp) (h : KeysNodup staged) :
    KeysNodup (stage staged present op) := by
  unfold stage
  split
  · unfold KeysNodup; rw [keys_setStaged]; exact h
  · rename_i hk
    have hk' : op.1 ∉ staged.map (·.1) := by rw [← hasKey_iff]; exact hk
    have : KeysNodup (staged ++ [op]) := by
      unfold KeysNodup
      rw [List.map_append, List.nodup_append]
      refine ⟨h, by simp, ?_⟩
      intro a ha b hb
      simp only [List.map_cons, List.map_nil, List.mem_singleton] at hb
      subst hb; intro e; subst e; exact hk' ha
    split
    · exact this
    · split
      · exact this
      · exact h

theorem stage_ne_nil {staged : List BOp} (present : Bool) (op : BOp) (h : staged ≠ []) :
    stage staged present op ≠ [] := by
  unfold stage
  split
  · cases staged with
    | nil => exact absurd rfl h
    | cons x l => simp only [setStaged]; split <;> simp
  · split
    · simp
    · split
      · simp
      · exact h

theorem hasKey_stage {staged : List BOp} {present : Bool} {op : BOp} {k : Key}
    (h : hasKey (stage staged present op) k = true) : hasKey staged k = true ∨ k = op.1 := by
  unfold stage at h
  split at h
  · left; rw [hasKey_iff] at h ⊢; rwa [keys_setStaged] at h
  · have key : hasKey (staged ++ [op]) k = true → hasKey staged k = true ∨ k = op.1 := by
      intro h
      simp only [hasKey, List.any_append, List.any_cons, List.any_nil, Bool.or_false,
        Bool.or_eq_true, beq_iff_eq] at h
      rcases h with h | h
      · left; exact h
      · right; exact h.symm
    split at h
    · exact key h
    · split at h
      · exact key h
      · left; exact h

/-! ## flushing -/

theorem applyTodo_cons (x : Key × Option Nat) (todo : List (Key × Option Nat)) (ix : Key → Option Nat) :
    applyTodo (x :: todo) ix = applyTodo todo (updK ix x.1 x.2) := rfl

theorem applyTodo_eq_applyPend (b : Nat) (staged : List BOp) (p : Nat) (ix : Key → Option Nat) :
    applyTodo (todoOf p staged) ix = applyPend ix (enumPos p (staged.map (recOf b))) := by
  induction staged generalizing p ix with
  | nil => rfl
  | cons x l ih =>
    simp only [todoOf, List.map_cons, enumPos, applyTodo_cons, applyPend, List.foldl_cons]
    rw [ih]
    obtain ⟨k, ov⟩ := x
    cases ov <;> rfl

theorem applyPend_append (ix : Key → Option Nat) (l l' : List (Nat × Rec)) :
    applyPend ix (l ++ l') = applyPend (applyPend ix l) l' := by
  simp [applyPend, List.foldl_append]

theorem applyTodo_other (todo : List (Key × Option Nat)) (ix : Key → Option Nat) (k : Key)
    (h : ∀ x ∈ todo, x.1 ≠ k) : applyTodo todo ix k = ix k := by
  induction todo generalizing ix with
  | nil => rfl
  | cons x l ih =>
    rw [applyTodo_cons, ih _ (fun y hy => h y (List.mem_cons_of_mem _ hy))]
    exact updK_ne _ _ (Ne.symm (h x List.mem_cons_self))

theorem todoOf_keys (p : Nat) (staged : List BOp) :
    (todoOf p staged).map (·.1) = staged.map (·.1) := by
  induction staged generalizing p with
  | nil => rfl
  | cons x l ih => simp [todoOf, ih]

/-- After a flush, the index shows the staged records on top of what it showed before. -/
theorem view_flush (b : Nat) (staged : List BOp) (hn : KeysNodup staged) (log : List Rec) (p : Nat)
    (hlog : ∀ i x, staged[i]? = some x → log[p + i]? = some (recOf b x))
    (ix : Key → Option Nat) :
    view log (applyTodo (todoOf p staged) ix) = overlay staged (view log ix) := by
  induction staged generalizing p ix with
  | nil => rfl
  | cons x l ih =>
    have hn' : x.1 ∉ l.map (·.1) ∧ KeysNodup l := by
      unfold KeysNodup at hn ⊢; simpa using hn
    have hl : ∀ i y, l[i]? = some y → log[p + 1 + i]? = some (recOf b y) := by
      intro i y hy
      have := hlog (i + 1) y (by simpa using hy)
      rwa [show p + (i + 1) = p + 1 + i by omega] at this
    simp only [todoOf, applyTodo_cons]
    rw [ih hn'.2 (p + 1) hl]
    funext k
    rw [overlay_cons]
    by_cases hk : x.1 = k
    · subst hk
      rw [if_pos rfl, overlay_of_not_hasKey _ (hasKey_false_iff.2 hn'.1)]
      have h0 := hlog 0 x (by simp)
      simp only [Nat.add_zero] at h0
      obtain ⟨k, ov⟩ := x
      cases ov with
      | none => simp [view, valAt]
      | some v => simp [view, valAt, h0, recOf]
    · rw [if_neg hk]
      simp only [overlay, view]
      rw [updK_ne _ _ (Ne.symm hk)]

end XixiKV.ConcBatch
