import XixiKV.Model.Conc
/-!
# Invariants of the interleaving semantics for the well-locked shape   (helpers for C08 / C09)

`Inv g` is inductive over `Step Shape.allTrue` (`step_inv`), for any number of threads and any
schedule.  It packages

* mutual exclusion (`lock`),
* "the index is the replay of the log, except that the holder of the lock may be between its
  append and its index update" (`consistent`, `heldF`),
* append-only facts about positions handed out earlier (`idxOK`, `logF`),
* the ghost history: per-thread phases match the control states (`phases`) and the results
  recorded at linearization points are those of the sequential specification (`spec`).
-/
namespace XixiKV.Conc

/-! ## small facts -/

@[simp] theorem upd_same {α} (f : Tid → α) (t : Tid) (a : α) : upd f t a t = a := by simp [upd]
theorem upd_ne {α} (f : Tid → α) {t t' : Tid} (a : α) (h : t' ≠ t) : upd f t a t' = f t' := by
  simp [upd, h]
@[simp] theorem updK_same {α} (f : Key → α) (k : Key) (a : α) : updK f k a k = a := by simp [updK]
theorem updK_ne {α} (f : Key → α) {k k' : Key} (a : α) (h : k' ≠ k) : updK f k a k' = f k' := by
  simp [updK, h]

theorem forall_upd {Q : PC → Prop} {pc : Tid → PC} {t : Tid} {c' : PC}
    (h : ∀ t', Q (pc t')) (hc : Q c') : ∀ t', Q (upd pc t c' t') := by
  intro t'; unfold upd; split
  · exact hc
  · exact h t'

theorem getElem?_append_lt {α} (l : List α) (x : α) (p : Nat) (h : p < l.length) :
    (l ++ [x])[p]? = l[p]? := by
  simp [List.getElem?_append_left h]

theorem lt_of_getElem?_eq_some {α} {l : List α} {p : Nat} {a : α} (h : l[p]? = some a) :
    p < l.length := by
  rcases Nat.lt_or_ge p l.length with h' | h'
  · exact h'
  · rw [List.getElem?_eq_none h'] at h; cases h

theorem valAt_append_lt (log : List Rec) (r : Rec) (p : Option Nat)
    (h : ∀ q, p = some q → q < log.length) : valAt (log ++ [r]) p = valAt log p := by
  cases p with
  | none => rfl
  | some q => simp only [valAt]; rw [getElem?_append_lt _ _ _ (h q rfl)]

/-! ## replay -/

theorem replayFrom_append (l : List Rec) (r : Rec) (i : Nat) (ix : Key → Option Nat) :
    replayFrom (l ++ [r]) i ix = applyRec (replayFrom l i ix) (i + l.length) r := by
  induction l generalizing i ix with
  | nil => simp [replayFrom]
  | cons a t ih =>
    simp only [List.cons_append, replayFrom, List.length_cons]
    rw [ih]; congr 1; omega

theorem replay_append (l : List Rec) (r : Rec) :
    replay (l ++ [r]) = applyRec (replay l) l.length r := by
  unfold replay; rw [replayFrom_append]; simp

theorem replay_append_put (l : List Rec) (k : Key) (v : Val) :
    replay (l ++ [.put k v]) = updK (replay l) k (some l.length) := by
  rw [replay_append]; rfl

theorem replay_append_del (l : List Rec) (k : Key) :
    replay (l ++ [.del k]) = updK (replay l) k none := by
  rw [replay_append]; rfl

/-! ## histories -/

theorem phaseStep_other {t : Tid} {e : Ev} (ph : Option Phase) (h : e.tid ≠ t) :
    phaseStep t ph e = ph := by
  simp [phaseStep, h]

theorem phase_append_other {t : Tid} (evs h : List Ev) (hev : ∀ e ∈ evs, e.tid ≠ t) :
    phase (evs ++ h) t = phase h t := by
  induction evs with
  | nil => rfl
  | cons e es ih =>
    simp only [List.cons_append, phase]
    rw [ih (fun e' he' => hev e' (List.mem_cons_of_mem _ he')),
      phaseStep_other _ (hev e (List.mem_cons_self))]

theorem phaseStep_none (t : Tid) (e : Ev) : phaseStep t none e = none := by
  unfold phaseStep; split <;> rfl

/-- the well-formedness check is closed under dropping the newest events -/
theorem phase_suffix {t : Tid} (h2 h1 : List Ev) (h : phase (h2 ++ h1) t ≠ none) :
    phase h1 t ≠ none := by
  induction h2 with
  | nil => exact h
  | cons e es ih =>
    apply ih
    intro hn
    apply h
    simp only [List.cons_append, phase, hn, phaseStep_none]

theorem specRun_suffix (h2 h1 : List Ev) (h : (specRun (h2 ++ h1)).isSome = true) :
    (specRun h1).isSome = true := by
  induction h2 with
  | nil => exact h
  | cons e es ih =>
    apply ih
    cases e with
    | inv t op => exact h
    | ret t r => exact h
    | lin t op r =>
      simp only [List.cons_append, specRun] at h
      cases hs : specRun (es ++ h1) with
      | none => rw [hs] at h; cases h
      | some m => rfl

/-- a thread in phase `invoked op` has an invocation of `op` as its newest event -/
theorem phase_invoked {t : Tid} {op : Op} : ∀ {h : List Ev}, phase h t = some (.invoked op) →
    ∃ hm h0, h = hm ++ .inv t op :: h0 ∧ (∀ e ∈ hm, e.tid ≠ t) ∧ phase h0 t = some .idle := by
  intro h
  induction h with
  | nil => intro hp; cases hp
  | cons e es ih =>
    intro hp
    simp only [phase] at hp
    by_cases he : e.tid = t
    · unfold phaseStep at hp
      rw [if_pos he] at hp
      cases e with
      | inv t' op' =>
        cases hph : phase es t with
        | none => rw [hph] at hp; cases hp
        | some ph =>
          rw [hph] at hp
          cases ph with
          | idle =>
            simp only [Option.some.injEq, Phase.invoked.injEq] at hp
            subst hp
            simp only [Ev.tid] at he; subst he
            exact ⟨[], es, rfl, by simp, hph⟩
          | invoked _ => cases hp
          | linearized _ _ => cases hp
      | lin t' op' r' =>
        cases hph : phase es t with
        | none => rw [hph] at hp; cases hp
        | some ph =>
          rw [hph] at hp
          cases ph with
          | idle => cases hp
          | invoked o => simp only at hp; split at hp <;> cases hp
          | linearized _ _ => cases hp
      | ret t' r' =>
        cases hph : phase es t with
        | none => rw [hph] at hp; cases hp
        | some ph =>
          rw [hph] at hp
          cases ph with
          | idle => cases hp
          | invoked _ => cases hp
          | linearized _ _ => simp only at hp; split at hp <;> cases hp
    · rw [phaseStep_other _ he] at hp
      obtain ⟨hm, h0, rfl, hno, hid⟩ := ih hp
      refine ⟨e :: hm, h0, rfl, ?_, hid⟩
      intro e' he'
      rcases List.mem_cons.1 he' with rfl | h'
      · exact he
      · exact hno e' h'

/-- a thread in phase `linearized op r` has, as its two newest events, `inv op` then `lin op r` -/
theorem phase_linearized {t : Tid} {op : Op} {r : Res} :
    ∀ {h : List Ev}, phase h t = some (.linearized op r) →
    ∃ hl hm, h = hl ++ .lin t op r :: hm ∧ (∀ e ∈ hl, e.tid ≠ t) ∧
      phase hm t = some (.invoked op) := by
  intro h
  induction h with
  | nil => intro hp; cases hp
  | cons e es ih =>
    intro hp
    simp only [phase] at hp
    by_cases he : e.tid = t
    · unfold phaseStep at hp
      rw [if_pos he] at hp
      cases e with
      | inv t' op' =>
        cases hph : phase es t with
        | none => rw [hph] at hp; cases hp
        | some ph =>
          rw [hph] at hp
          cases ph with
          | idle => cases hp
          | invoked _ => cases hp
          | linearized _ _ => cases hp
      | lin t' op' r' =>
        cases hph : phase es t with
        | none => rw [hph] at hp; cases hp
        | some ph =>
          rw [hph] at hp
          cases ph with
          | idle => cases hp
          | invoked o =>
            simp only at hp
            split at hp
            · rename_i hop
              simp only [Option.some.injEq, Phase.linearized.injEq] at hp
              obtain ⟨rfl, rfl⟩ := hp
              subst hop
              simp only [Ev.tid] at he; subst he
              exact ⟨[], es, rfl, by simp, hph⟩
            · cases hp
          | linearized _ _ => cases hp
      | ret t' r' =>
        cases hph : phase es t with
        | none => rw [hph] at hp; cases hp
        | some ph =>
          rw [hph] at hp
          cases ph with
          | idle => cases hp
          | invoked _ => cases hp
          | linearized _ _ => simp only at hp; split at hp <;> cases hp
    · rw [phaseStep_other _ he] at hp
      obtain ⟨hl, hm, rfl, hno, hid⟩ := ih hp
      refine ⟨e :: hl, hm, rfl, ?_, hid⟩
      intro e' he'
      rcases List.mem_cons.1 he' with rfl | h'
      · exact he
      · exact hno e' h'

/-- a return event is accepted only in phase `linearized _ r` with the same result -/
theorem phase_ret {t : Tid} {r : Res} {h : List Ev} (hp : phase (.ret t r :: h) t ≠ none) :
    ∃ op, phase h t = some (.linearized op r) := by
  simp only [phase] at hp
  unfold phaseStep at hp
  simp only [Ev.tid, if_true] at hp
  cases hph : phase h t with
  | none => rw [hph] at hp; exact absurd rfl hp
  | some ph =>
    rw [hph] at hp
    cases ph with
    | idle => exact absurd rfl hp
    | invoked _ => exact absurd rfl hp
    | linearized op r' =>
      simp only at hp
      split at hp
      · rename_i hr; subst hr; exact ⟨op, rfl⟩
      · exact absurd rfl hp

/-- the specification never produces the internal-inconsistency error -/
theorem specStep_ne_err (m : Map) (op : Op) : (specStep m op).2 ≠ .errIndexUpdateFailed := by
  cases op <;> simp [specStep]

/-! ## the invariant -/

/-- the thread holds `db.mu` -/
def inCS : PC → Bool
  | .putLocked _ _ | .putAppended _ _ _ true | .putIndexed _ _ true
  | .delLocked _ | .delFound _ | .delMiss _ true | .delAppended _ true | .delIndexed _ _ true => true
  | _ => false

/-- record appended, index not yet updated, lock still held -/
def midUpdate : PC → Bool
  | .putAppended _ _ _ true | .delAppended _ true => true
  | _ => false

/-- control states that exist only in the broken shapes -/
def badPC : PC → Bool
  | .putAppended _ _ _ false | .delAppended _ false | .delChecked _ => true
  | _ => false

/-- facts that survive appends by other threads -/
def LogFacts (log : List Rec) : PC → Prop
  | .putAppended k v p _ => log[p]? = some (.put k v)
  | .getFound _ p pred => pred = readPos log p ∧ ∀ q, p = some q → q < log.length
  | .delIndexed _ r _ => r = .ok
  | _ => True

/-- facts about the index that only the holder of the lock relies on -/
def HeldFacts (log : List Rec) (idx : Key → Option Nat) : PC → Prop
  | .putAppended k v p true => ∃ l, log = l ++ [.put k v] ∧ p = l.length ∧ idx = replay l
  | .delAppended k true => ∃ l, log = l ++ [.del k] ∧ idx = replay l ∧ idx k ≠ none
  | .delFound k => idx k ≠ none
  | _ => True

def phaseOf : PC → Phase
  | .idle => .idle
  | .putWant k v | .putLocked k v | .putAppended k v _ _ => .invoked (.put k v)
  | .putIndexed k v _ => .linearized (.put k v) .ok
  | .delWant k | .delChecked k | .delLocked k | .delFound k | .delAppended k _ => .invoked (.del k)
  | .delMiss k _ => .linearized (.del k) .ok
  | .delIndexed k r _ => .linearized (.del k) r
  | .getWant k => .invoked (.get k)
  | .getFound k _ pred => .linearized (.get k) pred
  | .getResolved k r => .linearized (.get k) r

structure Inv (g : G) : Prop where
  lock : ∀ t, inCS (g.pc t) = true ↔ g.writer = some t
  shape : ∀ t, badPC (g.pc t) = false
  idxOK : ∀ k p, g.idx k = some p → ∃ v, g.log[p]? = some (.put k v)
  logF : ∀ t, LogFacts g.log (g.pc t)
  heldF : ∀ t, HeldFacts g.log g.idx (g.pc t)
  consistent : (∀ t, midUpdate (g.pc t) = false) → g.idx = replay g.log
  spec : specRun g.hist = some (absMap g)
  phases : ∀ t, phase g.hist t = some (phaseOf (g.pc t))

theorem midUpdate_inCS {c : PC} (h : midUpdate c = true) : inCS c = true := by
  cases c <;> (try (rename_i b; cases b)) <;> simp_all [midUpdate, inCS]

theorem heldFacts_of_not_inCS {c : PC} (log : List Rec) (idx : Key → Option Nat)
    (h : inCS c = false) : HeldFacts log idx c := by
  cases c <;> (try (rename_i b; cases b)) <;> simp_all [HeldFacts, inCS]

theorem logFacts_append {log : List Rec} (r : Rec) {c : PC} (h : LogFacts log c) :
    LogFacts (log ++ [r]) c := by
  cases c with
  | putAppended k v p held =>
    simp only [LogFacts] at h ⊢
    rw [getElem?_append_lt _ _ _ (lt_of_getElem?_eq_some h)]; exact h
  | getFound k p pred =>
    simp only [LogFacts] at h ⊢
    obtain ⟨h1, h2⟩ := h
    refine ⟨?_, ?_⟩
    · rw [h1]; simp only [readPos]; rw [valAt_append_lt _ _ _ h2]
    · intro q hq; have := h2 q hq; simp; omega
  | _ => exact h

/-- at most one thread holds the lock -/
theorem cs_unique {g : G} (hI : Inv g) {t t' : Tid}
    (h : inCS (g.pc t) = true) (h' : inCS (g.pc t') = true) : t = t' := by
  have a := (hI.lock t).1 h
  have b := (hI.lock t').1 h'
  rw [a] at b; exact Option.some.inj b

theorem not_inCS_of_ne {g : G} (hI : Inv g) {t t' : Tid} (h : inCS (g.pc t) = true) (hne : t' ≠ t) :
    inCS (g.pc t') = false := by
  cases h' : inCS (g.pc t') with
  | false => rfl
  | true => exact absurd (cs_unique hI h h').symm hne

/-- while a thread that is not mid-update holds the lock, nobody is mid-update -/
theorem no_mid_of_holder {g : G} (hI : Inv g) {t : Tid} (h : inCS (g.pc t) = true)
    (hm : midUpdate (g.pc t) = false) : ∀ t', midUpdate (g.pc t') = false := by
  intro t'
  by_cases e : t' = t
  · subst e; exact hm
  · cases h' : midUpdate (g.pc t') with
    | false => rfl
    | true =>
      have := not_inCS_of_ne hI h e
      rw [midUpdate_inCS h'] at this; cases this

theorem absMap_append {g : G} (hI : Inv g) (r : Rec) (w : Option Tid) (pc : Tid → PC)
    (h : List Ev) : absMap ⟨g.log ++ [r], g.idx, w, pc, h⟩ = absMap g := by
  funext k
  simp only [absMap]
  apply valAt_append_lt
  intro q hq
  obtain ⟨v, hv⟩ := hI.idxOK k q hq
  exact lt_of_getElem?_eq_some hv

theorem init_inv : Inv init := by
  refine ⟨?_, ?_, ?_, ?_, ?_, ?_, ?_, ?_⟩
  · intro t; simp [init, inCS]
  · intro t; rfl
  · intro k p h; simp [init] at h
  · intro t; simp [init, LogFacts]
  · intro t; simp [init, HeldFacts]
  · intro _; rfl
  · rfl
  · intro t; rfl

/-- A step of thread `t` that changes only its control state, the lock word and the ghost
history.  Everything except the `lock` field follows from facts about the new control state. -/
theorem inv_pc_step {g : G} {t : Tid} {c' : PC} {evs : List Ev} {w' : Option Tid} (hI : Inv g)
    (hlock : ∀ t', inCS (upd g.pc t c' t') = true ↔ w' = some t')
    (hbad : badPC c' = false)
    (hlog : LogFacts g.log c')
    (hheld : HeldFacts g.log g.idx c')
    (hmid0 : midUpdate (g.pc t) = false)
    (hev : ∀ e ∈ evs, e.tid = t)
    (hph : phase (evs ++ g.hist) t = some (phaseOf c'))
    (hspec : specRun (evs ++ g.hist) = some (absMap g)) :
    Inv { g with writer := w', pc := upd g.pc t c', hist := evs ++ g.hist } := by
  refine ⟨hlock, forall_upd (Q := fun c => badPC c = false) hI.shape hbad, hI.idxOK,
    forall_upd (Q := LogFacts g.log) hI.logF hlog,
    forall_upd (Q := HeldFacts g.log g.idx) hI.heldF hheld, ?_, hspec, ?_⟩
  · intro h
    apply hI.consistent
    intro t'
    by_cases e : t' = t
    · subst e; exact hmid0
    · have : midUpdate (upd g.pc t c' t') = false := h t'
      rwa [upd_ne _ _ e] at this
  · intro t'
    by_cases e : t' = t
    · subst e; simpa using hph
    · show phase (evs ++ g.hist) t' = some (phaseOf (upd g.pc t c' t'))
      rw [upd_ne _ _ e, phase_append_other _ _ (fun e' he' => by rw [hev e' he']; exact Ne.symm e)]
      exact hI.phases t'

/-- the `lock` field when the lock word does not change -/
theorem lock_keep {g : G} {t : Tid} {c' : PC} (hI : Inv g) (h : inCS c' = inCS (g.pc t)) :
    ∀ t', inCS (upd g.pc t c' t') = true ↔ g.writer = some t' := by
  intro t'
  by_cases e : t' = t
  · subst e; rw [upd_same, h]; exact hI.lock t'
  · rw [upd_ne _ _ e]; exact hI.lock t'

theorem lock_acq {g : G} {t : Tid} {c' : PC} (hI : Inv g) (hw : g.writer = none)
    (h : inCS c' = true) : ∀ t', inCS (upd g.pc t c' t') = true ↔ some t = some t' := by
  intro t'
  by_cases e : t' = t
  · subst e; simp [h]
  · rw [upd_ne _ _ e]
    have := hI.lock t'; rw [hw] at this
    constructor
    · intro h'; exact absurd (this.1 h') (by simp)
    · intro h'; exact absurd (Option.some.inj h').symm e

theorem lock_rel {g : G} {t : Tid} {c' : PC} (hI : Inv g) (hcs : inCS (g.pc t) = true)
    (h : inCS c' = false) : ∀ t', inCS (upd g.pc t c' t') = true ↔ (none : Option Tid) = some t' := by
  intro t'
  by_cases e : t' = t
  · subst e; simp [h]
  · rw [upd_ne _ _ e, not_inCS_of_ne hI hcs e]; simp

theorem updK_absMap_none {g : G} {k : Key} (h : g.idx k = none) : updK (absMap g) k none = absMap g := by
  funext k'
  by_cases e : k' = k
  · subst e; simp [absMap, h, valAt]
  · rw [updK_ne _ _ e]

/-- The invariant is preserved by every step of every thread (well-locked shape). -/
theorem step_inv {g g' : G} (hI : Inv g) (hs : Step Shape.allTrue g g') : Inv g' := by
  cases hs with
  | loc t c c' evs hpc hl =>
    have hph0 := hI.phases t
    rw [hpc] at hph0
    cases hl with
    | putCall k v =>
      exact inv_pc_step hI (lock_keep hI (by rw [hpc]; rfl)) rfl trivial trivial (by rw [hpc]; rfl)
        (by simp [Ev.tid]) (by simp [phase, phaseStep, hph0, phaseOf, Ev.tid]) hI.spec
    | delCall k =>
      exact inv_pc_step hI (lock_keep hI (by rw [hpc]; rfl)) rfl trivial trivial (by rw [hpc]; rfl)
        (by simp [Ev.tid]) (by simp [phase, phaseStep, hph0, phaseOf, Ev.tid]) hI.spec
    | getCall k =>
      exact inv_pc_step hI (lock_keep hI (by rw [hpc]; rfl)) rfl trivial trivial (by rw [hpc]; rfl)
        (by simp [Ev.tid]) (by simp [phase, phaseStep, hph0, phaseOf, Ev.tid]) hI.spec
    | delCheckEarlyMiss k hsh _ => cases hsh
    | delCheckEarlyHit k p hsh _ => cases hsh
    | delCheckMiss k hk =>
      refine inv_pc_step hI (lock_keep hI (by rw [hpc]; rfl)) rfl trivial trivial (by rw [hpc]; rfl)
        (by simp [Ev.tid]) (by simp [phase, phaseStep, hph0, phaseOf, Ev.tid]) ?_
      simp only [List.cons_append, List.nil_append, specRun, hI.spec, Option.bind, specStep,
        if_true, updK_absMap_none hk]
    | delCheckHit k p hk =>
      exact inv_pc_step hI (lock_keep hI (by rw [hpc]; rfl)) rfl trivial
        (by simp [HeldFacts, hk]) (by rw [hpc]; rfl)
        (by simp) (by simpa [phaseOf] using hph0) hI.spec
    | getIdx k =>
      refine inv_pc_step hI (lock_keep hI (by rw [hpc]; rfl)) rfl ?_ trivial (by rw [hpc]; rfl)
        (by simp [Ev.tid]) (by simp [phase, phaseStep, hph0, phaseOf, Ev.tid]) ?_
      · refine ⟨rfl, ?_⟩
        intro q hq
        obtain ⟨v, hv⟩ := hI.idxOK k q hq
        exact lt_of_getElem?_eq_some hv
      · simp only [List.cons_append, List.nil_append, specRun, hI.spec, Option.bind, specStep,
          if_true]
    | getResolve k p pred =>
      have hlf := hI.logF t
      rw [hpc] at hlf
      refine inv_pc_step hI (lock_keep hI (by rw [hpc]; rfl)) rfl trivial trivial (by rw [hpc]; rfl)
        (by simp) ?_ hI.spec
      simp only [List.nil_append, hph0, phaseOf, hlf.1]
    | putRet k v =>
      exact inv_pc_step hI (lock_keep hI (by rw [hpc]; rfl)) rfl trivial trivial (by rw [hpc]; rfl)
        (by simp [Ev.tid]) (by simp [phase, phaseStep, hph0, phaseOf, Ev.tid]) hI.spec
    | delMissRet k =>
      exact inv_pc_step hI (lock_keep hI (by rw [hpc]; rfl)) rfl trivial trivial (by rw [hpc]; rfl)
        (by simp [Ev.tid]) (by simp [phase, phaseStep, hph0, phaseOf, Ev.tid]) hI.spec
    | delRet k r =>
      exact inv_pc_step hI (lock_keep hI (by rw [hpc]; rfl)) rfl trivial trivial (by rw [hpc]; rfl)
        (by simp [Ev.tid]) (by simp [phase, phaseStep, hph0, phaseOf, Ev.tid]) hI.spec
    | getRet k r =>
      exact inv_pc_step hI (lock_keep hI (by rw [hpc]; rfl)) rfl trivial trivial (by rw [hpc]; rfl)
        (by simp [Ev.tid]) (by simp [phase, phaseStep, hph0, phaseOf, Ev.tid]) hI.spec
  | acq t c c' hpc ha hw =>
    have hph0 := hI.phases t
    rw [hpc] at hph0
    have hsh := hI.shape t
    rw [hpc] at hsh
    have key : ∀ (hcs : inCS c' = true) (hbad : badPC c' = false) (hlog : LogFacts g.log c')
        (hheld : HeldFacts g.log g.idx c') (hmid : midUpdate c = false) (hph : phaseOf c' = phaseOf c),
        Inv { g with writer := some t, pc := upd g.pc t c' } := by
      intro hcs hbad hlog hheld hmid hph
      have := inv_pc_step (evs := []) hI (lock_acq hI hw hcs) hbad hlog hheld (by rw [hpc]; exact hmid)
        (by simp) (by simpa [hph] using hph0) hI.spec
      simpa using this
    cases ha with
    | put k v => exact key rfl rfl trivial trivial rfl rfl
    | del k _ => exact key rfl rfl trivial trivial rfl rfl
    | delLate k => cases hsh
  | rel t c c' hpc hr =>
    have hph0 := hI.phases t
    rw [hpc] at hph0
    have key : ∀ (hcs0 : inCS c = true) (hcs : inCS c' = false) (hbad : badPC c' = false)
        (hlog : LogFacts g.log c') (hmid : midUpdate c = false) (hph : phaseOf c' = phaseOf c),
        Inv { g with writer := none, pc := upd g.pc t c' } := by
      intro hcs0 hcs hbad hlog hmid hph
      have := inv_pc_step (evs := []) hI (lock_rel hI (by rw [hpc]; exact hcs0) hcs) hbad hlog
        (heldFacts_of_not_inCS _ _ hcs) (by rw [hpc]; exact hmid)
        (by simp) (by simpa [hph] using hph0) hI.spec
      simpa using this
    have hlf := hI.logF t
    rw [hpc] at hlf
    cases hr with
    | putEarly k v p hsh => cases hsh
    | put k v => exact key rfl rfl rfl trivial rfl rfl
    | delMiss k => exact key rfl rfl rfl trivial rfl rfl
    | delEarly k hsh => cases hsh
    | del k r => exact key rfl rfl rfl hlf rfl rfl
  | putAppend t k v hpc =>
    have hcs : inCS (g.pc t) = true := by rw [hpc]; rfl
    have hnomid := no_mid_of_holder hI hcs (by rw [hpc]; rfl)
    have hcons := hI.consistent hnomid
    have hph0 := hI.phases t
    rw [hpc] at hph0
    refine ⟨lock_keep hI (by rw [hpc]; rfl), forall_upd (Q := fun c => badPC c = false) hI.shape rfl, ?_, ?_, ?_, ?_, ?_, ?_⟩
    · intro k' p' h
      obtain ⟨v', hv'⟩ := hI.idxOK k' p' h
      exact ⟨v', by show (g.log ++ [_])[p']? = _; rw [getElem?_append_lt _ _ _ (lt_of_getElem?_eq_some hv')]; exact hv'⟩
    · exact forall_upd (Q := LogFacts (g.log ++ [_])) (fun t' => logFacts_append _ (hI.logF t')) (by simp [LogFacts])
    · intro t'
      by_cases e : t' = t
      · subst e; simp only [upd_same, HeldFacts]; exact ⟨g.log, rfl, rfl, hcons⟩
      · simp only [upd_ne _ _ e]
        exact heldFacts_of_not_inCS _ _ (not_inCS_of_ne hI hcs e)
    · intro h; have := h t; simp [midUpdate] at this
    · show specRun g.hist = some (absMap _)
      rw [absMap_append hI]; exact hI.spec
    · intro t'
      by_cases e : t' = t
      · subst e; simpa [phaseOf] using hph0
      · simp only [upd_ne _ _ e]; exact hI.phases t'
  | putIndex t k v p h hpc hsh =>
    have hh : h = true := hsh
    subst hh
    have hcs : inCS (g.pc t) = true := by rw [hpc]; rfl
    have hlf := hI.logF t
    rw [hpc] at hlf
    simp only [LogFacts] at hlf
    have hhf := hI.heldF t
    rw [hpc] at hhf
    obtain ⟨l, hlog, hp, hidx⟩ := hhf
    have hph0 := hI.phases t
    rw [hpc] at hph0
    have habs : ∀ (w : Option Tid) (pc : Tid → PC) (hh : List Ev),
        absMap ⟨g.log, updK g.idx k (some p), w, pc, hh⟩ = updK (absMap g) k (some v) := by
      intro w pc hh
      funext k'
      by_cases e : k' = k
      · subst e; simp [absMap, valAt, hlf]
      · simp [absMap, updK_ne _ _ e]
    refine ⟨lock_keep hI (by rw [hpc]; rfl), forall_upd (Q := fun c => badPC c = false) hI.shape rfl, ?_, ?_, ?_, ?_, ?_, ?_⟩
    · intro k' p' hk'
      by_cases e : k' = k
      · subst e; simp at hk'; subst hk'; exact ⟨v, hlf⟩
      · simp only [updK_ne _ _ e] at hk'; exact hI.idxOK k' p' hk'
    · exact forall_upd (Q := LogFacts g.log) hI.logF trivial
    · intro t'
      by_cases e : t' = t
      · subst e; simp [HeldFacts]
      · simp only [upd_ne _ _ e]
        exact heldFacts_of_not_inCS _ _ (not_inCS_of_ne hI hcs e)
    · intro _
      show updK g.idx k (some p) = replay g.log
      rw [hlog, replay_append_put, hidx, hp]
    · show specRun (_ :: g.hist) = some (absMap _)
      rw [habs]
      simp only [specRun, hI.spec, Option.bind, specStep, if_true]
    · intro t'
      by_cases e : t' = t
      · subst e; simp [phase, phaseStep, hph0, phaseOf, Ev.tid]
      · simp only [upd_ne _ _ e, phase]
        rw [phaseStep_other _ (by simp [Ev.tid]; exact Ne.symm e)]
        exact hI.phases t'
  | delAppend t k hpc =>
    have hcs : inCS (g.pc t) = true := by rw [hpc]; rfl
    have hnomid := no_mid_of_holder hI hcs (by rw [hpc]; rfl)
    have hcons := hI.consistent hnomid
    have hhf := hI.heldF t
    rw [hpc] at hhf
    simp only [HeldFacts] at hhf
    have hph0 := hI.phases t
    rw [hpc] at hph0
    refine ⟨lock_keep hI (by rw [hpc]; rfl), forall_upd (Q := fun c => badPC c = false) hI.shape rfl, ?_, ?_, ?_, ?_, ?_, ?_⟩
    · intro k' p' h
      obtain ⟨v', hv'⟩ := hI.idxOK k' p' h
      exact ⟨v', by show (g.log ++ [_])[p']? = _; rw [getElem?_append_lt _ _ _ (lt_of_getElem?_eq_some hv')]; exact hv'⟩
    · exact forall_upd (Q := LogFacts (g.log ++ [_])) (fun t' => logFacts_append _ (hI.logF t')) trivial
    · intro t'
      by_cases e : t' = t
      · subst e; simp only [upd_same, HeldFacts]; exact ⟨g.log, rfl, hcons, hhf⟩
      · simp only [upd_ne _ _ e]
        exact heldFacts_of_not_inCS _ _ (not_inCS_of_ne hI hcs e)
    · intro h; have := h t; simp [midUpdate] at this
    · show specRun g.hist = some (absMap _)
      rw [absMap_append hI]; exact hI.spec
    · intro t'
      by_cases e : t' = t
      · subst e; simpa [phaseOf] using hph0
      · simp only [upd_ne _ _ e]; exact hI.phases t'
  | delIndex t k h hpc hsh =>
    have hh : h = true := hsh
    subst hh
    have hcs : inCS (g.pc t) = true := by rw [hpc]; rfl
    have hhf := hI.heldF t
    rw [hpc] at hhf
    obtain ⟨l, hlog, hidx, hpres⟩ := hhf
    have hres : delRes (g.idx k) = .ok := by
      cases hk : g.idx k with
      | none => exact absurd hk hpres
      | some p => rfl
    have hph0 := hI.phases t
    rw [hpc] at hph0
    have habs : ∀ (w : Option Tid) (pc : Tid → PC) (hh : List Ev),
        absMap ⟨g.log, updK g.idx k none, w, pc, hh⟩ = updK (absMap g) k none := by
      intro w pc hh
      funext k'
      by_cases e : k' = k
      · subst e; simp [absMap, valAt]
      · simp [absMap, updK_ne _ _ e]
    rw [hres]
    refine ⟨lock_keep hI (by rw [hpc]; rfl), forall_upd (Q := fun c => badPC c = false) hI.shape rfl, ?_, ?_, ?_, ?_, ?_, ?_⟩
    · intro k' p' hk'
      by_cases e : k' = k
      · subst e; simp at hk'
      · simp only [updK_ne _ _ e] at hk'; exact hI.idxOK k' p' hk'
    · exact forall_upd (Q := LogFacts g.log) hI.logF (by simp [LogFacts])
    · intro t'
      by_cases e : t' = t
      · subst e; simp [HeldFacts]
      · simp only [upd_ne _ _ e]
        exact heldFacts_of_not_inCS _ _ (not_inCS_of_ne hI hcs e)
    · intro _
      show updK g.idx k none = replay g.log
      rw [hlog, replay_append_del, hidx]
    · show specRun (_ :: g.hist) = some (absMap _)
      rw [habs]
      simp only [specRun, hI.spec, Option.bind, specStep, if_true]
    · intro t'
      by_cases e : t' = t
      · subst e; simp [phase, phaseStep, hph0, phaseOf, Ev.tid]
      · simp only [upd_ne _ _ e, phase]
        rw [phaseStep_other _ (by simp [Ev.tid]; exact Ne.symm e)]
        exact hI.phases t'

theorem reachable_inv {g : G} (h : Reachable Shape.allTrue g) : Inv g := by
  induction h with
  | init => exact init_inv
  | step _ hs ih => exact step_inv ih hs

/-! ## consequences for histories -/

theorem linearizable_of_inv {g : G} (hI : Inv g) : Linearizable g.hist :=
  ⟨fun t => by rw [hI.phases t]; simp, by rw [hI.spec]; rfl⟩

/-- every return event has its linearization event and its invocation before it, with the same
result, and the result is the one the specification gives at that point -/
theorem completed_ops {hist : List Ev} (hlin : Linearizable hist) {t : Tid} {r : Res}
    {h2 h1 : List Ev} (hh : hist = h2 ++ .ret t r :: h1) :
    ∃ op hl hm h0 m,
      h1 = hl ++ .lin t op r :: (hm ++ .inv t op :: h0) ∧
      (∀ e ∈ hl, e.tid ≠ t) ∧ (∀ e ∈ hm, e.tid ≠ t) ∧
      specRun (hm ++ .inv t op :: h0) = some m ∧ (specStep m op).2 = r := by
  obtain ⟨hph, hsp⟩ := hlin
  rw [hh] at hph hsp
  obtain ⟨op, hlin⟩ := phase_ret (phase_suffix h2 _ (hph t))
  obtain ⟨hl, hm', rfl, hnol, hinv⟩ := phase_linearized hlin
  obtain ⟨hm, h0, rfl, hnom, _⟩ := phase_invoked hinv
  have hs : (specRun (Ev.lin t op r :: (hm ++ Ev.inv t op :: h0))).isSome = true := by
    have := specRun_suffix (h2 ++ Ev.ret t r :: hl) (Ev.lin t op r :: (hm ++ Ev.inv t op :: h0))
      (by simpa using hsp)
    exact this
  simp only [specRun] at hs
  cases hm0 : specRun (hm ++ Ev.inv t op :: h0) with
  | none => rw [hm0] at hs; cases hs
  | some m =>
    rw [hm0] at hs
    refine ⟨op, hl, hm, h0, m, rfl, hnol, hnom, hm0, ?_⟩
    simp only [Option.bind] at hs
    split at hs
    · assumption
    · cases hs

/-- no linearization event of a history accepted by `specRun` carries the internal error -/
theorem specRun_lin_ne_err : ∀ {h : List Ev}, (specRun h).isSome = true →
    ∀ t op, Ev.lin t op .errIndexUpdateFailed ∉ h := by
  intro h
  induction h with
  | nil => intro _ t op hm; cases hm
  | cons e es ih =>
    intro hs t op hm
    have hes : (specRun es).isSome = true := specRun_suffix [e] es hs
    rcases List.mem_cons.1 hm with rfl | hm'
    · simp only [specRun] at hs
      cases hm0 : specRun es with
      | none => rw [hm0] at hs; cases hs
      | some m =>
        rw [hm0] at hs
        simp only [Option.bind] at hs
        split at hs
        · rename_i heq; exact specStep_ne_err m op heq
        · cases hs
    · exact ih hes t op hm'

theorem ret_ne_err {hist : List Ev} (hlin : Linearizable hist) (t : Tid) :
    Ev.ret t .errIndexUpdateFailed ∉ hist := by
  intro hm
  obtain ⟨h2, h1, hh⟩ := List.append_of_mem hm
  obtain ⟨op, _, _, _, m, _, _, _, _, hr⟩ := completed_ops hlin hh
  exact specStep_ne_err m op hr

/-! ## the executable replay is sound for the step relation -/

theorem next_sound {sh : Shape} {g g' : G} {t : Tid} {l : Label} (h : next sh g t l = some g') :
    Step sh g g' := by
  unfold next at h
  split at h
  all_goals (try split at h)
  all_goals (try split at h)
  all_goals first
    | (cases h; done)
    | (cases h
       first
       | exact Step.loc _ _ _ _ _ (by assumption) (by constructor <;> assumption)
       | exact Step.acq _ _ _ _ (by assumption) (by constructor) (by assumption)
       | exact Step.acq _ _ _ _ (by assumption) (by constructor; exact (‹_ ∧ _›).1) (‹_ ∧ _›).2
       | exact Step.rel _ _ _ _ (by assumption) (by constructor <;> assumption)
       | exact Step.putAppend _ _ _ _ (by assumption)
       | exact Step.putIndex _ _ _ _ _ _ (by assumption) (by assumption)
       | exact Step.delAppend _ _ _ (by assumption)
       | exact Step.delIndex _ _ _ _ (by assumption) (by assumption))

/-- a step of thread `t` leaves the control state of the other threads alone -/
theorem next_pc_other {sh : Shape} {g g' : G} {t t' : Tid} {l : Label}
    (h : next sh g t l = some g') (hne : t' ≠ t) : g'.pc t' = g.pc t' := by
  unfold next at h
  split at h
  all_goals (try split at h)
  all_goals (try split at h)
  all_goals first
    | (cases h; done)
    | (cases h; simp [G.loc, upd, hne])

theorem exec_reachable {sh : Shape} {s : Schedule} {g g' : G} (hr : Reachable sh g)
    (h : exec sh s g = some g') : Reachable sh g' := by
  induction s generalizing g with
  | nil => simp only [exec, Option.some.injEq] at h; subst h; exact hr
  | cons a rest ih =>
    obtain ⟨t, l⟩ := a
    simp only [exec] at h
    cases hn : next sh g t l with
    | none => rw [hn] at h; cases h
    | some g1 =>
      rw [hn] at h
      exact ih (Reachable.step hr (next_sound hn)) h

theorem exec_pc_untouched {sh : Shape} {s : Schedule} {g g' : G} {t' : Tid}
    (h : exec sh s g = some g') (hno : t' ∉ s.map (·.1)) : g'.pc t' = g.pc t' := by
  induction s generalizing g with
  | nil => simp only [exec, Option.some.injEq] at h; subst h; rfl
  | cons a rest ih =>
    obtain ⟨t, l⟩ := a
    simp only [exec] at h
    simp only [List.map_cons, List.mem_cons, not_or] at hno
    cases hn : next sh g t l with
    | none => rw [hn] at h; cases h
    | some g1 =>
      rw [hn] at h
      rw [ih h hno.2, next_pc_other hn hno.1]

/-- after a schedule run from `init`, checking the threads named in the schedule is enough -/
theorem exec_quiescent {sh : Shape} {s : Schedule} {g : G} (h : exec sh s init = some g)
    (hq : ((s.map (·.1)).all fun t => g.pc t == .idle) = true) : Quiescent g := by
  intro t
  by_cases hm : t ∈ s.map (·.1)
  · have := List.all_eq_true.1 hq t hm
    simpa using this
  · rw [exec_pc_untouched h hm]; rfl

end XixiKV.Conc
