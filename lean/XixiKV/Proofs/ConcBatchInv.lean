import XixiKV.Proofs.ConcBatchBasics
/-!
# The structural invariant of `Model/ConcBatch.lean` (any shape, no hypothesis on the batches)

`Inv0 g` is inductive over `Step sh` for EVERY shape.  It packages mutual exclusion, the
append-only facts, "index = recovered log unless the holder of the lock is in the middle of an
update", and — for the holder of an open batch — `BatchFacts`: the log from `bstart` on consists
of the parked records of the batch, the index is (or, after the pending index updates, will be)
the recovered index with those records applied, and the staged records laid over the index view
give exactly the sequential effect of the operations of the batch processed so far.
-/
namespace XixiKV.ConcBatch
open XixiKV.Conc (Tid Key Val upd updK Res upd_same upd_ne updK_same updK_ne lt_of_getElem?_eq_some)

def inCS : PC → Bool
  | .putLocked _ _ | .putAppended _ _ _ | .putIndexed _ _ true
  | .delLocked _ | .delFound _ | .delMiss _ true | .delAppended _ | .delIndexed _ _ true
  | .batOpen _ _ _ _ _ | .batFlush _ _ _ _ _ | .batSealed _ true => true
  | _ => false

/-- the index may differ from the recovered log -/
def mid : PC → Bool
  | .putAppended _ _ _ | .delAppended _ | .batOpen _ _ _ _ _ | .batFlush _ _ _ _ _ => true
  | _ => false

def isBat : PC → Bool
  | .batOpen _ _ _ _ _ | .batFlush _ _ _ _ _ => true
  | _ => false

def LogFacts (log : List Rec) : PC → Prop
  | .putAppended k v p => log[p]? = some (.put k v 0)
  | .getFound _ p => p < log.length
  | _ => True

def stagedOf : Option (BOp × List BOp) → List BOp
  | none => []
  | some (op, _) => [op]

def restOfN : Option (BOp × List BOp) → List BOp
  | none => []
  | some (_, rest) => rest

structure BatchFacts (log : List Rec) (idx : Key → Option Nat) (bstart : Option Nat)
    (ops : List BOp) (b s : Nat) (todo : List (Key × Option Nat)) (staged rest : List BOp) : Prop where
  bs : bstart = some s
  bne : b ≠ 0
  sle : s ≤ log.length
  /-- the parked records of the replay are exactly the log from `s` on -/
  pend : (replayAll log).pend = enumPos s (log.drop s)
  tagged : ∀ r ∈ log.drop s, r.bid = b ∧ ∀ b', r ≠ .fin b'
  /-- once the pending index updates are done, the index is the recovered index with the parked
  records applied -/
  full : applyTodo todo idx = applyPend (recovered log) (enumPos s (log.drop s))
  /-- sequential correctness of staging + flushing -/
  seq : ∃ done, done ++ rest = ops ∧
    overlay staged (view log (applyTodo todo idx)) = applyOps (view log (recovered log)) done
  nodup : KeysNodup staged
  todoOK : ∀ k p, (k, some p) ∈ todo → ∃ v, log[p]? = some (.put k v b)

def HeldFacts (log : List Rec) (idx : Key → Option Nat) (bstart : Option Nat) : PC → Prop
  | .putAppended k v p =>
    ∃ l, log = l ++ [.put k v 0] ∧ p = l.length ∧ idx = recovered l ∧ (replayAll l).pend = []
  | .delAppended k =>
    ∃ l, log = l ++ [.del k 0] ∧ idx = recovered l ∧ (replayAll l).pend = [] ∧ idx k ≠ none
  | .delFound k => idx k ≠ none
  | .batOpen ops b s staged rest =>
    BatchFacts log idx bstart ops b s [] staged rest ∧ (log.drop s ≠ [] → staged ≠ [])
  | .batFlush ops b s todo next =>
    BatchFacts log idx bstart ops b s todo (stagedOf next) (restOfN next)
  | _ => True

structure Inv0 (g : G) : Prop where
  lock : ∀ t, inCS (g.pc t) = true ↔ g.writer = some t
  idxOK : ∀ k p, g.idx k = some p → ∃ v b, g.log[p]? = some (.put k v b)
  bidPos : 0 < g.nextBid
  logF : ∀ t, LogFacts g.log (g.pc t)
  heldF : ∀ t, HeldFacts g.log g.idx g.bstart (g.pc t)
  consistent : (∀ t, mid (g.pc t) = false) → g.idx = recovered g.log ∧ (replayAll g.log).pend = []
  bstartF : g.bstart ≠ none → ∃ t, isBat (g.pc t) = true
  waitF : ∀ w ∈ g.waiters, g.pc w.1 = .getFound w.2.1 w.2.2 ∧ openPos g w.2.2 = true
  waitNodup : (g.waiters.map (·.1)).Nodup

theorem mid_inCS {c : PC} (h : mid c = true) : inCS c = true := by
  cases c <;> simp_all [mid, inCS]

theorem isBat_inCS {c : PC} (h : isBat c = true) : inCS c = true := by
  cases c <;> simp_all [isBat, inCS]

theorem isBat_mid {c : PC} (h : isBat c = true) : mid c = true := by
  cases c <;> simp_all [isBat, mid]

theorem heldFacts_of_not_inCS {c : PC} (log : List Rec) (idx : Key → Option Nat) (bs : Option Nat)
    (h : inCS c = false) : HeldFacts log idx bs c := by
  cases c <;> simp_all [HeldFacts, inCS]

theorem logFacts_append {log : List Rec} (l : List Rec) {c : PC} (h : LogFacts log c) :
    LogFacts (log ++ l) c := by
  cases c with
  | putAppended k v p =>
    simp only [LogFacts] at h ⊢
    rw [List.getElem?_append_left (lt_of_getElem?_eq_some h)]; exact h
  | getFound k p =>
    simp only [LogFacts] at h ⊢
    simp only [List.length_append]; omega
  | _ => exact h

theorem cs_unique {g : G} (hI : Inv0 g) {t t' : Tid}
    (h : inCS (g.pc t) = true) (h' : inCS (g.pc t') = true) : t = t' := by
  have a := (hI.lock t).1 h
  have b := (hI.lock t').1 h'
  rw [a] at b; exact Option.some.inj b

theorem not_inCS_of_ne {g : G} (hI : Inv0 g) {t t' : Tid} (h : inCS (g.pc t) = true) (hne : t' ≠ t) :
    inCS (g.pc t') = false := by
  cases h' : inCS (g.pc t') with
  | false => rfl
  | true => exact absurd (cs_unique hI h h').symm hne

theorem not_inCS_of_free {g : G} (hI : Inv0 g) (hw : g.writer = none) (t : Tid) :
    inCS (g.pc t) = false := by
  cases h : inCS (g.pc t) with
  | false => rfl
  | true => have := (hI.lock t).1 h; rw [hw] at this; cases this

/-- while a thread that is not mid-update holds the lock, nobody is mid-update -/
theorem no_mid_of_holder {g : G} (hI : Inv0 g) {t : Tid} (h : inCS (g.pc t) = true)
    (hm : mid (g.pc t) = false) : ∀ t', mid (g.pc t') = false := by
  intro t'
  by_cases e : t' = t
  · subst e; exact hm
  · cases h' : mid (g.pc t') with
    | false => rfl
    | true =>
      have := not_inCS_of_ne hI h e
      rw [mid_inCS h'] at this; cases this

theorem no_mid_of_free {g : G} (hI : Inv0 g) (hw : g.writer = none) : ∀ t, mid (g.pc t) = false := by
  intro t
  cases h : mid (g.pc t) with
  | false => rfl
  | true => have := not_inCS_of_free hI hw t; rw [mid_inCS h] at this; cases this

/-- a batch is open only while its thread holds the lock -/
theorem bstart_none_of_holder {g : G} (hI : Inv0 g) {t : Tid} (h : inCS (g.pc t) = true)
    (hb : isBat (g.pc t) = false) : g.bstart = none := by
  cases hs : g.bstart with
  | none => rfl
  | some s =>
    obtain ⟨t', ht'⟩ := hI.bstartF (by rw [hs]; simp)
    have := cs_unique hI h (isBat_inCS ht')
    subst this; rw [hb] at ht'; cases ht'

theorem bstart_none_of_free {g : G} (hI : Inv0 g) (hw : g.writer = none) : g.bstart = none := by
  cases hs : g.bstart with
  | none => rfl
  | some s =>
    obtain ⟨t', ht'⟩ := hI.bstartF (by rw [hs]; simp)
    have := not_inCS_of_free hI hw t'
    rw [isBat_inCS ht'] at this; cases this

theorem openPos_false_of_none {g : G} (h : g.bstart = none) (p : Nat) : openPos g p = false := by
  simp [openPos, h]

theorem waiters_nil_of_bstart_none {g : G} (hI : Inv0 g) (h : g.bstart = none) : g.waiters = [] := by
  cases hw : g.waiters with
  | nil => rfl
  | cons w ws =>
    have := (hI.waitF w (by rw [hw]; exact List.mem_cons_self)).2
    rw [openPos_false_of_none h] at this; cases this

theorem idx_lt {g : G} (hI : Inv0 g) {k : Key} {p : Nat} (h : g.idx k = some p) : p < g.log.length := by
  obtain ⟨v, b, hv⟩ := hI.idxOK k p h
  exact lt_of_getElem?_eq_some hv

theorem lock_keep {g : G} {t : Tid} {c' : PC} (hI : Inv0 g) (h : inCS c' = inCS (g.pc t)) :
    ∀ t', inCS (upd g.pc t c' t') = true ↔ g.writer = some t' := by
  intro t'
  by_cases e : t' = t
  · subst e; rw [upd_same, h]; exact hI.lock t'
  · rw [upd_ne _ _ e]; exact hI.lock t'

theorem lock_acq {g : G} {t : Tid} {c' : PC} (hI : Inv0 g) (hw : g.writer = none)
    (h : inCS c' = true) : ∀ t', inCS (upd g.pc t c' t') = true ↔ some t = some t' := by
  intro t'
  by_cases e : t' = t
  · subst e; simp [h]
  · rw [upd_ne _ _ e]
    have := hI.lock t'; rw [hw] at this
    constructor
    · intro h'; exact absurd (this.1 h') (by simp)
    · intro h'; exact absurd (Option.some.inj h').symm e

theorem lock_rel {g : G} {t : Tid} {c' : PC} (hI : Inv0 g) (hcs : inCS (g.pc t) = true)
    (h : inCS c' = false) : ∀ t', inCS (upd g.pc t c' t') = true ↔ (none : Option Tid) = some t' := by
  intro t'
  by_cases e : t' = t
  · subst e; simp [h]
  · rw [upd_ne _ _ e, not_inCS_of_ne hI hcs e]; simp

/-- a thread that can move while waiters exist is not one of them -/
theorem waiters_keep {g : G} {t : Tid} (c' : PC) (hI : Inv0 g)
    (hnot : ∀ k p, g.pc t ≠ .getFound k p) :
    ∀ w ∈ g.waiters, upd g.pc t c' w.1 = .getFound w.2.1 w.2.2 ∧ openPos g w.2.2 = true := by
  intro w hw
  have h := hI.waitF w hw
  by_cases e : w.1 = t
  · rw [e] at h; exact absurd h.1 (hnot _ _)
  · rw [upd_ne _ _ e]; exact h

theorem init_inv0 : Inv0 init := by
  refine ⟨?_, ?_, ?_, ?_, ?_, ?_, ?_, ?_, ?_⟩
  · intro t; simp [init, inCS]
  · intro k p h; simp [init] at h
  · simp [init]
  · intro t; simp [init, LogFacts]
  · intro t; simp [init, HeldFacts]
  · intro _; exact ⟨rfl, rfl⟩
  · intro h; exact absurd rfl h
  · intro w hw; simp [init] at hw
  · simp [init]

/-- A step of thread `t` that leaves the log, the index and `bstart` alone. -/
theorem inv0_pc_step {g : G} {t : Tid} {c' : PC} {w' : Option Tid} {nb : Nat}
    {ws' : List (Tid × Key × Nat)} {h' : List Ev} (hI : Inv0 g)
    (hlock : ∀ t', inCS (upd g.pc t c' t') = true ↔ w' = some t')
    (hnb : 0 < nb)
    (hlog : LogFacts g.log c')
    (hheld : HeldFacts g.log g.idx g.bstart c')
    (hmid : mid c' = false → mid (g.pc t) = false)
    (hbat : isBat (g.pc t) = true → isBat c' = true)
    (hws : ∀ w ∈ ws', upd g.pc t c' w.1 = .getFound w.2.1 w.2.2 ∧ openPos g w.2.2 = true)
    (hnd : (ws'.map (·.1)).Nodup) :
    Inv0 { g with writer := w', pc := upd g.pc t c', nextBid := nb, waiters := ws', hist := h' } := by
  refine ⟨hlock, hI.idxOK, hnb, forall_upd (Q := LogFacts g.log) hI.logF hlog,
    forall_upd (Q := HeldFacts g.log g.idx g.bstart) hI.heldF hheld, ?_, ?_, hws, hnd⟩
  · intro h
    apply hI.consistent
    intro t'
    by_cases e : t' = t
    · subst e; apply hmid; simpa using h t'
    · have : mid (upd g.pc t c' t') = false := h t'
      rwa [upd_ne _ _ e] at this
  · intro hb
    obtain ⟨t', ht'⟩ := hI.bstartF hb
    by_cases e : t' = t
    · subst e; exact ⟨t', by simpa using hbat ht'⟩
    · exact ⟨t', by simpa [upd_ne _ _ e] using ht'⟩

/-- the holder appends records (its new control state is still mid-update) -/
theorem inv0_append_step {g : G} {t : Tid} {c' : PC} {l : List Rec} {h' : List Ev} (hI : Inv0 g)
    (hcs : inCS (g.pc t) = true) (hcs' : inCS c' = true) (hmid' : mid c' = true)
    (hbat : isBat (g.pc t) = true → isBat c' = true)
    (hlog : LogFacts (g.log ++ l) c')
    (hheld : HeldFacts (g.log ++ l) g.idx g.bstart c') :
    Inv0 { g with log := g.log ++ l, pc := upd g.pc t c', hist := h' } := by
  refine ⟨lock_keep hI (by rw [hcs, hcs']), ?_, hI.bidPos, ?_, ?_, ?_, ?_, ?_, hI.waitNodup⟩
  · intro k p h
    obtain ⟨v, b, hv⟩ := hI.idxOK k p h
    exact ⟨v, b, by
      show (g.log ++ l)[p]? = _
      rw [List.getElem?_append_left (lt_of_getElem?_eq_some hv)]; exact hv⟩
  · exact forall_upd (Q := LogFacts (g.log ++ l)) (fun t' => logFacts_append l (hI.logF t')) hlog
  · intro t'
    by_cases e : t' = t
    · subst e; simpa using hheld
    · show HeldFacts _ _ _ (upd g.pc t c' t')
      rw [upd_ne _ _ e]
      exact heldFacts_of_not_inCS _ _ _ (not_inCS_of_ne hI hcs e)
  · intro h
    have := h t
    simp only [upd_same, hmid'] at this; cases this
  · intro hb
    obtain ⟨t', ht'⟩ := hI.bstartF hb
    by_cases e : t' = t
    · subst e; exact ⟨t', by simpa using hbat ht'⟩
    · exact ⟨t', by simpa [upd_ne _ _ e] using ht'⟩
  · exact waiters_keep c' hI (fun k p h => by rw [h] at hcs; cases hcs)

/-- the holder updates the index -/
theorem inv0_idx_step {g : G} {t : Tid} {c' : PC} {idx' : Key → Option Nat} {h' : List Ev}
    (hI : Inv0 g) (hcs : inCS (g.pc t) = true) (hcs' : inCS c' = true)
    (hidx : ∀ k p, idx' k = some p → ∃ v b, g.log[p]? = some (.put k v b))
    (hcons : mid c' = false → idx' = recovered g.log ∧ (replayAll g.log).pend = [])
    (hbat : isBat (g.pc t) = true → isBat c' = true)
    (hlog : LogFacts g.log c')
    (hheld : HeldFacts g.log idx' g.bstart c') :
    Inv0 { g with idx := idx', pc := upd g.pc t c', hist := h' } := by
  refine ⟨lock_keep hI (by rw [hcs, hcs']), hidx, hI.bidPos,
    forall_upd (Q := LogFacts g.log) hI.logF hlog, ?_, ?_, ?_, ?_, hI.waitNodup⟩
  · intro t'
    by_cases e : t' = t
    · subst e; simpa using hheld
    · show HeldFacts _ _ _ (upd g.pc t c' t')
      rw [upd_ne _ _ e]
      exact heldFacts_of_not_inCS _ _ _ (not_inCS_of_ne hI hcs e)
  · intro h
    apply hcons
    simpa using h t
  · intro hb
    obtain ⟨t', ht'⟩ := hI.bstartF hb
    by_cases e : t' = t
    · subst e; exact ⟨t', by simpa using hbat ht'⟩
    · exact ⟨t', by simpa [upd_ne _ _ e] using ht'⟩
  · exact waiters_keep c' hI (fun k p h => by rw [h] at hcs; cases hcs)

theorem retOf_some {c : PC} {r : Res} (h : retOf c = some r) :
    inCS c = false ∧ mid c = false ∧ isBat c = false ∧ ∀ k p, c ≠ .getFound k p := by
  cases c <;> (try (rename_i b; cases b)) <;> simp_all [retOf, inCS, mid, isBat]

theorem relOf_some {c c' : PC} (h : relOf c = some c') :
    inCS c = true ∧ inCS c' = false ∧ mid c = false ∧ isBat c = false ∧
    (∀ k p, c ≠ .getFound k p) ∧ (∀ log, LogFacts log c') ∧ ∀ log idx bs, HeldFacts log idx bs c' := by
  cases c <;> (try (rename_i b; cases b)) <;> simp only [relOf] at h <;> cases h <;>
    simp [inCS, mid, isBat, LogFacts, HeldFacts]

theorem recOf_tagged (b : Nat) (staged : List BOp) :
    ∀ r ∈ staged.map (recOf b), r.bid = b ∧ ∀ b', r ≠ .fin b' := by
  intro r hr
  simp only [List.mem_map] at hr
  obtain ⟨⟨k, ov⟩, _, rfl⟩ := hr
  cases ov <;> simp [recOf, Rec.bid]

theorem mem_todoOf {q : Nat} {staged : List BOp} {k : Key} {p : Nat}
    (h : (k, some p) ∈ todoOf q staged) : ∃ i v, staged[i]? = some (k, some v) ∧ p = q + i := by
  induction staged generalizing q with
  | nil => simp [todoOf] at h
  | cons x l ih =>
    simp only [todoOf, List.mem_cons] at h
    rcases h with h | h
    · obtain ⟨k', ov⟩ := x
      cases ov with
      | none => simp at h
      | some v =>
        simp only [Option.map_some, Prod.mk.injEq, Option.some.injEq] at h
        exact ⟨0, v, by simp [h.1], by omega⟩
    · obtain ⟨i, v, hi, hp⟩ := ih h
      exact ⟨i + 1, v, by simpa using hi, by omega⟩

theorem overlay_single (op : BOp) (m : Map) : overlay [op] m = updK m op.1 op.2 := by
  have := overlay_snoc [] op m (by simp [hasKey])
  have h0 : overlay [] m = m := rfl
  rw [h0] at this
  exact this

theorem applyOps_snoc (m : Map) (done : List BOp) (op : BOp) :
    applyOps m (done ++ [op]) = updK (applyOps m done) op.1 op.2 := by
  simp [applyOps, List.foldl_append]

/-- the effect of `flushStaged`'s append on the facts of the open batch (nothing staged any more,
the index updates pending) -/
theorem batchFacts_flush {log : List Rec} {idx : Key → Option Nat} {bs : Option Nat}
    {ops : List BOp} {b s : Nat} {staged rest : List BOp}
    (bf : BatchFacts log idx bs ops b s [] staged rest)
    (hidx : ∀ k p, idx k = some p → p < log.length) :
    BatchFacts (log ++ staged.map (recOf b)) idx bs ops b s (todoOf log.length staged) [] rest := by
  have htag := recOf_tagged b staged
  have hrec := recovered_append_tagged log (staged.map (recOf b)) b bf.bne htag
  have hdrop : (log ++ staged.map (recOf b)).drop s = log.drop s ++ staged.map (recOf b) :=
    List.drop_append_of_le_length bf.sle
  have henum : enumPos s (log.drop s ++ staged.map (recOf b)) =
      enumPos s (log.drop s) ++ enumPos log.length (staged.map (recOf b)) := by
    rw [enumPos_append, List.length_drop, show s + (log.length - s) = log.length from by
      have := bf.sle; omega]
  have hfull : applyTodo (todoOf log.length staged) idx =
      applyPend (recovered log) (enumPos s (log.drop s) ++ enumPos log.length (staged.map (recOf b))) := by
    rw [applyPend_append, ← bf.full, applyTodo_eq_applyPend b]; rfl
  have hpos : ∀ i x, staged[i]? = some x →
      (log ++ staged.map (recOf b))[log.length + i]? = some (recOf b x) := by
    intro i x hx
    rw [List.getElem?_append_right (by omega)]
    simp [hx]
  refine ⟨bf.bs, bf.bne, by simp only [List.length_append]; have := bf.sle; omega, ?_, ?_, ?_, ?_,
    List.nodup_nil, ?_⟩
  · rw [hrec.2, bf.pend, hdrop, henum]
  · rw [hdrop]
    intro r hr
    rcases List.mem_append.1 hr with h | h
    · exact bf.tagged r h
    · exact htag r h
  · rw [hrec.1, hdrop, henum]; exact hfull
  · obtain ⟨done, hd, hs⟩ := bf.seq
    refine ⟨done, hd, ?_⟩
    rw [hrec.1, view_append _ _ (recovered log) (fun k p h => recovered_lt h), ← hs]
    have : overlay [] (view (log ++ staged.map (recOf b)) (applyTodo (todoOf log.length staged) idx)) =
        view (log ++ staged.map (recOf b)) (applyTodo (todoOf log.length staged) idx) := rfl
    rw [this, view_flush b staged bf.nodup _ _ hpos, view_append _ _ idx hidx]
    rfl
  · intro k p h
    obtain ⟨i, v, hi, hp⟩ := mem_todoOf h
    exact ⟨v, by rw [hp, hpos i _ hi]; rfl⟩

/-- `addPendingRecord` after an early flush -/
theorem batchFacts_single {log : List Rec} {idx : Key → Option Nat} {bs : Option Nat}
    {ops : List BOp} {b s : Nat} {todo : List (Key × Option Nat)} {op : BOp} {rest : List BOp}
    (bf : BatchFacts log idx bs ops b s todo [] (op :: rest)) :
    BatchFacts log idx bs ops b s todo [op] rest := by
  refine ⟨bf.bs, bf.bne, bf.sle, bf.pend, bf.tagged, bf.full, ?_, by simp [KeysNodup], bf.todoOK⟩
  obtain ⟨done, hd, hs⟩ := bf.seq
  refine ⟨done ++ [op], by simp [← hd], ?_⟩
  rw [overlay_single, applyOps_snoc, ← hs]; rfl

theorem pend_tagged {log : List Rec} {idx : Key → Option Nat} {bs : Option Nat}
    {ops : List BOp} {b s : Nat} {todo : List (Key × Option Nat)} {staged rest : List BOp}
    (bf : BatchFacts log idx bs ops b s todo staged rest) :
    ∀ x ∈ (replayAll log).pend, x.2.bid = b := by
  intro x hx
  rw [bf.pend] at hx
  exact (bf.tagged _ (mem_enumPos hx).1).1

/-- `Inv0` is preserved by every step of every thread, whatever the shape. -/
theorem step_inv0 {sh : Shape} {g g' : G} (hI : Inv0 g) (hs : Step sh g g') : Inv0 g' := by
  cases hs with
  | call t op hpc =>
    exact inv0_pc_step (w' := g.writer) (nb := g.nextBid) (ws' := g.waiters) hI
      (lock_keep hI (by rw [hpc]; cases op <;> rfl)) hI.bidPos
      (by cases op <;> trivial) (by cases op <;> trivial) (fun _ => by rw [hpc]; rfl)
      (by rw [hpc]; intro h; cases h)
      (waiters_keep _ hI (by rw [hpc]; intro k p h; cases h)) hI.waitNodup
  | ret t r hr =>
    obtain ⟨h1, h2, h3, h4⟩ := retOf_some hr
    exact inv0_pc_step (w' := g.writer) (nb := g.nextBid) (ws' := g.waiters) hI
      (lock_keep hI (by rw [h1]; rfl)) hI.bidPos trivial trivial (fun _ => h2)
      (by rw [h3]; intro h; cases h) (waiters_keep _ hI h4) hI.waitNodup
  | rel t c' hr =>
    obtain ⟨h1, h2, h3, h4, h5, h6, h7⟩ := relOf_some hr
    exact inv0_pc_step (nb := g.nextBid) (ws' := g.waiters) (h' := g.hist) hI
      (lock_rel hI h1 h2) hI.bidPos (h6 _) (h7 _ _ _) (fun _ => h3)
      (by rw [h4]; intro h; cases h) (waiters_keep _ hI h5) hI.waitNodup
  | putAcq t k v hpc hw =>
    exact inv0_pc_step (nb := g.nextBid) (ws' := g.waiters) (h' := g.hist) hI
      (lock_acq hI hw rfl) hI.bidPos trivial trivial (fun _ => by rw [hpc]; rfl)
      (by rw [hpc]; intro h; cases h)
      (waiters_keep _ hI (by rw [hpc]; intro k p h; cases h)) hI.waitNodup
  | delAcq t k hpc hw =>
    exact inv0_pc_step (nb := g.nextBid) (ws' := g.waiters) (h' := g.hist) hI
      (lock_acq hI hw rfl) hI.bidPos trivial trivial (fun _ => by rw [hpc]; rfl)
      (by rw [hpc]; intro h; cases h)
      (waiters_keep _ hI (by rw [hpc]; intro k p h; cases h)) hI.waitNodup
  | putAppend t k v hpc =>
    have hcs : inCS (g.pc t) = true := by rw [hpc]; rfl
    have hc := hI.consistent (no_mid_of_holder hI hcs (by rw [hpc]; rfl))
    exact inv0_append_step (h' := g.hist) hI hcs rfl rfl (by rw [hpc]; intro h; cases h)
      (by simp [LogFacts]) ⟨g.log, rfl, rfl, hc.1, hc.2⟩
  | putIndex t k v p hpc =>
    have hcs : inCS (g.pc t) = true := by rw [hpc]; rfl
    have hl := hI.logF t
    have hh := hI.heldF t
    rw [hpc] at hl hh
    obtain ⟨l, h1, h2, h3, h4⟩ := hh
    refine inv0_idx_step hI hcs rfl ?_ ?_ (by rw [hpc]; intro h; cases h) trivial trivial
    · intro k' p' h
      by_cases e : k' = k
      · subst e; rw [updK_same] at h; cases h; exact ⟨v, 0, hl⟩
      · rw [updK_ne _ _ e] at h; exact hI.idxOK k' p' h
    · intro _
      rw [h1]
      simp only [recovered]
      rw [replayAll_snoc, replayRec_plain _ _ _ rfl, h3, h2]
      exact ⟨rfl, h4⟩
  | delCheckMiss t k hpc hk =>
    exact inv0_pc_step (w' := g.writer) (nb := g.nextBid) (ws' := g.waiters) hI
      (lock_keep hI (by rw [hpc]; rfl)) hI.bidPos trivial trivial (fun _ => by rw [hpc]; rfl)
      (by rw [hpc]; intro h; cases h)
      (waiters_keep _ hI (by rw [hpc]; intro k p h; cases h)) hI.waitNodup
  | delCheckHit t k p hpc hk =>
    exact inv0_pc_step (w' := g.writer) (nb := g.nextBid) (ws' := g.waiters) (h' := g.hist) hI
      (lock_keep hI (by rw [hpc]; rfl)) hI.bidPos trivial (by simp [HeldFacts, hk])
      (fun _ => by rw [hpc]; rfl) (by rw [hpc]; intro h; cases h)
      (waiters_keep _ hI (by rw [hpc]; intro k p h; cases h)) hI.waitNodup
  | delAppend t k hpc =>
    have hcs : inCS (g.pc t) = true := by rw [hpc]; rfl
    have hc := hI.consistent (no_mid_of_holder hI hcs (by rw [hpc]; rfl))
    have hh := hI.heldF t
    rw [hpc] at hh
    exact inv0_append_step (h' := g.hist) hI hcs rfl rfl (by rw [hpc]; intro h; cases h)
      trivial ⟨g.log, rfl, hc.1, hc.2, hh⟩
  | delIndex t k hpc =>
    have hcs : inCS (g.pc t) = true := by rw [hpc]; rfl
    have hh := hI.heldF t
    rw [hpc] at hh
    obtain ⟨l, h1, h3, h4, _⟩ := hh
    refine inv0_idx_step hI hcs rfl ?_ ?_ (by rw [hpc]; intro h; cases h) trivial trivial
    · intro k' p' h
      by_cases e : k' = k
      · subst e; rw [updK_same] at h; cases h
      · rw [updK_ne _ _ e] at h; exact hI.idxOK k' p' h
    · intro _
      rw [h1]
      simp only [recovered]
      rw [replayAll_snoc, replayRec_plain _ _ _ rfl, h3]
      exact ⟨rfl, h4⟩
  | getIdxMiss t k hpc hg hk =>
    exact inv0_pc_step (w' := g.writer) (nb := g.nextBid) (ws' := g.waiters) hI
      (lock_keep hI (by rw [hpc]; rfl)) hI.bidPos trivial trivial (fun _ => by rw [hpc]; rfl)
      (by rw [hpc]; intro h; cases h)
      (waiters_keep _ hI (by rw [hpc]; intro k p h; cases h)) hI.waitNodup
  | getIdxHit t k p hpc hg hk ho =>
    exact inv0_pc_step (w' := g.writer) (nb := g.nextBid) (ws' := g.waiters) hI
      (lock_keep hI (by rw [hpc]; rfl)) hI.bidPos (idx_lt hI hk) trivial (fun _ => by rw [hpc]; rfl)
      (by rw [hpc]; intro h; cases h)
      (waiters_keep _ hI (by rw [hpc]; intro k p h; cases h)) hI.waitNodup
  | getIdxWait t k p hpc hg hk ho =>
    refine inv0_pc_step (w' := g.writer) (nb := g.nextBid) (h' := g.hist) hI
      (lock_keep hI (by rw [hpc]; rfl)) hI.bidPos (idx_lt hI hk) trivial (fun _ => by rw [hpc]; rfl)
      (by rw [hpc]; intro h; cases h) ?_ ?_
    · intro w hw
      rcases List.mem_cons.1 hw with h | h
      · subst h; exact ⟨by simp, ho⟩
      · exact waiters_keep _ hI (by rw [hpc]; intro k p h; cases h) w h
    · simp only [List.map_cons, List.nodup_cons]
      refine ⟨?_, hI.waitNodup⟩
      intro hm
      obtain ⟨w, hw, he⟩ := List.mem_map.1 hm
      have := (hI.waitF w hw).1
      rw [he, hpc] at this; cases this
  | getResolve t k p hpc hw =>
    have hwn := waiters_nil_of_bstart_none hI (bstart_none_of_free hI hw)
    exact inv0_pc_step (w' := g.writer) (nb := g.nextBid) (ws' := g.waiters) (h' := g.hist) hI
      (lock_keep hI (by rw [hpc]; rfl)) hI.bidPos trivial trivial (fun _ => by rw [hpc]; rfl)
      (by rw [hpc]; intro h; cases h)
      (by rw [hwn]; intro w h; cases h) hI.waitNodup
  | batAcq t ops hpc hw =>
    have hc := hI.consistent (no_mid_of_free hI hw)
    have hwn := waiters_nil_of_bstart_none hI (bstart_none_of_free hI hw)
    refine ⟨lock_acq hI hw rfl, hI.idxOK, Nat.succ_pos _,
      forall_upd (Q := LogFacts g.log) hI.logF trivial, ?_, ?_, ?_, ?_, hI.waitNodup⟩
    · intro t'
      by_cases e : t' = t
      · subst e
        show HeldFacts _ _ _ (upd g.pc t' _ t')
        rw [upd_same]
        refine ⟨⟨rfl, Nat.pos_iff_ne_zero.1 hI.bidPos, Nat.le_refl _, ?_, ?_, ?_, ⟨[], rfl, ?_⟩,
          List.nodup_nil, ?_⟩, ?_⟩
        · rw [hc.2, List.drop_length]; rfl
        · rw [List.drop_length]; intro r hr; cases hr
        · rw [List.drop_length]; exact hc.1
        · show view g.log g.idx = view g.log (recovered g.log)
          rw [← hc.1]
        · intro k p h; cases h
        · rw [List.drop_length]; intro h; exact absurd rfl h
      · show HeldFacts _ _ _ (upd g.pc t _ t')
        rw [upd_ne _ _ e]
        exact heldFacts_of_not_inCS _ _ _ (not_inCS_of_free hI hw t')
    · intro h
      have := h t
      simp [mid] at this
    · intro _; exact ⟨t, by simp [isBat]⟩
    · show ∀ w ∈ g.waiters, _
      rw [hwn]; intro w h; cases h
  | batStage t ops b s staged op rest hpc =>
    have hh := hI.heldF t
    rw [hpc] at hh
    obtain ⟨bf, hne⟩ := hh
    refine inv0_pc_step (w' := g.writer) (nb := g.nextBid) (ws' := g.waiters) (h' := g.hist) hI
      (lock_keep hI (by rw [hpc]; rfl)) hI.bidPos trivial ?_ (fun h => by cases h)
      (fun _ => rfl) (waiters_keep _ hI (by rw [hpc]; intro k p h; cases h)) hI.waitNodup
    refine ⟨⟨bf.bs, bf.bne, bf.sle, bf.pend, bf.tagged, bf.full, ?_, keysNodup_stage _ _ bf.nodup,
      bf.todoOK⟩, fun h => stage_ne_nil _ _ (hne h)⟩
    obtain ⟨done, hd, hs⟩ := bf.seq
    refine ⟨done ++ [op], by simp [← hd], ?_⟩
    rw [applyOps_snoc, ← hs]
    exact overlay_stage staged op g.idx g.log
  | batFlushEarly t ops b s staged op rest hpc hmf =>
    have hcs : inCS (g.pc t) = true := by rw [hpc]; rfl
    have hh := hI.heldF t
    rw [hpc] at hh
    exact inv0_append_step hI hcs rfl rfl (fun _ => rfl) trivial
      (batchFacts_single (batchFacts_flush hh.1 (fun k p h => idx_lt hI h)))
  | batIndex t ops b s k po todo next hpc =>
    have hcs : inCS (g.pc t) = true := by rw [hpc]; rfl
    have bf := hI.heldF t
    rw [hpc] at bf
    refine inv0_idx_step (h' := g.hist) hI hcs rfl ?_ (fun h => by cases h) (fun _ => rfl) trivial ?_
    · intro k' p' h
      by_cases e : k' = k
      · subst e; rw [updK_same] at h; subst h
        obtain ⟨v, hv⟩ := bf.todoOK k' p' List.mem_cons_self
        exact ⟨v, b, hv⟩
      · rw [updK_ne _ _ e] at h; exact hI.idxOK k' p' h
    · exact ⟨bf.bs, bf.bne, bf.sle, bf.pend, bf.tagged, bf.full, bf.seq, bf.nodup,
        fun k' p' h => bf.todoOK k' p' (List.mem_cons_of_mem _ h)⟩
  | batResume t ops b s op rest hpc =>
    have bf := hI.heldF t
    rw [hpc] at bf
    exact inv0_pc_step (w' := g.writer) (nb := g.nextBid) (ws' := g.waiters) (h' := g.hist) hI
      (lock_keep hI (by rw [hpc]; rfl)) hI.bidPos trivial ⟨bf, fun _ => by simp⟩ (fun h => by cases h)
      (fun _ => rfl) (waiters_keep _ hI (by rw [hpc]; intro k p h; cases h)) hI.waitNodup
  | batCommitEmpty t ops b s hpc =>
    have hcs : inCS (g.pc t) = true := by rw [hpc]; rfl
    have hh := hI.heldF t
    rw [hpc] at hh
    obtain ⟨bf, hne⟩ := hh
    have hd : g.log.drop s = [] := by
      cases h : g.log.drop s with
      | nil => rfl
      | cons x l => exact absurd rfl (hne (by rw [h]; simp))
    refine ⟨lock_keep hI (by rw [hcs]; rfl), hI.idxOK, hI.bidPos,
      forall_upd (Q := LogFacts g.log) hI.logF trivial, ?_, ?_, fun h => absurd rfl h,
      fun w h => (by cases h), List.nodup_nil⟩
    · intro t'
      by_cases e : t' = t
      · subst e
        show HeldFacts _ _ _ (upd g.pc t' _ t')
        rw [upd_same]; trivial
      · show HeldFacts _ _ _ (upd g.pc t _ t')
        rw [upd_ne _ _ e]
        exact heldFacts_of_not_inCS _ _ _ (not_inCS_of_ne hI hcs e)
    · intro _
      have h1 := bf.full
      have h2 := bf.pend
      rw [hd] at h1 h2
      exact ⟨h1, h2⟩
  | batCommitFlush t ops b s staged hpc hne =>
    have hcs : inCS (g.pc t) = true := by rw [hpc]; rfl
    have hh := hI.heldF t
    rw [hpc] at hh
    exact inv0_append_step hI hcs rfl rfl (fun _ => rfl) trivial
      (batchFacts_flush hh.1 (fun k p h => idx_lt hI h))
  | batSeal t ops b s hpc =>
    have hcs : inCS (g.pc t) = true := by rw [hpc]; rfl
    have bf := hI.heldF t
    rw [hpc] at bf
    refine ⟨lock_keep hI (by rw [hcs]; rfl), ?_, hI.bidPos, ?_, ?_, ?_, fun h => absurd rfl h,
      fun w h => (by cases h), List.nodup_nil⟩
    · intro k p h
      obtain ⟨v, b', hv⟩ := hI.idxOK k p h
      exact ⟨v, b', by
        show (g.log ++ [Rec.fin b])[p]? = _
        rw [List.getElem?_append_left (lt_of_getElem?_eq_some hv)]; exact hv⟩
    · exact forall_upd (Q := LogFacts (g.log ++ [Rec.fin b]))
        (fun t' => logFacts_append _ (hI.logF t')) trivial
    · intro t'
      by_cases e : t' = t
      · subst e
        show HeldFacts _ _ _ (upd g.pc t' _ t')
        rw [upd_same]; trivial
      · show HeldFacts _ _ _ (upd g.pc t _ t')
        rw [upd_ne _ _ e]
        exact heldFacts_of_not_inCS _ _ _ (not_inCS_of_ne hI hcs e)
    · intro _
      show g.idx = recovered (g.log ++ [Rec.fin b]) ∧ (replayAll (g.log ++ [Rec.fin b])).pend = []
      simp only [recovered]
      rw [replayAll_seal g.log b bf.bne (pend_tagged bf), bf.pend, ← bf.full]
      exact ⟨rfl, rfl⟩

theorem reachable_inv0 {sh : Shape} {g : G} (h : Reachable sh g) : Inv0 g := by
  induction h with
  | init => exact init_inv0
  | step _ hs ih => exact step_inv0 ih hs

end XixiKV.ConcBatch
