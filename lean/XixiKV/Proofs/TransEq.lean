import XixiKV.Proofs.TransEqBase
import XixiKV.Proofs.TransEqSize
import XixiKV.Proofs.TransEqNpot
import XixiKV.Proofs.TransEqRemap
import XixiKV.Proofs.TransEqWrite
import XixiKV.Proofs.TransEqChunk
/-!
# The mechanically translated Go functions equal the hand-written model

`XixiKV/Generated/Trans.lean` is regenerated from the Go sources on every run by
`harness/cmd/trans` (a generic go/ast → Lean translator for a documented Go subset, with machine
integer semantics: `int`/`int64` ↦ `Int` wrapped to 64 bits by `i64`, `uintN` ↦ `Nat` with explicit
`% 2^N`).  This file proves, for every whitelisted function, that the generated definition equals
the model function on the stated range:

| Go function                              | generated definition            | model                         | theorem |
|------------------------------------------|---------------------------------|-------------------------------|---------|
| `datafile.GetLogRecordDiskSize`          | `datafile.GetLogRecordDiskSize` | `Record.diskSizeEstimate`     | `trans_GetLogRecordDiskSize_eq` |
| `index.nextPowerOfTwo`                   | `index.nextPowerOfTwo`          | `Index.nextPowerOfTwo`        | `trans_nextPowerOfTwo_eq` |
| `fio.(*MMap).remap` (size arithmetic)    | `fio.remap_endOff`, `fio.remap_covered` | `Fio.roundUp`, guard of `Fio.MMap.remap` | `trans_remap_endOff_eq`, `trans_remap_covered_iff` |
| `datafile.(*DataFile).writeToBuf`        | `datafile.writeToBuf`           | `Frame.geom`, `Frame.writeRec` (`posOf`, `appendRec`) | `trans_writeToBuf_eq`, `trans_writeToBuf_appendRec` |
| `datafile.DecodeChunk`                   | `datafile.DecodeChunk`          | `Chunk.dec`                   | `trans_DecodeChunk_eq` |

A change of the Go source changes the generated definition; the proofs below are written with
`simp`/`omega` over the *semantics* of the generated code (they never mention its local variable
names except in the loop invariant of `writeToBuf`), so a behaviour-preserving rewrite usually still
checks, and a behaviour-changing edit breaks the build.
-/
