import XixiKV.Model.Batch
import XixiKV.Proofs.Frame
import XixiKV.Proofs.Record
/-!
# Ghost state and the engine invariant (definitions only)

The executable model (`Model/Engine.lean`, `Model/Batch.lean`) works on bytes.  The proofs describe
every data file by the list of records that were appended to it (its *ghost* content) and relate
the in-memory index and the counters to the replay of that log — `replayLog` is literally the fold
of `replayRec`, i.e. what `loadIndexFromDataFiles` computes at the next restart.
-/
namespace XixiKV.Engine
open XixiKV.Frame XixiKV.Record XixiKV.Index

/-- ghost content of one data file: the records appended to it, in order -/
abbrev GFile := List Record

def payloads (g : GFile) : List ByteArray := g.map encodeRecord

/-- the bytes of a file that received exactly these records -/
def bytesOf (g : GFile) : ByteArray := appendAll C ByteArray.empty (payloads g)

/-- the positions the writer reported for them -/
def possOf (fid : Nat) (g : GFile) : List Pos := posAll C fid ByteArray.empty (payloads g)

/-- ghost content of a directory: file id ↦ records, ascending ids -/
abbrev GDir := List (Nat × GFile)

/-- the directory's data files are exactly the ghost files, byte for byte -/
def Matches : List (Nat × FileSt) → GDir → Prop
  | [], [] => True
  | x :: data, y :: g => x.1 = y.1 ∧ x.2.bytes = bytesOf y.2 ∧ Matches data g
  | _, _ => False

/-- the whole log in replay order (ascending file id, append order inside a file), each record with
    the position the writer reported for it -/
def logOf (g : GDir) : List (Record × Pos) :=
  g.flatMap (fun (x : Nat × GFile) => x.2.zip (possOf x.1 x.2))

def Replay.init : Replay := { index := [], reclaim := 0, total := 0, pending := [] }

/-- what a restart computes from the log (`loadIndexFromDataFiles`, scan path) -/
def replayLog (l : List (Record × Pos)) : Replay := l.foldl (fun r x => replayRec r x.1 x.2) Replay.init

/-- size side conditions under which the Go code's own buffers suffice (lengths are `int`/`uint32`
    there) and the codec round-trips -/
def RecOK (r : Record) : Prop :=
  r.typ < 3 ∧ 0 < r.key.size ∧ r.key.size < 2 ^ 31 ∧ r.value.size < 2 ^ 31 ∧ r.batch < 2 ^ 64

/-- bytes occupied by the records the index points at -/
def liveBytes (ix : Index) : Nat := (ix.map (fun x => x.2.size)).sum

/-- keys strictly ascending (hence distinct) -/
def SortedKeys (ix : Index) : Prop := List.Pairwise (fun (a b : Key × Pos) => keyLt a.1 b.1 = true) ix

def AscIds (g : GDir) : Prop := List.Pairwise (fun (a b : Nat × GFile) => a.1 < b.1) g

/-- **The engine invariant** of an open database without an open batch, relative to the ghost
    directory `g`. -/
structure Inv (s : St) (db : DB) (g : GDir) : Prop where
  /-- the data directory exists, is locked by this handle, and its files are the ghost files -/
  dir : ∃ d, s.world.get db.dir = some d ∧ d.locked = true ∧ Matches d.data g
  /-- file ids ascend, the active file is the last one -/
  asc : AscIds g
  active : (g.getLast?).map (·.1) = some db.activeId
  /-- every record ever appended satisfies the size side conditions -/
  recs : ∀ x ∈ g, ∀ r ∈ x.2, RecOK r
  /-- the index is the replay of the log (what the next restart rebuilds) -/
  index : db.index = (replayLog (logOf g)).index
  sorted : SortedKeys db.index
  /-- Stat accounting (C17): total − reclaimable = bytes of the live records -/
  counters : db.total = db.reclaim + liveBytes db.index
  /-- no batch is open -/
  nobatch : db.batch = none

/-- the abstract mapping an open database denotes: key ↦ value, read through the index -/
def absGet (s : St) (db : DB) (k : ByteArray) : Option ByteArray :=
  match Index.get db.index k with
  | none => none
  | some p =>
    match valueAt s db p with
    | .val v => some v
    | _ => none

end XixiKV.Engine
