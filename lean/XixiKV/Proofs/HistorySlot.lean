import XixiKV.Proofs.EnginePolicy
/-!
# Histories, part 3: the batch slot of the handle is never consulted by the plain operations

After `Commit` the Go `Batch` object is dead but may still be in the caller's hands (every further
call through it answers `ErrBatchCommitted`); the model keeps it in `DB.batch` until `bdrop`.
`Put / Get / Delete / Sync / Merge / Close` never look at that field: each of them *commutes* with
`setB ob` (overwrite the slot by `ob`), exactly as they commute with `retag` in
`Proofs/EnginePolicy.lean`.  Hence everything proved for handles with an empty slot (`Inv … nobatch`)
transfers to handles carrying a dead batch.
-/
namespace XixiKV.Engine.HistP
open XixiKV XixiKV.Frame XixiKV.Record XixiKV.Index XixiKV.Engine XixiKV.Engine.BatchP XixiKV.Engine.PolicyP

def setBDB (ob : Option BatchSt) (db : DB) : DB := { db with batch := ob }
def setB (ob : Option BatchSt) (s : St) : St := { s with db := s.db.map (setBDB ob) }

@[simp] theorem setB_world (ob : Option BatchSt) (s : St) : (setB ob s).world = s.world := rfl
@[simp] theorem setBDB_dir (ob : Option BatchSt) (db : DB) : (setBDB ob db).dir = db.dir := rfl
@[simp] theorem setBDB_activeId (ob : Option BatchSt) (db : DB) : (setBDB ob db).activeId = db.activeId := rfl
@[simp] theorem setBDB_index (ob : Option BatchSt) (db : DB) : (setBDB ob db).index = db.index := rfl
@[simp] theorem setBDB_cfg (ob : Option BatchSt) (db : DB) : (setBDB ob db).cfg = db.cfg := rfl
@[simp] theorem setBDB_bytesWrite (ob : Option BatchSt) (db : DB) : (setBDB ob db).bytesWrite = db.bytesWrite := rfl
@[simp] theorem setBDB_total (ob : Option BatchSt) (db : DB) : (setBDB ob db).total = db.total := rfl
@[simp] theorem setBDB_reclaim (ob : Option BatchSt) (db : DB) : (setBDB ob db).reclaim = db.reclaim := rfl
@[simp] theorem setBDB_batch (ob : Option BatchSt) (db : DB) : (setBDB ob db).batch = ob := rfl

theorem setB_db {s : St} {db : DB} (h : s.db = some db) (ob : Option BatchSt) : (setB ob s).db = some (setBDB ob db) := by
  simp only [setB, h, Option.map_some]

theorem setBDB_setBDB (ob ob' : Option BatchSt) (db : DB) : setBDB ob (setBDB ob' db) = setBDB ob db := rfl

theorem setBDB_self (db : DB) : setBDB db.batch db = db := rfl

theorem setBDB_of_eq {db : DB} {ob : Option BatchSt} (h : db.batch = ob) : setBDB ob db = db := by
  subst h; rfl

theorem setB_setB (ob ob' : Option BatchSt) (s : St) : setB ob (setB ob' s) = setB ob s := by
  obtain ⟨w, d⟩ := s
  cases d <;> rfl

/-- a state is its normal form (empty slot) with the slot put back -/
theorem setB_restore {s : St} {db : DB} (h : s.db = some db) : setB db.batch (setB none s) = s := by
  obtain ⟨w, d⟩ := s
  simp only at h
  subst h
  rfl

/-! ## building blocks -/

theorem dirOf_setB (ob : Option BatchSt) (s : St) (db : DB) : dirOf (setB ob s) (setBDB ob db) = dirOf s db := rfl
theorem dirOf_setB' (ob : Option BatchSt) (s : St) (db : DB) : dirOf (setB ob s) db = dirOf s db := rfl
theorem activeFile_setB (ob : Option BatchSt) (s : St) (db : DB) :
    activeFile (setB ob s) (setBDB ob db) = activeFile s db := rfl
theorem activeFile_setB' (ob : Option BatchSt) (s : St) (db : DB) : activeFile (setB ob s) db = activeFile s db := rfl
theorem putFile_setB (ob : Option BatchSt) (s : St) (db : DB) (id : Nat) (f : FileSt) :
    putFile (setB ob s) (setBDB ob db) id f = setB ob (putFile s db id f) := rfl
theorem putFile_setB' (ob : Option BatchSt) (s : St) (db : DB) (id : Nat) (f : FileSt) :
    putFile (setB ob s) db id f = setB ob (putFile s db id f) := rfl
theorem rotate_setB (ob : Option BatchSt) (s : St) (db : DB) :
    rotate (setB ob s) (setBDB ob db) = (setB ob (rotate s db).1, setBDB ob (rotate s db).2) := rfl
theorem rotate_setB' (ob : Option BatchSt) (s : St) (db : DB) :
    rotate (setB ob s) db = (setB ob (rotate s db).1, (rotate s db).2) := rfl
theorem valueAt_setB (ob : Option BatchSt) (s : St) (db : DB) (p : Pos) :
    valueAt (setB ob s) (setBDB ob db) p = valueAt s db p := rfl
theorem absGet_setB (ob : Option BatchSt) (s : St) (db : DB) (k : ByteArray) :
    absGet (setB ob s) (setBDB ob db) k = absGet s db k := rfl

theorem appendTail_setB (ob : Option BatchSt) (s : St) (db : DB) (r : Record) :
    appendTail (setB ob s) (setBDB ob db) r
      = (setB ob (appendTail s db r).1, setBDB ob (appendTail s db r).2.1, (appendTail s db r).2.2) := by
  unfold appendTail
  simp only [activeFile_setB, setBDB_cfg, setBDB_bytesWrite, setBDB_activeId]
  by_cases h : (db.cfg.sync = 1 ∨ db.cfg.sync = 2 ∧
      db.bytesWrite + (posOf C db.activeId (activeFile s db).bytes.size (encodeRecord r)).size ≥ db.cfg.bps)
  · simp only [h, if_true]
    rfl
  · simp only [h, if_false]
    rfl

theorem appendTail_setB' (ob : Option BatchSt) (s : St) (db : DB) (r : Record) :
    appendTail (setB ob s) db r = (setB ob (appendTail s db r).1, (appendTail s db r).2) := by
  unfold appendTail
  simp only [activeFile_setB']
  by_cases h : (db.cfg.sync = 1 ∨ db.cfg.sync = 2 ∧
      db.bytesWrite + (posOf C db.activeId (activeFile s db).bytes.size (encodeRecord r)).size ≥ db.cfg.bps)
  · simp only [h, if_true]
    rfl
  · simp only [h, if_false]
    rfl

theorem appendLog_setB (ob : Option BatchSt) (s : St) (db : DB) (r : Record) :
    appendLog (setB ob s) (setBDB ob db) r
      = (setB ob (appendLog s db r).1, setBDB ob (appendLog s db r).2.1, (appendLog s db r).2.2) := by
  rw [appendLog_eq, appendLog_eq, activeFile_setB]
  show (if (activeFile s db).bytes.size + diskSizeEstimate r.key.size r.value.size > db.cfg.fileSize then _ else _) = _
  split
  · rw [rotate_setB]; exact appendTail_setB ob _ _ r
  · exact appendTail_setB ob s db r

theorem appendLog_setB' (ob : Option BatchSt) (s : St) (db : DB) (r : Record) :
    appendLog (setB ob s) db r = (setB ob (appendLog s db r).1, (appendLog s db r).2) := by
  rw [appendLog_eq, appendLog_eq, activeFile_setB']
  split
  · rw [rotate_setB']; exact appendTail_setB' ob _ _ r
  · exact appendTail_setB' ob s db r

/-! ## the plain operations commute with `setB` -/

theorem put_setB (ob : Option BatchSt) (s : St) (k v : ByteArray) :
    put (setB ob s) k v = (setB ob (put s k v).1, (put s k v).2) := by
  obtain ⟨w, d⟩ := s
  cases d with
  | none => rfl
  | some db =>
    by_cases hk : k.size = 0
    · rw [put_keyempty _ k v hk (db := setBDB ob db) rfl, put_keyempty _ k v hk (db := db) rfl]
    · rw [put_eq (db := setBDB ob db) rfl k v hk, put_eq (db := db) rfl k v hk]
      have := appendLog_setB ob ⟨w, some db⟩ db { typ := 0, key := k, value := v, batch := 0 }
      simp only [setB, Option.map_some] at this ⊢
      rw [this]
      rfl

theorem get_setB (ob : Option BatchSt) (s : St) (k : ByteArray) :
    get (setB ob s) k = (setB ob (get s k).1, (get s k).2) := by
  obtain ⟨w, d⟩ := s
  cases d with
  | none => rfl
  | some db =>
    unfold get withDB
    simp only [setB, Option.map_some, setBDB_index]
    split
    · rfl
    · split
      · rfl
      · rfl

theorem delete_setB (ob : Option BatchSt) (s : St) (k : ByteArray) :
    delete (setB ob s) k = (setB ob (delete s k).1, (delete s k).2) := by
  obtain ⟨w, d⟩ := s
  cases d with
  | none => rfl
  | some db =>
    by_cases hk : k.size = 0
    · rw [delete_keyempty _ k hk (db := setBDB ob db) rfl, delete_keyempty _ k hk (db := db) rfl]
    · cases hg : Index.get db.index k with
      | none =>
        rw [delete_eq_none (db := setBDB ob db) rfl k hk hg, delete_eq_none (db := db) rfl k hk hg]
      | some old =>
        rw [delete_eq_some (db := setBDB ob db) rfl k hk hg, delete_eq_some (db := db) rfl k hk hg]
        have := appendLog_setB ob ⟨w, some db⟩ db { typ := 1, key := k, value := ByteArray.empty, batch := 0 }
        simp only [setB, Option.map_some] at this ⊢
        rw [this]
        rfl

theorem syncDB_setB (ob : Option BatchSt) (s : St) : syncDB (setB ob s) = (setB ob (syncDB s).1, (syncDB s).2) := by
  obtain ⟨w, d⟩ := s
  cases d <;> rfl

theorem close_setB (ob : Option BatchSt) (s : St) : close (setB ob s) = close s := by
  obtain ⟨w, d⟩ := s
  cases d <;> rfl

theorem backup_setB (ob : Option BatchSt) (s : St) (dest : String) :
    backup (setB ob s) dest = (setB ob (backup s dest).1, (backup s dest).2) := by
  obtain ⟨w, d⟩ := s
  cases d <;> rfl

/-! ## `Merge` commutes with `setB` -/

def setSM (ob : Option BatchSt) (x : St × MergeSt) : St × MergeSt := (setB ob x.1, x.2)

theorem mergeRec_setB (ob : Option BatchSt) (s : St) (db : DB) (m : MergeSt) (nonMerge fileId : Nat)
    (payload : ByteArray) (pos : Pos) :
    mergeRec (setB ob s) (setBDB ob db) m nonMerge fileId payload pos
      = setSM ob (mergeRec s db m nonMerge fileId payload pos) := by
  unfold mergeRec
  simp only [setBDB_index]
  split
  · rfl
  · cases decodeRecord payload with
    | none => rfl
    | some rec =>
      simp only []
      cases Index.get db.index rec.key with
      | none => rfl
      | some p =>
        simp only []
        split
        · have hA := appendLog_setB' ob s m.mdb { typ := rec.typ, key := rec.key, value := rec.value, batch := 0 }
          simp only [hA]
          split <;> rfl
        · rfl

theorem mergeFile_setB (ob : Option BatchSt) (db : DB) (nonMerge : Nat) (acc : St × MergeSt) (id : Nat) :
    mergeFile (setBDB ob db) nonMerge (setSM ob acc) id = setSM ob (mergeFile db nonMerge acc id) := by
  obtain ⟨s, m⟩ := acc
  have hfold : ∀ (l : List (ByteArray × Pos)) (a : St × MergeSt),
      l.foldl (fun (acc : St × MergeSt) (x : ByteArray × Pos) =>
        mergeRec acc.1 (setBDB ob db) acc.2 nonMerge id x.1 x.2) (setSM ob a)
      = setSM ob (l.foldl (fun (acc : St × MergeSt) (x : ByteArray × Pos) =>
        mergeRec acc.1 db acc.2 nonMerge id x.1 x.2) a) := by
    intro l a
    exact List.foldl_hom (setSM ob) (fun x y => mergeRec_setB ob x.1 db x.2 nonMerge id y.1 y.2)
  by_cases h : m.failed.isSome = true
  · simp only [mergeFile, setSM, h, if_true]
  · simp only [mergeFile, setSM, h, dirOf_setB]
    cases getFile (dirOf s db).data id with
    | none => rfl
    | some f =>
      simp only []
      have := hfold (scan C false id f.bytes).recs (s, m)
      simp only [setSM] at this
      simp only [this]
      generalize (scan C false id f.bytes).recs.foldl (fun (acc : St × MergeSt) (x : ByteArray × Pos) =>
            mergeRec acc.1 db acc.2 nonMerge id x.1 x.2) (s, m) = R
      obtain ⟨s1, m1⟩ := R
      by_cases h2 : (!(scan C false id f.bytes).ok) = true ∧ m1.failed.isNone = true
      · simp only [h2, and_self, if_true]; rfl
      · simp only [h2, if_false]; rfl

theorem mergeInit_setB (ob : Option BatchSt) (s : St) (db : DB) :
    mergeInit (setB ob s) (setBDB ob db)
      = (setB ob (mergeInit s db).1, setBDB ob (mergeInit s db).2.1, (mergeInit s db).2.2) := rfl

theorem mergeIds_setB (ob : Option BatchSt) (s : St) (db : DB) (order : List Nat) :
    mergeIds (setB ob s) (setBDB ob db) order = mergeIds s db order := rfl

theorem mergeFinish_setB (ob : Option BatchSt) (n : Nat) (mname : String) (R : St × MergeSt) :
    mergeFinish n mname (setSM ob R) = (setB ob (mergeFinish n mname R).1, (mergeFinish n mname R).2) := by
  obtain ⟨s, m⟩ := R
  obtain ⟨mdb, hint, failed⟩ := m
  cases failed <;> rfl

theorem mergeBody_setB (ob : Option BatchSt) (s : St) (db : DB) (order : List Nat) :
    mergeBody (setB ob s) (setBDB ob db) order
      = (setB ob (mergeBody s db order).1, (mergeBody s db order).2) := by
  unfold mergeBody
  simp only [mergeInit_setB, mergeIds_setB, setBDB_activeId, setBDB_dir]
  rw [show (setB ob (mergeInit s db).1, (mergeInit s db).2.2)
        = setSM ob ((mergeInit s db).1, (mergeInit s db).2.2) from rfl,
    List.foldl_hom (setSM ob) (mergeFile_setB ob (mergeInit s db).2.1 (mergeInit s db).2.1.activeId)]
  exact mergeFinish_setB ob _ _ _

theorem merge_setB (ob : Option BatchSt) (s : St) (order : List Nat) :
    merge (setB ob s) order = (setB ob (merge s order).1, (merge s order).2) := by
  obtain ⟨w, d⟩ := s
  cases d with
  | none => rfl
  | some db => exact mergeBody_setB ob _ db order

/-! ## the invariant reads the world only -/

theorem Inv_world {s s' : St} {db : DB} {g : GDir} (h : Inv s db g) (hw : s'.world = s.world) : Inv s' db g :=
  ⟨by rw [hw]; exact h.dir, h.asc, h.active, h.recs, h.index, h.sorted, h.counters, h.nobatch⟩

theorem absGet_world {s s' : St} (hw : s'.world = s.world) (db : DB) (k : ByteArray) :
    absGet s' db k = absGet s db k := by
  unfold absGet valueAt dirOf
  rw [hw]

end XixiKV.Engine.HistP
