import XixiKV.Model.ConcMergeBatch
import XixiKV.Proofs.ConcBatchBasics
/-!
# The replay with parked batches, split into "what the first `n` records give" and "what the rest
changes"   (helpers for `Properties/C06Batch.lean`)

`grun fp fd D i s`: the replay of `ConcBatch.replayFrom`, generic in the value `β` a key is mapped
to (`fp p v`: a put of value `v` at position `p`; `fd`: a tombstone).  Instances: `delta` (`β =
Option (Option Nat)`, start "untouched": the CHANGE the records `D` make to whatever index the
replay of the log before them produced) and the same with values instead of positions.
-/
namespace XixiKV.ConcMergeBatch
open XixiKV.Conc (Tid Key Val upd updK Res updK_same updK_ne)
open XixiKV.ConcBatch

structure GS (β : Type) where
  m : Key → β
  /-- parked: batch id, key, value to assign -/
  pend : List (Nat × Key × β)

def applyG {β : Type} (m : Key → β) (l : List (Nat × Key × β)) : Key → β :=
  l.foldl (fun m x => updK m x.2.1 x.2.2) m

def gstep {β : Type} (fp : Nat → Val → β) (fd : β) (s : GS β) (p : Nat) : Rec → GS β
  | .put k v b => if b = 0 then ⟨updK s.m k (fp p v), s.pend⟩ else ⟨s.m, s.pend ++ [(b, k, fp p v)]⟩
  | .del k b => if b = 0 then ⟨updK s.m k fd, s.pend⟩ else ⟨s.m, s.pend ++ [(b, k, fd)]⟩
  | .fin b => if b = 0 then s
      else ⟨applyG s.m (s.pend.filter fun x => x.1 = b), s.pend.filter fun x => x.1 ≠ b⟩

def grun {β : Type} (fp : Nat → Val → β) (fd : β) : List Rec → Nat → GS β → GS β
  | [], _, s => s
  | r :: rest, i, s => grun fp fd rest (i + 1) (gstep fp fd s i r)

theorem grun_append {β : Type} (fp : Nat → Val → β) (fd : β) (l l' : List Rec) (i : Nat) (s : GS β) :
    grun fp fd (l ++ l') i s = grun fp fd l' (i + l.length) (grun fp fd l i s) := by
  induction l generalizing i s with
  | nil => rfl
  | cons r l ih =>
    simp only [List.cons_append, grun, ih, List.length_cons]
    rw [show i + 1 + l.length = i + (l.length + 1) by omega]

/-! ## a property of the assigned values is preserved -/

theorem applyG_pres {β : Type} (Q : β → Prop) (l : List (Nat × Key × β)) (hl : ∀ x ∈ l, Q x.2.2)
    (m : Key → β) (k : Key) (hm : Q (m k)) : Q (applyG m l k) := by
  induction l generalizing m with
  | nil => exact hm
  | cons x l ih =>
    simp only [applyG, List.foldl_cons]
    apply ih (fun y hy => hl y (List.mem_cons_of_mem _ hy))
    by_cases hk : k = x.2.1
    · rw [hk, updK_same]; exact hl x List.mem_cons_self
    · rw [updK_ne _ _ hk]; exact hm

theorem gstep_pres {β : Type} {fp : Nat → Val → β} {fd : β} (Q : β → Prop) (p : Nat)
    (hfp : ∀ v, Q (fp p v)) (hfd : Q fd) (s : GS β) (r : Rec) (hs : ∀ x ∈ s.pend, Q x.2.2) :
    (∀ x ∈ (gstep fp fd s p r).pend, Q x.2.2) ∧
    ∀ k, Q (s.m k) → Q ((gstep fp fd s p r).m k) := by
  cases r with
  | put k0 v b =>
    simp only [gstep]
    split
    · refine ⟨hs, fun k hk => ?_⟩
      show Q (updK s.m k0 (fp p v) k)
      by_cases hkk : k = k0
      · rw [hkk, updK_same]; exact hfp v
      · rw [updK_ne _ _ hkk]; exact hk
    · refine ⟨fun x hx => ?_, fun k hk => hk⟩
      rcases List.mem_append.1 hx with hx | hx
      · exact hs x hx
      · simp only [List.mem_singleton] at hx; subst hx; exact hfp v
  | del k0 b =>
    simp only [gstep]
    split
    · refine ⟨hs, fun k hk => ?_⟩
      show Q (updK s.m k0 fd k)
      by_cases hkk : k = k0
      · rw [hkk, updK_same]; exact hfd
      · rw [updK_ne _ _ hkk]; exact hk
    · refine ⟨fun x hx => ?_, fun k hk => hk⟩
      rcases List.mem_append.1 hx with hx | hx
      · exact hs x hx
      · simp only [List.mem_singleton] at hx; subst hx; exact hfd
  | fin b =>
    simp only [gstep]
    split
    · exact ⟨hs, fun k hk => hk⟩
    · refine ⟨fun x hx => hs x (List.mem_filter.1 hx).1, fun k hk => ?_⟩
      exact applyG_pres Q _ (fun x hx => hs x (List.mem_filter.1 hx).1) _ _ hk

theorem grun_pres {β : Type} {fp : Nat → Val → β} {fd : β} (Q : β → Prop) (i0 : Nat)
    (hfp : ∀ p v, i0 ≤ p → Q (fp p v)) (hfd : Q fd) (D : List Rec) (i : Nat) (s : GS β)
    (hi : i0 ≤ i) (hs : ∀ x ∈ s.pend, Q x.2.2) :
    (∀ x ∈ (grun fp fd D i s).pend, Q x.2.2) ∧ ∀ k, Q (s.m k) → Q ((grun fp fd D i s).m k) := by
  induction D generalizing i s with
  | nil => exact ⟨hs, fun _ h => h⟩
  | cons r D ih =>
    simp only [grun]
    have h1 := gstep_pres Q i (fun v => hfp i v hi) hfd s r hs
    have h2 := ih (i + 1) (gstep fp fd s i r) (by omega) h1.1
    exact ⟨h2.1, fun k hk => h2.2 k (h1.2 k hk)⟩

/-! ## homomorphisms between instances -/

def hmap {β γ : Type} (h : Key → β → γ) (s : GS β) : GS γ :=
  ⟨fun k => h k (s.m k), s.pend.map fun x => (x.1, x.2.1, h x.2.1 x.2.2)⟩

theorem applyG_hom {β γ : Type} (h : Key → β → γ) (l : List (Nat × Key × β)) (m : Key → β) :
    (fun k => h k (applyG m l k)) =
      applyG (fun k => h k (m k)) (l.map fun x => (x.1, x.2.1, h x.2.1 x.2.2)) := by
  induction l generalizing m with
  | nil => rfl
  | cons x l ih =>
    simp only [applyG, List.foldl_cons, List.map_cons] at ih ⊢
    rw [ih]
    congr 1
    funext k
    by_cases hk : k = x.2.1
    · rw [hk, updK_same, updK_same]
    · rw [updK_ne _ _ hk, updK_ne _ _ hk]

theorem filter_hmap {β γ : Type} (h : Key → β → γ) (l : List (Nat × Key × β)) (q : Nat → Bool) :
    (l.map fun x => (x.1, x.2.1, h x.2.1 x.2.2)).filter (fun x => q x.1) =
      (l.filter fun x => q x.1).map fun x => (x.1, x.2.1, h x.2.1 x.2.2) := by
  induction l with
  | nil => rfl
  | cons x l ih =>
    simp only [List.map_cons, List.filter_cons]
    split
    · rw [List.map_cons, ih]
    · exact ih

theorem gstep_hom {β γ : Type} {fp : Nat → Val → β} {fd : β} {fp' : Nat → Val → γ} {fd' : γ}
    (h : Key → β → γ) (hd : ∀ k, h k fd = fd') (s : GS β) (p p' : Nat) (r : Rec)
    (hp : ∀ k v b, r = .put k v b → h k (fp p v) = fp' p' v) :
    hmap h (gstep fp fd s p r) = gstep fp' fd' (hmap h s) p' r := by
  cases r with
  | put k0 v b =>
    have e := hp k0 v b rfl
    simp only [gstep]
    split
    · simp only [hmap, GS.mk.injEq, and_true]
      funext k
      by_cases hk : k = k0
      · rw [hk, updK_same, updK_same, e]
      · rw [updK_ne _ _ hk, updK_ne _ _ hk]
    · simp only [hmap, List.map_append, List.map_cons, List.map_nil, e]
  | del k0 b =>
    simp only [gstep]
    split
    · simp only [hmap, GS.mk.injEq, and_true]
      funext k
      by_cases hk : k = k0
      · rw [hk, updK_same, updK_same, hd]
      · rw [updK_ne _ _ hk, updK_ne _ _ hk]
    · simp only [hmap, List.map_append, List.map_cons, List.map_nil, hd]
  | fin b =>
    simp only [gstep]
    split
    · rfl
    · simp only [hmap, GS.mk.injEq]
      refine ⟨?_, ?_⟩
      · rw [applyG_hom]
        congr 1
        exact (filter_hmap h s.pend (fun a => decide (a = b))).symm
      · exact (filter_hmap h s.pend (fun a => decide (a ≠ b))).symm

theorem grun_hom {β γ : Type} {fp : Nat → Val → β} {fd : β} {fp' : Nat → Val → γ} {fd' : γ}
    (h : Key → β → γ) (hd : ∀ k, h k fd = fd') (D : List Rec) (i i' : Nat) (s : GS β)
    (hp : ∀ j k v b, D[j]? = some (.put k v b) → h k (fp (i + j) v) = fp' (i' + j) v) :
    hmap h (grun fp fd D i s) = grun fp' fd' D i' (hmap h s) := by
  induction D generalizing i i' s with
  | nil => rfl
  | cons r D ih =>
    simp only [grun]
    rw [ih (i + 1) (i' + 1)]
    · rw [gstep_hom h hd s i i' r]
      intro k v b hr
      have := hp 0 k v b (by rw [hr]; rfl)
      simpa using this
    · intro j k v b hj
      have := hp (j + 1) k v b (by simpa using hj)
      rw [show i + 1 + j = i + (j + 1) by omega, show i' + 1 + j = i' + (j + 1) by omega]
      exact this

end XixiKV.ConcMergeBatch
