import XixiKV.Generated.Trans
import XixiKV.Generated.Consts
import XixiKV.Model.Frame
import XixiKV.Model.Chunk
import XixiKV.Model.Record
import XixiKV.Model.Index
import XixiKV.Model.Fio
import XixiKV.Proofs.Bytes
import XixiKV.Proofs.Frame
import XixiKV.Proofs.Chunk
/-! # integer-semantics helpers shared by the equality proofs of the translated Go functions (split out of `TransEq.lean`) -/
namespace XixiKV.TransEq
open XixiKV XixiKV.Generated.Trans XixiKV.Frame

/-! ## integer semantics helpers -/

theorem i64_of_range {x : Int} (h1 : -9223372036854775808 ≤ x) (h2 : x < 9223372036854775808) : i64 x = x := by
  unfold i64; omega

theorem tdiv_of_nonneg {a b : Int} (h : 0 ≤ a) : Int.tdiv a b = a / b := Int.tdiv_eq_ediv_of_nonneg h
theorem ior_ofNat (a b : Nat) : ior (a : Int) (b : Int) = ((a ||| b : Nat) : Int) := rfl
theorem shr_ofNat (a k : Nat) : (a : Int) >>> k = ((a >>> k : Nat) : Int) := rfl

/-! the hand-written prelude of the generated file on sample values (two's complement) -/
example : i64 (2^63) = -2^63 := by decide
example : i64 (-2^63 - 1) = 2^63 - 1 := by decide
example : ior (-8) 3 = -5 ∧ ior 5 (-3) = -3 ∧ ior (-6) (-3) = -1 ∧ ior 12 10 = 14 := by decide
example : iand (-8) 12 = 8 ∧ iand 13 (-3) = 13 ∧ iand (-6) (-3) = -8 ∧ iand 12 10 = 8 := by decide

end XixiKV.TransEq
